package main

import (
	"encoding/json"
	"fmt"
	"strings"

	jwt "github.com/nats-io/jwt/v2"
	v1 "github.com/nats-io/jwt/v2/v1compat"
	"github.com/nats-io/nkeys"
)

// C10 — import activation tokens are bound to exporter, importer, kind and subject.

func init() { runners["C10"] = runner{run: runC10, replay: replayC10} }

type c10Replay struct {
	Importer string `json:"importer"`
	Exporter string `json:"exporter"`
	Type     int    `json:"type"`
	Subject  string `json:"subject"`
	To       string `json:"to,omitempty"`
	Token    string `json:"token"`
	Embedded bool   `json:"embedded_in_rich_account"`
	Note     string `json:"note"`
	// Genuine: a token that was validated earlier in the same process (the one Token was derived from)
	Genuine string `json:"validated_before,omitempty"`
	// Sibling: 1 / 2 = the same import list also holds, before / after the import under test, a second import that
	// carries the very same token string and is correctly bound by it (added only when the token allows one)
	Sibling int `json:"sibling_with_same_token,omitempty"`
	// ImporterTimes: 1 = the importing account's own claims are long expired, 2 = not yet valid (time-check issues are
	// recorded before the import is looked at; they must not hide a blocking issue recorded after them)
	ImporterTimes int `json:"importer_validity,omitempty"`
}

// indepActivation: the harness's own reading of an activation token (no library decoder involved):
// authentic (signature by iss over the layout its declared version demands, issuer role account/operator),
// valid header, declares kind activation, version 1 or 2.
type indepAct struct {
	ok                                      bool
	iss, sub, grant, issuerAccount, expType string
}

func indepActivation(tok string) indepAct {
	var r indepAct
	f := factsOf(tok)
	if !f.okSegs || !f.hdrOK || !f.sigOK {
		return r
	}
	if strings.ToUpper(f.hdrTyp) != "JWT" {
		return r
	}
	if a := strings.ToLower(f.hdrAlg); a != "ed25519" && a != "ed25519-nkey" {
		return r
	}
	pb, err := b64.DecodeString(f.segs[1])
	if err != nil {
		return r
	}
	var p struct {
		Iss           string      `json:"iss"`
		Sub           string      `json:"sub"`
		Type          string      `json:"type"`
		IssuerAccount string      `json:"issuer_account"`
		Exp           interface{} `json:"exp"`
		Nats          struct {
			Subject       string `json:"subject"`
			Kind          string `json:"kind"`
			Type          string `json:"type"`
			IssuerAccount string `json:"issuer_account"`
			Version       int    `json:"version"`
		} `json:"nats"`
	}
	if json.Unmarshal(pb, &p) != nil {
		return r
	}
	v1style := p.Type != ""
	declared := p.Nats.Type
	ver := p.Nats.Version
	if v1style {
		declared, ver = p.Type, 1
	}
	if declared != "activation" || (ver != 1 && ver != 2) {
		return r
	}
	text := f.segs[0] + "." + f.segs[1]
	if ver == 1 {
		text = f.segs[1]
	}
	if !oracleVerify(p.Iss, text, f.sig) {
		return r
	}
	if role, _, ok := oracleKey(p.Iss); !ok || (role != 'A' && role != 'O') {
		return r
	}
	r.ok = true
	r.iss, r.sub = p.Iss, p.Sub
	r.grant = p.Nats.Subject
	if v1style {
		r.expType = p.Nats.Type
		r.issuerAccount = p.IssuerAccount
	} else {
		r.expType = p.Nats.Kind
		r.issuerAccount = p.Nats.IssuerAccount
	}
	return r
}

func evalC10(c *Ctx, rp c10Replay) {
	if rp.Genuine != "" {
		// a server that validated the genuine import earlier: the verdict on the altered token must not depend on it
		func() {
			defer func() { recover() }()
			jwt.DecodeActivationClaims(rp.Genuine)
			g := jwt.NewAccountClaims(rp.Importer)
			g.Imports.Add(&jwt.Import{Name: "g", Subject: jwt.Subject(rp.Subject), Account: rp.Exporter, Type: jwt.ExportType(rp.Type), To: jwt.Subject(rp.To), Token: rp.Genuine})
			g.Validate(jwt.CreateValidationResults())
		}()
	}
	imp := &jwt.Import{Name: "i", Subject: jwt.Subject(rp.Subject), Account: rp.Exporter, Type: jwt.ExportType(rp.Type), To: jwt.Subject(rp.To), Token: rp.Token}
	ac := jwt.NewAccountClaims(rp.Importer)
	ac.Issuer = kr.op[0]
	switch rp.ImporterTimes {
	case 1:
		ac.Expires = 5
	case 2:
		ac.NotBefore = 1 << 40
	}
	if rp.Embedded {
		ac.Exports.Add(&jwt.Export{Subject: "own.>", Type: jwt.Stream})
		ac.Imports.Add(&jwt.Import{Subject: "other.stream", Account: kr.acct[4], Type: jwt.Stream})
		ac.SigningKeys.Add(pubOf(kpN('A', 7)))
		ac.Limits.Conn = 5
		ac.Mappings["m"] = []jwt.WeightedMapping{{Subject: "n", Weight: 50}}
	}
	var sib *jwt.Import
	if rp.Sibling != 0 {
		if a := indepActivation(rp.Token); a.ok && a.sub == rp.Importer && a.expType == "stream" && !badSubject(a.grant) &&
			(a.issuerAccount == "" || roleIs(a.issuerAccount, 'A')) {
			from := a.iss
			if a.issuerAccount != "" {
				from = a.issuerAccount
			}
			inst := strings.NewReplacer("*", "s1", ">", "s2").Replace(a.grant)
			sib = &jwt.Import{Name: "sib", Subject: jwt.Subject(inst), Account: from, Type: jwt.Stream, Token: rp.Token}
			c.Count("sibling-import-with-same-token")
		}
	}
	if sib != nil && rp.Sibling == 1 {
		ac.Imports.Add(sib)
	}
	ac.Imports.Add(imp)
	if sib != nil && rp.Sibling == 2 {
		ac.Imports.Add(sib)
	}
	r := validateOp(c, ac, true)
	if r.panicked != "" {
		c.Violate("panic", "Validate panicked: "+r.panicked, rp)
		return
	}
	// the oracle: the five binding conditions, from the harness's own reading of the token
	a := indepActivation(rp.Token)
	imported := rp.Subject
	if rp.Type == 2 && rp.To != "" {
		imported = rp.To
	}
	typeName := map[int]string{1: "stream", 2: "service"}[rp.Type]
	var why []string
	if !a.ok {
		why = append(why, "not an authentic decodable activation")
	} else {
		if !(a.iss == rp.Exporter || a.issuerAccount == rp.Exporter) {
			why = append(why, "not issued by the exporting account")
		}
		if a.sub != rp.Importer {
			why = append(why, "not addressed to the importing account")
		}
		if a.expType != typeName {
			why = append(why, "kind differs")
		}
		if !semContained(imported, a.grant) {
			why = append(why, "granted subject does not contain the imported subject")
		}
		if badSubject(a.grant) || (a.expType != "stream" && a.expType != "service") || (a.issuerAccount != "" && !roleIs(a.issuerAccount, 'A')) {
			why = append(why, "activation itself invalid")
		}
	}
	wantBlocking := len(why) > 0
	c.Count(fmt.Sprintf("bound=%v:%s", !wantBlocking, rp.Note))
	if r.blocking != wantBlocking {
		if wantBlocking {
			c.Violate("unbound-token-accepted", "import validates although its token is "+strings.Join(why, "; "), rp)
		} else {
			c.Violate("bound-token-rejected", "import with a token satisfying every binding condition is reported blocking", rp)
		}
	}
}

// semContained: semantic containment for valid subjects (the independent side of M13).
func semContained(p, q string) bool {
	if badSubject(p) || badSubject(q) {
		return jwt.Subject(p).IsContainedIn(jwt.Subject(q)) // invalid subjects: nothing semantic to compare with
	}
	return semContainedLocal(strings.Split(p, "."), strings.Split(q, "."))
}

func runC10(c *Ctx) {
	c.Res.Rule = "every combination of satisfying/violating each of the five binding conditions (issuer = exporter directly or via issuer_account, addressed to the importer, same kind, granted subject contains the imported subject, token authentic) x signer {exporter identity, exporter signing key + issuer_account, operator + issuer_account} x layout {v2, v1} x random accounts / subjects / kinds / expiry, standalone and embedded in a rich account, in an importing account that is itself expired / not yet valid or neither, alone and next to a second import of the same list that carries the same token string and is correctly bound by it; plus tampered tokens, non-activation tokens (user tokens; generic claims without a kind whose data section is shaped like a fitting activation) and garbage. Oracle: the import is non-blocking exactly when the harness's own reading of the token (own header/payload parser, own nkey decoder, crypto/ed25519) satisfies all conditions; semantic containment is decided independently. non-trivial = distinct (import, token) pairs."
	rng = rngT{c.R}
	subjects := []struct{ imported, grantOK, grantBad string }{
		{"foo.bar", "foo.>", "foo.baz"}, {"foo.bar", "foo.bar", "foo"}, {"a.*", "a.*", "a.b"}, {"a.*.c", "a.>", "b.>"},
		{"x", "*", "x.y"}, {"q.>", "q.>", "q.*"}, {"q.>", ">", "q.a"}, {"t.u.v", "t.*.v", "t.*"}, {"a.>", "a.>", "a.*"},
	}
	rounds := c.N(2, 25)
	for round := 0; round < rounds; round++ {
		for mask := 0; mask < 32; mask++ {
			for signer := 0; signer < 3; signer++ {
				for _, layout := range []string{"v2", "v1"} {
					ex := c.R.Intn(3)
					importer := kr.acct[3+c.R.Intn(2)]
					exporter := kr.acct[ex]
					sb := subjects[c.R.Intn(len(subjects))]
					typ := 1 + c.R.Intn(2)
					to := ""
					imported := sb.imported
					if typ == 2 && c.R.Chance(30) {
						to = imported
						imported = "renamed.local" // the import's Subject; the bound subject is To
					} else if typ == 1 && c.R.Chance(35) {
						// a stream import may carry the deprecated To as well: the binding is still about Subject
						to = []string{"elsewhere.local", sb.grantBad, "zzz.>", sb.imported}[c.R.Intn(4)]
					}
					// build the activation
					actSub, actType, grant := importer, typ, sb.grantOK
					if mask&1 != 0 {
						actSub = kr.acct[(ex+1)%3] // not addressed to the importer
					}
					if mask&2 != 0 {
						actType = 3 - typ
					}
					if mask&4 != 0 {
						grant = sb.grantBad
					}
					var kp nkeys.KeyPair = kr.akps[ex]
					issuerAccount := ""
					switch signer {
					case 1:
						kp = kpN('A', 10+ex)
						issuerAccount = exporter
					case 2:
						kp = kpN('O', 1)
						issuerAccount = exporter
					}
					if mask&8 != 0 { // issuer does not match the exporter
						if signer == 0 {
							kp = kr.akps[(ex+1)%3]
						} else {
							issuerAccount = kr.acct[(ex+1)%3]
						}
					}
					exp := int64(0)
					if c.R.Chance(40) {
						exp = 5 // long expired: deliberately irrelevant
					}
					var tok string
					var err error
					if layout == "v2" {
						a := jwt.NewActivationClaims(actSub)
						a.ImportSubject, a.ImportType, a.IssuerAccount, a.Expires = jwt.Subject(grant), jwt.ExportType(actType), issuerAccount, exp
						tok, err = a.Encode(kp)
					} else {
						a := v1.NewActivationClaims(actSub)
						a.ImportSubject, a.ImportType, a.IssuerAccount, a.Expires = v1.Subject(grant), v1.ExportType(actType), issuerAccount, exp
						tok, err = a.Encode(kp)
					}
					must(err)
					note := "well-formed"
					genuine := ""
					if mask&16 != 0 { // tampered / foreign
						genuine = tok
						switch c.R.Intn(6) {
						case 5:
							// not an activation at all: generic claims without any kind whose data section is shaped like
							// an activation that would satisfy every binding
							g := jwt.NewGenericClaims(actSub)
							g.Data["subject"] = grant
							g.Data["kind"] = map[int]string{1: "stream", 2: "service"}[actType]
							if issuerAccount != "" {
								g.Data["issuer_account"] = issuerAccount
							}
							tok, _ = g.Encode(kp)
							note = "typeless-generic-shaped-like-activation"
						case 4:
							// the payload altered so that it grants everything, under the genuine signature
							segs := strings.Split(tok, ".")
							pb, _ := b64.DecodeString(segs[1])
							pb2 := []byte(strings.Replace(string(pb), `"`+grant+`"`, `">"`, 1))
							tok, note = segs[0]+"."+b64.EncodeToString(pb2)+"."+segs[2], "tampered-payload-wider-grant"
						case 0:
							b := []byte(tok)
							i := strings.LastIndex(tok, ".") + 1 + c.R.Intn(10)
							b[i] = b64Alphabet[(strings.IndexByte(b64Alphabet, b[i])+7)%64]
							tok, note = string(b), "tampered-signature"
						case 1:
							segs := strings.Split(tok, ".")
							pb, _ := b64.DecodeString(segs[1])
							pb2 := []byte(strings.Replace(string(pb), grant, "zzz.>", 1))
							tok, note = segs[0]+"."+b64.EncodeToString(pb2)+"."+segs[2], "tampered-payload"
						case 2:
							u := jwt.NewUserClaims(kr.user[0])
							tok, _ = u.Encode(kr.akps[ex])
							note = "user-token"
						default:
							tok, note = "garbage."+tok[:20], "garbage"
						}
					}
					rp := c10Replay{importer, exporter, typ, imported, to, tok, c.R.Bool(), fmt.Sprintf("%s:mask=%d:signer=%d:%s", note, mask, signer, layout), genuine, 0, 0}
					rp.Note = note + ":" + layout
					evalC10(c, rp)
					if actType == 1 {
						rp2 := rp
						rp2.Sibling = 1 + c.R.Intn(2)
						evalC10(c, rp2)
					}
					rp3 := rp
					rp3.ImporterTimes = 1 + c.R.Intn(2)
					evalC10(c, rp3)
					if round == 0 && mask == 0 && signer == 0 && layout == "v2" {
						c.Sample(rp)
					}
				}
			}
		}
	}
}

func replayC10(c *Ctx, raw json.RawMessage) {
	var rp c10Replay
	must(json.Unmarshal(raw, &rp))
	evalC10(c, rp)
}
