package main

import (
	"crypto/ed25519"
	"encoding/base32"
)

// Independent nkey public-key decoder for the oracles (no call into github.com/nats-io/nkeys):
// unpadded std base32, CRC-16/XMODEM (little endian) over everything but the last two bytes, prefix byte.

var oracleB32 = base32.StdEncoding.WithPadding(base32.NoPadding)

func crc16x(data []byte) uint16 {
	var crc uint16
	for _, b := range data {
		crc ^= uint16(b) << 8
		for i := 0; i < 8; i++ {
			if crc&0x8000 != 0 {
				crc = crc<<1 ^ 0x1021
			} else {
				crc <<= 1
			}
		}
	}
	return crc
}

// oracleKey returns (role letter, raw key bytes, ok). Role letters: O A U N C X.
func oracleKey(s string) (byte, []byte, bool) {
	raw, err := oracleB32.DecodeString(s)
	if err != nil || len(raw) < 4 {
		return 0, nil, false
	}
	body := raw[:len(raw)-2]
	want := uint16(raw[len(raw)-2]) | uint16(raw[len(raw)-1])<<8
	if crc16x(body) != want {
		return 0, nil, false
	}
	var role byte
	switch body[0] & 248 {
	case 14 << 3:
		role = 'O'
	case 13 << 3:
		role = 'N'
	case 2 << 3:
		role = 'C'
	case 0:
		role = 'A'
	case 20 << 3:
		role = 'U'
	case 23 << 3:
		role = 'X'
	default:
		return 0, nil, false
	}
	return role, body[1:], true
}

// oracleVerify: is sig an Ed25519 signature by the key named by issuer over text?
func oracleVerify(issuer string, text string, sig []byte) bool {
	role, key, ok := oracleKey(issuer)
	if !ok || role == 'X' || len(key) != ed25519.PublicKeySize {
		return false
	}
	// FromPublicKey demands the exact prefix byte, IsValidPublic*Key masks it: re-check exactness
	raw, _ := oracleB32.DecodeString(issuer)
	switch raw[0] {
	case 14 << 3, 13 << 3, 2 << 3, 0, 20 << 3:
	default:
		return false
	}
	return ed25519.Verify(ed25519.PublicKey(key), []byte(text), sig)
}

// encodeNkeyRaw: a well-formed nkey string (prefix byte, payload of ANY length, CRC) - to forge issuers whose
// key is not 32 bytes long.
func encodeNkeyRaw(prefix byte, key []byte) string {
	body := append([]byte{prefix}, key...)
	crc := crc16x(body)
	body = append(body, byte(crc), byte(crc>>8))
	return oracleB32.EncodeToString(body)
}
