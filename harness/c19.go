package main

import (
	"crypto/sha512"
	"encoding/base32"
	"encoding/json"
	"fmt"
	"net/url"
	"reflect"
	"strings"

	v1 "github.com/nats-io/jwt/v2/v1compat"
	"github.com/nats-io/nkeys"
)

// C19 — the bundled version-1 library is self-consistent.

func init() { runners["C19"] = runner{run: runC19, replay: replayC19} }

type c19Replay struct {
	Kind   string `json:"kind"`
	Token  string `json:"token"`
	Origin string `json:"origin,omitempty"`
	How    string `json:"how"`
}

var v1Kinds7 = []string{"operator", "account", "user", "activation", "cluster", "server", "generic"}

func v1New(kind string) v1.Claims {
	switch kind {
	case "operator":
		return &v1.OperatorClaims{}
	case "account":
		return &v1.AccountClaims{}
	case "user":
		return &v1.UserClaims{}
	case "activation":
		return &v1.ActivationClaims{}
	case "cluster":
		return &v1.ClusterClaims{}
	case "server":
		return &v1.ServerClaims{}
	}
	return &v1.GenericClaims{}
}

func v1Decode(kind, tok string) (cl v1.Claims, err error) {
	defer func() {
		if r := recover(); r != nil {
			err = fmt.Errorf("panic: %v", r)
		}
	}()
	switch kind {
	case "operator":
		c, e := v1.DecodeOperatorClaims(tok)
		if e != nil {
			return nil, e
		}
		return c, nil
	case "account":
		c, e := v1.DecodeAccountClaims(tok)
		if e != nil {
			return nil, e
		}
		return c, nil
	case "user":
		c, e := v1.DecodeUserClaims(tok)
		if e != nil {
			return nil, e
		}
		return c, nil
	case "activation":
		c, e := v1.DecodeActivationClaims(tok)
		if e != nil {
			return nil, e
		}
		return c, nil
	case "cluster":
		c, e := v1.DecodeClusterClaims(tok)
		if e != nil {
			return nil, e
		}
		return c, nil
	case "server":
		c, e := v1.DecodeServerClaims(tok)
		if e != nil {
			return nil, e
		}
		return c, nil
	}
	c, e := v1.DecodeGeneric(tok)
	if e != nil {
		return nil, e
	}
	return c, nil
}

var v1Roles = map[string]string{"operator": "O", "account": "AO", "activation": "AO", "user": "A", "cluster": "OC", "server": "OC", "generic": "OAUNC"}
var v1SubjectRole = map[string]byte{"operator": 'O', "account": 'A', "user": 'U', "activation": 'A', "cluster": 'C', "server": 'N'}

func v1Random(c *Ctx, kind string) (v1.Claims, nkeys.KeyPair) {
	g := &Gen{r: c.R, maxDepth: 7, plain: true}
	cl := v1New(kind)
	g.fill(reflect.ValueOf(cl).Elem(), 0, "")
	n := c.R.Intn(4)
	if r, ok := v1SubjectRole[kind]; ok {
		cl.Claims().Subject = pubOf(kpN(r, n))
	} else if cl.Claims().Subject == "" {
		cl.Claims().Subject = "s"
	}
	if oc, ok := cl.(*v1.OperatorClaims); ok {
		oc.AccountServerURL = []string{"", "http://h.example/jwt/v1", "nats://x"}[c.R.Intn(3)]
	}
	roles := v1Roles[kind]
	// mostly a signer of a permitted role; sometimes the claim's own subject key (self-signed, whatever its role)
	// or a key of an arbitrary role: whatever Encode emits its own decoder must accept
	if r, ok := v1SubjectRole[kind]; ok && c.R.Chance(20) {
		c.Count("self-signed:" + kind)
		return cl, kpN(r, n)
	}
	if c.R.Chance(10) {
		c.Count("arbitrary-signer-role")
		return cl, kpN([]byte{'O', 'A', 'U', 'N', 'C'}[c.R.Intn(5)], c.R.Intn(4))
	}
	return cl, kpN(roles[c.R.Intn(len(roles))], c.R.Intn(4))
}

// v1Check: decode tok with the decoder of `kind`; oracle + model op
func v1Check(c *Ctx, kind, tok string, rp c19Replay, wantDump string) (accepted bool) {
	f := factsOf(tok)
	cl, err := v1Decode(kind, tok)
	if err != nil && strings.HasPrefix(err.Error(), "panic") {
		c.Violate("panic", "v1 decoder panicked: "+err.Error(), rp)
		return false
	}
	issuer := f.iss
	if err == nil {
		issuer = cl.Claims().Issuer
	}
	b1 := f.okSegs && f.sigOK && oracleVerify(issuer, f.segs[1], f.sig)
	impl := "err"
	if err == nil {
		impl = "ok " + dumpAny(cl)
		accepted = true
		// oracle: authentic over the payload segment under the reported issuer, permitted role, v1 header
		if !b1 {
			c.Violate("authenticity", "v1 decoder accepted a token whose signature does not verify over the payload under the reported issuer", rp)
		}
		role, _, ok := oracleKey(issuer)
		if !ok || !strings.ContainsRune(v1Roles[kind], rune(role)) {
			c.Violate("issuer-role", fmt.Sprintf("v1 %s decoder accepted an issuer of role %c", kind, role), rp)
		}
		if strings.ToLower(f.hdrTyp) != "jwt" || strings.ToLower(f.hdrAlg) != "ed25519" {
			c.Violate("header", "v1 decoder accepted header typ="+f.hdrTyp+" alg="+f.hdrAlg, rp)
		}
		if wantDump != "" && dumpNorm(cl) != wantDump {
			c.Violate("alteration", "v1 decoder accepted an altered token with different content", rp)
		}
	}
	c.Op(impl, accepted, "v1decode", kind, hx(tok), hx(issuer), bit(b1))
	return
}

func runC19(c *Ctx) {
	c.Res.Rule = "version-1 claims of all seven kinds from the reflective generator (every field set or not, int64 edges, special strings) x every signer role the v1 library permits (and, in a fifth of the cases, the claim's own subject key - self-signed - or a key of an arbitrary role: a token Encode emits must be accepted by its own decoder): v1 Encode -> own decoder: all fields preserved (reflective compare modulo nil/empty); every token also through the Lean model of v1 Encode and Decode; single-character substitutions / insertions / deletions in payload and signature (sampled in quick, exhaustive positions on a pool in thorough): refused or identical content; alterations that leave the base64url alphabet (padding, +, /, line breaks, blanks in every segment); forged wrong-role issuers (correctly signed; also naming themselves as subject; also with the payload's own `type` member removed, unknown, or naming another kind); v2-header tokens. non-trivial = distinct tokens."
	type vt struct{ kind, tok, dump string }
	var pool []vt
	n := c.N(400, 40000)
	for i := 0; i < n; i++ {
		kind := v1Kinds7[c.R.Intn(7)]
		cl, kp := v1Random(c, kind)
		rp := c19Replay{kind, "", "", "roundtrip"}
		pre := dumpAny(cl)
		prevID := cl.Claims().ID
		urlok := "1"
		if oc, ok := cl.(*v1.OperatorClaims); ok && oc.AccountServerURL != "" {
			if u, err := url.Parse(oc.AccountServerURL); err != nil || u.Scheme == "" {
				urlok = "0"
			}
		}
		var tok string
		var err error
		if p := safeCreds(func() { tok, err = cl.Encode(kp) }); p != "" {
			c.Violate("panic", "v1 Encode panicked: "+p, rp)
			continue
		}
		impl := "err"
		if err == nil {
			segs := strings.Split(tok, ".")
			hb, _ := b64.DecodeString(segs[0])
			pb, _ := b64.DecodeString(segs[1])
			cd := *cl.Claims()
			id := cd.ID
			cd.ID = prevID
			preimage, _ := json.Marshal(&cd)
			sum := sha512.Sum512_256(preimage)
			want := base32.StdEncoding.WithPadding(base32.NoPadding).EncodeToString(sum[:])
			ptext := string(pb)
			if id != want {
				c.Violate("id", "v1 token id is not the hash of the standard fields", rp)
			}
			ptext = strings.Replace(ptext, `"jti":"`+id+`"`, `"jti":"@@JTI@@"`, 1)
			after := strings.Replace(dumpAny(cl), hx("jti")+":s"+hx(id), hx("jti")+":s"+hx("@@JTI@@"), 1)
			impl = "ok " + hx(string(hb)) + " " + hx(ptext) + " " + hx(string(preimage)) + " " + after
		}
		c.Op(impl, err == nil, "v1encode", kind, hx(pre), fmt.Sprint(cl.Claims().IssuedAt), hx(pubOf(kp)), urlok)
		if err != nil {
			c.Count("encode-error:" + kind)
			continue
		}
		rp.Token = tok
		want := dumpNorm(cl)
		if !v1Check(c, kind, tok, rp, "") {
			c.Violate("roundtrip", "the v1 decoder refuses a token its own encoder emitted ("+kind+")", rp)
			continue
		}
		back, _ := v1Decode(kind, tok)
		if got := dumpNorm(back); got != want {
			c.Violate("roundtrip", "v1 "+kind+" claims changed across encode/decode: "+firstDiff(want, got), rp)
		}
		c.Count("roundtrip:" + kind)
		if len(pool) < c.N(14, 28) {
			pool = append(pool, vt{kind, tok, want})
		}
		if i == 0 {
			c.Sample(rp)
		}
	}
	// single-character edits of payload and signature
	for _, p := range pool {
		segs := strings.Split(p.tok, ".")
		lo := len(segs[0]) + 1
		positions := len(p.tok) - lo
		edit := func(pos, mode int) {
			i := lo + pos
			if p.tok[i] == '.' {
				return
			}
			ch := b64Alphabet[c.R.Intn(64)]
			var t string
			switch mode {
			case 0:
				if p.tok[i] == ch {
					ch = b64Alphabet[(strings.IndexByte(b64Alphabet, ch)+1)%64]
				}
				t = p.tok[:i] + string(ch) + p.tok[i+1:]
			case 1:
				t = p.tok[:i] + string(ch) + p.tok[i:]
			default:
				t = p.tok[:i] + p.tok[i+1:]
			}
			v1Check(c, p.kind, t, c19Replay{p.kind, t, p.tok, []string{"subst", "insert", "delete"}[mode]}, p.dump)
			c.Count("edit")
		}
		if c.Thorough() {
			for pos := 0; pos < positions; pos++ {
				for m := 0; m < 3; m++ {
					edit(pos, m)
				}
			}
		} else {
			for e := 0; e < 30; e++ {
				edit(c.R.Intn(positions), c.R.Intn(3))
			}
			edit(positions-1, 0)
			edit(len(segs[1])-1, 0)
		}
	}
	// alterations that leave the base64url alphabet (padding, '+', '/', line breaks, blanks)
	for _, p := range pool {
		ts, hows := alphabetEdits(p.tok)
		for i, t := range ts {
			v1Check(c, p.kind, t, c19Replay{p.kind, t, p.tok, hows[i]}, p.dump)
			c.Count("alphabet-edit")
		}
	}
	// forged issuers of every role, correctly signed over the payload, and v2-style headers
	for _, p := range pool {
		segs := strings.Split(p.tok, ".")
		pb, _ := b64.DecodeString(segs[1])
		for _, role := range []byte{'O', 'A', 'U', 'N', 'C'} {
			kp := kpN(role, 7)
			for variant := 0; variant < 5; variant++ {
				// self: the forged issuer also names itself as subject (a key minting its own claim); the other variants
				// change what the payload says about its own kind (absent, unknown, another kind's name): the role rule
				// belongs to the decoder that is called, not to anything the token says
				self := variant == 1
				payload := setJSONPath(string(pb), func(m map[string]interface{}) {
					m["iss"] = pubOf(kp)
					if self {
						m["sub"] = pubOf(kp)
					}
					switch variant {
					case 2:
						delete(m, "type")
					case 3:
						m["type"] = "something-else"
					case 4:
						m["type"] = []string{"operator", "account", "user", "activation", "cluster", "server"}[c.R.Intn(6)]
					}
				})
				how := []string{"forged-", "forged-selfsigned-", "forged-notype-", "forged-unknowntype-", "forged-othertype-"}[variant]
				for _, hdr := range []string{hdrV1, hdrV2, `{"typ":"JWT","alg":"ED25519"}`, `{"typ":"jwt","alg":"ed25519-nkey"}`, `{"typ":"jwt","alg":"none"}`} {
					for _, lay := range []string{"v1", "v2"} {
						t := forge(hdr, payload, kp, lay)
						v1Check(c, p.kind, t, c19Replay{p.kind, t, p.tok, how + string(role) + "-" + lay}, "")
						c.Count("forged")
					}
				}
			}
		}
	}
}

func replayC19(c *Ctx, raw json.RawMessage) {
	var rp c19Replay
	must(json.Unmarshal(raw, &rp))
	if rp.Token == "" {
		runC19(c)
		return
	}
	want := ""
	if rp.Origin != "" && (rp.How == "subst" || rp.How == "insert" || rp.How == "delete") {
		if cl, err := v1Decode(rp.Kind, rp.Origin); err == nil {
			want = dumpNorm(cl)
		}
	}
	v1Check(c, rp.Kind, rp.Token, rp, want)
}
