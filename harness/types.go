package main

import (
	"reflect"

	jwt "github.com/nats-io/jwt/v2"
	v1 "github.com/nats-io/jwt/v2/v1compat"
)

// exported struct types whose JSON codec is compared with the generated schema of the same name
var codecTypes = map[string]reflect.Type{
	"V2.OperatorClaims":              reflect.TypeOf(jwt.OperatorClaims{}),
	"V2.AccountClaims":               reflect.TypeOf(jwt.AccountClaims{}),
	"V2.UserClaims":                  reflect.TypeOf(jwt.UserClaims{}),
	"V2.ActivationClaims":            reflect.TypeOf(jwt.ActivationClaims{}),
	"V2.AuthorizationRequestClaims":  reflect.TypeOf(jwt.AuthorizationRequestClaims{}),
	"V2.AuthorizationResponseClaims": reflect.TypeOf(jwt.AuthorizationResponseClaims{}),
	"V2.GenericClaims":               reflect.TypeOf(jwt.GenericClaims{}),
	"V2.Export":                      reflect.TypeOf(jwt.Export{}),
	"V2.Import":                      reflect.TypeOf(jwt.Import{}),
	"V2.UserScope":                   reflect.TypeOf(jwt.UserScope{}),
	"V2.Header":                      reflect.TypeOf(jwt.Header{}),
	"V2.ClaimsData":                  reflect.TypeOf(jwt.ClaimsData{}),
	"V2.OperatorLimits":              reflect.TypeOf(jwt.OperatorLimits{}),
	"V2.UserPermissionLimits":        reflect.TypeOf(jwt.UserPermissionLimits{}),
	"V1.OperatorClaims":              reflect.TypeOf(v1.OperatorClaims{}),
	"V1.AccountClaims":               reflect.TypeOf(v1.AccountClaims{}),
	"V1.UserClaims":                  reflect.TypeOf(v1.UserClaims{}),
	"V1.ActivationClaims":            reflect.TypeOf(v1.ActivationClaims{}),
	"V1.ClusterClaims":               reflect.TypeOf(v1.ClusterClaims{}),
	"V1.ServerClaims":                reflect.TypeOf(v1.ServerClaims{}),
	"V1.GenericClaims":               reflect.TypeOf(v1.GenericClaims{}),
	"V1.Header":                      reflect.TypeOf(v1.Header{}),
}

var codecTypeNames = func() []string {
	var ns []string
	for n := range codecTypes {
		ns = append(ns, n)
	}
	sortStrings(ns)
	return ns
}()
