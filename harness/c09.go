package main

import (
	"encoding/json"
	"fmt"
	"sort"
	"strconv"
	"strings"
	"time"

	jwt "github.com/nats-io/jwt/v2"
)

// C09 — revocation answers follow the revoke / clear / compact history.

func init() { runners["C09"] = runner{run: runC09, replay: replayC09} }

type revOp struct {
	K   string `json:"k"` // "r" revoke-at, "c" clear, "k" compact
	Key string `json:"key,omitempty"`
	T   int64  `json:"t,omitempty"`
}

type c09Replay struct {
	Target string   `json:"target"` // account | export
	Ops    []revOp  `json:"ops"`
	QKeys  []string `json:"qkeys"`
	QTimes []int64  `json:"qtimes"`
}

type revTarget interface {
	RevokeAt(string, time.Time)
	ClearRevocation(string)
}

func showRevMap(m map[string]int64) string {
	var ks []string
	for k := range m {
		ks = append(ks, hx(k))
	}
	sort.Strings(ks)
	var parts []string
	for _, hk := range ks {
		for k, v := range m {
			if hx(k) == hk {
				parts = append(parts, fmt.Sprintf("%s=%d", hk, v))
			}
		}
	}
	return strings.Join(parts, ";")
}

// runHistory executes a history on the real code; returns the canonical per-step transcript and
// checks the property oracle (a reference map) at every step.
func runHistory(c *Ctx, r c09Replay) string {
	ukp := mustKP('U')
	acct := jwt.NewAccountClaims(pubOf(mustKP('A')))
	exp := &jwt.Export{Subject: "x", Type: jwt.Stream}
	ref := map[string]int64{}
	get := func() jwt.RevocationList {
		if r.Target == "export" {
			return exp.Revocations
		}
		return acct.Revocations
	}
	_ = ukp
	var outs []string
	fail := func(what string) {
		c.Violate("revocation", what, r)
	}
	for step, op := range r.Ops {
		var deleted []jwt.RevocationEntry
		switch op.K {
		case "r":
			if r.Target == "export" {
				exp.RevokeAt(op.Key, time.Unix(op.T, 0))
			} else {
				acct.RevokeAt(op.Key, time.Unix(op.T, 0))
			}
			if old, ok := ref[op.Key]; !ok || old <= op.T {
				ref[op.Key] = op.T
			}
		case "c":
			if r.Target == "export" {
				exp.ClearRevocation(op.Key)
			} else {
				acct.ClearRevocation(op.Key)
			}
			delete(ref, op.Key)
		case "k":
			deleted = get().MaybeCompact()
			// oracle: removes precisely the entries covered by the wildcard, returns them
			want := map[string]int64{}
			if ats, ok := ref[jwt.All]; ok {
				for k, v := range ref {
					if k != jwt.All && v <= ats {
						want[k] = v
					}
				}
			}
			got := map[string]int64{}
			for _, e := range deleted {
				got[e.PublicKey] = e.TimeStamp
			}
			if showRevMap(got) != showRevMap(want) || len(deleted) != len(want) {
				fail(fmt.Sprintf("step %d: MaybeCompact returned [%s], expected the wildcard-covered entries [%s]", step, showRevMap(got), showRevMap(want)))
			}
			for k := range want {
				delete(ref, k)
			}
		}
		cur := map[string]int64{}
		for k, v := range get() {
			cur[k] = v
		}
		if showRevMap(cur) != showRevMap(ref) {
			fail(fmt.Sprintf("step %d (%v): stored revocations [%s] differ from the history's [%s]", step, op, showRevMap(cur), showRevMap(ref)))
		}
		dm := map[string]int64{}
		for _, e := range deleted {
			dm[e.PublicKey] = e.TimeStamp
		}
		var bits strings.Builder
		for _, k := range r.QKeys {
			for _, t := range r.QTimes {
				got := get().IsRevoked(k, time.Unix(t, 0))
				want := false
				if v, ok := ref[k]; ok && v >= t {
					want = true
				}
				if v, ok := ref[jwt.All]; ok && v >= t {
					want = true
				}
				if got != want {
					fail(fmt.Sprintf("step %d: IsRevoked(%q,%d)=%v but history says %v", step, k, t, got, want))
				}
				// claim-level wrappers
				if k != "" && t != 0 {
					var cg bool
					if r.Target == "export" {
						ac := jwt.NewActivationClaims(k)
						ac.IssuedAt = t
						cg = exp.IsClaimRevoked(ac)
					} else {
						uc := jwt.NewUserClaims(k)
						uc.IssuedAt = t
						cg = acct.IsClaimRevoked(uc)
					}
					if cg != want {
						fail(fmt.Sprintf("step %d: IsClaimRevoked(sub=%q,iat=%d)=%v but history says %v", step, k, t, cg, want))
					}
				}
				if got {
					bits.WriteByte('1')
				} else {
					bits.WriteByte('0')
				}
			}
		}
		outs = append(outs, fmt.Sprintf("map[%s]del[%s]q[%s]", showRevMap(cur), showRevMap(dm), bits.String()))
	}
	return strings.Join(outs, "|")
}

func (r c09Replay) opLine() []string {
	var qk, qt []string
	for _, k := range r.QKeys {
		qk = append(qk, hx(k))
	}
	for _, t := range r.QTimes {
		qt = append(qt, strconv.FormatInt(t, 10))
	}
	args := []string{strings.Join(qk, ","), strings.Join(qt, ",")}
	for _, o := range r.Ops {
		switch o.K {
		case "r":
			args = append(args, fmt.Sprintf("r:%s:%d", hx(o.Key), o.T))
		case "c":
			args = append(args, "c:"+hx(o.Key))
		default:
			args = append(args, "k")
		}
	}
	return args
}

func runC09(c *Ctx) {
	c.Res.Rule = "histories of revoke-at/clear/compact over keys {A,B,*} x times {1,2,3}: exhaustive to length L (quick 4, thorough 5) on the account list and the export list, random to length 200 over a wider key/time alphabet; after EVERY step: stored map, compaction's return value, and all (key,time) answers of IsRevoked and IsClaimRevoked compared with a reference map (oracle) and with the Lean model (correspondence). non-trivial = distinct histories."
	keys := []string{"A", "B", jwt.All}
	times := []int64{1, 2, 3}
	var alphabet []revOp
	for _, k := range keys {
		for _, t := range times {
			alphabet = append(alphabet, revOp{"r", k, t})
		}
		alphabet = append(alphabet, revOp{"c", k, 0})
	}
	alphabet = append(alphabet, revOp{K: "k"})
	maxLen := c.N(4, 5)
	var rec func(cur []revOp)
	rec = func(cur []revOp) {
		if len(cur) == maxLen {
			for _, tgt := range []string{"account", "export"} {
				r := c09Replay{tgt, append([]revOp{}, cur...), keys, []int64{0, 1, 2, 3, 4}}
				out := runHistory(c, r)
				if tgt == "account" {
					c.Op(out, true, "rev", r.opLine()...)
				} else {
					c.Eval("export:"+strings.Join(r.opLine(), " "), true)
				}
			}
			c.Count(fmt.Sprintf("exhaustive-len-%d", len(cur)))
			return
		}
		for _, a := range alphabet {
			rec(append(cur, a))
		}
	}
	rec(nil)
	c.Res.Exhaustive = true
	c.Res.Extra["exhaustive_history_length"] = maxLen
	c.Res.Extra["alphabet_ops"] = len(alphabet)

	// random long histories
	wide := []string{"A", "B", "C", "UABC", jwt.All, "*x", " "}
	n := c.N(300, 20000)
	for i := 0; i < n; i++ {
		l := 1 + c.R.Intn(c.N(60, 200))
		var ops []revOp
		for j := 0; j < l; j++ {
			switch x := c.R.Intn(10); {
			case x < 6:
				ops = append(ops, revOp{"r", c.R.Pick(wide), int64(c.R.Intn(9)) - 2 + int64(c.R.Intn(2))*1000000})
			case x < 8:
				ops = append(ops, revOp{"c", c.R.Pick(wide), 0})
			default:
				ops = append(ops, revOp{K: "k"})
			}
		}
		tgt := "account"
		if c.R.Bool() {
			tgt = "export"
		}
		r := c09Replay{tgt, ops, wide, []int64{-3, -1, 0, 1, 2, 5, 7, 1000000, 1000003}}
		out := runHistory(c, r)
		c.Op(out, true, "rev", r.opLine()...)
		c.Count("random")
		if i == 0 {
			c.Sample(r)
		}
	}
	// fail-closed guards
	acct := jwt.NewAccountClaims(pubOf(mustKP('A')))
	exp := &jwt.Export{}
	guards := 0
	chk := func(name string, got bool) {
		guards++
		c.Eval("guard:"+name, true)
		if !got {
			c.Violate("fail-closed", name+" was reported as not revoked", map[string]string{"guard": name})
		}
	}
	chk("account nil claim", acct.IsClaimRevoked(nil))
	u := jwt.NewUserClaims("UX")
	chk("account claim without issue time", acct.IsClaimRevoked(u))
	u2 := &jwt.UserClaims{}
	u2.IssuedAt = 5
	chk("account claim without subject", acct.IsClaimRevoked(u2))
	chk("export nil claim", exp.IsClaimRevoked(nil))
	a := jwt.NewActivationClaims("AX")
	chk("export claim without issue time", exp.IsClaimRevoked(a))
	a2 := &jwt.ActivationClaims{}
	a2.IssuedAt = 5
	chk("export claim without subject", exp.IsClaimRevoked(a2))
	c.Op("true", true, "claimrevoked", "", "nil")
	c.Op("true", true, "claimrevoked", "", hx("UX")+":0")
	c.Op("true", true, "claimrevoked", "", ":5")
	c.Res.Extra["guards_checked"] = guards

	// answers survive encode/decode
	okp := mustKP('O')
	akp := mustKP('A')
	for i := 0; i < c.N(20, 300); i++ {
		ac := jwt.NewAccountClaims(pubOf(akp))
		nrev := c.R.Intn(5)
		for j := 0; j < nrev; j++ {
			ac.RevokeAt(c.R.Pick(wide), time.Unix(int64(c.R.Intn(2000000)), 0))
		}
		ex := &jwt.Export{Subject: "foo", Type: jwt.Stream}
		for j := 0; j < c.R.Intn(4); j++ {
			ex.RevokeAt(c.R.Pick(wide), time.Unix(int64(c.R.Intn(2000000)), 0))
		}
		ac.Exports.Add(ex)
		tok, err := ac.Encode(okp)
		if err != nil {
			c.Violate("codec", "account with revocations does not encode: "+err.Error(), nil)
			continue
		}
		ac2, err := jwt.DecodeAccountClaims(tok)
		c.Eval("codec:"+tok, true)
		if err != nil {
			c.Violate("codec", "account with revocations does not decode: "+err.Error(), map[string]string{"token": tok})
			continue
		}
		if showRevMap(ac2.Revocations) != showRevMap(ac.Revocations) || showRevMap(ac2.Exports[0].Revocations) != showRevMap(ex.Revocations) {
			c.Violate("codec", "revocations changed across encode/decode", map[string]string{"token": tok})
		}
		c.Count("codec-roundtrip")
	}
}

func replayC09(c *Ctx, raw json.RawMessage) {
	var r c09Replay
	if json.Unmarshal(raw, &r) != nil || len(r.Ops) == 0 {
		// guards and codec cases: re-run the whole quick stream
		runC09(c)
		return
	}
	runHistory(c, r)
}
