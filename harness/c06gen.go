package main

// Structured generator for C06 (adapted from the design-round probe): mostly-clean claims of the six
// validated kinds in which every construct is, with a small probability, replaced by a catalogued violation
// (random element, list position and magnitude). All randomness comes from the harness PRNG.

import (
	"strconv"
	"strings"
	"time"

	jwt "github.com/nats-io/jwt/v2"
	"github.com/nats-io/nkeys"
)

type rngT struct{ r *Rng }

func (x rngT) Intn(n int) int { return x.r.Intn(n) }

var rng rngT
var pBad = 0.04

func chance(p float64) bool { return float64(rng.r.U64()>>11)/float64(1<<53) < p }

func pick(good, bad []string) string {
	if chance(pBad) {
		return bad[rng.Intn(len(bad))]
	}
	return good[rng.Intn(len(good))]
}

type keyring struct {
	acct, user, op, server, curve []string
	akps                          []nkeys.KeyPair
}

var kr = func() keyring {
	var k keyring
	for i := 0; i < 5; i++ {
		k.akps = append(k.akps, kpN('A', i))
		k.acct = append(k.acct, pubOf(kpN('A', i)))
	}
	for i := 0; i < 3; i++ {
		k.user = append(k.user, pubOf(kpN('U', i)))
		k.op = append(k.op, pubOf(kpN('O', i)))
	}
	for i := 0; i < 2; i++ {
		k.server = append(k.server, pubOf(kpN('N', i)))
		k.curve = append(k.curve, pubOf(kpN('X', i)))
	}
	return k
}()

var subjGood = []string{"a", "a.b", "a.*", "*.b", "a.>", ">", "*", "a.b.c", "x.*.y", "q.r", "$SYS.x", "a.*.*", "k.*.>", "$1.a"}
var subjBad = []string{"", "a b", ".a", "a.", "a..b", " ", "a. .b"}
var litGood = []string{"a", "a.b", "r.s.t", "lat", "x.y"}
var urlGood = []string{"http://a.b", "https://h.example:8080/p?q=1", "nats://h:4222"}
var urlBad = []string{"://bad", "noscheme", "http://", "/rel", "mailto:x", strings.Repeat("h", 9000)}
var svcURLGood = []string{"nats://h:4222", "tls://h", "ws://h:80", "WSS://h", ""}
var svcURLBad = []string{"http://h", "nats://u:p@h", "nats://h/path", "://x", "h:4222"}

func keyOf(good []string) string {
	if chance(pBad) {
		all := [][]string{kr.acct, kr.user, kr.op, kr.server, kr.curve, {"XYZ", "", "AAAAAAAAAAAAAAAAAAAAA"}}
		s := all[rng.Intn(len(all))]
		return s[rng.Intn(len(s))]
	}
	return good[rng.Intn(len(good))]
}

func genInfo() jwt.Info {
	var i jwt.Info
	if chance(0.3) {
		i.Description = "d"
		if chance(pBad) {
			i.Description = strings.Repeat("é", 4097)
		}
	}
	if chance(0.3) {
		i.InfoURL = pick(urlGood, urlBad)
	}
	return i
}

func genExport() *jwt.Export {
	if chance(pBad / 2) {
		return nil
	}
	e := &jwt.Export{Name: "n"}
	e.Subject = jwt.Subject(pick(subjGood, subjBad))
	e.Type = jwt.ExportType(1 + rng.Intn(2))
	if chance(pBad) {
		e.Type = jwt.ExportType(rng.Intn(4))
	}
	if e.Type == jwt.Service || chance(pBad) {
		e.ResponseType = jwt.ResponseType(pick([]string{"", "Singleton", "Stream", "Chunked"}, []string{"stream", "x"}))
		if chance(0.3) {
			e.Latency = &jwt.ServiceLatency{Sampling: jwt.SamplingRate(rng.Intn(101)), Results: jwt.Subject(pick(litGood, append(subjBad, "a.*", ">")))}
			if chance(pBad) {
				e.Latency.Sampling = jwt.SamplingRate([]int{-1, 101, 1000}[rng.Intn(3)])
			}
		}
		if chance(0.3) {
			e.ResponseThreshold = time.Duration(rng.Intn(1000))
		}
		if chance(0.2) {
			e.AllowTrace = true
		}
	}
	if chance(pBad) {
		e.ResponseThreshold = time.Duration(-5 + rng.Intn(10))
	}
	if chance(pBad) {
		e.AllowTrace = true
	}
	if chance(0.25) {
		t := strings.Split(string(e.Subject), ".")
		var stars []int
		for i, x := range t {
			if x == "*" {
				stars = append(stars, i+1)
			}
		}
		if len(stars) > 0 && !chance(pBad) {
			e.AccountTokenPosition = uint(stars[rng.Intn(len(stars))])
		} else if chance(0.3) {
			e.AccountTokenPosition = uint(rng.Intn(6))
		}
	}
	if chance(0.2) {
		e.Revocations = jwt.RevocationList{"*": 5}
	}
	e.Info = genInfo()
	e.TokenReq = chance(0.3)
	e.Advertise = chance(0.3)
	return e
}

func genActivationToken(exporterIdx int, importer string, kind jwt.ExportType, imported string) string {
	act := jwt.NewActivationClaims(importer)
	if chance(pBad) {
		act.Subject = kr.acct[rng.Intn(len(kr.acct))]
	}
	act.ImportType = kind
	if chance(pBad) {
		act.ImportType = jwt.ExportType(1 + rng.Intn(2))
	}
	// grant something containing imported, usually
	grants := []string{imported, ">"}
	t := strings.Split(imported, ".")
	if len(t) > 1 {
		grants = append(grants, strings.Join(t[:len(t)-1], ".")+".>", strings.Join(t[:len(t)-1], ".")+".*")
	}
	act.ImportSubject = jwt.Subject(grants[rng.Intn(len(grants))])
	if chance(pBad) {
		act.ImportSubject = jwt.Subject(pick(subjGood, subjBad))
	}
	signer := kr.akps[exporterIdx]
	if chance(0.3) { // signing key with issuer account
		signer = kr.akps[(exporterIdx+1)%len(kr.akps)]
		act.IssuerAccount = kr.acct[exporterIdx]
		if chance(pBad) {
			act.IssuerAccount = keyOf(kr.acct)
		}
	}
	if chance(0.2) {
		act.Expires = 5 // long expired: must not matter
	}
	tok, err := act.Encode(signer)
	if err != nil {
		return "garbage"
	}
	if chance(pBad) {
		b := []byte(tok)
		b[len(b)/2] ^= 1
		tok = string(b)
	}
	return tok
}

func genImport(importer string) *jwt.Import {
	if chance(pBad / 2) {
		return nil
	}
	i := &jwt.Import{Name: "i"}
	i.Type = jwt.ExportType(1 + rng.Intn(2))
	if chance(pBad) {
		i.Type = jwt.ExportType(rng.Intn(4))
	}
	ex := rng.Intn(len(kr.acct))
	i.Account = kr.acct[ex]
	if chance(pBad) {
		i.Account = ""
	}
	i.Subject = jwt.Subject(pick(subjGood, subjBad))
	// unique-ish prefix to avoid constant ML1 overlaps
	if chance(0.8) && i.Subject != "" {
		i.Subject = jwt.Subject("u"+strconv.Itoa(rng.Intn(50))+".") + i.Subject
	}
	if chance(0.3) {
		// local subject: replace * by $n or *
		t := strings.Split(string(i.Subject), ".")
		n := 0
		for k, x := range t {
			if x == "*" {
				n++
				if chance(0.5) {
					t[k] = "$" + strconv.Itoa(n)
				}
			} else if x != ">" {
				t[k] = "l" + x
			}
		}
		i.LocalSubject = jwt.RenamingSubject(strings.Join(t, "."))
		if chance(pBad * 2) {
			i.LocalSubject = jwt.RenamingSubject(pick([]string{"l.$1", "l.*", "l.>", "l.$9", "l.$x", "$-1.a", "l"}, subjBad[1:]))
		}
	} else if chance(0.2) {
		i.To = jwt.Subject(pick(litGood, subjBad))
		if chance(0.8) {
			i.To = jwt.Subject("t"+strconv.Itoa(rng.Intn(50))+".") + i.To
		}
	}
	if chance(pBad) && i.LocalSubject != "" {
		i.To = "both"
	}
	if i.Type == jwt.Service {
		i.Share = chance(0.3)
	} else {
		i.AllowTrace = chance(0.3)
	}
	if chance(pBad) {
		i.Share = true
	}
	if chance(pBad) {
		i.AllowTrace = true
	}
	if chance(0.4) {
		imported := string(i.Subject)
		if i.Type == jwt.Service && i.To != "" {
			imported = string(i.To)
		}
		i.Token = genActivationToken(ex, importer, i.Type, imported)
		if chance(pBad) {
			i.Account = kr.acct[(ex+2)%len(kr.acct)]
		}
	}
	return i
}

func genPermission(p *jwt.Permission) {
	for n := rng.Intn(3); n > 0; n-- {
		s := pick(subjGood, subjBad)
		if chance(0.15) {
			s += " q"
		}
		if chance(pBad) {
			s += " a b"
		}
		if chance(0.5) {
			p.Allow.Add(s)
		} else {
			p.Deny.Add(s)
		}
	}
}

func genPermissions() jwt.Permissions {
	var p jwt.Permissions
	if chance(0.5) {
		genPermission(&p.Pub)
		// remove queue entries from pub most of the time
		if !chance(pBad * 3) {
			clean := func(l jwt.StringList) jwt.StringList {
				var o jwt.StringList
				for _, s := range l {
					if !strings.Contains(s, " q") {
						o = append(o, s)
					}
				}
				return o
			}
			p.Pub.Allow, p.Pub.Deny = clean(p.Pub.Allow), clean(p.Pub.Deny)
		}
	}
	if chance(0.5) {
		genPermission(&p.Sub)
	}
	if chance(0.3) {
		p.Resp = &jwt.ResponsePermission{MaxMsgs: rng.Intn(5) - 1, Expires: time.Duration(rng.Intn(9) - 2)}
	}
	return p
}

func genAccount() *jwt.AccountClaims {
	me := rng.Intn(len(kr.acct))
	a := jwt.NewAccountClaims(kr.acct[me])
	for n := rng.Intn(4); n > 0; n-- {
		e := genExport()
		if e != nil && chance(0.8) && e.Subject != "" {
			e.Subject = jwt.Subject("e"+strconv.Itoa(rng.Intn(50))+".") + e.Subject
			if e.AccountTokenPosition > 0 {
				e.AccountTokenPosition++
			}
		}
		a.Exports.Add(e)
	}
	for n := rng.Intn(4); n > 0; n-- {
		a.Imports.Add(genImport(a.Subject))
	}
	switch rng.Intn(5) {
	case 0:
		a.Limits = jwt.OperatorLimits{}
	case 1:
		a.Limits.Imports = int64(rng.Intn(5) - 2)
		a.Limits.Exports = int64(rng.Intn(5) - 2)
		a.Limits.WildcardExports = chance(0.5)
	case 2:
		a.Limits.Imports, a.Limits.Exports = 10, 10
		a.Limits.WildcardExports = chance(0.7)
	}
	if chance(0.3) {
		// any single flat JetStream field (storage or not) may be the only non-zero one
		switch rng.Intn(8) {
		case 0:
			a.Limits.JetStreamLimits.DiskStorage = int64(rng.Intn(3))
		case 1:
			a.Limits.JetStreamLimits.MemoryStorage = int64(rng.Intn(3))
		case 2:
			a.Limits.JetStreamLimits.Streams = int64(rng.Intn(3))
		case 3:
			a.Limits.JetStreamLimits.Consumer = int64(rng.Intn(3))
		case 4:
			a.Limits.JetStreamLimits.MaxAckPending = int64(rng.Intn(3))
		case 5:
			a.Limits.JetStreamLimits.MemoryMaxStreamBytes = int64(rng.Intn(3))
		case 6:
			a.Limits.JetStreamLimits.DiskMaxStreamBytes = int64(rng.Intn(3))
		default:
			a.Limits.JetStreamLimits.MaxBytesRequired = chance(0.7)
		}
	}
	if chance(0.3) {
		tn := pick([]string{"R1", "R3"}, []string{""})
		if a.Limits.JetStreamTieredLimits == nil {
			a.Limits.JetStreamTieredLimits = jwt.JetStreamTieredLimits{}
		}
		a.Limits.JetStreamTieredLimits[tn] = jwt.JetStreamLimits{MemoryStorage: 1}
		if !chance(pBad * 3) {
			a.Limits.JetStreamLimits = jwt.JetStreamLimits{}
		}
	}
	a.DefaultPermissions = genPermissions()
	for n := rng.Intn(3); n > 0; n-- {
		var ws []jwt.WeightedMapping
		total := 0
		for m := rng.Intn(4); m > 0; m-- {
			w := rng.Intn(60)
			if chance(pBad) {
				w = 100 + rng.Intn(156)
			}
			if w == 0 {
				total += 100
			} else {
				total += w
			}
			ws = append(ws, jwt.WeightedMapping{Subject: jwt.Subject(pick(litGood, subjBad)), Weight: uint8(w), Cluster: "c"})
		}
		if total > 100 && !chance(pBad*3) {
			ws = ws[:1]
			if ws[0].Weight > 100 {
				ws[0].Weight = 100
			}
		}
		a.Mappings[jwt.Subject(pick(subjGood, subjBad))] = ws
	}
	if chance(0.3) {
		for n := 1 + rng.Intn(2); n > 0; n-- {
			a.Authorization.AuthUsers.Add(keyOf(kr.user))
		}
		if chance(0.5) {
			if chance(0.5) {
				a.Authorization.AllowedAccounts.Add("*")
				if chance(pBad * 3) {
					a.Authorization.AllowedAccounts.Add(keyOf(kr.acct))
				}
			} else {
				a.Authorization.AllowedAccounts.Add(keyOf(kr.acct), keyOf(kr.acct))
			}
		}
		if chance(0.3) {
			a.Authorization.XKey = keyOf(kr.curve)
		}
	} else if chance(pBad) {
		a.Authorization.AllowedAccounts.Add(keyOf(kr.acct))
	}
	if chance(0.3) {
		a.Trace = &jwt.MsgTrace{Destination: jwt.Subject(pick(litGood, append(subjBad, "a.*", ">"))), Sampling: rng.Intn(101)}
		if chance(pBad) {
			a.Trace.Sampling = []int{-1, 101}[rng.Intn(2)]
		}
	}
	for n := rng.Intn(3); n > 0; n-- {
		k := keyOf(kr.acct)
		if chance(0.5) {
			a.SigningKeys.Add(k)
		} else {
			us := jwt.NewUserScope()
			us.Key = k
			us.Template.Permissions = genPermissions() // not validated by the library
			if chance(0.5) {
				a.SigningKeys.AddScopedSigner(us)
			} else {
				a.SigningKeys.AddScopedSigner(*us)
			}
		}
	}
	a.Info = genInfo()
	if chance(0.5) {
		a.Issuer = kr.op[0]
	} else {
		a.Issuer = a.Subject
	}
	return a
}

func genUser() *jwt.UserClaims {
	u := jwt.NewUserClaims(kr.user[rng.Intn(len(kr.user))])
	u.Permissions = genPermissions()
	for n := rng.Intn(3); n > 0; n-- {
		u.Src = append(u.Src, pick([]string{"1.2.3.4/8", "fe80::/10", "10.0.0.0/32"}, []string{"bad", "1.2.3.4", "", "1.2.3.4/33"}))
	}
	for n := rng.Intn(3); n > 0; n-- {
		u.Times = append(u.Times, jwt.TimeRange{Start: pick([]string{"01:02:03", "23:59:59"}, []string{"", "25:00:00", "1:2", "x"}), End: pick([]string{"04:05:06"}, []string{"", "24:00:00"})})
	}
	if chance(0.3) {
		u.Locale = pick([]string{"UTC", "America/New_York", "Local"}, []string{"Nope/Zone", "../etc", " "})
	}
	if chance(0.4) {
		u.IssuerAccount = keyOf(kr.acct)
	}
	return u
}

func genOperator() *jwt.OperatorClaims {
	o := jwt.NewOperatorClaims(kr.op[rng.Intn(len(kr.op))])
	if chance(0.5) {
		o.AccountServerURL = pick(urlGood, []string{"://bad", "noscheme", "/rel", "h:80/x"})
	}
	for n := rng.Intn(3); n > 0; n-- {
		o.OperatorServiceURLs = append(o.OperatorServiceURLs, pick(svcURLGood, svcURLBad))
	}
	for n := rng.Intn(3); n > 0; n-- {
		o.SigningKeys.Add(keyOf(kr.op))
	}
	if chance(0.5) {
		o.SystemAccount = keyOf(kr.acct)
	}
	if chance(0.5) {
		o.AssertServerVersion = pick([]string{"1.2.3", "0.0.0", "2.10.14", "+1.2.3"}, []string{"1.2", "a.b.c", "-1.2.3", "1.2.3.4", "1..3", " 1.2.3"})
	}
	o.StrictSigningKeyUsage = chance(0.3)
	return o
}

func genActivation() *jwt.ActivationClaims {
	a := &jwt.ActivationClaims{}
	a.Subject = keyOf(kr.acct)
	a.ImportSubject = jwt.Subject(pick(subjGood, subjBad))
	a.ImportType = jwt.ExportType(1 + rng.Intn(2))
	if chance(pBad * 2) {
		a.ImportType = jwt.ExportType(rng.Intn(4))
	}
	if chance(0.4) {
		a.IssuerAccount = keyOf(kr.acct)
	}
	return a
}

func genAuthReq() *jwt.AuthorizationRequestClaims {
	r := &jwt.AuthorizationRequestClaims{}
	r.Subject = keyOf(kr.user)
	r.UserNkey = keyOf(kr.user)
	if chance(pBad) {
		r.UserNkey = ""
	}
	return r
}

func genAuthResp() *jwt.AuthorizationResponseClaims {
	r := &jwt.AuthorizationResponseClaims{}
	r.Subject = keyOf(kr.user)
	r.Audience = keyOf(kr.server)
	switch {
	case chance(pBad):
	case chance(pBad):
		r.Error, r.Jwt = "e", "j"
	case chance(0.5):
		r.Error = "e"
	default:
		r.Jwt = "j"
	}
	if chance(0.4) {
		r.IssuerAccount = keyOf(kr.acct)
	}
	return r
}
