package main

import (
	"encoding/json"
	"fmt"
	"strings"

	jwt "github.com/nats-io/jwt/v2"
)

// C20 — tag / string / CIDR lists are duplicate-free ordered sets.

func init() { runners["C20"] = runner{run: runC20, replay: replayC20} }

type listOp struct {
	K    string   `json:"k"` // a add, r remove, c contains
	Args []string `json:"args"`
}
type c20Replay struct {
	Kind string   `json:"kind"` // tag | str | cidr
	Ops  []listOp `json:"ops"`
}

// reference implementation of the abstract ordered set (the oracle), independent of the Lean model
func refNorm(kind, s string) string {
	if kind == "str" {
		return s
	}
	return strings.ToLower(strings.TrimSpace(s))
}

func showStrs(l []string) string {
	var p []string
	for _, s := range l {
		p = append(p, hx(s))
	}
	return "[" + strings.Join(p, ",") + "]"
}

func runListHistory(c *Ctx, r c20Replay) string {
	var tl jwt.TagList
	var sl jwt.StringList
	var cl jwt.CIDRList
	var ref []string
	cur := func() []string {
		switch r.Kind {
		case "tag":
			return []string(tl)
		case "cidr":
			return []string(cl)
		}
		return []string(sl)
	}
	var outs []string
	for step, op := range r.Ops {
		switch op.K {
		case "a":
			switch r.Kind {
			case "tag":
				tl.Add(op.Args...)
			case "cidr":
				cl.Add(op.Args...)
			default:
				sl.Add(op.Args...)
			}
			for _, a := range op.Args {
				v := refNorm(r.Kind, a)
				found := false
				for _, x := range ref {
					if x == v {
						found = true
					}
				}
				if !found && v != "" {
					ref = append(ref, v)
				}
			}
		case "r":
			switch r.Kind {
			case "tag":
				tl.Remove(op.Args...)
			case "cidr":
				cl.Remove(op.Args...)
			default:
				sl.Remove(op.Args...)
			}
			for _, a := range op.Args {
				v := refNorm(r.Kind, a)
				var nr []string
				for _, x := range ref {
					if x != v {
						nr = append(nr, x)
					}
				}
				ref = nr
			}
		case "c":
			var got bool
			switch r.Kind {
			case "tag":
				got = tl.Contains(op.Args[0])
			case "cidr":
				got = cl.Contains(op.Args[0])
			default:
				got = sl.Contains(op.Args[0])
			}
			v := refNorm(r.Kind, op.Args[0])
			want := false
			for _, x := range ref {
				if x == v {
					want = true
				}
			}
			if got != want {
				c.Violate("membership", fmt.Sprintf("step %d: Contains(%q)=%v, ordered-set semantics says %v (list %q)", step, op.Args[0], got, want, cur()), r)
			}
			outs = append(outs, b2s(got))
			continue
		}
		l := cur()
		if showStrs(l) != showStrs(ref) {
			c.Violate("ordered-set", fmt.Sprintf("step %d (%s %q): list is %q, ordered-set semantics says %q", step, op.K, op.Args, l, ref), r)
		}
		// invariant: duplicate-free, normalised, non-empty
		seen := map[string]bool{}
		for _, x := range l {
			if seen[x] || x == "" || refNorm(r.Kind, x) != x {
				c.Violate("invariant", fmt.Sprintf("step %d: list %q has a duplicate, empty or non-normalised element", step, l), r)
			}
			seen[x] = true
		}
		outs = append(outs, showStrs(l))
	}
	return strings.Join(outs, "|")
}

func (r c20Replay) opLine() []string {
	kind := r.Kind
	if kind == "cidr" {
		kind = "tag"
	}
	args := []string{kind}
	for _, o := range r.Ops {
		var hs []string
		for _, a := range o.Args {
			hs = append(hs, hx(a))
		}
		args = append(args, o.K+":"+strings.Join(hs, ","))
	}
	return args
}

func runC20(c *Ctx) {
	c.Res.Rule = "add/remove/contains histories over the tags {a, A, ' a ', b, ''}: exhaustive to length L (quick 5, thorough 6) for TagList, StringList and CIDRList; random to length 300 with multi-argument calls over a wider alphabet (tabs, Kelvin sign, dotted I, mixed case); list contents after every step and every Contains answer compared with an independent reference ordered set (oracle) and with the Lean model (correspondence); CIDRList array form vs comma-joined form for random entry lists, the comma-joined string also written with the other escapes JSON allows (\\/, \\u002f, \\uXXXX). non-trivial = distinct histories / entry lists."
	tags := []string{"a", "A", " a ", "b", ""}
	var alphabet []listOp
	for _, t := range tags {
		alphabet = append(alphabet, listOp{"a", []string{t}}, listOp{"r", []string{t}})
	}
	alphabet = append(alphabet, listOp{"c", []string{"A "}}, listOp{"c", []string{"b"}})
	maxLen := c.N(5, 6)
	for _, kind := range []string{"tag", "str", "cidr"} {
		var rec func(cur []listOp)
		rec = func(cur []listOp) {
			if len(cur) == maxLen {
				r := c20Replay{kind, append([]listOp{}, cur...)}
				out := runListHistory(c, r)
				if kind != "cidr" {
					c.Op(out, true, "list", r.opLine()...)
				} else {
					c.Eval("cidr:"+strings.Join(r.opLine(), " "), true)
				}
				c.Count("exhaustive-" + kind)
				return
			}
			for _, a := range alphabet {
				rec(append(cur, a))
			}
		}
		rec(nil)
	}
	c.Res.Exhaustive = true
	c.Res.Extra["exhaustive_history_length"] = maxLen
	wide := []string{"a", "A", " a ", "b", "", "B\t", "K", "k", "İx", "ix", "x y", " X Y ", "tag:1", " z　", "z"}
	n := c.N(300, 20000)
	for i := 0; i < n; i++ {
		kind := []string{"tag", "str", "cidr"}[c.R.Intn(3)]
		l := 1 + c.R.Intn(c.N(80, 300))
		var ops []listOp
		for j := 0; j < l; j++ {
			k := []string{"a", "a", "r", "c"}[c.R.Intn(4)]
			na := 1
			if k != "c" {
				na = c.R.Intn(4)
			}
			var args []string
			for a := 0; a < na; a++ {
				args = append(args, c.R.Pick(wide))
			}
			ops = append(ops, listOp{k, args})
		}
		r := c20Replay{kind, ops}
		out := runListHistory(c, r)
		c.Op(out, true, "list", r.opLine()...)
		c.Count("random-" + kind)
		if i == 0 {
			c.Sample(r)
		}
	}
	// CIDR dual form: array vs comma-joined string
	ents := []string{"10.0.0.0/8", "192.168.1.0/24", "::1/128", "fe80::/10", "1.2.3.4/32", "abc", "x-y"}
	m := c.N(300, 20000)
	for i := 0; i < m; i++ {
		k := c.R.Intn(5)
		perm := append([]string{}, ents...)
		for j := range perm {
			o := j + c.R.Intn(len(perm)-j)
			perm[j], perm[o] = perm[o], perm[j]
		}
		es := perm[:k]
		arr, _ := json.Marshal(es)
		str, _ := json.Marshal(strings.Join(es, ","))
		var a, b jwt.CIDRList
		e1 := json.Unmarshal(arr, &a)
		e2 := json.Unmarshal(str, &b)
		c.Eval("dual:"+string(arr), k > 0)
		c.Op(showStrs([]string(b)), true, "cidrset", hx(strings.Join(es, ",")))
		if e1 != nil || e2 != nil || showStrs(a) != showStrs(b) || showStrs(a) != showStrs(es) {
			c.Violate("cidr-dual-form", fmt.Sprintf("entries %q: array form gives %q (err %v), string form gives %q (err %v)", es, a, e1, b, e2), map[string]interface{}{"entries": es})
		}
		c.Count("cidr-dual")
		// the same JSON string written with other legal escapes (`\/`, `\u002f`, `\u0031` ...: what non-Go encoders
		// emit) is the same string, so it must decode to the same entries
		esc := func(js string) string {
			var sb strings.Builder
			for _, r := range js[1 : len(js)-1] {
				switch {
				case r == '/' && c.R.Chance(70):
					sb.WriteString([]string{"\\/", "\\u002f", "\\u002F"}[c.R.Intn(3)])
				case r < 128 && r != '\\' && r != '"' && c.R.Chance(15):
					sb.WriteString(fmt.Sprintf("\\u%04x", r))
				default:
					sb.WriteRune(r)
				}
			}
			return `"` + sb.String() + `"`
		}
		if k > 0 {
			alt := esc(string(str))
			var b2 jwt.CIDRList
			e4 := json.Unmarshal([]byte(alt), &b2)
			if e4 != nil || showStrs(b2) != showStrs(es) {
				c.Violate("cidr-dual-form", fmt.Sprintf("entries %q: the comma-joined form written as %s decodes to %q (err %v)", es, alt, b2, e4), map[string]interface{}{"entries": es, "json": alt})
			}
			c.Count("cidr-escaped-string-form")
		}
		// string form with upper case / blanks / duplicates normalises to lower-case trimmed unique entries
		noisy := ""
		var want []string
		for j, e := range es {
			if j > 0 {
				noisy += ","
			}
			x := e
			if c.R.Bool() {
				x = strings.ToUpper(x)
			}
			if c.R.Bool() {
				x = " " + x + "\t"
			}
			noisy += x
			want = append(want, e)
			if c.R.Chance(30) {
				noisy += "," + e + ",,"
			}
		}
		var d jwt.CIDRList
		sj, _ := json.Marshal(noisy)
		e3 := json.Unmarshal(sj, &d)
		c.Op(showStrs([]string(d)), true, "cidrset", hx(noisy))
		if e3 != nil || showStrs(d) != showStrs(want) {
			c.Violate("cidr-string-form", fmt.Sprintf("string %q decodes to %q (err %v), expected lower-case entries %q", noisy, d, e3, want), map[string]interface{}{"string": noisy})
		}
		if i == 0 {
			c.Sample(map[string]interface{}{"cidr_string": noisy, "decoded": []string(d)})
		}
	}
}

func replayC20(c *Ctx, raw json.RawMessage) {
	var r c20Replay
	if json.Unmarshal(raw, &r) != nil || len(r.Ops) == 0 {
		runC20(c)
		return
	}
	runListHistory(c, r)
}
