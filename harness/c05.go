package main

import (
	"encoding/json"
	"fmt"
	"strings"

	jwt "github.com/nats-io/jwt/v2"
)

// C05 — header / version / kind gate on decoding; Encode always writes the v2 envelope.

func init() { runners["C05"] = runner{run: runC05, replay: replayC05} }

type c05Replay struct {
	Token string `json:"token"`
	Cell  string `json:"cell"`
}

func isB64URL(s string) bool {
	for _, ch := range s {
		if !strings.ContainsRune(b64Alphabet, ch) {
			return false
		}
	}
	return true
}

func evalC05(c *Ctx, rp c05Replay) {
	tok := rp.Token
	checkToken(c, tok, c01Replay{tok, "", "gate-grid"}, nil)
	f := factsOf(tok)
	hdrGate := func() string {
		if len(f.segs) != 3 {
			return "not three segments"
		}
		for i := 0; i < 3; i++ {
			// Go's decoder tolerates \r and \n inside a segment; nothing else outside the alphabet
			if _, err := b64.DecodeString(f.segs[i]); err != nil {
				return "segment is not base64url"
			}
		}
		if !f.hdrOK {
			return "header is not JSON"
		}
		if strings.ToUpper(f.hdrTyp) != "JWT" {
			return "header type is not JWT"
		}
		if a := strings.ToLower(f.hdrAlg); a != "ed25519" && a != "ed25519-nkey" {
			return "algorithm " + f.hdrAlg + " is not one of the two NATS names"
		}
		return ""
	}
	general := safeDecode("", func() (jwt.Claims, error) { return jwt.Decode(tok) })
	generic := safeDecode("", func() (jwt.Claims, error) { g, e := jwt.DecodeGeneric(tok); return g, e })
	if generic.claims != nil {
		if why := hdrGate(); why != "" {
			c.Violate("gate", "DecodeGeneric accepted a token although: "+why, rp)
		}
		c.Count("generic-accepted")
	}
	if general.claims != nil {
		c.Count("decode-accepted")
		if why := hdrGate(); why != "" {
			c.Violate("gate", "Decode accepted a token although: "+why, rp)
		}
		ver := 0.0
		declared := f.natsType
		if f.topType != "" {
			ver = 1
			declared = f.topType
		} else if f.hasVer {
			ver = f.version
		}
		if ver > 2 {
			c.Violate("gate", fmt.Sprintf("Decode accepted a payload declaring version %v", ver), rp)
		}
		k := kindOfClaims(general.claims)
		if (k == "operator" || k == "account" || k == "user" || k == "activation") && ver != 1 && ver != 2 {
			c.Violate("gate", fmt.Sprintf("Decode accepted a %s claim declaring version %v", k, ver), rp)
		}
		if declared == "cluster" || declared == "server" {
			c.Violate("gate", "Decode accepted the retired kind "+declared, rp)
		}
	} else {
		c.Count("decode-refused")
	}
}

func runC05(c *Ctx) {
	c.Res.Rule = "full grid: header type x algorithm name (valid names in several letter cases incl. the Kelvin sign, prefixes and extensions, none, empty, missing) x declared version (absent, -1, 0, 1, 2, 3, 2^31, 2.0, \"2\") x declared kind (7 known, cluster, server, unknown, absent) x placement (top-level v1 style / nats section) x signature layout, each correctly signed by a key of a permitted role; plus segment-count and padding variants; plus the envelope of every kind's Encode output (fresh claims, claims of arbitrary content with junk in the stamped fields, and decoded version-1 claims encoded again). Oracle: the gate conjuncts evaluated by the harness's own header/payload reader. non-trivial = distinct tokens."
	typs := []string{`"JWT"`, `"jwt"`, `"Jwt"`, `"JWS"`, `""`, "-", `"JWT "`}
	algs := []string{`"ed25519"`, `"ED25519"`, `"ed25519-nkey"`, `"ED25519-NKEY"`, `"Ed25519-nKey"`, `"ed25519-nkeyx"`, `"ed25519x"`, `"ed25519-"`, `"ed2551"`, `"none"`, `""`, "-", "\"ed25519-nKey\""}
	vers := []string{"-", "-1", "0", "1", "2", "3", "2147483648", "2.0", `"2"`}
	kinds := []string{"operator", "account", "user", "activation", "authorization_request", "authorization_response", "generic", "cluster", "server", "my_kind", "-"}
	n := 0
	thin := !c.Thorough()
	for ti, typ := range typs {
		for ai, alg := range algs {
			for vi, ver := range vers {
				for ki, kind := range kinds {
					// quick tier: a covering subset (every pair of factor levels still occurs)
					if thin && (ti+ai+vi+ki)%5 != 0 && !(ti < 2 && ai < 4) {
						continue
					}
					for _, place := range []string{"nats", "top"} {
						for _, layout := range []string{"v1", "v2"} {
							var hf []string
							if typ != "-" {
								hf = append(hf, `"typ":`+typ)
							}
							if alg != "-" {
								hf = append(hf, `"alg":`+alg)
							}
							hdr := "{" + strings.Join(hf, ",") + "}"
							role := byte('A')
							switch kind {
							case "operator":
								role = 'O'
							case "authorization_request":
								role = 'N'
							}
							kp := kpN(role, 1)
							var nf, tf []string
							if kind != "-" {
								if place == "top" {
									tf = append(tf, `"type":"`+kind+`"`)
								} else {
									nf = append(nf, `"type":"`+kind+`"`)
								}
							}
							if ver != "-" {
								nf = append(nf, `"version":`+ver)
							}
							tf = append(tf, `"iss":"`+pubOf(kp)+`"`, `"sub":"`+pubOf(kpN('A', 2))+`"`, `"nats":{`+strings.Join(nf, ",")+`}`)
							payload := "{" + strings.Join(tf, ",") + "}"
							tok := forge(hdr, payload, kp, layout)
							evalC05(c, c05Replay{tok, fmt.Sprintf("typ=%s alg=%s ver=%s kind=%s place=%s layout=%s", typ, alg, ver, kind, place, layout)})
							n++
						}
					}
				}
			}
		}
	}
	c.Res.Extra["grid_cells"] = n
	c.Res.Exhaustive = c.Thorough()
	// segment-count and padding variants of a valid token
	base, err := validToken(c.R, "user", "v2")
	must(err)
	segs := strings.Split(base, ".")
	variants := []string{segs[0] + "." + segs[1], base + ".", "." + base, base + "." + segs[2], segs[0] + ".." + segs[1] + "." + segs[2],
		segs[0] + "=." + segs[1] + "." + segs[2], segs[0] + "." + segs[1] + "=." + segs[2], base + "=", base + "==", segs[0] + "\n." + segs[1] + "." + segs[2], " " + base, base + " ", ""}
	for _, v := range variants {
		evalC05(c, c05Replay{v, "segment/padding variant"})
	}
	// envelope of every Encode
	for i := 0; i < c.N(40, 600); i++ {
		kind := allKinds[i%len(allKinds)]
		tok, err := validToken(c.R, kind, "v2")
		must(err)
		switch (i / len(allKinds)) % 3 {
		case 1:
			// claims with arbitrary content, including junk in the fields Encode stamps (version, type, issuer, id)
			if kind == "generic" {
				break // generic claims stamp the version into their data map (none to stamp into when it is nil)
			}
			cl, kp := randomClaims(c, kind, true)
			var t2 string
			var e2 error
			if p := safeCreds(func() { t2, e2 = cl.Encode(kp) }); p == "" && e2 == nil {
				tok = t2
				c.Count("envelope-of-arbitrary-claims")
			}
		case 2:
			// a version-1 token decoded (migrated: the claims report version 1) and encoded again
			if kind == "operator" || kind == "account" || kind == "user" || kind == "activation" {
				if t1, e1 := validToken(c.R, kind, "v1"); e1 == nil {
					if cl, e2 := jwt.Decode(t1); e2 == nil {
						signer := kpN(allowedRoles[kind][0], 1)
						if kind == "account" || kind == "operator" {
							signer = kpN('O', 1)
						}
						if t2, e3 := cl.Encode(signer); e3 == nil {
							tok = t2
							c.Count("envelope-of-reencoded-v1-claims")
						}
					}
				}
			}
		}
		s := strings.Split(tok, ".")
		c.Eval("envelope:"+tok, true)
		bad := ""
		if len(s) != 3 || !isB64URL(s[0]) || !isB64URL(s[1]) || !isB64URL(s[2]) {
			bad = "not three unpadded base64url segments"
		} else {
			hb, _ := b64.DecodeString(s[0])
			var hm map[string]interface{}
			if json.Unmarshal(hb, &hm) != nil || len(hm) != 2 || hm["typ"] != "JWT" || hm["alg"] != "ed25519-nkey" {
				bad = "header is not the version-2 header: " + string(hb)
			}
			pb, _ := b64.DecodeString(s[1])
			var pm struct {
				Nats struct {
					Version int `json:"version"`
				} `json:"nats"`
			}
			if json.Unmarshal(pb, &pm) != nil || pm.Nats.Version != 2 {
				bad = "payload does not carry version 2: " + string(pb)
			}
		}
		if bad != "" {
			c.Violate("envelope", "Encode of a "+kind+" claim: "+bad, c05Replay{tok, "envelope"})
		}
		c.Count("envelope-checked")
	}
	c.Sample(c05Replay{base, "valid user token"})
}

func replayC05(c *Ctx, raw json.RawMessage) {
	var rp c05Replay
	must(json.Unmarshal(raw, &rp))
	if rp.Cell == "envelope" {
		runC05(c)
		return
	}
	evalC05(c, rp)
}
