package main

// C04 — version-1 tokens migrate to version 2 without losing meaning (adapted from the design-round probe:
// random v1 claims -> v1compat Encode -> v2 Decode -> an independently written expected mapping; then
// v2 re-encode -> decode stable). Every v1 token also goes through the Lean model's Decode (migration included).

import (
	"fmt"
	"reflect"
	"sort"
	"strings"
	"time"

	jwt "github.com/nats-io/jwt/v2"
	v1 "github.com/nats-io/jwt/v2/v1compat"
	"github.com/nats-io/nkeys"
)

func init() { runners["C04"] = runner{run: runC04, replay: nil} }

func runC04(c *Ctx) {
	c.Res.Rule = "random version-1 claims of the five migratable kinds (operator, account, user, activation, generic; every field populated or not, lists of any length up to 3, int64 edges, special strings, deprecated fields such as identities / max / activation limits) signed by every role the v1 library permits -> real v1compat Encode -> real v2 Decode / DecodeGeneric; oracle = an independently written expected mapping (standard fields, kind, tags, issuer account, signing keys list -> plain-key set, URLs, system account, imports, exports with latency / token position / revocations / response type, limits field by field, revocations, permissions incl. response permission, src string -> trimmed lower-cased de-duplicated list, time ranges, bearer flag; absent user limits -> -1; version 1); re-encode gives version 2 and decodes to the same content; v1 and v2 hash ids agree. Each v1 token also goes through the Lean model of Decode (shadow schemas + migrateV1). non-trivial = distinct v1 tokens."
	c04Stream(c, c.N(1500, 150000))
	c.Sample(map[string]string{"v1_token": c04tok})
}

var c04strs = []string{"", "a", "a.b", "*", ">", "a.*.>", "<x&y>", "é😀", "q\"\\", " sp ", "A", "Tag"}
var c04ints = []int64{0, 1, -1, 2, 100, 1 << 53, (1 << 53) + 1, 1<<63 - 1, -1 << 63}

func rs() string  { return c04strs[rng.Intn(len(c04strs))] }
func ri() int64   { return c04ints[rng.Intn(len(c04ints))] }
func rb() bool    { return rng.Intn(2) == 0 }
func someB() bool { return rng.Intn(3) != 0 }
func rl() []string {
	switch rng.Intn(4) {
	case 0:
		return nil
	case 1:
		return []string{}
	}
	var l []string
	for n := 1 + rng.Intn(3); n > 0; n-- {
		l = append(l, rs())
	}
	return l
}

func fillCD(c *v1.ClaimsData) {
	c.Audience, c.Name = rs(), rs()
	c.Expires, c.NotBefore = ri(), ri()
	c.ID = rs()
	c.Tags = v1.TagList(rl())
}

func eqS(a, b []string) bool {
	if len(a) != len(b) {
		return false
	}
	for i := range a {
		if a[i] != b[i] {
			return false
		}
	}
	return true
}

var c04ctx *Ctx
var c04tok string

func chk(ok bool, what string) {
	c04ctx.Eval("", false)
	if !ok {
		c04ctx.Violate("migration", what, map[string]string{"what": what, "v1_token": c04tok})
	}
}

func chkCD(kind string, o *v1.ClaimsData, n *jwt.ClaimsData, gf *jwt.GenericFields) {
	chk(o.Audience == n.Audience && o.Name == n.Name && o.Expires == n.Expires && o.NotBefore == n.NotBefore &&
		o.ID == n.ID && o.IssuedAt == n.IssuedAt && o.Issuer == n.Issuer && o.Subject == n.Subject, kind+": std fields")
	chk(string(o.Type) == string(gf.Type), kind+": type")
	chk(eqS(o.Tags, gf.Tags), kind+": tags")
	chk(gf.Version == 1, kind+": version 1")
}

func expectedSrc(s string) []string {
	var out []string
	for _, p := range strings.Split(strings.ToLower(s), ",") {
		p = strings.TrimSpace(p)
		dup := false
		for _, q := range out {
			if q == p {
				dup = true
			}
		}
		if p != "" && !dup {
			out = append(out, p)
		}
	}
	return out
}

func genRevs() v1.RevocationList {
	if !someB() {
		return nil
	}
	r := v1.RevocationList{}
	for n := rng.Intn(3); n > 0; n-- {
		r[rs()] = ri()
	}
	return r
}

func eqRevs(a v1.RevocationList, b jwt.RevocationList) bool {
	if len(a) != len(b) {
		return false
	}
	for k, v := range a {
		if w, ok := b[k]; !ok || w != v {
			return false
		}
	}
	return true
}

func genPerm() v1.Permissions {
	var p v1.Permissions
	p.Pub.Allow, p.Pub.Deny, p.Sub.Allow, p.Sub.Deny = rl(), rl(), rl(), rl()
	if someB() {
		p.Resp = &v1.ResponsePermission{MaxMsgs: int(ri()), Expires: time.Duration(ri())}
	}
	return p
}

func eqPerm(a v1.Permissions, b jwt.Permissions) bool {
	if !eqS(a.Pub.Allow, b.Pub.Allow) || !eqS(a.Pub.Deny, b.Pub.Deny) || !eqS(a.Sub.Allow, b.Sub.Allow) || !eqS(a.Sub.Deny, b.Sub.Deny) {
		return false
	}
	if (a.Resp == nil) != (b.Resp == nil) {
		return false
	}
	return a.Resp == nil || (a.Resp.MaxMsgs == b.Resp.MaxMsgs && a.Resp.Expires == b.Resp.Expires)
}

func c04Stream(cx *Ctx, N int) {
	c04ctx = cx
	rng = rngT{cx.R}
	okp, akp, ukp, skp := kpN('O', 0), kpN('A', 0), kpN('U', 0), kpN('N', 0)
	opk, apk, upk := pubOf(okp), pubOf(akp), pubOf(ukp)
	for n := 0; n < N; n++ {
		switch n % 5 {
		case 0: // account
			c := v1.NewAccountClaims(apk)
			fillCD(&c.ClaimsData)
			for k := rng.Intn(3); k > 0; k-- {
				e := &v1.Export{Name: rs(), Subject: v1.Subject(rs()), Type: v1.ExportType(rng.Intn(3)), TokenReq: rb(), Revocations: genRevs(), ResponseType: v1.ResponseType(rs()), AccountTokenPosition: uint(rng.Intn(4))}
				if someB() {
					e.Latency = &v1.ServiceLatency{Sampling: rng.Intn(101), Results: v1.Subject(rs())}
				}
				c.Exports.Add(e)
			}
			for k := rng.Intn(3); k > 0; k-- {
				c.Imports.Add(&v1.Import{Name: rs(), Subject: v1.Subject(rs()), Account: rs(), Token: rs(), To: v1.Subject(rs()), Type: v1.ExportType(rng.Intn(3))})
			}
			if someB() {
				c.Identities = []v1.Identity{{ID: "i", Proof: "p"}}
			}
			if rb() {
				c.Limits = v1.OperatorLimits{Subs: ri(), Conn: ri(), LeafNodeConn: ri(), Imports: ri(), Exports: ri(), Data: ri(), Payload: ri(), WildcardExports: rb()}
			}
			c.SigningKeys = v1.StringList(rl())
			c.Revocations = genRevs()
			kp := nkeys.KeyPair(akp)
			if rb() {
				kp = okp
			}
			tok, err := c.Encode(kp)
			if err != nil {
				cx.Violate("migration", "account: v1 encode err "+err.Error(), map[string]string{"v1_token": c04tok})
				continue
			}
			c04tok = tok
			checkToken(cx, tok, c01Replay{tok, "", "v1-migration"}, nil)
			cx.Count("v1-token")
			chkGenericView(cx, "account", tok, &c.ClaimsData)
			d, err := jwt.Decode(tok)
			if err != nil {
				cx.Violate("migration", "account: v2 decode err "+err.Error(), map[string]string{"v1_token": c04tok})
				continue
			}
			a, ok := d.(*jwt.AccountClaims)
			if !ok {
				cx.Violate("migration", "account: wrong type", map[string]string{"v1_token": c04tok})
				continue
			}
			chkCD("account", &c.ClaimsData, &a.ClaimsData, &a.GenericFields)
			chk(len(a.Exports) == len(c.Exports), "account: #exports")
			for i := range c.Exports {
				if i >= len(a.Exports) {
					break
				}
				o, x := c.Exports[i], a.Exports[i]
				chk(o.Name == x.Name && string(o.Subject) == string(x.Subject) && int(o.Type) == int(x.Type) && o.TokenReq == x.TokenReq &&
					string(o.ResponseType) == string(x.ResponseType) && o.AccountTokenPosition == x.AccountTokenPosition, "account: export fields")
				chk(eqRevs(o.Revocations, x.Revocations), "account: export revocations")
				chk((o.Latency == nil) == (x.Latency == nil), "account: latency presence")
				if o.Latency != nil && x.Latency != nil {
					chk(o.Latency.Sampling == int(x.Latency.Sampling) && string(o.Latency.Results) == string(x.Latency.Results), "account: latency fields")
				}
				chk(x.ResponseThreshold == 0 && !x.Advertise && !x.AllowTrace && x.Description == "" && x.InfoURL == "", "account: export v2-only fields zero")
			}
			chk(len(a.Imports) == len(c.Imports), "account: #imports")
			for i := range c.Imports {
				if i >= len(a.Imports) {
					break
				}
				o, x := c.Imports[i], a.Imports[i]
				chk(o.Name == x.Name && string(o.Subject) == string(x.Subject) && o.Account == x.Account && o.Token == x.Token &&
					string(o.To) == string(x.To) && int(o.Type) == int(x.Type) && x.LocalSubject == "" && !x.Share && !x.AllowTrace, "account: import fields")
			}
			L, M := c.Limits, a.Limits
			chk(L.Subs == M.Subs && L.Conn == M.Conn && L.LeafNodeConn == M.LeafNodeConn && L.Imports == M.Imports && L.Exports == M.Exports &&
				L.Data == M.Data && L.Payload == M.Payload && L.WildcardExports == M.WildcardExports && !M.DisallowBearer, "account: limits")
			chk(M.JetStreamLimits == (jwt.JetStreamLimits{}) && len(M.JetStreamTieredLimits) == 0, "account: js limits zero")
			ks := a.SigningKeys.Keys()
			sort.Strings(ks)
			want := map[string]bool{}
			for _, k := range c.SigningKeys {
				want[k] = true
			}
			var wl []string
			for k := range want {
				wl = append(wl, k)
			}
			sort.Strings(wl)
			chk(eqS(ks, wl), "account: signing keys")
			for _, k := range ks {
				sc, _ := a.SigningKeys.GetScope(k)
				chk(sc == nil, "account: signing keys plain")
			}
			chk(eqRevs(c.Revocations, a.Revocations), "account: revocations")
			// re-encode
			tok2, err := a.Encode(kp)
			if err != nil {
				cx.Violate("migration", "account: v2 re-encode err "+err.Error(), map[string]string{"v1_token": c04tok})
				continue
			}
			d2, err := jwt.DecodeAccountClaims(tok2)
			if err != nil {
				cx.Violate("migration", "account: v2 re-decode err "+err.Error(), map[string]string{"v1_token": c04tok})
				continue
			}
			chk(d2.Version == 2, "account: re-encoded version 2")
			d2.Version = a.Version
			d2.IssuedAt, d2.ID = a.IssuedAt, a.ID
			chk(reflect.DeepEqual(normalize(a), normalize(d2)), "account: re-encode stable")
		case 1: // user
			c := v1.NewUserClaims(upk)
			fillCD(&c.ClaimsData)
			c.Permissions = genPerm()
			if rb() {
				c.Limits = v1.Limits{Max: ri(), Payload: ri(), Src: []string{"", "1.2.3.4/8", " 1.2.3.4/8 , FE80::/10,,1.2.3.4/8", "a,b",
					"192.0.2.0/24,10.0.0.0/8,192.0.2.0/24,198.51.100.0/24,203.0.113.0/24", "10.0.0.0/8,,172.16.0.0/12", " A , a ,b,B,c", ",x", "x,"}[rng.Intn(9)]}
				if someB() {
					c.Limits.Times = []v1.TimeRange{{Start: rs(), End: rs()}}
				}
			}
			c.BearerToken = rb()
			if someB() {
				c.IssuerAccount = rs()
			}
			tok, err := c.Encode(akp)
			if err != nil {
				cx.Violate("migration", "user: v1 encode err", map[string]string{"v1_token": c04tok})
				continue
			}
			c04tok = tok
			checkToken(cx, tok, c01Replay{tok, "", "v1-migration"}, nil)
			cx.Count("v1-token")
			chkGenericView(cx, "user", tok, &c.ClaimsData)
			d, err := jwt.Decode(tok)
			if err != nil {
				cx.Violate("migration", "user: v2 decode err "+err.Error(), map[string]string{"v1_token": c04tok})
				continue
			}
			u := d.(*jwt.UserClaims)
			chkCD("user", &c.ClaimsData, &u.ClaimsData, &u.GenericFields)
			chk(eqPerm(c.Permissions, u.Permissions), "user: permissions")
			chk(u.BearerToken == c.BearerToken && u.IssuerAccount == c.IssuerAccount, "user: bearer/issuer account")
			wantPayload := c.Limits.Payload
			if wantPayload == 0 {
				wantPayload = -1
			}
			chk(u.Limits.Payload == wantPayload && u.Limits.Subs == -1 && u.Limits.Data == -1, "user: nats limits (absent -> unlimited)")
			chk(eqS(expectedSrc(c.Limits.Src), u.Src), "user: src")
			chk(len(u.Times) == len(c.Limits.Times), "user: times")
			for i := range c.Limits.Times {
				if i < len(u.Times) {
					chk(u.Times[i].Start == c.Limits.Times[i].Start && u.Times[i].End == c.Limits.Times[i].End, "user: time range")
				}
			}
			chk(u.Locale == "" && len(u.AllowedConnectionTypes) == 0, "user: v2-only zero")
			tok2, err := u.Encode(akp)
			if err != nil {
				cx.Violate("migration", "user: re-encode err", map[string]string{"v1_token": c04tok})
				continue
			}
			d2, err := jwt.DecodeUserClaims(tok2)
			if err != nil {
				cx.Violate("migration", "user: re-decode err", map[string]string{"v1_token": c04tok})
				continue
			}
			chk(d2.Version == 2, "user: re-encoded version 2")
			d2.Version, d2.IssuedAt, d2.ID = u.Version, u.IssuedAt, u.ID
			chk(reflect.DeepEqual(normalize(u), normalize(d2)), "user: re-encode stable")
		case 2: // operator
			c := v1.NewOperatorClaims(opk)
			fillCD(&c.ClaimsData)
			c.SigningKeys = v1.StringList(rl())
			// what the version-1 encoder accepts (anything that parses and has a scheme), host or no host
			c.AccountServerURL = []string{"", "http://a.b", "nats://x", "file:///var/lib/nats/jwt/v1", "mem:accounts", "http:///jwt/v1", "https://:9090/jwt/v1", "HTTPS://H.example/a?b=c"}[rng.Intn(8)]
			c.OperatorServiceURLs = v1.StringList(rl())
			c.SystemAccount = rs()
			if someB() {
				c.Identities = []v1.Identity{{ID: "i"}}
			}
			tok, err := c.Encode(okp)
			if err != nil {
				cx.Violate("migration", "operator: v1 encode err", map[string]string{"v1_token": c04tok})
				continue
			}
			c04tok = tok
			checkToken(cx, tok, c01Replay{tok, "", "v1-migration"}, nil)
			cx.Count("v1-token")
			chkGenericView(cx, "operator", tok, &c.ClaimsData)
			d, err := jwt.Decode(tok)
			if err != nil {
				cx.Violate("migration", "operator: v2 decode err "+err.Error(), map[string]string{"v1_token": c04tok})
				continue
			}
			o := d.(*jwt.OperatorClaims)
			chkCD("operator", &c.ClaimsData, &o.ClaimsData, &o.GenericFields)
			chk(eqS(c.SigningKeys, o.SigningKeys) && c.AccountServerURL == o.AccountServerURL && eqS(c.OperatorServiceURLs, o.OperatorServiceURLs) && c.SystemAccount == o.SystemAccount, "operator: fields")
			chk(o.AssertServerVersion == "" && !o.StrictSigningKeyUsage, "operator: v2-only zero")
			// what version 1 encoded, version 2 can encode again, to the same content
			tok2, err := o.Encode(okp)
			if err != nil {
				cx.Violate("migration", "operator: re-encode err "+err.Error(), map[string]string{"v1_token": c04tok})
				continue
			}
			o2, err := jwt.DecodeOperatorClaims(tok2)
			if err != nil {
				cx.Violate("migration", "operator: re-decode err", map[string]string{"v1_token": c04tok})
				continue
			}
			chk(o2.Version == 2, "operator: re-encoded version 2")
			chk(eqS(o.SigningKeys, o2.SigningKeys) && o.AccountServerURL == o2.AccountServerURL && eqS(o.OperatorServiceURLs, o2.OperatorServiceURLs) && o.SystemAccount == o2.SystemAccount && o.Subject == o2.Subject && o.Name == o2.Name, "operator: re-encode stable")
		case 3: // activation
			c := v1.NewActivationClaims(apk)
			fillCD(&c.ClaimsData)
			c.ImportSubject = v1.Subject(rs())
			c.ImportType = v1.ExportType(rng.Intn(3))
			if rb() {
				c.Limits = v1.Limits{Max: ri(), Payload: ri(), Src: rs()}
			}
			if someB() {
				c.IssuerAccount = rs()
			}
			kp := nkeys.KeyPair(akp)
			if rb() {
				kp = okp
			}
			tok, err := c.Encode(kp)
			if err != nil {
				cx.Violate("migration", "activation: v1 encode err", map[string]string{"v1_token": c04tok})
				continue
			}
			c04tok = tok
			checkToken(cx, tok, c01Replay{tok, "", "v1-migration"}, nil)
			cx.Count("v1-token")
			chkGenericView(cx, "activation", tok, &c.ClaimsData)
			d, err := jwt.Decode(tok)
			if err != nil {
				cx.Violate("migration", "activation: v2 decode err "+err.Error(), map[string]string{"v1_token": c04tok})
				continue
			}
			a := d.(*jwt.ActivationClaims)
			chkCD("activation", &c.ClaimsData, &a.ClaimsData, &a.GenericFields)
			chk(string(c.ImportSubject) == string(a.ImportSubject) && int(c.ImportType) == int(a.ImportType) && c.IssuerAccount == a.IssuerAccount, "activation: fields")
			h1, e1 := c.HashID()
			h2, e2 := a.HashID()
			chk(h1 == h2 && (e1 == nil) == (e2 == nil), "activation: hash id v1 = v2")
			tok2, err := a.Encode(kp)
			if err == nil {
				d2, err := jwt.DecodeActivationClaims(tok2)
				chk(err == nil, "activation: re-decode")
				if err == nil {
					h3, _ := d2.HashID()
					chk(h3 == h2, "activation: hash id stable across re-encode")
				}
			}
		case 4: // generic
			c := v1.NewGenericClaims(upk)
			fillCD(&c.ClaimsData)
			c.Type = v1.ClaimType([]string{"", "foo", "my_type"}[rng.Intn(3)])
			if rb() {
				c.Data["k"] = rs()
				c.Data["n"] = float64(rng.Intn(100))
				if rng.Intn(3) == 0 {
					// free-form data that uses the names the v1 kind and tags are re-homed under
					c.Data["type"] = "data-" + rs()
					c.Data["tags"] = []interface{}{"x"}
					if rb() {
						c.Tags.Add("T1")
					}
				}
			} else if rb() {
				c.Data = nil
			}
			kps := []nkeys.KeyPair{akp, okp, ukp, skp}
			tok, err := c.Encode(kps[rng.Intn(len(kps))])
			if err != nil {
				cx.Violate("migration", "generic: v1 encode err", map[string]string{"v1_token": c04tok})
				continue
			}
			var g *jwt.GenericClaims
			func() {
				defer func() {
					if r := recover(); r != nil {
						err = fmt.Errorf("PANIC %v", r)
					}
				}()
				g, err = jwt.DecodeGeneric(tok)
			}()
			c04tok = tok
			checkToken(cx, tok, c01Replay{tok, "", "v1-migration"}, nil)
			cx.Count("v1-token")
			if err != nil {
				cx.Violate("migration", "generic: v2 DecodeGeneric err "+err.Error(), map[string]string{"v1_token": c04tok})
				continue
			}
			chk(g.Audience == c.Audience && g.Name == c.Name && g.Subject == c.Subject && g.Issuer == c.Issuer && g.ID == c.ID && g.Expires == c.Expires, "generic: std")
			if c.Type != "" {
				chk(g.Data["type"] == string(c.Type), "generic: type re-homed")
			}
			if len(c.Tags) > 0 {
				tl, ok := g.Data["tags"].(jwt.TagList)
				chk(ok && eqS(tl, c.Tags), "generic: tags re-homed")
			}
			for k, v := range c.Data {
				if (k == "type" && c.Type != "") || (k == "tags" && len(c.Tags) > 0) {
					continue // the v1 kind / tags take these names (checked above)
				}
				chk(reflect.DeepEqual(g.Data[k], v), "generic: data carried")
			}
			d, err := jwt.Decode(tok)
			chk(err == nil, "generic: general Decode accepts v1 generic")
			if err == nil {
				_, ok := d.(*jwt.GenericClaims)
				chk(ok, "generic: general Decode returns generic")
			}
		}
	}
}

// chkGenericView: the generic reader must carry over the kind and the standard fields of a typed version-1 token
func chkGenericView(cx *Ctx, kind, tok string, cd *v1.ClaimsData) {
	var g *jwt.GenericClaims
	var err error
	func() {
		defer func() {
			if r := recover(); r != nil {
				err = fmt.Errorf("PANIC %v", r)
			}
		}()
		g, err = jwt.DecodeGeneric(tok)
	}()
	if err != nil {
		cx.Violate("migration", kind+": v2 DecodeGeneric err "+err.Error(), map[string]string{"v1_token": tok})
		return
	}
	chk(g.Audience == cd.Audience && g.Name == cd.Name && g.Subject == cd.Subject && g.Issuer == cd.Issuer && g.ID == cd.ID && g.Expires == cd.Expires && g.NotBefore == cd.NotBefore && g.IssuedAt == cd.IssuedAt, kind+": generic view: standard fields")
	chk(g.Data["type"] == kind, kind+": generic view: kind carried into the data")
	chk(string(g.ClaimType()) == kind, kind+": generic view: reported kind")
	if len(cd.Tags) > 0 {
		tl, ok := g.Data["tags"].(jwt.TagList)
		chk(ok && eqS(tl, cd.Tags), kind+": generic view: tags carried")
	}
}

// normalize nil/empty through a deep copy with empty containers removed
func normalize(v interface{}) interface{} {
	return norm(reflect.ValueOf(v)).Interface()
}

func norm(v reflect.Value) reflect.Value {
	switch v.Kind() {
	case reflect.Ptr:
		if v.IsNil() {
			return v
		}
		n := reflect.New(v.Type().Elem())
		n.Elem().Set(norm(v.Elem()))
		return n
	case reflect.Interface:
		if v.IsNil() {
			return v
		}
		n := reflect.New(v.Type()).Elem()
		n.Set(norm(v.Elem()))
		return n
	case reflect.Struct:
		n := reflect.New(v.Type()).Elem()
		for i := 0; i < v.NumField(); i++ {
			if n.Field(i).CanSet() {
				n.Field(i).Set(norm(v.Field(i)))
			}
		}
		return n
	case reflect.Slice:
		if v.Len() == 0 {
			return reflect.Zero(v.Type())
		}
		n := reflect.MakeSlice(v.Type(), v.Len(), v.Len())
		for i := 0; i < v.Len(); i++ {
			n.Index(i).Set(norm(v.Index(i)))
		}
		return n
	case reflect.Map:
		if v.Len() == 0 {
			return reflect.Zero(v.Type())
		}
		n := reflect.MakeMap(v.Type())
		for _, k := range v.MapKeys() {
			n.SetMapIndex(k, norm(v.MapIndex(k)))
		}
		return n
	}
	return v
}
