package main

import (
	"encoding/json"
	"fmt"
	"reflect"
	"sort"
	"strings"
)

// Reflective canonical dump of a Go value, in exactly the format of the Lean model's `Codec.dump`:
// struct values flattened the way encoding/json sees them (JSON key : value, field order),
// nil = ~, pointer = &, slice = [..], map = <sorted k:v>, string = s<hex>, ints = i<n>, bool T/F,
// interface{} = j<hex of canonical JSON>.

type jfield struct {
	key string
	val reflect.Value
}

func jsonFields(v reflect.Value) []jfield {
	var out []jfield
	t := v.Type()
	for i := 0; i < t.NumField(); i++ {
		sf := t.Field(i)
		tag := sf.Tag.Get("json")
		if tag == "-" {
			continue
		}
		name := tag
		if j := strings.Index(tag, ","); j >= 0 {
			name = tag[:j]
		}
		if sf.Anonymous && name == "" && sf.Type.Kind() == reflect.Struct {
			out = append(out, jsonFields(v.Field(i))...)
			continue
		}
		if !sf.IsExported() {
			continue
		}
		if name == "" {
			name = sf.Name
		}
		out = append(out, jfield{name, v.Field(i)})
	}
	return out
}

// dumpNormEmpty: when set, empty (non-nil) slices and maps are printed like nil ones — the identification
// `omitempty` forces on every encode/decode round trip.
var dumpNormEmpty = false

// dumpNorm dumps x identifying nil and empty containers.
func dumpNorm(x interface{}) string {
	dumpNormEmpty = true
	defer func() { dumpNormEmpty = false }()
	return dumpAny(x)
}

func dumpVal(v reflect.Value) string {
	if dumpNormEmpty && (v.Kind() == reflect.Slice || v.Kind() == reflect.Map) && v.Len() == 0 {
		return "~"
	}
	switch v.Kind() {
	case reflect.Bool:
		if v.Bool() {
			return "T"
		}
		return "F"
	case reflect.String:
		return "s" + hx(v.String())
	case reflect.Int, reflect.Int8, reflect.Int16, reflect.Int32, reflect.Int64:
		return fmt.Sprintf("i%d", v.Int())
	case reflect.Uint, reflect.Uint8, reflect.Uint16, reflect.Uint32, reflect.Uint64:
		return fmt.Sprintf("i%d", v.Uint())
	case reflect.Ptr:
		if v.IsNil() {
			return "~"
		}
		return "&" + dumpVal(v.Elem())
	case reflect.Slice:
		if v.IsNil() {
			return "~"
		}
		var parts []string
		for i := 0; i < v.Len(); i++ {
			parts = append(parts, dumpVal(v.Index(i)))
		}
		return "[" + strings.Join(parts, ",") + "]"
	case reflect.Map:
		if v.IsNil() {
			return "~"
		}
		type kv struct{ k, s string }
		var kvs []kv
		it := v.MapRange()
		for it.Next() {
			kvs = append(kvs, kv{it.Key().String(), dumpVal(it.Value())})
		}
		sort.Slice(kvs, func(i, j int) bool { return kvs[i].k < kvs[j].k })
		var parts []string
		for _, e := range kvs {
			parts = append(parts, hx(e.k)+":"+e.s)
		}
		return "<" + strings.Join(parts, ",") + ">"
	case reflect.Struct:
		var parts []string
		for _, f := range jsonFields(v) {
			parts = append(parts, hx(f.key)+":"+dumpVal(f.val))
		}
		return "{" + strings.Join(parts, ",") + "}"
	case reflect.Interface:
		if v.IsNil() {
			return "~"
		}
		if v.Type().NumMethod() > 0 { // jwt.Scope: a *UserScope or a UserScope
			if e := v.Elem(); dumpNormEmpty && e.Kind() == reflect.Ptr && !e.IsNil() {
				return dumpVal(e.Elem()) // a scope held by pointer or by value is the same content
			}
			return dumpVal(v.Elem())
		}
		b, err := json.Marshal(v.Interface())
		if err != nil {
			return "j!" + err.Error()
		}
		return "j" + hx(string(b))
	}
	return "?" + v.Kind().String()
}

func dumpAny(x interface{}) string {
	v := reflect.ValueOf(x)
	for v.Kind() == reflect.Ptr && !v.IsNil() && v.Elem().Kind() == reflect.Struct {
		v = v.Elem()
	}
	return dumpVal(v)
}
