package main

import (
	"encoding/json"
	"strings"

	jwt "github.com/nats-io/jwt/v2"
	v1 "github.com/nats-io/jwt/v2/v1compat"
)

// C16 — containment / wildcard detection vs brute-force NATS matching.

func init() { runners["C16"] = runner{run: runC16, replay: replayC16} }

// natsMatch: `*` one token, trailing `>` one or more tokens.
func natsMatch(pat, subj []string) bool {
	for i, t := range pat {
		if t == ">" && i == len(pat)-1 {
			return len(subj) > i
		}
		if i >= len(subj) {
			return false
		}
		if t != "*" && t != subj[i] {
			return false
		}
	}
	return len(pat) == len(subj)
}

func enumSeqs(alpha []string, maxLen int, lastExtra []string) [][]string {
	var out [][]string
	var rec func(cur []string)
	rec = func(cur []string) {
		if len(cur) > 0 {
			out = append(out, append([]string{}, cur...))
		}
		if len(cur) == maxLen {
			return
		}
		for _, a := range alpha {
			rec(append(cur, a))
		}
	}
	rec(nil)
	if lastExtra != nil {
		// patterns whose last token is one of lastExtra (e.g. ">")
		base := append([][]string{{}}, out...)
		for _, b := range base {
			if len(b) < maxLen {
				for _, e := range lastExtra {
					out = append(out, append(append([]string{}, b...), e))
				}
			}
		}
	}
	return out
}

type c16Replay struct {
	Kind string `json:"kind"` // contained | wild
	Pkg  string `json:"pkg"`  // v2 | v1compat
	P    string `json:"p"`
	Q    string `json:"q,omitempty"`
}

func implContained(pkg, p, q string) bool {
	if pkg == "v1compat" {
		return v1.Subject(p).IsContainedIn(v1.Subject(q))
	}
	return jwt.Subject(p).IsContainedIn(jwt.Subject(q))
}
func implWild(pkg, p string) bool {
	if pkg == "v1compat" {
		return v1.Subject(p).HasWildCards()
	}
	return jwt.Subject(p).HasWildCards()
}

// bruteContained decides semantic containment over literals {a,b,c,<fresh>} up to maxLit tokens.
func bruteSets(pats [][]string, lits [][]string) [][]uint64 {
	sets := make([][]uint64, len(pats))
	for i, p := range pats {
		bs := make([]uint64, (len(lits)+63)/64)
		for j, l := range lits {
			if natsMatch(p, l) {
				bs[j/64] |= 1 << uint(j%64)
			}
		}
		sets[i] = bs
	}
	return sets
}
func subset(a, b []uint64) bool {
	for i := range a {
		if a[i]&^b[i] != 0 {
			return false
		}
	}
	return true
}
func popcount(a []uint64) int {
	n := 0
	for _, w := range a {
		for w != 0 {
			w &= w - 1
			n++
		}
	}
	return n
}

func runC16(c *Ctx) {
	c.Res.Rule = "exhaustive: every ordered pair of valid patterns over {a,b,*,>} (> last only) up to 4 tokens, decided against all literal subjects over {a,b,c} up to 5 tokens, for v2 and v1compat; plus random longer patterns over a wider alphabet (tokens that merely contain a wildcard character, multi-byte tokens) with HasWildCards judged by whole tokens and containment decided against literals built from the patterns' own tokens and a fresh token. non-trivial = distinct (package, p, q) pairs."
	pats := enumSeqs([]string{"a", "b", "*"}, 4, []string{">"})
	lits := enumSeqs([]string{"a", "b", "c"}, 5, nil)
	sets := bruteSets(pats, lits)
	c.Res.Extra["patterns"] = len(pats)
	c.Res.Extra["literals"] = len(lits)
	for _, pkg := range []string{"v2", "v1compat"} {
		for i, p := range pats {
			ps := strings.Join(p, ".")
			w := implWild(pkg, ps)
			wantW := popcount(sets[i]) > 1
			if pkg == "v2" {
				c.Op(b2s(w), true, "wild", hx(ps))
			} else {
				c.Eval("wild1:"+ps, true)
			}
			if w != wantW {
				c.Violate("wildcards", "HasWildCards("+ps+") = "+b2s(w)+" but the pattern matches "+itoa(popcount(sets[i]))+" concrete subjects", c16Replay{"wild", pkg, ps, ""})
			}
			for j, q := range pats {
				qs := strings.Join(q, ".")
				got := implContained(pkg, ps, qs)
				want := subset(sets[i], sets[j])
				if pkg == "v2" {
					c.Op(b2s(got), true, "contained", hx(ps), hx(qs))
				} else {
					c.Eval("c1:"+ps+"|"+qs, true)
				}
				if got {
					c.Count(pkg + ":contained")
				} else {
					c.Count(pkg + ":not-contained")
				}
				if got != want {
					c.Violate("containment", ps+" IsContainedIn "+qs+" = "+b2s(got)+" but semantic containment is "+b2s(want), c16Replay{"contained", pkg, ps, qs})
				}
			}
		}
	}
	c.Sample(map[string]string{"p": "a.*.>", "q": "a.>", "op": "contained"})
	c.Res.Exhaustive = true

	// random longer patterns (not part of the exhaustive claim)
	alpha := []string{"a", "b", "foo", "x-y", "$1", "*", "*", "*a", "a*", ">x", "é", "日本", "заказы", "ab"}
	n := c.N(3000, 200000)
	for k := 0; k < n; k++ {
		mk := func() []string {
			l := 1 + c.R.Intn(7)
			p := make([]string, l)
			for i := range p {
				p[i] = c.R.Pick(alpha)
			}
			if c.R.Chance(35) {
				p[l-1] = ">"
			}
			return p
		}
		p, q := mk(), mk()
		if c.R.Chance(50) { // derive q from p so that containment is frequent
			q = append([]string{}, p...)
			for i := range q {
				if c.R.Chance(30) {
					q[i] = "*"
				}
			}
			if c.R.Chance(30) {
				cut := 1 + c.R.Intn(len(q))
				q = append(q[:cut:cut], ">")
			}
			// keep `>` last only
			for i := 0; i < len(q)-1; i++ {
				if q[i] == ">" {
					q[i] = "*"
				}
			}
		}
		ps, qs := strings.Join(p, "."), strings.Join(q, ".")
		// HasWildCards on the same (longer, partly non-ASCII) patterns: a whole-token `*` anywhere or a final `>`
		for _, pkg := range []string{"v2", "v1compat"} {
			wantW := p[len(p)-1] == ">"
			for _, t := range p {
				if t == "*" {
					wantW = true
				}
			}
			if w := implWild(pkg, ps); w != wantW {
				c.Violate("wildcards", "HasWildCards("+ps+") = "+b2s(w)+" ("+pkg+") but the pattern "+map[bool]string{true: "has", false: "has no"}[wantW]+" wildcard token", c16Replay{"wild", pkg, ps, ""})
			}
		}
		got := jwt.Subject(ps).IsContainedIn(jwt.Subject(qs))
		c.Op(b2s(got), true, "contained", hx(ps), hx(qs))
		want := semContainedLocal(p, q)
		c.Count("random:" + b2s(got))
		if got != want {
			c.Violate("containment", ps+" IsContainedIn "+qs+" = "+b2s(got)+" but semantic containment is "+b2s(want), c16Replay{"contained", "v2", ps, qs})
		}
		if k < 3 {
			c.Sample(map[string]string{"p": ps, "q": qs, "contained": b2s(got)})
		}
	}
}

// semContainedLocal decides containment for arbitrary valid patterns by instantiating p:
// every `*` and the trailing `>` (with 1 and 2 tokens) become a token fresh for q.
func semContainedLocal(p, q []string) bool {
	fresh := "§fresh"
	for _, extra := range []int{1, 2} {
		var s []string
		for i, t := range p {
			switch {
			case t == ">" && i == len(p)-1:
				for k := 0; k < extra; k++ {
					s = append(s, fresh)
				}
			case t == "*":
				s = append(s, fresh)
			default:
				s = append(s, t)
			}
		}
		if !natsMatch(q, s) {
			return false
		}
	}
	return true
}

func itoa(n int) string {
	b, _ := json.Marshal(n)
	return string(b)
}

func replayC16(c *Ctx, raw json.RawMessage) {
	var r c16Replay
	must(json.Unmarshal(raw, &r))
	if r.Kind == "wild" {
		p := strings.Split(r.P, ".")
		lits := enumSeqs([]string{"a", "b", "c"}, len(p)+1, nil)
		n := 0
		for _, l := range lits {
			if natsMatch(p, l) {
				n++
			}
		}
		if implWild(r.Pkg, r.P) != (n > 1) {
			c.Violate("wildcards", "HasWildCards("+r.P+") disagrees with matching", r)
		}
		return
	}
	got := implContained(r.Pkg, r.P, r.Q)
	want := semContainedLocal(strings.Split(r.P, "."), strings.Split(r.Q, "."))
	if got != want {
		c.Violate("containment", r.P+" IsContainedIn "+r.Q+" = "+b2s(got)+", semantic "+b2s(want), r)
	}
}
