package main

// Declarative transcription of DESIGN.md section 5.6 (the C06 catalogue): for a claims value, the list of
// catalogue rule ids it violates. Independent of the library's Validate code: existentials over elements,
// integer sums; key roles via the harness's own nkey decoder. ("Contained" is the library's IsContainedIn,
// as the catalogue says; C16 proves it semantic on valid subjects.)

import (
	"net"
	"net/url"
	"strconv"
	"strings"
	"time"

	jwt "github.com/nats-io/jwt/v2"
)

type rules struct{ ids []string }

func (r *rules) add(cond bool, id string) {
	if cond {
		r.ids = append(r.ids, id)
	}
}

func roleIs(s string, role byte) bool {
	r, _, ok := oracleKey(s)
	return ok && r == role
}

func badSubject(s string) bool {
	if s == "" {
		return true
	}
	for _, t := range strings.Split(s, ".") {
		if t == "" || strings.Contains(t, " ") {
			return true
		}
	}
	return false
}

func toks(s string) []string { return strings.Split(s, ".") }

func hasWild(s string) bool {
	t := toks(s)
	for i, x := range t {
		if x == "*" || (x == ">" && i == len(t)-1) {
			return true
		}
	}
	return false
}

func contained(p, q string) bool { return jwt.Subject(p).IsContainedIn(jwt.Subject(q)) }

func (r *rules) info(i jwt.Info) {
	r.add(len(i.Description) > 8192, "I1")
	if i.InfoURL != "" {
		r.add(len(i.InfoURL) > 8192, "I2")
		u, err := url.Parse(i.InfoURL)
		r.add(err != nil || u.Hostname() == "" || u.Scheme == "", "I3")
	}
}

func (r *rules) export(e *jwt.Export) {
	if e == nil {
		r.add(true, "E0")
		return
	}
	svc, str := e.Type == jwt.Service, e.Type == jwt.Stream
	r.add(!svc && !str, "E1")
	r.add(svc && !(e.ResponseType == "" || e.ResponseType == "Singleton" || e.ResponseType == "Stream" || e.ResponseType == "Chunked"), "E2")
	r.add(str && e.ResponseType != "", "E3")
	r.add(str && e.AllowTrace, "E4")
	if l := e.Latency; l != nil {
		r.add(!svc, "E5")
		r.add(l.Sampling != 0 && (l.Sampling < 1 || l.Sampling > 100), "E6")
		r.add(badSubject(string(l.Results)) || hasWild(string(l.Results)), "E7")
	}
	r.add(e.ResponseThreshold < 0, "E8")
	r.add(e.ResponseThreshold > 0 && !svc, "E9")
	r.add(badSubject(string(e.Subject)), "E10")
	if p := e.AccountTokenPosition; p > 0 {
		t := toks(string(e.Subject))
		switch {
		case !hasWild(string(e.Subject)):
			r.add(true, "E11")
		case p > uint(len(t)):
			r.add(true, "E12")
		case t[p-1] != "*":
			r.add(true, "E13")
		}
	}
	r.info(e.Info)
}

func (r *rules) exports(es jwt.Exports) {
	for _, e := range es {
		r.export(e)
	}
	for i, a := range es {
		for j, b := range es {
			if i != j && a != nil && b != nil && (a.Type == jwt.Service) == (b.Type == jwt.Service) &&
				contained(string(a.Subject), string(b.Subject)) {
				r.add(true, "EL1")
			}
		}
	}
}

func isRef(tk string) (int, bool) {
	if len(tk) > 1 && tk[0] == '$' {
		if n, err := strconv.Atoi(tk[1:]); err == nil {
			return n, true
		}
	}
	return 0, false
}

func endsGt(s string) bool { return s == ">" || strings.HasSuffix(s, ".>") }

func countStar(s string) int {
	n := 0
	for _, t := range toks(s) {
		if t == "*" {
			n++
		}
	}
	return n
}

func (r *rules) local(local, from string) {
	r.add(badSubject(local), "M5a")
	r.add(strings.Contains(local, " "), "M5b")
	r.add(from == "", "M5c")
	r.add(endsGt(local) != endsGt(from), "M5d")
	want := countStar(from)
	got := 0
	for _, tk := range toks(local) {
		if tk == "*" {
			got++
		}
		if n, ok := isRef(tk); ok {
			if n > want {
				r.add(true, "M5e")
			} else {
				got++
			}
		}
	}
	r.add(got != want, "M5f")
}

func (r *rules) activation(a *jwt.ActivationClaims, prefix string) {
	r.add(a.ImportType != jwt.Stream && a.ImportType != jwt.Service, prefix+"A1")
	r.add(badSubject(string(a.ImportSubject)), prefix+"A2")
	r.add(a.IssuerAccount != "" && !roleIs(a.IssuerAccount, 'A'), prefix+"A3")
}

func (r *rules) imp(i *jwt.Import, acct string) {
	if i == nil {
		r.add(true, "M0")
		return
	}
	svc, str := i.Type == jwt.Service, i.Type == jwt.Stream
	r.add(!svc && !str, "M1")
	r.add(svc && i.AllowTrace, "M2")
	r.add(i.Account == "", "M3")
	r.add(badSubject(string(i.Subject)), "M4")
	if i.LocalSubject != "" {
		r.local(string(i.LocalSubject), string(i.Subject))
		r.add(i.To != "", "M6")
	}
	r.add(i.Share && !svc, "M7")
	if i.Token != "" {
		act, err := jwt.DecodeActivationClaims(i.Token)
		if err != nil {
			r.add(true, "M8")
			return
		}
		imported := string(i.Subject)
		if svc && i.To != "" {
			imported = string(i.To)
		}
		r.add(!(act.Issuer == i.Account || act.IssuerAccount == i.Account), "M9")
		r.add(act.Subject != acct, "M10")
		r.add(act.ImportType != i.Type, "M11")
		r.activation(act, "M12:")
		r.add(!contained(imported, string(act.ImportSubject)), "M13")
	}
}

func toSubject(ls string) string {
	if !strings.Contains(ls, "$") {
		return ls
	}
	t := toks(ls)
	for k, tk := range t {
		if _, ok := isRef(tk); ok {
			t[k] = "*"
		}
	}
	return strings.Join(t, ".")
}

func effLocal(i *jwt.Import) string {
	if i.To != "" {
		return string(i.To)
	}
	if l := toSubject(string(i.LocalSubject)); l != "" {
		return l
	}
	return string(i.Subject)
}

func (r *rules) imports(is jwt.Imports, acct string) {
	for _, i := range is {
		r.imp(i, acct)
	}
	for a, x := range is {
		for b, y := range is {
			if a < b && x != nil && y != nil && x.Type == jwt.Service && y.Type == jwt.Service {
				p, q := effLocal(x), effLocal(y)
				r.add(contained(p, q) || contained(q, p), "ML1")
			}
		}
	}
}

func (r *rules) permEntry(s string, queueOK bool) {
	parts := strings.Split(s, " ")
	if len(parts) > 2 {
		r.add(true, "P1")
		return
	}
	for _, p := range parts {
		r.add(badSubject(p), "P2")
	}
	r.add(len(parts) == 2 && !queueOK, "P3")
}

func (r *rules) permissions(p jwt.Permissions) {
	for _, s := range append(append([]string{}, p.Sub.Allow...), p.Sub.Deny...) {
		r.permEntry(s, true)
	}
	for _, s := range append(append([]string{}, p.Pub.Allow...), p.Pub.Deny...) {
		r.permEntry(s, false)
	}
}

func (r *rules) userLimits(l jwt.Limits) {
	for _, c := range l.Src {
		_, n, err := net.ParseCIDR(c)
		r.add(err != nil || n == nil, "U1")
	}
	for _, t := range l.Times {
		for _, v := range []string{t.Start, t.End} {
			if v == "" {
				r.add(true, "U2")
				continue
			}
			_, err := time.Parse("15:04:05", v)
			r.add(err != nil, "U2")
		}
	}
	if l.Locale != "" {
		_, err := time.LoadLocation(l.Locale)
		r.add(err != nil, "U3")
	}
}

func rulesAccount(a *jwt.AccountClaims) []string {
	r := &rules{}
	r.imports(a.Imports, a.Subject)
	r.exports(a.Exports)
	L := a.Limits
	if len(L.JetStreamTieredLimits) > 0 {
		r.add(L.JetStreamLimits != (jwt.JetStreamLimits{}), "L1")
		_, ok := L.JetStreamTieredLimits[""]
		r.add(ok, "L2")
	}
	r.add(L.Imports != -1 && int64(len(a.Imports)) > L.Imports, "L3")
	if L.Exports != -1 {
		r.add(int64(len(a.Exports)) > L.Exports, "L4")
		if !L.WildcardExports {
			for _, e := range a.Exports {
				r.add(e != nil && hasWild(string(e.Subject)), "L5")
			}
		}
	}
	r.permissions(a.DefaultPermissions)
	for from, ws := range a.Mappings {
		r.add(badSubject(string(from)), "W1")
		sum := 0
		for _, w := range ws {
			r.add(badSubject(string(w.Subject)), "W2")
			if w.Weight == 0 {
				sum += 100
			} else {
				sum += int(w.Weight)
			}
		}
		r.add(sum > 100, "W3")
	}
	x := a.Authorization
	r.add(len(x.AllowedAccounts) > 0 && len(x.AuthUsers) == 0, "X1")
	for _, u := range x.AuthUsers {
		r.add(!roleIs(u, 'U'), "X2")
	}
	for _, k := range x.AllowedAccounts {
		if k == "*" {
			r.add(len(x.AllowedAccounts) > 1, "X3")
		} else {
			r.add(!roleIs(k, 'A'), "X4")
		}
	}
	r.add(x.XKey != "" && !roleIs(x.XKey, 'X'), "X5")
	if t := a.Trace; t != nil {
		r.add(badSubject(string(t.Destination)), "T1")
		r.add(hasWild(string(t.Destination)), "T2")
		r.add(t.Sampling < 0 || t.Sampling > 100, "T3")
	}
	for k, sc := range a.SigningKeys {
		if sc == nil {
			r.add(!roleIs(k, 'A'), "K1")
		} else {
			r.add(!roleIs(sc.SigningKey(), 'A'), "K2")
		}
	}
	r.info(a.Info)
	return r.ids
}

func rulesUser(u *jwt.UserClaims) []string {
	r := &rules{}
	r.permissions(u.Permissions)
	r.userLimits(u.Limits)
	r.add(u.IssuerAccount != "" && !roleIs(u.IssuerAccount, 'A'), "U4")
	return r.ids
}

func badServiceURL(v string) bool {
	if v == "" {
		return false
	}
	u, err := url.Parse(v)
	if err != nil || u.User != nil || u.Path != "" {
		return true
	}
	switch strings.ToLower(u.Scheme) {
	case "nats", "tls", "ws", "wss":
		return false
	}
	return true
}

func badVersion(v string) bool {
	if v == "" {
		return false
	}
	p := strings.Split(v, ".")
	if len(p) != 3 {
		return true
	}
	for _, x := range p {
		n, err := strconv.Atoi(x)
		if err != nil || n < 0 {
			return true
		}
	}
	return false
}

func rulesOperator(o *jwt.OperatorClaims) []string {
	r := &rules{}
	if o.AccountServerURL != "" {
		u, err := url.Parse(o.AccountServerURL)
		r.add(err != nil || u.Scheme == "", "O1")
	}
	for _, v := range o.OperatorServiceURLs {
		r.add(badServiceURL(v), "O2")
	}
	for _, k := range o.SigningKeys {
		r.add(!roleIs(k, 'O'), "O3")
	}
	r.add(o.SystemAccount != "" && !roleIs(o.SystemAccount, 'A'), "O4")
	r.add(badVersion(o.AssertServerVersion), "O5")
	return r.ids
}

func rulesActivation(a *jwt.ActivationClaims) []string {
	r := &rules{}
	r.activation(a, "")
	return r.ids
}

func rulesAuthReq(q *jwt.AuthorizationRequestClaims) []string {
	r := &rules{}
	r.add(q.UserNkey == "", "Q1")
	r.add(q.UserNkey != "" && !roleIs(q.UserNkey, 'U'), "Q2")
	return r.ids
}

func rulesAuthResp(p *jwt.AuthorizationResponseClaims) []string {
	r := &rules{}
	r.add(!roleIs(p.Subject, 'U'), "R1")
	r.add(!roleIs(p.Audience, 'N'), "R2")
	r.add(p.Error == "" && p.Jwt == "", "R3")
	r.add(p.Error != "" && p.Jwt != "", "R4")
	r.add(p.IssuerAccount != "" && !roleIs(p.IssuerAccount, 'A'), "R5")
	return r.ids
}

func rulesOf(c jwt.Claims) []string {
	switch x := c.(type) {
	case *jwt.AccountClaims:
		return rulesAccount(x)
	case *jwt.UserClaims:
		return rulesUser(x)
	case *jwt.OperatorClaims:
		return rulesOperator(x)
	case *jwt.ActivationClaims:
		return rulesActivation(x)
	case *jwt.AuthorizationRequestClaims:
		return rulesAuthReq(x)
	case *jwt.AuthorizationResponseClaims:
		return rulesAuthResp(x)
	}
	return nil
}
