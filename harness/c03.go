package main

import (
	"encoding/json"
	"reflect"
	"strings"

	jwt "github.com/nats-io/jwt/v2"
)

// C03 — Encode then Decode is lossless for every claim kind.

func init() { runners["C03"] = runner{run: runC03, replay: nil} }

func codecStream(c *Ctx, n int, plain bool) {
	g := &Gen{r: c.R, maxDepth: 7, plain: plain}
	for i := 0; i < n; i++ {
		name := codecTypeNames[c.R.Intn(len(codecTypeNames))]
		t := codecTypes[name]
		p := reflect.New(t)
		g.fill(p.Elem(), 0, "")
		b, err := json.Marshal(p.Interface())
		if err != nil {
			c.Count("marshal-refused")
			continue
		}
		text := string(b)
		kind := "valid"
		if c.R.Chance(35) {
			text = mutateJSON(c.R, text)
			kind = "mutated"
		}
		out := implCodec(t, text)
		c.Op(out, out != "err", "codec", name, hx(text))
		c.Count("codec:" + kind + ":" + out[:2])
		if i < 1 {
			c.Sample(map[string]string{"schema": name, "json": text})
		}
	}
}

// hasZeroScopeLimit / hasTiersAndFlat: the two recorded deviations (DESIGN 7: K2, K1)
func hasZeroScopeLimit(cl jwt.Claims) bool {
	ac, ok := cl.(*jwt.AccountClaims)
	if !ok {
		return false
	}
	for _, s := range ac.SigningKeys {
		var t *jwt.UserPermissionLimits
		switch us := s.(type) {
		case *jwt.UserScope:
			if us != nil {
				t = &us.Template
			}
		case jwt.UserScope:
			t = &us.Template
		}
		if t != nil && (t.Subs == 0 || t.Data == 0 || t.Payload == 0) {
			return true
		}
	}
	return false
}
func hasTiersAndFlat(cl jwt.Claims) bool {
	ac, ok := cl.(*jwt.AccountClaims)
	return ok && len(ac.Limits.JetStreamTieredLimits) > 0 && ac.Limits.JetStreamLimits != (jwt.JetStreamLimits{})
}

// applyKnownDeviations rewrites the object the way K1 (flat JetStream limits cleared when tiers exist) and K2 (a zero
// subs/data/payload limit of a scope template read back as -1) do.
func applyKnownDeviations(cl jwt.Claims) {
	ac, ok := cl.(*jwt.AccountClaims)
	if !ok {
		return
	}
	if len(ac.Limits.JetStreamTieredLimits) > 0 {
		ac.Limits.JetStreamLimits = jwt.JetStreamLimits{}
	}
	fix := func(t *jwt.UserPermissionLimits) {
		for _, f := range []*int64{&t.Subs, &t.Data, &t.Payload} {
			if *f == 0 {
				*f = -1
			}
		}
	}
	for k, s := range ac.SigningKeys {
		switch us := s.(type) {
		case *jwt.UserScope:
			if us != nil {
				fix(&us.Template)
			}
		case jwt.UserScope:
			fix(&us.Template)
			ac.SigningKeys[k] = us
		}
	}
}

// scopesOutOfPlace: a scope stored under a map key different from its own Key decodes under its own key
func scopesOutOfPlace(cl jwt.Claims) bool {
	ac, ok := cl.(*jwt.AccountClaims)
	if !ok {
		return false
	}
	for k, s := range ac.SigningKeys {
		if s != nil && s.SigningKey() != k {
			return true
		}
	}
	return false
}

func runC03(c *Ctx) {
	c.Res.Rule = "(a) codec correspondence: random values of every exported struct type of both packages (reflective generator: nil/empty/filled containers, int edges, JSON/HTML-special and non-ASCII strings, real nkeys) -> json.Marshal -> optional structural mutation -> json.Unmarshal vs the Lean codec on the generated schema (decoded value and re-marshalled bytes identical); (b) round trip on the real code: random claims of all seven kinds and every permitted signer role -> Encode -> Decode, the kind's typed decoder and DecodeGeneric: same kind, every field equal to the encoded object (reflective deep compare modulo nil/empty containers), decode -> re-encode -> decode stable; each token also goes through the model's Encode and Decode. non-trivial = distinct claims / documents."
	codecStream(c, c.N(2500, 200000), true)
	n := c.N(1500, 120000)
	for i := 0; i < n; i++ {
		kind := allKinds[c.R.Intn(len(allKinds))]
		cl, kp := randomClaims(c, kind, true)
		if i < 2 {
			// fixed witnesses of the two open known findings, always first (K1: tiers + flat limits; K2: zero limit in a scope template)
			kind = "account"
			ac := jwt.NewAccountClaims(kr.acct[0])
			if i == 0 {
				ac.Limits.JetStreamLimits.MemoryStorage = 1024
				ac.Limits.JetStreamTieredLimits = jwt.JetStreamTieredLimits{"R1": jwt.JetStreamLimits{DiskStorage: 2048}}
			} else {
				us := jwt.NewUserScope()
				us.Key, us.Role = pubOf(kpN('A', 11)), "r"
				us.Template.Subs = 0
				ac.SigningKeys.AddScopedSigner(us)
			}
			cl, kp = ac, kpN('O', 0)
		}
		rp := map[string]interface{}{"kind": kind, "claims_dump": dumpAny(cl), "signer": pubOf(kp)}
		tok, err := encodeOp(c, kind, cl, kp, true)
		if err != nil {
			c.Count("encode-error:" + kind)
			continue
		}
		want := dumpNorm(cl) // the object as Encode left it
		checkToken(c, tok, c01Replay{tok, "", "roundtrip"}, nil)
		dc, derr := jwt.Decode(tok)
		known := ""
		switch {
		case hasTiersAndFlat(cl):
			known = "tiers-clear-flat-limits"
		case hasZeroScopeLimit(cl):
			known = "scope-template-zero-limit"
		}
		// what the two recorded deviations, and nothing else, would turn the object into: a difference is listed under
		// a known finding only when the decoded claims equal exactly this
		wantKnown := ""
		if known != "" {
			applyKnownDeviations(cl)
			wantKnown = dumpNorm(cl)
		}
		if derr != nil {
			c.Violate("decode-refuses", "Decode refuses a token the library just encoded ("+kind+"): "+derr.Error(), rp)
			continue
		}
		if kindOfClaims(dc) != kind {
			c.Violate("kind-changed", "decoded kind "+kindOfClaims(dc)+" for an encoded "+kind, rp)
			continue
		}
		got := dumpNorm(dc)
		if got != want && !scopesOutOfPlace(cl) {
			if known != "" && got == wantKnown {
				c.Violate(known, "recorded deviation", rp)
			} else {
				c.Violate("field-lost", "decoded "+kind+" claims differ from the encoded object: "+firstDiff(want, got), rp)
			}
		}
		// typed decoder agrees with the general one
		for _, td := range typedDecoders {
			if td.kind == kind {
				tc, terr := td.f(tok)
				if terr != nil || dumpNorm(tc) != got {
					c.Violate("typed-decoder", "the typed decoder for "+kind+" disagrees with Decode", rp)
				}
			}
		}
		// generic reader accepts it too and reports the same standard fields
		g, gerr := jwt.DecodeGeneric(tok)
		if gerr != nil {
			c.Violate("decode-refuses", "DecodeGeneric refuses a token the library just encoded: "+gerr.Error(), rp)
		} else if dumpNorm(&g.ClaimsData) != dumpNorm(dc.Claims()) {
			c.Violate("field-lost", "DecodeGeneric reports different standard fields", rp)
		}
		// decode -> re-encode -> decode
		tok2, err2 := dc.Encode(kp)
		if err2 != nil {
			c.Violate("reencode", "re-encoding the decoded claims fails: "+err2.Error(), rp)
			continue
		}
		dc2, derr2 := jwt.Decode(tok2)
		if derr2 != nil {
			c.Violate("reencode", "decoding the re-encoded token fails: "+derr2.Error(), rp)
			continue
		}
		a, b := dumpNorm(dc), dumpNorm(dc2)
		// the two encodes may fall into different seconds: ignore iat and the id derived from it
		if stripStamp(a) != stripStamp(b) {
			c.Violate("reencode", "decode/re-encode/decode changed the content: "+firstDiff(a, b), rp)
		}
		c.Count("roundtrip:" + kind)
		if i < 2 {
			c.Sample(map[string]interface{}{"kind": kind, "token": tok})
		}
	}
}

func stripStamp(d string) string {
	for _, k := range []string{"iat", "jti"} {
		key := hx(k) + ":"
		if i := strings.Index(d, key); i >= 0 {
			j := i + len(key)
			for j < len(d) && d[j] != ',' && d[j] != '}' {
				j++
			}
			d = d[:i+len(key)] + d[j:]
		}
	}
	return d
}

func firstDiff(a, b string) string {
	i := 0
	for i < len(a) && i < len(b) && a[i] == b[i] {
		i++
	}
	lo := i - 60
	if lo < 0 {
		lo = 0
	}
	ea, eb := i+60, i+60
	if ea > len(a) {
		ea = len(a)
	}
	if eb > len(b) {
		eb = len(b)
	}
	return "…" + a[lo:ea] + "… vs …" + b[lo:eb] + "…"
}
