package main

import (
	"encoding/json"
	"reflect"
)

// C03 — Encode then Decode is lossless. (First stream: the codec correspondence on every schema.)

func init() { runners["C03"] = runner{run: runC03, replay: nil} }

func codecStream(c *Ctx, n int, plain bool) {
	g := &Gen{r: c.R, maxDepth: 7, plain: plain}
	for i := 0; i < n; i++ {
		name := codecTypeNames[c.R.Intn(len(codecTypeNames))]
		t := codecTypes[name]
		p := reflect.New(t)
		g.fill(p.Elem(), 0, "")
		b, err := json.Marshal(p.Interface())
		if err != nil {
			c.Count("marshal-refused")
			continue
		}
		text := string(b)
		kind := "valid"
		if c.R.Chance(35) {
			text = mutateJSON(c.R, text)
			kind = "mutated"
		}
		out := implCodec(t, text)
		c.Op(out, out != "err", "codec", name, hx(text))
		c.Count("codec:" + kind + ":" + out[:2])
		if i < 2 {
			c.Sample(map[string]string{"schema": name, "json": text})
		}
	}
}

func runC03(c *Ctx) {
	c.Res.Rule = "codec correspondence: random values of every exported struct type (reflective generator: nil/empty/filled containers, int edges, special strings, real nkeys) -> json.Marshal -> optional structural mutation -> json.Unmarshal into the Go type vs the Lean codec on the generated schema (dump of the decoded value and the re-marshalled bytes must be identical)"
	codecStream(c, c.N(3000, 200000), true)
}
