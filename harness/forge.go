package main

import (
	"encoding/base64"
	"encoding/json"
	"fmt"
	"reflect"
	"strings"

	jwt "github.com/nats-io/jwt/v2"
	"github.com/nats-io/nkeys"
)

var b64 = base64.RawURLEncoding

const hdrV2 = `{"typ":"JWT","alg":"ed25519-nkey"}`
const hdrV1 = `{"typ":"jwt","alg":"ed25519"}`

// forge builds a token from raw header/payload JSON text, signed by kp over the chosen layout
// ("v2" = header.payload, "v1" = payload segment, "none" = random bytes as signature).
func forge(header, payload string, kp nkeys.KeyPair, layout string) string {
	h := b64.EncodeToString([]byte(header))
	p := b64.EncodeToString([]byte(payload))
	var text string
	switch layout {
	case "v1":
		text = p
	default:
		text = h + "." + p
	}
	var sig []byte
	if layout == "none" || kp == nil {
		sig = make([]byte, 64)
		for i := range sig {
			sig[i] = byte(i * 7)
		}
	} else {
		var err error
		sig, err = kp.Sign([]byte(text))
		must(err)
	}
	return h + "." + p + "." + b64.EncodeToString(sig)
}

func kindOfClaims(c jwt.Claims) string {
	switch c.(type) {
	case *jwt.OperatorClaims:
		return "operator"
	case *jwt.AccountClaims:
		return "account"
	case *jwt.UserClaims:
		return "user"
	case *jwt.ActivationClaims:
		return "activation"
	case *jwt.AuthorizationRequestClaims:
		return "authorization_request"
	case *jwt.AuthorizationResponseClaims:
		return "authorization_response"
	case *jwt.GenericClaims:
		return "generic"
	}
	return "?"
}

func showClaims(c jwt.Claims) string {
	return kindOfClaims(c) + " " + dumpVal(reflect.ValueOf(c).Elem())
}

type decResult struct {
	out    string // canonical: ok <kind> <dump> | err | panic:<msg>
	claims jwt.Claims
}

// warmTok: a valid version-2 token that is decoded successfully right before every judged decode. A decoder's
// verdict on a token must not depend on what the process decoded before (memoised verifications, pooled or cached
// headers, ...): with the warm-up such state is always freshly populated by a token that passes every gate.
var warmTok string

func warmUp() {
	defer func() { recover() }()
	if warmTok == "" {
		u := jwt.NewUserClaims(pubOf(kpN('U', 9)))
		u.Name = "warm-up"
		warmTok, _ = u.Encode(kpN('A', 9))
	}
	jwt.Decode(warmTok)
}

func safeDecode(name string, f func() (jwt.Claims, error)) (res decResult) {
	defer func() {
		if r := recover(); r != nil {
			res = decResult{out: fmt.Sprintf("panic:%v", r)}
		}
	}()
	warmUp()
	c, err := f()
	if err != nil || c == nil || reflect.ValueOf(c).IsNil() {
		return decResult{out: "err"}
	}
	return decResult{out: "ok " + showClaims(c), claims: c}
}

var typedDecoders = []struct {
	kind string
	f    func(string) (jwt.Claims, error)
}{
	{"operator", func(t string) (jwt.Claims, error) { c, e := jwt.DecodeOperatorClaims(t); return c, e }},
	{"account", func(t string) (jwt.Claims, error) { c, e := jwt.DecodeAccountClaims(t); return c, e }},
	{"user", func(t string) (jwt.Claims, error) { c, e := jwt.DecodeUserClaims(t); return c, e }},
	{"activation", func(t string) (jwt.Claims, error) { c, e := jwt.DecodeActivationClaims(t); return c, e }},
	{"authorization_request", func(t string) (jwt.Claims, error) {
		c, e := jwt.DecodeAuthorizationRequestClaims(t)
		return c, e
	}},
	{"authorization_response", func(t string) (jwt.Claims, error) {
		c, e := jwt.DecodeAuthorizationResponseClaims(t)
		return c, e
	}},
}

// tokenFacts: what the harness itself reads from a token (independent of the library):
// issuer string in the payload, header typ/alg, declared kind/version, and the two crypto oracle bits.
type tokenFacts struct {
	segs      []string
	okSegs    bool
	iss       string
	hdrTyp    string
	hdrAlg    string
	hdrOK     bool
	topType   string
	natsType  string
	version   float64
	hasVer    bool
	payloadOK bool
	sig       []byte
	sigOK     bool
	b1, b2    bool // signature verifies over payload segment / over header.payload, under iss
}

func factsOf(tok string) tokenFacts {
	var f tokenFacts
	f.segs = strings.Split(tok, ".")
	if len(f.segs) != 3 {
		return f
	}
	f.okSegs = true
	if hb, err := b64.DecodeString(f.segs[0]); err == nil {
		var h struct {
			Typ string `json:"typ"`
			Alg string `json:"alg"`
		}
		if json.Unmarshal(hb, &h) == nil {
			f.hdrOK = true
			f.hdrTyp, f.hdrAlg = h.Typ, h.Alg
		}
	}
	if pb, err := b64.DecodeString(f.segs[1]); err == nil {
		var p struct {
			Iss  string `json:"iss"`
			Type string `json:"type"`
			Nats struct {
				Type    string   `json:"type"`
				Version *float64 `json:"version"`
			} `json:"nats"`
		}
		if json.Unmarshal(pb, &p) == nil {
			f.payloadOK = true
		}
		// fields are read even when other parts of the payload do not fit (best effort)
		var loose map[string]json.RawMessage
		if json.Unmarshal(pb, &loose) == nil {
			for k, v := range loose {
				switch strings.ToLower(k) {
				case "iss":
					json.Unmarshal(v, &f.iss)
				case "type":
					json.Unmarshal(v, &f.topType)
				case "nats":
					var n map[string]json.RawMessage
					if json.Unmarshal(v, &n) == nil {
						for nk, nv := range n {
							switch strings.ToLower(nk) {
							case "type":
								json.Unmarshal(nv, &f.natsType)
							case "version":
								if json.Unmarshal(nv, &f.version) == nil {
									f.hasVer = true
								}
							}
						}
					}
				}
			}
		}
	}
	if sb, err := b64.DecodeString(f.segs[2]); err == nil {
		f.sig, f.sigOK = sb, true
		f.b1 = oracleVerify(f.iss, f.segs[1], sb)
		f.b2 = oracleVerify(f.iss, f.segs[0]+"."+f.segs[1], sb)
	}
	return f
}

func bit(b bool) string {
	if b {
		return "1"
	}
	return "0"
}

// alphabetEdits: alterations that leave the base64url alphabet - padding, the standard alphabet's '+' and '/',
// line breaks and blanks - at the places a tolerant decoder would forgive them.
func alphabetEdits(tok string) (out []string, how []string) {
	segs := strings.Split(tok, ".")
	if len(segs) != 3 {
		return
	}
	join := func(i int, s string) string {
		cp := append([]string{}, segs...)
		cp[i] = s
		return strings.Join(cp, ".")
	}
	for i, name := range []string{"header", "payload", "signature"} {
		s := segs[i]
		add := func(t, h string) {
			if t != s {
				out = append(out, join(i, t))
				how = append(how, name+"-"+h)
			}
		}
		add(s+"=", "pad1")
		add(s+"==", "pad2")
		add(strings.Replace(s, "-", "+", 1), "plus-first")
		add(strings.Replace(s, "_", "/", 1), "slash-first")
		add(strings.NewReplacer("-", "+", "_", "/").Replace(s), "std-alphabet")
		add(s+"\n", "newline-end")
		add(s[:len(s)/2]+"\n"+s[len(s)/2:], "newline-mid")
		add(s[:len(s)/2]+"\r\n"+s[len(s)/2:], "crlf-mid")
		add(s+" ", "blank-end")
		add(" "+s, "blank-start")
	}
	return
}
