package main

import (
	"encoding/json"
	"flag"
	"fmt"
	"os"
	"path/filepath"
	"runtime"
	"time"
)

type runner struct {
	run    func(c *Ctx)
	replay func(c *Ctx, replay json.RawMessage) // re-run one recorded case; calls c.Violate again if it still fails
}

var runners = map[string]runner{}

func main() {
	prop := flag.String("prop", "", "property id")
	tier := flag.String("tier", "quick", "quick|thorough")
	seed := flag.Int64("seed", 1, "seed")
	driver := flag.String("driver", "", "path to the Lean driver binary")
	out := flag.String("out", "", "result json path")
	work := flag.String("work", "", "scratch directory")
	replays := flag.String("replays", "/verif/replays", "replay directory")
	known := flag.String("known", "/verif/known_findings.json", "known findings file")
	escalated := flag.Bool("escalated", false, "escalated search after a proof/correspondence failure")
	boost := flag.Bool("boost", false, "larger quick budget (the source of a modelled function changed)")
	replay := flag.String("replay", "", "replay file to re-run")
	flag.Parse()

	r, ok := runners[*prop]
	if !ok {
		fmt.Fprintln(os.Stderr, "unknown property", *prop)
		os.Exit(2)
	}
	must(os.MkdirAll(*work, 0o755))
	c := &Ctx{Prop: *prop, Tier: *tier, Seed: *seed, Escalated: *escalated, Boost: *boost, R: NewRng(*seed), workDir: *work,
		replayDir: *replays, driver: *driver, seen: map[uint64]struct{}{}, start: time.Now(), maxSamp: 6}
	c.Res = &Result{Property: *prop, Tier: *tier, Seed: *seed, Distribution: map[string]int{}, KnownHits: map[string]int{},
		Extra: map[string]interface{}{}, Samples: []interface{}{}, Disagreements: []Disagreement{}, Violations: []Violation{}}
	if b, err := os.ReadFile(*known); err == nil {
		var f struct {
			Findings []KnownFinding `json:"findings"`
		}
		if json.Unmarshal(b, &f) == nil {
			c.known = f.Findings
		}
	}
	c.openStreams()
	if *replay != "" {
		b, err := os.ReadFile(*replay)
		must(err)
		var f struct {
			Replay json.RawMessage `json:"replay"`
		}
		must(json.Unmarshal(b, &f))
		if r.replay == nil {
			fmt.Fprintln(os.Stderr, "no replay runner for", *prop)
			os.Exit(2)
		}
		c.replayDir = filepath.Join(*work, "replays")
		r.replay(c, f.Replay)
	} else {
		func() {
			// a panic escaping from the library into the stream is itself a finding (and must not lose the run)
			defer func() {
				if x := recover(); x != nil {
					buf := make([]byte, 6000)
					n := runtime.Stack(buf, false)
					c.Violate("panic", fmt.Sprintf("a library call panicked during the %s stream: %v", *prop, x), map[string]string{"panic": fmt.Sprint(x), "stack": string(buf[:n])})
				}
			}()
			r.run(c)
		}()
	}
	c.runModel()
	c.Res.WallS = time.Since(c.start).Seconds()
	b, _ := json.MarshalIndent(c.Res, "", " ")
	if *out != "" {
		must(os.WriteFile(*out, b, 0o644))
	} else {
		os.Stdout.Write(b)
	}
}
