package main

import (
	"github.com/nats-io/nkeys"
)

// Deterministic key pools: one PRNG-independent pool per role so replays are stable.

var kpCache = map[string]nkeys.KeyPair{}

func prefixFor(role byte) nkeys.PrefixByte {
	switch role {
	case 'O':
		return nkeys.PrefixByteOperator
	case 'A':
		return nkeys.PrefixByteAccount
	case 'U':
		return nkeys.PrefixByteUser
	case 'N':
		return nkeys.PrefixByteServer
	case 'C':
		return nkeys.PrefixByteCluster
	}
	panic("role")
}

// kpN returns the n-th deterministic key pair of a role ('O','A','U','N','C'; 'X' = curve).
func kpN(role byte, n int) nkeys.KeyPair {
	key := string(role) + string(rune('0'+n%10)) + string(rune('0'+n/10))
	if kp, ok := kpCache[key]; ok {
		return kp
	}
	seed := make([]byte, 32)
	for i := range seed {
		seed[i] = byte(int(role)*7 + n*13 + i*31)
	}
	var kp nkeys.KeyPair
	var err error
	if role == 'X' {
		kp, err = nkeys.FromCurveSeed(mustCurveSeed(seed))
	} else {
		var s []byte
		s, err = nkeys.EncodeSeed(prefixFor(role), seed)
		must(err)
		kp, err = nkeys.FromSeed(s)
	}
	must(err)
	kpCache[key] = kp
	return kp
}

func mustCurveSeed(raw []byte) []byte {
	s, err := nkeys.EncodeSeed(nkeys.PrefixByteCurve, raw)
	must(err)
	return s
}

func mustKP(role byte) nkeys.KeyPair { return kpN(role, 0) }

func pubOf(kp nkeys.KeyPair) string {
	p, err := kp.PublicKey()
	must(err)
	return p
}

func seedOf(kp nkeys.KeyPair) []byte {
	s, err := kp.Seed()
	must(err)
	return s
}
