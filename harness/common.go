package main

import (
	"bufio"
	"crypto/sha256"
	"encoding/hex"
	"encoding/json"
	"fmt"
	"hash/fnv"
	"os"
	"os/exec"
	"path/filepath"
	"sort"
	"strings"
	"time"
)

// ---------- PRNG: every random choice comes from one SplitMix64 stream seeded by VERIF_SEED ----------

type Rng struct{ s uint64 }

func NewRng(seed int64) *Rng { return &Rng{uint64(seed)*0x9E3779B97F4A7C15 + 0x1234567} }
func (r *Rng) U64() uint64 {
	r.s += 0x9E3779B97F4A7C15
	z := r.s
	z = (z ^ (z >> 30)) * 0xBF58476D1CE4E5B9
	z = (z ^ (z >> 27)) * 0x94D049BB133111EB
	return z ^ (z >> 31)
}
func (r *Rng) Intn(n int) int {
	if n <= 0 {
		return 0
	}
	return int(r.U64() % uint64(n))
}
func (r *Rng) Bool() bool              { return r.U64()&1 == 1 }
func (r *Rng) Chance(p int) bool       { return r.Intn(100) < p } // p percent
func (r *Rng) Pick(xs []string) string { return xs[r.Intn(len(xs))] }
func (r *Rng) Bytes(n int) []byte {
	b := make([]byte, n)
	for i := range b {
		b[i] = byte(r.U64())
	}
	return b
}

// ---------- result / evidence plumbing ----------

type Violation struct {
	Class  string      `json:"class"`  // small enum; matched against known_findings.json
	What   string      `json:"what"`   // human-readable
	Replay interface{} `json:"replay"` // everything needed to re-run the case
	File   string      `json:"file,omitempty"`
	Known  string      `json:"known,omitempty"` // id of the open known finding that lists it
}

type Disagreement struct {
	Stream string `json:"stream"`
	Op     string `json:"op"`
	Impl   string `json:"impl"`
	Model  string `json:"model"`
}

type Result struct {
	Property      string                 `json:"property"`
	Tier          string                 `json:"tier"`
	Seed          int64                  `json:"seed"`
	Evaluations   int                    `json:"evaluations"`
	Distinct      int                    `json:"distinct_nontrivial"`
	Rule          string                 `json:"rule"`
	Samples       []interface{}          `json:"samples"`
	Distribution  map[string]int         `json:"distribution"`
	ModelCompared int                    `json:"traces_validated_against_impl"`
	Unsupported   int                    `json:"unsupported"`
	Disagreements []Disagreement         `json:"disagreements"`
	NDisagree     int                    `json:"n_disagreements"`
	Violations    []Violation            `json:"violations"`
	NViolations   int                    `json:"n_violations"`
	KnownHits     map[string]int         `json:"known_hits"`
	Exhaustive    bool                   `json:"exhaustive"`
	Extra         map[string]interface{} `json:"extra,omitempty"`
	WallS         float64                `json:"wall_s"`
}

type KnownFinding struct {
	Status   string            `json:"status"`
	Property string            `json:"property"`
	ID       string            `json:"id"`
	Match    map[string]string `json:"match"`
	What     string            `json:"what"`
}

// Ctx is what a property runner gets.
type Ctx struct {
	Prop, Tier string
	Seed       int64
	Escalated  bool
	Boost      bool
	R          *Rng
	Res        *Result
	workDir    string
	replayDir  string
	driver     string
	known      []KnownFinding

	opsW    *bufio.Writer
	implW   *bufio.Writer
	opsF    *os.File
	implF   *os.File
	nOps    int
	seen    map[uint64]struct{}
	stream  string
	start   time.Time
	maxSamp int
}

func (c *Ctx) Thorough() bool { return c.Tier == "thorough" }

// N picks a budget by tier. A "boost" (the source of a modelled function changed) multiplies the quick budget
// by 6 without going beyond the thorough one.
func (c *Ctx) N(quick, thorough int) int {
	if c.Thorough() {
		return thorough
	}
	if c.Boost || c.Escalated {
		b := quick * 6
		if c.Escalated {
			b = quick * 12 // the search after a broken proof / correspondence: wider than quick, bounded in time
		}
		if thorough < quick { // smaller-is-larger budgets (e.g. "0 = exhaustive") are left alone
			return quick
		}
		if b > thorough {
			b = thorough
		}
		return b
	}
	return quick
}

func (c *Ctx) Count(key string) { c.Res.Distribution[key]++ }

func (c *Ctx) Sample(v interface{}) {
	if len(c.Res.Samples) < c.maxSamp {
		c.Res.Samples = append(c.Res.Samples, v)
	}
}

func hx(s string) string { return hex.EncodeToString([]byte(s)) }

// Op records one model operation together with the implementation's canonical answer.
// nontrivial marks the case as counting towards distinct_nontrivial (deduplicated by op line).
func (c *Ctx) Op(impl string, nontrivial bool, op string, args ...string) {
	line := op
	for _, a := range args {
		line += "\t" + a
	}
	c.opsW.WriteString(line)
	c.opsW.WriteByte('\n')
	c.implW.WriteString(impl)
	c.implW.WriteByte('\n')
	c.nOps++
	c.Res.Evaluations++
	if nontrivial {
		c.Distinct(line)
	}
}

// Eval counts an oracle-only evaluation (no model op).
func (c *Ctx) Eval(key string, nontrivial bool) {
	c.Res.Evaluations++
	if nontrivial {
		c.Distinct(key)
	}
}

func (c *Ctx) Distinct(key string) {
	h := fnv.New64a()
	h.Write([]byte(key))
	k := h.Sum64()
	if _, ok := c.seen[k]; !ok {
		c.seen[k] = struct{}{}
		c.Res.Distinct++
	}
}

// Violate records an oracle violation of the property on the real code.
func (c *Ctx) Violate(class, what string, replay interface{}) {
	c.Res.NViolations++
	for _, k := range c.known {
		if k.Status == "open" && k.Property == c.Prop && k.Match["class"] == class {
			c.Res.KnownHits[k.ID]++
			return
		}
	}
	nc := 0
	for _, v := range c.Res.Violations {
		if v.Class == class {
			nc++
		}
	}
	if nc >= 2 || len(c.Res.Violations) >= 8 {
		return
	}
	v := Violation{Class: class, What: what, Replay: replay}
	b, _ := json.MarshalIndent(map[string]interface{}{
		"property": c.Prop, "kind": "oracle-violation", "class": class, "what": what, "seed": c.Seed, "tier": c.Tier, "replay": replay,
	}, "", " ")
	sum := sha256.Sum256(b)
	v.File = filepath.Join(c.replayDir, fmt.Sprintf("%s-%s-%s.json", c.Prop, class, hex.EncodeToString(sum[:4])))
	os.MkdirAll(c.replayDir, 0o755)
	os.WriteFile(v.File, b, 0o644)
	c.Res.Violations = append(c.Res.Violations, v)
}

func (c *Ctx) openStreams() {
	var err error
	c.opsF, err = os.Create(filepath.Join(c.workDir, "ops.txt"))
	must(err)
	c.implF, err = os.Create(filepath.Join(c.workDir, "impl.txt"))
	must(err)
	c.opsW = bufio.NewWriterSize(c.opsF, 1<<20)
	c.implW = bufio.NewWriterSize(c.implF, 1<<20)
}

// runModel pipes the recorded ops through the Lean driver and diffs the answers.
func (c *Ctx) runModel() {
	c.opsW.Flush()
	c.implW.Flush()
	c.opsF.Close()
	c.implF.Close()
	if c.nOps == 0 {
		return
	}
	if c.driver == "" {
		c.Res.Extra["model"] = "driver not available: correspondence skipped"
		return
	}
	in, err := os.Open(filepath.Join(c.workDir, "ops.txt"))
	must(err)
	defer in.Close()
	outPath := filepath.Join(c.workDir, "model.txt")
	out, err := os.Create(outPath)
	must(err)
	cmd := exec.Command(c.driver)
	cmd.Stdin = in
	cmd.Stdout = out
	cmd.Stderr = os.Stderr
	err = cmd.Run()
	out.Close()
	if err != nil {
		c.Res.Disagreements = append(c.Res.Disagreements, Disagreement{Stream: "driver", Op: "(driver failed)", Model: err.Error()})
		c.Res.NDisagree++
	}
	ops := readLines(filepath.Join(c.workDir, "ops.txt"))
	impl := readLines(filepath.Join(c.workDir, "impl.txt"))
	model := readLines(outPath)
	for i := range ops {
		m := "(missing)"
		if i < len(model) {
			m = model[i]
		}
		if m == "unsupported" || impl[i] == "unsupported" {
			c.Res.Unsupported++
			continue
		}
		c.Res.ModelCompared++
		if m != impl[i] {
			c.Res.NDisagree++
			if len(c.Res.Disagreements) < 20 {
				c.Res.Disagreements = append(c.Res.Disagreements, Disagreement{Stream: c.Prop, Op: ops[i], Impl: impl[i], Model: m})
			}
		}
	}
}

func readLines(p string) []string {
	f, err := os.Open(p)
	must(err)
	defer f.Close()
	var out []string
	sc := bufio.NewScanner(f)
	sc.Buffer(make([]byte, 1<<20), 1<<28)
	for sc.Scan() {
		out = append(out, sc.Text())
	}
	return out
}

func must(err error) {
	if err != nil {
		fmt.Fprintln(os.Stderr, "harness error:", err)
		os.Exit(3)
	}
}

func sortedKeys(m map[string]int) []string {
	var ks []string
	for k := range m {
		ks = append(ks, k)
	}
	sort.Strings(ks)
	return ks
}

func b2s(b bool) string {
	if b {
		return "true"
	}
	return "false"
}

func joinTab(xs ...string) string { return strings.Join(xs, "\t") }
