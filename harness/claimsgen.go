package main

import (
	"reflect"

	jwt "github.com/nats-io/jwt/v2"
	"github.com/nats-io/nkeys"
)

// randomClaims: a claims value of the kind built by the reflective generator (arbitrary content, every
// optional section present or absent, junk in the fields Encode stamps), with a subject whose role fits the
// kind and a signer of a permitted role, so that Encode normally succeeds.
func randomClaims(c *Ctx, kind string, plain bool) (jwt.Claims, nkeys.KeyPair) {
	g := &Gen{r: c.R, maxDepth: 7, plain: plain}
	n := c.R.Intn(4)
	var cl jwt.Claims
	switch kind {
	case "operator":
		x := &jwt.OperatorClaims{}
		g.fill(reflect.ValueOf(x).Elem(), 0, "")
		x.Subject = pubOf(kpN('O', n))
		if c.R.Chance(80) {
			x.AccountServerURL = []string{"", "http://h.example/jwt/v1", "nats://x", "https://accounts.example.com/jwt/v1/", "https://h.example//", "HTTP://H.example/a?b=c#d", "https://h.example/a%20b/"}[c.R.Intn(7)]
		}
		cl = x
	case "account":
		x := &jwt.AccountClaims{}
		g.fill(reflect.ValueOf(x).Elem(), 0, "")
		x.Subject = pubOf(kpN('A', n))
		cl = x
	case "user":
		x := &jwt.UserClaims{}
		g.fill(reflect.ValueOf(x).Elem(), 0, "")
		x.Subject = pubOf(kpN('U', n))
		cl = x
	case "activation":
		x := &jwt.ActivationClaims{}
		g.fill(reflect.ValueOf(x).Elem(), 0, "")
		x.Subject = pubOf(kpN('A', n))
		cl = x
	case "authorization_request":
		x := &jwt.AuthorizationRequestClaims{}
		g.fill(reflect.ValueOf(x).Elem(), 0, "")
		if x.Subject == "" {
			x.Subject = "s"
		}
		cl = x
	case "authorization_response":
		x := &jwt.AuthorizationResponseClaims{}
		g.fill(reflect.ValueOf(x).Elem(), 0, "")
		if x.Subject == "" {
			x.Subject = "s"
		}
		cl = x
	default:
		x := &jwt.GenericClaims{}
		g.fill(reflect.ValueOf(x).Elem(), 0, "")
		if x.Subject == "" {
			x.Subject = "s"
		}
		if x.Data == nil && c.R.Chance(80) {
			x.Data = map[string]interface{}{}
		}
		if x.Data != nil && c.R.Chance(15) {
			// a free-form type that equals a reserved kind name only up to letter case: still generic claims
			x.Data["type"] = []string{"User", "USER", "aCCount", "Operator", "Activation", "Authorization_Request", "Authorization_response", "Cluster", "SERVER"}[c.R.Intn(9)]
		}
		cl = x
	}
	// keep lists short enough for sort.Sort to be an insertion sort (stable); see JwtModel/Encode.lean
	return cl, signerFor(kind, c.R.Intn(4))
}
