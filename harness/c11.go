package main

import (
	"encoding/json"
	"fmt"
	"reflect"
	"sort"
	"strings"
	"time"

	jwt "github.com/nats-io/jwt/v2"
	"github.com/nats-io/nkeys"
)

// C11 — no panic on untrusted input, at decode time or when using what was decoded.

func init() { runners["C11"] = runner{run: runC11, replay: replayC11} }

type c11Replay struct {
	Token string `json:"token,omitempty"`
	Bytes string `json:"bytes_hex,omitempty"`
	Op    string `json:"operation"`
	Note  string `json:"note,omitempty"`
}

// exercise: every public operation on decoded claims, each under recover. Returns "op: panic message" or "".
func exercise(cl jwt.Claims, other jwt.Claims) string {
	var failed string
	try := func(name string, f func()) {
		if failed != "" {
			return
		}
		defer func() {
			if r := recover(); r != nil {
				failed = fmt.Sprintf("%s: %v", name, r)
			}
		}()
		f()
	}
	try("Validate", func() {
		vr := jwt.CreateValidationResults()
		cl.Validate(vr)
		vr.IsBlocking(true)
		vr.Errors()
		vr.Warnings()
	})
	try("String", func() { _ = cl.String() })
	try("ClaimType", func() { _ = cl.ClaimType() })
	try("Payload", func() { _ = cl.Payload() })
	try("ExpectedPrefixes", func() { _ = cl.ExpectedPrefixes() })
	try("Claims", func() { _ = cl.Claims().IsSelfSigned() })
	ukp := kpN('U', 0)
	user := jwt.NewUserClaims(pubOf(ukp))
	user.IssuedAt = 10
	act := jwt.NewActivationClaims(pubOf(kpN('A', 1)))
	act.IssuedAt = 10
	switch x := cl.(type) {
	case *jwt.OperatorClaims:
		try("Operator.DidSign", func() { x.DidSign(other); x.DidSign(nil); x.DidSign(x) })
		try("Operator.GetTags", func() { _ = x.GetTags() })
		try("Operator.SigningKeys", func() { x.SigningKeys.Add("k"); x.SigningKeys.Contains("k"); x.SigningKeys.Remove("k") })
		try("Operator.Tags", func() { x.Tags.Add("a"); x.Tags.Remove("a"); x.Tags.Contains("a") })
		// removing entries that are present (first and last), as found in the decoded lists
		try("Operator.RemovePresent", func() {
			if n := len(x.SigningKeys); n > 0 {
				f, l := x.SigningKeys[0], x.SigningKeys[n-1]
				x.SigningKeys.Remove(f)
				x.SigningKeys.Remove(l)
			}
			if n := len(x.Tags); n > 0 {
				f, l := x.Tags[0], x.Tags[n-1]
				x.Tags.Remove(f)
				x.Tags.Remove(l)
			}
			if n := len(x.OperatorServiceURLs); n > 0 {
				x.OperatorServiceURLs.Remove(x.OperatorServiceURLs[0])
			}
		})
	case *jwt.AccountClaims:
		try("Account.DidSign", func() { x.DidSign(other); x.DidSign(nil); x.DidSign(user); x.DidSign(act) })
		try("Account.IsClaimRevoked", func() { x.IsClaimRevoked(user); x.IsClaimRevoked(nil) })
		try("Account.HasExportContainingSubject", func() { x.Exports.HasExportContainingSubject("foo.bar"); x.Exports.HasExportContainingSubject("") })
		try("Account.Limits", func() {
			x.Limits.IsUnlimited()
			x.Limits.IsEmpty()
			x.Limits.IsJSEnabled()
			x.HasExternalAuthorization()
		})
		try("Account.Exports", func() {
			for _, e := range x.Exports {
				if e != nil {
					e.IsClaimRevoked(act)
					e.IsService()
					e.IsStream()
					e.IsSingleResponse()
					e.IsChunkedResponse()
					e.IsStreamResponse()
				}
			}
		})
		try("Account.Imports", func() {
			for _, i := range x.Imports {
				if i != nil {
					i.IsService()
					i.IsStream()
					i.GetTo()
					_ = i.LocalSubject.ToSubject()
				}
			}
		})
		try("Account.SigningKeys", func() {
			x.SigningKeys.Keys()
			x.SigningKeys.Contains("x")
			x.SigningKeys.GetScope("x")
			for k := range x.SigningKeys {
				if s, ok := x.SigningKeys.GetScope(k); ok && s != nil {
					s.SigningKey()
					s.ValidateScopedSigner(user)
					s.ValidateScopedSigner(cl)
				}
			}
		})
		try("Account.GetTags", func() { _ = x.GetTags() })
		try("Account.Encode", func() { x.Encode(kpN('O', 0)) })
		try("Account.RevokeAt", func() {
			x.RevokeAt("U1", time.Unix(5, 0))
			x.Revoke("U2")
			x.ClearRevocation("U1")
			x.Revocations.MaybeCompact()
		})
		try("Account.AddMapping", func() { x.AddMapping("a", jwt.WeightedMapping{Subject: "b"}) })
		try("Account.SigningKeys.Add", func() {
			x.SigningKeys.Add("k")
			x.SigningKeys.AddScopedSigner(jwt.NewUserScope())
			x.SigningKeys.Remove("k")
		})
		try("Account.EnableExternalAuthorization", func() { x.EnableExternalAuthorization("u") })
		try("Account.Exports.Revoke", func() {
			for _, e := range x.Exports {
				if e != nil {
					e.RevokeAt("k", time.Unix(3, 0))
					e.ClearRevocation("k")
				}
			}
		})
		try("Account.Encode2", func() { x.Encode(kpN('O', 0)) })
	case *jwt.UserClaims:
		try("User.HasEmptyPermissions", func() { x.HasEmptyPermissions(); x.IsBearerToken(); x.GetTags() })
		try("User.Limits", func() {
			x.Limits.IsUnlimited()
			x.UserLimits.Empty()
			x.UserLimits.IsUnlimited()
			x.NatsLimits.IsUnlimited()
			x.Pub.Empty()
		})
		try("User.Src", func() { x.Src.Add("1.2.3.4/8"); x.Src.Contains("x"); x.Src.Remove("x"); x.Src.Set("a,b") })
		try("User.RemovePresent", func() {
			for _, l := range []*jwt.StringList{&x.Pub.Allow, &x.Pub.Deny, &x.Sub.Allow, &x.Sub.Deny, &x.AllowedConnectionTypes} {
				if n := len(*l); n > 0 {
					f, la := (*l)[0], (*l)[n-1]
					l.Remove(f)
					l.Remove(la)
				}
			}
			if n := len(x.Tags); n > 0 {
				f := x.Tags[0]
				x.Tags.Remove(f)
			}
			if n := len(x.Src); n > 0 {
				f := x.Src[0]
				x.Src.Remove(f)
			}
		})
		try("User.Encode", func() { x.Encode(kpN('A', 0)) })
		try("User.SetScoped", func() { x.SetScoped(true); x.SetScoped(false) })
	case *jwt.ActivationClaims:
		try("Activation.HashID", func() { x.HashID() })
		try("Activation.IsService", func() { x.IsService(); x.IsStream() })
		try("Activation.Encode", func() { x.Encode(kpN('A', 0)) })
	case *jwt.AuthorizationRequestClaims:
		try("AuthRequest.Encode", func() { x.Encode(kpN('N', 0)) })
	case *jwt.AuthorizationResponseClaims:
		try("AuthResponse.Encode", func() { x.Encode(kpN('A', 0)) })
	case *jwt.GenericClaims:
		try("Generic.Encode", func() { x.Encode(kpN('A', 0)) })
	}
	return failed
}

// richPayloads: the JSON payload of a richly populated claim of each kind
func richClaims(kind string) jwt.Claims {
	switch kind {
	case "operator":
		c := jwt.NewOperatorClaims(pubOf(kpN('O', 0)))
		c.Name, c.Audience, c.Expires = "op", "aud", 99
		c.SigningKeys.Add(pubOf(kpN('O', 1)), pubOf(kpN('O', 2)))
		c.AccountServerURL, c.SystemAccount, c.AssertServerVersion = "http://h/jwt/v1", pubOf(kpN('A', 0)), "1.2.3"
		c.OperatorServiceURLs.Add("nats://h:4222", "tls://x")
		c.Tags.Add("t1", "t2")
		c.StrictSigningKeyUsage = true
		return c
	case "account":
		c := jwt.NewAccountClaims(pubOf(kpN('A', 0)))
		c.Name = "acct"
		ex := &jwt.Export{Name: "e", Subject: "foo.*.>", Type: jwt.Service, ResponseType: jwt.ResponseTypeStream, AccountTokenPosition: 2,
			Latency: &jwt.ServiceLatency{Sampling: 50, Results: "lat"}, ResponseThreshold: 5, Info: jwt.Info{Description: "d", InfoURL: "http://h/x"}}
		ex.RevokeAt("*", time.Unix(9, 0))
		c.Exports.Add(ex, &jwt.Export{Subject: "bar", Type: jwt.Stream, TokenReq: true})
		act := jwt.NewActivationClaims(pubOf(kpN('A', 0)))
		act.ImportSubject, act.ImportType = "imp.>", jwt.Stream
		atok, _ := act.Encode(kpN('A', 1))
		c.Imports.Add(&jwt.Import{Name: "i", Subject: "imp.x", Account: pubOf(kpN('A', 1)), Token: atok, Type: jwt.Stream, LocalSubject: "loc.x"},
			&jwt.Import{Subject: "svc.*", Account: pubOf(kpN('A', 2)), Type: jwt.Service, LocalSubject: "l.$1", Share: true})
		c.Limits.Imports, c.Limits.Exports, c.Limits.WildcardExports = 10, 10, false
		c.Limits.JetStreamTieredLimits["R1"] = jwt.JetStreamLimits{MemoryStorage: 1, Streams: 2}
		c.SigningKeys.Add(pubOf(kpN('A', 3)))
		us := jwt.NewUserScope()
		us.Key, us.Role = pubOf(kpN('A', 4)), "r"
		us.Template.Pub.Allow.Add("a")
		us.Template.Resp = &jwt.ResponsePermission{MaxMsgs: 1}
		us.Template.Times = []jwt.TimeRange{{Start: "01:00:00", End: "02:00:00"}}
		c.SigningKeys.AddScopedSigner(us)
		c.RevokeAt(pubOf(kpN('U', 0)), time.Unix(7, 0))
		c.DefaultPermissions.Pub.Allow.Add("p.>")
		c.DefaultPermissions.Sub.Deny.Add("s q")
		c.DefaultPermissions.Resp = &jwt.ResponsePermission{MaxMsgs: 2, Expires: 3}
		c.Mappings["m.*"] = []jwt.WeightedMapping{{Subject: "n.$1", Weight: 40, Cluster: "c"}, {Subject: "o.$1", Weight: 60}}
		c.Authorization.AuthUsers.Add(pubOf(kpN('U', 1)))
		c.Authorization.AllowedAccounts.Add("*")
		c.Authorization.XKey = pubOf(kpN('X', 0))
		c.Trace = &jwt.MsgTrace{Destination: "trace.d", Sampling: 10}
		c.Tags.Add("x")
		c.Description, c.InfoURL = "desc", "https://h.example/info"
		return c
	case "user":
		c := jwt.NewUserClaims(pubOf(kpN('U', 0)))
		c.Pub.Allow.Add("a.>", "b")
		c.Sub.Deny.Add("c q")
		c.Resp = &jwt.ResponsePermission{MaxMsgs: 1, Expires: time.Second}
		c.Src.Add("10.0.0.0/8", "fe80::/10")
		c.Times = []jwt.TimeRange{{Start: "01:00:00", End: "02:00:00"}}
		c.Locale, c.BearerToken, c.IssuerAccount = "UTC", true, pubOf(kpN('A', 0))
		c.AllowedConnectionTypes.Add(jwt.ConnectionTypeStandard)
		c.Tags.Add("t")
		c.Limits.Subs, c.Limits.Data = 5, 6
		return c
	case "activation":
		c := jwt.NewActivationClaims(pubOf(kpN('A', 0)))
		c.ImportSubject, c.ImportType, c.IssuerAccount = "foo.*.bar", jwt.Service, pubOf(kpN('A', 1))
		c.Tags.Add("t")
		return c
	case "authorization_request":
		c := jwt.NewAuthorizationRequestClaims(pubOf(kpN('U', 0)))
		c.UserNkey = pubOf(kpN('U', 0))
		c.Server = jwt.ServerID{Name: "s", Host: "h", ID: "id", Version: "2", Cluster: "c", Tags: jwt.TagList{"a"}, XKey: "x"}
		c.ClientInformation = jwt.ClientInformation{Host: "h", ID: 7, User: "u", Name: "n", Tags: jwt.TagList{"b"}, Kind: "k"}
		c.ConnectOptions = jwt.ConnectOptions{JWT: "j", Nkey: "n", Username: "u", Protocol: 1}
		c.TLS = &jwt.ClientTLS{Version: "1.3", Certs: jwt.StringList{"c"}, VerifiedChains: []jwt.StringList{{"a", "b"}}}
		c.RequestNonce = "nonce"
		return c
	case "authorization_response":
		c := jwt.NewAuthorizationResponseClaims(pubOf(kpN('U', 0)))
		c.Audience, c.Jwt, c.IssuerAccount = pubOf(kpN('N', 0)), "a.b.c", pubOf(kpN('A', 1))
		return c
	}
	c := jwt.NewGenericClaims(pubOf(kpN('U', 0)))
	c.Data["type"] = "my_type"
	c.Data["nats"] = map[string]interface{}{"type": "inner"}
	c.Data["list"] = []interface{}{1.0, "x", nil}
	c.Data["tags"] = []interface{}{"a"}
	return c
}

// mutations of one JSON document: every node replaced by every leaf, keys dropped / case-changed / duplicated
func allMutations(text string, leaves []string, visit func(mut, how string)) {
	var doc interface{}
	dec := json.NewDecoder(strings.NewReader(text))
	dec.UseNumber()
	if dec.Decode(&doc) != nil {
		return
	}
	type path []interface{}
	var paths []path
	var walk func(n interface{}, p path)
	walk = func(n interface{}, p path) {
		switch x := n.(type) {
		case map[string]interface{}:
			var ks []string
			for k := range x {
				ks = append(ks, k)
			}
			sort.Strings(ks)
			for _, k := range ks {
				np := append(append(path{}, p...), k)
				paths = append(paths, np)
				walk(x[k], np)
			}
		case []interface{}:
			for i, v := range x {
				np := append(append(path{}, p...), i)
				paths = append(paths, np)
				walk(v, np)
			}
		}
	}
	walk(doc, nil)
	clone := func() interface{} {
		var d interface{}
		dd := json.NewDecoder(strings.NewReader(text))
		dd.UseNumber()
		dd.Decode(&d)
		return d
	}
	apply := func(d interface{}, p path, f func(parent interface{}, key interface{})) {
		cur := d
		for i := 0; i < len(p)-1; i++ {
			switch k := p[i].(type) {
			case string:
				cur = cur.(map[string]interface{})[k]
			case int:
				cur = cur.([]interface{})[k]
			}
		}
		f(cur, p[len(p)-1])
	}
	for _, p := range paths {
		for _, leaf := range leaves {
			d := clone()
			var lv interface{}
			json.Unmarshal([]byte(leaf), &lv)
			apply(d, p, func(parent, key interface{}) {
				switch k := key.(type) {
				case string:
					parent.(map[string]interface{})[k] = lv
				case int:
					parent.([]interface{})[k] = lv
				}
			})
			b, _ := json.Marshal(d)
			visit(string(b), fmt.Sprintf("%v := %s", p, leaf))
		}
		// a list that holds the same entry more than once (no decoder refuses that): first entry repeated at the
		// end, and right after itself
		for variant := 0; variant < 2; variant++ {
			d := clone()
			did := false
			apply(d, p, func(parent, key interface{}) {
				var cur interface{}
				switch k := key.(type) {
				case string:
					cur = parent.(map[string]interface{})[k]
				case int:
					cur = parent.([]interface{})[k]
				}
				arr, isArr := cur.([]interface{})
				if !isArr || len(arr) == 0 {
					return
				}
				var na []interface{}
				if variant == 0 {
					na = append(append(na, arr...), arr[0])
				} else {
					na = append(append(na, arr[0]), arr...)
				}
				switch k := key.(type) {
				case string:
					parent.(map[string]interface{})[k] = na
				case int:
					parent.([]interface{})[k] = na
				}
				did = true
			})
			if did {
				b, _ := json.Marshal(d)
				visit(string(b), fmt.Sprintf("%v first entry repeated (%d)", p, variant))
			}
		}
		if k, ok := p[len(p)-1].(string); ok {
			d := clone()
			apply(d, p, func(parent, _ interface{}) { delete(parent.(map[string]interface{}), k) })
			b, _ := json.Marshal(d)
			visit(string(b), fmt.Sprintf("%v dropped", p))
			d = clone()
			apply(d, p, func(parent, _ interface{}) {
				m := parent.(map[string]interface{})
				m[strings.ToUpper(k)] = m[k]
				delete(m, k)
			})
			b, _ = json.Marshal(d)
			visit(string(b), fmt.Sprintf("%v upper-cased", p))
		}
	}
}

func c11Token(c *Ctx, tok string, note string, withModel bool) {
	rp := c11Replay{Token: tok, Note: note}
	general := safeDecode("Decode", func() (jwt.Claims, error) { return jwt.Decode(tok) })
	generic := safeDecode("DecodeGeneric", func() (jwt.Claims, error) { g, e := jwt.DecodeGeneric(tok); return g, e })
	for name, r := range map[string]decResult{"Decode": general, "DecodeGeneric": generic} {
		if strings.HasPrefix(r.out, "panic") {
			rp.Op = name
			c.Violate("panic", name+" panicked: "+r.out, rp)
		}
	}
	for _, td := range typedDecoders {
		td := td
		if r := safeDecode(td.kind, func() (jwt.Claims, error) { return td.f(tok) }); strings.HasPrefix(r.out, "panic") {
			rp.Op = "Decode:" + td.kind
			c.Violate("panic", "typed decoder panicked: "+r.out, rp)
		}
	}
	var dec []byte
	if p := safeCreds(func() { dec, _ = jwt.DecorateJWT(tok); jwt.FormatUserConfig(tok, seedOf(kpN('U', 0))) }); p != "" {
		rp.Op = "DecorateJWT/FormatUserConfig"
		c.Violate("panic", "credential helper panicked: "+p, rp)
	}
	_ = dec
	c.Eval("token:"+tok, general.claims != nil || generic.claims != nil)
	if withModel {
		f := factsOf(tok)
		iss := f.iss
		if general.claims != nil {
			iss = general.claims.Claims().Issuer
		}
		b1, b2 := false, false
		if f.okSegs && f.sigOK {
			b1, b2 = oracleVerify(iss, f.segs[1], f.sig), oracleVerify(iss, f.segs[0]+"."+f.segs[1], f.sig)
		}
		out := general.out
		if strings.HasPrefix(out, "panic") {
			out = "panic"
		}
		c.Op(out, general.claims != nil, "decode", hx(tok), hx(iss), bit(b1), bit(b2))
	}
	other := jwt.NewUserClaims(pubOf(kpN('U', 3)))
	for _, r := range []decResult{general, generic} {
		if r.claims == nil {
			continue
		}
		c.Count("decoded:" + kindOfClaims(r.claims))
		if withModel && r.claims == general.claims {
			// the validation verdict of the mutated claims, model vs implementation (a panic shows as a disagreement too)
			func() {
				defer func() { recover() }()
				cp, err := jwt.Decode(tok)
				if err == nil {
					validateOp(c, cp, false)
				}
			}()
		}
		if failed := exercise(r.claims, other); failed != "" {
			rp.Op = failed
			c.Violate("panic", "operation on decoded claims panicked — "+failed, rp)
		}
	}
}

func runC11(c *Ctx) {
	c.Res.Rule = "(a) authentically signed tokens of each kind, v2 and v1 layouts, whose payload is a structural mutation of a rich valid payload: EVERY node replaced by each of {null, 0, -1, 1.5, \"x\", \"\", [], [null], [null,null], {}, {\"k\":null}, true, -1, 2^63, 2^64-1, …}, every key dropped / upper-cased, every list with its first entry repeated — then Decode, DecodeGeneric, the typed decoders, DecorateJWT / FormatUserConfig, and on whatever was decoded: Validate, String, ClaimType, Payload, ExpectedPrefixes, DidSign, IsClaimRevoked, HasExportContainingSubject, HashID, revocation / mapping / signing-key / tag / CIDR mutators, SetScoped, scope queries, Encode; (b) odd issuer strings (well-formed nkeys of the wrong length), (c) arbitrary byte strings through every parser (tokens, credentials, seeds). Any panic is a violation (replay = token or bytes + operation). Decode outcome and validation verdict are also compared with the Lean model. non-trivial = distinct tokens accepted by some decoder."
	leaves := mutLeaves
	if !c.Thorough() {
		leaves = []string{"null", "0", "\"x\"", "[]", "[null]", "[null,null]", "{}", "{\"k\":null}", "1.5", "true", "-1", "9223372036854775808", "18446744073709551615"}
	}
	nTok := 0
	for _, kind := range allKinds {
		cl := richClaims(kind)
		kp := signerFor(kind, 0)
		tok, err := cl.Encode(kp)
		must(err)
		segs := strings.Split(tok, ".")
		pb, _ := b64.DecodeString(segs[1])
		c11Token(c, tok, "rich-valid:"+kind, true)
		allMutations(string(pb), leaves, func(mut, how string) {
			nTok++
			// keep the issuer a key we can sign with
			t2 := forge(hdrV2, mut, kp, "v2")
			c11Token(c, t2, kind+": "+how, nTok%7 == 0)
			if nTok%3 == 0 {
				// legacy layout: kind at top level, version dropped
				m1 := setJSONPathSafe(mut, func(m map[string]interface{}) {
					if nats, ok := m["nats"].(map[string]interface{}); ok {
						if t, ok := nats["type"]; ok {
							m["type"] = t
							delete(nats, "type")
						}
						delete(nats, "version")
					}
				})
				c11Token(c, forge(hdrV1, m1, kp, "v1"), kind+" (v1 layout): "+how, false)
			}
		})
	}
	c.Res.Extra["mutated_tokens"] = nTok
	// odd issuers
	for _, iss := range []string{"AAAAAAAAAAAAAAAAAAAAA", "", "A", "AAAAAAA", "UAAAA", strings.Repeat("A", 56), pubOf(kpN('X', 0)), "AABQUEIYD4TC2NB3IIKDY"} {
		for _, kind := range []string{"user", "generic_x", "account"} {
			for _, lay := range []string{"v1", "v2"} {
				hdr := hdrV2
				if lay == "v1" {
					hdr = hdrV1
				}
				payload := fmt.Sprintf(`{"iss":%q,"sub":%q,"nats":{"type":%q,"version":2}}`, iss, pubOf(kpN('U', 1)), kind)
				c11Token(c, forge(hdr, payload, kpN('A', 0), lay), "odd-issuer", true)
			}
		}
	}
	// v1-style generic tokens whose payload has no usable `nats` section (defect D8's territory)
	for _, body := range []string{`"type":"my_type"`, `"tags":["a","b"]`, `"type":"x","tags":["t"]`, `"type":"x","nats":null`, `"tags":["t"],"nats":{}`, `"type":"x","nats":{"k":1}`, `"nats":null`, ``} {
		for _, hdr := range []string{hdrV1, hdrV2, `{"typ":"jwt","alg":"ED25519"}`} {
			for _, lay := range []string{"v1", "v2"} {
				kp := kpN('A', 0)
				sep := ","
				if body == "" {
					sep = ""
				}
				payload := fmt.Sprintf(`{"iss":%q,"sub":%q%s%s}`, pubOf(kp), pubOf(kpN('U', 1)), sep, body)
				c11Token(c, forge(hdr, payload, kp, lay), "v1-generic-no-nats", true)
			}
		}
	}
	// arbitrary bytes through every parser
	seedsOdd := []string{"", "S", "SU", "SUA", " ", "\n", "é", "S\n", "  S  ", "SX"}
	for _, s := range seedsOdd {
		if p := safeCreds(func() { jwt.DecorateSeed([]byte(s)); jwt.FormatUserConfig("x.y.z", []byte(s)) }); p != "" {
			c.Violate("panic", "DecorateSeed panicked: "+p, c11Replay{Bytes: hx(s), Op: "DecorateSeed"})
		}
		c.Eval("seed:"+s, true)
	}
	for i := 0; i < c.N(3000, 300000); i++ {
		var b []byte
		switch c.R.Intn(4) {
		case 0:
			b = c.R.Bytes(c.R.Intn(80))
		case 1:
			n := c.R.Intn(120)
			al := "." + b64Alphabet + "-=\n\r {}\":,[]"
			b = make([]byte, n)
			for j := range b {
				b[j] = al[c.R.Intn(len(al))]
			}
		case 2:
			lines := []string{"-----BEGIN NATS USER JWT-----", "------END NATS USER JWT------", "eyJ0.eyJ.c2ln", "---", "SUAAAA", "SO", "\r", "", "x y", "-----"}
			var sb strings.Builder
			for k := c.R.Intn(6); k > 0; k-- {
				sb.WriteString(c.R.Pick(lines))
				sb.WriteString(c.R.Pick([]string{"\n", "\r\n", ""}))
			}
			b = []byte(sb.String())
		default:
			// three random base64 segments: header may even be valid JSON
			hdrs := []string{hdrV2, hdrV1, "{}", "[]", "null", "{\"typ\":1}", "x"}
			b = []byte(b64.EncodeToString([]byte(c.R.Pick(hdrs))) + "." + b64.EncodeToString([]byte(c.R.Pick([]string{"{}", "null", "[]", "{\"nats\":null}", "{\"nats\":[]}", "{\"iss\":1}", "{\"type\":null}", "{\"nats\":{\"type\":\"account\",\"version\":2},\"iss\":null}"}))) + "." + b64.EncodeToString(c.R.Bytes(c.R.Intn(70))))
		}
		s := string(b)
		rp := c11Replay{Bytes: hx(s)}
		p := safeCreds(func() {
			jwt.Decode(s)
			jwt.DecodeGeneric(s)
			jwt.DecodeAccountClaims(s)
			jwt.DecorateJWT(s)
			jwt.ParseDecoratedJWT(b)
			jwt.ParseDecoratedNKey(b)
			jwt.ParseDecoratedUserNKey(b)
			jwt.DecorateSeed(b)
			jwt.FormatUserConfig(s, b)
			jwt.ValidateOperatorServiceURL(s)
			jwt.ParseServerVersion(s)
			jwt.Subject(s).IsContainedIn(jwt.Subject(s + ".x"))
			jwt.Subject(s).HasWildCards()
			vr := jwt.CreateValidationResults()
			jwt.Subject(s).Validate(vr)
			jwt.RenamingSubject(s).Validate(jwt.Subject(s), vr)
			_ = jwt.RenamingSubject(s).ToSubject()
			var sk jwt.SigningKeys
			json.Unmarshal(b, &sk)
			var cl jwt.CIDRList
			json.Unmarshal(b, &cl)
			jwt.IssueUserJWT(kpN('A', 0), s, s, s, 0)
		})
		if p != "" {
			rp.Op = "parsers"
			c.Violate("panic", "a parser panicked on arbitrary bytes: "+p, rp)
		}
		c.Eval("bytes:"+s, true)
	}
	c.Count("byte-strings")
	c.Sample(map[string]string{"mutation_example": "account: [nats exports 0] := null, signed v2", "bytes_example": "eyJ0eXAiOiJKV1QiLCJhbGciOiJlZDI1NTE5LW5rZXkifQ.bnVsbA.AAAA"})
}

func setJSONPathSafe(text string, f func(m map[string]interface{})) string {
	var m map[string]interface{}
	dec := json.NewDecoder(strings.NewReader(text))
	dec.UseNumber()
	if dec.Decode(&m) != nil || m == nil {
		return text
	}
	f(m)
	b, _ := json.Marshal(m)
	return string(b)
}

func replayC11(c *Ctx, raw json.RawMessage) {
	var rp c11Replay
	must(json.Unmarshal(raw, &rp))
	if rp.Token != "" {
		c11Token(c, rp.Token, rp.Note, true)
		return
	}
	runC11(c)
}

var _ = reflect.TypeOf
var _ nkeys.KeyPair
