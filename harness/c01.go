package main

import (
	"encoding/json"
	"fmt"
	"strings"
	"time"

	jwt "github.com/nats-io/jwt/v2"
	v1 "github.com/nats-io/jwt/v2/v1compat"
	"github.com/nats-io/nkeys"
)

// C01 — accepted tokens are authentic: signed by the reported issuer over the exact text.

func init() { runners["C01"] = runner{run: runC01, replay: replayC01} }

type c01Replay struct {
	Token  string `json:"token"`
	Origin string `json:"origin,omitempty"` // the valid token this one was derived from
	How    string `json:"how"`
}

// signerFor returns a key pair whose role may issue the kind.
func signerFor(kind string, n int) nkeys.KeyPair {
	switch kind {
	case "operator":
		return kpN('O', n)
	case "account", "activation":
		if n%2 == 0 {
			return kpN('O', n)
		}
		return kpN('A', n)
	case "user", "authorization_response":
		return kpN('A', n)
	case "authorization_request":
		return kpN('N', n)
	}
	return []nkeys.KeyPair{kpN('O', n), kpN('A', n), kpN('U', n), kpN('N', n), kpN('C', n)}[n%5]
}

// validToken builds a valid token of a kind: layout "v2" via the library's Encode, "v1" via v1compat's.
func validToken(r *Rng, kind, layout string) (string, error) {
	n := r.Intn(4)
	kp := signerFor(kind, n)
	if layout == "v1" {
		switch kind {
		case "operator":
			c := v1.NewOperatorClaims(pubOf(kpN('O', n)))
			c.Name = "op"
			c.Tags.Add("t1")
			return c.Encode(kp)
		case "account":
			c := v1.NewAccountClaims(pubOf(kpN('A', 1+n)))
			c.Name = "acct"
			c.Exports.Add(&v1.Export{Subject: "foo.>", Type: v1.Stream})
			return c.Encode(kp)
		case "user":
			c := v1.NewUserClaims(pubOf(kpN('U', n)))
			c.Limits.Payload = 100
			return c.Encode(kp)
		case "activation":
			c := v1.NewActivationClaims(pubOf(kpN('A', 2+n)))
			c.ImportSubject = "foo.bar"
			c.ImportType = v1.Stream
			return c.Encode(kp)
		default:
			c := v1.NewGenericClaims(pubOf(kpN('U', n)))
			c.Data["foo"] = "bar"
			c.Type = v1.ClaimType("my_type")
			return c.Encode(kp)
		}
	}
	switch kind {
	case "operator":
		c := jwt.NewOperatorClaims(pubOf(kpN('O', n)))
		c.Name = "op"
		c.SigningKeys.Add(pubOf(kpN('O', 5)))
		return c.Encode(kp)
	case "account":
		c := jwt.NewAccountClaims(pubOf(kpN('A', 1+n)))
		c.Name = "acct"
		c.Exports.Add(&jwt.Export{Subject: "foo.>", Type: jwt.Stream})
		c.SigningKeys.Add(pubOf(kpN('A', 7)))
		return c.Encode(kp)
	case "user":
		c := jwt.NewUserClaims(pubOf(kpN('U', n)))
		c.Pub.Allow.Add("a.b")
		return c.Encode(kp)
	case "activation":
		c := jwt.NewActivationClaims(pubOf(kpN('A', 2+n)))
		c.ImportSubject = "foo.bar"
		c.ImportType = jwt.Service
		return c.Encode(kp)
	case "authorization_request":
		c := jwt.NewAuthorizationRequestClaims(pubOf(kpN('U', n)))
		c.UserNkey = pubOf(kpN('U', n))
		c.Server.Name = "srv"
		return c.Encode(kp)
	case "authorization_response":
		c := jwt.NewAuthorizationResponseClaims(pubOf(kpN('U', n)))
		c.Audience = pubOf(kpN('N', 0))
		c.Jwt = "x.y.z"
		return c.Encode(kp)
	default:
		c := jwt.NewGenericClaims(pubOf(kpN('U', n)))
		c.Data["foo"] = "bar"
		c.Data["n"] = float64(3)
		return c.Encode(kp)
	}
}

var allKinds = []string{"operator", "account", "user", "activation", "authorization_request", "authorization_response", "generic"}
var v1Kinds = []string{"operator", "account", "user", "activation", "generic"}

// expectedLayout: which text the statement says must have been signed, from the harness's own reading.
// reportedVersion: the version the returned (typed) claims report, read from their own JSON form
func reportedVersion(cl jwt.Claims) (int, bool) {
	b, err := json.Marshal(cl)
	if err != nil {
		return 0, false
	}
	var m struct {
		Nats struct {
			Version *int `json:"version"`
		} `json:"nats"`
	}
	if json.Unmarshal(b, &m) != nil {
		return 0, false
	}
	if m.Nats.Version == nil {
		return 0, true
	}
	return *m.Nats.Version, true
}

func expectedLayout(f tokenFacts, decodedKind string) string {
	if decodedKind == "generic" {
		if f.hdrAlg == "ed25519" {
			return "v1"
		}
		return "v2"
	}
	if f.topType != "" {
		return "v1"
	}
	if !f.hasVer || f.version <= 1 {
		return "v1"
	}
	return "v2"
}

// checkToken runs every decoder on tok, applies the authenticity oracle to every acceptance and
// records the model ops. origDump: if non-empty, an accepted result must have exactly this content
// (tok is an alteration of a valid token).
func checkToken(c *Ctx, tok string, rp c01Replay, origDumps map[string]string) {
	f := factsOf(tok)
	general := safeDecode("Decode", func() (jwt.Claims, error) { return jwt.Decode(tok) })
	generic := safeDecode("DecodeGeneric", func() (jwt.Claims, error) { g, e := jwt.DecodeGeneric(tok); return g, e })
	results := map[string]decResult{"Decode": general, "DecodeGeneric": generic}
	for _, td := range typedDecoders {
		td := td
		results["Decode:"+td.kind] = safeDecode(td.kind, func() (jwt.Claims, error) { return td.f(tok) })
	}
	issuer := f.iss
	if general.claims != nil {
		issuer = general.claims.Claims().Issuer
	} else if generic.claims != nil {
		issuer = generic.claims.Claims().Issuer
	}
	b1, b2 := false, false
	if f.okSegs && f.sigOK {
		b1 = oracleVerify(issuer, f.segs[1], f.sig)
		b2 = oracleVerify(issuer, f.segs[0]+"."+f.segs[1], f.sig)
	}
	for name, r := range results {
		if strings.HasPrefix(r.out, "panic") {
			c.Violate("panic", name+" panicked: "+r.out, rp)
			continue
		}
		if r.claims == nil {
			continue
		}
		// ---- the oracle: authentic under the reported issuer over the exact text ----
		k := kindOfClaims(r.claims)
		iss := r.claims.Claims().Issuer
		lay := expectedLayout(f, k)
		if name == "DecodeGeneric" {
			lay = expectedLayout(f, "generic")
		}
		text := f.segs[1]
		if lay == "v2" {
			text = f.segs[0] + "." + f.segs[1]
		}
		if !f.okSegs || !f.sigOK || !oracleVerify(iss, text, f.sig) {
			c.Violate("authenticity", fmt.Sprintf("%s accepted a token whose third segment is not a valid signature by the reported issuer %q over the %s text", name, iss, lay), rp)
		}
		// the statement is about the claims RETURNED: claims that report version 2 must be signed over header.payload,
		// whatever the payload says at its top level
		if k != "generic" && name != "DecodeGeneric" {
			if v, ok := reportedVersion(r.claims); ok && v >= 2 && f.okSegs && f.sigOK && !oracleVerify(iss, f.segs[0]+"."+f.segs[1], f.sig) {
				c.Violate("authenticity", fmt.Sprintf("%s returned %s claims reporting version %d whose signature does not cover header.payload", name, k, v), rp)
			}
		}
		if strings.HasPrefix(name, "Decode:") && "Decode:"+k != name {
			c.Violate("kind-safety", name+" returned claims of kind "+k, rp)
		}
		if origDumps != nil {
			want, ok := origDumps[name]
			if ok && want != r.out {
				c.Violate("alteration", name+" accepted an altered token with different content", rp)
			}
		}
	}
	hi := hx(issuer)
	c.Op(general.out, general.claims != nil, "decode", hx(tok), hi, bit(b1), bit(b2))
	c.Op(generic.out, generic.claims != nil, "decodegeneric", hx(tok), hi, bit(b1), bit(b2))
	if general.claims != nil {
		k := kindOfClaims(general.claims)
		if k != "generic" {
			c.Op(results["Decode:"+k].out, true, "decodetyped", k, hx(tok), hi, bit(b1), bit(b2))
		}
		c.Count("accepted:" + rp.How)
	} else {
		c.Count("rejected:" + rp.How)
	}
}

func dumpsOf(tok string) map[string]string {
	m := map[string]string{}
	m["Decode"] = safeDecode("", func() (jwt.Claims, error) { return jwt.Decode(tok) }).out
	m["DecodeGeneric"] = safeDecode("", func() (jwt.Claims, error) { g, e := jwt.DecodeGeneric(tok); return g, e }).out
	for _, td := range typedDecoders {
		td := td
		m["Decode:"+td.kind] = safeDecode("", func() (jwt.Claims, error) { return td.f(tok) }).out
	}
	return m
}

const b64Alphabet = "ABCDEFGHIJKLMNOPQRSTUVWXYZabcdefghijklmnopqrstuvwxyz0123456789-_"

func runC01(c *Ctx) {
	c.Res.Rule = "tokens: valid tokens of 7 kinds x {v2 Encode, v1compat Encode}; single-character substitutions / insertions / deletions in every segment (sampled in quick, every position of a token pool in thorough); alterations that leave the base64url alphabet (padding, +, /, line breaks, blanks in every segment); segment splices between tokens of different issuers/kinds; payloads re-signed by a foreign key keeping iss; wrong-layout signatures both ways; header rewrites; issuers that are well-formed nkey strings carrying a key that is not 32 bytes (the signer's key truncated or extended); hybrid payloads (top-level kind AND nats kind/version, equal or different, all roles, both layouts); typed kinds in the version-2 layout declaring version absent / 0 / -1 / 1 / 2 / 3, both headers, both signing layouts; random strings. A valid token is decoded right before every judged decode (verdicts must not depend on what was decoded before). Every token goes through Decode, DecodeGeneric and the six typed decoders. Oracle: any acceptance must verify (crypto/ed25519 + the harness's own nkey decoder) under the REPORTED issuer over exactly the text the statement names; an accepted alteration must have identical content. non-trivial = distinct tokens that reached signature verification or were accepted."
	type vt struct{ tok, kind, layout string }
	var pool []vt
	for round := 0; round < c.N(2, 6); round++ {
		for _, k := range allKinds {
			tok, err := validToken(c.R, k, "v2")
			must(err)
			pool = append(pool, vt{tok, k, "v2"})
		}
		for _, k := range v1Kinds {
			tok, err := validToken(c.R, k, "v1")
			must(err)
			pool = append(pool, vt{tok, k, "v1"})
		}
	}
	for _, p := range pool {
		checkToken(c, p.tok, c01Replay{p.tok, "", "valid-" + p.layout + "-" + p.kind}, nil)
		if r := safeDecode("", func() (jwt.Claims, error) { return jwt.Decode(p.tok) }); r.claims == nil {
			c.Violate("valid-refused", "a token produced by the library's own "+p.layout+" encoder for kind "+p.kind+" is refused by Decode", c01Replay{p.tok, "", "valid"})
		}
	}
	c.Sample(map[string]string{"valid_token": pool[0].tok})
	// payloads that declare kind / version in both places (top level and nats section): whatever the loader builds,
	// the signature must cover the text that the version of the RETURNED claims dictates
	forEachHybrid(c, func(tok, label, role, layout string) {
		checkToken(c, tok, c01Replay{tok, "", "hybrid-" + label + "-" + role + "-" + layout}, nil)
	})
	// single-character edits
	nEdits := c.N(40, 0) // 0 = exhaustive positions
	for pi, p := range pool {
		if !c.Thorough() && pi >= 12 {
			break
		}
		if c.Thorough() && pi >= 24 {
			break
		}
		orig := dumpsOf(p.tok)
		positions := len(p.tok)
		try := func(pos int, mode int) {
			var t string
			ch := b64Alphabet[c.R.Intn(64)]
			switch mode {
			case 0:
				if p.tok[pos] == ch {
					ch = b64Alphabet[(strings.IndexByte(b64Alphabet, ch)+1)%64]
				}
				t = p.tok[:pos] + string(ch) + p.tok[pos+1:]
			case 1:
				t = p.tok[:pos] + string(ch) + p.tok[pos:]
			default:
				t = p.tok[:pos] + p.tok[pos+1:]
			}
			checkToken(c, t, c01Replay{t, p.tok, []string{"subst", "insert", "delete"}[mode]}, orig)
		}
		if nEdits == 0 {
			for pos := 0; pos < positions; pos++ {
				for mode := 0; mode < 3; mode++ {
					try(pos, mode)
				}
			}
		} else {
			for e := 0; e < nEdits; e++ {
				try(c.R.Intn(positions), c.R.Intn(3))
			}
			// always: last characters of each segment (base64 trailing bits) and the dots
			segs := strings.Split(p.tok, ".")
			off := 0
			for _, s := range segs {
				try(off+len(s)-1, 0)
				try(off+len(s)-1, 2)
				off += len(s) + 1
			}
		}
	}
	// alterations that leave the base64url alphabet (padding, '+', '/', line breaks, blanks)
	for _, p := range pool {
		orig := dumpsOf(p.tok)
		ts, hows := alphabetEdits(p.tok)
		for i, t := range ts {
			checkToken(c, t, c01Replay{t, p.tok, hows[i]}, orig)
		}
	}
	// splices
	for i := 0; i < c.N(150, 3000); i++ {
		a, b, d := pool[c.R.Intn(len(pool))], pool[c.R.Intn(len(pool))], pool[c.R.Intn(len(pool))]
		sa, sb, sd := strings.Split(a.tok, "."), strings.Split(b.tok, "."), strings.Split(d.tok, ".")
		t := sa[0] + "." + sb[1] + "." + sd[2]
		checkToken(c, t, c01Replay{t, "", "splice"}, nil)
	}
	// re-signing / wrong layout / header rewrite
	hdrs := []string{hdrV2, hdrV1, `{"typ":"JWT","alg":"ED25519"}`, `{"typ":"jwt","alg":"Ed25519-Nkey"}`, `{"alg":"ed25519-nkey","typ":"JWT","x":1}`, `{"typ":"JWT","alg":"none"}`, `{"typ":"JWT","alg":"ed25519-nkeyx"}`}
	for i := 0; i < c.N(400, 8000); i++ {
		p := pool[c.R.Intn(len(pool))]
		segs := strings.Split(p.tok, ".")
		payload, _ := b64.DecodeString(segs[1])
		f := factsOf(p.tok)
		_, _, _ = f, payload, segs
		var own nkeys.KeyPair
		// find the signer among the deterministic pools
		for _, role := range []byte{'O', 'A', 'U', 'N', 'C'} {
			for n := 0; n < 8; n++ {
				if pubOf(kpN(role, n)) == f.iss {
					own = kpN(role, n)
				}
			}
		}
		hdr := c.R.Pick(hdrs)
		layout := []string{"v1", "v2"}[c.R.Intn(2)]
		signer := own
		how := "resign-own-" + layout
		if c.R.Chance(35) || own == nil {
			signer = kpN([]byte{'O', 'A', 'U'}[c.R.Intn(3)], 9)
			how = "resign-foreign-" + layout
		}
		t := forge(hdr, string(payload), signer, layout)
		checkToken(c, t, c01Replay{t, p.tok, how}, nil)
	}
	// generic payloads that declare versions, under both headers and both layouts (defect D1's territory)
	for i := 0; i < c.N(60, 600); i++ {
		kp := kpN('A', c.R.Intn(3))
		ver := []string{"", `"version":2,`, `"version":1,`, `"version":0,`, `"version":3,`}[c.R.Intn(5)]
		typ := []string{"", `"type":"my_type",`, `"type":"generic",`}[c.R.Intn(3)]
		top := []string{"", `"type":"my_type",`}[c.R.Intn(2)]
		payload := fmt.Sprintf(`{%s"iss":%q,"sub":%q,"iat":%d,"nats":{%s%s"k":"v"}}`, top, pubOf(kp), pubOf(kpN('U', 1)), time.Now().Unix(), ver, typ)
		t := forge(c.R.Pick(hdrs[:4]), payload, kp, []string{"v1", "v2"}[c.R.Intn(2)])
		checkToken(c, t, c01Replay{t, "", "generic-forged"}, nil)
	}
	// typed kinds in the version-2 layout (kind inside the nats section, none at top level) declaring every version
	// around the supported ones - absent, 0, negative, 1, 2, 3 -, correctly signed in both layouts under both headers:
	// whatever is accepted must be signed over the text the version of the RETURNED claims dictates
	for _, kind := range []string{"operator", "account", "user", "activation", "authorization_request", "authorization_response"} {
		base, err := validToken(c.R, kind, "v2")
		must(err)
		pb, _ := b64.DecodeString(strings.Split(base, ".")[1])
		signerRole := map[string]byte{"operator": 'O', "account": 'O', "user": 'A', "activation": 'A', "authorization_request": 'N', "authorization_response": 'A'}[kind]
		kp := kpN(signerRole, 4)
		for _, ver := range []interface{}{nil, 0, -1, 1, 2, 3} {
			payload := setJSONPath(string(pb), func(m map[string]interface{}) {
				m["iss"] = pubOf(kp)
				delete(m, "type")
				if nats, _ := m["nats"].(map[string]interface{}); nats != nil {
					if ver == nil {
						delete(nats, "version")
					} else {
						nats["version"] = ver
					}
				}
			})
			for _, hdr := range []string{hdrV2, hdrV1} {
				for _, lay := range []string{"v1", "v2"} {
					t := forge(hdr, payload, kp, lay)
					checkToken(c, t, c01Replay{t, "", fmt.Sprintf("typed-%s-version-%v-%s", kind, ver, lay)}, nil)
				}
			}
		}
	}
	// short / odd issuer keys (defect D11's territory) and garbage
	odd := []string{"AAAAAAAAAAAAAAAAAAAAA", "", "A", "AAAAAAA", pubOf(kpN('X', 0)), "UAAAA", strings.Repeat("A", 56)}
	// well-formed nkey strings (right prefix, right checksum) whose key is the signer's real key cut short or
	// extended: the signature verifies under the first 32 bytes, but the reported issuer is not that key
	if _, raw, ok := oracleKey(pubOf(kpN('A', 0))); ok {
		for _, extra := range [][]byte{{0}, {1, 2, 3, 4, 5, 6, 7, 8}, raw} {
			odd = append(odd, encodeNkeyRaw(0, append(append([]byte{}, raw...), extra...)))
		}
		for _, n := range []int{31, 16, 1} {
			odd = append(odd, encodeNkeyRaw(0, raw[:n]))
		}
	}
	for _, iss := range odd {
		for _, lay := range []string{"v1", "v2"} {
			for _, hdr := range []string{hdrV2, hdrV1} {
				for _, kind := range []string{`"nats":{"type":"user","version":2}`, `"nats":{"k":"v"}`, `"type":"user","nats":{}`} {
					payload := fmt.Sprintf(`{"iss":%q,"sub":%q,%s}`, iss, pubOf(kpN('U', 1)), kind)
					t := forge(hdr, payload, kpN('A', 0), lay)
					checkToken(c, t, c01Replay{t, "", "odd-issuer"}, nil)
				}
			}
		}
	}
	for i := 0; i < c.N(200, 5000); i++ {
		n := c.R.Intn(60)
		var sb strings.Builder
		for j := 0; j < n; j++ {
			al := "." + b64Alphabet + "=\n "
			sb.WriteByte(al[c.R.Intn(len(al))])
		}
		t := sb.String()
		checkToken(c, t, c01Replay{t, "", "garbage"}, nil)
	}
}

func replayC01(c *Ctx, raw json.RawMessage) {
	var r c01Replay
	must(json.Unmarshal(raw, &r))
	var orig map[string]string
	if r.Origin != "" && (r.How == "subst" || r.How == "insert" || r.How == "delete") {
		orig = dumpsOf(r.Origin)
	}
	checkToken(c, r.Token, r, orig)
	if strings.HasPrefix(r.How, "valid") {
		if x := safeDecode("", func() (jwt.Claims, error) { return jwt.Decode(r.Token) }); x.claims == nil {
			c.Violate("valid-refused", "valid token refused", r)
		}
	}
}
