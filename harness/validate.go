package main

import (
	"fmt"
	"net"
	"net/url"
	"reflect"
	"strings"
	"time"

	jwt "github.com/nats-io/jwt/v2"
)

// envTable: the answers of the external parsers for every string of the claims that the library may hand
// to url.Parse / net.ParseCIDR / time.Parse / time.LoadLocation — computed with the same stdlib calls.
func envTable(claims jwt.Claims) string {
	var urls, cidrs, clocks, tzs []string
	add := func(l *[]string, s string) {
		for _, x := range *l {
			if x == s {
				return
			}
		}
		*l = append(*l, s)
	}
	switch c := claims.(type) {
	case *jwt.AccountClaims:
		add(&urls, c.InfoURL)
		for _, e := range c.Exports {
			if e != nil {
				add(&urls, e.InfoURL)
			}
		}
	case *jwt.OperatorClaims:
		add(&urls, c.AccountServerURL)
		for _, u := range c.OperatorServiceURLs {
			add(&urls, u)
		}
	case *jwt.UserClaims:
		for _, s := range c.Src {
			add(&cidrs, s)
		}
		for _, t := range c.Times {
			add(&clocks, t.Start)
			add(&clocks, t.End)
		}
		add(&tzs, c.Locale)
	}
	var parts []string
	for _, s := range urls {
		u, err := url.Parse(s)
		if err != nil {
			parts = append(parts, "u:"+hx(s)+":0::::")
			continue
		}
		usr := "0"
		if u.User != nil {
			usr = "1"
		}
		parts = append(parts, fmt.Sprintf("u:%s:1:%s:%s:%s:%s", hx(s), hx(u.Scheme), hx(u.Hostname()), usr, hx(u.Path)))
	}
	for _, s := range cidrs {
		_, ipn, err := net.ParseCIDR(s)
		parts = append(parts, "c:"+hx(s)+":"+bit(err == nil && ipn != nil))
	}
	for _, s := range clocks {
		_, err := time.Parse("15:04:05", s)
		parts = append(parts, "t:"+hx(s)+":"+bit(err == nil))
	}
	for _, s := range tzs {
		_, err := time.LoadLocation(s)
		parts = append(parts, "z:"+hx(s)+":"+bit(err == nil))
	}
	return strings.Join(parts, ",")
}

// tokTable: crypto oracle bits for the activation tokens embedded in an account's imports.
func tokTable(claims jwt.Claims) string {
	ac, ok := claims.(*jwt.AccountClaims)
	if !ok {
		return ""
	}
	var parts []string
	seen := map[string]bool{}
	for _, im := range ac.Imports {
		if im == nil || im.Token == "" || seen[im.Token] {
			continue
		}
		seen[im.Token] = true
		f := factsOf(im.Token)
		iss := f.iss
		if a, err := jwt.DecodeActivationClaims(im.Token); err == nil {
			iss = a.Issuer
		}
		b1, b2 := false, false
		if f.okSegs && f.sigOK {
			b1 = oracleVerify(iss, f.segs[1], f.sig)
			b2 = oracleVerify(iss, f.segs[0]+"."+f.segs[1], f.sig)
		}
		parts = append(parts, hx(im.Token)+":"+hx(iss)+":"+bit(b1)+bit(b2))
	}
	return strings.Join(parts, ",")
}

type valResult struct {
	blocking, blockingT bool
	timeChecks          int
	panicked            string
}

func runValidate(claims jwt.Claims) (r valResult) {
	defer func() {
		if x := recover(); x != nil {
			r.panicked = fmt.Sprint(x)
		}
	}()
	vr := jwt.CreateValidationResults()
	claims.Validate(vr)
	r.blocking = vr.IsBlocking(false)
	r.blockingT = vr.IsBlocking(true)
	for _, i := range vr.Issues {
		if i.TimeCheck {
			r.timeChecks++
		}
	}
	return
}

// validateOp validates claims with the real library and records the model op. The dump is taken BEFORE
// Validate runs (Account.Validate normalises Trace.Sampling in place).
func validateOp(c *Ctx, claims jwt.Claims, nontrivial bool) valResult {
	kind := kindOfClaims(claims)
	d := dumpVal(reflect.ValueOf(claims).Elem())
	env := envTable(claims)
	toks := tokTable(claims)
	now := time.Now().UTC().Unix()
	r := runValidate(claims)
	if now != time.Now().UTC().Unix() { // straddled a second boundary: redo
		now = time.Now().UTC().Unix()
		r = runValidate(claims)
	}
	impl := fmt.Sprintf("%s %s %d", b2s(r.blocking), b2s(r.blockingT), r.timeChecks)
	if r.panicked != "" {
		impl = "panic"
	}
	c.Op(impl, nontrivial, "validate", kind, hx(d), fmt.Sprint(now), env, toks)
	return r
}
