package main

import (
	"bytes"
	"encoding/json"
	"fmt"
	"os"
	"os/exec"
	"path/filepath"
	"strings"
)

// C17 — no hidden shared state: concurrent use on separate claims is race-free.
// The soak itself is a separate program built with -race (racesoak/); this runner drives it over
// goroutine counts x GOMAXPROCS settings and turns race reports / transcript differences into violations.

func init() { runners["C17"] = runner{run: runC17, replay: nil} }

func runC17(c *Ctx) {
	c.Res.Rule = "race-detector soak (go build -race): N in {2, 8, 32} goroutines x GOMAXPROCS in {1, 4, 16}, each goroutine running a deterministic mix of decode / validate / mutate / encode / print / credential helpers / IssueUserJWT / user claims with time zones, time ranges and source networks not seen before in the process / accounts whose imports embed a fresh activation token (first-use of lazily initialised shared state happens concurrently: the concurrent phase runs BEFORE the sequential reference) on its OWN claims objects (decoded from the SAME token text) and read-only queries (DidSign, IsClaimRevoked, IsRevoked, HasExportContainingSubject, HashID, ClaimType, ExpectedPrefixes, String, GetTags, Keys, GetScope, Contains, HasEmptyPermissions) on SHARED objects; per-goroutine transcripts must equal a sequential run of the same scripts and the race detector must stay silent. non-trivial = operations executed under the detector (counted by the soak program)."
	bin := os.Getenv("VERIF_RACE_BIN")
	if bin == "" {
		bin = "/verif/.build/jwtrace"
	}
	if _, err := os.Stat(bin); err != nil {
		c.Violate("race-binary-missing", "the -race soak binary is not built: "+bin, nil)
		return
	}
	rounds := c.N(40, 400)
	total := 0
	for _, n := range []int{2, 8, 32} {
		for _, procs := range []int{1, 4, 16} {
			logBase := filepath.Join(c.workDir, fmt.Sprintf("race-%d-%d", n, procs))
			cmd := exec.Command(bin, "-goroutines", fmt.Sprint(n), "-rounds", fmt.Sprint(rounds), "-procs", fmt.Sprint(procs))
			cmd.Env = append(os.Environ(), "GORACE=halt_on_error=0 exitcode=66 log_path="+logBase)
			var out, errb bytes.Buffer
			cmd.Stdout, cmd.Stderr = &out, &errb
			err := cmd.Run()
			var res struct {
				Operations    int    `json:"operations"`
				Mismatches    int    `json:"mismatches"`
				FirstMismatch string `json:"first_mismatch"`
			}
			json.Unmarshal(bytes.TrimSpace(out.Bytes()), &res)
			total += res.Operations
			for i := 0; i < res.Operations; i++ {
				c.Res.Evaluations++
			}
			c.Res.Distinct += res.Operations
			c.Count(fmt.Sprintf("goroutines=%d,procs=%d", n, procs))
			cfg := map[string]interface{}{"goroutines": n, "rounds": rounds, "gomaxprocs": procs, "command": strings.Join(cmd.Args, " ")}
			// race logs
			matches, _ := filepath.Glob(logBase + ".*")
			var raceLog string
			for _, m := range matches {
				b, _ := os.ReadFile(m)
				raceLog += string(b)
			}
			if strings.Contains(raceLog, "DATA RACE") || strings.Contains(errb.String(), "DATA RACE") {
				cfg["race_log"] = firstN(raceLog+errb.String(), 6000)
				c.Violate("data-race", "the race detector reported an unsynchronised access", cfg)
				continue
			}
			if res.Mismatches > 0 {
				cfg["first_mismatch"] = res.FirstMismatch
				c.Violate("sequential-equivalence", "concurrent results differ from the sequential run: "+res.FirstMismatch, cfg)
				continue
			}
			if err != nil {
				cfg["stderr"] = firstN(errb.String(), 4000)
				c.Violate("soak-crash", "the soak program failed: "+err.Error(), cfg)
			}
		}
	}
	c.Res.Extra["operations_under_race_detector"] = total
	c.Sample(map[string]interface{}{"goroutines": 32, "gomaxprocs": 16, "rounds": rounds, "script": "see racesoak/main.go: eight operation mixes rotated over goroutine and round"})
}

func firstN(s string, n int) string {
	if len(s) > n {
		return s[:n]
	}
	return s
}
