package main

import (
	"crypto/sha512"
	"encoding/base32"
	"encoding/json"
	"fmt"
	"net/url"
	"strings"

	jwt "github.com/nats-io/jwt/v2"
	"github.com/nats-io/nkeys"
)

// encodeOp runs the real Encode on claims with kp and records the model op `encode`.
// The model prints header JSON, payload JSON with a token-id placeholder and the hash pre-image; the
// harness finishes the computation (SHA-512/256 + base32) on the implementation side in reverse:
// it takes the real token apart and replaces the real id by the placeholder.
// Returns the token ("" on error) and the canonical implementation line.
func encodeOp(c *Ctx, kind string, claims jwt.Claims, kp nkeys.KeyPair, nontrivial bool) (string, error) {
	pre, merr := json.Marshal(claims) // for replays only
	_ = merr
	preDump := dumpAny(claims) // the claims object before Encode, exactly as the model receives it
	sub := claims.Claims().Subject
	_ = sub
	urlok := "1"
	if oc, ok := claims.(*jwt.OperatorClaims); ok && oc.AccountServerURL != "" {
		u, err := url.Parse(oc.AccountServerURL)
		if err != nil || u.Scheme == "" {
			urlok = "0"
		}
	}
	var tok string
	var err error
	func() {
		defer func() {
			if r := recover(); r != nil {
				err = fmt.Errorf("panic: %v", r)
			}
		}()
		tok, err = claims.Encode(kp)
	}()
	if err != nil && strings.HasPrefix(err.Error(), "panic") {
		c.Violate("panic", "Encode panicked: "+err.Error(), map[string]string{"kind": kind, "claims": string(pre)})
	}
	impl := "err"
	if err == nil {
		segs := strings.Split(tok, ".")
		hb, _ := b64.DecodeString(segs[0])
		pb, _ := b64.DecodeString(segs[1])
		id := claims.Claims().ID
		// recompute the id from the payload the library wrote: JSON of the standard fields with jti cleared
		cd := *claims.Claims()
		cd.ID = ""
		preimage, _ := json.Marshal(&cd)
		sum := sha512.Sum512_256(preimage)
		want := base32.StdEncoding.WithPadding(base32.NoPadding).EncodeToString(sum[:])
		ptext := string(pb)
		if id == want && strings.Count(ptext, `"jti":"`+id+`"`) >= 1 {
			ptext = strings.Replace(ptext, `"jti":"`+id+`"`, `"jti":"@@JTI@@"`, 1)
		}
		after := dumpAny(claims)
		after = strings.Replace(after, hx("jti")+":s"+hx(id), hx("jti")+":s"+hx("@@JTI@@"), 1)
		impl = "ok " + hx(string(hb)) + " " + hx(ptext) + " " + hx(string(preimage)) + " " + after
	}
	now := claims.Claims().IssuedAt
	c.Op(impl, nontrivial && err == nil, "encode", kind, hx(preDump), fmt.Sprint(now), hx(pubOf(kp)), urlok)
	return tok, err
}
