package main

import (
	"crypto/sha512"
	"encoding/base32"
	"encoding/json"
	"fmt"
	"reflect"
	"sort"
	"strings"
	"time"

	jwt "github.com/nats-io/jwt/v2"
)

// C12 — Encode stamps issuer, issue time, id, kind and version, and changes nothing else.

func init() { runners["C12"] = runner{run: runC12, replay: nil} }

// blankStamps returns the dump of a claims value with the five stamped fields (and, for accounts, the
// order of imports/exports) neutralised, so that "everything else" can be compared before/after Encode.
func frameDump(cl jwt.Claims) string {
	v := reflect.ValueOf(cl).Elem()
	cp := reflect.New(v.Type())
	cp.Elem().Set(v)
	c2 := cp.Interface().(jwt.Claims)
	cd := c2.Claims()
	cd.Issuer, cd.IssuedAt, cd.ID = "", 0, ""
	switch x := c2.(type) {
	case *jwt.OperatorClaims:
		x.Type, x.Version = "", 0
	case *jwt.AccountClaims:
		x.Type, x.Version = "", 0
		// multiset of imports/exports: sort copies by dump
		ex := append(jwt.Exports{}, x.Exports...)
		sort.SliceStable(ex, func(i, j int) bool { return dumpAny(ex[i]) < dumpAny(ex[j]) })
		im := append(jwt.Imports{}, x.Imports...)
		sort.SliceStable(im, func(i, j int) bool { return dumpAny(im[i]) < dumpAny(im[j]) })
		if x.Exports != nil {
			x.Exports = ex
		}
		if x.Imports != nil {
			x.Imports = im
		}
	case *jwt.UserClaims:
		x.Type, x.Version = "", 0
	case *jwt.ActivationClaims:
		x.Type, x.Version = "", 0
	case *jwt.AuthorizationRequestClaims:
		x.Type, x.Version = "", 0
	case *jwt.AuthorizationResponseClaims:
		x.Type, x.Version = "", 0
	case *jwt.GenericClaims:
		if x.Data != nil {
			m := map[string]interface{}{}
			for k, v := range x.Data {
				if k != "version" {
					m[k] = v
				}
			}
			x.Data = m
		}
	}
	return dumpAny(c2)
}

func idOf(cd jwt.ClaimsData) string {
	cd.ID = ""
	b, _ := json.Marshal(&cd)
	sum := sha512.Sum512_256(b)
	return base32.StdEncoding.WithPadding(base32.NoPadding).EncodeToString(sum[:])
}

func typeAndVersion(cl jwt.Claims) (string, int) {
	switch x := cl.(type) {
	case *jwt.OperatorClaims:
		return string(x.Type), x.Version
	case *jwt.AccountClaims:
		return string(x.Type), x.Version
	case *jwt.UserClaims:
		return string(x.Type), x.Version
	case *jwt.ActivationClaims:
		return string(x.Type), x.Version
	case *jwt.AuthorizationRequestClaims:
		return string(x.Type), x.Version
	case *jwt.AuthorizationResponseClaims:
		return string(x.Type), x.Version
	case *jwt.GenericClaims:
		v := -1
		if f, ok := x.Data["version"].(float64); ok {
			v = int(f)
		}
		return "generic", v
	}
	return "?", -1
}

func runC12(c *Ctx) {
	c.Res.Rule = "(shared entries: export/import objects still held by the caller or listed by a second account are other content - encoding one account leaves them and the other account as they were) random claims of all seven kinds with arbitrary junk in issuer / issue time / id / kind / version, every permitted signer role, first and repeated encodes, plus forced failures (wrong signer role, wrong subject, unmarshalable content). Oracle on the real code: after Encode the object's issuer = signer's public key, iat = current second, kind and version 2 stamped, id = base32(SHA-512/256(JSON of the standard fields with the id cleared)) recomputed independently; the decoded token reports the same five values; everything else is unchanged (deep compare, imports/exports as multisets and sorted by subject); equal standard fields give equal ids whatever the previous id or payload, changing one changes the id; a failed Encode returns an empty token. Every Encode also goes through the Lean model (token text with an id placeholder, hash pre-image, resulting object). non-trivial = distinct claims."
	n := c.N(1500, 150000)
	for i := 0; i < n; i++ {
		kind := allKinds[c.R.Intn(len(allKinds))]
		cl, kp := randomClaims(c, kind, true)
		rp := map[string]interface{}{"kind": kind, "claims_dump": dumpAny(cl), "signer": pubOf(kp)}
		before := frameDump(cl)
		prevID := cl.Claims().ID
		t0 := time.Now().UTC().Unix()
		tok, err := encodeOp(c, kind, cl, kp, true)
		t1 := time.Now().UTC().Unix()
		if err != nil {
			c.Count("encode-error:" + kind)
			if tok != "" {
				c.Violate("failure-token", "a failed Encode returned a non-empty token", rp)
			}
			continue
		}
		c.Count("encode-ok:" + kind)
		cd := *cl.Claims()
		if cd.Issuer != pubOf(kp) {
			c.Violate("stamp-issuer", "issuer is not the signing key's public key", rp)
		}
		if cd.IssuedAt < t0 || cd.IssuedAt > t1 {
			c.Violate("stamp-iat", fmt.Sprintf("issue time %d is not the current second [%d,%d]", cd.IssuedAt, t0, t1), rp)
		}
		if cd.ID != idOf(cd) {
			c.Violate("stamp-id", "token id is not base32(SHA-512/256(standard fields with the id cleared))", rp)
		}
		ty, ver := typeAndVersion(cl)
		if kind != "generic" && (ty != kind || ver != 2) {
			c.Violate("stamp-kind-version", fmt.Sprintf("kind/version after Encode: %q/%d", ty, ver), rp)
		}
		if kind == "generic" {
			if g := cl.(*jwt.GenericClaims); g.Data != nil && ver != 2 {
				c.Violate("stamp-kind-version", "generic claims with a data map not stamped with version 2", rp)
			}
		}
		if after := frameDump(cl); after != before {
			c.Violate("frame", "Encode changed content other than the five stamped fields / the order of imports and exports", rp)
		}
		if ac, ok := cl.(*jwt.AccountClaims); ok {
			for _, l := range [][]string{subjectsOfExports(ac.Exports), subjectsOfImports(ac.Imports)} {
				if !sort.StringsAreSorted(l) {
					c.Violate("frame", "imports/exports not ordered by subject after Encode", rp)
				}
			}
		}
		// decoders report exactly these values
		var dc jwt.Claims
		if kind == "generic" {
			g, e := jwt.DecodeGeneric(tok)
			if e == nil {
				dc = g
			}
		} else {
			dc, _ = jwt.Decode(tok)
		}
		if dc == nil {
			c.Violate("decode-after-encode", "the token just produced is not accepted", rp)
		} else {
			d := *dc.Claims()
			if d.Issuer != cd.Issuer || d.IssuedAt != cd.IssuedAt || d.ID != cd.ID {
				c.Violate("decode-reports", "decoder reports different issuer / issue time / id", rp)
			}
			if kind != "generic" {
				ty2, ver2 := typeAndVersion(dc)
				if ty2 != kind || ver2 != 2 {
					c.Violate("decode-reports", "decoder reports different kind / version", rp)
				}
			}
		}
		// ... and so does the map-based decoder, for every kind
		if g, e := jwt.DecodeGeneric(tok); e != nil || g == nil {
			c.Violate("decode-after-encode", "DecodeGeneric refuses the token just produced", rp)
		} else {
			if g.Issuer != cd.Issuer || g.IssuedAt != cd.IssuedAt || g.ID != cd.ID {
				c.Violate("decode-reports", "DecodeGeneric reports different issuer / issue time / id", rp)
			}
			if kind != "generic" && string(g.ClaimType()) != kind {
				c.Violate("decode-reports", fmt.Sprintf("DecodeGeneric reports kind %q for a %s token", g.ClaimType(), kind), rp)
			}
			if kind != "generic" {
				if v, ok := g.Data["version"]; !ok || fmt.Sprint(v) != "2" {
					c.Violate("decode-reports", fmt.Sprintf("DecodeGeneric reports version %v for a %s token", v, kind), rp)
				}
			}
		}
		// id depends only on the other standard fields: whatever the previous id and the payload
		_ = prevID
		cl.Claims().ID = "junk-" + prevID
		if idOf(*cl.Claims()) != cd.ID {
			c.Violate("id-function", "the id depends on the previous id", rp)
		}
		// repeated encode within the same second gives the same id and token
		tok2, err2 := cl.Encode(kp)
		if err2 == nil && cl.Claims().IssuedAt == cd.IssuedAt {
			if cl.Claims().ID != cd.ID || tok2 != tok {
				c.Violate("repeat", "re-encoding the same object in the same second gave a different id or token", rp)
			}
			c.Count("repeat-same-second")
		}
		// changing one standard field changes the id
		mut := *cl.Claims()
		switch c.R.Intn(6) {
		case 0:
			mut.Audience += "x"
		case 1:
			mut.Expires++
		case 2:
			mut.Name += "x"
		case 3:
			mut.NotBefore--
		case 4:
			mut.Subject += "x"
		default:
			mut.IssuedAt++
		}
		if idOf(mut) == cl.Claims().ID {
			c.Violate("id-function", "changing a standard field did not change the id", rp)
		}
		if i < 2 {
			c.Sample(map[string]interface{}{"kind": kind, "token": tok})
		}
	}
	// shared entries: an export / import object that the caller still holds, or that a second account's list also
	// points to, is "other content": encoding one account (which sorts ITS list) must leave the object, and the other
	// account, exactly as they were
	for i := 0; i < c.N(60, 2000); i++ {
		subs := []string{"m.private", "z.shared", "a.first", "k.mid", "b.second", "y.last"}
		for x := len(subs) - 1; x > 0; x-- {
			y := c.R.Intn(x + 1)
			subs[x], subs[y] = subs[y], subs[x]
		}
		n := 2 + c.R.Intn(4)
		a1 := jwt.NewAccountClaims(pubOf(kpN('A', 31)))
		a2 := jwt.NewAccountClaims(pubOf(kpN('A', 32)))
		var held []*jwt.Export
		var heldI []*jwt.Import
		for j := 0; j < n; j++ {
			e := &jwt.Export{Subject: jwt.Subject(subs[j]), Type: jwt.Stream, Name: "e" + subs[j]}
			im := &jwt.Import{Subject: jwt.Subject(subs[j]), Account: pubOf(kpN('A', 33)), Type: jwt.Stream, Name: "i" + subs[j], LocalSubject: jwt.RenamingSubject("l." + subs[j])}
			a1.Exports.Add(e)
			a1.Imports.Add(im)
			held, heldI = append(held, e), append(heldI, im)
			if c.R.Chance(50) {
				a2.Exports.Add(e)
				a2.Imports.Add(im)
			}
		}
		var before []string
		for j := range held {
			before = append(before, dumpAny(held[j])+dumpAny(heldI[j]))
		}
		other := frameDump(a2)
		otherOrder := fmt.Sprint(subjectsOfExports(a2.Exports), subjectsOfImports(a2.Imports))
		rp := map[string]interface{}{"scenario": "shared-entries", "subjects_in_insertion_order": subs[:n], "second_account_exports": subjectsOfExports(a2.Exports)}
		if _, err := a1.Encode(kpN('O', 0)); err != nil {
			c.Count("shared-entries:encode-error")
			continue
		}
		for j := range held {
			if dumpAny(held[j])+dumpAny(heldI[j]) != before[j] {
				c.Violate("frame", "Encode rewrote an export/import object the caller still holds (held entry "+subs[j]+" now reads "+string(held[j].Subject)+")", rp)
				break
			}
		}
		if frameDump(a2) != other || fmt.Sprint(subjectsOfExports(a2.Exports), subjectsOfImports(a2.Imports)) != otherOrder {
			c.Violate("frame", "encoding one account changed another account that shares export/import objects with it", rp)
		}
		c.Count("shared-entries")
	}
	// forced failures
	for i := 0; i < c.N(100, 3000); i++ {
		kind := allKinds[c.R.Intn(len(allKinds))]
		cl, kp := randomClaims(c, kind, true)
		how := ""
		switch c.R.Intn(4) {
		case 0:
			kp = kpN('U', 1)
			how = "user-signer"
		case 1:
			cl.Claims().Subject = ""
			how = "no-subject"
		case 2:
			if ac, ok := cl.(*jwt.AccountClaims); ok {
				ac.Exports = append(ac.Exports, &jwt.Export{Subject: "x", Type: 7})
				how = "unknown-export-type"
			}
		default:
			kp = kpN('C', 1)
			how = "cluster-signer"
		}
		tok, err := encodeOp(c, kind, cl, kp, true)
		if err != nil && tok != "" {
			c.Violate("failure-token", "a failed Encode returned a non-empty token", map[string]string{"kind": kind, "how": how})
		}
		if err != nil {
			c.Count("forced-failure:" + how)
		}
	}
}

func subjectsOfExports(es jwt.Exports) []string {
	var l []string
	for _, e := range es {
		if e != nil {
			l = append(l, string(e.Subject))
		} else {
			l = append(l, "")
		}
	}
	// nil entries first is what Less says; they were mapped to "" which sorts first as well
	_ = strings.Join
	return l
}
func subjectsOfImports(is jwt.Imports) []string {
	var l []string
	for _, e := range is {
		if e != nil {
			l = append(l, string(e.Subject))
		} else {
			l = append(l, "")
		}
	}
	return l
}
