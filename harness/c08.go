package main

import (
	"encoding/json"
	"fmt"
	"sort"
	"strings"

	jwt "github.com/nats-io/jwt/v2"
)

// C08 — DidSign follows the operator/account trust rules. Complete cross product, exhaustive in both tiers.

func init() { runners["C08"] = runner{run: runC08, replay: replayC08} }

type c08Case struct {
	Entity     string   `json:"entity"` // operator | account
	Strict     bool     `json:"strict"`
	Keys       []string `json:"keys"`                      // plain signing keys
	Retired    []string `json:"retired,omitempty"`         // of those, the ones taken out again by ONE Remove(...) call
	ScopedKeys []string `json:"scoped_keys"`               // account only
	ByValue    bool     `json:"scopes_by_value,omitempty"` // scoped signers registered as UserScope values, not pointers
	RoundTrip  bool     `json:"round_trip"`                // entity encoded and decoded first
	Nil        bool     `json:"nil"`
	Kind       string   `json:"kind"`
	Issuer     string   `json:"issuer"`
	Subject    string   `json:"subject"`
	IssuerAcct string   `json:"issuer_account"`
}

func mkClaim(kind, issuer, subject, ia string) jwt.Claims {
	switch kind {
	case "operator":
		c := jwt.NewOperatorClaims(subject)
		c.Issuer = issuer
		return c
	case "account":
		c := jwt.NewAccountClaims(subject)
		c.Issuer = issuer
		return c
	case "user":
		c := jwt.NewUserClaims(subject)
		c.Issuer = issuer
		c.IssuerAccount = ia
		return c
	case "activation":
		c := jwt.NewActivationClaims(subject)
		c.Issuer = issuer
		c.IssuerAccount = ia
		return c
	case "authorization_request":
		c := jwt.NewAuthorizationRequestClaims(subject)
		c.Issuer = issuer
		return c
	case "authorization_response":
		c := jwt.NewAuthorizationResponseClaims(subject)
		c.Issuer = issuer
		c.IssuerAccount = ia // has the field, but is neither user nor activation
		return c
	default:
		c := jwt.NewGenericClaims(subject)
		c.Issuer = issuer
		c.Data["issuer_account"] = ia
		return c
	}
}

func minus(keys, out []string) []string {
	var r []string
	for _, x := range keys {
		gone := false
		for _, y := range out {
			gone = gone || x == y
		}
		if !gone {
			r = append(r, x)
		}
	}
	return r
}

func evalC08(c *Ctx, k c08Case) {
	okp, akp := kpN('O', 0), kpN('A', 0)
	self := pubOf(okp)
	if k.Entity == "account" {
		self = pubOf(akp)
	}
	var got bool
	var claim jwt.Claims
	if !k.Nil {
		claim = mkClaim(k.Kind, k.Issuer, k.Subject, k.IssuerAcct)
	}
	var allKeys []string
	if k.Entity == "operator" {
		oc := jwt.NewOperatorClaims(self)
		oc.StrictSigningKeyUsage = k.Strict
		oc.SigningKeys.Add(k.Keys...)
		if len(k.Retired) > 0 {
			oc.SigningKeys.Remove(k.Retired...)
		}
		if k.RoundTrip {
			tok, err := oc.Encode(okp)
			must(err)
			oc, err = jwt.DecodeOperatorClaims(tok)
			must(err)
		}
		if k.Nil {
			got = oc.DidSign(nil)
		} else {
			got = oc.DidSign(claim)
		}
		allKeys = minus(k.Keys, k.Retired)
	} else {
		ac := jwt.NewAccountClaims(self)
		ac.SigningKeys.Add(k.Keys...)
		if len(k.Retired) > 0 {
			ac.SigningKeys.Remove(k.Retired...)
		}
		for _, sk := range k.ScopedKeys {
			us := jwt.NewUserScope()
			us.Key = sk
			us.Role = "r"
			if k.ByValue {
				ac.SigningKeys.AddScopedSigner(*us) // UserScope has value receivers: the value is a Scope too
			} else {
				ac.SigningKeys.AddScopedSigner(us)
			}
		}
		if k.RoundTrip {
			tok, err := ac.Encode(okp)
			must(err)
			ac, err = jwt.DecodeAccountClaims(tok)
			must(err)
		}
		if k.Nil {
			got = ac.DidSign(nil)
		} else {
			got = ac.DidSign(claim)
		}
		allKeys = append(minus(k.Keys, k.Retired), k.ScopedKeys...)
	}
	// oracle: the sentence of the property
	listed := false
	for _, x := range allKeys {
		if x == k.Issuer {
			listed = true
		}
	}
	var want bool
	switch {
	case k.Nil:
		want = false
	case k.Entity == "operator":
		if k.Issuer == self {
			want = !k.Strict || k.Subject == self
		} else {
			want = listed
		}
	default:
		want = k.Issuer == self || ((k.Kind == "user" || k.Kind == "activation") && k.IssuerAcct == self && listed)
	}
	cv := "nil"
	if !k.Nil {
		cv = k.Kind + ":" + hx(k.Issuer) + ":" + hx(k.Subject) + ":" + hx(k.IssuerAcct)
		if k.Kind != "user" && k.Kind != "activation" {
			cv = k.Kind + ":" + hx(k.Issuer) + ":" + hx(k.Subject) + ":"
		}
	}
	var hk []string
	for _, x := range allKeys {
		hk = append(hk, hx(x))
	}
	if k.Entity == "operator" {
		s := "0"
		if k.Strict {
			s = "1"
		}
		c.Op(b2s(got), true, "opdidsign", hx(self), s, strings.Join(hk, ","), cv)
	} else {
		c.Op(b2s(got), true, "acdidsign", hx(self), strings.Join(hk, ","), cv)
	}
	c.Count(k.Entity + ":" + b2s(got))
	if got != want {
		c.Violate("didsign", fmt.Sprintf("%s.DidSign = %v but the trust rule says %v", k.Entity, got, want), k)
	}
}

func runC08(c *Ctx) {
	c.Res.Rule = "complete cross product: entity {operator, account} x signing-key set {empty, listed, listed+identity with the identity key last / first / in the middle} (account: plain and scoped, scopes registered by pointer and by value) x strict flag x claim {nil, 7 kinds} x issuer {identity, listed plain key, listed scoped key, unlisted key of same role, key of another entity} x subject {self, other} x issuer-account {empty, this, other} x before/after encode-decode of the entity; oracle = the property's sentence; every case also goes through the Lean model; plus long signing-key lists (24 operator keys sorted / two neighbours swapped / reversed / random, 20 account keys), every listed key and an unlisted one asked about; plus retired keys: every non-empty subset of five listed keys taken out by one Remove call, in both argument orders, every key asked about. non-trivial = distinct cases."
	okp, akp := kpN('O', 0), kpN('A', 0)
	o, a := pubOf(okp), pubOf(akp)
	osk, osk2 := pubOf(kpN('O', 1)), pubOf(kpN('O', 2))
	ask, ascoped, aother, a2 := pubOf(kpN('A', 1)), pubOf(kpN('A', 2)), pubOf(kpN('A', 3)), pubOf(kpN('A', 4))
	kinds := []string{"operator", "account", "user", "activation", "authorization_request", "authorization_response", "generic"}
	n := 0
	for _, rt := range []bool{false, true} {
		// operator
		for _, strict := range []bool{false, true} {
			for _, keys := range [][]string{nil, {osk}, {osk, o}, {o, osk}, {osk, o, osk2}, {o, osk2, osk}} {
				evalC08(c, c08Case{Entity: "operator", Strict: strict, Keys: keys, RoundTrip: rt, Nil: true})
				for _, kind := range kinds {
					for _, iss := range []string{o, osk, osk2, a, ask} {
						for _, sub := range []string{o, a, pubOf(kpN('U', 0))} {
							evalC08(c, c08Case{Entity: "operator", Strict: strict, Keys: keys, RoundTrip: rt, Kind: kind, Issuer: iss, Subject: sub})
							n++
						}
					}
				}
			}
		}
		// account
		type ks struct{ plain, scoped []string }
		for _, k := range []ks{{nil, nil}, {[]string{ask}, nil}, {nil, []string{ascoped}}, {[]string{ask}, []string{ascoped}}, {[]string{ask, a}, []string{ascoped}}} {
			for _, byValue := range []bool{false, true} {
				if byValue && len(k.scoped) == 0 {
					continue
				}
				evalC08(c, c08Case{Entity: "account", Keys: k.plain, ScopedKeys: k.scoped, ByValue: byValue, RoundTrip: rt, Nil: true})
				for _, kind := range kinds {
					for _, iss := range []string{a, ask, ascoped, aother, a2, o} {
						for _, sub := range []string{a, pubOf(kpN('U', 0))} {
							for _, ia := range []string{"", a, a2} {
								evalC08(c, c08Case{Entity: "account", Keys: k.plain, ScopedKeys: k.scoped, ByValue: byValue, RoundTrip: rt, Kind: kind, Issuer: iss, Subject: sub, IssuerAcct: ia})
								n++
							}
						}
					}
				}
			}
		}
	}
	// long signing-key lists (a list scan must not depend on the list being short, sorted or unsorted): sorted,
	// sorted with two neighbours swapped, reversed, random; every listed key and an unlisted one are asked about
	{
		var ks []string
		for i := 0; i < 24; i++ {
			ks = append(ks, pubOf(kpN('O', 40+i)))
		}
		sort.Strings(ks)
		variants := map[string][]string{"sorted": append([]string{}, ks...)}
		sw := append([]string{}, ks...)
		sw[1], sw[2] = sw[2], sw[1]
		sw[13], sw[14] = sw[14], sw[13]
		variants["neighbours-swapped"] = sw
		rev := append([]string{}, ks...)
		for i, j := 0, len(rev)-1; i < j; i, j = i+1, j-1 {
			rev[i], rev[j] = rev[j], rev[i]
		}
		variants["reversed"] = rev
		rnd := append([]string{}, ks...)
		for i := range rnd {
			j := i + c.R.Intn(len(rnd)-i)
			rnd[i], rnd[j] = rnd[j], rnd[i]
		}
		variants["random"] = rnd
		for _, name := range []string{"sorted", "neighbours-swapped", "reversed", "random"} {
			list := variants[name]
			for _, rt := range []bool{false, true} {
				for _, iss := range append(append([]string{}, list...), pubOf(kpN('O', 99))) {
					evalC08(c, c08Case{Entity: "operator", Keys: list, RoundTrip: rt, Kind: "account", Issuer: iss, Subject: a})
					n++
				}
			}
			c.Count("long-key-list:" + name)
		}
		// the account side: long plain-key lists
		var aks []string
		for i := 0; i < 20; i++ {
			aks = append(aks, pubOf(kpN('A', 40+i)))
		}
		for _, iss := range append(append([]string{}, aks...), pubOf(kpN('A', 99))) {
			evalC08(c, c08Case{Entity: "account", Keys: aks, Kind: "user", Issuer: iss, Subject: pubOf(kpN('U', 0)), IssuerAcct: a})
			n++
		}
	}
	// retired keys: several keys taken out by ONE Remove call, in every order and position; a retired key no longer
	// signs, a key that stays still does
	{
		var ks []string
		for i := 0; i < 5; i++ {
			ks = append(ks, pubOf(kpN('O', 60+i)))
		}
		var aks []string
		for i := 0; i < 5; i++ {
			aks = append(aks, pubOf(kpN('A', 60+i)))
		}
		for mask := 1; mask < 32; mask++ {
			for _, reverse := range []bool{false, true} {
				var ret, aret []string
				for i := 0; i < 5; i++ {
					if mask&(1<<i) != 0 {
						ret, aret = append(ret, ks[i]), append(aret, aks[i])
					}
				}
				if reverse {
					for i, j := 0, len(ret)-1; i < j; i, j = i+1, j-1 {
						ret[i], ret[j] = ret[j], ret[i]
						aret[i], aret[j] = aret[j], aret[i]
					}
				}
				for _, rt := range []bool{false, true} {
					for i := 0; i < 5; i++ {
						evalC08(c, c08Case{Entity: "operator", Keys: ks, Retired: ret, RoundTrip: rt, Kind: "account", Issuer: ks[i], Subject: a})
						evalC08(c, c08Case{Entity: "account", Keys: aks, Retired: aret, RoundTrip: rt, Kind: "user", Issuer: aks[i], Subject: pubOf(kpN('U', 0)), IssuerAcct: a})
						n += 2
					}
				}
			}
		}
		c.Count("retired-keys")
	}
	c.Res.Exhaustive = true
	c.Sample(c08Case{Entity: "account", Keys: []string{ask}, Kind: "user", Issuer: ask, Subject: pubOf(kpN('U', 0)), IssuerAcct: a})
	c.Sample(c08Case{Entity: "operator", Strict: true, Keys: []string{osk, o}, Kind: "account", Issuer: o, Subject: a})
}

func replayC08(c *Ctx, raw json.RawMessage) {
	var k c08Case
	must(json.Unmarshal(raw, &k))
	evalC08(c, k)
}
