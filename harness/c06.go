package main

import (
	"encoding/json"
	"fmt"
	"reflect"
	"sort"
	"strings"
	"time"

	jwt "github.com/nats-io/jwt/v2"
)

// C06 — validation flags every catalogued violation as blocking and never flags clean claims.

func init() { runners["C06"] = runner{run: runC06, replay: replayC06} }

type c06Replay struct {
	Kind  string   `json:"kind"`
	Dump  string   `json:"dump"`  // canonical dump of the claims (readable by the driver)
	JSON  string   `json:"json"`  // best-effort JSON rendering for humans
	Rules []string `json:"rules"` // catalogue rules the harness says are violated
	Impl  bool     `json:"impl_blocking"`
}

var allRuleIDs = []string{"I1", "I2", "I3", "E0", "E1", "E2", "E3", "E4", "E5", "E6", "E7", "E8", "E9", "E10", "E11", "E12", "E13", "EL1",
	"M0", "M1", "M2", "M3", "M4", "M5a", "M5b", "M5c", "M5d", "M5e", "M5f", "M6", "M7", "M8", "M9", "M10", "M11", "M12:A1", "M12:A2", "M12:A3", "M13", "ML1",
	"L1", "L2", "L3", "L4", "L5", "P1", "P2", "P3", "W1", "W2", "W3", "X1", "X2", "X3", "X4", "X5", "T1", "T2", "T3", "K1", "K2",
	"U1", "U2", "U3", "U4", "O1", "O2", "O3", "O4", "O5", "A1", "A2", "A3", "Q1", "Q2", "R1", "R2", "R3", "R4", "R5"}

func genC06(i int) jwt.Claims {
	switch i % 10 {
	case 0, 1, 2, 3, 4:
		return genAccount()
	case 5:
		return genUser()
	case 6:
		return genOperator()
	case 7:
		return genActivation()
	case 8:
		return genAuthReq()
	}
	return genAuthResp()
}

func evalC06(c *Ctx, cl jwt.Claims, hits map[string]int) {
	// time fields must never matter for IsBlocking(false)
	cl.Claims().Expires = []int64{0, 5, time.Now().Unix() + 1000}[c.R.Intn(3)]
	want := rulesOf(cl) // before Validate: Account.Validate normalises Trace.Sampling in place
	d := dumpVal(reflect.ValueOf(cl).Elem())
	js, _ := json.Marshal(cl)
	r := validateOp(c, cl, true)
	kind := kindOfClaims(cl)
	rp := c06Replay{kind, d, string(js), want, r.blocking}
	if r.panicked != "" {
		c.Violate("panic", "Validate panicked: "+r.panicked, rp)
		return
	}
	seen := map[string]bool{}
	for _, id := range want {
		if !seen[id] {
			seen[id] = true
			hits[id]++
		}
	}
	if len(want) == 0 {
		c.Count(kind + ":clean")
		if r.blocking {
			c.Violate("flags-clean", "Validate reports a blocking issue on a "+kind+" claim assembled only from valid constructs", rp)
		}
	} else {
		c.Count(kind + ":violating")
		if !r.blocking {
			c.Violate("misses-rule", fmt.Sprintf("Validate reports no blocking issue although the %s claim violates %v", kind, want), rp)
		}
	}
}

func runC06(c *Ctx) {
	c.Res.Rule = "claims of the six validated kinds from a structured generator: every construct is valid with probability ~96% and otherwise replaced by a catalogued violation (random element, list position, magnitude; e.g. any multiset of mapping weights whose integer sum exceeds 100); about half of the account claims end up clean. Oracle: the declarative transcription of the DESIGN 5.6 catalogue (harness/c06spec.go) must say 'violates some rule' exactly when IsBlocking(false) is true; the same claims (canonical dump + parser answers + token crypto bits) go through the Lean model. Evidence lists hits per catalogue rule id. non-trivial = distinct claims."
	rng = rngT{c.R}
	hits := map[string]int{}
	n := c.N(6000, 400000)
	for i := 0; i < n; i++ {
		pBad = []float64{0.04, 0.04, 0.01, 0.10}[i%4]
		cl := genC06(i)
		evalC06(c, cl, hits)
		if i < 2 {
			js, _ := json.Marshal(cl)
			c.Sample(map[string]interface{}{"kind": kindOfClaims(cl), "claims": json.RawMessage(js), "rules": rulesOf(cl)})
		}
	}
	// a few hand-made single-rule injections for rules the random stream reaches rarely
	for _, cl := range c06Directed() {
		evalC06(c, cl, hits)
	}
	var zero []string
	for _, id := range allRuleIDs {
		c.Res.Distribution["rule:"+id] = hits[id]
		if hits[id] == 0 {
			zero = append(zero, id)
		}
	}
	sort.Strings(zero)
	c.Res.Extra["rules_with_zero_hits"] = zero
	c.Res.Extra["rules_total"] = len(allRuleIDs)
}

// c06Directed: clean claims with exactly one planted violation, for rules that need a specific shape.
func c06Directed() []jwt.Claims {
	var out []jwt.Claims
	acct := func(f func(a *jwt.AccountClaims)) {
		a := jwt.NewAccountClaims(kr.acct[0])
		a.Issuer = kr.op[0]
		f(a)
		out = append(out, a)
	}
	acct(func(a *jwt.AccountClaims) {}) // clean
	acct(func(a *jwt.AccountClaims) { a.Description = strings.Repeat("é", 4097) })
	acct(func(a *jwt.AccountClaims) { a.InfoURL = "http://h/" + strings.Repeat("x", 8200) })
	acct(func(a *jwt.AccountClaims) {
		a.Mappings["foo"] = []jwt.WeightedMapping{{Subject: "a", Weight: 100}, {Subject: "b", Weight: 100}, {Subject: "c", Weight: 100}}
	}) // 300 wraps to 44 in a uint8 (defect D3)
	acct(func(a *jwt.AccountClaims) {
		a.Mappings["foo"] = []jwt.WeightedMapping{{Subject: "a", Weight: 60}, {Subject: "b", Weight: 0}, {Subject: "c", Weight: 96}}
	}) // 60+100+96 = 256 wraps to 0
	acct(func(a *jwt.AccountClaims) {
		a.Exports.Add(&jwt.Export{Subject: "a.*", Type: jwt.Stream}, &jwt.Export{Subject: "b.>", Type: jwt.Service}, &jwt.Export{Subject: "a.b", Type: jwt.Stream})
	}) // EL1 at positions 0 and 2
	acct(func(a *jwt.AccountClaims) {
		a.Exports.Add(&jwt.Export{Subject: "x.*.y", Type: jwt.Service, AccountTokenPosition: 3})
	})
	acct(func(a *jwt.AccountClaims) {
		a.Exports.Add(&jwt.Export{Subject: "x.*.y", Type: jwt.Service, AccountTokenPosition: 4})
	})
	acct(func(a *jwt.AccountClaims) {
		a.Limits.Exports = 5
		a.Limits.WildcardExports = false
		a.Exports.Add(&jwt.Export{Subject: "lit", Type: jwt.Stream}, nil, &jwt.Export{Subject: "w.>", Type: jwt.Stream})
	})
	acct(func(a *jwt.AccountClaims) {
		a.Imports.Add(&jwt.Import{Subject: "s.a", Account: kr.acct[1], Type: jwt.Service, To: "t.x"}, &jwt.Import{Subject: "q", Account: kr.acct[1], Type: jwt.Stream},
			&jwt.Import{Subject: "s.b", Account: kr.acct[2], Type: jwt.Service, LocalSubject: "t.*"})
	}) // ML1: t.x contained in t.* (the second has an M5f too)
	acct(func(a *jwt.AccountClaims) {
		a.Limits.JetStreamTieredLimits = jwt.JetStreamTieredLimits{"R1": {MemoryStorage: 1}}
		a.Limits.JetStreamLimits.MaxBytesRequired = true
	})
	u := jwt.NewUserClaims(kr.user[0])
	u.Src = jwt.CIDRList{"10.0.0.0/8", "nope"}
	out = append(out, u)
	return out
}

func replayC06(c *Ctx, raw json.RawMessage) {
	// claims are regenerated from the seed; a replay re-runs the quick stream and the directed cases
	runC06(c)
}
