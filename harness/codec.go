package main

import (
	"encoding/json"
	"reflect"
	"sort"
	"strings"
)

func sortStrings(xs []string) { sort.Strings(xs) }

// implCodec: what the real encoding/json does with `text` for Go type t (from a zero value):
// canonical line in the same format as the Lean driver's `codec` op.
func implCodec(t reflect.Type, text string) string {
	p := reflect.New(t)
	var err error
	func() {
		defer func() {
			if r := recover(); r != nil {
				err = errPanic
			}
		}()
		err = json.Unmarshal([]byte(text), p.Interface())
	}()
	if err == errPanic {
		return "panic"
	}
	if err != nil {
		return "err"
	}
	d := dumpVal(p.Elem())
	b, merr := json.Marshal(p.Interface())
	if merr != nil {
		return "ok " + d + " marshal-error"
	}
	return "ok " + d + " " + hx(string(b))
}

type panicErr struct{}

func (panicErr) Error() string { return "panic" }

var errPanic error = panicErr{}

// ---- structural JSON mutations (the malformed stream) ----

var mutLeaves = []string{"null", "0", "-1", "1.5", "\"x\"", "\"\"", "[]", "[null]", "[null,null]", "{}", "{\"k\":null}", "true", "\"headers\"", "\"stream\"", "9223372036854775808", "18446744073709551615", "[\"a\",1]", "\"user_scope\""}

// mutateJSON replaces / drops / duplicates / case-changes one node of a parsed JSON document.
func mutateJSON(r *Rng, text string) string {
	var doc interface{}
	dec := json.NewDecoder(strings.NewReader(text))
	dec.UseNumber()
	if dec.Decode(&doc) != nil {
		return text
	}
	// collect paths
	type site struct {
		parent interface{}
		key    string
		idx    int
	}
	var sites []site
	var walk func(n interface{})
	walk = func(n interface{}) {
		switch x := n.(type) {
		case map[string]interface{}:
			for k, v := range x {
				sites = append(sites, site{x, k, -1})
				walk(v)
			}
		case []interface{}:
			for i, v := range x {
				sites = append(sites, site{x, "", i})
				walk(v)
			}
		}
	}
	walk(doc)
	if len(sites) == 0 {
		return r.Pick(mutLeaves)
	}
	sort.Slice(sites, func(i, j int) bool {
		if sites[i].key != sites[j].key {
			return sites[i].key < sites[j].key
		}
		return sites[i].idx < sites[j].idx
	})
	s := sites[r.Intn(len(sites))]
	var leaf interface{}
	json.Unmarshal([]byte(r.Pick(mutLeaves)), &leaf)
	if m, ok := s.parent.(map[string]interface{}); ok {
		switch r.Intn(6) {
		case 0:
			delete(m, s.key)
		case 1: // case-changed key (encoding/json matches case-insensitively)
			v := m[s.key]
			delete(m, s.key)
			m[strings.ToUpper(s.key)] = v
		default:
			m[s.key] = leaf
		}
	} else if a, ok := s.parent.([]interface{}); ok {
		a[s.idx] = leaf
	}
	b, _ := json.Marshal(doc)
	out := string(b)
	if r.Chance(8) { // duplicate a key textually
		if i := strings.Index(out, "\"nats\":"); i >= 0 {
			out = out[:i] + "\"nats\":{}," + out[i:]
		}
	}
	return out
}
