package main

import (
	"fmt"
	"runtime"
	"time"

	jwt "github.com/nats-io/jwt/v2"
)

// C13 — encoding is deterministic and independent of map / insertion order.

func init() { runners["C13"] = runner{run: runC13, replay: nil} }

type c13Content struct {
	Plain   []string           `json:"plain_keys"`
	Scoped  []string           `json:"scoped_keys"`
	Rekeyed map[string]string  `json:"rekeyed_scopes"` // map key -> the Key field of the scope stored under it (differs)
	Revs    map[string]int64   `json:"revocations"`
	ExpRevs map[string]int64   `json:"export_revocations"`
	Maps    []string           `json:"mapping_subjects"`
	Tiers   []string           `json:"tiers"`
	Data    map[string]float64 `json:"generic_data"`
}

func perm(r *Rng, n int) []int {
	p := make([]int, n)
	for i := range p {
		p[i] = i
	}
	for i := n - 1; i > 0; i-- {
		j := r.Intn(i + 1)
		p[i], p[j] = p[j], p[i]
	}
	return p
}

// buildAccount populates the unordered collections in the given insertion orders.
func buildAccount(ct c13Content, r *Rng) *jwt.AccountClaims {
	a := jwt.NewAccountClaims(kr.acct[0])
	type ins func()
	var steps []ins
	for _, k := range ct.Plain {
		k := k
		steps = append(steps, func() { a.SigningKeys.Add(k) })
	}
	for _, k := range ct.Scoped {
		k := k
		steps = append(steps, func() {
			us := jwt.NewUserScope()
			us.Key, us.Role = k, "role-"+k[:4]
			us.Template.Pub.Allow.Add("a.>")
			us.Template.Subs = 5
			a.SigningKeys.AddScopedSigner(us)
			if other, ok := ct.Rekeyed[k]; ok {
				// the scope handed back by the map is shared by pointer: re-key it without re-adding
				if sc, ok := a.SigningKeys.GetScope(k); ok && sc != nil {
					sc.(*jwt.UserScope).Key = other
				}
			}
		})
	}
	for k, v := range ct.Revs {
		k, v := k, v
		steps = append(steps, func() { a.RevokeAt(k, time.Unix(v, 0)) })
	}
	for _, s := range ct.Maps {
		s := s
		steps = append(steps, func() { a.AddMapping(jwt.Subject(s), jwt.WeightedMapping{Subject: jwt.Subject("to." + s), Weight: 40}) })
	}
	if len(ct.Tiers)%2 == 1 {
		// imports whose subjects differ only by letter case are different subjects: Encode orders them, so the order
		// in which they were added must not show in the token
		for _, sub := range []string{"Ord.created", "ord.created", "ORD.created"} {
			sub := sub
			steps = append(steps, func() {
				a.Imports.Add(&jwt.Import{Subject: jwt.Subject(sub), Account: kr.acct[1], Type: jwt.Stream})
			})
		}
		for _, sub := range []string{"Exp.x", "exp.x"} {
			sub := sub
			steps = append(steps, func() { a.Exports.Add(&jwt.Export{Subject: jwt.Subject(sub), Type: jwt.Stream}) })
		}
	}
	for _, t := range ct.Tiers {
		t := t
		steps = append(steps, func() {
			sum := 0
			for _, b := range []byte(t) {
				sum = sum*31 + int(b)
			}
			a.Limits.JetStreamTieredLimits[t] = jwt.JetStreamLimits{MemoryStorage: int64(sum), Streams: 3}
		})
	}
	if r.Intn(2) == 0 {
		// equal content however populated: through the map the constructor handed out, or through a map of the
		// caller's own (nothing of any other account may show in either)
		a.Limits.JetStreamTieredLimits = jwt.JetStreamTieredLimits{}
	}
	for _, i := range perm(r, len(steps)) {
		steps[i]()
	}
	ex := &jwt.Export{Subject: "exp.>", Type: jwt.Stream}
	var rs []ins
	for k, v := range ct.ExpRevs {
		k, v := k, v
		rs = append(rs, func() { ex.RevokeAt(k, time.Unix(v, 0)) })
	}
	for _, i := range perm(r, len(rs)) {
		rs[i]()
	}
	a.Exports.Add(ex)
	if len(ct.Maps)%2 == 1 {
		// the same subject exported a second time as a service (legal: streams and services are checked apart), always
		// in this order: equal keys must not make the sort inside Encode flip them from one encode to the next
		a.Exports.Add(&jwt.Export{Subject: "exp.>", Type: jwt.Service})
		a.Imports.Add(&jwt.Import{Subject: "imp.a", Account: kr.acct[1], Type: jwt.Stream}, &jwt.Import{Subject: "imp.a", Account: kr.acct[2], Type: jwt.Stream, LocalSubject: "loc.a"})
	}
	return a
}

func buildGeneric(ct c13Content, r *Rng) *jwt.GenericClaims {
	g := jwt.NewGenericClaims(kr.user[0])
	var keys []string
	for k := range ct.Data {
		keys = append(keys, k)
	}
	sortStrings(keys)
	for _, i := range perm(r, len(keys)) {
		g.Data[keys[i]] = ct.Data[keys[i]]
	}
	// nested object populated in a random order as well
	nested := map[string]interface{}{}
	for _, i := range perm(r, len(keys)) {
		nested["n"+keys[i]] = ct.Data[keys[i]]
	}
	g.Data["nested"] = nested
	return g
}

func runC13(c *Ctx) {
	c.Res.Rule = "equal contents built through random insertion orders of signing keys (plain, scoped, and scoped entries whose Key field was re-keyed to collide with another entry), account and export revocations, mappings, limit tiers and generic data (half of the accounts also carry two exports and two imports with one and the same subject, and imports / exports whose subjects differ only by letter case, added in random order; incl. a nested object; tier and mapping names that differ only by case or padding, with different values); every tenth content carries a revocation list of 150-300 entries with a covering wildcard; every third object first encoded with different standard fields and then edited back (equal content through a different history); each object encoded repeatedly in one process (the runtime re-randomises map iteration per loop) under GOMAXPROCS 1 and 16; all tokens whose issue time agrees must be byte-identical, across objects and across repetitions. Each object also goes through the Lean model's Encode. non-trivial = distinct contents."
	old := runtime.GOMAXPROCS(0)
	defer runtime.GOMAXPROCS(old)
	nContents := c.N(60, 3000)
	orders := c.N(8, 50)
	reps := c.N(6, 20)
	for i := 0; i < nContents; i++ {
		var ct c13Content
		ct.Revs, ct.ExpRevs, ct.Data = map[string]int64{}, map[string]int64{}, map[string]float64{}
		for k := 0; k < c.R.Intn(6); k++ {
			ct.Plain = append(ct.Plain, pubOf(kpN('A', 10+k)))
		}
		for k := 0; k < c.R.Intn(5); k++ {
			ct.Scoped = append(ct.Scoped, pubOf(kpN('A', 20+k)))
		}
		if len(ct.Scoped) > 0 && c.R.Intn(2) == 0 {
			ct.Rekeyed = map[string]string{}
			all := append(append([]string{}, ct.Plain...), ct.Scoped...)
			for k := 0; k < 1+c.R.Intn(2); k++ {
				from := ct.Scoped[c.R.Intn(len(ct.Scoped))]
				to := all[c.R.Intn(len(all))]
				if c.R.Intn(4) == 0 {
					to = pubOf(kpN('A', 30+k))
				}
				if to != from {
					ct.Rekeyed[from] = to
				}
			}
		}
		for k := 0; k < c.R.Intn(6); k++ {
			ct.Revs[[]string{"*", pubOf(kpN('U', k)), "x" + fmt.Sprint(k)}[c.R.Intn(3)]] = int64(c.R.Intn(1000))
			ct.ExpRevs[pubOf(kpN('A', k))] = int64(c.R.Intn(1000))
		}
		if i%10 == 3 {
			// a large revocation list with a wildcard entry that covers most of it (anything that caps, batches or
			// compacts per call shows only beyond a size no small example reaches)
			ct.Revs["*"] = 500
			for k := 0; k < 150+c.R.Intn(150); k++ {
				ct.Revs[fmt.Sprintf("UBIG%04d", k)] = int64(c.R.Intn(500)) // all covered by the wildcard
			}
			c.Count("large-revocation-list")
		}
		for k := 0; k < c.R.Intn(5); k++ {
			ct.Maps = append(ct.Maps, fmt.Sprintf("m%d.sub", k))
			ct.Tiers = append(ct.Tiers, fmt.Sprintf("R%d", k))
			// names that differ only by case or padding are different keys with different values
			if c.R.Chance(35) {
				ct.Tiers = append(ct.Tiers, fmt.Sprintf("r%d", k))
				c.Count("near-duplicate-keys")
			}
			if c.R.Chance(20) {
				ct.Tiers = append(ct.Tiers, fmt.Sprintf(" R%d ", k))
			}
			if c.R.Chance(20) {
				ct.Maps = append(ct.Maps, fmt.Sprintf("M%d.sub", k))
			}
		}
		for k := 0; k < c.R.Intn(7); k++ {
			ct.Data[fmt.Sprintf("k%d<&>", k)] = float64(c.R.Intn(100))
		}
		kp := kpN('O', 0)
		for _, which := range []string{"account", "generic"} {
			tokensByIat := map[int64]string{}
			for _, procs := range []int{1, 16} {
				runtime.GOMAXPROCS(procs)
				for o := 0; o < orders; o++ {
					var cl jwt.Claims
					if which == "account" {
						cl = buildAccount(ct, c.R)
					} else {
						cl = buildGeneric(ct, c.R)
					}
					if o%3 == 1 {
						// same content reached through a different HISTORY: the object was encoded before while its
						// standard fields still read differently, then edited to the final content
						cd := cl.Claims()
						name, exp, nbf, aud := cd.Name, cd.Expires, cd.NotBefore, cd.Audience
						cd.Name, cd.Expires, cd.NotBefore, cd.Audience = "earlier "+name, exp+77, nbf+5, aud+"x"
						_, err := cl.Encode(kp)
						must(err)
						cd.Name, cd.Expires, cd.NotBefore, cd.Audience = name, exp, nbf, aud
						c.Count("history-variant")
					}
					for rep := 0; rep < reps; rep++ {
						var tok string
						var err error
						if o == 0 && rep == 0 && procs == 1 {
							tok, err = encodeOp(c, which, cl, kp, true)
						} else {
							tok, err = cl.Encode(kp)
							c.Eval(which+":"+tok, false)
						}
						must(err)
						iat := cl.Claims().IssuedAt
						if prev, ok := tokensByIat[iat]; ok && prev != tok {
							c.Violate("order-dependent", "two encodings of equal "+which+" content within the same second differ", map[string]interface{}{"content": ct, "kind": which, "token_a": prev, "token_b": tok, "gomaxprocs": procs})
						}
						tokensByIat[iat] = tok
					}
				}
			}
			c.Count(which + "-contents")
		}
		if i == 0 {
			c.Sample(ct)
		}
	}
	c.Res.Extra["orders_per_content"] = orders * 2
	c.Res.Extra["encodes_per_object"] = reps
}
