package main

import (
	"math"
	"reflect"
	"strings"
	"time"

	jwt "github.com/nats-io/jwt/v2"
)

// Reflective structured generator: fills any of the library's types with mostly-plausible content
// (every optional section present or absent, nil vs empty, list lengths 0..4, integer edges,
// strings with JSON/HTML-special and non-ASCII characters, real nkeys).

var strAlphabet = []string{"", "a", "foo", "a.b", "a.*", "x.>", ">", "*", "A b", "<tag>&\"q\"", "é", "日本", " ", "back\\slash", "\t\n", "/", "😀", "K", "q.r.s", "$1.x", "http://h.example/p?q=1", "nats://h:4222", "10.0.0.0/8", "08:00:00", "UTC", "Singleton", "Stream", "x y", "\x7f", "\b\f"}

var intEdges = []int64{0, 1, -1, 2, 100, 101, -2, 255, 256, 1 << 31, 1<<53 - 1, 1 << 53, 1<<53 + 1, math.MaxInt64, math.MinInt64, math.MaxInt64 - 1, 8192, 1000000000}

type Gen struct {
	r        *Rng
	maxDepth int
	plain    bool // avoid exotic values the model calls unsupported
}

func (g *Gen) str() string {
	if g.r.Chance(10) {
		n := g.r.Intn(4)
		var sb strings.Builder
		for i := 0; i < n; i++ {
			sb.WriteString(g.r.Pick(strAlphabet))
		}
		return sb.String()
	}
	return g.r.Pick(strAlphabet)
}

func (g *Gen) pubKey() string {
	roles := []byte{'O', 'A', 'U', 'N', 'C', 'X'}
	return pubOf(kpN(roles[g.r.Intn(len(roles))], g.r.Intn(5)))
}

func (g *Gen) int64v() int64 {
	if g.r.Chance(70) {
		return intEdges[g.r.Intn(len(intEdges))]
	}
	return int64(g.r.U64())
}

var scopeType = reflect.TypeOf((*jwt.Scope)(nil)).Elem()

func (g *Gen) fill(v reflect.Value, depth int, name string) {
	t := v.Type()
	switch t {
	case reflect.TypeOf(jwt.ExportType(0)):
		x := []int64{0, 1, 2, 1, 2, 1, 2}
		v.SetInt(x[g.r.Intn(len(x))])
		return
	case reflect.TypeOf(jwt.SamplingRate(0)):
		if g.r.Chance(8) {
			// out of range: Encode must refuse it, not write something else
			v.SetInt([]int64{101, 122, 1 << 20, -1, -100}[g.r.Intn(5)])
			return
		}
		v.SetInt(int64(g.r.Intn(101)))
		return
	case reflect.TypeOf(jwt.ScopeType(0)):
		v.SetInt(1)
		return
	case reflect.TypeOf(time.Duration(0)):
		v.SetInt(g.int64v())
		return
	case reflect.TypeOf(jwt.SigningKeys{}):
		if g.r.Chance(20) {
			return
		}
		sk := jwt.SigningKeys{}
		n := g.r.Intn(4)
		for i := 0; i < n; i++ {
			k := pubOf(kpN('A', 10+g.r.Intn(8)))
			if g.r.Chance(25) {
				// not a key at all: text that JSON writes with escapes, blanks, non-ASCII (Encode does not validate)
				if s := g.str(); s != "" {
					k = s
				}
			}
			switch g.r.Intn(3) {
			case 0:
				sk.Add(k)
			case 1:
				us := jwt.NewUserScope()
				us.Key = k
				us.Role = g.str()
				us.Description = g.str()
				g.fill(reflect.ValueOf(&us.Template).Elem(), depth+1, "Template")
				sk.AddScopedSigner(us)
			default:
				us := jwt.NewUserScope()
				us.Key = k
				us.Role = g.str()
				g.fill(reflect.ValueOf(&us.Template).Elem(), depth+1, "Template")
				sk.AddScopedSigner(*us) // by value
			}
		}
		v.Set(reflect.ValueOf(sk))
		return
	}
	if t.Name() == "ExportType" && v.Kind() == reflect.Int { // the v1compat twin of jwt.ExportType
		x := []int64{0, 1, 2, 1, 2, 1, 2}
		v.SetInt(x[g.r.Intn(len(x))])
		return
	}
	switch v.Kind() {
	case reflect.Bool:
		v.SetBool(g.r.Bool())
	case reflect.String:
		switch {
		case strings.Contains(name, "Issuer") || strings.Contains(name, "Account") || name == "XKey" || name == "UserNkey" || name == "Audience":
			if g.r.Chance(60) {
				v.SetString(g.pubKey())
				return
			}
			v.SetString(g.str())
		default:
			if g.r.Chance(35) {
				v.SetString("")
				return
			}
			v.SetString(g.str())
		}
	case reflect.Int, reflect.Int64:
		if g.r.Chance(30) {
			v.SetInt(0)
		} else {
			v.SetInt(g.int64v())
		}
	case reflect.Int8, reflect.Int16, reflect.Int32:
		v.SetInt(int64(g.r.Intn(100)) - 20)
	case reflect.Uint, reflect.Uint64:
		if g.r.Chance(50) {
			v.SetUint(uint64(g.r.Intn(6)))
		} else {
			v.SetUint(uint64(g.int64v()))
		}
	case reflect.Uint8, reflect.Uint16, reflect.Uint32:
		v.SetUint(uint64(g.r.Intn(256)))
	case reflect.Ptr:
		if g.r.Chance(40) || depth > g.maxDepth {
			return
		}
		p := reflect.New(t.Elem())
		g.fill(p.Elem(), depth+1, name)
		v.Set(p)
	case reflect.Slice:
		c := g.r.Intn(10)
		if c < 3 || depth > g.maxDepth {
			return // nil
		}
		n := 0
		if c >= 5 {
			n = 1 + g.r.Intn(3)
		}
		s := reflect.MakeSlice(t, n, n)
		for i := 0; i < n; i++ {
			g.fill(s.Index(i), depth+1, name)
			if t.Elem().Kind() == reflect.Ptr && s.Index(i).IsNil() {
				p := reflect.New(t.Elem().Elem())
				g.fill(p.Elem(), depth+1, name)
				s.Index(i).Set(p)
			}
		}
		v.Set(s)
	case reflect.Map:
		c := g.r.Intn(10)
		if c < 3 || depth > g.maxDepth {
			return
		}
		m := reflect.MakeMap(t)
		n := 0
		if c >= 5 {
			n = 1 + g.r.Intn(3)
		}
		for i := 0; i < n; i++ {
			k := reflect.New(t.Key()).Elem()
			k.SetString(g.str())
			e := reflect.New(t.Elem()).Elem()
			if t.Elem().Kind() == reflect.Interface {
				if a := g.anyVal(0); a != nil {
					e.Set(reflect.ValueOf(a))
				}
			} else {
				g.fill(e, depth+1, name)
			}
			m.SetMapIndex(k, e)
		}
		v.Set(m)
	case reflect.Struct:
		// a nested struct left entirely at its zero value (present but empty: `"limits":{}`) is a shape of its own:
		// filling every field at random practically never produces it
		if depth > 0 && t.NumField() > 1 && g.r.Chance(8) {
			return
		}
		for i := 0; i < t.NumField(); i++ {
			if !t.Field(i).IsExported() && !t.Field(i).Anonymous {
				continue
			}
			g.fill(v.Field(i), depth+1, t.Field(i).Name)
		}
	case reflect.Interface:
		if t.NumMethod() == 0 && !g.r.Chance(30) {
			if a := g.anyVal(0); a != nil {
				v.Set(reflect.ValueOf(a))
			}
		}
	}
}

// anyVal builds free-form JSON-representable data as json.Unmarshal would produce it.
func (g *Gen) anyVal(depth int) interface{} {
	switch c := g.r.Intn(8); {
	case c == 0:
		return nil
	case c == 1:
		return g.r.Bool()
	case c == 2:
		return g.str()
	case c == 3:
		e := []float64{0, 1, -1, 2, 1 << 20, 1<<53 - 1, -(1<<53 - 1), 123456789012345}
		return e[g.r.Intn(len(e))]
	case c == 4 && !g.plain:
		e := []float64{1.5, -0.25, 1e21, 1e-7, 3.141592653589793, 1 << 62}
		return e[g.r.Intn(len(e))]
	case c <= 5 && depth < 3:
		n := g.r.Intn(3)
		a := make([]interface{}, n)
		for i := range a {
			a[i] = g.anyVal(depth + 1)
		}
		return a
	case depth < 3:
		n := g.r.Intn(3)
		m := map[string]interface{}{}
		for i := 0; i < n; i++ {
			m[g.str()] = g.anyVal(depth + 1)
		}
		return m
	}
	return g.str()
}
