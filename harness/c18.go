package main

import (
	"crypto/sha256"
	"encoding/base32"
	"encoding/json"
	"fmt"
	"strings"

	jwt "github.com/nats-io/jwt/v2"
	v1 "github.com/nats-io/jwt/v2/v1compat"
)

// C18 — activation hash identity is stable across re-encoding, migration and versions.

func init() { runners["C18"] = runner{run: runC18, replay: replayC18} }

type c18Replay struct {
	Issuer  string `json:"issuer_key_index"`
	Subject string `json:"subject"`
	Grant   string `json:"granted_subject"`
	Note    string `json:"note"`
}

// the property's own definition of the identity prefix: tokens before the first wildcard token,
// a leading wildcard maps to "_"
func identityPrefix(grant string) string {
	t := strings.Split(grant, ".")
	for i, x := range t {
		if x == "*" || x == ">" {
			if i == 0 {
				return "_"
			}
			if p := strings.Join(t[:i], "."); p != "" {
				return p
			}
			return grant
		}
	}
	return grant
}

func hashOfBase(base string) string {
	s := sha256.Sum256([]byte(base))
	return base32.StdEncoding.EncodeToString(s[:])
}

func evalC18(c *Ctx, grant string, other int, note string) {
	ex := c.R.Intn(3)
	kp := kr.akps[ex]
	importer := kr.acct[3+c.R.Intn(2)]
	rp := c18Replay{fmt.Sprint(ex), importer, grant, note}
	// v2 object, arbitrary other fields
	a := jwt.NewActivationClaims(importer)
	a.ImportSubject = jwt.Subject(grant)
	a.ImportType = jwt.ExportType(1 + other%2)
	a.Name = c.R.Pick(strAlphabet)
	a.Expires = int64(other)
	a.Tags.Add("t" + fmt.Sprint(other))
	a.Issuer = pubOf(kp) // HashID reads the issuer field; Encode will stamp the same value
	if other%3 == 0 {
		a.IssuerAccount = kr.acct[(ex+1)%3] // issued through a signing key on behalf of another account: not an input of the hash
	}
	h0, err0 := a.HashID()
	wantBase := pubOf(kp) + "." + importer + "." + identityPrefix(grant)
	implLine := "err"
	if err0 == nil {
		implLine = "ok " + hx(wantBase)
		if h0 != hashOfBase(wantBase) {
			implLine = "hash-mismatch:" + h0
			c.Violate("hash-definition", "HashID is not base32(SHA-256(issuer.subject.prefix)) for grant "+grant, rp)
		}
	} else if grant != "" {
		c.Violate("hash-refused", "HashID refused although issuer, subject and granted subject are present", rp)
	}
	c.Op(implLine, true, "hashid", hx(pubOf(kp)), hx(importer), hx(grant))
	c.Count("shape:" + note)
	if grant == "" {
		if err0 == nil {
			c.Violate("hash-refused", "HashID accepted an activation without a granted subject", rp)
		}
		return
	}
	// stable under encode/decode and re-encode
	tok, err := a.Encode(kp)
	if err != nil {
		return // e.g. unmarshalable: not this property's business
	}
	d, err := jwt.DecodeActivationClaims(tok)
	if err != nil {
		c.Violate("hash-stability", "encoded activation does not decode", rp)
		return
	}
	h1, _ := d.HashID()
	tok2, _ := d.Encode(kp)
	d2, _ := jwt.DecodeActivationClaims(tok2)
	h2 := ""
	if d2 != nil {
		h2, _ = d2.HashID()
	}
	if h1 != h0 || h2 != h0 {
		c.Violate("hash-stability", "hash identity changed across encode/decode/re-encode", rp)
	}
	// changing any other field does not change it
	d.Name, d.Expires, d.NotBefore, d.Audience = "other", 99, 7, "aud"
	d.Tags.Add("zzz")
	d.ImportType = 3 - d.ImportType
	if d.IssuerAccount == "" {
		d.IssuerAccount = kr.acct[(ex+2)%3]
	} else {
		d.IssuerAccount = ""
	}
	if hx, _ := d.HashID(); hx != h0 {
		c.Violate("hash-stability", "hash identity depends on a field other than issuer, subject and granted subject", rp)
	}
	// v1 library on the same content, and migration v1 -> v2
	a1 := v1.NewActivationClaims(importer)
	a1.ImportSubject = v1.Subject(grant)
	a1.ImportType = v1.ExportType(1 + other%2)
	a1.Name = "v1 name"
	a1.Limits.Max = int64(other)
	tok1, err := a1.Encode(kp)
	if err == nil {
		hv1, e1 := a1.HashID()
		m, e2 := jwt.DecodeActivationClaims(tok1)
		if e1 != nil || e2 != nil {
			c.Violate("hash-migration", "v1 activation does not hash or does not migrate", rp)
		} else {
			hm, _ := m.HashID()
			if hv1 != h0 || hm != h0 {
				c.Violate("hash-migration", fmt.Sprintf("v1 HashID %s / migrated HashID %s differ from v2 HashID %s", hv1, hm, h0), rp)
			}
			// what the v1 library computes for the very same token
			d1, e3 := v1.DecodeActivationClaims(tok1)
			if e3 == nil {
				if hd1, _ := d1.HashID(); hd1 != hm {
					c.Violate("hash-migration", "v1 and v2 disagree on the hash identity of the same token", rp)
				}
			}
		}
	}
	// differs when issuer / subject / prefix differ
	b := jwt.NewActivationClaims(kr.acct[(3+c.R.Intn(2)+1)%5])
	b.Issuer, b.ImportSubject = a.Issuer, a.ImportSubject
	if hb, _ := b.HashID(); hb == h0 && b.Subject != importer {
		c.Violate("hash-distinguishes", "different subject accounts, same hash identity", rp)
	}
	b2 := jwt.NewActivationClaims(importer)
	b2.Issuer, b2.ImportSubject = kr.acct[(ex+1)%3], a.ImportSubject
	if hb, _ := b2.HashID(); hb == h0 {
		c.Violate("hash-distinguishes", "different issuers, same hash identity", rp)
	}
	g2 := "zz." + grant
	b3 := jwt.NewActivationClaims(importer)
	b3.Issuer, b3.ImportSubject = a.Issuer, jwt.Subject(g2)
	if hb, _ := b3.HashID(); (hb == h0) != (identityPrefix(g2) == identityPrefix(grant)) {
		c.Violate("hash-distinguishes", "hash identity equality does not follow the granted-subject prefix", rp)
	}
}

func runC18(c *Ctx) {
	c.Res.Rule = "activations with granted subjects of every shape (literal, inner / trailing / leading wildcard, > alone, 1-6 tokens, tokens that merely contain * or >, multi-byte tokens, white space around or inside the subject) x random other fields x v1 and v2 encoders: HashID = base32(SHA-256(issuer.subject.prefix)) with the prefix computed by the harness's own definition; unchanged by encode/decode/re-encode, by every other field, by v1->v2 migration; equal to what the v1 library computes for the same token; different for different issuer / subject / prefix; refused when a component is missing. The base string also comes from the Lean model. non-trivial = distinct granted subjects."
	shapes := []string{"foo", "foo.bar", "foo.*", "foo.>", "foo.*.bar", "foo.bar.*.baz.>", "*", ">", "*.foo", "*.*", "a.b.c.d.e.f", "a*.b", "a.>b.c", "a.*b.*", "x.y.>", "$SYS.*.z", "_", "_.a", "q.*.*.r",
		// subjects a validator would refuse still have one identity, which reading them back must not normalise away
		"orders.eu ", " orders.eu", "orders.eu\t", "orders.eu.> ", "\tfoo.*", "a b.c", " ", "foo. .bar", "foo.bar\n", "Foo.Bar"}
	for i, g := range shapes {
		evalC18(c, g, i, "fixed")
	}
	evalC18(c, "", 0, "missing-grant")
	toks := []string{"a", "b", "foo", "*", ">", "*", "x*", ">y", "_", "$1", "é", "日本", "café", "📦"}
	for i := 0; i < c.N(300, 30000); i++ {
		n := 1 + c.R.Intn(6)
		var t []string
		for j := 0; j < n; j++ {
			t = append(t, c.R.Pick(toks))
		}
		// keep `>` last only, as valid subjects demand
		for j := 0; j < n-1; j++ {
			if t[j] == ">" {
				t[j] = "*"
			}
		}
		g := strings.Join(t, ".")
		switch c.R.Intn(12) { // white space around or inside the granted subject is part of it
		case 0:
			g = g + c.R.Pick([]string{" ", "\t", "  ", "\n"})
		case 1:
			g = c.R.Pick([]string{" ", "\t", "  "}) + g
		case 2:
			g = strings.Replace(g, ".", c.R.Pick([]string{" .", ". "}), 1)
		}
		evalC18(c, g, i, "random")
	}
	// missing components
	a := &jwt.ActivationClaims{}
	a.ImportSubject = "foo"
	if _, err := a.HashID(); err == nil {
		c.Violate("hash-refused", "HashID accepted an activation without issuer and subject", nil)
	}
	c.Op("err", true, "hashid", "", "", hx("foo"))
	c.Sample(c18Replay{"0", kr.acct[3], "foo.bar.*.baz.>", "fixed"})
}

func replayC18(c *Ctx, raw json.RawMessage) {
	var rp c18Replay
	must(json.Unmarshal(raw, &rp))
	evalC18(c, rp.Grant, 1, rp.Note)
}
