package main

import (
	"encoding/json"
	"fmt"
	"strings"

	jwt "github.com/nats-io/jwt/v2"
	"github.com/nats-io/nkeys"
)

// C02 — only permitted key roles can issue each claim kind; typed decoders are kind-safe.
// The complete finite matrix, exhaustive in both tiers.

func init() { runners["C02"] = runner{run: runC02, replay: replayC02} }

var allowedRoles = map[string]string{ // the property's table, role letters
	"operator": "O", "account": "AO", "activation": "AO", "user": "A", "authorization_response": "A",
	"authorization_request": "N", "generic": "OAUNCX",
}
var subjectRoleOf = map[string]byte{"operator": 'O', "account": 'A', "user": 'U', "activation": 'A'}

type c02Replay struct {
	Dir    string `json:"dir"` // decode | encode
	Kind   string `json:"kind"`
	Role   string `json:"issuer_role"`
	Sub    string `json:"subject_role,omitempty"`
	Layout string `json:"layout,omitempty"`
	Token  string `json:"token,omitempty"`
}

func setJSONPath(text string, f func(m map[string]interface{})) string {
	var m map[string]interface{}
	dec := json.NewDecoder(strings.NewReader(text))
	dec.UseNumber()
	must(dec.Decode(&m))
	f(m)
	b, _ := json.Marshal(m)
	return string(b)
}

func newClaimsOf(kind string, subject string) jwt.Claims {
	switch kind {
	case "operator":
		c := &jwt.OperatorClaims{}
		c.Subject = subject
		return c
	case "account":
		c := jwt.NewAccountClaims("x")
		c.Subject = subject
		return c
	case "user":
		c := jwt.NewUserClaims("x")
		c.Subject = subject
		return c
	case "activation":
		c := jwt.NewActivationClaims("x")
		c.Subject = subject
		c.ImportSubject = "foo"
		c.ImportType = jwt.Stream
		return c
	case "authorization_request":
		c := jwt.NewAuthorizationRequestClaims("x")
		c.Subject = subject
		return c
	case "authorization_response":
		c := jwt.NewAuthorizationResponseClaims("x")
		c.Subject = subject
		return c
	}
	c := jwt.NewGenericClaims("x")
	c.Subject = subject
	c.Data["k"] = "v"
	return c
}

func evalC02Decode(c *Ctx, rp c02Replay) {
	tok := rp.Token
	role := rp.Role[0]
	checkToken(c, tok, c01Replay{tok, "", "role-matrix"}, nil) // also applies the authenticity oracle + model ops
	general := safeDecode("", func() (jwt.Claims, error) { return jwt.Decode(tok) })
	if general.claims != nil {
		k := kindOfClaims(general.claims)
		r, _, ok := oracleKey(general.claims.Claims().Issuer)
		if !ok || !strings.ContainsRune(allowedRoles[k], rune(r)) {
			c.Violate("issuer-role", fmt.Sprintf("Decode accepted a %s claim issued by a key of role %c", k, role), rp)
		}
		// the kind the returned claims DECLARE must be the kind of the object that was built and role-checked
		if k != "generic" {
			declared := string(general.claims.ClaimType())
			if declared == "" {
				// a payload that names its kind only inside the nats section but says version 1 migrates with an empty
				// Type field: lossy, but the object is still of the kind the payload declared - not a kind-safety break
				c.Count("decode-accepted-empty-type")
			} else if declared != k {
				c.Violate("kind-safety", fmt.Sprintf("Decode built %s claims (issuer role checked for that kind) that declare kind %q", k, declared), rp)
			} else if ar, known := allowedRoles[declared]; known && ok && !strings.ContainsRune(ar, rune(r)) {
				c.Violate("issuer-role", fmt.Sprintf("Decode accepted claims declaring %s issued by a key of role %c", declared, role), rp)
			}
		}
		c.Count("decode-accepted:" + k + ":" + string(role))
	} else {
		c.Count("decode-refused")
	}
	for _, td := range typedDecoders {
		td := td
		r := safeDecode("", func() (jwt.Claims, error) { return td.f(tok) })
		if r.claims != nil && kindOfClaims(r.claims) != td.kind {
			c.Violate("kind-safety", "Decode"+td.kind+" returned claims of kind "+kindOfClaims(r.claims), rp)
		}
		if r.claims != nil && td.kind != "generic" && string(r.claims.ClaimType()) != "" && string(r.claims.ClaimType()) != td.kind {
			c.Violate("kind-safety", "Decode"+td.kind+" returned claims that declare kind "+string(r.claims.ClaimType()), rp)
		}
		if r.claims != nil {
			// the payload itself must declare that kind
			f := factsOf(tok)
			declared := f.topType
			if declared == "" {
				declared = f.natsType
			}
			if declared != td.kind {
				c.Violate("kind-safety", "typed decoder for "+td.kind+" accepted a payload declaring "+declared, rp)
			}
		}
	}
}

// forEachHybrid: payloads that carry BOTH a top-level (version-1 style) kind K1 and a nats section with kind K2 (equal or
// different) and version absent / 1 / 2, signed by a key of every role in both layouts. The two places a version and a
// kind can be declared must never be read inconsistently (one for the loader, another for the signed text or the role).
func forEachHybrid(c *Ctx, cb func(tok, label, role, layout string)) {
	roles := []byte{'O', 'A', 'U', 'N', 'C', 'X'}
	typed := []string{"operator", "account", "user", "activation", "authorization_request", "authorization_response"}
	type hb struct {
		k1   string
		body []byte
	}
	var bases []hb
	for _, k1 := range typed {
		base, err := validToken(c.R, k1, "v2")
		must(err)
		payloadB, _ := b64.DecodeString(strings.Split(base, ".")[1])
		bases = append(bases, hb{k1, payloadB})
		if k1 == "account" {
			// a payload only the version-2 reader can parse (a scoped signing key is an object where version 1 has a
			// string): whichever reader a hybrid ends up with, kind, version and signed text must still agree
			a := jwt.NewAccountClaims(pubOf(kpN('A', 2)))
			us := jwt.NewUserScope()
			us.Key = pubOf(kpN('A', 9))
			us.Role = "r"
			a.SigningKeys.AddScopedSigner(us)
			a.Mappings = jwt.Mapping{"m.x": []jwt.WeightedMapping{{Subject: "n.y", Weight: 30}}}
			if t2, e2 := a.Encode(kpN('O', 0)); e2 == nil {
				pb2, _ := b64.DecodeString(strings.Split(t2, ".")[1])
				bases = append(bases, hb{k1, pb2})
			}
		}
	}
	for _, bs := range bases {
		k1, payloadB := bs.k1, bs.body
		for _, k2 := range append(append([]string{}, typed...), "") { // "": no kind inside the nats section at all
			for _, ver := range []int{-1, 1, 2} {
				for _, role := range roles {
					if (k1 == k2 || k2 == "") && !strings.ContainsRune(allowedRoles[k1], rune(role)) && role != 'U' {
						continue // same-kind hybrids: permitted issuers (and one forbidden role) are enough
					}
					for _, layout := range []string{"v2", "v1"} {
						kp := kpN(role, 5)
						payload := setJSONPath(string(payloadB), func(m map[string]interface{}) {
							m["iss"] = pubOf(kp)
							m["type"] = k1
							nats, _ := m["nats"].(map[string]interface{})
							if nats == nil {
								nats = map[string]interface{}{}
								m["nats"] = nats
							}
							if k2 == "" {
								delete(nats, "type")
							} else {
								nats["type"] = k2
							}
							if ver < 0 {
								delete(nats, "version")
							} else {
								nats["version"] = ver
							}
						})
						hdr := hdrV2
						if layout == "v1" {
							hdr = hdrV1
						}
						var signer nkeys.KeyPair = kp
						if role == 'X' {
							signer = nil
						}
						cb(forge(hdr, payload, signer, layout), k1+"+"+k2, string(role), layout)
					}
				}
			}
		}
	}
}

func isKeyOfRole(r byte, s string) bool {
	switch r {
	case 'O':
		return nkeys.IsValidPublicOperatorKey(s)
	case 'A':
		return nkeys.IsValidPublicAccountKey(s)
	case 'U':
		return nkeys.IsValidPublicUserKey(s)
	}
	return false
}

func runC02(c *Ctx) {
	c.Res.Rule = "complete finite matrix: claim kind (7) x issuer role (operator, account, user, server, cluster, curve) x subject role x layout (v1, v2) x direction, plus hybrid payloads (top-level kind K1 with nats.type K2 != K1 and nats.version absent/1/2, all roles, both signing layouts). Decode side: forged-but-correctly-signed tokens (payload of a valid token with iss replaced - and, in half of the cells, sub set to the same key; in a third each, issuer_account resp. aud naming an account key -, re-signed by the forged key in the chosen layout), through Decode, DecodeGeneric and every typed decoder. Encode side: every kind x signer role x subject role (plus near-keys: a fitting key padded with blanks or tabs, in lower case, cut short, extended) through the real Encode, with the minimal claims of the kind and with claims of arbitrary other content (reflective generator: every optional section and flag present or absent). Oracle: accepted => issuer role in the property's table and typed decoders only return/accept their own kind, and the kind the returned claims declare (ClaimType) is the kind of the object built and role-checked; Encode with a non-permitted signer or non-fitting subject => error and empty token. non-trivial = distinct matrix cells."
	roles := []byte{'O', 'A', 'U', 'N', 'C', 'X'}
	// ---------- decode side ----------
	for _, kind := range allKinds {
		base, err := validToken(c.R, kind, "v2")
		must(err)
		segs := strings.Split(base, ".")
		payloadB, _ := b64.DecodeString(segs[1])
		for _, role := range roles {
			for _, layout := range []string{"v2", "v1"} {
				for variant := 0; variant < 12; variant++ {
					kp := kpN(role, 6)
					other := variant / 4 // 0: nothing else; 1: issuer_account names an account key; 2: aud names an account key
					variant := variant % 4
					payload := setJSONPath(string(payloadB), func(m map[string]interface{}) {
						m["iss"] = pubOf(kp)
						if variant >= 2 {
							m["sub"] = pubOf(kp) // self-signed: the forged issuer names itself as subject
						}
						variant := variant % 2
						nats, _ := m["nats"].(map[string]interface{})
						// other key-valued members must never stand in for the issuer in the role test
						switch other {
						case 1:
							if nats == nil {
								nats = map[string]interface{}{}
								m["nats"] = nats
							}
							nats["issuer_account"] = pubOf(kpN('A', 7))
						case 2:
							m["aud"] = pubOf(kpN('A', 7))
						}
						if layout == "v1" {
							if variant == 0 && nats != nil {
								// v1 style: kind at top level
								m["type"] = nats["type"]
								delete(nats, "type")
								delete(nats, "version")
							} else if nats != nil {
								nats["version"] = 1
							}
						}
					})
					hdr := hdrV2
					if layout == "v1" {
						hdr = hdrV1
					}
					var signer nkeys.KeyPair = kp
					lay := layout
					if role == 'X' {
						signer = nil // curve keys cannot sign: the "signature" is arbitrary bytes
					}
					tok := forge(hdr, payload, signer, lay)
					rp := c02Replay{"decode", kind, string(role), "", layout, tok}
					evalC02Decode(c, rp)
				}
			}
		}
	}
	// ---------- hybrid payloads: a top-level (v1 style) kind AND a kind/version in the nats section ----------
	forEachHybrid(c, func(tok, label, role, layout string) {
		evalC02Decode(c, c02Replay{"decode", label, role, "", layout + "-hybrid", tok})
	})
	// ---------- encode side ----------
	subjects := map[byte]string{'O': pubOf(kpN('O', 3)), 'A': pubOf(kpN('A', 3)), 'U': pubOf(kpN('U', 3)), 'N': pubOf(kpN('N', 3)), 'C': pubOf(kpN('C', 3)), 'X': pubOf(kpN('X', 3)), '-': "not-a-key"}
	// near-keys: a key of a subject role with blanks around it, in lower case, cut short or extended names no key of any
	// role (the nkeys validators, which are not under test, are the judge); Encode must refuse them like any other non-key
	type subj struct {
		label string
		role  byte
		text  string
	}
	var subs []subj
	for _, r := range []byte{'O', 'A', 'U', 'N', 'C', 'X', '-'} {
		subs = append(subs, subj{string(r), r, subjects[r]})
	}
	for _, r := range []byte{'O', 'A', 'U'} {
		k := subjects[r]
		for i, v := range []string{" " + k, k + " ", "\t" + k, k + "\t", " " + k + " ", strings.ToLower(k), k[:len(k)-1], k + "A", k + "=", k[:1] + " " + k[1:]} {
			if isKeyOfRole(r, v) {
				continue // the validator itself accepts this spelling (base32 slack): a matter of nkeys, not of this library
			}
			subs = append(subs, subj{fmt.Sprintf("%c~%d", r, i), '-', v})
		}
	}
	for _, kind := range allKinds {
		for _, role := range []byte{'O', 'A', 'U', 'N', 'C'} {
			for _, sj := range subs {
				sr, sub := sj.role, sj.text
				permitted := strings.ContainsRune(allowedRoles[kind], rune(role))
				fits := true
				if want, ok := subjectRoleOf[kind]; ok {
					fits = sr == want
				}
				rp := c02Replay{"encode", kind, string(role), sj.label, "", ""}
				// the minimal claims of the kind, then claims with arbitrary other content (every optional section and
				// flag present or absent: bearer token, scoped keys, limits, ...): the role rules hold whatever else is set
				rich := 4
				if c.Thorough() {
					rich = 40
				}
				for shape := 0; shape <= rich; shape++ {
					claims := newClaimsOf(kind, sub)
					if shape > 0 {
						claims, _ = randomClaims(c, kind, true)
						claims.Claims().Subject = sub
					}
					kp := kpN(role, 2)
					tok, err := encodeOp(c, kind, claims, kp, true)
					if !permitted || !fits {
						if err == nil || tok != "" {
							c.Violate("encode-accepts", fmt.Sprintf("Encode of a %s claim (content shape %d) succeeded with signer role %c and subject %q (role %c)", kind, shape, role, sub, sr), rp)
						}
						c.Count("encode-refused")
					} else {
						if err != nil {
							c.Count("encode-error-on-permitted")
						} else {
							c.Count("encode-ok")
						}
					}
				}
			}
		}
	}
	c.Res.Exhaustive = true
	c.Sample(c02Replay{"encode", "user", "O", "U", "", ""})
}

func replayC02(c *Ctx, raw json.RawMessage) {
	var rp c02Replay
	must(json.Unmarshal(raw, &rp))
	if rp.Dir == "decode" {
		evalC02Decode(c, rp)
		return
	}
	runC02(c)
}
