package main

import (
	"encoding/json"
	"fmt"
	"math"
	"time"

	jwt "github.com/nats-io/jwt/v2"
)

// C07 — expiry / not-before for every claim kind.

func init() { runners["C07"] = runner{run: runC07, replay: replayC07} }

type c07Replay struct {
	Kind string `json:"kind"`
	Exp  int64  `json:"exp"`
	Nbf  int64  `json:"nbf"`
	// exp/nbf relative to now when Rel is set (replays stay meaningful later)
	RelExp *int64 `json:"rel_exp,omitempty"`
	RelNbf *int64 `json:"rel_nbf,omitempty"`
	// Dirty > 0: the claim also carries the Dirty-th unrelated validation problem of its kind (early returns!)
	Dirty int `json:"dirty,omitempty"`
	// Extra > 0: the claim also carries the Extra-th piece of valid nested content of its kind (nested validators
	// that run on the same result list must not disturb the time checks)
	Extra int `json:"extra,omitempty"`
}

// extras: valid (non-blocking) nested content per kind
func extras(kind string) []func(jwt.Claims) {
	if kind != "account" {
		return nil
	}
	mkImport := func(exp int64, typ jwt.ExportType) func(jwt.Claims) {
		return func(c jwt.Claims) {
			a := c.(*jwt.AccountClaims)
			exporter := kpN('A', 3)
			act := jwt.NewActivationClaims(a.Subject)
			act.ImportSubject, act.ImportType, act.Expires = "orders.>", typ, exp
			tok, err := act.Encode(exporter)
			must(err)
			a.Imports.Add(&jwt.Import{Name: "i", Subject: "orders.eu", Account: pubOf(exporter), Token: tok, Type: typ})
		}
	}
	return []func(jwt.Claims){
		mkImport(0, jwt.Stream),  // embedded activation without expiry
		mkImport(5, jwt.Service), // embedded activation long expired: deliberately ignored by import validation
		func(c jwt.Claims) {
			a := c.(*jwt.AccountClaims)
			a.Exports.Add(&jwt.Export{Name: "e", Subject: "pub.>", Type: jwt.Stream})
			a.Imports.Add(&jwt.Import{Name: "j", Subject: "x.y", Account: pubOf(kpN('A', 4)), Type: jwt.Stream})
		},
	}
}

// dirt: unrelated validation problems per kind; the time checks must not depend on them
func dirt(kind string) []func(jwt.Claims) {
	switch kind {
	case "operator":
		return []func(jwt.Claims){
			func(c jwt.Claims) { c.(*jwt.OperatorClaims).SigningKeys.Add("not-a-key") },
			func(c jwt.Claims) { c.(*jwt.OperatorClaims).AccountServerURL = "://bad url" },
			func(c jwt.Claims) { c.(*jwt.OperatorClaims).SystemAccount = "nope" },
			func(c jwt.Claims) { c.(*jwt.OperatorClaims).OperatorServiceURLs.Add("http://wrong.scheme") },
		}
	case "account":
		return []func(jwt.Claims){
			func(c jwt.Claims) { c.(*jwt.AccountClaims).Imports.Add(&jwt.Import{Type: jwt.Stream}) },
			func(c jwt.Claims) { c.(*jwt.AccountClaims).Exports.Add(&jwt.Export{Subject: "a..b", Type: jwt.Service}) },
			func(c jwt.Claims) { c.(*jwt.AccountClaims).SigningKeys.Add("not-a-key") },
			func(c jwt.Claims) {
				a := c.(*jwt.AccountClaims)
				a.Limits.JetStreamTieredLimits["R1"] = jwt.JetStreamLimits{Streams: 1}
				a.Limits.JetStreamLimits.DiskStorage = 5
			},
			func(c jwt.Claims) { c.(*jwt.AccountClaims).Subject = "not-an-account" },
		}
	case "user":
		return []func(jwt.Claims){
			func(c jwt.Claims) { c.(*jwt.UserClaims).Locale = "No/Such_Zone" },
			func(c jwt.Claims) { c.(*jwt.UserClaims).Src.Add("not-a-cidr") },
			func(c jwt.Claims) { c.(*jwt.UserClaims).Times = append(c.(*jwt.UserClaims).Times, jwt.TimeRange{Start: "25:00:00", End: "x"}) },
			func(c jwt.Claims) { c.(*jwt.UserClaims).IssuerAccount = "not-an-account" },
			func(c jwt.Claims) { c.(*jwt.UserClaims).Pub.Allow.Add("a b") },
		}
	case "activation":
		return []func(jwt.Claims){
			func(c jwt.Claims) { c.(*jwt.ActivationClaims).ImportSubject = "" },
			func(c jwt.Claims) { c.(*jwt.ActivationClaims).ImportType = 0 },
			func(c jwt.Claims) { c.(*jwt.ActivationClaims).IssuerAccount = "not-an-account" },
			func(c jwt.Claims) { c.(*jwt.ActivationClaims).Subject = "not-an-account" },
		}
	case "authorization_request":
		return []func(jwt.Claims){
			func(c jwt.Claims) { c.(*jwt.AuthorizationRequestClaims).UserNkey = "derek" },
			func(c jwt.Claims) { c.(*jwt.AuthorizationRequestClaims).UserNkey = pubOf(kpN('A', 0)) },
			func(c jwt.Claims) { c.(*jwt.AuthorizationRequestClaims).UserNkey = "" },
		}
	case "authorization_response":
		return []func(jwt.Claims){
			func(c jwt.Claims) { c.(*jwt.AuthorizationResponseClaims).Audience = "" },
			func(c jwt.Claims) { c.(*jwt.AuthorizationResponseClaims).Jwt = "" },
			func(c jwt.Claims) { c.(*jwt.AuthorizationResponseClaims).Error = "both set" },
			func(c jwt.Claims) { c.(*jwt.AuthorizationResponseClaims).Subject = "not-a-user" },
			func(c jwt.Claims) { c.(*jwt.AuthorizationResponseClaims).IssuerAccount = "not-an-account" },
		}
	}
	return nil
}

// cleanClaims builds a claim of the kind that carries no blocking issue.
func cleanClaims(kind string) jwt.Claims {
	switch kind {
	case "operator":
		c := jwt.NewOperatorClaims(pubOf(kpN('O', 0)))
		return c
	case "account":
		c := jwt.NewAccountClaims(pubOf(kpN('A', 0)))
		c.Issuer = pubOf(kpN('O', 0))
		return c
	case "user":
		c := jwt.NewUserClaims(pubOf(kpN('U', 0)))
		c.Issuer = pubOf(kpN('A', 0))
		return c
	case "activation":
		c := jwt.NewActivationClaims(pubOf(kpN('A', 1)))
		c.Issuer = pubOf(kpN('A', 0))
		c.ImportSubject = "foo.bar"
		c.ImportType = jwt.Stream
		return c
	case "authorization_request":
		c := jwt.NewAuthorizationRequestClaims(pubOf(kpN('U', 0)))
		c.UserNkey = pubOf(kpN('U', 0))
		return c
	case "authorization_response":
		c := jwt.NewAuthorizationResponseClaims(pubOf(kpN('U', 0)))
		c.Audience = pubOf(kpN('N', 0))
		c.Jwt = "a.b.c"
		return c
	}
	c := jwt.NewGenericClaims(pubOf(kpN('U', 0)))
	return c
}

func evalC07(c *Ctx, rp c07Replay) {
	now := time.Now().UTC().Unix()
	exp, nbf := rp.Exp, rp.Nbf
	if rp.RelExp != nil {
		exp = now + *rp.RelExp
	}
	if rp.RelNbf != nil {
		nbf = now + *rp.RelNbf
	}
	// keep out of the 2-second band around now
	if d := exp - now; d >= -2 && d <= 2 {
		return
	}
	if d := nbf - now; d >= -2 && d <= 2 {
		return
	}
	cl := cleanClaims(rp.Kind)
	if rp.Dirty > 0 {
		ds := dirt(rp.Kind)
		if rp.Dirty > len(ds) {
			return
		}
		ds[rp.Dirty-1](cl)
	}
	if rp.Extra > 0 {
		es := extras(rp.Kind)
		if rp.Extra > len(es) {
			return
		}
		es[rp.Extra-1](cl)
	}
	cl.Claims().Expires = exp
	cl.Claims().NotBefore = nbf
	r := validateOp(c, cl, true)
	want := 0
	if exp > 0 && exp < now {
		want++
	}
	if nbf > 0 && nbf > now {
		want++
	}
	c.Count(fmt.Sprintf("%s:timechecks=%d", rp.Kind, r.timeChecks))
	if r.panicked != "" {
		c.Violate("panic", "Validate panicked: "+r.panicked, rp)
		return
	}
	if r.timeChecks != want {
		c.Violate("time-issue-count", fmt.Sprintf("%s claim with exp=%d nbf=%d (now=%d): %d time-check issues, expected %d", rp.Kind, exp, nbf, now, r.timeChecks, want), rp)
	}
	if rp.Dirty > 0 {
		// an unrelated problem may be blocking by itself; the time issues must still be raised and must block when asked
		if want > 0 && !r.blockingT {
			c.Violate("time-issue-blocking", fmt.Sprintf("%s claim with %d time issues (and an unrelated problem): IsBlocking(true)=false", rp.Kind, want), rp)
		}
		return
	}
	if r.blocking {
		c.Violate("time-issue-blocking", fmt.Sprintf("%s claim: a time issue (or a clean claim) is blocking without time checks", rp.Kind), rp)
	}
	if r.blockingT != (want > 0) {
		c.Violate("time-issue-blocking", fmt.Sprintf("%s claim with %d time issues: IsBlocking(true)=%v", rp.Kind, want, r.blockingT), rp)
	}
}

func runC07(c *Ctx) {
	c.Res.Rule = "all seven claim kinds x (expiry, not-before) pairs from {int64 min, -1, 0, 1, now-10^6, now-3, now+3, now+10^6, int64 max, ...} (13 x 13 grid) plus random int64 pairs, always outside a 2-second band around the clock; observable: number of time-check issues, IsBlocking(true), IsBlocking(false) on an otherwise clean claim, and on claims that also carry one unrelated validation problem of their kind (26 kinds of dirt: validators with early returns must still reach the time checks), and on accounts that carry valid nested content (imports with embedded activation tokens, unexpired and expired; exports) validated into the same result list; oracle = the property's sentence; every case also through the Lean model. non-trivial = distinct (kind, exp, nbf)."
	rel := func(d int64) *int64 { return &d }
	type ev struct {
		abs int64
		rel *int64
	}
	edges := []ev{{math.MinInt64, nil}, {-1000000, nil}, {-1, nil}, {0, nil}, {1, nil}, {1000, nil}, {0, rel(-1000000)}, {0, rel(-10)}, {0, rel(-3)}, {0, rel(3)}, {0, rel(10)}, {0, rel(1000000)}, {math.MaxInt64, nil}}
	for _, k := range allKinds {
		for _, e := range edges {
			for _, n := range edges {
				evalC07(c, c07Replay{Kind: k, Exp: e.abs, Nbf: n.abs, RelExp: e.rel, RelNbf: n.rel})
			}
		}
	}
	c.Res.Extra["grid"] = len(edges) * len(edges) * len(allKinds)
	// the same on claims that carry an unrelated validation problem (validators with early returns)
	sub := []ev{edges[3], edges[4], edges[7], edges[10], edges[12]}
	for _, k := range allKinds {
		for d := 1; d <= len(dirt(k)); d++ {
			for _, e := range sub {
				for _, n := range sub {
					evalC07(c, c07Replay{Kind: k, Exp: e.abs, Nbf: n.abs, RelExp: e.rel, RelNbf: n.rel, Dirty: d})
				}
			}
		}
	}
	// ... and on claims that carry valid nested content validated into the same result list
	for _, k := range allKinds {
		for x := 1; x <= len(extras(k)); x++ {
			for _, e := range sub {
				for _, n := range sub {
					evalC07(c, c07Replay{Kind: k, Exp: e.abs, Nbf: n.abs, RelExp: e.rel, RelNbf: n.rel, Extra: x})
					evalC07(c, c07Replay{Kind: k, Exp: e.abs, Nbf: n.abs, RelExp: e.rel, RelNbf: n.rel, Extra: x, Dirty: 1 + x%2})
				}
			}
		}
	}
	for i := 0; i < c.N(500, 50000); i++ {
		k := allKinds[c.R.Intn(len(allKinds))]
		var e, n int64
		switch c.R.Intn(3) {
		case 0:
			e, n = int64(c.R.U64()), int64(c.R.U64())
		case 1:
			now := time.Now().Unix()
			e, n = now+int64(c.R.Intn(200000))-100000, now+int64(c.R.Intn(200000))-100000
		default:
			e, n = int64(c.R.Intn(5))-2, int64(c.R.U64()>>uint(c.R.Intn(64)))
		}
		evalC07(c, c07Replay{Kind: k, Exp: e, Nbf: n, Dirty: c.R.Intn(3) * c.R.Intn(6)})
	}
	c.Sample(c07Replay{Kind: "activation", Exp: 1, Nbf: math.MaxInt64})
}

func replayC07(c *Ctx, raw json.RawMessage) {
	var rp c07Replay
	must(json.Unmarshal(raw, &rp))
	evalC07(c, rp)
}
