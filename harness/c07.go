package main

import (
	"encoding/json"
	"fmt"
	"math"
	"time"

	jwt "github.com/nats-io/jwt/v2"
)

// C07 — expiry / not-before for every claim kind.

func init() { runners["C07"] = runner{run: runC07, replay: replayC07} }

type c07Replay struct {
	Kind string `json:"kind"`
	Exp  int64  `json:"exp"`
	Nbf  int64  `json:"nbf"`
	// exp/nbf relative to now when Rel is set (replays stay meaningful later)
	RelExp *int64 `json:"rel_exp,omitempty"`
	RelNbf *int64 `json:"rel_nbf,omitempty"`
}

// cleanClaims builds a claim of the kind that carries no blocking issue.
func cleanClaims(kind string) jwt.Claims {
	switch kind {
	case "operator":
		c := jwt.NewOperatorClaims(pubOf(kpN('O', 0)))
		return c
	case "account":
		c := jwt.NewAccountClaims(pubOf(kpN('A', 0)))
		c.Issuer = pubOf(kpN('O', 0))
		return c
	case "user":
		c := jwt.NewUserClaims(pubOf(kpN('U', 0)))
		c.Issuer = pubOf(kpN('A', 0))
		return c
	case "activation":
		c := jwt.NewActivationClaims(pubOf(kpN('A', 1)))
		c.Issuer = pubOf(kpN('A', 0))
		c.ImportSubject = "foo.bar"
		c.ImportType = jwt.Stream
		return c
	case "authorization_request":
		c := jwt.NewAuthorizationRequestClaims(pubOf(kpN('U', 0)))
		c.UserNkey = pubOf(kpN('U', 0))
		return c
	case "authorization_response":
		c := jwt.NewAuthorizationResponseClaims(pubOf(kpN('U', 0)))
		c.Audience = pubOf(kpN('N', 0))
		c.Jwt = "a.b.c"
		return c
	}
	c := jwt.NewGenericClaims(pubOf(kpN('U', 0)))
	return c
}

func evalC07(c *Ctx, rp c07Replay) {
	now := time.Now().UTC().Unix()
	exp, nbf := rp.Exp, rp.Nbf
	if rp.RelExp != nil {
		exp = now + *rp.RelExp
	}
	if rp.RelNbf != nil {
		nbf = now + *rp.RelNbf
	}
	// keep out of the 2-second band around now
	if d := exp - now; d >= -2 && d <= 2 {
		return
	}
	if d := nbf - now; d >= -2 && d <= 2 {
		return
	}
	cl := cleanClaims(rp.Kind)
	cl.Claims().Expires = exp
	cl.Claims().NotBefore = nbf
	r := validateOp(c, cl, true)
	want := 0
	if exp > 0 && exp < now {
		want++
	}
	if nbf > 0 && nbf > now {
		want++
	}
	c.Count(fmt.Sprintf("%s:timechecks=%d", rp.Kind, r.timeChecks))
	if r.panicked != "" {
		c.Violate("panic", "Validate panicked: "+r.panicked, rp)
		return
	}
	if r.timeChecks != want {
		c.Violate("time-issue-count", fmt.Sprintf("%s claim with exp=%d nbf=%d (now=%d): %d time-check issues, expected %d", rp.Kind, exp, nbf, now, r.timeChecks, want), rp)
	}
	if r.blocking {
		c.Violate("time-issue-blocking", fmt.Sprintf("%s claim: a time issue (or a clean claim) is blocking without time checks", rp.Kind), rp)
	}
	if r.blockingT != (want > 0) {
		c.Violate("time-issue-blocking", fmt.Sprintf("%s claim with %d time issues: IsBlocking(true)=%v", rp.Kind, want, r.blockingT), rp)
	}
}

func runC07(c *Ctx) {
	c.Res.Rule = "all seven claim kinds x (expiry, not-before) pairs from {int64 min, -1, 0, 1, now-10^6, now-3, now+3, now+10^6, int64 max, ...} (13 x 13 grid) plus random int64 pairs, always outside a 2-second band around the clock; observable: number of time-check issues, IsBlocking(true), IsBlocking(false) on an otherwise clean claim; oracle = the property's sentence; every case also through the Lean model. non-trivial = distinct (kind, exp, nbf)."
	rel := func(d int64) *int64 { return &d }
	type ev struct {
		abs int64
		rel *int64
	}
	edges := []ev{{math.MinInt64, nil}, {-1000000, nil}, {-1, nil}, {0, nil}, {1, nil}, {1000, nil}, {0, rel(-1000000)}, {0, rel(-10)}, {0, rel(-3)}, {0, rel(3)}, {0, rel(10)}, {0, rel(1000000)}, {math.MaxInt64, nil}}
	for _, k := range allKinds {
		for _, e := range edges {
			for _, n := range edges {
				evalC07(c, c07Replay{Kind: k, Exp: e.abs, Nbf: n.abs, RelExp: e.rel, RelNbf: n.rel})
			}
		}
	}
	c.Res.Extra["grid"] = len(edges) * len(edges) * len(allKinds)
	for i := 0; i < c.N(500, 50000); i++ {
		k := allKinds[c.R.Intn(len(allKinds))]
		var e, n int64
		switch c.R.Intn(3) {
		case 0:
			e, n = int64(c.R.U64()), int64(c.R.U64())
		case 1:
			now := time.Now().Unix()
			e, n = now+int64(c.R.Intn(200000))-100000, now+int64(c.R.Intn(200000))-100000
		default:
			e, n = int64(c.R.Intn(5))-2, int64(c.R.U64()>>uint(c.R.Intn(64)))
		}
		evalC07(c, c07Replay{Kind: k, Exp: e, Nbf: n})
	}
	c.Sample(c07Replay{Kind: "activation", Exp: 1, Nbf: math.MaxInt64})
}

func replayC07(c *Ctx, raw json.RawMessage) {
	var rp c07Replay
	must(json.Unmarshal(raw, &rp))
	evalC07(c, rp)
}
