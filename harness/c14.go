package main

import (
	"fmt"
	"math"
	"reflect"
	"strings"
	"time"

	jwt "github.com/nats-io/jwt/v2"
)

// C14 — scoped signing keys and the one-call user-token issuer honour their contract.

func init() { runners["C14"] = runner{run: runC14, replay: nil} }

func genTemplate(c *Ctx, t *jwt.UserPermissionLimits) {
	g := &Gen{r: c.R, maxDepth: 6, plain: true}
	g.fill(reflect.ValueOf(t).Elem(), 0, "Template")
	edges := []int64{0, 1, -1, 100, 1<<53 - 1, 1 << 53, 1<<53 + 1, math.MaxInt64, math.MinInt64}
	if c.R.Chance(70) {
		t.Subs, t.Data, t.Payload = edges[c.R.Intn(len(edges))], edges[c.R.Intn(len(edges))], edges[c.R.Intn(len(edges))]
	}
	if c.R.Chance(30) {
		t.Resp = &jwt.ResponsePermission{MaxMsgs: c.R.Intn(5) - 1, Expires: time.Duration(edges[c.R.Intn(len(edges))])}
	}
}

// allZero: every leaf of v is the Go zero value (what DeepEqual with the zero struct means)
func allZero(v reflect.Value) bool {
	switch v.Kind() {
	case reflect.Struct:
		for i := 0; i < v.NumField(); i++ {
			if !allZero(v.Field(i)) {
				return false
			}
		}
		return true
	default:
		return v.IsZero()
	}
}

func runC14(c *Ctx) {
	c.Res.Rule = "(1) signing-key sets of 0-6 entries mixing plain keys, scopes held by pointer and scopes held by value, templates with every permission / limit field set or not and int64 edge values (0, +-1, 2^53+-1, int64 extremes), through Encode + Decode: key, role, description and template of every scope must come back deep-equal; (2) ValidateScopedSigner over user claims with each field of UserPermissionLimits set or not (including the three nats limits written out as -1 in every combination), other claim kinds, matching / foreign issuers: accepted exactly when user claim AND issuer = scope key AND all permissions/limits zero; (3) IssueUserJWT over account-id role x user-key role x name x duration (0, +-, fractions of a second) x tags: right roles => token that decodes to a scoped user with the given subject, issuer account, name (default = subject), tags, expiry floor(now+d), accepted by the scope; other roles => error and empty token. Model correspondence on every step. non-trivial = distinct cases."
	okp := kpN('O', 0)
	// ---------- (1) signing keys survive encode/decode ----------
	n1 := c.N(300, 30000)
	for i := 0; i < n1; i++ {
		ac := jwt.NewAccountClaims(kr.acct[0])
		type want struct {
			key, role, desc string
			tmpl            string
			tmplK2          string // the template as known finding K2 returns it: zero subs/data/payload read back as -1
			zeroLimit       bool
		}
		wants := map[string]*want{}
		nk := c.R.Intn(7)
		if i == 0 {
			nk = 1 // fixed witness of known finding K2, always first: one scope whose template limits subscriptions to 0
		}
		for k := 0; k < nk; k++ {
			key := pubOf(kpN('A', 10+c.R.Intn(9)))
			pick := c.R.Intn(3)
			if i == 0 {
				pick = 1
			}
			switch pick {
			case 0:
				ac.SigningKeys.Add(key)
				wants[key] = nil
			default:
				us := jwt.NewUserScope()
				us.Key, us.Role, us.Description = key, c.R.Pick(strAlphabet), c.R.Pick(strAlphabet)
				genTemplate(c, &us.Template)
				if i == 0 {
					us.Template = jwt.UserPermissionLimits{}
					us.Template.Subs, us.Template.Data, us.Template.Payload = 0, -1, -1
				}
				k2 := us.Template
				for _, f := range []*int64{&k2.Subs, &k2.Data, &k2.Payload} {
					if *f == 0 {
						*f = -1
					}
				}
				w := &want{key, us.Role, us.Description, dumpNorm(&us.Template), dumpNorm(&k2), us.Template.Subs == 0 || us.Template.Data == 0 || us.Template.Payload == 0}
				wants[key] = w
				if c.R.Bool() {
					ac.SigningKeys.AddScopedSigner(us)
				} else {
					ac.SigningKeys.AddScopedSigner(*us) // held by value
				}
			}
		}
		rp := map[string]interface{}{"signing_keys": dumpAny(&ac.SigningKeys)}
		tok, err := encodeOp(c, "account", ac, okp, true)
		if err != nil {
			c.Violate("scope-roundtrip", "account with signing keys does not encode: "+err.Error(), rp)
			continue
		}
		// model side of the decode
		checkToken(c, tok, c01Replay{tok, "", "signing-keys"}, nil)
		ac2, err := jwt.DecodeAccountClaims(tok)
		if err != nil {
			c.Violate("scope-roundtrip", "account with signing keys does not decode: "+err.Error(), rp)
			continue
		}
		if len(ac2.SigningKeys) != len(wants) {
			c.Violate("scope-roundtrip", fmt.Sprintf("%d signing keys encoded, %d decoded", len(wants), len(ac2.SigningKeys)), rp)
		}
		for key, w := range wants {
			sc, ok := ac2.SigningKeys.GetScope(key)
			switch {
			case !ok:
				c.Violate("scope-roundtrip", "signing key lost: "+key, rp)
			case w == nil:
				if sc != nil {
					c.Violate("scope-roundtrip", "plain key came back as a scope", rp)
				}
				c.Count("plain-key")
			default:
				us, isPtr := sc.(*jwt.UserScope)
				if !isPtr || us == nil {
					c.Violate("scope-roundtrip", "scope came back as a plain key or other type", rp)
					continue
				}
				got := dumpNorm(&us.Template)
				if us.Key != w.key || us.Role != w.role || us.Description != w.desc {
					c.Violate("scope-roundtrip", "scope key/role/description changed", rp)
				}
				if got != w.tmpl {
					if w.zeroLimit && got == w.tmplK2 {
						// K2: a zero subs/data/payload limit in a template is dropped by omitempty and decodes as -1
						c.Violate("scope-template-zero-limit", "a scope template with a zero NATS limit decodes with that limit = -1", rp)
					} else {
						c.Violate("scope-roundtrip", "scope template changed across encode/decode", rp)
					}
				}
				c.Count("scoped-key")
			}
		}
	}
	// ---------- (2) ValidateScopedSigner ----------
	n2 := c.N(600, 60000)
	for i := 0; i < n2; i++ {
		scopeKey := pubOf(kpN('A', 10))
		us := jwt.NewUserScope()
		us.Key = scopeKey
		kind := "user"
		if c.R.Chance(15) {
			kind = allKinds[c.R.Intn(len(allKinds))]
		}
		var cl jwt.Claims
		if kind == "user" {
			u := jwt.NewUserClaims(kr.user[0])
			switch c.R.Intn(5) {
			case 0:
				u.SetScoped(true)
			case 3: // nothing of its own except "unlimited" written out: -1 in any of the three nats limits is a limit of its own
				u.SetScoped(true)
				m := 1 + c.R.Intn(7)
				if m&1 != 0 {
					u.Limits.Subs = jwt.NoLimit
				}
				if m&2 != 0 {
					u.Limits.Data = jwt.NoLimit
				}
				if m&4 != 0 {
					u.Limits.Payload = jwt.NoLimit
				}
			case 1: // freshly built: NewUserClaims leaves unlimited limits and an empty source list
			case 2:
				u.SetScoped(true)
				// set exactly one field
				f := reflect.ValueOf(&u.UserPermissionLimits).Elem()
				g := &Gen{r: c.R, maxDepth: 5, plain: true}
				leafs := []reflect.Value{f.FieldByName("Permissions").FieldByName("Pub").FieldByName("Allow"), f.FieldByName("Permissions").FieldByName("Sub").FieldByName("Deny"),
					f.FieldByName("Permissions").FieldByName("Resp"), f.FieldByName("Limits").FieldByName("Src"), f.FieldByName("Limits").FieldByName("Times"), f.FieldByName("Limits").FieldByName("Locale"),
					f.FieldByName("Limits").FieldByName("Subs"), f.FieldByName("Limits").FieldByName("Data"), f.FieldByName("Limits").FieldByName("Payload"), f.FieldByName("BearerToken"), f.FieldByName("AllowedConnectionTypes")}
				lf := leafs[c.R.Intn(len(leafs))]
				g.fill(lf, 0, "x")
				if lf.Kind() == reflect.Slice && c.R.Chance(30) {
					lf.Set(reflect.MakeSlice(lf.Type(), 0, 0)) // empty but non-nil: DeepEqual says "set"
				}
				if lf.Kind() == reflect.Ptr && c.R.Chance(50) {
					lf.Set(reflect.New(lf.Type().Elem())) // present but all-zero (e.g. "resp":{"max":0,"ttl":0}): still a permission of its own
				}
			default:
				g := &Gen{r: c.R, maxDepth: 5, plain: true}
				g.fill(reflect.ValueOf(&u.UserPermissionLimits).Elem(), 0, "x")
			}
			u.Issuer = scopeKey
			if c.R.Chance(25) {
				u.Issuer = pubOf(kpN('A', 11))
			}
			cl = u
		} else {
			cl = cleanClaims(kind)
			cl.Claims().Issuer = scopeKey
		}
		var err error
		func() {
			defer func() {
				if r := recover(); r != nil {
					err = fmt.Errorf("panic %v", r)
				}
			}()
			if c.R.Bool() {
				err = us.ValidateScopedSigner(cl)
			} else {
				err = (*us).ValidateScopedSigner(cl)
			}
		}()
		got := err == nil
		want := false
		if u, ok := cl.(*jwt.UserClaims); ok {
			want = u.Issuer == scopeKey && allZero(reflect.ValueOf(u.UserPermissionLimits))
		}
		c.Op(b2s(got), true, "scopedsigner", hx(scopeKey), kindOfClaims(cl), hx(dumpAny(cl)))
		c.Count("scoped-signer:" + b2s(got))
		if got != want {
			c.Violate("scoped-signer", fmt.Sprintf("ValidateScopedSigner says %v, contract says %v", got, want), map[string]string{"kind": kind, "claims": dumpAny(cl), "scope_key": scopeKey})
		}
	}
	// ---------- (3) IssueUserJWT ----------
	roles := []byte{'A', 'U', 'O', 'N', 'X'}
	durations := []time.Duration{0, time.Hour, -time.Hour, 1500 * time.Millisecond, -1500 * time.Millisecond, time.Nanosecond, -time.Nanosecond, 365 * 24 * time.Hour}
	for _, ar := range roles {
		for _, ur := range roles {
			for _, name := range []string{"", "alice <a&b>"} {
				for _, d := range durations {
					for ti, tags := range [][]string{nil, {}, {"T1", " mixed Case "}} {
						acct, user := pubOf(kpN(ar, 1)), pubOf(kpN(ur, 2))
						signer := kpN('A', 10)
						t0 := time.Now().UnixNano()
						var tok string
						var err error
						if ti == 0 {
							tok, err = jwt.IssueUserJWT(signer, acct, user, name, d)
						} else {
							tok, err = jwt.IssueUserJWT(signer, acct, user, name, d, tags...)
						}
						t1 := time.Now().UnixNano()
						rp := map[string]interface{}{"account_role": string(ar), "user_role": string(ur), "name": name, "duration": int64(d), "tags": tags}
						rolesOK := ar == 'A' && ur == 'U'
						tagArg := "-"
						if ti != 0 {
							var hs []string
							for _, t := range tags {
								hs = append(hs, hx(t))
							}
							tagArg = strings.Join(hs, ",")
						}
						if !rolesOK {
							c.Op("err", true, "issueuser", hx(acct), hx(user), hx(name), "0", tagArg, "0", hx(pubOf(signer)))
							if err == nil || tok != "" {
								c.Violate("issue-user", "IssueUserJWT succeeded for roles "+string(ar)+"/"+string(ur), rp)
							}
							c.Count("issue-refused")
							continue
						}
						if err != nil {
							c.Violate("issue-user", "IssueUserJWT failed for an account id and a user key: "+err.Error(), rp)
							continue
						}
						u, derr := jwt.DecodeUserClaims(tok)
						if derr != nil {
							c.Violate("issue-user", "issued token does not decode as a user: "+derr.Error(), rp)
							continue
						}
						wantName := name
						if name == "" {
							wantName = user
						}
						lo, hi := int64(0), int64(0)
						if d != 0 {
							lo, hi = floorDiv(t0+int64(d), 1e9), floorDiv(t1+int64(d), 1e9)
						}
						var bad []string
						if u.Subject != user {
							bad = append(bad, "subject")
						}
						if u.IssuerAccount != acct {
							bad = append(bad, "issuer account")
						}
						if u.Name != wantName {
							bad = append(bad, "name")
						}
						if fmt.Sprint([]string(u.Tags)) != fmt.Sprint(tags) {
							bad = append(bad, "tags")
						}
						if u.Expires < lo || u.Expires > hi {
							bad = append(bad, fmt.Sprintf("expiry %d not in [%d,%d]", u.Expires, lo, hi))
						}
						if !u.HasEmptyPermissions() {
							bad = append(bad, "carries permissions/limits")
						}
						us := jwt.NewUserScope()
						us.Key = pubOf(signer)
						if e := us.ValidateScopedSigner(u); e != nil {
							bad = append(bad, "not accepted by the scope: "+e.Error())
						}
						if len(bad) > 0 {
							c.Violate("issue-user", "issued user token: "+strings.Join(bad, ", "), rp)
						}
						// model: same claims through the model's IssueUserJWT (expiry and clock taken from the token)
						segs := strings.Split(tok, ".")
						hb, _ := b64.DecodeString(segs[0])
						pb, _ := b64.DecodeString(segs[1])
						ptext := strings.Replace(string(pb), `"jti":"`+u.ID+`"`, `"jti":"@@JTI@@"`, 1)
						// the object after Encode is not observable here; rebuild its dump from the decoded claims
						after := dumpAny(u)
						after = strings.Replace(after, hx("jti")+":s"+hx(u.ID), hx("jti")+":s"+hx("@@JTI@@"), 1)
						if len(tags) == 0 && ti != 0 {
							// an empty (non-nil) tag list is dropped by omitempty and decodes as nil; the model keeps []
							after = ""
						}
						impl := "ok " + hx(string(hb)) + " " + hx(ptext)
						if after != "" {
							impl += " " + after
							c.Op(impl, true, "issueuser", hx(acct), hx(user), hx(name), fmt.Sprint(u.Expires), tagArg, fmt.Sprint(u.IssuedAt), hx(pubOf(signer)))
						}
						c.Count("issue-ok")
					}
				}
			}
		}
	}
}

func floorDiv(a, b int64) int64 {
	q := a / b
	if (a%b != 0) && ((a < 0) != (b < 0)) {
		q--
	}
	return q
}
