package main

import (
	"bytes"
	"encoding/base64"
	"encoding/json"
	"fmt"
	"regexp"
	"strings"
	"unicode/utf8"

	jwt "github.com/nats-io/jwt/v2"
	"github.com/nats-io/nkeys"
)

// C15 — credential files round-trip the token and the seed.

func init() { runners["C15"] = runner{run: runC15, replay: replayC15} }

type c15Replay struct {
	Kind string `json:"kind"`
	Text string `json:"text"`
	Tok  string `json:"token,omitempty"`
	Seed string `json:"seed,omitempty"`
}

var credsRE = regexp.MustCompile(`\s*(?:(?:[-]{3,}.*[-]{3,}\r?\n)([\w\-.=]+)(?:\r?\n[-]{3,}.*[-]{3,}(\r?\n|\z)))`)

func safeCreds(f func()) (panicked string) {
	defer func() {
		if r := recover(); r != nil {
			panicked = fmt.Sprint(r)
		}
	}()
	f()
	return
}

// textOps: parsing an arbitrary text as credentials, compared with the model's matcher and line scan
func textOps(c *Ctx, text string, nontrivial bool) {
	if !utf8.ValidString(text) {
		return
	}
	var got string
	var seedLine string
	var kp nkeys.KeyPair
	var kerr error
	p := safeCreds(func() {
		got, _ = jwt.ParseDecoratedJWT([]byte(text))
		kp, kerr = jwt.ParseDecoratedNKey([]byte(text))
	})
	if p != "" {
		c.Violate("panic", "credential parsing panicked: "+p, c15Replay{"text", text, "", ""})
		return
	}
	c.Op(hx(got), nontrivial, "parsejwt", hx(text))
	// the library's own regular expression (the regexp package is trusted; the model's matcher is what is checked)
	var caps []string
	for _, m := range credsRE.FindAllSubmatch([]byte(text), -1) {
		caps = append(caps, hx(string(m[1])))
	}
	c.Op("["+strings.Join(caps, ",")+"]", nontrivial, "blocks", hx(text))
	if kerr == nil {
		s, _ := kp.Seed()
		_ = s
		seedLine = "ok"
	}
	_ = seedLine
}

func evalCreds(c *Ctx, tok string, seedKP nkeys.KeyPair, nl string, lead string) {
	seed := seedOf(seedKP)
	rp := c15Replay{"user-config", "", tok, string(seed)}
	var cfg []byte
	var err error
	p := safeCreds(func() { cfg, err = jwt.FormatUserConfig(tok, seed) })
	if p != "" {
		c.Violate("panic", "FormatUserConfig panicked: "+p, rp)
		return
	}
	f := factsOf(tok)
	iss := f.iss
	if cl, e := jwt.Decode(tok); e == nil {
		iss = cl.Claims().Issuer
	}
	b1, b2 := false, false
	if f.okSegs && f.sigOK {
		b1, b2 = oracleVerify(iss, f.segs[1], f.sig), oracleVerify(iss, f.segs[0]+"."+f.segs[1], f.sig)
	}
	impl := "err"
	if err == nil {
		impl = "ok " + hx(string(cfg))
	}
	c.Op(impl, true, "formatuserconfig", hx(tok), hx(string(seed)), hx(iss), bit(b1), bit(b2))
	isUserTok := false
	if cl, e := jwt.Decode(tok); e == nil && cl.ClaimType() == jwt.UserClaim {
		isUserTok = true
	}
	isUserSeed := bytes.HasPrefix(seed, []byte("SU"))
	if !isUserTok || !isUserSeed {
		c.Count("format-refusal-expected")
		if err == nil {
			c.Violate("format-accepts", fmt.Sprintf("FormatUserConfig accepted a non-user token (%v) or non-user seed (%v)", !isUserTok, !isUserSeed), rp)
		}
		return
	}
	if err != nil {
		c.Violate("format-refuses", "FormatUserConfig refused a user token with a user seed: "+err.Error(), rp)
		return
	}
	text := lead + strings.ReplaceAll(string(cfg), "\n", nl)
	rp.Text = text
	var back string
	var kp nkeys.KeyPair
	var kerr, uerr error
	var ukp nkeys.KeyPair
	p = safeCreds(func() {
		back, _ = jwt.ParseDecoratedJWT([]byte(text))
		kp, kerr = jwt.ParseDecoratedNKey([]byte(text))
		ukp, uerr = jwt.ParseDecoratedUserNKey([]byte(text))
	})
	if p != "" {
		c.Violate("panic", "parsing a formatted credentials file panicked: "+p, rp)
		return
	}
	if back != tok {
		c.Violate("token-roundtrip", "the credentials file does not parse back to the same token text", rp)
	}
	if kerr != nil || uerr != nil {
		c.Violate("seed-roundtrip", fmt.Sprintf("the credentials file does not parse back to a key pair: %v %v", kerr, uerr), rp)
	} else {
		s1, _ := kp.Seed()
		s2, _ := ukp.Seed()
		p1, _ := kp.PublicKey()
		if string(s1) != string(seed) || string(s2) != string(seed) || p1 != pubOf(seedKP) {
			c.Violate("seed-roundtrip", "parsed key pair has a different seed or public key", rp)
		}
	}
	c.Op(hx(back), true, "parsejwt", hx(text))
	if kerr == nil {
		// what the model says the seed text is (FromSeed ignores a trailing \r: base32 skips it)
		items := credsRE.FindAllSubmatch([]byte(text), -1)
		if len(items) > 1 {
			c.Op("ok "+hx(string(items[1][1]))+" U", true, "seedtext", hx(text))
		}
	}
	c.Count("roundtrip:" + map[string]string{"\n": "LF", "\r\n": "CRLF"}[nl])
}

func runC15(c *Ctx) {
	c.Res.Rule = "user tokens from ~150 to ~4000 characters, and every fifteenth one very long (about 64 KiB to 130 KiB) (every base64url character class occurs; some tokens are searched for so that their own text contains a word of the decoration template: KIND, USER, SEED, NKEY, …) x user / account / operator seeds x LF / CRLF x leading blank lines (and seeds handed over with surrounding blanks, tabs or line ends): FormatUserConfig -> ParseDecoratedJWT / ParseDecoratedNKey / ParseDecoratedUserNKey must return the same token text and a key pair with the same seed and public key; DecorateJWT of every claim kind parses back unchanged, also when the returned slice is kept and parsed again after later DecorateJWT / FormatUserConfig calls; a bare token parses to itself; non-user tokens / seeds are refused; the user-only key parser refuses operator and account seeds, also in indented (spaces / tabs), CRLF and bare-seed renderings and inside a full credentials file. The model's hand matcher is compared with Go's regexp on structured adversarial text (dash runs of 2/3/5/6, dashes inside token lines, missing final newline, CR placement). non-trivial = distinct texts."
	// ---- round trips
	for i := 0; i < c.N(60, 3000); i++ {
		u := jwt.NewUserClaims(pubOf(kpN('U', c.R.Intn(4))))
		// vary the token length: names and permission lists of random size
		u.Name = strings.Repeat(c.R.Pick(strAlphabet)+"x", c.R.Intn(40))
		nsub := c.R.Intn(60)
		if i%15 == 7 {
			// very long tokens: past 64 KiB (line-oriented readers with a fixed buffer)
			nsub = []int{1400, 1500, 2800}[c.R.Intn(3)]
			c.Count("very-long-token")
		}
		for k := 0; k < nsub; k++ {
			u.Pub.Allow.Add(fmt.Sprintf("subj.%d.%s", k, strings.Repeat("y", c.R.Intn(30))))
		}
		tok, err := u.Encode(kpN('A', c.R.Intn(3)))
		must(err)
		nl := []string{"\n", "\r\n"}[c.R.Intn(2)]
		lead := []string{"", "\n", "\n\n  \n", "\r\n\r\n", "\t \n"}[c.R.Intn(5)]
		evalCreds(c, tok, kpN('U', c.R.Intn(4)), nl, lead)
		if i == 0 {
			cfg, _ := jwt.FormatUserConfig(tok, seedOf(kpN('U', 0)))
			c.Sample(map[string]string{"credentials_file": string(cfg)})
		}
	}
	// ---- tokens whose own text contains a word of the decoration template (KIND, USER, SEED, NKEY, NATS, JWT): the
	// decoration must treat the token as opaque text. Such tokens are found by search: a two-byte rune followed by
	// digits, at the three possible alignments, whose base64url text contains the word.
	{
		words := []string{"KIND", "USER", "SEED", "NKEY", "NATS", "-JWT", "JWT-", "TOKEN"}
		found := map[string]int{}
		for r := rune(0x80); r < 0x800 && len(found) < 6; r++ {
			for _, tail := range []string{"", "0", "4", "40", "7", "07", "9"} {
				frag := string(r) + tail
				hit := ""
				for pad := 0; pad < 3 && hit == ""; pad++ {
					enc := base64.RawURLEncoding.EncodeToString([]byte(strings.Repeat("a", pad) + frag + "aaa"))
					for _, w := range words {
						if strings.Contains(enc, w) {
							hit = w
						}
					}
				}
				if hit == "" || found[hit] >= 2 {
					continue
				}
				for pad := 0; pad < 3; pad++ {
					u := jwt.NewUserClaims(pubOf(kpN('U', 1)))
					u.Name = strings.Repeat("a", pad) + frag + "aaa"
					tok, err := u.Encode(kpN('A', 1))
					if err != nil || !strings.Contains(tok, hit) {
						continue
					}
					found[hit]++
					c.Count("token-containing-template-word:" + hit)
					evalCreds(c, tok, kpN('U', 2), "\n", "")
					evalCreds(c, tok, kpN('U', 2), "\r\n", "\n")
					var out []byte
					var derr error
					if p := safeCreds(func() { out, derr = jwt.DecorateJWT(tok) }); p != "" || derr != nil {
						c.Violate("decorate", "DecorateJWT failed on a decodable token", c15Replay{"decorate", "", tok, ""})
						continue
					}
					if back, _ := jwt.ParseDecoratedJWT(out); back != tok {
						c.Violate("token-roundtrip", "decorating a token whose text contains the word "+hit+" and parsing it back returns a different token", c15Replay{"decorate", string(out), tok, ""})
					}
				}
			}
		}
	}
	// ---- refusals: non-user tokens, non-user seeds
	// results of earlier calls are kept (the very slices the library returned) and parsed again after every later
	// call: an output must not change under the caller's feet
	type heldOut struct {
		out []byte
		tok string
	}
	var held []heldOut
	recheck := func(after string) {
		for _, h := range held {
			back, _ := jwt.ParseDecoratedJWT(h.out)
			if back != h.tok {
				c.Violate("token-roundtrip", "a decorated token kept by the caller parses to a different token after a later "+after+" call", c15Replay{"decorate-held", string(h.out), h.tok, ""})
			}
		}
	}
	for _, kind := range allKinds {
		tok, err := validToken(c.R, kind, "v2")
		must(err)
		for _, role := range []byte{'U', 'A', 'O'} {
			evalCreds(c, tok, kpN(role, 1), "\n", "")
			recheck("FormatUserConfig")
		}
		// decorate + parse back, bare token
		var dec []byte
		var derr error
		if p := safeCreds(func() { dec, derr = jwt.DecorateJWT(tok) }); p != "" {
			c.Violate("panic", "DecorateJWT panicked: "+p, c15Replay{"decorate", "", tok, ""})
			continue
		}
		f := factsOf(tok)
		cl, _ := jwt.Decode(tok)
		b1, b2 := oracleVerify(cl.Claims().Issuer, f.segs[1], f.sig), oracleVerify(cl.Claims().Issuer, f.segs[0]+"."+f.segs[1], f.sig)
		impl := "err"
		if derr == nil {
			impl = "ok " + hx(string(dec))
		}
		c.Op(impl, true, "decoratejwt", hx(tok), hx(cl.Claims().Issuer), bit(b1), bit(b2))
		if derr != nil {
			c.Violate("decorate", "DecorateJWT refused a decodable "+kind+" token", c15Replay{"decorate", "", tok, ""})
			continue
		}
		held = append(held, heldOut{dec, tok})
		recheck("DecorateJWT")
		for _, nl := range []string{"\n", "\r\n"} {
			text := strings.ReplaceAll(string(dec), "\n", nl)
			back, _ := jwt.ParseDecoratedJWT([]byte(text))
			c.Op(hx(back), true, "parsejwt", hx(text))
			if back != tok {
				c.Violate("token-roundtrip", "decorating a "+kind+" token and parsing it back changed it", c15Replay{"decorate", text, tok, ""})
			}
		}
		bare, _ := jwt.ParseDecoratedJWT([]byte(tok))
		c.Op(hx(bare), true, "parsejwt", hx(tok))
		if bare != tok {
			c.Violate("token-roundtrip", "a bare token does not parse to itself", c15Replay{"bare", tok, tok, ""})
		}
		c.Count("decorate:" + kind)
	}
	// seeds handed over with surrounding whitespace (as read from a file): what is formatted must still parse back
	// to the key pair of that seed
	{
		utok, _ := jwt.NewUserClaims(pubOf(kpN('U', 2))).Encode(kpN('A', 1))
		seed := string(seedOf(kpN('U', 2)))
		for _, pre := range []string{"", " ", "\t", "  \t"} {
			for _, post := range []string{"", " ", "\t", "\n", "\r\n", " \n"} {
				if pre == "" && post == "" {
					continue
				}
				padded := []byte(pre + seed + post)
				for _, how := range []string{"FormatUserConfig", "DecorateSeed"} {
					var out []byte
					var err error
					pn := safeCreds(func() {
						if how == "FormatUserConfig" {
							out, err = jwt.FormatUserConfig(utok, padded)
						} else {
							out, err = jwt.DecorateSeed(padded)
						}
					})
					rp := c15Replay{"padded-seed", string(out), utok, string(padded)}
					if pn != "" {
						c.Violate("panic", how+" panicked on a padded seed: "+pn, rp)
						continue
					}
					c.Count("padded-seed:" + how)
					if err != nil {
						continue // refusing a padded seed is allowed; writing a file that does not parse back is not
					}
					nls := []string{"\n", "\r\n"}
					if how == "DecorateSeed" {
						nls = []string{"\n"} // the property speaks of CRLF renderings of the credentials file only
					}
					for _, nl := range nls {
						text := strings.ReplaceAll(string(out), "\n", nl)
						var kp2 nkeys.KeyPair
						var e2 error
						if p2 := safeCreds(func() { kp2, e2 = jwt.ParseDecoratedNKey([]byte(text)) }); p2 != "" {
							c.Violate("panic", "ParseDecoratedNKey panicked: "+p2, rp)
							continue
						}
						if e2 != nil {
							c.Violate("seed-roundtrip", fmt.Sprintf("%s accepted a seed with surrounding whitespace (%q ... %q) but its output does not parse back to a key pair: %v", how, pre, post, e2), rp)
							continue
						}
						if s2, _ := kp2.Seed(); string(s2) != seed {
							c.Violate("seed-roundtrip", fmt.Sprintf("%s of a seed with surrounding whitespace parses back to a different seed (%q)", how, s2), rp)
						}
					}
				}
			}
		}
	}
	// user-only key parser refuses operator and account seeds
	for _, role := range []byte{'O', 'A', 'U'} {
		d, err := jwt.DecorateSeed(seedOf(kpN(role, 2)))
		must(err)
		c.Op("ok "+hx(string(d)), true, "decorateseed", hx(string(seedOf(kpN(role, 2)))))
		_, e1 := jwt.ParseDecoratedNKey(d)
		_, e2 := jwt.ParseDecoratedUserNKey(d)
		if e1 != nil {
			c.Violate("seed-roundtrip", "a decorated "+string(role)+" seed does not parse", c15Replay{"seed", string(d), "", ""})
		}
		if (e2 == nil) != (role == 'U') {
			c.Violate("user-only", fmt.Sprintf("ParseDecoratedUserNKey on a %c seed: err=%v", role, e2), c15Replay{"seed", string(d), "", ""})
		}
		c.Op("ok "+hx(string(seedOf(kpN(role, 2))))+" "+string(role), true, "seedtext", hx(string(d)))
		// the same refusal under every rendering a file may arrive in: indented lines (spaces, tabs), a bare seed after
		// blanks, a full credentials file carrying this seed, LF and CRLF — whichever path the parser takes
		seed := string(seedOf(kpN(role, 2)))
		utok, _ := jwt.NewUserClaims(pubOf(kpN('U', 1))).Encode(kpN('A', 1))
		full, _ := jwt.FormatUserConfig(utok, seedOf(kpN('U', 1)))
		fullSwapped := strings.Replace(string(full), string(seedOf(kpN('U', 1))), seed, 1)
		indent := func(text, pre string) string {
			ls := strings.Split(text, "\n")
			for i := range ls {
				if ls[i] != "" {
					ls[i] = pre + ls[i]
				}
			}
			return strings.Join(ls, "\n")
		}
		var renderings []string
		for _, base := range []string{string(d), fullSwapped, seed + "\n"} {
			for _, pre := range []string{"  ", "\t", "    ", " \t "} {
				r := indent(base, pre)
				renderings = append(renderings, r, strings.ReplaceAll(r, "\n", "\r\n"), "\n\n"+r)
			}
		}
		for _, r := range renderings {
			var kp2 nkeys.KeyPair
			var e3 error
			if p := safeCreds(func() { kp2, e3 = jwt.ParseDecoratedUserNKey([]byte(r)) }); p != "" {
				c.Violate("panic", "ParseDecoratedUserNKey panicked: "+p, c15Replay{"seed", r, "", ""})
				continue
			}
			c.Count("user-only-rendering")
			if e3 == nil && kp2 != nil {
				sd, _ := kp2.Seed()
				if role != 'U' || !strings.HasPrefix(string(sd), "SU") {
					c.Violate("user-only", fmt.Sprintf("ParseDecoratedUserNKey accepted a %c seed in an indented rendering (seed prefix %.2s)", role, sd), c15Replay{"seed", r, "", ""})
				}
			}
		}
	}
	for _, s := range []string{"", "S", " ", "SX", "XU", "  SUAAA  ", "é", "SUé"} {
		var d []byte
		var err error
		if p := safeCreds(func() { d, err = jwt.DecorateSeed([]byte(s)) }); p != "" {
			c.Violate("panic", "DecorateSeed panicked on "+fmt.Sprintf("%q", s), c15Replay{"seed", s, "", ""})
			continue
		}
		impl := "err"
		if err == nil {
			impl = "ok " + hx(string(d))
		}
		c.Op(impl, true, "decorateseed", hx(s))
	}
	// ---- adversarial text: the model's matcher vs Go's regexp
	pieces := []string{"---", "-----", "------", "-----BEGIN X-----", "------END X------", "--- ---", "---a", "a---", "tok.en-_=", "SUABC", "", " ", "\t", "x y", "***", "---\r", "ab\r", "-", "--", "a-b", "-------a-------", "SA", " SOX", "é---", "------é"}
	eols := []string{"\n", "\r\n", "\n", "", "\r", "\n\n"}
	for n := 0; n < c.N(4000, 400000); n++ {
		var bb bytes.Buffer
		for k := c.R.Intn(8); k > 0; k-- {
			if c.R.Intn(6) == 0 {
				bb.WriteString(pieces[c.R.Intn(len(pieces))])
			}
			bb.WriteString(pieces[c.R.Intn(len(pieces))])
			bb.WriteString(eols[c.R.Intn(len(eols))])
		}
		textOps(c, bb.String(), true)
	}
	c.Count("adversarial-texts")
}

func replayC15(c *Ctx, raw json.RawMessage) {
	var rp c15Replay
	must(json.Unmarshal(raw, &rp))
	if rp.Text != "" {
		textOps(c, rp.Text, true)
	}
	runC15(c)
}
