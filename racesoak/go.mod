module verif/racesoak

go 1.18

require github.com/nats-io/jwt/v2 v2.0.0-00010101000000-000000000000

require github.com/nats-io/nkeys v0.4.7

require (
	golang.org/x/crypto v0.19.0 // indirect
	golang.org/x/sys v0.17.0 // indirect
)

replace github.com/nats-io/jwt/v2 => /repo/v2
