// racesoak: built with -race. N goroutines each run a deterministic script of library operations on their OWN
// claims objects (decoded from the SAME token text), plus read-only queries on SHARED claims objects. The
// per-goroutine result transcripts are compared with a sequential run of the same scripts. A race report
// (stderr, exit code 66) or a transcript difference is a violation of C17.
package main

import (
	"encoding/json"
	"flag"
	"fmt"
	"os"
	"runtime"
	"strings"
	"sync"
	"time"

	jwt "github.com/nats-io/jwt/v2"
	"github.com/nats-io/nkeys"
)

type fixtures struct {
	okp, akp, ukp                           nkeys.KeyPair
	opTok, acctTok, userTok, actTok, genTok string
	creds                                   []byte
	sharedAcct                              *jwt.AccountClaims
	sharedOp                                *jwt.OperatorClaims
	sharedUser                              *jwt.UserClaims
	sharedAct                               *jwt.ActivationClaims
}

func must(err error) {
	if err != nil {
		panic(err)
	}
}

func mk() *fixtures {
	f := &fixtures{}
	var err error
	f.okp, err = nkeys.CreateOperator()
	must(err)
	f.akp, _ = nkeys.CreateAccount()
	f.ukp, _ = nkeys.CreateUser()
	opk, _ := f.okp.PublicKey()
	apk, _ := f.akp.PublicKey()
	upk, _ := f.ukp.PublicKey()
	oc := jwt.NewOperatorClaims(opk)
	oc.SigningKeys.Add(opk)
	f.opTok, err = oc.Encode(f.okp)
	must(err)
	ac := jwt.NewAccountClaims(apk)
	ac.Exports.Add(&jwt.Export{Subject: "foo.>", Type: jwt.Stream}, &jwt.Export{Subject: "bar.*", Type: jwt.Service})
	ac.SigningKeys.Add(apk)
	us := jwt.NewUserScope()
	us.Key = apk
	ac.SigningKeys.AddScopedSigner(us)
	ac.RevokeAt(upk, time.Unix(100, 0))
	ac.RevokeAt("*", time.Unix(50, 0))
	ac.Mappings["m"] = []jwt.WeightedMapping{{Subject: "n", Weight: 40}}
	ac.Trace = &jwt.MsgTrace{Destination: "trace.dest"}
	ac.Tags = append(ac.Tags, "Region-EU", "tier1")
	f.acctTok, err = ac.Encode(f.okp)
	must(err)
	uc := jwt.NewUserClaims(upk)
	uc.Pub.Allow.Add("a.>", "b")
	uc.Tags.Add("T1")
	// entries as a token written by other tooling (or direct assignment) can carry them: not in the lists' normal form
	uc.Tags = append(uc.Tags, "Production", " Mixed Case ")
	uc.Src = jwt.CIDRList{"10.0.0.0/8", "FE80::/10"}
	f.userTok, err = uc.Encode(f.akp)
	must(err)
	at := jwt.NewActivationClaims(apk)
	at.ImportSubject, at.ImportType = "foo.bar", jwt.Stream
	f.actTok, err = at.Encode(f.akp)
	must(err)
	gc := jwt.NewGenericClaims(upk)
	gc.Data["k"] = map[string]interface{}{"a": 1.0, "b": "x"}
	f.genTok, err = gc.Encode(f.akp)
	must(err)
	seed, _ := f.ukp.Seed()
	f.creds, err = jwt.FormatUserConfig(f.userTok, seed)
	must(err)
	f.sharedAcct, err = jwt.DecodeAccountClaims(f.acctTok)
	if err == nil {
		// as an account built in memory (or read from a token another encoder wrote) holds them: exports and imports in
		// insertion order, not in subject order - queries and printing must not reorder what goroutines share
		f.sharedAcct.Exports = jwt.Exports{
			&jwt.Export{Subject: "orders.>", Type: jwt.Stream}, &jwt.Export{Subject: "foo.>", Type: jwt.Stream},
			&jwt.Export{Subject: "bar.*", Type: jwt.Service}, &jwt.Export{Subject: "alpha.req", Type: jwt.Service}}
		f.sharedAcct.Imports = jwt.Imports{
			&jwt.Import{Subject: "z.events", Account: apk, Type: jwt.Stream}, &jwt.Import{Subject: "m.events", Account: apk, Type: jwt.Stream},
			&jwt.Import{Subject: "a.events", Account: apk, Type: jwt.Stream}}
	}
	must(err)
	f.sharedOp, _ = jwt.DecodeOperatorClaims(f.opTok)
	f.sharedUser, _ = jwt.DecodeUserClaims(f.userTok)
	f.sharedAct, _ = jwt.DecodeActivationClaims(f.actTok)
	return f
}

var zones = []string{"UTC", "Europe/Berlin", "Europe/London", "Europe/Paris", "Europe/Madrid", "Europe/Rome", "Europe/Vienna", "Europe/Zurich", "Europe/Oslo", "Europe/Stockholm",
	"Europe/Helsinki", "Europe/Warsaw", "Europe/Prague", "Europe/Athens", "Europe/Lisbon", "Europe/Dublin", "Europe/Amsterdam", "Europe/Brussels", "Europe/Budapest", "Europe/Kyiv",
	"America/New_York", "America/Chicago", "America/Denver", "America/Los_Angeles", "America/Anchorage", "America/Toronto", "America/Vancouver", "America/Mexico_City", "America/Sao_Paulo", "America/Bogota",
	"America/Lima", "America/Santiago", "America/Caracas", "America/Halifax", "America/Phoenix", "Asia/Tokyo", "Asia/Seoul", "Asia/Shanghai", "Asia/Hong_Kong", "Asia/Singapore",
	"Asia/Kolkata", "Asia/Dubai", "Asia/Karachi", "Asia/Dhaka", "Asia/Bangkok", "Asia/Jakarta", "Asia/Manila", "Asia/Tehran", "Asia/Jerusalem", "Asia/Riyadh",
	"Australia/Sydney", "Australia/Melbourne", "Australia/Perth", "Australia/Brisbane", "Pacific/Auckland", "Pacific/Honolulu", "Pacific/Fiji", "Africa/Cairo", "Africa/Lagos", "Africa/Nairobi",
	"Africa/Johannesburg", "Africa/Casablanca", "Atlantic/Reykjavik", "Indian/Maldives"}

func stamp(s string) string { // drop what legitimately depends on the clock
	return s
}

// script: the operations goroutine g performs in round r; returns a transcript that must not depend on scheduling
func script(f *fixtures, g, r int) []string {
	var out []string
	add := func(format string, a ...interface{}) { out = append(out, fmt.Sprintf(format, a...)) }
	switch (g + r) % 9 {
	case 0: // own account object decoded from the shared token text: validate (writes Trace.Sampling), mutate, encode
		ac, err := jwt.DecodeAccountClaims(f.acctTok)
		must(err)
		vr := jwt.CreateValidationResults()
		ac.Validate(vr)
		add("acct blocking=%v issues=%d sampling=%d", vr.IsBlocking(true), len(vr.Issues), ac.Trace.Sampling)
		ac.RevokeAt(fmt.Sprintf("U%d", g), time.Unix(int64(r), 0))
		ac.Tags.Add(fmt.Sprintf("g%d", g))
		ac.SigningKeys.Add(fmt.Sprintf("K%d", g))
		ac.AddMapping(jwt.Subject(fmt.Sprintf("map%d", r)), jwt.WeightedMapping{Subject: "x"})
		tok, err := ac.Encode(f.okp)
		must(err)
		back, err := jwt.DecodeAccountClaims(tok)
		must(err)
		add("acct re-decoded keys=%d revs=%d maps=%d tags=%v", len(back.SigningKeys), len(back.Revocations), len(back.Mappings), back.Tags)
		add("compact=%d", len(ac.Revocations.MaybeCompact()))
	case 1: // generic decode + string
		c, err := jwt.Decode(f.userTok)
		must(err)
		add("user type=%s len=%d", c.ClaimType(), len(c.String()))
		g2, err := jwt.DecodeGeneric(f.genTok)
		must(err)
		add("generic type=%q data=%d", g2.ClaimType(), len(g2.Data))
		vr := jwt.CreateValidationResults()
		c.Validate(vr)
		add("user blocking=%v", vr.IsBlocking(true))
	case 2: // credentials helpers (the package-level regular expression)
		tok, err := jwt.ParseDecoratedJWT(f.creds)
		must(err)
		kp, err := jwt.ParseDecoratedUserNKey(f.creds)
		must(err)
		pk, _ := kp.PublicKey()
		add("creds tok=%d pk=%s", len(tok), pk[:4])
		d, err := jwt.DecorateJWT(f.actTok)
		must(err)
		add("decorated=%d", len(d))
	case 3: // read-only queries on the SHARED objects
		add("didsign op->acct=%v acct->user=%v acct->act=%v", f.sharedOp.DidSign(f.sharedAcct), f.sharedAcct.DidSign(f.sharedUser), f.sharedAcct.DidSign(f.sharedAct))
		add("revoked=%v %v", f.sharedAcct.IsClaimRevoked(f.sharedUser), f.sharedAcct.Revocations.IsRevoked("zzz", time.Unix(60, 0)))
		add("export=%v %v", f.sharedAcct.Exports.HasExportContainingSubject("foo.x"), f.sharedAcct.Exports.HasExportContainingSubject("nope"))
		// the order in which the shared object holds its lists is part of what a reader sees: no query may change it
		{
			var es, is []string
			for _, e := range f.sharedAcct.Exports {
				es = append(es, string(e.Subject))
			}
			for _, i := range f.sharedAcct.Imports {
				is = append(is, string(i.Subject))
			}
			add("order exports=%v imports=%v", es, is)
		}
		h, _ := f.sharedAct.HashID()
		add("hash=%s type=%s prefixes=%v", h[:6], f.sharedAcct.ClaimType(), f.sharedUser.ExpectedPrefixes())
		add("str=%d %d tags=%v keys=%d", len(f.sharedAcct.String()), len(f.sharedUser.String()), f.sharedUser.GetTags(), len(f.sharedAcct.SigningKeys.Keys()))
		sc, ok := f.sharedAcct.SigningKeys.GetScope(f.sharedAcct.Subject)
		add("scope=%v %v contains=%v empty=%v", sc != nil, ok, f.sharedUser.Pub.Allow.Contains("b"), f.sharedUser.HasEmptyPermissions())
		ut, at := f.sharedUser.GetTags(), f.sharedAcct.GetTags()
		add("tags=%v %v %v src=%v %v acct=%v %v", f.sharedUser.Tags.Contains("production"), f.sharedUser.Tags.Contains("nope"), ut.Contains("t1"),
			f.sharedUser.Src.Contains("fe80::/10"), f.sharedUser.Src.Contains("1.1.1.1/32"), f.sharedAcct.Tags.Contains("region-eu"), at.Contains("TIER1"))
		add("usertext=%d tags=%q", len(f.sharedUser.String()), []string(f.sharedUser.Tags))
	case 4: // fresh objects
		u := jwt.NewUserClaims(f.sharedUser.Subject)
		u.Name = fmt.Sprintf("n%d-%d", g, r)
		u.Limits.Src.Add("10.0.0.0/8")
		tok, err := u.Encode(f.akp)
		must(err)
		b, err := jwt.DecodeUserClaims(tok)
		must(err)
		add("fresh user name=%s src=%v", b.Name, b.Src)
		t2, err := jwt.IssueUserJWT(f.akp, f.sharedAcct.Subject, f.sharedUser.Subject, "x", 0)
		must(err)
		b2, _ := jwt.DecodeUserClaims(t2)
		add("issued name=%s empty=%v", b2.Name, b2.HasEmptyPermissions())
		// a fresh account writes a tier into the map its constructor handed out: that map is this account's alone
		fa := jwt.NewAccountClaims(f.sharedAcct.Subject)
		fa.Limits.JetStreamTieredLimits[fmt.Sprintf("R%d-%d", g, r)] = jwt.JetStreamLimits{MemoryStorage: int64(g + 1), Streams: int64(r + 1)}
		ftok, err := fa.Encode(f.okp)
		must(err)
		fb, err := jwt.DecodeAccountClaims(ftok)
		must(err)
		add("fresh acct tiers=%d decoded tiers=%d", len(fa.Limits.JetStreamTieredLimits), len(fb.Limits.JetStreamTieredLimits))
	case 5: // user claims with a time zone, time ranges and source networks nobody has used before in this process:
		// lazily initialised or memoised shared state (zone tables, caches) is touched for the first time concurrently
		u := jwt.NewUserClaims(f.sharedUser.Subject)
		u.Locale = zones[(g*131+r*17)%len(zones)]
		u.Times = append(u.Times, jwt.TimeRange{Start: fmt.Sprintf("%02d:00:00", (g+r)%24), End: fmt.Sprintf("%02d:30:00", (g+r)%24)})
		u.Src.Add(fmt.Sprintf("10.%d.%d.0/24", g%250, r%250))
		u.Pub.Allow.Add(fmt.Sprintf("s%d.%d.>", g, r))
		vr := jwt.CreateValidationResults()
		u.Validate(vr)
		add("zone user blocking=%v issues=%d", vr.IsBlocking(true), len(vr.Issues))
		tok, err := u.Encode(f.akp)
		must(err)
		b, err := jwt.DecodeUserClaims(tok)
		must(err)
		vr2 := jwt.CreateValidationResults()
		b.Validate(vr2)
		add("zone user back locale=%s issues=%d", b.Locale, len(vr2.Issues))
		bad := jwt.NewUserClaims(f.sharedUser.Subject)
		bad.Locale = fmt.Sprintf("No/Such_%d_%d", g, r)
		vr3 := jwt.CreateValidationResults()
		bad.Validate(vr3)
		add("bad zone blocking=%v", vr3.IsBlocking(true))
	case 6: // an account importing with an embedded activation token nobody has validated before: token decoding
		// inside validation (and anything memoised around it) runs for the first time concurrently
		at := jwt.NewActivationClaims(f.sharedAcct.Subject)
		at.ImportSubject = jwt.Subject(fmt.Sprintf("svc.%d.%d", g, r))
		at.ImportType = jwt.Service
		at.Name = fmt.Sprintf("act-%d-%d", g, r)
		tok, err := at.Encode(f.akp)
		must(err)
		apk, _ := f.akp.PublicKey()
		ac := jwt.NewAccountClaims(f.sharedAcct.Subject)
		ac.Imports.Add(&jwt.Import{Name: "i", Subject: jwt.Subject(fmt.Sprintf("svc.%d.%d", g, r)), Account: apk, Token: tok, Type: jwt.Service},
			&jwt.Import{Name: "j", Subject: "other.>", Account: apk, Type: jwt.Stream, LocalSubject: "loc.>"})
		ac.Exports.Add(&jwt.Export{Subject: jwt.Subject(fmt.Sprintf("e%d.%d.*", g, r)), Type: jwt.Stream, TokenReq: true})
		vr := jwt.CreateValidationResults()
		ac.Validate(vr)
		add("import acct blocking=%v issues=%d", vr.IsBlocking(false), len(vr.Issues))
		t2, err := ac.Encode(f.okp)
		must(err)
		b, err := jwt.DecodeAccountClaims(t2)
		must(err)
		vr2 := jwt.CreateValidationResults()
		b.Validate(vr2)
		add("import acct back imports=%d issues=%d", len(b.Imports), len(vr2.Issues))
	case 7: // an operator whose version, URLs and account info nobody has parsed before in this process: parsers and
		// anything memoised around them (version strings, URLs) run for the first time concurrently
		opk, _ := f.okp.PublicKey()
		o := jwt.NewOperatorClaims(opk)
		o.AssertServerVersion = fmt.Sprintf("%d.%d.%d", 1+g%9, r%97, (g*7+r)%13)
		o.AccountServerURL = fmt.Sprintf("https://acct%d-%d.example.com/jwt/v1", g, r)
		o.OperatorServiceURLs.Add(fmt.Sprintf("nats://h%d-%d.example.com:4222", g, r), fmt.Sprintf("tls://t%d.example.com:%d", g, 4000+r%1000))
		o.SystemAccount = f.sharedAcct.Subject
		vr := jwt.CreateValidationResults()
		o.Validate(vr)
		add("op version=%s blocking=%v issues=%d", o.AssertServerVersion, vr.IsBlocking(true), len(vr.Issues))
		tok, err := o.Encode(f.okp)
		must(err)
		b, err := jwt.DecodeOperatorClaims(tok)
		must(err)
		vr2 := jwt.CreateValidationResults()
		b.Validate(vr2)
		add("op back version=%s urls=%d issues=%d", b.AssertServerVersion, len(b.OperatorServiceURLs), len(vr2.Issues))
		bad := jwt.NewOperatorClaims(opk)
		bad.AssertServerVersion = fmt.Sprintf("%d.x%d", g, r)
		bad.AccountServerURL = fmt.Sprintf("://bad-%d-%d", g, r)
		vr3 := jwt.CreateValidationResults()
		bad.Validate(vr3)
		add("bad op blocking=%v", vr3.IsBlocking(true))
		ac := jwt.NewAccountClaims(f.sharedAcct.Subject)
		ac.Info.Description = fmt.Sprintf("d%d-%d", g, r)
		ac.Info.InfoURL = fmt.Sprintf("https://info%d-%d.example.com/x", g, r)
		ac.Mappings = jwt.Mapping{}
		ac.AddMapping(jwt.Subject(fmt.Sprintf("m%d.%d", g, r)), jwt.WeightedMapping{Subject: jwt.Subject(fmt.Sprintf("t%d.%d", g, r)), Weight: 50})
		vr4 := jwt.CreateValidationResults()
		ac.Validate(vr4)
		add("info acct blocking=%v issues=%d", vr4.IsBlocking(true), len(vr4.Issues))
	default: // activation + operator
		a, err := jwt.DecodeActivationClaims(f.actTok)
		must(err)
		vr := jwt.CreateValidationResults()
		a.Validate(vr)
		h, _ := a.HashID()
		add("act blocking=%v hash=%s", vr.IsBlocking(true), h[:6])
		o, err := jwt.DecodeOperatorClaims(f.opTok)
		must(err)
		o.SigningKeys.Add(fmt.Sprintf("OK%d", g))
		add("op keys=%d didsign=%v", len(o.SigningKeys), o.DidSign(f.sharedAcct))
	}
	return out
}

func main() {
	n := flag.Int("goroutines", 8, "")
	rounds := flag.Int("rounds", 50, "")
	procs := flag.Int("procs", 4, "")
	flag.Parse()
	runtime.GOMAXPROCS(*procs)
	f := mk()
	got := make([][]string, *n)
	var wg sync.WaitGroup
	for g := 0; g < *n; g++ {
		wg.Add(1)
		go func(g int) {
			defer wg.Done()
			for r := 0; r < *rounds; r++ {
				got[g] = append(got[g], script(f, g, r)...)
			}
		}(g)
	}
	wg.Wait()
	// sequential reference AFTER the concurrent phase: run first it would warm up every lazily initialised
	// piece of shared state and hide first-use races
	ref := make([][]string, *n)
	for g := 0; g < *n; g++ {
		for r := 0; r < *rounds; r++ {
			ref[g] = append(ref[g], script(f, g, r)...)
		}
	}
	mism := 0
	var first string
	for g := range ref {
		if strings.Join(ref[g], "\n") != strings.Join(got[g], "\n") {
			mism++
			if first == "" {
				for i := range ref[g] {
					if i < len(got[g]) && ref[g][i] != got[g][i] {
						first = fmt.Sprintf("goroutine %d: sequential %q, concurrent %q", g, ref[g][i], got[g][i])
						break
					}
				}
			}
		}
	}
	b, _ := json.Marshal(map[string]interface{}{"goroutines": *n, "rounds": *rounds, "procs": *procs, "operations": *n * *rounds, "mismatches": mism, "first_mismatch": first})
	fmt.Println(string(b))
	if mism > 0 {
		os.Exit(3)
	}
}
