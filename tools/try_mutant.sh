#!/bin/bash
# usage: try_mutant.sh <worktree> <seed-id> <property> [more properties to run...]
# 1. confirms in the scratch worktree: suite passes with the change, demo fails with it and passes without;
# 2. applies the patch to /repo, runs the named checks, undoes it; 3. stores everything under /verif/seeded/<seed-id>/
set -u
export GOFLAGS=-mod=mod GOPROXY=off GOSUMDB=off GOTOOLCHAIN=local
WT=$1; ID=$2; shift 2; PROPS="$@"
M=$WT/MUTANT
[ -f $M/patch.diff ] || { echo "no patch"; exit 2; }
demo_dir=v2; head -12 $M/NOTES.md | grep -qiE "v1compat/zz_mutant_demo_test.go|belongs in .?v2/v1compat|goes in .?v2/v1compat" && demo_dir=v2/v1compat
cd $WT && git checkout -q -- . 2>/dev/null; rm -f v2/zz_mutant_demo_test.go v2/v1compat/zz_mutant_demo_test.go
git apply $M/patch.diff || { echo "patch does not apply"; exit 2; }
suite=$(cd v2 && go test -count=1 ./... 2>&1 | tail -5)
echo "--- suite with change:"; echo "$suite"
cp $M/demo_test.go $demo_dir/zz_mutant_demo_test.go
PAT=$(grep -o '^func Test[A-Za-z0-9_]*' $M/demo_test.go | sed 's/func //' | paste -sd'|')
with=$(cd $demo_dir && go test -count=1 -run "^($PAT)\$" . 2>&1 | tail -3)
echo "--- demo with change:"; echo "$with"
git apply -R $M/patch.diff
without=$(cd $demo_dir && go test -count=1 -run "^($PAT)\$" . 2>&1 | tail -3)
echo "--- demo without change:"; echo "$without"
rm -f $demo_dir/zz_mutant_demo_test.go
# run the checks against the change
git -C /repo apply $M/patch.diff || { echo "patch does not apply to /repo"; exit 2; }
mkdir -p /verif/seeded/$ID
rm -rf /verif/.work/evidence.keep; mkdir -p /verif/.work; cp -r /verif/evidence /verif/.work/evidence.keep
: > /verif/seeded/$ID/check_output.txt
for p in $PROPS; do
  (cd /verif && ./check $p --tier quick 2>&1 | grep -v "^KNOWN-FINDING" | tail -4) | tee -a /verif/seeded/$ID/check_output.txt
done
git -C /repo checkout -- .
rm -rf /verif/evidence; mv /verif/.work/evidence.keep /verif/evidence
git -C /repo status --short | head -3
cp $M/patch.diff $M/demo_test.go /verif/seeded/$ID/ 2>/dev/null; cp $M/NOTES.md /verif/seeded/$ID/NOTES.agent.md 2>/dev/null
echo "$suite" > /verif/seeded/$ID/suite_with_change.txt; echo "$with" > /verif/seeded/$ID/demo_with_change.txt; echo "$without" > /verif/seeded/$ID/demo_without_change.txt
