#!/bin/bash
# usage: with_mutant.sh <seeded-id> <check args...> : apply seeded/<id>/patch.diff to /repo, run ./check, undo
set -u
ID=$1; shift
git -C /repo apply /verif/seeded/$ID/patch.diff || { echo "patch does not apply"; exit 2; }
(cd /verif && ./check "$@" 2>&1 | grep -v "^KNOWN-FINDING" | tail -5)
git -C /repo checkout -- .
git -C /repo status --short | head -3
