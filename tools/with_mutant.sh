#!/bin/bash
# usage: with_mutant.sh <seeded-id> <check args...> : apply seeded/<id>/patch.diff to /repo, run ./check, undo
set -u
ID=$1; shift
git -C /repo apply /verif/seeded/$ID/patch.diff || { echo "patch does not apply"; exit 2; }
# evidence written while a seeded change is applied must never replace the evidence of the unchanged tree
rm -rf /verif/.work/evidence.keep; mkdir -p /verif/.work; cp -r /verif/evidence /verif/.work/evidence.keep
(cd /verif && ./check "$@" 2>&1 | grep -v "^KNOWN-FINDING" | tail -5)
git -C /repo checkout -- .
rm -rf /verif/evidence; mv /verif/.work/evidence.keep /verif/evidence
git -C /repo status --short | head -3
