#!/usr/bin/env python3
"""Regenerates /verif/MANIFEST.json from registry.json (+ properties.jsonl for the id list)."""
import json
R='/verif/'
props=[json.loads(l) for l in open(R+'properties.jsonl')]
reg=json.load(open(R+'registry.json'))
claimed=[p['id'] for p in props if p['id'] in reg and reg[p['id']].get('claimed',True)]
man={
 "version":1,
 "setup_cmd":"./check --setup",
 "hooks":{"guard":"verif","enable":"go build -tags verif (no hook is needed: every observation is made at the public API; the harness is its own Go module with `replace github.com/nats-io/jwt/v2 => /repo/v2`)","baseline_off_cmd":"/verif/tools/baseline.sh","source_commits":[],"add_only":True},
 "engines":[
  {"name":"lean-model","path":"lean/","serves_properties":claimed,"kind_free_text":"Lean 4 model (JwtModel), lemmas (JwtProofs), property theorems (Props), core-only compiled driver jwtdriver"},
  {"name":"go-extract","path":"extract/","serves_properties":[i for i in claimed if reg[i].get('uses_gen')],"kind_free_text":"go/ast+go/types fact extractor regenerating lean/JwtModel/Gen/*.lean from /repo's working tree on every run"},
  {"name":"go-harness","path":"harness/","serves_properties":claimed,"kind_free_text":"in-process differential correspondence (model vs implementation) + independent property oracles on the real code; failing-input search"}
 ],
 "checks":[],
 "notes":"See DESIGN.md. Every claimed property is decided by Lean 4 theorems about a model that is tied to /repo's current source on every run by regenerated tables and differential correspondence; property oracles on the real code turn a broken proof/correspondence into a concrete replay.",
 "not_applicable":[]
}
for p in props:
    i=p['id']
    if i in claimed:
        r=reg[i]
        man['checks'].append({
          "property_id":i,
          "quick_cmd":f"./check {i} --tier quick",
          "thorough_cmd":f"./check {i} --tier thorough",
          "evidence_file":f"evidence/{i}.json",
          "replay_cmd_template":f"./check {i} --replay {{path}}",
          "engine":"lean-model",
          "level_claimed":{"category":"proof","text":r.get('level_text',"Lean 4 theorems (no sorry; axioms within propext/Classical.choice/Quot.sound) about an executable model, tied to /repo's current source by differential correspondence and an independent property oracle on the real code"),"design_ref":r.get('design_ref','5')},
          "level_note":r.get('level_note',"trusted: Lean kernel; Go harness, canonicaliser and oracle; standard-library behaviour that is modelled rather than verified (listed in the evidence file's trusted_base)"),
          "technique":r.get('technique',"Lean 4 machine-checked proof over a hand-written model + differential correspondence with the Go implementation")
        })
    else:
        man['not_applicable'].append({"property_id":i,"reason":reg.get(i,{}).get('na_reason',"check not built yet (work in progress; DESIGN.md section 8.3)")})
json.dump(man,open(R+'MANIFEST.json','w'),indent=1)
print("claimed:",claimed)
