#!/bin/bash
# Runs the repository's pinned test suite with the verif guard OFF and prints pass/fail counts.
export GOFLAGS=-mod=mod GOPROXY=off GOSUMDB=off GOTOOLCHAIN=local
cd /repo/v2 || exit 2
out=$(go test -mod=mod -json -vet=off -count=1 -timeout 25m ./... 2>&1)
pass=$(printf '%s\n' "$out" | grep -c '"Action":"pass","Package":"[^"]*","Test"')
fail=$(printf '%s\n' "$out" | grep -c '"Action":"fail","Package":"[^"]*","Test"')
echo "tests passed=$pass failed=$fail"
if [ "$fail" != 0 ] || [ "$pass" -lt 325 ]; then printf '%s\n' "$out" | grep '"Action":"fail"' | head -20; exit 1; fi
