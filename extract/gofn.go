// gofn.go: a small Go -> Lean translator for a whitelisted set of functions of nats-io/jwt (G9).
//
// Each whitelisted function is translated statement by statement into a Lean definition in the `Option` monad
// (`none` = a Go run-time panic) written in the vocabulary of lean/JwtModel/GoRt.lean. Loop bodies become separate
// definitions so that lemmas can name them. Anything outside the supported subset makes the function "unsupported":
// no definition is emitted, the tie theorem that mentions it stops compiling, and the check falls back to a search.
//
//	-> Gen/Fn.lean
package main

import (
	"fmt"
	"go/ast"
	"go/constant"
	"go/token"
	"go/types"
	"reflect"
	"sort"
	"strconv"
	"strings"

	"golang.org/x/tools/go/packages"
)

// whitelist: function keys (Recv.Name or Name) per package short name
var fnWhitelist = map[string][]string{
	"V2": {
		"RenamingSubject.ToSubject", "ValidationResults.Add", "ValidationResults.AddError", "ValidationResults.AddTimeCheck", "ValidationResults.AddWarning",
		"ValidationResults.IsBlocking", "ValidationResults.IsEmpty",
		"Subject.Validate", "Subject.countTokenWildcards", "Subject.HasWildCards", "Subject.IsContainedIn",
		"StringList.Contains", "StringList.Add", "StringList.Remove",
		"TagList.Contains", "TagList.Add", "TagList.Remove",
		"CIDRList.Contains", "CIDRList.Add", "CIDRList.Remove", "CIDRList.Set",
		"RevocationList.Revoke", "RevocationList.MaybeCompact", "RevocationList.ClearRevocation", "RevocationList.allRevoked", "RevocationList.IsRevoked",
		"Header.Valid", "cleanSubject", "ClaimsData.Validate", "ClaimsData.IsSelfSigned",
		"checkPermission", "Permission.Validate", "Permission.Empty",
		"identifier.Kind", "identifier.Version",
		"AccountClaims.isRevoked", "AccountClaims.IsClaimRevoked", "AccountClaims.RevokeAt", "AccountClaims.Revoke", "AccountClaims.ClearRevocation",
		"Export.isRevoked", "Export.IsClaimRevoked", "Export.RevokeAt", "Export.Revoke", "Export.ClearRevocation",
		"NatsLimits.IsUnlimited", "JetStreamLimits.IsUnlimited", "UserLimits.IsUnlimited", "Limits.IsUnlimited",
		"WeightedMapping.GetWeight",
		"OperatorClaims.Claims", "AccountClaims.Claims", "UserClaims.Claims", "ActivationClaims.Claims", "AuthorizationRequestClaims.Claims",
		"AuthorizationResponseClaims.Claims", "GenericClaims.Claims",
		"SigningKeys.Contains", "OperatorClaims.DidSign", "AccountClaims.DidSign",
		"RenamingSubject.Validate",
		"Activation.IsService", "Activation.IsStream", "Activation.Validate", "ActivationClaims.validateWithTimeChecks", "ActivationClaims.Validate",
		"Import.IsService", "Import.IsStream", "Import.GetTo", "Import.Validate", "Imports.Validate",
		"ServiceLatency.Validate", "Export.IsService", "Export.IsStream", "Export.IsSingleResponse", "Export.IsChunkedResponse", "Export.IsStreamResponse",
		"Info.Validate", "Export.Validate", "isContainedIn", "Exports.Validate", "Exports.HasExportContainingSubject", "Mapping.Validate",
		"CreateValidationResults", "ResponsePermission.Validate", "Permissions.Validate",
		"OperatorLimits.IsEmpty", "OperatorLimits.Validate", "ExternalAuthorization.Validate",
		"UserScope.Validate", "SigningKeys.Validate", "Account.Validate", "AccountClaims.Validate", "GenericClaims.Validate", "AuthorizationRequestClaims.Validate", "AuthorizationResponseClaims.Validate", "TimeRange.Validate", "Limits.Validate", "User.Validate", "UserClaims.Validate", "ParseServerVersion", "Operator.validateAccountServerURL", "ValidateOperatorServiceURL", "Operator.validateOperatorServiceURLs", "Operator.Validate", "OperatorClaims.Validate", "OperatorClaims.ExpectedPrefixes", "AccountClaims.ExpectedPrefixes", "UserClaims.ExpectedPrefixes", "ActivationClaims.ExpectedPrefixes", "AuthorizationRequestClaims.ExpectedPrefixes", "AuthorizationResponseClaims.ExpectedPrefixes", "GenericClaims.ExpectedPrefixes", "v1OperatorClaims.migrateV1", "v1UserClaims.migrateV1", "v1ActivationClaims.migrateV1", "SigningKeys.Add", "v1AccountClaims.migrateV1", "v1OperatorClaims.Migrate", "v1UserClaims.Migrate", "v1ActivationClaims.Migrate", "v1AccountClaims.Migrate", "loadOperator", "loadAccount", "loadUser", "loadActivation", "loadAuthorizationRequest", "loadAuthorizationResponse", "loadClaims", "ClaimsData.verify", "parseHeaders", "Decode", "UserClaims.Encode", "ActivationClaims.Encode", "OperatorClaims.Encode", "AccountClaims.Encode", "GenericClaims.Encode", "AuthorizationRequestClaims.Encode", "AuthorizationResponseClaims.Encode", "OperatorClaims.updateVersion", "AccountClaims.updateVersion", "UserClaims.updateVersion", "ActivationClaims.updateVersion", "AuthorizationRequestClaims.updateVersion", "AuthorizationResponseClaims.updateVersion", "DecodeActivationClaims", "DecodeOperatorClaims", "DecodeAccountClaims", "DecodeUserClaims", "DecodeAuthorizationRequestClaims", "DecodeAuthorizationResponseClaims", "UserScope.ValidateScopedSigner", "NewUserClaims", "UserClaims.SetScoped", "UserScope.SigningKey", "SigningKeys.AddScopedSigner", "SigningKeys.GetScope", "SigningKeys.Remove", "SigningKeys.Keys", "DecodeGeneric", "IssueUserJWT", "Exports.Len", "Exports.Less", "Imports.Len", "Imports.Less", "ActivationClaims.HashID", "ClaimsData.hash", "ParseDecoratedUserNKey", "AccountClaims.ClaimType", "ActivationClaims.ClaimType", "AuthorizationRequestClaims.ClaimType", "AuthorizationResponseClaims.ClaimType", "IsGenericClaimType", "OperatorClaims.ClaimType", "UserClaims.ClaimType", "NewAccountClaims", "NewActivationClaims", "NewAuthorizationRequestClaims", "NewAuthorizationResponseClaims", "NewGenericClaims", "NewOperatorClaims", "NewUserScope", "ExternalAuthorization.IsEnabled", "Account.HasExternalAuthorization", "Account.EnableExternalAuthorization", "OperatorLimits.IsJSEnabled", "AccountLimits.IsUnlimited", "OperatorLimits.IsUnlimited", "UserClaims.IsBearerToken", "AccountClaims.GetTags", "OperatorClaims.GetTags", "UserClaims.GetTags", "ValidationResults.Errors", "ValidationResults.Warnings", "ExportType.String", "ScopeType.String", "Exports.Add", "Imports.Add", "Account.AddMapping", "ValidationIssue.Error",
	},
	"V1": {
		"Subject.HasWildCards", "Subject.IsContainedIn", "cleanSubject",
		"StringList.Contains", "StringList.Add", "StringList.Remove",
		"TagList.Contains", "TagList.Add", "TagList.Remove",
		"Header.Valid",
		"OperatorClaims.Claims", "AccountClaims.Claims", "UserClaims.Claims", "ActivationClaims.Claims", "ClusterClaims.Claims", "ServerClaims.Claims", "GenericClaims.Claims",
		"OperatorClaims.ExpectedPrefixes", "AccountClaims.ExpectedPrefixes", "UserClaims.ExpectedPrefixes", "ActivationClaims.ExpectedPrefixes", "ClusterClaims.ExpectedPrefixes", "ServerClaims.ExpectedPrefixes", "GenericClaims.ExpectedPrefixes",
		"ClaimsData.Verify", "parseHeaders", "Decode",
		"Operator.validateAccountServerURL", "ActivationClaims.HashID", "UserClaims.Encode", "ActivationClaims.Encode", "ClusterClaims.Encode", "ServerClaims.Encode", "OperatorClaims.Encode", "AccountClaims.Encode", "GenericClaims.Encode",
	},
}

type unsupported struct{ msg string }

func unsup(f string, a ...interface{}) { panic(unsupported{fmt.Sprintf(f, a...)}) }

type fnInfo struct {
	key       string
	leanName  string
	fd        *ast.FuncDecl
	params    []*types.Var // receiver first
	mutated   []bool       // per param: is it written through (pointer receiver / map) -> returned
	results   []types.Type
	nilPtrRes []bool // per result: a pointer-to-struct result for which the body returns a literal nil (`Option T`)
	usesNow   bool
	usesOpq   bool // calls (transitively) a function that is kept opaque
	sig       *types.Signature
	hasRecv   bool
	retType   string                // Lean type inside Option
	optPtr    map[types.Object]bool // pointer parameters / receivers compared with nil in the body: Option T
}

type fnGen struct {
	p            *packages.Package
	short        string
	fns          map[string]*fnInfo // by key
	structs      map[string]*types.Struct
	order        []string
	out          strings.Builder
	needURL      bool               // the mirror of net/url.URL is used
	dispatchInfo map[string]*fnInfo // dispatcher name -> the info of its first alternative (arity, now/opq)
	unsupp       map[string]string
	opaque       map[string]*types.Func // package functions called but deliberately not translated: fields of `Opq`
	opqOrd       []string
	ifaces       map[string][]string // package interface -> names of the struct types whose pointer implements it
	dispatch     map[string]bool     // emitted interface dispatchers
	foreign      map[string]bool
	foreignOrd   []string
}

type fnCtx struct {
	g        *fnGen
	fi       *fnInfo
	names    map[types.Object]string
	taken    map[string]bool
	loopN    int
	aux      []string // auxiliary definitions (loop bodies), emitted before the function
	inLoop   bool
	state    []types.Object // loop-carried variables of the innermost loop being translated
	tmpN     int
	declared map[types.Object]bool // declared so far in the current def (for `let mut` vs `:=`)
	rawPtr   map[string]bool       // terms that are pure values of type `Option T` (nilable pointers)
	ptrInner map[string]string     // nilable pointers reached through a computation: the `Option T` value inside a do block
	closures map[types.Object]bool // local function literals (single-return, pure)
	nilVars  map[types.Object]bool // local / range variables holding nilable pointers
	bldrVars map[types.Object]bool   // local strings.Builder values: the text written so far
	hashVars map[types.Object]string // local hash accumulators (h := sha256.New()): the opaque digest applied by Sum(nil)
}

func (g *fnGen) leanType(t types.Type) string {
	switch u := t.(type) {
	case *types.Named:
		if u.Obj().Pkg() != nil && u.Obj().Pkg().Path() == "time" && u.Obj().Name() == "Time" {
			return "Int"
		}
		if u.Obj().Name() == "error" {
			return "Bool"
		}
		if u.Obj().Pkg() != nil && u.Obj().Pkg().Path() == "github.com/nats-io/nkeys" && u.Obj().Name() == "KeyPair" {
			return "Nat" // a key pair is an uninterpreted handle: translated code only passes it on
		}
		if st, ok := u.Underlying().(*types.Struct); ok {
			if u.Obj().Pkg() != nil && u.Obj().Pkg().Path() == "net/url" && u.Obj().Name() == "URL" {
				g.needURL = true
				return "T_url_URL"
			}
			if u.Obj().Pkg() != nil && u.Obj().Pkg().Path() == "net/url" && u.Obj().Name() == "Userinfo" {
				return "Unit"
			}
			if u.Obj().Pkg() != g.p.Types {
				unsup("foreign struct type %s", u.String())
			}
			g.needStruct(u.Obj().Name(), st)
			return "T_" + u.Obj().Name()
		}
		if it, ok := u.Underlying().(*types.Interface); ok && u.Obj().Pkg() == g.p.Types && it.NumMethods() > 0 {
			g.needIface(u.Obj().Name(), it)
			return "(Option I_" + u.Obj().Name() + ")"
		}
		return g.leanType(u.Underlying())
	case *types.Basic:
		switch {
		case u.Kind() == types.String || u.Kind() == types.UntypedString:
			return "Str"
		case u.Kind() == types.Bool || u.Kind() == types.UntypedBool:
			return "Bool"
		case u.Info()&types.IsInteger != 0:
			return "Int"
		}
		unsup("basic type %s", u.String())
	case *types.Pointer:
		return g.leanType(u.Elem())
	case *types.Struct:
		if u.NumFields() == 0 {
			return "Unit"
		}
		// an anonymous struct type: mirrored under a name made of its field names
		{
			var ns []string
			for i := 0; i < u.NumFields(); i++ {
				ns = append(ns, u.Field(i).Name())
			}
			name := "anon_" + strings.Join(ns, "_")
			g.needStruct(name, u)
			return "T_" + name
		}
	case *types.Slice:
		if g.nilableElem(u.Elem()) {
			return "(List (Option " + g.leanType(u.Elem()) + "))"
		}
		return "(List " + g.leanType(u.Elem()) + ")"
	case *types.Map:
		return "(GoMap " + g.leanType(u.Key()) + " " + g.leanType(u.Elem()) + ")"
	case *types.Interface:
		if u.NumMethods() == 1 && u.Method(0).Name() == "Error" {
			return "Bool"
		}
		if u.Empty() {
			return "Unit" // interface{} arguments (format arguments) are not modelled
		}
	}
	unsup("type %s", t.String())
	return ""
}

// terminates: a statement after which control never continues (Go's terminating statements, the part used here)
func terminates(s ast.Stmt) bool {
	switch x := s.(type) {
	case *ast.ReturnStmt:
		return true
	case *ast.BlockStmt:
		return len(x.List) > 0 && terminates(x.List[len(x.List)-1])
	case *ast.IfStmt:
		return x.Else != nil && terminates(x.Body) && terminates(x.Else)
	case *ast.SwitchStmt:
		hasDefault := false
		for _, cl := range x.Body.List {
			cc := cl.(*ast.CaseClause)
			if cc.List == nil {
				hasDefault = true
			}
			if len(cc.Body) == 1 {
				// a clause that only falls through terminates when the clause it falls into does (checked there)
				if br, ok := cc.Body[0].(*ast.BranchStmt); ok && br.Tok == token.FALLTHROUGH {
					continue
				}
			}
			if len(cc.Body) == 0 || !terminates(cc.Body[len(cc.Body)-1]) {
				return false
			}
		}
		return hasDefault
	}
	return false
}

// leanTypeQuiet: leanType, or "" when the type is outside the subset
func (g *fnGen) leanTypeQuiet(t types.Type) (r string) {
	defer func() {
		if e := recover(); e != nil {
			r = ""
		}
	}()
	return g.leanType(t)
}

// nilSliceMethods: methods whose slice result callers compare with nil (`Option (List T)`; `nil` is `none`)
var nilSliceMethods = map[string]bool{"ExpectedPrefixes": true}

func nilSliceKey(key string) bool {
	if i := strings.LastIndex(key, "."); i >= 0 {
		return nilSliceMethods[key[i+1:]]
	}
	return false
}

// nilableElems: slice element types that decoded JSON can make nil (`[]*Export`, `[]*Import`)
var nilableElems = map[string]bool{"Export": true, "Import": true}

// opaqueFns: package functions that translated code may call but that stay outside the translation (their behaviour
// is a parameter of the translated caller: a field of the generated structure `Opq`)
// opaqueFnsV1: additionally opaque in the v1compat package only
var opaqueFnsV1 = map[string]bool{"ClaimsData.Encode": true}

var opaqueFns = map[string]bool{"UserClaims.HasEmptyPermissions": true, "parseClaims": true, "ClaimsData.encode": true, "decodeString": true, "ParseDecoratedNKey": true}

// foreignOpaque: functions of other packages that translated code may call; each becomes a field of `Opq`
// (name, Lean type of the field, and how a two-value result is read)
var foreignOpaque = map[string]string{
	"sha256.Sum":                     "(List Int) → (List Int)",              // the digest of everything written to a sha256.New()
	"sha512.Sum512_256":              "(List Int) → (List Int)",
	"base32.StdEncode":               "(List Int) → Str",
	"base32.StdNoPadEncode":          "(List Int) → Str",                     // base32.StdEncoding.WithPadding(base32.NoPadding).EncodeToString                     // base32.StdEncoding.EncodeToString
	"time.NowAddUnix":                "Int → Int",                            // time.Now().Add(d).Unix(): a parameter
	"strconv.Atoi":                   "Str → Option Int",                     // none = the error result
	"nkeys.FromSeed":                 "(List Int) → Option Nat",              // none = the error result
	"KeyPair.Seed":                   "Nat → Option (List Int)",              // the method of nkeys.KeyPair; none = the error result
	"nkeys.FromPublicKey":            "Str → Option Nat",                     // none = the error result; a key pair is an uninterpreted handle
	"nkeys.Decode":                   "Int → (List Int) → Option (List Int)", // none = the error result
	"nkeys.Prefix":                   "Str → Int",
	"KeyPair.Verify":                 "Nat → (List Int) → (List Int) → Bool", // the method of nkeys.KeyPair; true = the error result is non-nil
	"nkeys.IsValidPublicAccountKey":  "Str → Bool",
	"nkeys.IsValidPublicUserKey":     "Str → Bool",
	"nkeys.IsValidPublicOperatorKey": "Str → Bool",
	"nkeys.IsValidPublicServerKey":   "Str → Bool",
	"nkeys.IsValidPublicCurveKey":    "Str → Bool",
	"nkeys.IsValidPublicClusterKey":  "Str → Bool",
	"url.Parse":                      "Str → Option T_url_URL",             // none = the error result is non-nil (and the *URL is nil)
	"time.Parse":                     "Str → Str → Bool",                   // true = the error result is non-nil
	"time.LoadLocation":              "Str → Bool",                         // true = the error result is non-nil
	"net.ParseCIDR":                  "Str → Bool",                         // true = the error result is non-nil (and then, only then, the *IPNet is nil)
}

// foreignErrOnly: foreign callees of which translated code uses only the error result (and, at most, whether a
// pointer result is nil, which the library guarantees to be the case exactly when the error is non-nil)
var foreignErrOnly = map[string]bool{"time.Parse": true, "time.LoadLocation": true, "net.ParseCIDR": true}

// unitPtr: local variables holding a pointer to a foreign struct of which only nil-ness is used (`Option Unit`)
var unitPtr = map[types.Object]bool{}

func (g *fnGen) foreignCall(call *ast.CallExpr) string {
	q := selName(call.Fun)
	if _, ok := foreignOpaque[q]; !ok {
		return ""
	}
	if se, ok := call.Fun.(*ast.SelectorExpr); ok {
		if pid, ok := se.X.(*ast.Ident); ok {
			if _, isPkg := g.p.TypesInfo.Uses[pid].(*types.PkgName); isPkg {
				if g.foreign == nil {
					g.foreign = map[string]bool{}
				}
				if !g.foreign[q] {
					g.foreign[q] = true
					g.foreignOrd = append(g.foreignOrd, q)
				}
				return q
			}
		}
	}
	return ""
}

func ptrToStruct(t types.Type) (*types.Named, bool) {
	pt, ok := t.Underlying().(*types.Pointer)
	if !ok {
		return nil, false
	}
	n, ok := pt.Elem().(*types.Named)
	if !ok {
		return nil, false
	}
	_, isStruct := n.Underlying().(*types.Struct)
	return n, isStruct
}

func (g *fnGen) nilableElem(t types.Type) bool {
	n, ok := ptrToStruct(t)
	return ok && n.Obj().Pkg() == g.p.Types && nilableElems[n.Obj().Name()]
}

// nilableField: a pointer-to-struct field that JSON decoding can leave nil (it carries a json tag)
func nilableField(st *types.Struct, i int) bool {
	if _, ok := ptrToStruct(st.Field(i).Type()); !ok {
		return false
	}
	return reflect.StructTag(st.Tag(i)).Get("json") != ""
}

// fieldLean: Lean type and default of field i of a mirrored struct ("" = outside the subset, dropped)
func (g *fnGen) fieldLean(st *types.Struct, i int) (lt, z string) {
	lt, z = safeType(g, st.Field(i).Type())
	if lt != "" && nilableField(st, i) {
		return "(Option " + lt + ")", "none"
	}
	return
}

// needIface: a package interface is the sum of the package's struct types whose pointer implements it; a value of
// interface type is `Option I_X` (`none` = nil interface)
func (g *fnGen) needIface(name string, it *types.Interface) {
	if g.ifaces == nil {
		g.ifaces = map[string][]string{}
	}
	if _, ok := g.ifaces[name]; ok {
		return
	}
	g.ifaces[name] = []string{}
	sc := g.p.Types.Scope()
	names := sc.Names()
	sort.Strings(names)
	var impls []string
	for _, n := range names {
		tn, ok := sc.Lookup(n).(*types.TypeName)
		if !ok {
			continue
		}
		named, ok := tn.Type().(*types.Named)
		if !ok {
			continue
		}
		st, ok := named.Underlying().(*types.Struct)
		if !ok {
			continue
		}
		if types.Implements(types.NewPointer(named), it) || types.Implements(named, it) {
			g.needStruct(n, st)
			impls = append(impls, n)
		}
	}
	g.ifaces[name] = impls
	g.order = append(g.order, "I:"+name)
}

// ifaceOf: the package interface behind a type (nil if none)
func (g *fnGen) ifaceOf(t types.Type) (string, bool) {
	n, ok := t.(*types.Named)
	if !ok || n.Obj().Pkg() != g.p.Types {
		return "", false
	}
	it, ok := n.Underlying().(*types.Interface)
	if !ok || it.NumMethods() == 0 {
		return "", false
	}
	return n.Obj().Name(), true
}

func (g *fnGen) needStruct(name string, st *types.Struct) {
	if _, ok := g.structs[name]; ok {
		return
	}
	g.structs[name] = st
	for i := 0; i < st.NumFields(); i++ {
		safeType(g, st.Field(i).Type()) // dependencies first
	}
	g.order = append(g.order, name)
}

func (g *fnGen) zero(t types.Type) string {
	lt := g.leanType(t)
	switch {
	case lt == "Str":
		return "([] : Str)"
	case lt == "Bool":
		return "false"
	case lt == "Int":
		return "(0 : Int)"
	case lt == "Unit":
		return "()"
	case strings.HasPrefix(lt, "(List "):
		return "([] : " + lt[1:len(lt)-1] + ")"
	case strings.HasPrefix(lt, "(GoMap "):
		return "(none : " + lt[1:len(lt)-1] + ")"
	case strings.HasPrefix(lt, "T_"):
		return "(default : " + lt + ")"
	case strings.HasPrefix(lt, "(Option "):
		return "none"
	}
	unsup("zero value of %s", lt)
	return ""
}

// nilCompared: pointer-to-struct parameters (not the receiver) that the body compares with nil
func (g *fnGen) nilCompared(fd *ast.FuncDecl, params []*types.Var, hasRecv bool) map[types.Object]bool {
	res := map[types.Object]bool{}
	cand := map[types.Object]bool{}
	for i, p := range params {
		_ = i
		if pt, ok := p.Type().Underlying().(*types.Pointer); ok {
			if _, ok := pt.Elem().Underlying().(*types.Struct); ok {
				cand[p] = true
			}
		}
	}
	ast.Inspect(fd.Body, func(n ast.Node) bool {
		be, ok := n.(*ast.BinaryExpr)
		if !ok || (be.Op != token.EQL && be.Op != token.NEQ) {
			return true
		}
		for _, pair := range [][2]ast.Expr{{be.X, be.Y}, {be.Y, be.X}} {
			if id, ok := pair[1].(*ast.Ident); ok && id.Name == "nil" {
				if v, ok := pair[0].(*ast.Ident); ok {
					if o := g.p.TypesInfo.Uses[v]; o != nil && cand[o] {
						res[o] = true
					}
				}
			}
		}
		return true
	})
	return res
}

// varType: Lean type of a variable (nilable pointers are `Option T`)
func (c *fnCtx) varType(o types.Object) string {
	if unitPtr[o] {
		return "(Option Unit)"
	}
	if c.bldrVars[o] {
		return "Str"
	}
	if c.hashVars[o] != "" {
		return "(List Int)"
	}
	lt := c.g.leanType(o.Type())
	if _, ok := c.g.ifaceOf(o.Type()); ok {
		return lt // already `Option I_X`
	}
	if c.fi.optPtr[o] || c.nilVars[o] {
		return "(Option " + lt + ")"
	}
	return lt
}

func (c *fnCtx) paramType(p *types.Var) string {
	lt := c.g.leanType(p.Type())
	if _, ok := c.g.ifaceOf(p.Type()); ok {
		return lt
	}
	if c.fi.optPtr[p] {
		return "(Option " + lt + ")"
	}
	return lt
}

func isErrorType(t types.Type) bool {
	if n, ok := t.(*types.Named); ok && n.Obj().Name() == "error" && n.Obj().Pkg() == nil {
		return true
	}
	return false
}

func isString(t types.Type) bool {
	b, ok := t.Underlying().(*types.Basic)
	return ok && b.Info()&types.IsString != 0
}

// ---------- analysis ----------

// rootVar: the variable an lvalue / receiver expression is rooted in, through parens, *, &, conversions, fields
func (c *fnCtx) rootVar(e ast.Expr) types.Object {
	for {
		switch x := e.(type) {
		case *ast.ParenExpr:
			e = x.X
		case *ast.StarExpr:
			e = x.X
		case *ast.UnaryExpr:
			if x.Op == token.AND {
				e = x.X
				continue
			}
			return nil
		case *ast.SelectorExpr:
			if _, ok := c.g.p.TypesInfo.Selections[x]; ok {
				e = x.X
				continue
			}
			return nil
		case *ast.IndexExpr:
			e = x.X
		case *ast.CallExpr: // conversion
			if tv, ok := c.g.p.TypesInfo.Types[x.Fun]; ok && tv.IsType() && len(x.Args) == 1 {
				e = x.Args[0]
				continue
			}
			return nil
		case *ast.Ident:
			if o := c.g.p.TypesInfo.Uses[x]; o != nil {
				return o
			}
			return c.g.p.TypesInfo.Defs[x]
		default:
			return nil
		}
	}
}

// callee: the whitelisted function a call resolves to (nil if none)
func (g *fnGen) callee(call *ast.CallExpr) *fnInfo {
	var obj types.Object
	switch f := call.Fun.(type) {
	case *ast.Ident:
		obj = g.p.TypesInfo.Uses[f]
	case *ast.SelectorExpr:
		if sel, ok := g.p.TypesInfo.Selections[f]; ok {
			obj = sel.Obj()
		} else {
			obj = g.p.TypesInfo.Uses[f.Sel]
		}
	}
	fn, ok := obj.(*types.Func)
	if !ok || fn.Pkg() != g.p.Types {
		return nil
	}
	for _, fi := range g.fns {
		if fi.fd != nil && g.p.TypesInfo.Defs[fi.fd.Name] == fn {
			return fi
		}
	}
	if key, ofn := g.opaqueCallee(call); ofn != nil {
		return g.opaqueInfo(key, ofn)
	}
	return nil
}

// opaqueInfo: the pseudo function info of an opaque callee: pointer-to-struct parameters are taken to be written
// through (and returned), the receiver to be read only
func (g *fnGen) opaqueInfo(key string, fn *types.Func) *fnInfo {
	if g.opaque == nil {
		g.opaque = map[string]*types.Func{}
	}
	if _, ok := g.opaque[key]; !ok {
		g.opaque[key] = fn
		g.opqOrd = append(g.opqOrd, key)
	}
	fi := g.opaqueInfoOf(fn)
	fi.key = key
	fi.leanName = "opq." + strings.ReplaceAll(key, ".", "_")
	return fi
}

func (g *fnGen) opaqueInfoOf(fn *types.Func) *fnInfo {
	key := ""
	sig := fn.Type().(*types.Signature)
	fi := &fnInfo{key: key, leanName: "opq." + strings.ReplaceAll(key, ".", "_"), sig: sig, hasRecv: sig.Recv() != nil, optPtr: map[types.Object]bool{}}
	if sig.Recv() != nil {
		fi.params = append(fi.params, sig.Recv())
		fi.mutated = append(fi.mutated, false)
	}
	for i := 0; i < sig.Params().Len(); i++ {
		p := sig.Params().At(i)
		fi.params = append(fi.params, p)
		_, isPtr := ptrToStruct(p.Type())
		if _, isI := p.Type().Underlying().(*types.Interface); isI && fn.Name() == "parseClaims" {
			isPtr = true // parseClaims(s, target Claims) fills the claims the interface value points to
		}
		fi.mutated = append(fi.mutated, isPtr)
	}
	for i := 0; i < sig.Results().Len(); i++ {
		fi.results = append(fi.results, sig.Results().At(i).Type())
	}
	return fi
}

// opqFieldType: the type of the `Opq` field of an opaque callee
func (g *fnGen) opqFieldType(fn *types.Func) string {
	fi := g.opaqueInfoOf(fn)
	var ps, rs []string
	for _, p := range fi.params {
		ps = append(ps, g.leanType(p.Type()))
	}
	for i, m := range fi.mutated {
		if m {
			rs = append(rs, g.leanType(fi.params[i].Type()))
		}
	}
	for _, r := range fi.results {
		if _, ok := ptrToStruct(r); ok {
			rs = append(rs, "(Option "+g.leanType(r)+")")
		} else {
			rs = append(rs, g.leanType(r))
		}
	}
	ret := "Unit"
	if len(rs) == 1 {
		ret = rs[0]
	} else if len(rs) > 1 {
		ret = "(" + strings.Join(rs, " × ") + ")"
	}
	return strings.Join(append(ps, "Option "+ret), " → ")
}

// opaqueCallee: a call to a package function that is deliberately kept outside the translation
func (g *fnGen) opaqueCallee(call *ast.CallExpr) (string, *types.Func) {
	var obj types.Object
	switch f := call.Fun.(type) {
	case *ast.Ident:
		obj = g.p.TypesInfo.Uses[f]
	case *ast.SelectorExpr:
		if sel, ok := g.p.TypesInfo.Selections[f]; ok {
			obj = sel.Obj()
		} else {
			obj = g.p.TypesInfo.Uses[f.Sel]
		}
	}
	fn, ok := obj.(*types.Func)
	if !ok || fn.Pkg() != g.p.Types {
		return "", nil
	}
	key := fn.Name()
	if r := fn.Type().(*types.Signature).Recv(); r != nil {
		t := r.Type()
		if p, ok := t.(*types.Pointer); ok {
			t = p.Elem()
		}
		if n, ok := t.(*types.Named); ok {
			key = n.Obj().Name() + "." + fn.Name()
		}
	}
	if !opaqueFns[key] && !(g.short == "V1" && opaqueFnsV1[key]) {
		return "", nil
	}
	return key, fn
}

// written: objects assigned / mutated (through pointer, map store, delete, mutating call) inside node n
func (c *fnCtx) written(n ast.Node) map[types.Object]bool {
	w := map[types.Object]bool{}
	ast.Inspect(n, func(m ast.Node) bool {
		switch x := m.(type) {
		case *ast.AssignStmt:
			for _, l := range x.Lhs {
				if id, ok := l.(*ast.Ident); ok && id.Name == "_" {
					continue
				}
				if x.Tok == token.DEFINE {
					if id, ok := l.(*ast.Ident); ok && c.g.p.TypesInfo.Defs[id] != nil {
						continue // fresh variable
					}
				}
				if o := c.rootVar(l); o != nil {
					w[o] = true
				}
			}
		case *ast.IncDecStmt:
			if o := c.rootVar(x.X); o != nil {
				w[o] = true
			}
		case *ast.CallExpr:
			if id, ok := x.Fun.(*ast.Ident); ok && id.Name == "delete" && len(x.Args) == 2 {
				if o := c.rootVar(x.Args[0]); o != nil {
					w[o] = true
				}
			}
			// writes into a local accumulator (strings.Builder / hash): b.WriteString(s), h.Write(p)
			if se, ok := x.Fun.(*ast.SelectorExpr); ok && (se.Sel.Name == "WriteString" || se.Sel.Name == "Write") {
				if id, ok := se.X.(*ast.Ident); ok {
					if o := c.g.p.TypesInfo.Uses[id]; o != nil && (c.bldrVars[o] || c.hashVars[o] != "") {
						w[o] = true
					}
				}
			}
			if fi := c.g.callee(x); fi != nil {
				args := c.callArgs(x, fi)
				for i, m := range fi.mutated {
					if m && i < len(args) {
						if o := c.rootVar(args[i]); o != nil {
							w[o] = true
						}
					}
				}
			}
		}
		return true
	})
	return w
}

// callArgs: receiver (if any) followed by the arguments
func (c *fnCtx) callArgs(call *ast.CallExpr, fi *fnInfo) []ast.Expr {
	var args []ast.Expr
	if fi.hasRecv {
		if se, ok := call.Fun.(*ast.SelectorExpr); ok {
			args = append(args, se.X)
		}
	}
	return append(args, call.Args...)
}

// isNowChain: exactly `time.Now()` or `time.Now().UTC()`
func isNowChain(e ast.Expr) bool {
	call, ok := e.(*ast.CallExpr)
	if !ok || len(call.Args) != 0 {
		return false
	}
	se, ok := call.Fun.(*ast.SelectorExpr)
	if !ok {
		return false
	}
	if id, ok := se.X.(*ast.Ident); ok && id.Name == "time" && se.Sel.Name == "Now" {
		return true
	}
	return se.Sel.Name == "UTC" && isNowChain(se.X)
}

// derefNext: the statement following `def` in its block starts by dereferencing o (a method call on it or a
// store/read through one of its fields)
func (g *fnGen) derefNext(body *ast.BlockStmt, def ast.Stmt, o types.Object) bool {
	res := false
	ast.Inspect(body, func(n ast.Node) bool {
		bl, ok := n.(*ast.BlockStmt)
		if !ok {
			return true
		}
		for i, st := range bl.List {
			if st != def || i+1 >= len(bl.List) {
				continue
			}
			var first ast.Expr
			switch nx := bl.List[i+1].(type) {
			case *ast.ExprStmt:
				first = nx.X
			case *ast.AssignStmt:
				if len(nx.Lhs) == 1 {
					first = nx.Lhs[0]
				}
			}
			for first != nil {
				switch e := first.(type) {
				case *ast.CallExpr:
					first = e.Fun
					continue
				case *ast.SelectorExpr:
					if id, ok := e.X.(*ast.Ident); ok {
						res = g.p.TypesInfo.Uses[id] == o
						first = nil
						continue
					}
					first = e.X
					continue
				}
				first = nil
			}
		}
		return true
	})
	return res
}

func (g *fnGen) needForeign(q string) {
	if g.foreign == nil {
		g.foreign = map[string]bool{}
	}
	if !g.foreign[q] {
		g.foreign[q] = true
		g.foreignOrd = append(g.foreignOrd, q)
	}
}

// sprintfConcat: fmt.Sprintf("a%sb%s", x, y) with string arguments only, as a concatenation
func (c *fnCtx) sprintfConcat(x *ast.CallExpr) (ex, bool) {
	if len(x.Args) == 0 {
		return ex{}, false
	}
	lit, ok := x.Args[0].(*ast.BasicLit)
	if !ok || lit.Kind != token.STRING {
		return ex{}, false
	}
	f, err := strconv.Unquote(lit.Value)
	if err != nil {
		return ex{}, false
	}
	var pieces []ex
	arg := 1
	cur := ""
	flush := func() {
		if cur != "" {
			pieces = append(pieces, ex{leanStr(cur), false})
			cur = ""
		}
	}
	for i := 0; i < len(f); i++ {
		if f[i] != '%' {
			cur += string(f[i])
			continue
		}
		if i+1 >= len(f) || f[i+1] != 's' || arg >= len(x.Args) || !isString(c.typeOf(x.Args[arg])) {
			return ex{}, false
		}
		// a string type with its own String() or Error() method is printed through that method, not as its bytes
		if ms := types.NewMethodSet(c.typeOf(x.Args[arg])); ms.Lookup(nil, "String") != nil || ms.Lookup(nil, "Error") != nil {
			return ex{}, false
		}
		flush()
		pieces = append(pieces, c.expr(x.Args[arg]))
		arg++
		i++
	}
	flush()
	if arg != len(x.Args) || len(pieces) == 0 {
		return ex{}, false
	}
	anyM := false
	var ps []string
	for _, p := range pieces {
		anyM = anyM || p.m
		ps = append(ps, p.bind())
	}
	r := "(" + strings.Join(ps, " ++ ") + ")"
	if anyM {
		return ex{"(do pure " + r + ")", true}, true
	}
	return ex{r, false}, true
}

// nowAddArg: d when e is `time.Now()[.UTC()].Add(d)[.UTC()]`
func nowAddArg(e ast.Expr) ast.Expr {
	call, ok := e.(*ast.CallExpr)
	if !ok {
		return nil
	}
	se, ok := call.Fun.(*ast.SelectorExpr)
	if !ok {
		return nil
	}
	if se.Sel.Name == "UTC" && len(call.Args) == 0 {
		return nowAddArg(se.X)
	}
	if se.Sel.Name == "Add" && len(call.Args) == 1 && isNowChain(se.X) {
		return call.Args[0]
	}
	return nil
}

func usesTimeNow(n ast.Node) bool {
	found := false
	ast.Inspect(n, func(m ast.Node) bool {
		if se, ok := m.(*ast.SelectorExpr); ok {
			if id, ok := se.X.(*ast.Ident); ok && id.Name == "time" && se.Sel.Name == "Now" {
				found = true
			}
		}
		return true
	})
	return found
}

// ---------- names ----------

var leanReserved = map[string]bool{"end": true, "at": true, "from": true, "to": true, "do": true, "then": true, "else": true, "if": true,
	"fun": true, "let": true, "in": true, "match": true, "with": true, "open": true, "set": true, "Type": true, "type": true, "this": true,
	"show": true, "have": true, "by": true, "where": true, "def": true, "theorem": true, "instance": true, "structure": true, "class": true,
	"deriving": true, "mut": true, "return": true, "for": true, "unless": true, "try": true, "catch": true, "finally": true, "break": true,
	"continue": true, "calc": true, "some": true, "none": true, "pure": true, "now": true, "st": true, "len": true, "idx": true, "split": true, "contains": true}

func (c *fnCtx) nameOf(o types.Object) string {
	if n, ok := c.names[o]; ok {
		return n
	}
	base := o.Name()
	if leanReserved[base] {
		base = base + "_"
	}
	n := base
	for i := 2; c.taken[n]; i++ {
		n = fmt.Sprintf("%s_%d", base, i)
	}
	c.taken[n] = true
	c.names[o] = n
	return n
}

// ---------- expressions ----------

type ex struct {
	s string
	m bool // monadic: s has type Option T
}

func (e ex) bind() string {
	if e.m {
		return "(← " + e.s + ")"
	}
	return e.s
}
func (e ex) opt() string {
	if e.m {
		return e.s
	}
	return "(pure " + e.s + ")"
}

func (c *fnCtx) typeOf(e ast.Expr) types.Type { return c.g.p.TypesInfo.TypeOf(e) }

func (c *fnCtx) constExpr(e ast.Expr) (string, bool) {
	tv, ok := c.g.p.TypesInfo.Types[e]
	if !ok || tv.Value == nil {
		return "", false
	}
	switch tv.Value.Kind() {
	case constant.String:
		return leanStr(constant.StringVal(tv.Value)), true
	case constant.Bool:
		if constant.BoolVal(tv.Value) {
			return "true", true
		}
		return "false", true
	case constant.Int:
		return "(" + tv.Value.ExactString() + " : Int)", true
	}
	return "", false
}

func (c *fnCtx) expr(e ast.Expr) ex {
	if s, ok := c.constExpr(e); ok {
		return ex{s, false}
	}
	switch x := e.(type) {
	case *ast.ParenExpr:
		return c.expr(x.X)
	case *ast.Ident:
		if x.Name == "nil" {
			t := c.typeOf(e)
			if tv, ok := c.g.p.TypesInfo.Types[e]; ok && tv.Type != nil {
				t = tv.Type
			}
			if _, isI := c.g.ifaceOf(t); isI {
				return ex{"none", false} // a nil interface value
			}
			if _, isS := t.Underlying().(*types.Slice); isS {
				return ex{"([] : " + c.g.leanType(t)[1:len(c.g.leanType(t))-1] + ")", false} // a nil slice is the empty list
			}
			if _, isM := t.Underlying().(*types.Map); isM {
				return ex{"none", false} // a nil map
			}
			if c.g.leanTypeQuiet(t) == "Nat" {
				return ex{"(0 : Nat)", false} // a nil key pair, only ever returned next to an error: the handle is not meaningful then
			}
			unsup("bare nil")
		}
		if x.Name == "true" || x.Name == "false" {
			return ex{x.Name, false}
		}
		o := c.g.p.TypesInfo.Uses[x]
		if o == nil {
			o = c.g.p.TypesInfo.Defs[x]
		}
		if v, ok := o.(*types.Var); ok && !v.IsField() {
			if v.Parent() == c.g.p.Types.Scope() {
				unsup("package-level variable %s", v.Name())
			}
			if c.fi.optPtr[o] || c.nilVars[o] {
				c.rawPtr[c.nameOf(o)] = true
				return ex{c.nameOf(o), true} // a nilable pointer: using it as a value dereferences it (nil panics)
			}
			return ex{c.nameOf(o), false}
		}
		unsup("identifier %s", x.Name)
	case *ast.StarExpr:
		return c.expr(x.X) // pointers to values are the values
	case *ast.UnaryExpr:
		switch x.Op {
		case token.NOT:
			a := c.expr(x.X)
			if a.m {
				return ex{"(do pure (!" + a.bind() + "))", true}
			}
			return ex{"(!" + a.s + ")", false}
		case token.AND:
			return c.expr(x.X)
		case token.SUB:
			a := c.expr(x.X)
			if a.m {
				unsup("negated partial expression")
			}
			return ex{"(-" + a.s + ")", false}
		}
		unsup("unary %s", x.Op)
	case *ast.BinaryExpr:
		return c.binary(x)
	case *ast.SelectorExpr:
		if sel, ok := c.g.p.TypesInfo.Selections[x]; ok && sel.Kind() == types.FieldVal {
			a := c.expr(x.X)
			// s[i].f on a slice whose elements are modelled as nilable: reading the element may panic (index), and
			// selecting through a nil element panics too
			if ix, isIx := ast.Unparen(x.X).(*ast.IndexExpr); isIx {
				if sl, ok := c.typeOf(ix.X).Underlying().(*types.Slice); ok && c.g.nilableElem(sl.Elem()) && !c.rawPtr[a.s] {
					a = ex{"(do (" + a.bind() + "))", true}
				}
			}
			c.g.leanType(sel.Recv())
			path := c.fieldPath(sel)
			if c.selNilable(sel) {
				if a.m {
					t := "(do (" + a.bind() + ")" + path + ")"
					c.rawPtr["@"+t] = true // nilable, but only reachable through a computation
					c.ptrInner[t] = "(" + a.bind() + ")" + path
					return ex{t, true}
				}
				c.rawPtr[a.s+path] = true
				return ex{a.s + path, true}
			}
			if a.m {
				return ex{"(do pure (" + a.bind() + ")" + path + ")", true}
			}
			return ex{a.s + path, false}
		}
		unsup("selector %s", x.Sel.Name)
	case *ast.IndexExpr:
		t := c.typeOf(x.X).Underlying()
		a, i := c.expr(x.X), c.expr(x.Index)
		switch tt := t.(type) {
		case *types.Slice:
			return c.mk("idx", a, i)
		case *types.Basic:
			if tt.Info()&types.IsString != 0 {
				return c.mk("strByte", a, i)
			}
		case *types.Map:
			// plain map read: zero value when absent
			if a.m || i.m {
				unsup("partial map read")
			}
			return ex{"((mapGet " + a.s + " " + i.s + ").getD " + c.g.zero(tt.Elem()) + ")", false}
		}
		unsup("index of %s", t.String())
	case *ast.SliceExpr:
		if x.Slice3 {
			unsup("3-index slice")
		}
		t := c.typeOf(x.X).Underlying()
		pre := ""
		if b, ok := t.(*types.Basic); ok && b.Info()&types.IsString != 0 {
			pre = "str"
		} else if _, ok := t.(*types.Slice); !ok {
			unsup("slice of %s", t.String())
		}
		a := c.expr(x.X)
		switch {
		case x.Low == nil && x.High == nil:
			return a
		case x.Low == nil:
			return c.mk(lower1(pre+"SliceTo"), a, c.expr(x.High))
		case x.High == nil:
			return c.mk(lower1(pre+"SliceFrom"), a, c.expr(x.Low))
		default:
			return c.mk(lower1(pre+"Slice"), a, c.expr(x.Low), c.expr(x.High))
		}
	case *ast.CompositeLit:
		return c.composite(x)
	case *ast.CallExpr:
		return c.call(x)
	}
	unsup("expression %T", e)
	return ex{}
}

// selNilable: does the selection end in a nilable pointer field?
func (c *fnCtx) selNilable(sel *types.Selection) bool {
	t := sel.Recv()
	idx := sel.Index()
	for k, i := range idx {
		if p, ok := t.Underlying().(*types.Pointer); ok {
			t = p.Elem()
		}
		st, ok := t.Underlying().(*types.Struct)
		if !ok {
			return false
		}
		if k == len(idx)-1 {
			if n, ok := ptrToStruct(st.Field(i).Type()); ok && n.Obj().Pkg() != nil && n.Obj().Pkg().Path() == "net/url" {
				return true
			}
			return nilableField(st, i)
		}
		t = st.Field(i).Type()
	}
	return false
}

// fieldPath: `.f_A.f_B` for a (possibly promoted) field selection
func (c *fnCtx) fieldPath(sel *types.Selection) string {
	t := sel.Recv()
	path := ""
	for _, i := range sel.Index() {
		if p, ok := t.Underlying().(*types.Pointer); ok {
			t = p.Elem()
		}
		st, ok := t.Underlying().(*types.Struct)
		if !ok {
			unsup("field path through %s", t.String())
		}
		f := st.Field(i)
		if _, isPtr := f.Type().Underlying().(*types.Pointer); isPtr && i != sel.Index()[len(sel.Index())-1] {
			unsup("field path through pointer field %s", f.Name())
		}
		path += ".f_" + f.Name()
		t = f.Type()
	}
	return path
}

func lower1(s string) string {
	if s == "" {
		return s
	}
	return strings.ToLower(s[:1]) + s[1:]
}

// mk: application of a partial GoRt function (result type Option) to possibly partial arguments
func (c *fnCtx) mk(f string, args ...ex) ex {
	anyM := false
	for _, a := range args {
		anyM = anyM || a.m
	}
	parts := []string{f}
	for _, a := range args {
		parts = append(parts, a.bind())
	}
	s := "(" + strings.Join(parts, " ") + ")"
	if anyM {
		return ex{"(do " + s + ")", true}
	}
	return ex{s, true}
}

// pureApp: application of a total function
func (c *fnCtx) pureApp(f string, args ...ex) ex {
	anyM := false
	for _, a := range args {
		anyM = anyM || a.m
	}
	parts := []string{f}
	for _, a := range args {
		parts = append(parts, a.bind())
	}
	s := "(" + strings.Join(parts, " ") + ")"
	if anyM {
		return ex{"(do pure " + s + ")", true}
	}
	return ex{s, false}
}

func (c *fnCtx) isNilExpr(e ast.Expr) bool {
	id, ok := e.(*ast.Ident)
	if !ok || id.Name != "nil" {
		return false
	}
	_, isNil := c.g.p.TypesInfo.Uses[id].(*types.Nil)
	return isNil
}

func (c *fnCtx) binary(x *ast.BinaryExpr) ex {
	// comparisons with nil: only for error values (Bool) and slices (empty list is not nil: unsupported)
	if x.Op == token.EQL || x.Op == token.NEQ {
		var other ast.Expr
		if c.isNilExpr(x.Y) {
			other = x.X
		} else if c.isNilExpr(x.X) {
			other = x.Y
		}
		if other != nil {
			t := c.typeOf(other)
			_, isIface := c.g.ifaceOf(t)
			if _, ok := ptrToStruct(t); ok || isIface {
				a := c.expr(other)
				if inner, ok := c.ptrInner[a.s]; ok {
					if x.Op == token.EQL {
						return ex{"(do pure (" + inner + ").isNone)", true}
					}
					return ex{"(do pure (" + inner + ").isSome)", true}
				}
				if ix, isIx := ast.Unparen(other).(*ast.IndexExpr); isIx && !c.rawPtr[a.s] {
					// s[i] == nil on a slice whose elements are modelled as nilable: the element read itself may panic
					if sl, ok := c.typeOf(ix.X).Underlying().(*types.Slice); ok && c.g.nilableElem(sl.Elem()) {
						if x.Op == token.EQL {
							return ex{"(do pure (" + a.bind() + ").isNone)", true}
						}
						return ex{"(do pure (" + a.bind() + ").isSome)", true}
					}
				}
				if !c.rawPtr[a.s] {
					unsup("nil comparison of a pointer that is not modelled as nilable")
				}
				if x.Op == token.EQL {
					return ex{"(" + a.s + ").isNone", false}
				}
				return ex{"(" + a.s + ").isSome", false}
			}
			if _, isMap := t.Underlying().(*types.Map); isMap {
				a := c.expr(other)
				if a.m {
					unsup("partial map expression")
				}
				if x.Op == token.EQL {
					return ex{"(" + a.s + ").isNone", false}
				}
				return ex{"(" + a.s + ").isSome", false}
			}
			if _, isSlice := t.Underlying().(*types.Slice); isSlice {
				if id, ok := other.(*ast.Ident); ok {
					if o := c.g.p.TypesInfo.Uses[id]; o != nil && c.nilVars[o] {
						if x.Op == token.EQL {
							return ex{"(" + c.nameOf(o) + ").isNone", false}
						}
						return ex{"(" + c.nameOf(o) + ").isSome", false}
					}
				}
			}
			if isErrorType(t) {
				a := c.expr(other)
				if a.m {
					unsup("partial error expression")
				}
				if x.Op == token.NEQ {
					return ex{a.s, false}
				}
				return ex{"(!" + a.s + ")", false}
			}
			unsup("comparison with nil of %s", t.String())
		}
	}
	// `s != nil && len(s) > 0` on a slice: the first conjunct is implied by the second
	if x.Op == token.LAND {
		if l, ok := x.X.(*ast.BinaryExpr); ok && l.Op == token.NEQ && c.isNilExpr(l.Y) {
			if _, isSlice := c.typeOf(l.X).Underlying().(*types.Slice); isSlice {
				if r, ok := x.Y.(*ast.BinaryExpr); ok && r.Op == token.GTR {
					if call, ok := r.X.(*ast.CallExpr); ok && len(call.Args) == 1 && types.ExprString(call.Fun) == "len" &&
						types.ExprString(call.Args[0]) == types.ExprString(l.X) && types.ExprString(r.Y) == "0" {
						return c.expr(x.Y)
					}
				}
			}
		}
	}
	a, b := c.expr(x.X), c.expr(x.Y)
	switch x.Op {
	case token.LAND, token.LOR:
		if !a.m && !b.m {
			op := "&&"
			if x.Op == token.LOR {
				op = "||"
			}
			return ex{"(" + a.s + " " + op + " " + b.s + ")", false}
		}
		if x.Op == token.LAND {
			return ex{"(do if " + a.bind() + " then " + b.opt() + " else pure false)", true}
		}
		return ex{"(do if " + a.bind() + " then pure true else " + b.opt() + ")", true}
	}
	var f func(l, r string) string
	switch x.Op {
	case token.EQL:
		f = func(l, r string) string { return "(" + l + " == " + r + ")" }
	case token.NEQ:
		f = func(l, r string) string { return "(" + l + " != " + r + ")" }
	case token.LSS:
		f = func(l, r string) string { return "(decide (" + l + " < " + r + "))" }
	case token.LEQ:
		f = func(l, r string) string { return "(decide (" + l + " ≤ " + r + "))" }
	case token.GTR:
		f = func(l, r string) string { return "(decide (" + l + " > " + r + "))" }
	case token.GEQ:
		f = func(l, r string) string { return "(decide (" + l + " ≥ " + r + "))" }
	case token.ADD:
		if isString(c.typeOf(x.X)) {
			f = func(l, r string) string { return "(" + l + " ++ " + r + ")" }
		} else {
			f = func(l, r string) string { return "(" + l + " + " + r + ")" }
		}
	case token.SUB:
		if b, ok := c.typeOf(x.X).Underlying().(*types.Basic); ok && b.Info()&types.IsUnsigned != 0 {
			f = func(l, r string) string { return "(usub " + l + " " + r + ")" } // unsigned subtraction wraps
		} else {
			f = func(l, r string) string { return "(" + l + " - " + r + ")" }
		}
	case token.MUL:
		f = func(l, r string) string { return "(" + l + " * " + r + ")" }
	default:
		unsup("binary %s", x.Op)
	}
	if x.Op == token.LSS || x.Op == token.LEQ || x.Op == token.GTR || x.Op == token.GEQ {
		// string ordering: Go compares byte-wise; a model string is a list of code points (valid UTF-8 only), and
		// UTF-8 preserves the lexicographic order of code points, so the list order is the byte order
	}
	if a.m || b.m {
		return ex{"(do pure " + f(a.bind(), b.bind()) + ")", true}
	}
	return ex{f(a.s, b.s), false}
}

func (c *fnCtx) composite(x *ast.CompositeLit) ex {
	t := c.typeOf(x)
	if st, ok := t.(*types.Struct); ok && st.NumFields() == 0 {
		return ex{"()", false}
	}
	switch u := t.Underlying().(type) {
	case *types.Struct:
		lt := c.g.leanType(t)
		vals := map[string]string{}
		for i, el := range x.Elts {
			var name string
			var v ast.Expr
			if kv, ok := el.(*ast.KeyValueExpr); ok {
				name = kv.Key.(*ast.Ident).Name
				v = kv.Value
			} else {
				name = u.Field(i).Name()
				v = el
			}
			if c.isNilExpr(v) {
				continue // an explicit nil is the zero value of the field
			}
			e := c.expr(v)
			if e.m {
				unsup("partial expression in composite literal")
			}
			vals[name] = e.s
		}
		var parts []string
		for i := 0; i < u.NumFields(); i++ {
			f := u.Field(i)
			v, ok := vals[f.Name()]
			if !ok {
				v = c.g.zero(f.Type())
			}
			parts = append(parts, "f_"+f.Name()+" := "+v)
		}
		return ex{"({ " + strings.Join(parts, ", ") + " } : " + lt + ")", false}
	case *types.Slice:
		var parts []string
		for _, el := range x.Elts {
			e := c.expr(el)
			if e.m {
				unsup("partial expression in slice literal")
			}
			parts = append(parts, e.s)
		}
		lt := c.g.leanType(t)
		return ex{"([" + strings.Join(parts, ", ") + "] : " + lt[1:len(lt)-1] + ")", false}
	}
	if _, ok := t.Underlying().(*types.Map); ok && len(x.Elts) == 0 {
		lt := c.g.leanType(t)
		return ex{"(some [] : " + lt[1:len(lt)-1] + ")", false}
	}
	unsup("composite literal of %s", t.String())
	return ex{}
}

var stringsFns = map[string]string{
	"strings.Split": "split", "strings.HasPrefix": "hasPrefix", "strings.HasSuffix": "hasSuffix", "strings.Contains": "contains",
	"strings.ToLower": "goLower", "strings.ToUpper": "goUpper", "strings.TrimSpace": "trimSpace", "strings.Join": "joinWith",
}

func (c *fnCtx) call(x *ast.CallExpr) ex {
	// conversion
	if tv, ok := c.g.p.TypesInfo.Types[x.Fun]; ok && tv.IsType() {
		if len(x.Args) != 1 {
			unsup("conversion arity")
		}
		from, to := c.g.leanType(c.typeOf(x.Args[0])), c.g.leanType(tv.Type)
		if from == "Str" && to == "(List Int)" {
			return c.pureApp("strBytes", c.expr(x.Args[0])) // []byte(s): the UTF-8 bytes
		}
		if from != to {
			unsup("conversion %s -> %s", from, to)
		}
		return c.expr(x.Args[0])
	}
	if id, ok := x.Fun.(*ast.Ident); ok {
		if o := c.g.p.TypesInfo.Uses[id]; o != nil && c.closures[o] {
			var as []ex
			for _, a := range x.Args {
				as = append(as, c.expr(a))
			}
			return c.pureApp(c.nameOf(o), as...)
		}
		switch id.Name {
		case "len":
			a := c.expr(x.Args[0])
			switch u := c.typeOf(x.Args[0]).Underlying().(type) {
			case *types.Basic:
				return c.pureApp("strLen", a)
			case *types.Slice:
				return c.pureApp("len", a)
			case *types.Map:
				return c.pureApp("mapLen", a)
			default:
				unsup("len of %s", u.String())
			}
		case "make":
			if _, ok := c.typeOf(x).Underlying().(*types.Map); ok {
				lt := c.g.leanType(c.typeOf(x))
				return ex{"(some [] : " + lt[1:len(lt)-1] + ")", false}
			}
			unsup("make of %s", c.typeOf(x).String())
		case "append":
			a := c.expr(x.Args[0])
			if x.Ellipsis.IsValid() {
				b := c.expr(x.Args[1])
				if a.m || b.m {
					return ex{"(do pure (" + a.bind() + " ++ " + b.bind() + "))", true}
				}
				return ex{"(" + a.s + " ++ " + b.s + ")", false}
			}
			var parts []string
			anyM := a.m
			var es []ex
			for _, r := range x.Args[1:] {
				e := c.expr(r)
				anyM = anyM || e.m
				es = append(es, e)
			}
			for _, e := range es {
				parts = append(parts, e.bind())
			}
			s := "(" + a.bind() + " ++ [" + strings.Join(parts, ", ") + "])"
			if anyM {
				return ex{"(do pure " + s + ")", true}
			}
			return ex{s, false}
		}
	}
	if se, ok := x.Fun.(*ast.SelectorExpr); ok {
		qual := selName(x.Fun)
		if f, ok := stringsFns[qual]; ok {
			if pid, ok := se.X.(*ast.Ident); ok {
				if _, isPkg := c.g.p.TypesInfo.Uses[pid].(*types.PkgName); isPkg {
					var as []ex
					for _, a := range x.Args {
						as = append(as, c.expr(a))
					}
					return c.pureApp(f, as...)
				}
			}
		}
		if qual == "fmt.Errorf" || qual == "errors.New" {
			return ex{"true", false} // a non-nil error; message text is not modelled
		}
		if qual == "time.Unix" && len(x.Args) == 2 {
			if z, ok := c.constExpr(x.Args[1]); ok && z == "(0 : Int)" {
				return c.expr(x.Args[0])
			}
		}
		if qual == "time.Now" && len(x.Args) == 0 {
			return ex{"now", false}
		}
		if qual == "fmt.Sprintf" {
			// a literal format made of plain text and %s verbs over string arguments is exact concatenation;
			// anything else is message text, which is not modelled
			if parts, ok := c.sprintfConcat(x); ok {
				return parts
			}
			return ex{"([] : Str)", false} // message text is not modelled
		}
		if id, ok := se.X.(*ast.Ident); ok && se.Sel.Name == "String" && len(x.Args) == 0 {
			if o := c.g.p.TypesInfo.Uses[id]; o != nil && c.bldrVars[o] {
				return ex{c.nameOf(o), false}
			}
		}
		// h.Sum(nil) on a hash accumulator; base32.StdEncoding.EncodeToString(x)
		if id, ok := se.X.(*ast.Ident); ok && se.Sel.Name == "Sum" && len(x.Args) == 1 && c.isNilExpr(x.Args[0]) {
			if o := c.g.p.TypesInfo.Uses[id]; o != nil && c.hashVars[o] != "" {
				c.g.needForeign(c.hashVars[o])
				return ex{"(opq." + strings.ReplaceAll(c.hashVars[o], ".", "_") + " " + c.nameOf(o) + ")", false}
			}
		}
		if qual == "bytes.HasPrefix" && len(x.Args) == 2 {
			return c.pureApp("bytesHasPrefix", c.expr(x.Args[0]), c.expr(x.Args[1]))
		}
		if types.ExprString(x.Fun) == "base32.StdEncoding.WithPadding(base32.NoPadding).EncodeToString" && len(x.Args) == 1 {
			c.g.needForeign("base32.StdNoPadEncode")
			return c.pureApp("opq.base32_StdNoPadEncode", c.expr(x.Args[0]))
		}
		if types.ExprString(x.Fun) == "base32.StdEncoding.EncodeToString" && len(x.Args) == 1 {
			c.g.needForeign("base32.StdEncode")
			return c.pureApp("opq.base32_StdEncode", c.expr(x.Args[0]))
		}
		if se.Sel.Name == "Hostname" && len(x.Args) == 0 && c.g.leanTypeQuiet(c.typeOf(se.X)) == "T_url_URL" {
			a := c.expr(se.X)
			if a.m {
				return ex{"(do pure (" + a.bind() + ").m_Hostname)", true}
			}
			return ex{a.s + ".m_Hostname", false}
		}
		if se.Sel.Name == "Error" && len(x.Args) == 0 && isErrorType(c.typeOf(se.X)) {
			return ex{"([] : Str)", false} // message text is not modelled
		}
		if se.Sel.Name == "Nanoseconds" && len(x.Args) == 0 {
			if n, ok := c.typeOf(se.X).(*types.Named); ok && n.Obj().Pkg() != nil && n.Obj().Pkg().Path() == "time" && n.Obj().Name() == "Duration" {
				return c.expr(se.X)
			}
		}
		// time.Time.Unix() on a modelled time value; time.Now().UTC().Unix()
		if se.Sel.Name == "Unix" && len(x.Args) == 0 {
			if isNowChain(se.X) {
				return ex{"now", false}
			}
			// time.Now().Add(d)[.UTC()].Unix(): the sub-second part of the clock decides the rounding, so the result
			// is a parameter (nothing is assumed about it), not a function of `now`
			if d := nowAddArg(se.X); d != nil {
				q := "time.NowAddUnix"
				if c.g.foreign == nil {
					c.g.foreign = map[string]bool{}
				}
				if !c.g.foreign[q] {
					c.g.foreign[q] = true
					c.g.foreignOrd = append(c.g.foreignOrd, q)
				}
				return c.pureApp("opq.time_NowAddUnix", c.expr(d))
			}
			if usesTimeNow(se.X) {
				unsup("arithmetic on time.Now()")
			}
			if c.g.leanType(c.typeOf(se.X)) == "Int" {
				return c.expr(se.X)
			}
		}
	}
	if q := c.g.foreignCall(x); q != "" && foreignOpaque[q] == "Str → Int" {
		return c.pureApp("opq."+strings.ReplaceAll(q, ".", "_"), c.expr(x.Args[0]))
	}
	if se, ok := x.Fun.(*ast.SelectorExpr); ok && se.Sel.Name == "Verify" && len(x.Args) == 2 && c.g.leanTypeQuiet(c.typeOf(se.X)) == "Nat" {
		q := "KeyPair.Verify"
		if c.g.foreign == nil {
			c.g.foreign = map[string]bool{}
		}
		if !c.g.foreign[q] {
			c.g.foreign[q] = true
			c.g.foreignOrd = append(c.g.foreignOrd, q)
		}
		return c.pureApp("opq.KeyPair_Verify", c.expr(se.X), c.expr(x.Args[0]), c.expr(x.Args[1]))
	}
	if q := c.g.foreignCall(x); q != "" && foreignOpaque[q] == "Str → Bool" {
		return c.pureApp("opq."+strings.ReplaceAll(q, ".", "_"), c.expr(x.Args[0]))
	}
	if se, ok := x.Fun.(*ast.SelectorExpr); ok {
		if in, ok := c.g.ifaceOf(c.typeOf(se.X)); ok {
			if q := in + "." + se.Sel.Name; foreignOpaque[q] != "" {
				if c.g.foreign == nil {
					c.g.foreign = map[string]bool{}
				}
				if !c.g.foreign[q] {
					c.g.foreign[q] = true
					c.g.foreignOrd = append(c.g.foreignOrd, q)
				}
				as := []ex{c.expr(se.X)}
				for _, a := range x.Args {
					as = append(as, c.expr(a))
				}
				return c.pureApp("opq."+strings.ReplaceAll(q, ".", "_"), as...)
			}
			return c.ifaceCall(in, se, x)
		}
	}
	if fi := c.g.callee(x); fi != nil {
		anyMut := false
		for _, m := range fi.mutated {
			anyMut = anyMut || m
		}
		if anyMut {
			unsup("mutating call to %s in expression position", fi.key)
		}
		return c.callFn(x, fi)
	}
	unsup("call %s", selNameAny(x.Fun))
	return ex{}
}

// ifaceDispatch: the pseudo function info of the dispatcher of interface method `in.m` (any arguments; mutated
// parameters as the implementors have them, which must agree); the dispatcher definition is emitted on first use
func (c *fnCtx) ifaceDispatch(in, m string) *fnInfo {
	dname := "I_" + in + "." + m
	var first *fnInfo
	var alts []string
	for _, impl := range c.g.ifaces[in] {
		fi, ok := c.g.fns[impl+"."+m]
		if !ok || fi.retType == "" {
			unsup("interface method %s.%s: %s.%s is not translated", in, m, impl, m)
		}
		if first == nil {
			first = fi
		} else if fi.retType != first.retType || len(fi.params) != len(first.params) || fi.usesNow != first.usesNow || fi.usesOpq != first.usesOpq {
			unsup("interface method %s.%s: implementors differ", in, m)
		}
		var as []string
		for i := 1; i < len(fi.params); i++ {
			as = append(as, fmt.Sprintf("a%d", i))
		}
		if fi.usesNow {
			as = append(as, "now")
		}
		if fi.usesOpq {
			as = append(as, "opq")
		}
		alts = append(alts, fmt.Sprintf("  | .%s v => %s v %s", impl, fi.leanName, strings.Join(as, " ")))
	}
	if first == nil {
		unsup("interface %s has no implementor", in)
	}
	if c.g.dispatch == nil {
		c.g.dispatch = map[string]bool{}
	}
	if !c.g.dispatch[dname] {
		c.g.dispatch[dname] = true
		var ps []string
		for i := 1; i < len(first.params); i++ {
			ps = append(ps, fmt.Sprintf("(a%d : %s)", i, c.g.leanType(first.params[i].Type())))
		}
		if first.usesNow {
			ps = append(ps, "(now : Int)")
		}
		if first.usesOpq {
			ps = append(ps, "(opq : Opq)")
		}
		c.aux = append(c.aux, fmt.Sprintf("/-- dynamic dispatch of `%s.%s` -/\ndef %s (c : I_%s) %s : Option %s :=\n  match c with\n%s\n", in, m, dname, in, strings.Join(ps, " "), first.retType, strings.Join(alts, "\n")))
	}
	d := *first
	d.key, d.leanName, d.fd = in+"."+m, dname, nil
	d.optPtr = map[types.Object]bool{}
	d.mutated = append([]bool{}, first.mutated...)
	d.mutated[0] = false
	return &d
}

// ifaceCall: a method call on a value of a package interface: dispatch on the dynamic type. Every implementor's
// method must be translated, take no further arguments and mutate nothing.
func (c *fnCtx) ifaceCall(in string, se *ast.SelectorExpr, x *ast.CallExpr) ex {
	m := se.Sel.Name
	dname := "I_" + in + "." + m
	var first *fnInfo
	if !c.g.dispatch[dname] {
		var alts []string
		for _, impl := range c.g.ifaces[in] {
			fi, ok := c.g.fns[impl+"."+m]
			recv := "v"
			if !ok {
				// a method promoted from an embedded struct: dispatch to that struct's method on the embedded field
				if tn, isT := c.g.p.Types.Scope().Lookup(impl).(*types.TypeName); isT {
					obj, index, _ := types.LookupFieldOrMethod(types.NewPointer(tn.Type()), true, c.g.p.Types, m)
					if fn, isF := obj.(*types.Func); isF && len(index) > 1 {
						t := tn.Type()
						for _, ix := range index[:len(index)-1] {
							st := t.Underlying().(*types.Struct)
							recv += ".f_" + st.Field(ix).Name()
							t = st.Field(ix).Type()
							if pt, isP := t.(*types.Pointer); isP {
								t = pt.Elem()
							}
						}
						if rn, isN := t.(*types.Named); isN {
							fi, ok = c.g.fns[rn.Obj().Name()+"."+fn.Name()]
						}
					}
				}
			}
			if !ok || fi.retType == "" {
				unsup("interface method %s.%s: %s.%s is not translated", in, m, impl, m)
			}
			for _, mu := range fi.mutated {
				if mu {
					unsup("interface method %s.%s mutates", in, m)
				}
			}
			if first != nil && (first.retType != fi.retType || len(first.params) != len(fi.params) || first.usesOpq != fi.usesOpq || first.usesNow != fi.usesNow) {
				unsup("interface method %s.%s: implementors differ", in, m)
			}
			if first == nil {
				first = fi
			}
			var as []string
			for i := 1; i < len(fi.params); i++ {
				as = append(as, fmt.Sprintf("a%d", i))
			}
			if fi.usesNow {
				as = append(as, "now")
			}
			if fi.usesOpq {
				as = append(as, "opq")
			}
			alts = append(alts, strings.TrimRight(fmt.Sprintf("  | .%s v => %s %s %s", impl, fi.leanName, recv, strings.Join(as, " ")), " "))
		}
		if first == nil {
			unsup("interface %s has no implementor", in)
		}
		if c.g.dispatch == nil {
			c.g.dispatch = map[string]bool{}
			c.g.dispatchInfo = map[string]*fnInfo{}
		}
		if c.g.dispatchInfo == nil {
			c.g.dispatchInfo = map[string]*fnInfo{}
		}
		c.g.dispatch[dname] = true
		c.g.dispatchInfo[dname] = first
		var ps []string
		for i := 1; i < len(first.params); i++ {
			ps = append(ps, fmt.Sprintf("(a%d : %s)", i, c.g.leanType(first.params[i].Type())))
		}
		if first.usesNow {
			ps = append(ps, "(now : Int)")
		}
		if first.usesOpq {
			ps = append(ps, "(opq : Opq)")
		}
		sig := ""
		if len(ps) > 0 {
			sig = " " + strings.Join(ps, " ")
		}
		c.aux = append(c.aux, fmt.Sprintf("/-- dynamic dispatch of `%s.%s` -/\ndef %s (c : I_%s)%s : Option %s :=\n  match c with\n%s\n", in, m, dname, in, sig, first.retType, strings.Join(alts, "\n")))
	} else if c.g.dispatchInfo != nil {
		first = c.g.dispatchInfo[dname]
	}
	recv := c.expr(se.X)
	parts := []string{recv.bind()}
	for _, a := range x.Args {
		parts = append(parts, c.expr(a).bind())
	}
	if first != nil {
		if len(x.Args) != len(first.params)-1 {
			unsup("interface method call arity")
		}
		if first.usesNow {
			parts = append(parts, "now")
		}
		if first.usesOpq {
			parts = append(parts, "opq")
		}
	} else if len(x.Args) != 0 {
		unsup("interface method call with arguments")
	}
	return ex{"(" + dname + " " + strings.Join(parts, " ") + ")", true}
}

func selNameAny(e ast.Expr) string {
	if s := selName(e); s != "" {
		return s
	}
	if se, ok := e.(*ast.SelectorExpr); ok {
		return "?." + se.Sel.Name
	}
	return fmt.Sprintf("%T", e)
}

// callFn: application of a translated function (always monadic)
func (c *fnCtx) callFn(x *ast.CallExpr, fi *fnInfo) ex {
	args := c.callArgs(x, fi)
	sig := fi.sig
	nfix := len(fi.params)
	var parts []string
	if sig.Variadic() {
		nfix--
	}
	for i := 0; i < nfix; i++ {
		if fi.params[i].Name() == "format" && isString(fi.params[i].Type()) {
			parts = append(parts, "([] : Str)") // message text is not modelled
			continue
		}
		if in, isI := c.g.ifaceOf(fi.params[i].Type()); isI {
			if tn, isP := ptrToStruct(c.typeOf(args[i])); isP {
				if ue, ok := ast.Unparen(args[i]).(*ast.UnaryExpr); ok && ue.Op == token.AND {
					if _, isId := ue.X.(*ast.Ident); isId {
						unsup("address of a local variable passed as an interface value (writes through it are not tracked)")
					}
				}
				a := c.expr(args[i])
				c.g.leanType(c.typeOf(args[i]))
				if c.rawPtr[a.s] {
					parts = append(parts, "("+a.s+".map I_"+in+"."+tn.Obj().Name()+")")
				} else {
					parts = append(parts, "(some (I_"+in+"."+tn.Obj().Name()+" "+a.bind()+"))")
				}
				continue
			}
		}
		a := c.expr(args[i])
		if i == 0 && fi.hasRecv {
			// a method promoted from an embedded field: the receiver is that field
			if se, ok := x.Fun.(*ast.SelectorExpr); ok {
				if sel, ok := c.g.p.TypesInfo.Selections[se]; ok && sel.Kind() == types.MethodVal && len(sel.Index()) > 1 {
					t := sel.Recv()
					path := ""
					for _, ix := range sel.Index()[:len(sel.Index())-1] {
						if pt, ok := t.Underlying().(*types.Pointer); ok {
							t = pt.Elem()
						}
						st := t.Underlying().(*types.Struct)
						path += ".f_" + st.Field(ix).Name()
						t = st.Field(ix).Type()
					}
					if a.m {
						a = ex{"(do pure (" + a.bind() + ")" + path + ")", true}
					} else {
						a = ex{a.s + path, false}
					}
				}
			}
		}
		if fi.optPtr[fi.params[i]] {
			switch {
			case c.rawPtr[a.s]:
				parts = append(parts, a.s)
			case !a.m:
				parts = append(parts, "(some "+a.s+")")
			default:
				parts = append(parts, "(some "+a.bind()+")")
			}
			continue
		}
		parts = append(parts, a.bind())
	}
	if sig.Variadic() {
		if x.Ellipsis.IsValid() {
			parts = append(parts, c.expr(args[nfix]).bind())
		} else {
			var vs []string
			elemUnit := c.g.leanType(fi.params[nfix].Type().(*types.Slice).Elem()) == "Unit"
			for _, a := range args[nfix:] {
				if elemUnit {
					vs = append(vs, "()")
				} else {
					vs = append(vs, c.expr(a).bind())
				}
			}
			parts = append(parts, "["+strings.Join(vs, ", ")+"]")
		}
	}
	if fi.usesNow {
		parts = append(parts, "now")
	}
	if fi.usesOpq {
		parts = append(parts, "opq")
	}
	return ex{"(" + fi.leanName + " " + strings.Join(parts, " ") + ")", true}
}

// ---------- statements ----------

type block struct {
	lines []string
	ind   int
}

func (b *block) add(f string, a ...interface{}) {
	b.lines = append(b.lines, strings.Repeat("  ", b.ind)+fmt.Sprintf(f, a...))
}

func (c *fnCtx) retTuple(vals []string) string {
	var parts []string
	for i, m := range c.fi.mutated {
		if m {
			parts = append(parts, c.nameOf(c.fi.params[i]))
		}
	}
	parts = append(parts, vals...)
	switch len(parts) {
	case 0:
		return "()"
	case 1:
		return parts[0]
	}
	return "(" + strings.Join(parts, ", ") + ")"
}

func (c *fnCtx) stateTuple() string {
	var parts []string
	for _, o := range c.state {
		parts = append(parts, c.nameOf(o))
	}
	switch len(parts) {
	case 0:
		return "()"
	case 1:
		return parts[0]
	}
	return "(" + strings.Join(parts, ", ") + ")"
}

func (c *fnCtx) stateType() string {
	var parts []string
	for _, o := range c.state {
		parts = append(parts, c.varType(o))
	}
	switch len(parts) {
	case 0:
		return "Unit"
	case 1:
		return parts[0]
	}
	return "(" + strings.Join(parts, " × ") + ")"
}

// assignVar: `x = v` / `x := v` for a local variable object
func (c *fnCtx) assignVar(b *block, o types.Object, v string) {
	n := c.nameOf(o)
	if c.declared[o] {
		b.add("%s := %s", n, v)
	} else {
		c.declared[o] = true
		b.add("let mut %s : %s := %s", n, c.varType(o), v)
	}
}

// store: assignment to an lvalue expression
func (c *fnCtx) store(b *block, l ast.Expr, v string) {
	switch x := l.(type) {
	case *ast.ParenExpr:
		c.store(b, x.X, v)
	case *ast.Ident:
		if x.Name == "_" {
			return
		}
		o := c.g.p.TypesInfo.Defs[x]
		if o == nil {
			o = c.g.p.TypesInfo.Uses[x]
		}
		if _, ok := o.(*types.Var); !ok {
			unsup("assignment to %s", x.Name)
		}
		c.assignVar(b, o, v)
	case *ast.StarExpr:
		c.store(b, x.X, v)
	case *ast.UnaryExpr:
		if x.Op != token.AND {
			unsup("store to unary %s", x.Op)
		}
		c.store(b, x.X, v)
	case *ast.CallExpr: // a conversion such as (*TagList)(c): the store goes to the converted variable
		if tv, ok := c.g.p.TypesInfo.Types[x.Fun]; ok && tv.IsType() && len(x.Args) == 1 {
			c.store(b, x.Args[0], v)
			return
		}
		unsup("store to call result")
	case *ast.SelectorExpr:
		if sel, ok := c.g.p.TypesInfo.Selections[x]; ok && sel.Kind() == types.FieldVal {
			base := c.expr(x.X)
			if c.rawPtr[base.s] && len(sel.Index()) == 1 {
				// the base is a nilable pointer: write through it (a nil base panics)
				c.store(b, x.X, "(some { (← "+base.s+") with f_"+x.Sel.Name+" := "+v+" })")
				return
			}
			if base.m {
				unsup("partial base in field store")
			}
			// promoted fields: rebuild along the path
			t := sel.Recv()
			cur := base.s
			var names []string
			for _, i := range sel.Index() {
				if p, ok := t.Underlying().(*types.Pointer); ok {
					t = p.Elem()
				}
				f := t.Underlying().(*types.Struct).Field(i)
				names = append(names, "f_"+f.Name())
				t = f.Type()
			}
			var build func(obj string, k int) string
			build = func(obj string, k int) string {
				if k == len(names)-1 {
					return "{ " + obj + " with " + names[k] + " := " + v + " }"
				}
				return "{ " + obj + " with " + names[k] + " := " + build(obj+"."+names[k], k+1) + " }"
			}
			c.store(b, x.X, build(cur, 0))
			return
		}
		unsup("store to selector")
	case *ast.IndexExpr:
		if mt, ok := c.typeOf(x.X).Underlying().(*types.Map); ok {
			m, k := c.expr(x.X), c.expr(x.Index)
			if m.m {
				unsup("partial map store")
			}
			if c.g.leanType(mt.Elem()) == "Unit" {
				v = "()" // values of type interface{} are not modelled: only which keys are present
			}
			ks := k.s
			if k.m {
				// the key is computed by something that can panic: bind it first (Go evaluates it before the store)
				c.tmpN++
				ks = fmt.Sprintf("__k%d", c.tmpN)
				b.add("let %s ← %s", ks, k.opt())
			}
			c.store(b, x.X, "(← mapSet "+m.s+" "+ks+" "+v+")")
			return
		}
		unsup("indexed store")
	default:
		unsup("store to %T", l)
	}
}

func (c *fnCtx) stmts(b *block, list []ast.Stmt) {
	for _, s := range list {
		c.stmt(b, s)
	}
}

func (c *fnCtx) stmt(b *block, s ast.Stmt) {
	switch x := s.(type) {
	case *ast.BlockStmt:
		c.stmts(b, x.List)
	case *ast.DeclStmt:
		gd := x.Decl.(*ast.GenDecl)
		if gd.Tok != token.VAR {
			unsup("declaration %s", gd.Tok)
		}
		for _, sp := range gd.Specs {
			vs := sp.(*ast.ValueSpec)
			for i, id := range vs.Names {
				o := c.g.p.TypesInfo.Defs[id]
				if _, ok := ptrToStruct(o.Type()); ok && i >= len(vs.Values) {
					c.nilVars[o] = true // `var p *T`: nil
					c.assignVar(b, o, "none")
					continue
				}
				v := c.g.zero(o.Type())
				if i < len(vs.Values) {
					v = c.expr(vs.Values[i]).bind()
				}
				c.assignVar(b, o, v)
			}
		}
	case *ast.AssignStmt:
		c.assign(b, x)
	case *ast.IncDecStmt:
		e := c.expr(x.X)
		op := "+"
		if x.Tok == token.DEC {
			op = "-"
		}
		c.store(b, x.X, "("+e.bind()+" "+op+" 1)")
	case *ast.ExprStmt:
		call, ok := x.X.(*ast.CallExpr)
		if !ok {
			unsup("expression statement")
		}
		if se, ok := call.Fun.(*ast.SelectorExpr); ok && se.Sel.Name == "WriteString" && len(call.Args) == 1 {
			if id, ok := se.X.(*ast.Ident); ok {
				if o := c.g.p.TypesInfo.Uses[id]; o != nil && c.bldrVars[o] {
					c.assignVar(b, o, "("+c.nameOf(o)+" ++ "+c.expr(call.Args[0]).bind()+")")
					return
				}
			}
		}
		if se, ok := call.Fun.(*ast.SelectorExpr); ok && se.Sel.Name == "Write" && len(call.Args) == 1 {
			if id, ok := se.X.(*ast.Ident); ok {
				if o := c.g.p.TypesInfo.Uses[id]; o != nil && c.hashVars[o] != "" {
					b.add("%s := (%s ++ %s)", c.nameOf(o), c.nameOf(o), c.expr(call.Args[0]).bind())
					return
				}
			}
		}
		if id, ok := call.Fun.(*ast.Ident); ok && id.Name == "delete" {
			m, k := c.expr(call.Args[0]), c.expr(call.Args[1])
			c.store(b, call.Args[0], "(mapDelete "+m.bind()+" "+k.bind()+")")
			return
		}
		if se, ok := call.Fun.(*ast.SelectorExpr); ok {
			if in, ok := c.g.ifaceOf(c.typeOf(se.X)); ok {
				c.callStmt(b, call, c.ifaceDispatch(in, se.Sel.Name), nil)
				return
			}
		}
		// sort.Sort(x): x is replaced by what the (opaque) sort of its type returns
		if selName(call.Fun) == "sort.Sort" && len(call.Args) == 1 {
			if n, ok := c.typeOf(call.Args[0]).(*types.Named); ok && n.Obj().Pkg() == c.g.p.Types {
				q := "sort.Sort" + n.Obj().Name()
				lt := c.g.leanType(n)
				foreignOpaque[q] = lt + " → " + lt
				if c.g.foreign == nil {
					c.g.foreign = map[string]bool{}
				}
				if !c.g.foreign[q] {
					c.g.foreign[q] = true
					c.g.foreignOrd = append(c.g.foreignOrd, q)
				}
				a := c.expr(call.Args[0])
				c.store(b, call.Args[0], "(opq."+strings.ReplaceAll(q, ".", "_")+" "+a.bind()+")")
				return
			}
		}
		fi := c.g.callee(call)
		if fi == nil {
			unsup("call statement %s", selNameAny(call.Fun))
		}
		c.callStmt(b, call, fi, nil)
	case *ast.ReturnStmt:
		var vals []string
		// return f(args): all results of a call that writes through none of its arguments
		if len(x.Results) == 1 && len(c.fi.results) > 1 {
			if call, ok := x.Results[0].(*ast.CallExpr); ok {
				if fi2 := c.g.callee(call); fi2 != nil && len(fi2.results) == len(c.fi.results) {
					for _, m := range fi2.mutated {
						if m {
							unsup("return of a call that writes through a parameter")
						}
					}
					app := c.callFn(call, fi2)
					c.tmpN++
					tmp := fmt.Sprintf("__r%d", c.tmpN)
					b.add("let %s ← %s", tmp, app.s)
					for i := range c.fi.results {
						pr := tmp
						for j := 0; j < i; j++ {
							pr += ".2"
						}
						if i < len(c.fi.results)-1 {
							pr += ".1"
						}
						vals = append(vals, pr)
					}
					if c.inLoop {
						b.add("return Ctl.ret %s", c.retTuple(vals))
					} else {
						b.add("return %s", c.retTuple(vals))
					}
					return
				}
			}
		}
		for i, r := range x.Results {
			if c.isNilExpr(r) && isErrorType(c.fi.results[i]) {
				vals = append(vals, "false")
				continue
			}
			if c.isNilExpr(r) && c.g.leanTypeQuiet(c.fi.results[i]) == "Nat" {
				vals = append(vals, "(0 : Nat)") // a nil key pair, only ever returned next to an error: the handle means nothing then
				continue
			}
			if _, isI := c.g.ifaceOf(c.fi.results[i]); isI {
				if c.isNilExpr(r) {
					vals = append(vals, "none")
					continue
				}
				if id, ok := r.(*ast.Ident); ok {
					if o := c.g.p.TypesInfo.Uses[id]; o != nil {
						if _, isIv := c.g.ifaceOf(o.Type()); isIv || c.nilVars[o] || c.fi.optPtr[o] {
							vals = append(vals, c.nameOf(o)) // the interface value itself (possibly nil)
							continue
						}
					}
				}
				if in, ok := c.g.ifaceOf(c.fi.results[i]); ok {
					if tn, isP := ptrToStruct(c.typeOf(r)); isP {
						a := c.expr(r)
						c.g.leanType(c.typeOf(r))
						vals = append(vals, "(some (I_"+in+"."+tn.Obj().Name()+" "+a.bind()+"))")
						continue
					}
				}
				unsup("interface result outside the subset")
			}
			if i < len(c.fi.nilPtrRes) && c.fi.nilPtrRes[i] {
				if c.isNilExpr(r) {
					vals = append(vals, "none")
					continue
				}
				if id, ok := r.(*ast.Ident); ok {
					if o := c.g.p.TypesInfo.Uses[id]; o != nil && (c.nilVars[o] || c.fi.optPtr[o]) {
						vals = append(vals, c.nameOf(o))
						continue
					}
				}
				vals = append(vals, "(some "+c.expr(r).bind()+")")
				continue
			}
			if _, isSlice := c.fi.results[i].Underlying().(*types.Slice); isSlice && nilSliceKey(c.fi.key) {
				if c.isNilExpr(r) {
					vals = append(vals, "none")
				} else {
					vals = append(vals, "(some "+c.expr(r).bind()+")")
				}
				continue
			}
			vals = append(vals, c.expr(r).bind())
		}
		if len(x.Results) == 0 && len(c.fi.results) > 0 {
			unsup("bare return with named results")
		}
		if c.inLoop {
			b.add("return Ctl.ret %s", c.retTuple(vals))
		} else {
			b.add("return %s", c.retTuple(vals))
		}
	case *ast.BranchStmt:
		if x.Label != nil || !c.inLoop {
			unsup("branch %s", x.Tok)
		}
		switch x.Tok {
		case token.BREAK:
			b.add("return Ctl.brk %s", c.stateTuple())
		case token.CONTINUE:
			b.add("return Ctl.next %s", c.stateTuple())
		default:
			unsup("branch %s", x.Tok)
		}
	case *ast.IfStmt:
		if x.Init != nil {
			c.stmt(b, x.Init)
		}
		cond := c.expr(x.Cond)
		// an `if` whose branches only update variables (no return / break / continue) is a value: the updated
		// variables. Emitting it as one bind keeps the definition a flat sequence, which proofs can peel off.
		if vars, ok := c.ifAsValue(x); ok {
			tup := tupleOf(c, vars)
			b.add("let __v ← (if %s then (do", cond.bind())
			inner := &block{ind: b.ind + 2}
			c.branch(inner, x.Body.List, vars)
			inner.add("pure %s)", tup)
			b.lines = append(b.lines, inner.lines...)
			b.add("  else (do")
			inner2 := &block{ind: b.ind + 2}
			if x.Else != nil {
				c.branch(inner2, []ast.Stmt{x.Else}, vars)
			}
			inner2.add("pure %s))", tup)
			b.lines = append(b.lines, inner2.lines...)
			for i, o := range vars {
				pr := "__v"
				if len(vars) > 1 {
					for j := 0; j < i; j++ {
						pr += ".2"
					}
					if i < len(vars)-1 {
						pr += ".1"
					}
				}
				b.add("%s := %s", c.nameOf(o), pr)
			}
			return
		}
		b.add("if %s then", cond.bind())
		inner := &block{ind: b.ind + 1}
		c.stmts(inner, x.Body.List)
		if len(inner.lines) == 0 {
			inner.add("pure ()")
		}
		b.lines = append(b.lines, inner.lines...)
		if x.Else != nil {
			b.add("else")
			inner2 := &block{ind: b.ind + 1}
			c.stmt(inner2, x.Else)
			if len(inner2.lines) == 0 {
				inner2.add("pure ()")
			}
			b.lines = append(b.lines, inner2.lines...)
		}
	case *ast.SwitchStmt:
		c.switchStmt(b, x)
	case *ast.RangeStmt:
		c.rangeStmt(b, x)
	default:
		unsup("statement %T", s)
	}
}

// ifAsValue: the variables (declared before the statement) that the branches of an `if` update, when the branches
// contain no return / break / continue and update at least one
func (c *fnCtx) ifAsValue(x *ast.IfStmt) ([]types.Object, bool) {
	escapes := false
	ast.Inspect(x, func(n ast.Node) bool {
		switch n.(type) {
		case *ast.ReturnStmt, *ast.BranchStmt:
			escapes = true
		}
		return true
	})
	if escapes {
		return nil, false
	}
	w := c.written(x.Body)
	if x.Else != nil {
		for o := range c.written(x.Else) {
			w[o] = true
		}
	}
	var vars []types.Object
	for o := range w {
		if v, ok := o.(*types.Var); ok && c.declared[o] && !(v.Pos() >= x.Pos() && v.Pos() < x.End()) {
			vars = append(vars, o)
		}
	}
	if len(vars) == 0 {
		return nil, false
	}
	sort.Slice(vars, func(i, j int) bool { return vars[i].Pos() < vars[j].Pos() })
	return vars, true
}

func tupleOf(c *fnCtx, vars []types.Object) string {
	var parts []string
	for _, o := range vars {
		parts = append(parts, c.nameOf(o))
	}
	if len(parts) == 1 {
		return parts[0]
	}
	return "(" + strings.Join(parts, ", ") + ")"
}

// branch: the statements of one branch of an `if` emitted as a value; the updated variables are shadowed inside
func (c *fnCtx) branch(b *block, list []ast.Stmt, vars []types.Object) {
	for _, o := range vars {
		b.add("let mut %s := %s", c.nameOf(o), c.nameOf(o))
	}
	// variables first declared inside the branch must not stay marked as declared afterwards
	before := map[types.Object]bool{}
	for o := range c.declared {
		before[o] = true
	}
	c.stmts(b, list)
	for o := range c.declared {
		if !before[o] {
			delete(c.declared, o)
		}
	}
}

func (c *fnCtx) switchStmt(b *block, x *ast.SwitchStmt) {
	if x.Init != nil {
		c.stmt(b, x.Init)
	}
	// a clause whose whole body is `fallthrough` lends its labels to the next (non-default) clause; no other
	// break/fallthrough inside
	soleFall := map[*ast.CaseClause]bool{}
	for i, cl := range x.Body.List {
		cc := cl.(*ast.CaseClause)
		if len(cc.Body) == 1 && cc.List != nil && i+1 < len(x.Body.List) {
			if br, ok := cc.Body[0].(*ast.BranchStmt); ok && br.Tok == token.FALLTHROUGH && x.Body.List[i+1].(*ast.CaseClause).List != nil {
				soleFall[cc] = true
			}
		}
	}
	ast.Inspect(x.Body, func(n ast.Node) bool {
		if cc, ok := n.(*ast.CaseClause); ok && soleFall[cc] {
			return false
		}
		if br, ok := n.(*ast.BranchStmt); ok && (br.Tok == token.BREAK || br.Tok == token.FALLTHROUGH) {
			unsup("break/fallthrough in switch")
		}
		return true
	})
	var carried []ast.Expr
	tag := ""
	if x.Tag != nil {
		c.tmpN++
		tag = fmt.Sprintf("__tag%d", c.tmpN)
		b.add("let %s := %s", tag, c.expr(x.Tag).bind())
	}
	var def *ast.CaseClause
	first := true
	for _, cl := range x.Body.List {
		cc := cl.(*ast.CaseClause)
		if cc.List == nil {
			def = cc
			continue
		}
		if soleFall[cc] {
			carried = append(carried, cc.List...)
			continue
		}
		var conds []string
		labels := append(carried, cc.List...)
		carried = nil
		for _, e := range labels {
			v := c.expr(e)
			if v.m {
				unsup("partial case expression")
			}
			if tag != "" {
				conds = append(conds, "("+tag+" == "+v.s+")")
			} else {
				conds = append(conds, v.s)
			}
		}
		kw := "else if"
		if first {
			kw = "if"
		}
		first = false
		b.add("%s %s then", kw, strings.Join(conds, " || "))
		inner := &block{ind: b.ind + 1}
		c.stmts(inner, cc.Body)
		if len(inner.lines) == 0 {
			inner.add("pure ()")
		}
		b.lines = append(b.lines, inner.lines...)
	}
	if def != nil {
		if first {
			c.stmts(b, def.Body)
			return
		}
		b.add("else")
		inner := &block{ind: b.ind + 1}
		c.stmts(inner, def.Body)
		if len(inner.lines) == 0 {
			inner.add("pure ()")
		}
		b.lines = append(b.lines, inner.lines...)
	}
}

func (c *fnCtx) assign(b *block, x *ast.AssignStmt) {
	switch x.Tok {
	case token.ASSIGN, token.DEFINE:
	case token.ADD_ASSIGN, token.SUB_ASSIGN:
		op := "+"
		if x.Tok == token.SUB_ASSIGN {
			op = "-"
		}
		if isString(c.typeOf(x.Lhs[0])) {
			op = "++"
		}
		l, r := c.expr(x.Lhs[0]), c.expr(x.Rhs[0])
		c.store(b, x.Lhs[0], "("+l.bind()+" "+op+" "+r.bind()+")")
		return
	default:
		unsup("assignment %s", x.Tok)
	}
	// p := f(args) where f may return a nil pointer and the very next statement dereferences p: the nil case
	// panics there with nothing observable in between, so p is bound to the pointee right away
	if len(x.Lhs) == 1 && len(x.Rhs) == 1 && x.Tok == token.DEFINE {
		if call, ok := x.Rhs[0].(*ast.CallExpr); ok {
			if fi := c.g.callee(call); fi != nil && fi.fd != nil && len(fi.results) == 1 && len(fi.nilPtrRes) == 1 && fi.nilPtrRes[0] {
				id, _ := x.Lhs[0].(*ast.Ident)
				if id == nil || id.Name == "_" {
					unsup("nilable pointer result not kept in a variable")
				}
				o := c.g.p.TypesInfo.Defs[id]
				if o == nil || !c.g.derefNext(c.fi.fd.Body, x, o) {
					unsup("nilable pointer result kept in a variable that is not dereferenced by the next statement")
				}
				app := c.callFn(call, fi)
				c.assignVar(b, o, "(← "+app.bind()+")")
				return
			}
		}
	}
	// bldr := strings.Builder{}: a string builder is the text written so far
	if len(x.Lhs) == 1 && len(x.Rhs) == 1 && x.Tok == token.DEFINE {
		if cl, ok := x.Rhs[0].(*ast.CompositeLit); ok && len(cl.Elts) == 0 && cl.Type != nil && types.ExprString(cl.Type) == "strings.Builder" {
			if id, ok := x.Lhs[0].(*ast.Ident); ok {
				o := c.g.p.TypesInfo.Defs[id]
				if c.bldrVars == nil {
					c.bldrVars = map[types.Object]bool{}
				}
				c.bldrVars[o] = true
				c.declared[o] = true
				b.add("let mut %s : Str := ([] : Str)", c.nameOf(o))
				return
			}
		}
	}
	// h := sha256.New(): a hash accumulator is the list of bytes written so far; Sum(nil) hands it to the opaque digest
	if len(x.Lhs) == 1 && len(x.Rhs) == 1 && x.Tok == token.DEFINE {
		if call, ok := x.Rhs[0].(*ast.CallExpr); ok && len(call.Args) == 0 {
			if q := types.ExprString(call.Fun); q == "sha256.New" || q == "sha512.New512_256" {
				if id, ok := x.Lhs[0].(*ast.Ident); ok {
					o := c.g.p.TypesInfo.Defs[id]
					if c.hashVars == nil {
						c.hashVars = map[types.Object]string{}
					}
					c.hashVars[o] = map[string]string{"sha256.New": "sha256.Sum", "sha512.New512_256": "sha512.Sum512_256"}[q]
					c.declared[o] = true
					b.add("let mut %s : (List Int) := ([] : List Int)", c.nameOf(o))
					return
				}
			}
		}
	}
	// v, ok := x.(*T)
	if len(x.Lhs) == 2 && len(x.Rhs) == 1 {
		if ta, ok := x.Rhs[0].(*ast.TypeAssertExpr); ok && ta.Type != nil {
			in, isI := c.g.ifaceOf(c.typeOf(ta.X))
			tn, isP := ptrToStruct(c.typeOf(ta.Type))
			src := c.expr(ta.X)
			if !isI || !isP || !c.rawPtr[src.s] {
				unsup("type assertion outside the subset")
			}
			c.g.leanType(c.typeOf(ta.Type))
			val := fmt.Sprintf("(match %s with | some (I_%s.%s __x) => some __x | _ => none)", src.s, in, tn.Obj().Name())
			if id, ok := x.Lhs[0].(*ast.Ident); ok && id.Name != "_" {
				o := c.g.p.TypesInfo.Defs[id]
				if o == nil {
					unsup("type assertion into an existing variable")
				}
				c.nilVars[o] = true
				c.assignVar(b, o, val)
				c.store(b, x.Lhs[1], "("+c.nameOf(o)+").isSome")
			} else {
				c.store(b, x.Lhs[1], "("+val+").isSome")
			}
			return
		}
	}
	// j, err := json.Marshal(x) for a struct (or pointer to struct) of the package: the (opaque) encoder of its type
	if len(x.Lhs) == 2 && len(x.Rhs) == 1 {
		if call, ok := x.Rhs[0].(*ast.CallExpr); ok && selName(call.Fun) == "json.Marshal" && len(call.Args) == 1 {
			t := c.typeOf(call.Args[0])
			if pt, ok := t.Underlying().(*types.Pointer); ok {
				t = pt.Elem()
			}
			if _, isSt := t.Underlying().(*types.Struct); isSt {
				lt := c.g.leanType(t)
				q := "json.Marshal" + strings.TrimPrefix(lt, "T_")
				foreignOpaque[q] = lt + " → ((List Int) × Bool)"
				c.g.needForeign(q)
				c.tmpN++
				tmp := fmt.Sprintf("__j%d", c.tmpN)
				b.add("let %s := opq.%s %s", tmp, strings.ReplaceAll(q, ".", "_"), c.expr(call.Args[0]).bind())
				c.store(b, x.Lhs[0], tmp+".1")
				c.store(b, x.Lhs[1], tmp+".2")
				return
			}
		}
	}
	// p, err = OpaqueFn(args): the two results of an opaque package function
	if len(x.Lhs) >= 2 && len(x.Rhs) == 1 {
		if call, ok := x.Rhs[0].(*ast.CallExpr); ok {
			if fi := c.g.callee(call); fi != nil && fi.fd == nil && len(fi.results) == len(x.Lhs) {
				app := c.callFn(call, fi)
				c.tmpN++
				tmp := fmt.Sprintf("__o%d", c.tmpN)
				b.add("let %s ← %s", tmp, app.s)
				for i, l := range x.Lhs {
					pr := tmp
					for j := 0; j < i; j++ {
						pr += ".2"
					}
					if i < len(x.Lhs)-1 {
						pr += ".1"
					}
					if id, ok := l.(*ast.Ident); ok && id.Name != "_" && x.Tok == token.DEFINE {
						if o := c.g.p.TypesInfo.Defs[id]; o != nil {
							_, isP := ptrToStruct(o.Type())
							_, isI := c.g.ifaceOf(o.Type())
							if isP || isI {
								c.nilVars[o] = true
							}
						}
					}
					// a *T result stored into a variable of a package interface type
					if in, isI := c.g.ifaceOf(c.typeOf(l)); isI {
						if tn, isP := ptrToStruct(fi.results[i]); isP {
							c.g.leanType(fi.results[i])
							pr = "((" + pr + ").map I_" + in + "." + tn.Obj().Name() + ")"
						}
					}
					c.store(b, l, pr)
				}
				return
			}
		}
	}
	// _, err := time.Parse(f, s)   _, ipNet, err := net.ParseCIDR(s): only the error (and nil-ness of a pointer) is used
	if len(x.Lhs) >= 2 && len(x.Rhs) == 1 {
		if call, ok := x.Rhs[0].(*ast.CallExpr); ok {
			if q := c.g.foreignCall(call); q != "" && foreignErrOnly[q] {
				var as []string
				for _, a := range call.Args {
					as = append(as, c.expr(a).bind())
				}
				c.tmpN++
				tmp := fmt.Sprintf("__f%d", c.tmpN)
				b.add("let %s := opq.%s %s", tmp, strings.ReplaceAll(q, ".", "_"), strings.Join(as, " "))
				for i, l := range x.Lhs {
					if i == len(x.Lhs)-1 {
						c.store(b, l, tmp)
						continue
					}
					id, ok := l.(*ast.Ident)
					if !ok {
						unsup("result of %s stored outside a variable", q)
					}
					if id.Name == "_" {
						continue
					}
					o := c.g.p.TypesInfo.Defs[id]
					if o == nil {
						unsup("result of %s stored into an existing variable", q)
					}
					if _, isPtr := ptrToStruct(o.Type()); !isPtr {
						unsup("non-pointer result of %s is used", q)
					}
					unitPtr[o] = true
					c.nilVars[o] = true
					c.assignVar(b, o, "(if "+tmp+" then none else some ())")
				}
				return
			}
		}
	}
	// seed, err := kp.Seed() on a key-pair handle
	if len(x.Lhs) == 2 && len(x.Rhs) == 1 {
		if call, ok := x.Rhs[0].(*ast.CallExpr); ok && len(call.Args) == 0 {
			if se, ok := call.Fun.(*ast.SelectorExpr); ok && se.Sel.Name == "Seed" && c.g.leanTypeQuiet(c.typeOf(se.X)) == "Nat" {
				c.g.needForeign("KeyPair.Seed")
				c.tmpN++
				tmp := fmt.Sprintf("__f%d", c.tmpN)
				b.add("let %s := opq.KeyPair_Seed %s", tmp, c.expr(se.X).bind())
				c.store(b, x.Lhs[0], "("+tmp+".getD ([] : List Int))")
				c.store(b, x.Lhs[1], tmp+".isNone")
				return
			}
		}
	}
	// v, err := strconv.Atoi(s)
	if len(x.Lhs) == 2 && len(x.Rhs) == 1 {
		if call, ok := x.Rhs[0].(*ast.CallExpr); ok {
			if q := c.g.foreignCall(call); q != "" {
				var as []string
				for _, ae := range call.Args {
					as = append(as, c.expr(ae).bind())
				}
				c.tmpN++
				tmp := fmt.Sprintf("__f%d", c.tmpN)
				b.add("let %s := opq.%s %s", tmp, strings.ReplaceAll(q, ".", "_"), strings.Join(as, " "))
				if z, ok := map[string]string{"nkeys.FromPublicKey": "(0 : Nat)", "nkeys.FromSeed": "(0 : Nat)", "nkeys.Decode": "([] : List Int)"}[q]; ok {
					c.store(b, x.Lhs[0], "("+tmp+".getD "+z+")")
					c.store(b, x.Lhs[1], tmp+".isNone")
					return
				}
				if q == "url.Parse" {
					c.g.leanType(c.typeOf(x.Lhs[0]))
					if id, ok := x.Lhs[0].(*ast.Ident); ok && id.Name != "_" {
						o := c.g.p.TypesInfo.Defs[id]
						if o == nil {
							unsup("url.Parse into an existing variable")
						}
						c.nilVars[o] = true
						c.assignVar(b, o, tmp)
					}
					c.store(b, x.Lhs[1], tmp+".isNone")
					return
				}
				c.store(b, x.Lhs[0], "("+tmp+".getD (0 : Int))")
				c.store(b, x.Lhs[1], tmp+".isNone")
				return
			}
		}
	}
	// a, b, c := f(args): the results of a translated function that writes through none of its parameters
	if len(x.Lhs) >= 2 && len(x.Rhs) == 1 {
		if call, ok := x.Rhs[0].(*ast.CallExpr); ok {
			if fi := c.g.callee(call); fi != nil && fi.fd != nil && len(fi.results) == len(x.Lhs) {
				var targets []ast.Expr
				cargs := c.callArgs(call, fi)
				for i, m := range fi.mutated {
					if m {
						targets = append(targets, cargs[i])
					}
				}
				app := c.callFn(call, fi)
				c.tmpN++
				tmp := fmt.Sprintf("__r%d", c.tmpN)
				b.add("let %s ← %s", tmp, app.s)
				total := len(targets) + len(x.Lhs)
				projAt := func(k int) string {
					pr := tmp
					for j := 0; j < k; j++ {
						pr += ".2"
					}
					if k < total-1 {
						pr += ".1"
					}
					return pr
				}
				for k, t := range targets {
					c.store(b, t, projAt(k))
				}
				for i, l := range x.Lhs {
					pr := projAt(len(targets) + i)
					if id, ok := l.(*ast.Ident); ok && id.Name != "_" && x.Tok == token.DEFINE {
						if o := c.g.p.TypesInfo.Defs[id]; o != nil {
							if _, isI := c.g.ifaceOf(o.Type()); isI {
								c.nilVars[o] = true
							}
							if i < len(fi.nilPtrRes) && fi.nilPtrRes[i] {
								c.nilVars[o] = true
							}
						}
					}
					// a *T result stored into a variable of a package interface type
					if in, isI := c.g.ifaceOf(c.typeOf(l)); isI {
						if tn, isP := ptrToStruct(fi.results[i]); isP {
							if i < len(fi.nilPtrRes) && fi.nilPtrRes[i] {
								pr = "((" + pr + ").map I_" + in + "." + tn.Obj().Name() + ")"
							} else {
								pr = "(some (I_" + in + "." + tn.Obj().Name() + " " + pr + "))"
							}
						}
					}
					c.store(b, l, pr)
				}
				return
			}
		}
	}
	// v, ok := m[k]
	if len(x.Lhs) == 2 && len(x.Rhs) == 1 {
		if ix, ok := x.Rhs[0].(*ast.IndexExpr); ok {
			if mt, ok := c.typeOf(ix.X).Underlying().(*types.Map); ok {
				m, k := c.expr(ix.X), c.expr(ix.Index)
				if m.m || k.m {
					unsup("partial map read")
				}
				get := "(mapGet " + m.s + " " + k.s + ")"
				c.store(b, x.Lhs[0], "("+get+".getD "+c.g.zero(mt.Elem())+")")
				c.store(b, x.Lhs[1], get+".isSome")
				return
			}
		}
		unsup("two-value assignment")
	}
	if len(x.Lhs) != len(x.Rhs) {
		unsup("assignment arity")
	}
	if len(x.Lhs) > 1 {
		unsup("parallel assignment")
	}
	// err := json.Unmarshal(data, &x): x is replaced by what the (opaque) decoder of its type makes of it
	if call, ok := x.Rhs[0].(*ast.CallExpr); ok && selName(call.Fun) == "json.Unmarshal" && len(call.Args) == 2 {
		if ue, ok := call.Args[1].(*ast.UnaryExpr); ok && ue.Op == token.AND {
			if _, isSt := c.typeOf(ue.X).Underlying().(*types.Struct); isSt {
				lt := c.g.leanType(c.typeOf(ue.X))
				q := "json.Unmarshal" + strings.TrimPrefix(lt, "T_")
				foreignOpaque[q] = "(List Int) → " + lt + " → (" + lt + " × Bool)"
				if c.g.foreign == nil {
					c.g.foreign = map[string]bool{}
				}
				if !c.g.foreign[q] {
					c.g.foreign[q] = true
					c.g.foreignOrd = append(c.g.foreignOrd, q)
				}
				d, v := c.expr(call.Args[0]), c.expr(ue.X)
				c.tmpN++
				tmp := fmt.Sprintf("__u%d", c.tmpN)
				b.add("let %s := opq.%s %s %s", tmp, strings.ReplaceAll(q, ".", "_"), d.bind(), v.bind())
				c.store(b, ue.X, tmp+".1")
				c.store(b, x.Lhs[0], tmp+".2")
				return
			}
		}
	}
	// m[k] = nil / v = nil for an interface-typed destination
	if c.isNilExpr(x.Rhs[0]) {
		if _, isI := c.g.ifaceOf(c.typeOf(x.Lhs[0])); isI {
			c.store(b, x.Lhs[0], "none")
			return
		}
	}
	// v := x.M() where M's slice result may be nil: v is a nilable slice
	if call, ok := x.Rhs[0].(*ast.CallExpr); ok && x.Tok == token.DEFINE {
		if se, ok := call.Fun.(*ast.SelectorExpr); ok && nilSliceMethods[se.Sel.Name] {
			if id, ok := x.Lhs[0].(*ast.Ident); ok && id.Name != "_" {
				if o := c.g.p.TypesInfo.Defs[id]; o != nil {
					c.nilVars[o] = true
				}
			}
		}
	}
	// a local function literal with a single return: `f := func(a T) R { return e }`
	if fl, ok := x.Rhs[0].(*ast.FuncLit); ok && x.Tok == token.DEFINE {
		id, ok := x.Lhs[0].(*ast.Ident)
		if !ok || len(fl.Body.List) != 1 {
			unsup("function literal outside the subset")
		}
		rs, ok := fl.Body.List[0].(*ast.ReturnStmt)
		if !ok || len(rs.Results) != 1 {
			unsup("function literal outside the subset")
		}
		var ps []string
		for _, f := range fl.Type.Params.List {
			for _, n := range f.Names {
				o := c.g.p.TypesInfo.Defs[n]
				c.declared[o] = true
				ps = append(ps, fmt.Sprintf("(%s : %s)", c.nameOf(o), c.g.leanType(o.Type())))
			}
		}
		body := c.expr(rs.Results[0])
		if body.m {
			unsup("partial function literal")
		}
		o := c.g.p.TypesInfo.Defs[id]
		c.closures[o] = true
		c.declared[o] = true
		b.add("let %s := fun %s => %s", c.nameOf(o), strings.Join(ps, " "), body.s)
		return
	}
	// mutating call on the right-hand side: x := recv.M(...)
	if call, ok := x.Rhs[0].(*ast.CallExpr); ok {
		if fi := c.g.callee(call); fi != nil {
			anyMut := false
			for _, m := range fi.mutated {
				anyMut = anyMut || m
			}
			if anyMut {
				c.callStmt(b, call, fi, x.Lhs[0])
				return
			}
		}
	}
	c.store(b, x.Lhs[0], c.expr(x.Rhs[0]).bind())
}

// callStmt: call of a translated function whose mutated parameters are written back; `dst` receives the (single) result
func (c *fnCtx) callStmt(b *block, call *ast.CallExpr, fi *fnInfo, dst ast.Expr) {
	app := c.callFn(call, fi)
	args := c.callArgs(call, fi)
	var targets []ast.Expr
	for i, m := range fi.mutated {
		if m {
			targets = append(targets, args[i])
		}
	}
	nres := len(fi.results)
	if dst == nil && nres > 0 && len(targets) > 0 {
		// results discarded
	}
	total := len(targets) + nres
	switch {
	case total == 0:
		b.add("let _ ← %s", app.s)
	case total == 1 && len(targets) == 1:
		c.store(b, targets[0], "(← "+app.s+")")
	case total == 1 && dst != nil:
		c.store(b, dst, "(← "+app.s+")")
	case total == 1:
		b.add("let _ ← %s", app.s)
	default:
		c.tmpN++
		tmp := fmt.Sprintf("__r%d", c.tmpN)
		b.add("let %s ← %s", tmp, app.s)
		proj := func(i int) string {
			// nested pairs: (a, b, c) = (a, (b, c))
			s := tmp
			for j := 0; j < i; j++ {
				s += ".2"
			}
			if i < total-1 {
				s += ".1"
			}
			return s
		}
		for i, t := range targets {
			c.store(b, t, proj(i))
		}
		if dst != nil && nres == 1 {
			c.store(b, dst, proj(len(targets)))
		} else if dst != nil {
			unsup("multi-result call")
		}
	}
}

func (c *fnCtx) rangeStmt(b *block, x *ast.RangeStmt) {
	if x.Tok != token.DEFINE && (x.Key != nil || x.Value != nil) {
		unsup("range with assignment")
	}
	// loop-carried state: variables declared outside the loop body and written inside it
	w := c.written(x.Body)
	var state []types.Object
	for o := range w {
		if v, ok := o.(*types.Var); ok && !(v.Pos() >= x.Pos() && v.Pos() < x.End()) {
			if v.Parent() == c.g.p.Types.Scope() {
				unsup("loop writes package-level variable")
			}
			state = append(state, o)
		}
	}
	sort.Slice(state, func(i, j int) bool { return state[i].Pos() < state[j].Pos() })
	// captured: variables used in the body, declared outside, not state
	inState := map[types.Object]bool{}
	for _, o := range state {
		inState[o] = true
	}
	capSet := map[types.Object]bool{}
	var captured []types.Object
	ast.Inspect(x.Body, func(n ast.Node) bool {
		id, ok := n.(*ast.Ident)
		if !ok {
			return true
		}
		o := c.g.p.TypesInfo.Uses[id]
		v, ok := o.(*types.Var)
		if !ok || v.IsField() || v.Parent() == c.g.p.Types.Scope() {
			return true
		}
		if v.Pos() >= x.Pos() && v.Pos() < x.End() {
			return true
		}
		if !inState[o] && !capSet[o] {
			capSet[o] = true
			captured = append(captured, o)
		}
		return true
	})
	sort.Slice(captured, func(i, j int) bool { return captured[i].Pos() < captured[j].Pos() })

	// iterated collection
	coll := c.expr(x.X)
	var keyT, valT string
	var collS string
	switch u := c.typeOf(x.X).Underlying().(type) {
	case *types.Slice:
		keyT, valT = "Int", c.g.leanType(u.Elem())
		if c.g.nilableElem(u.Elem()) {
			valT = "(Option " + valT + ")"
			if id, ok := x.Value.(*ast.Ident); ok && id.Name != "_" {
				c.nilVars[c.g.p.TypesInfo.Defs[id]] = true
			}
		}
		collS = coll.bind()
	case *types.Map:
		keyT, valT = c.g.leanType(u.Key()), c.g.leanType(u.Elem())
		if _, ok := c.g.ifaceOf(u.Elem()); ok {
			if id, ok := x.Value.(*ast.Ident); ok && id.Name != "_" {
				c.nilVars[c.g.p.TypesInfo.Defs[id]] = true
			}
		}
		collS = "(mapEntries " + coll.bind() + ")"
	default:
		unsup("range over %s", u.String())
	}
	_, isMap := c.typeOf(x.X).Underlying().(*types.Map)

	c.loopN++
	loopName := fmt.Sprintf("%s.loop%d", c.fi.leanName, c.loopN)

	// ---- body definition
	sub := &fnCtx{g: c.g, fi: c.fi, names: c.names, taken: c.taken, loopN: c.loopN, inLoop: true, state: state, tmpN: c.tmpN, rawPtr: c.rawPtr, nilVars: c.nilVars, bldrVars: c.bldrVars, hashVars: c.hashVars, ptrInner: c.ptrInner, closures: c.closures,
		declared: map[types.Object]bool{}}
	var params []string
	for _, o := range captured {
		params = append(params, fmt.Sprintf("(%s : %s)", c.nameOf(o), c.varType(o)))
	}
	if c.fi.usesNow {
		params = append(params, "(now : Int)")
	}
	if c.fi.usesOpq {
		params = append(params, "(opq : Opq)")
	}
	keyN, valN := "_k", "_v"
	var keyO, valO types.Object
	if id, ok := x.Key.(*ast.Ident); ok && id.Name != "_" {
		keyO = c.g.p.TypesInfo.Defs[id]
		keyN = c.nameOf(keyO)
	}
	if id, ok := x.Value.(*ast.Ident); ok && id.Name != "_" {
		valO = c.g.p.TypesInfo.Defs[id]
		valN = c.nameOf(valO)
	}
	stT := (&fnCtx{g: c.g, fi: c.fi, nilVars: c.nilVars, bldrVars: c.bldrVars, hashVars: c.hashVars, state: state}).stateType()
	body := &block{ind: 1}
	wBody := w
	if isMap {
		body.add("let %s := __e.1", keyN)
		body.add("let %s := __e.2", valN)
	}
	// state components
	switch len(state) {
	case 0:
	case 1:
		body.add("let mut %s := __st", c.nameOf(state[0]))
	default:
		for i, o := range state {
			p := "__st"
			for j := 0; j < i; j++ {
				p += ".2"
			}
			if i < len(state)-1 {
				p += ".1"
			}
			body.add("let mut %s := %s", c.nameOf(o), p)
		}
	}
	for _, o := range state {
		sub.declared[o] = true
	}
	for _, o := range captured {
		sub.declared[o] = true
		if wBody[o] {
			unsup("captured variable written") // cannot happen: written outside-declared variables are state
		}
	}
	for _, o := range []types.Object{keyO, valO} {
		if o != nil {
			if wBody[o] {
				body.add("let mut %s := %s", c.nameOf(o), c.nameOf(o))
			}
			sub.declared[o] = true
		}
	}
	sub.stmts(body, x.Body.List)
	body.add("return Ctl.next %s", sub.stateTuple())
	c.loopN, c.tmpN = sub.loopN, sub.tmpN
	c.aux = append(c.aux, sub.aux...)
	var def strings.Builder
	if isMap {
		fmt.Fprintf(&def, "def %s %s (_i : Int) (__e : %s × %s) (__st : %s) : Option (Ctl %s %s) := do\n", loopName, strings.Join(params, " "),
			keyT, valT, stT, stT, c.fi.retType)
	} else {
		fmt.Fprintf(&def, "def %s %s (%s : Int) (%s : %s) (__st : %s) : Option (Ctl %s %s) := do\n", loopName, strings.Join(params, " "),
			keyN, valN, valT, stT, stT, c.fi.retType)
	}
	def.WriteString(strings.Join(body.lines, "\n") + "\n")
	c.aux = append(c.aux, def.String())

	// ---- the loop itself
	c.state, _ = c.state, 0
	saved := c.state
	c.state = state
	initT := c.stateTuple()
	c.state = saved
	var capArgs []string
	for _, o := range captured {
		capArgs = append(capArgs, c.nameOf(o))
	}
	if c.fi.usesNow {
		capArgs = append(capArgs, "now")
	}
	if c.fi.usesOpq {
		capArgs = append(capArgs, "opq")
	}
	fn := loopName
	if len(capArgs) > 0 {
		fn = "(" + loopName + " " + strings.Join(capArgs, " ") + ")"
	}
	c.tmpN++
	lv := fmt.Sprintf("__l%d", c.tmpN)
	b.add("let %s ← forRange %s %s %s", lv, collS, initT, fn)
	b.add("match %s with", lv)
	hasReturn := false
	ast.Inspect(x.Body, func(n ast.Node) bool {
		if _, ok := n.(*ast.ReturnStmt); ok {
			hasReturn = true
		}
		return true
	})
	switch {
	case !hasReturn:
		b.add("| Loop.ret _ => none") // unreachable: the loop body contains no return statement
	case c.inLoop:
		b.add("| Loop.ret __r => return Ctl.ret __r")
	default:
		b.add("| Loop.ret __r => return __r")
	}
	switch len(state) {
	case 0:
		b.add("| Loop.done _ => pure ()")
	case 1:
		b.add("| Loop.done __s =>")
		b.add("  %s := __s", c.nameOf(state[0]))
	default:
		b.add("| Loop.done __s =>")
		for i, o := range state {
			p := "__s"
			for j := 0; j < i; j++ {
				p += ".2"
			}
			if i < len(state)-1 {
				p += ".1"
			}
			b.add("  %s := %s", c.nameOf(o), p)
		}
	}
}

// ---------- driver ----------

func (g *fnGen) prepare(fd *ast.FuncDecl, key string) (fi *fnInfo, err string) {
	defer func() {
		if r := recover(); r != nil {
			if u, ok := r.(unsupported); ok {
				fi, err = nil, u.msg
				return
			}
			panic(r)
		}
	}()
	fn := g.p.TypesInfo.Defs[fd.Name].(*types.Func)
	sig := fn.Type().(*types.Signature)
	fi = &fnInfo{key: key, fd: fd, leanName: strings.ReplaceAll(key, ".", "_"), sig: sig, hasRecv: sig.Recv() != nil}
	if sig.Recv() != nil {
		fi.params = append(fi.params, sig.Recv())
	}
	for i := 0; i < sig.Params().Len(); i++ {
		fi.params = append(fi.params, sig.Params().At(i))
	}
	for i := 0; i < sig.Results().Len(); i++ {
		fi.results = append(fi.results, sig.Results().At(i).Type())
		if sig.Results().At(i).Name() != "" {
			unsup("named results")
		}
	}
	fi.usesNow = usesTimeNow(fd.Body)
	fi.mutated = make([]bool, len(fi.params))
	fi.optPtr = g.nilCompared(fd, fi.params, sig.Recv() != nil)
	for _, p := range fi.params {
		if _, ok := g.ifaceOf(p.Type()); ok {
			fi.optPtr[p] = true // a value of interface type can be nil
		}
	}
	return fi, ""
}

func genFns(infos []pkgInfo) (string, string, map[string]string) {
	var ov strings.Builder
	ov.WriteString("import JwtModel.Gen.Fn\nimport JwtModel.Validate\n/-! GENERATED by /verif/extract (gofn.go). Do not edit.\n\nReading the struct mirrors of `Gen/Fn.lean` out of model values (`Val`) through the JSON keys of the Go struct tags. -/\nnamespace Jwt.Gen.Fn\nopen Jwt Jwt.Codec Jwt.GoRt\n\n/-- a nilable pointer to a struct: `Val.ptr x` is non-nil -/\ndef optOfVal {α : Type} (f : Val → α) (v : Val) : Option α :=\n  match v with\n  | .ptr x => some (f x)\n  | _ => none\n\ndef mapOfValWith {α : Type} (f : Val → α) (v : Val) : GoMap Str α :=\n  match v with\n  | .map m => some (m.map fun p => (p.1, f p.2))\n  | _ => none\n\ndef mapOfVal (v : Val) : GoMap Str Int :=\n  match v with\n  | .map m => some (m.map fun p => (p.1, p.2.asInt))\n  | _ => none\n\n")
	var out strings.Builder
	out.WriteString("import JwtModel.GoRt\n/-! GENERATED by /verif/extract (gofn.go) from /repo's working tree on every run. Do not edit.\n\n" +
		"Statement-by-statement translations of a whitelisted set of Go functions into the `Option` monad\n(`none` = run-time panic); vocabulary: JwtModel/GoRt.lean. -/\nset_option linter.unusedVariables false\nnamespace Jwt.Gen.Fn\nopen Jwt Jwt.GoRt\n\n")
	allUnsupp := map[string]string{}
	for _, pi := range infos {
		g := &fnGen{p: pi.p, short: pi.short, fns: map[string]*fnInfo{}, structs: map[string]*types.Struct{}, unsupp: map[string]string{}}
		want := map[string]bool{}
		for _, k := range fnWhitelist[pi.short] {
			want[k] = true
		}
		var keys []string
		decls := map[string]*ast.FuncDecl{}
		eachFunc(pi.p, func(fd *ast.FuncDecl, _ *ast.File) {
			k := funcKey(fd)
			if want[k] {
				decls[k] = fd
			}
		})
		for _, k := range fnWhitelist[pi.short] {
			fd, ok := decls[k]
			if !ok {
				g.unsupp[k] = "function not found"
				continue
			}
			fi, err := g.prepare(fd, k)
			if err != "" {
				g.unsupp[k] = err
				continue
			}
			g.fns[k] = fi
			keys = append(keys, k)
		}
		// mutated parameters: fixpoint over direct writes and mutating calls
		for changed := true; changed; {
			changed = false
			for _, k := range keys {
				fi := g.fns[k]
				c := &fnCtx{g: g, fi: fi, names: map[types.Object]string{}, taken: map[string]bool{}, rawPtr: map[string]bool{}, nilVars: map[types.Object]bool{}, ptrInner: map[string]string{}, closures: map[types.Object]bool{}}
				w := c.written(fi.fd.Body)
				for i, p := range fi.params {
					if !w[p] || fi.mutated[i] {
						continue
					}
					// a write through a pointer / map / slice element is visible to the caller; a plain
					// assignment to a by-value parameter is not
					switch p.Type().Underlying().(type) {
					case *types.Pointer, *types.Map:
						if writesThrough(c, fi.fd.Body, p) {
							fi.mutated[i] = true
							changed = true
						}
					}
				}
			}
		}
		// time.Now and opaque callees propagate to callers
		for changed := true; changed; {
			changed = false
			for _, k := range keys {
				fi := g.fns[k]
				ast.Inspect(fi.fd.Body, func(n ast.Node) bool {
					call, ok := n.(*ast.CallExpr)
					if !ok {
						return true
					}
					if g.foreignCall(call) != "" && !fi.usesOpq {
						fi.usesOpq, changed = true, true
					}
					if q := selName(call.Fun); (q == "json.Unmarshal" || q == "json.Marshal" || q == "sort.Sort") && !fi.usesOpq {
						fi.usesOpq, changed = true, true
					}
					if se, ok := call.Fun.(*ast.SelectorExpr); ok && se.Sel.Name == "Seed" && len(call.Args) == 0 && !fi.usesOpq {
						fi.usesOpq, changed = true, true
					}
					if q := types.ExprString(call.Fun); (q == "sha256.New" || q == "sha512.New512_256" || q == "base32.StdEncoding.EncodeToString") && !fi.usesOpq {
						fi.usesOpq, changed = true, true
					}
					cal := g.callee(call)
					if cal == nil {
						return true
					}
					if (cal.fd == nil || cal.usesOpq) && !fi.usesOpq {
						fi.usesOpq, changed = true, true
					}
					if cal.usesNow && !fi.usesNow {
						fi.usesNow, changed = true, true
					}
					return true
				})
			}
		}
		// emit, callees before callers (whitelist order is the emission order; calls to later ones are unsupported)
		var body strings.Builder
		emitted := map[string]bool{}
		// dependency order: a whitelisted callee (or, for a call through an interface, every whitelisted method of
		// that name) is emitted before its caller wherever the whitelist mentions it
		{
			var ordered []string
			seen := map[string]bool{}
			var visit func(k string)
			visit = func(k string) {
				if seen[k] {
					return
				}
				seen[k] = true
				fi := g.fns[k]
				if fi != nil && fi.fd != nil && fi.fd.Body != nil {
					ast.Inspect(fi.fd.Body, func(n ast.Node) bool {
						call, ok := n.(*ast.CallExpr)
						if !ok {
							return true
						}
						if cal := g.callee(call); cal != nil && cal.fd != nil && g.fns[cal.key] != nil {
							visit(cal.key)
						} else if se, ok := call.Fun.(*ast.SelectorExpr); ok {
							if _, isI := g.ifaceOf(g.p.TypesInfo.TypeOf(se.X)); isI {
								it, _ := g.p.TypesInfo.TypeOf(se.X).Underlying().(*types.Interface)
								sc := g.p.Types.Scope()
								for _, nm := range sc.Names() {
									tn, ok := sc.Lookup(nm).(*types.TypeName)
									if !ok || it == nil {
										continue
									}
									if _, isIface := tn.Type().Underlying().(*types.Interface); isIface {
										continue
									}
									if !types.Implements(tn.Type(), it) && !types.Implements(types.NewPointer(tn.Type()), it) {
										continue
									}
									// the method this implementor answers with (possibly promoted from an embedded type)
									obj, _, _ := types.LookupFieldOrMethod(types.NewPointer(tn.Type()), true, g.p.Types, se.Sel.Name)
									fn, ok := obj.(*types.Func)
									if !ok {
										continue
									}
									rt := fn.Type().(*types.Signature).Recv().Type()
									if pt, ok := rt.(*types.Pointer); ok {
										rt = pt.Elem()
									}
									if n, ok := rt.(*types.Named); ok {
										if k2 := n.Obj().Name() + "." + se.Sel.Name; g.fns[k2] != nil {
											visit(k2)
										}
									}
								}
							}
						}
						return true
					})
				}
				ordered = append(ordered, k)
			}
			for _, k := range keys {
				visit(k)
			}
			keys = ordered
		}
		for _, k := range keys {
			fi := g.fns[k]
			text, err := g.emit(fi, emitted)
			if err != "" {
				g.unsupp[k] = err
				continue
			}
			emitted[k] = true
			body.WriteString(text)
		}
		out.WriteString("namespace " + pi.short + "\n\n")
		for _, n := range g.order {
			if strings.HasPrefix(n, "I:") {
				in := n[2:]
				fmt.Fprintf(&out, "/-- interface `%s`: the dynamic type and value it holds -/\ninductive I_%s where\n", in, in)
				for _, impl := range g.ifaces[in] {
					fmt.Fprintf(&out, "  | %s (v : T_%s)\n", impl, impl)
				}
				fmt.Fprintf(&out, "  deriving DecidableEq\n\n")
				continue
			}
			st := g.structs[n]
			fmt.Fprintf(&out, "structure T_%s where\n", n)
			for i := 0; i < st.NumFields(); i++ {
				f := st.Field(i)
				lt, z := g.fieldLean(st, i)
				if lt == "" {
					continue
				}
				fmt.Fprintf(&out, "  f_%s : %s := %s\n", f.Name(), lt, z)
			}
			fmt.Fprintf(&out, "  deriving Inhabited, DecidableEq\n\n")
		}
		if g.needURL {
			out.WriteString("/-- what translated code reads of a `*net/url.URL`: three fields (of `User` only whether it is nil) and the\nresult of `Hostname()` -/\nstructure T_url_URL where\n  f_Scheme : Str := ([] : Str)\n  f_Path : Str := ([] : Str)\n  f_User : Option Unit := none\n  m_Hostname : Str := ([] : Str)\n  deriving Inhabited, DecidableEq\n\n")
		}
		if len(g.opqOrd)+len(g.foreignOrd) > 0 {
			out.WriteString("/-- package functions that translated code calls but that are not translated themselves: their behaviour is a\nparameter (tie theorems instantiate it with the model's function) -/\nstructure Opq where\n")
			for _, k := range g.opqOrd {
				fmt.Fprintf(&out, "  %s : %s\n", strings.ReplaceAll(k, ".", "_"), g.opqFieldType(g.opaque[k]))
			}
			for _, k := range g.foreignOrd {
				fmt.Fprintf(&out, "  %s : %s\n", strings.ReplaceAll(k, ".", "_"), foreignOpaque[k])
			}
			out.WriteString("\n")
		}
		out.WriteString(body.String())
		ov.WriteString("namespace " + pi.short + "\n\n")
		for _, n := range g.order {
			if strings.HasPrefix(n, "I:") {
				continue
			}
			ov.WriteString(g.ofVal(n))
		}
		ov.WriteString("end " + pi.short + "\n\n")
		var us []string
		for k, m := range g.unsupp {
			us = append(us, k+": "+m)
			allUnsupp[pi.short+"."+k] = m
		}
		sort.Strings(us)
		out.WriteString("/-- whitelisted functions the translator could not translate (outside its subset) -/\ndef unsupported : List String := [")
		for i, u := range us {
			if i > 0 {
				out.WriteString(", ")
			}
			fmt.Fprintf(&out, "%q", u)
		}
		out.WriteString("]\n\nend " + pi.short + "\n\n")
	}
	out.WriteString("end Jwt.Gen.Fn\n")
	ov.WriteString("end Jwt.Gen.Fn\n")
	return out.String(), ov.String(), allUnsupp
}

// ofVal: `T_X.ofVal : Val → T_X`, reading every supported field through the JSON key of its struct tag
func (g *fnGen) ofVal(name string) string {
	st := g.structs[name]
	var parts []string
	for i := 0; i < st.NumFields(); i++ {
		f := st.Field(i)
		lt, _ := safeType(g, f.Type())
		if lt == "" {
			continue
		}
		tag := reflect.StructTag(st.Tag(i)).Get("json")
		key := strings.Split(tag, ",")[0]
		if key == "-" {
			continue
		}
		src := ""
		switch {
		case key == "" && f.Embedded():
			src = "v" // promoted fields: same JSON object
		case key == "":
			src = fmt.Sprintf("(v.field %q)", f.Name())
		default:
			src = fmt.Sprintf("(v.field %q)", key)
		}
		_, isPtr := f.Type().Underlying().(*types.Pointer)
		var val string
		switch {
		case isPtr && nilableField(st, i) && strings.HasPrefix(lt, "T_"):
			val = "optOfVal " + lt + ".ofVal " + src
		case isPtr:
			continue
		case lt == "(List Str)":
			val = src + ".strs"
		case lt == "(GoMap Str Int)":
			val = "mapOfVal " + src
		default:
			val = g.ofValExpr(f.Type(), src)
			if val == "" {
				continue
			}
		}
		parts = append(parts, "f_"+f.Name()+" := "+val)
	}
	return fmt.Sprintf("def T_%s.ofVal (v : Val) : T_%s :=\n  { %s }\n\n", name, name, strings.Join(parts, ",\n    "))
}

// ofValExpr: how a value of Go type t is read out of the model value `src` ("" = outside the subset)
func (g *fnGen) ofValExpr(t types.Type, src string) string {
	lt, _ := safeType(g, t)
	if lt == "" {
		return ""
	}
	switch {
	case lt == "Str":
		return src + ".asStr"
	case lt == "Int":
		return src + ".asInt"
	case lt == "Bool":
		return src + ".asBool"
	case strings.HasPrefix(lt, "T_"):
		if _, isPtr := t.Underlying().(*types.Pointer); isPtr {
			return ""
		}
		return lt + ".ofVal " + src
	}
	switch u := t.Underlying().(type) {
	case *types.Slice:
		if g.nilableElem(u.Elem()) {
			return "(" + src + ".asList.map (optOfVal " + g.leanType(u.Elem()) + ".ofVal))"
		}
		e := g.ofValExpr(u.Elem(), "__x")
		if e == "" {
			return ""
		}
		return "(" + src + ".asList.map fun __x => " + e + ")"
	case *types.Map:
		if g.leanType(u.Key()) != "Str" {
			return ""
		}
		if in, ok := g.ifaceOf(u.Elem()); ok {
			if len(g.ifaces[in]) != 1 {
				return ""
			}
			impl := g.ifaces[in][0]
			return fmt.Sprintf("(mapOfValWith (fun __x => match __x with | .nil => none | .ptr __s => some (I_%s.%s (T_%s.ofVal __s)) | __s => some (I_%s.%s (T_%s.ofVal __s))) %s)", in, impl, impl, in, impl, impl, src)
		}
		e := g.ofValExpr(u.Elem(), "__x")
		if e == "" {
			return ""
		}
		return "(mapOfValWith (fun __x => " + e + ") " + src + ")"
	}
	return ""
}

// safeType: Lean type and default of a struct field; fields of types outside the subset are dropped from the mirror
func safeType(g *fnGen, t types.Type) (lt, z string) {
	defer func() {
		if r := recover(); r != nil {
			if _, ok := r.(unsupported); ok {
				lt, z = "", ""
				return
			}
			panic(r)
		}
	}()
	lt = g.leanType(t)
	z = g.zero(t)
	if strings.HasPrefix(lt, "T_") {
		z = "{}"
	}
	return
}

// writesThrough: does the body store through parameter p (as opposed to re-assigning the local copy)?
func writesThrough(c *fnCtx, body ast.Node, p *types.Var) bool {
	found := false
	ast.Inspect(body, func(m ast.Node) bool {
		check := func(l ast.Expr) {
			if id, ok := l.(*ast.Ident); ok {
				_ = id
				return // plain `p = ...`
			}
			if c.rootVar(l) == p {
				found = true
			}
		}
		switch x := m.(type) {
		case *ast.AssignStmt:
			for _, l := range x.Lhs {
				check(l)
			}
		case *ast.IncDecStmt:
			check(x.X)
		case *ast.CallExpr:
			if id, ok := x.Fun.(*ast.Ident); ok && id.Name == "delete" && len(x.Args) == 2 && c.rootVar(x.Args[0]) == p {
				found = true
			}
			if fi := c.g.callee(x); fi != nil {
				args := c.callArgs(x, fi)
				for i, mu := range fi.mutated {
					if mu && i < len(args) && c.rootVar(args[i]) == p {
						found = true
					}
				}
			}
		}
		return true
	})
	return found
}

func (g *fnGen) emit(fi *fnInfo, emitted map[string]bool) (text string, err string) {
	defer func() {
		if r := recover(); r != nil {
			if u, ok := r.(unsupported); ok {
				text, err = "", u.msg
				return
			}
			panic(r)
		}
	}()
	// calls must go to already emitted functions
	ast.Inspect(fi.fd.Body, func(n ast.Node) bool {
		if call, ok := n.(*ast.CallExpr); ok {
			if cal := g.callee(call); cal != nil && cal.fd != nil && !emitted[cal.key] {
				unsup("calls %s, which is not translated (yet)", cal.key)
			}
		}
		return true
	})
	c := &fnCtx{g: g, fi: fi, names: map[types.Object]string{}, taken: map[string]bool{}, declared: map[types.Object]bool{}, rawPtr: map[string]bool{}, nilVars: map[types.Object]bool{}, ptrInner: map[string]string{}, closures: map[types.Object]bool{}}
	// return type
	var rts []string
	for i, m := range fi.mutated {
		if m {
			rts = append(rts, g.leanType(fi.params[i].Type()))
		}
	}
	fi.nilPtrRes = make([]bool, len(fi.results))
	ast.Inspect(fi.fd.Body, func(n ast.Node) bool {
		if _, isLit := n.(*ast.FuncLit); isLit {
			return false
		}
		if rs, ok := n.(*ast.ReturnStmt); ok && len(rs.Results) == len(fi.results) {
			for i, r := range rs.Results {
				if id, ok := r.(*ast.Ident); ok && id.Name == "nil" {
					if _, isP := ptrToStruct(fi.results[i]); isP {
						fi.nilPtrRes[i] = true
					}
				}
			}
		}
		return true
	})
	for i, r := range fi.results {
		if fi.nilPtrRes[i] {
			rts = append(rts, "(Option "+g.leanType(r)+")")
			continue
		}
		if _, isSlice := r.Underlying().(*types.Slice); isSlice && nilSliceKey(fi.key) {
			rts = append(rts, "(Option "+g.leanType(r)+")")
			continue
		}
		rts = append(rts, g.leanType(r))
	}
	switch len(rts) {
	case 0:
		fi.retType = "Unit"
	case 1:
		fi.retType = rts[0]
	default:
		fi.retType = "(" + strings.Join(rts, " × ") + ")"
	}
	var params []string
	w := c.written(fi.fd.Body)
	b := &block{ind: 1}
	for _, p := range fi.params {
		n := c.nameOf(p)
		lt := c.paramType(p)
		params = append(params, fmt.Sprintf("(%s : %s)", n, lt))
		c.declared[p] = true
		if w[p] {
			b.add("let mut %s := %s", n, n)
		}
	}
	if fi.usesNow {
		params = append(params, "(now : Int)")
	}
	if fi.usesOpq {
		params = append(params, "(opq : Opq)")
	}
	c.stmts(b, fi.fd.Body.List)
	// falling off the end
	needTail := true
	if n := len(fi.fd.Body.List); n > 0 {
		if terminates(fi.fd.Body.List[n-1]) {
			needTail = false
		}
	}
	if needTail {
		if len(fi.results) > 0 {
			unsup("missing final return")
		}
		b.add("return %s", c.retTuple(nil))
	}
	var sb strings.Builder
	for _, a := range c.aux {
		sb.WriteString(a + "\n")
	}
	pos := g.p.Fset.Position(fi.fd.Pos())
	fmt.Fprintf(&sb, "/-- `%s` (%s:%d) -/\ndef %s %s : Option %s := do\n%s\n\n", fi.key, shortFile(pos.Filename), pos.Line, fi.leanName,
		strings.Join(params, " "), fi.retType, strings.Join(b.lines, "\n"))
	return sb.String(), ""
}

func shortFile(p string) string {
	if i := strings.Index(p, "/v2/"); i >= 0 {
		return p[i+1:]
	}
	return p
}
