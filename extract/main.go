// jwtextract: fact extractor / translator. Reads /repo/v2 and /repo/v2/v1compat (current working tree)
// and regenerates the Lean tables the theorems are stated over (lean/JwtModel/Gen/*.lean) plus facts.json.
//
//	G1 constants            -> Gen/Consts.lean
//	G2 issuer-role tables   -> Gen/Prefixes.lean
//	G3 struct JSON schemas  -> Gen/Schemas.lean   (as Jwt.Ty terms, flattened like encoding/json does)
//	G4 function digests     -> Gen/Digests.lean
//	G6 globals / writers    -> Gen/Globals.lean
//	G8 validation facts     -> Gen/Validation.lean
//	G9 translated functions -> Gen/Fn.lean          (gofn.go)
package main

import (
	"bytes"
	"crypto/sha256"
	"encoding/hex"
	"encoding/json"
	"flag"
	"fmt"
	"go/ast"
	"go/constant"
	"go/printer"
	"go/token"
	"go/types"
	"os"
	"path/filepath"
	"reflect"
	"sort"
	"strings"

	"golang.org/x/tools/go/packages"
)

func die(f string, a ...interface{}) {
	fmt.Fprintf(os.Stderr, "jwtextract: "+f+"\n", a...)
	os.Exit(1)
}

func leanStr(s string) string {
	if s == "" {
		return "([] : Str)"
	}
	var parts []string
	for _, r := range s {
		switch {
		case r == '\'':
			parts = append(parts, `'\''`)
		case r == '\\':
			parts = append(parts, `'\\'`)
		case r >= 0x20 && r < 0x7f:
			parts = append(parts, "'"+string(r)+"'")
		default:
			parts = append(parts, fmt.Sprintf("Char.ofNat %d", r))
		}
	}
	return "[" + strings.Join(parts, ", ") + "]"
}

// ---------- G3: schemas ----------

var customNames = map[string]string{
	"ExportType": "exportType", "SamplingRate": "samplingRate", "ScopeType": "scopeType",
	"SigningKeys": "signingKeys", "CIDRList": "cidrList",
}

type field struct {
	name      string // JSON key
	index     []int
	tagged    bool
	omitempty bool
	typ       types.Type
}

func hasMethod(n *types.Named, name string) bool {
	for i := 0; i < n.NumMethods(); i++ {
		if n.Method(i).Name() == name {
			return true
		}
	}
	return false
}

type schemaGen struct {
	pkg      *types.Package
	problems []string
}

// collectFields reproduces encoding/json's typeFields (breadth-first over embedded structs,
// shallowest wins, tagged beats untagged, ties drop the name).
func (g *schemaGen) collectFields(st *types.Struct) []field {
	type item struct {
		st    *types.Struct
		index []int
	}
	current := []item{}
	next := []item{{st, nil}}
	visited := map[*types.Struct]bool{}
	var fields []field
	for len(next) > 0 {
		current, next = next, nil
		for _, it := range current {
			if visited[it.st] {
				continue
			}
			visited[it.st] = true
			for i := 0; i < it.st.NumFields(); i++ {
				sf := it.st.Field(i)
				ft := sf.Type()
				if sf.Embedded() {
					t := ft
					if p, ok := t.(*types.Pointer); ok {
						t = p.Elem()
					}
					if !sf.Exported() {
						if _, isStruct := t.Underlying().(*types.Struct); !isStruct {
							continue
						}
					}
				} else if !sf.Exported() {
					continue
				}
				tag := reflect.StructTag(it.st.Tag(i)).Get("json")
				if tag == "-" {
					continue
				}
				name, opts := tag, ""
				if j := strings.Index(tag, ","); j >= 0 {
					name, opts = tag[:j], tag[j+1:]
				}
				idx := append(append([]int{}, it.index...), i)
				under := ft
				if p, ok := under.(*types.Pointer); ok && sf.Embedded() {
					under = p.Elem()
				}
				if strings.Contains(opts, "string") {
					g.problems = append(g.problems, "`,string` option is not modelled: "+sf.Name())
				}
				ust, isStruct := under.Underlying().(*types.Struct)
				if name != "" || !sf.Embedded() || !isStruct {
					tagged := name != ""
					if name == "" {
						name = sf.Name()
					}
					fields = append(fields, field{name, idx, tagged, strings.Contains(opts, "omitempty"), ft})
					continue
				}
				// untagged embedded struct: descend (custom marshalers on embedded types would change this)
				if n, ok := under.(*types.Named); ok && (hasMethod(n, "MarshalJSON") || hasMethod(n, "UnmarshalJSON")) {
					g.problems = append(g.problems, "embedded type with custom JSON methods is not modelled: "+n.Obj().Name())
				}
				next = append(next, item{ust, idx})
			}
		}
	}
	sort.SliceStable(fields, func(i, j int) bool {
		a, b := fields[i], fields[j]
		if a.name != b.name {
			return a.name < b.name
		}
		if len(a.index) != len(b.index) {
			return len(a.index) < len(b.index)
		}
		if a.tagged != b.tagged {
			return a.tagged
		}
		return lessIndex(a.index, b.index)
	})
	var out []field
	for i := 0; i < len(fields); {
		j := i + 1
		for j < len(fields) && fields[j].name == fields[i].name {
			j++
		}
		if j == i+1 {
			out = append(out, fields[i])
		} else if len(fields[i].index) != len(fields[i+1].index) || fields[i].tagged != fields[i+1].tagged {
			out = append(out, fields[i])
		} // else: ambiguous, dropped
		i = j
	}
	sort.SliceStable(out, func(i, j int) bool { return lessIndex(out[i].index, out[j].index) })
	return out
}

func lessIndex(a, b []int) bool {
	for k := 0; k < len(a) && k < len(b); k++ {
		if a[k] != b[k] {
			return a[k] < b[k]
		}
	}
	return len(a) < len(b)
}

func (g *schemaGen) ty(t types.Type, depth int) string {
	if depth > 12 {
		g.problems = append(g.problems, "type nesting too deep / recursive type")
		return "Ty.any"
	}
	switch x := t.(type) {
	case *types.Named:
		name := x.Obj().Name()
		if x.Obj().Pkg() != nil && x.Obj().Pkg().Path() == "time" && name == "Duration" {
			return "(Ty.int true 64)"
		}
		if c, ok := customNames[name]; ok && x.Obj().Pkg() != nil && strings.Contains(x.Obj().Pkg().Path(), "nats-io/jwt") {
			if hasMethod(x, "UnmarshalJSON") || hasMethod(x, "MarshalJSON") {
				return "(Ty.custom Custom." + c + ")"
			}
		}
		if hasMethod(x, "MarshalJSON") || hasMethod(x, "UnmarshalJSON") || hasMethod(x, "MarshalText") || hasMethod(x, "UnmarshalText") {
			g.problems = append(g.problems, "unmodelled custom (un)marshaler on type "+name)
		}
		return g.ty(x.Underlying(), depth+1)
	case *types.Basic:
		switch x.Kind() {
		case types.Bool:
			return "Ty.bool"
		case types.String:
			return "Ty.str"
		case types.Int, types.Int64:
			return "(Ty.int true 64)"
		case types.Int32:
			return "(Ty.int true 32)"
		case types.Int16:
			return "(Ty.int true 16)"
		case types.Int8:
			return "(Ty.int true 8)"
		case types.Uint, types.Uint64:
			return "(Ty.int false 64)"
		case types.Uint32:
			return "(Ty.int false 32)"
		case types.Uint16:
			return "(Ty.int false 16)"
		case types.Uint8:
			return "(Ty.int false 8)"
		}
		g.problems = append(g.problems, "unmodelled basic type "+x.Name())
		return "Ty.any"
	case *types.Pointer:
		return "(Ty.ptr " + g.ty(x.Elem(), depth+1) + ")"
	case *types.Slice:
		return "(Ty.slice " + g.ty(x.Elem(), depth+1) + ")"
	case *types.Map:
		if b, ok := x.Key().Underlying().(*types.Basic); !ok || b.Kind() != types.String {
			g.problems = append(g.problems, "map with non-string key")
		}
		return "(Ty.map " + g.ty(x.Elem(), depth+1) + ")"
	case *types.Interface:
		if !x.Empty() {
			g.problems = append(g.problems, "non-empty interface outside SigningKeys")
		}
		return "Ty.any"
	case *types.Struct:
		fs := g.collectFields(x)
		var parts []string
		for _, f := range fs {
			om := "false"
			if f.omitempty {
				om = "true"
			}
			parts = append(parts, fmt.Sprintf("(%s, %s, %s)", leanStr(f.name), om, g.ty(f.typ, depth+1)))
		}
		return "(Ty.struct [\n    " + strings.Join(parts, ",\n    ") + "])"
	}
	g.problems = append(g.problems, "unmodelled type "+t.String())
	return "Ty.any"
}

// ---------- helpers over syntax ----------

type pkgInfo struct {
	p     *packages.Package
	short string // V2 / V1
}

func funcKey(fd *ast.FuncDecl) string {
	if fd.Recv != nil && len(fd.Recv.List) == 1 {
		t := fd.Recv.List[0].Type
		if s, ok := t.(*ast.StarExpr); ok {
			t = s.X
		}
		if id, ok := t.(*ast.Ident); ok {
			return id.Name + "." + fd.Name.Name
		}
	}
	return fd.Name.Name
}

func eachFunc(p *packages.Package, f func(fd *ast.FuncDecl, file *ast.File)) {
	for _, file := range p.Syntax {
		name := p.Fset.Position(file.Pos()).Filename
		if strings.HasSuffix(name, "_test.go") {
			continue
		}
		for _, d := range file.Decls {
			if fd, ok := d.(*ast.FuncDecl); ok && fd.Body != nil {
				f(fd, file)
			}
		}
	}
}

func selName(e ast.Expr) string {
	if s, ok := e.(*ast.SelectorExpr); ok {
		if id, ok := s.X.(*ast.Ident); ok {
			return id.Name + "." + s.Sel.Name
		}
	}
	if id, ok := e.(*ast.Ident); ok {
		return id.Name
	}
	return ""
}

var roleOfPrefixConst = map[string]string{
	"nkeys.PrefixByteOperator": "Role.operator", "nkeys.PrefixByteAccount": "Role.account", "nkeys.PrefixByteUser": "Role.user",
	"nkeys.PrefixByteServer": "Role.server", "nkeys.PrefixByteCluster": "Role.cluster", "nkeys.PrefixByteCurve": "Role.curve",
}

func main() {
	repo := flag.String("repo", "/repo/v2", "module directory")
	out := flag.String("out", "", "output directory for Gen/*.lean")
	flag.Parse()
	if *out == "" {
		die("-out required")
	}
	cfg := &packages.Config{Mode: packages.NeedTypes | packages.NeedSyntax | packages.NeedTypesInfo | packages.NeedName | packages.NeedImports | packages.NeedDeps | packages.NeedFiles, Dir: *repo}
	pkgs, err := packages.Load(cfg, ".", "./v1compat")
	if err != nil {
		die("load: %v", err)
	}
	if packages.PrintErrors(pkgs) > 0 {
		die("package errors")
	}
	var infos []pkgInfo
	for _, p := range pkgs {
		short := "V2"
		if strings.HasSuffix(p.PkgPath, "v1compat") {
			short = "V1"
		}
		infos = append(infos, pkgInfo{p, short})
	}
	sort.Slice(infos, func(i, j int) bool { return infos[i].short > infos[j].short })
	facts := map[string]interface{}{}
	hdr := "/-! GENERATED by /verif/extract from /repo's working tree on every run. Do not edit. -/\n"

	// ---------- G3 ----------
	var sb strings.Builder
	sb.WriteString("import JwtModel.Codec\n" + hdr + "namespace Jwt.Gen\nopen Jwt\n\n")
	var allProblems []string
	schemaNames := map[string][]string{}
	for _, pi := range infos {
		sc := pi.p.Types.Scope()
		names := sc.Names()
		sort.Strings(names)
		sb.WriteString("namespace " + pi.short + "\n")
		for _, n := range names {
			tn, ok := sc.Lookup(n).(*types.TypeName)
			if !ok {
				continue
			}
			named, ok := tn.Type().(*types.Named)
			if !ok {
				continue
			}
			st, isStruct := named.Underlying().(*types.Struct)
			if !isStruct {
				continue
			}
			g := &schemaGen{pkg: pi.p.Types}
			t := g.ty(st, 0)
			for _, pr := range g.problems {
				allProblems = append(allProblems, pi.short+"."+n+": "+pr)
			}
			fmt.Fprintf(&sb, "def %s : Ty :=\n  %s\n\n", n, t)
			schemaNames[pi.short] = append(schemaNames[pi.short], n)
		}
		sb.WriteString("end " + pi.short + "\n\n")
	}
	// anonymous struct used by DecodeGeneric: struct{ GenericClaims; GenericFields }
	for _, pi := range infos {
		if pi.short != "V2" {
			continue
		}
		eachFunc(pi.p, func(fd *ast.FuncDecl, _ *ast.File) {
			if funcKey(fd) != "DecodeGeneric" {
				return
			}
			ast.Inspect(fd.Body, func(n ast.Node) bool {
				cl, ok := n.(*ast.CompositeLit)
				if !ok {
					return true
				}
				if _, ok := cl.Type.(*ast.StructType); !ok {
					return true
				}
				tv := pi.p.TypesInfo.Types[cl.Type]
				if st, ok := tv.Type.Underlying().(*types.Struct); ok {
					g := &schemaGen{pkg: pi.p.Types}
					fmt.Fprintf(&sb, "/-- the anonymous struct `DecodeGeneric` unmarshals into -/\ndef V2.decodeGenericTarget : Ty :=\n  %s\n\n", g.ty(st, 0))
					for _, pr := range g.problems {
						allProblems = append(allProblems, "decodeGenericTarget: "+pr)
					}
				}
				return true
			})
		})
	}
	sb.WriteString("/-- every generated schema by name (`V2.X` / `V1.X`) -/\ndef schemaTable : List (String × Ty) := [\n")
	first := true
	for _, short := range []string{"V2", "V1"} {
		for _, n := range schemaNames[short] {
			if !first {
				sb.WriteString(",\n")
			}
			first = false
			fmt.Fprintf(&sb, "  (%q, %s.%s)", short+"."+n, short, n)
		}
	}
	sb.WriteString("]\n\n")
	sort.Strings(allProblems)
	sb.WriteString("/-- constructs the schema translator could not express (must be empty for the codec theorems to apply) -/\ndef schemaProblems : List String := [")
	for i, p := range allProblems {
		if i > 0 {
			sb.WriteString(", ")
		}
		sb.WriteString(fmt.Sprintf("%q", p))
	}
	sb.WriteString("]\n\nend Jwt.Gen\n")
	must(os.WriteFile(filepath.Join(*out, "Schemas.lean"), []byte(sb.String()), 0o644))
	facts["schemas"] = schemaNames
	facts["schema_problems"] = allProblems

	// ---------- G1 ----------
	var cb strings.Builder
	cb.WriteString("import JwtModel.Text\n" + hdr + "namespace Jwt.Gen\nopen Jwt\n\n")
	wantConsts := map[string][]string{
		"V2": {"TokenTypeJwt", "AlgorithmNkeyOld", "AlgorithmNkey", "libVersion", "OperatorClaim", "AccountClaim", "UserClaim", "ActivationClaim",
			"AuthorizationRequestClaim", "AuthorizationResponseClaim", "GenericClaim", "NoLimit", "AnyAccount", "All", "MaxInfoLength",
			"ResponseTypeSingleton", "ResponseTypeStream", "ResponseTypeChunked"},
		"V1": {"TokenTypeJwt", "AlgorithmNkey", "OperatorClaim", "AccountClaim", "UserClaim", "ActivationClaim", "ClusterClaim", "ServerClaim", "NoLimit", "All", "MaxInfoLength"},
	}
	constFacts := map[string]string{}
	for _, pi := range infos {
		cb.WriteString("namespace " + pi.short + "\n")
		for _, n := range wantConsts[pi.short] {
			obj := pi.p.Types.Scope().Lookup(n)
			c, ok := obj.(*types.Const)
			if !ok {
				fmt.Fprintf(&cb, "-- constant %s no longer exists\n", n)
				constFacts[pi.short+"."+n] = "<missing>"
				continue
			}
			switch c.Val().Kind() {
			case constant.String:
				s := constant.StringVal(c.Val())
				fmt.Fprintf(&cb, "def c%s : Str := %s\n", n, leanStr(s))
				constFacts[pi.short+"."+n] = s
			case constant.Int:
				fmt.Fprintf(&cb, "def c%s : Int := %s\n", n, c.Val().ExactString())
				constFacts[pi.short+"."+n] = c.Val().ExactString()
			}
		}
		cb.WriteString("end " + pi.short + "\n\n")
	}
	// string literals of creds_utils.go: the regex and the templates
	for _, pi := range infos {
		if pi.short != "V2" {
			continue
		}
		for _, file := range pi.p.Syntax {
			fn := filepath.Base(pi.p.Fset.Position(file.Pos()).Filename)
			if fn != "creds_utils.go" {
				continue
			}
			ast.Inspect(file, func(n ast.Node) bool {
				ce, ok := n.(*ast.CallExpr)
				if ok && selName(ce.Fun) == "regexp.MustCompile" && len(ce.Args) == 1 {
					if tv, ok := pi.p.TypesInfo.Types[ce.Args[0]]; ok && tv.Value != nil {
						s := constant.StringVal(tv.Value)
						fmt.Fprintf(&cb, "def V2.userConfigRE : Str := %s\n", leanStr(s))
						constFacts["V2.userConfigRE"] = s
					}
				}
				return true
			})
			eachTemplate(pi.p, file, &cb, constFacts)
		}
	}
	cb.WriteString("\nend Jwt.Gen\n")
	must(os.WriteFile(filepath.Join(*out, "Consts.lean"), []byte(cb.String()), 0o644))
	facts["consts"] = constFacts

	// ---------- G2 ----------
	var pb strings.Builder
	pb.WriteString("import JwtModel.NKey\n" + hdr + "namespace Jwt.Gen\nopen Jwt Jwt.NKey\n\n")
	prefFacts := map[string]interface{}{}
	for _, pi := range infos {
		pb.WriteString("namespace " + pi.short + "\n")
		type ep struct {
			typ   string
			roles []string
			isNil bool
		}
		var eps []ep
		arms := map[string][]string{}
		eachFunc(pi.p, func(fd *ast.FuncDecl, _ *ast.File) {
			key := funcKey(fd)
			if fd.Name.Name == "ExpectedPrefixes" && fd.Recv != nil {
				e := ep{typ: strings.TrimSuffix(key, ".ExpectedPrefixes")}
				nret := 0
				ast.Inspect(fd.Body, func(n ast.Node) bool {
					r, ok := n.(*ast.ReturnStmt)
					if !ok || len(r.Results) != 1 {
						return true
					}
					nret++
					switch x := r.Results[0].(type) {
					case *ast.Ident:
						if x.Name == "nil" {
							e.isNil = true
						} else {
							e.roles = append(e.roles, "Role.unknown")
						}
					case *ast.CompositeLit:
						for _, el := range x.Elts {
							if ro, ok := roleOfPrefixConst[selName(el)]; ok {
								e.roles = append(e.roles, ro)
							} else {
								e.roles = append(e.roles, "Role.unknown")
							}
						}
					default:
						e.roles = append(e.roles, "Role.unknown")
					}
					return true
				})
				if nret != 1 {
					e.roles = append(e.roles, "Role.unknown")
				}
				eps = append(eps, e)
			}
			if key == "Decode" || key == "ClaimsData.doEncode" {
				ast.Inspect(fd.Body, func(n ast.Node) bool {
					cc, ok := n.(*ast.CaseClause)
					if !ok {
						return true
					}
					for _, e := range cc.List {
						if ro, ok := roleOfPrefixConst[selName(e)]; ok {
							// the arm must test the same role it names
							want := "nkeys.IsValidPublic" + strings.TrimPrefix(ro, "Role.")
							okArm := false
							ast.Inspect(cc, func(m ast.Node) bool {
								if ce, ok := m.(*ast.CallExpr); ok && strings.EqualFold(selName(ce.Fun), want+"Key") {
									okArm = true
								}
								return true
							})
							if okArm {
								arms[key] = append(arms[key], ro)
							} else {
								arms[key] = append(arms[key], "Role.unknown")
							}
						}
					}
					return true
				})
			}
		})
		sort.Slice(eps, func(i, j int) bool { return eps[i].typ < eps[j].typ })
		pb.WriteString("/-- `ExpectedPrefixes()` per claims type: `none` = nil (any issuer) -/\ndef expectedPrefixes : List (String × Option (List Role)) := [\n")
		for i, e := range eps {
			v := "some [" + strings.Join(e.roles, ", ") + "]"
			if e.isNil && len(e.roles) == 0 {
				v = "none"
			}
			sep := ","
			if i == len(eps)-1 {
				sep = ""
			}
			fmt.Fprintf(&pb, "  (%q, %s)%s\n", e.typ, v, sep)
			prefFacts[pi.short+"."+e.typ] = v
		}
		pb.WriteString("]\n")
		for _, k := range []string{"Decode", "ClaimsData.doEncode"} {
			nm := "decodeArms"
			if k != "Decode" {
				nm = "encodeArms"
			}
			fmt.Fprintf(&pb, "/-- `case nkeys.PrefixByteX` arms of the issuer switch in `%s` -/\ndef %s : List Role := [%s]\n", k, nm, strings.Join(arms[k], ", "))
			prefFacts[pi.short+"."+nm] = arms[k]
		}
		pb.WriteString("end " + pi.short + "\n\n")
	}
	pb.WriteString("end Jwt.Gen\n")
	must(os.WriteFile(filepath.Join(*out, "Prefixes.lean"), []byte(pb.String()), 0o644))
	facts["prefixes"] = prefFacts

	// ---------- G4 digests ----------
	var db strings.Builder
	db.WriteString(hdr + "namespace Jwt.Gen\n\ndef digests : List (String × String) := [\n")
	digestFacts := map[string]string{}
	var dlines []string
	for _, pi := range infos {
		eachFunc(pi.p, func(fd *ast.FuncDecl, _ *ast.File) {
			var buf bytes.Buffer
			printer.Fprint(&buf, token.NewFileSet(), fd.Body)
			sum := sha256.Sum256(buf.Bytes())
			k := pi.short + "." + funcKey(fd)
			digestFacts[k] = hex.EncodeToString(sum[:8])
			dlines = append(dlines, fmt.Sprintf("  (%q, %q)", k, hex.EncodeToString(sum[:8])))
		})
	}
	sort.Strings(dlines)
	db.WriteString(strings.Join(dlines, ",\n") + "\n]\n\n")
	// functions present in both packages: is the body textually identical?
	var same []string
	for k, d := range digestFacts {
		if strings.HasPrefix(k, "V2.") {
			if d1, ok := digestFacts["V1."+strings.TrimPrefix(k, "V2.")]; ok {
				b := "false"
				if d1 == d {
					b = "true"
				}
				same = append(same, fmt.Sprintf("  (%q, %s)", strings.TrimPrefix(k, "V2."), b))
			}
		}
	}
	sort.Strings(same)
	db.WriteString("/-- functions defined in both v2 and v1compat: are the two bodies textually identical? -/\ndef sameBodyV1V2 : List (String × Bool) := [\n" + strings.Join(same, ",\n") + "\n]\n\nend Jwt.Gen\n")
	must(os.WriteFile(filepath.Join(*out, "Digests.lean"), []byte(db.String()), 0o644))
	facts["digests"] = digestFacts

	// ---------- G6 globals ----------
	var gb strings.Builder
	gb.WriteString(hdr + "namespace Jwt.Gen\n\n")
	for _, pi := range infos {
		var globals, writers, gos, danger []string
		gset := map[types.Object]bool{}
		sc := pi.p.Types.Scope()
		for _, n := range sc.Names() {
			if v, ok := sc.Lookup(n).(*types.Var); ok {
				if strings.HasSuffix(pi.p.Fset.Position(v.Pos()).Filename, "_test.go") {
					continue
				}
				globals = append(globals, n+" : "+types.TypeString(v.Type(), func(p *types.Package) string { return p.Name() }))
				gset[v] = true
			}
		}
		for _, file := range pi.p.Syntax {
			if strings.HasSuffix(pi.p.Fset.Position(file.Pos()).Filename, "_test.go") {
				continue
			}
			for _, im := range file.Imports {
				p := strings.Trim(im.Path.Value, `"`)
				if p == "sync" || p == "unsafe" || p == "sync/atomic" {
					danger = append(danger, filepath.Base(pi.p.Fset.Position(file.Pos()).Filename)+" imports "+p)
				}
			}
		}
		eachFunc(pi.p, func(fd *ast.FuncDecl, _ *ast.File) {
			key := funcKey(fd)
			isG := func(e ast.Expr) bool {
				for {
					switch x := e.(type) {
					case *ast.Ident:
						return gset[pi.p.TypesInfo.Uses[x]]
					case *ast.SelectorExpr:
						e = x.X
					case *ast.IndexExpr:
						e = x.X
					case *ast.StarExpr:
						e = x.X
					case *ast.ParenExpr:
						e = x.X
					default:
						return false
					}
				}
			}
			ast.Inspect(fd.Body, func(n ast.Node) bool {
				switch x := n.(type) {
				case *ast.GoStmt:
					gos = append(gos, key)
				case *ast.AssignStmt:
					for _, l := range x.Lhs {
						if isG(l) {
							writers = append(writers, key+" assigns a package-level variable")
						}
					}
				case *ast.IncDecStmt:
					if isG(x.X) {
						writers = append(writers, key+" modifies a package-level variable")
					}
				case *ast.UnaryExpr:
					if x.Op == token.AND && isG(x.X) {
						writers = append(writers, key+" takes the address of a package-level variable")
					}
				case *ast.CallExpr:
					// pointer-receiver method call on a package-level variable of non-pointer type
					if se, ok := x.Fun.(*ast.SelectorExpr); ok && isG(se.X) {
						if sel := pi.p.TypesInfo.Selections[se]; sel != nil {
							if fn, ok := sel.Obj().(*types.Func); ok {
								sig := fn.Type().(*types.Signature)
								if sig.Recv() != nil {
									if _, ptr := sig.Recv().Type().(*types.Pointer); ptr {
										if id, ok := se.X.(*ast.Ident); ok {
											if _, isPtr := pi.p.TypesInfo.Uses[id].Type().(*types.Pointer); !isPtr {
												writers = append(writers, key+" calls a pointer method on a package-level variable")
											}
										}
									}
								}
							}
						}
					}
				}
				return true
			})
		})
		sort.Strings(globals)
		sort.Strings(writers)
		sort.Strings(gos)
		sort.Strings(danger)
		w := func(name string, xs []string) {
			fmt.Fprintf(&gb, "def %s%s : List String := [", strings.ToLower(pi.short), name)
			for i, x := range xs {
				if i > 0 {
					gb.WriteString(", ")
				}
				fmt.Fprintf(&gb, "%q", x)
			}
			gb.WriteString("]\n")
		}
		// methods that store through their receiver (directly, or by calling such a method on the receiver
		// or on something reachable from it): fixpoint over (type.method) names
		type minfo struct {
			key    string
			direct bool
			calls  []string // method names invoked on receiver-rooted expressions
		}
		var methods []*minfo
		eachFunc(pi.p, func(fd *ast.FuncDecl, _ *ast.File) {
			if fd.Recv == nil || len(fd.Recv.List) != 1 || len(fd.Recv.List[0].Names) != 1 {
				return
			}
			recv := fd.Recv.List[0].Names[0].Name
			rooted := func(e ast.Expr) bool {
				for {
					switch x := e.(type) {
					case *ast.Ident:
						return x.Name == recv
					case *ast.SelectorExpr:
						e = x.X
					case *ast.IndexExpr:
						e = x.X
					case *ast.StarExpr:
						e = x.X
					case *ast.ParenExpr:
						e = x.X
					case *ast.CallExpr: // conversions such as (*TagList)(c)
						if len(x.Args) == 1 {
							e = x.Args[0]
						} else {
							return false
						}
					case *ast.UnaryExpr:
						e = x.X
					default:
						return false
					}
				}
			}
			mi := &minfo{key: funcKey(fd)}
			ast.Inspect(fd.Body, func(n ast.Node) bool {
				switch x := n.(type) {
				case *ast.AssignStmt:
					for _, l := range x.Lhs {
						if id, ok := l.(*ast.Ident); ok && id.Name == recv {
							continue // rebinding the local receiver variable is not a store
						}
						if rooted(l) {
							mi.direct = true
						}
					}
				case *ast.IncDecStmt:
					if rooted(x.X) {
						mi.direct = true
					}
				case *ast.CallExpr:
					if id, ok := x.Fun.(*ast.Ident); ok && id.Name == "delete" && len(x.Args) > 0 && rooted(x.Args[0]) {
						mi.direct = true
					}
					if se, ok := x.Fun.(*ast.SelectorExpr); ok && rooted(se.X) {
						mi.calls = append(mi.calls, se.Sel.Name)
					}
					if id, ok := x.Fun.(*ast.Ident); ok && (id.Name == "sort") {
						mi.direct = true
					}
					if se, ok := x.Fun.(*ast.SelectorExpr); ok {
						if pk, ok := se.X.(*ast.Ident); ok && pk.Name == "sort" {
							for _, a := range x.Args {
								if rooted(a) {
									mi.direct = true
								}
							}
						}
					}
				}
				return true
			})
			methods = append(methods, mi)
		})
		writerNames := map[string]bool{}
		for changed := true; changed; {
			changed = false
			for _, m := range methods {
				name := m.key[strings.LastIndex(m.key, ".")+1:]
				w := m.direct
				for _, cl := range m.calls {
					if writerNames[cl] {
						w = true
					}
				}
				if w && !writerNames[name] {
					writerNames[name] = true
					changed = true
				}
			}
		}
		var recvWriters []string
		for _, m := range methods {
			name := m.key[strings.LastIndex(m.key, ".")+1:]
			isW := m.direct
			for _, cl := range m.calls {
				if writerNames[cl] {
					isW = true
				}
			}
			_ = name
			if isW {
				recvWriters = append(recvWriters, m.key)
			}
		}
		sort.Strings(recvWriters)
		w("Globals", globals)
		w("ReceiverWriters", recvWriters)
		w("GlobalWriters", writers)
		w("GoStatements", gos)
		w("SyncUnsafeImports", danger)
		facts["globals_"+pi.short] = map[string]interface{}{"globals": globals, "writers": writers, "go": gos, "imports": danger}
	}
	gb.WriteString("\nend Jwt.Gen\n")
	must(os.WriteFile(filepath.Join(*out, "Globals.lean"), []byte(gb.String()), 0o644))

	// ---------- G8 validation facts ----------
	var vb strings.Builder
	vb.WriteString(hdr + "namespace Jwt.Gen\n\n")
	for _, pi := range infos {
		if pi.short != "V2" {
			continue
		}
		var sites []string   // "Func:AddError" multiset
		var calls []string   // "XClaims.Validate -> ClaimsData.Validate [unconditional|conditional]"
		var timeChk []string // AddTimeCheck sites
		var twtc []string    // validateWithTimeChecks call sites with their literal flag
		eachFunc(pi.p, func(fd *ast.FuncDecl, _ *ast.File) {
			key := funcKey(fd)
			var walk func(n ast.Node, cond bool)
			walk = func(n ast.Node, cond bool) {
				ast.Inspect(n, func(m ast.Node) bool {
					switch x := m.(type) {
					case *ast.IfStmt:
						if x.Init != nil {
							walk(x.Init, cond)
						}
						walk(x.Cond, cond)
						walk(x.Body, true)
						if x.Else != nil {
							walk(x.Else, true)
						}
						return false
					case *ast.ForStmt, *ast.RangeStmt, *ast.SwitchStmt, *ast.TypeSwitchStmt, *ast.FuncLit:
						if m != n {
							walk2(m, walk)
							return false
						}
					case *ast.CallExpr:
						if se, ok := x.Fun.(*ast.SelectorExpr); ok {
							switch se.Sel.Name {
							case "AddError", "AddWarning":
								sites = append(sites, key+":"+se.Sel.Name)
							case "AddTimeCheck":
								timeChk = append(timeChk, key)
							case "validateWithTimeChecks":
								arg := "?"
								if len(x.Args) == 2 {
									if id, ok := x.Args[1].(*ast.Ident); ok {
										arg = id.Name
									}
								}
								twtc = append(twtc, key+":"+arg)
							case "Validate":
								if sel := pi.p.TypesInfo.Selections[se]; sel != nil {
									if fn, ok := sel.Obj().(*types.Func); ok {
										sig := fn.Type().(*types.Signature)
										if sig.Recv() != nil && strings.HasSuffix(sig.Recv().Type().String(), "ClaimsData") {
											c := "unconditional"
											if cond {
												c = "conditional"
											}
											calls = append(calls, key+" -> ClaimsData.Validate "+c)
										}
									}
								}
							}
						}
					case *ast.AssignStmt:
						for _, l := range x.Lhs {
							if se, ok := l.(*ast.SelectorExpr); ok && se.Sel.Name == "Blocking" {
								sites = append(sites, key+":Blocking=")
							}
						}
					}
					return true
				})
			}
			walk(fd.Body, false)
		})
		sort.Strings(sites)
		sort.Strings(calls)
		sort.Strings(timeChk)
		w := func(name string, xs []string) {
			fmt.Fprintf(&vb, "def %s : List String := [\n", name)
			for i, x := range xs {
				sep := ","
				if i == len(xs)-1 {
					sep = ""
				}
				fmt.Fprintf(&vb, "  %q%s\n", x, sep)
			}
			vb.WriteString("]\n")
		}
		w("issueSites", sites)
		w("claimsDataValidateCalls", calls)
		w("timeCheckSites", timeChk)
		sort.Strings(twtc)
		w("withTimeChecksCalls", twtc)
		facts["validation"] = map[string]interface{}{"sites": sites, "calls": calls, "timecheck": timeChk}
	}
	vb.WriteString("\nend Jwt.Gen\n")
	must(os.WriteFile(filepath.Join(*out, "Validation.lean"), []byte(vb.String()), 0o644))

	// ---------- G5: panic-capable sites of package jwt (v2) ----------
	var sb5 strings.Builder
	sb5.WriteString(hdr + "namespace Jwt.Gen\n\n")
	for _, pi := range infos {
		if pi.short != "V2" {
			continue
		}
		var sites []string
		eachFunc(pi.p, func(fd *ast.FuncDecl, _ *ast.File) {
			key := funcKey(fd)
			src := func(n ast.Node) string {
				var buf bytes.Buffer
				printer.Fprint(&buf, token.NewFileSet(), n)
				t := strings.Join(strings.Fields(buf.String()), " ")
				if len(t) > 70 {
					t = t[:70]
				}
				return t
			}
			// loop variables ranging over slices of pointers / maps to interfaces: derefs of those can hit nil
			ptrVars := map[string]bool{}
			ast.Inspect(fd.Body, func(n ast.Node) bool {
				if rs, ok := n.(*ast.RangeStmt); ok && rs.Value != nil {
					if id, ok := rs.Value.(*ast.Ident); ok {
						if tv, ok := pi.p.TypesInfo.Types[rs.X]; ok {
							var el types.Type
							switch u := tv.Type.Underlying().(type) {
							case *types.Slice:
								el = u.Elem()
							case *types.Map:
								el = u.Elem()
							case *types.Pointer:
								if sl, ok := u.Elem().Underlying().(*types.Slice); ok {
									el = sl.Elem()
								}
							}
							if el != nil {
								switch el.Underlying().(type) {
								case *types.Pointer, *types.Interface:
									ptrVars[id.Name] = true
								}
							}
						}
					}
				}
				return true
			})
			ast.Inspect(fd.Body, func(n ast.Node) bool {
				switch x := n.(type) {
				case *ast.IndexExpr:
					if tv, ok := pi.p.TypesInfo.Types[x.X]; ok {
						switch tv.Type.Underlying().(type) {
						case *types.Slice, *types.Array, *types.Basic:
							sites = append(sites, key+" | index | "+src(x))
						}
					}
				case *ast.SliceExpr:
					sites = append(sites, key+" | slice | "+src(x))
				case *ast.AssignStmt:
					for _, l := range x.Lhs {
						if ix, ok := l.(*ast.IndexExpr); ok {
							if tv, ok := pi.p.TypesInfo.Types[ix.X]; ok {
								if _, isMap := tv.Type.Underlying().(*types.Map); isMap {
									sites = append(sites, key+" | mapstore | "+src(ix))
								}
							}
						}
					}
				case *ast.SelectorExpr:
					if id, ok := x.X.(*ast.Ident); ok && ptrVars[id.Name] {
						sites = append(sites, key+" | elemderef | "+src(x))
					}
				case *ast.TypeAssertExpr:
					if x.Type != nil {
						sites = append(sites, key+" | typeassert | "+src(x))
					}
				case *ast.CallExpr:
					if id, ok := x.Fun.(*ast.Ident); ok && id.Name == "panic" {
						sites = append(sites, key+" | panic | "+src(x))
					}
					if se, ok := x.Fun.(*ast.SelectorExpr); ok {
						if se.Sel.Name == "MustCompile" {
							sites = append(sites, key+" | mustcompile | "+src(x))
						}
					}
				case *ast.StarExpr:
					sites = append(sites, key+" | deref | "+src(x))
				}
				return true
			})
		})
		sort.Strings(sites)
		sb5.WriteString("/-- every syntactic site in package jwt that the Go runtime checks at run time (index, slice, map store,\nuse of a possibly-nil list element, unchecked type assertion, explicit panic, pointer dereference) -/\ndef panicSites : List String := [\n")
		for i, st := range sites {
			sep := ","
			if i == len(sites)-1 {
				sep = ""
			}
			fmt.Fprintf(&sb5, "  %q%s\n", st, sep)
		}
		sb5.WriteString("]\n")
		facts["panic_sites"] = sites
	}
	sb5.WriteString("\nend Jwt.Gen\n")
	must(os.WriteFile(filepath.Join(*out, "Sites.lean"), []byte(sb5.String()), 0o644))

	// ---------- G9: translated functions ----------
	fnText, fnValText, fnUnsupp := genFns(infos)
	must(os.WriteFile(filepath.Join(*out, "Fn.lean"), []byte(fnText), 0o644))
	must(os.WriteFile(filepath.Join(*out, "FnVal.lean"), []byte(fnValText), 0o644))
	facts["fn_unsupported"] = fnUnsupp

	b, _ := json.MarshalIndent(facts, "", " ")
	must(os.WriteFile(filepath.Join(*out, "facts.json"), b, 0o644))
	fmt.Printf("extracted: %d schemas, %d schema problems\n", len(schemaNames["V2"])+len(schemaNames["V1"]), len(allProblems))
}

// walk2 visits the children of a loop/switch node with cond=true (a call inside them is conditional)
func walk2(m ast.Node, walk func(ast.Node, bool)) {
	switch x := m.(type) {
	case *ast.ForStmt:
		walk(x.Body, true)
	case *ast.RangeStmt:
		walk(x.Body, true)
	case *ast.SwitchStmt:
		walk(x.Body, true)
	case *ast.TypeSwitchStmt:
		walk(x.Body, true)
	case *ast.FuncLit:
		walk(x.Body, true)
	}
}

// eachTemplate records the raw-string templates of formatJwt / DecorateSeed.
func eachTemplate(p *packages.Package, file *ast.File, cb *strings.Builder, facts map[string]string) {
	for _, d := range file.Decls {
		fd, ok := d.(*ast.FuncDecl)
		if !ok || fd.Body == nil {
			continue
		}
		if fd.Name.Name != "formatJwt" && fd.Name.Name != "DecorateSeed" {
			continue
		}
		ast.Inspect(fd.Body, func(n ast.Node) bool {
			as, ok := n.(*ast.AssignStmt)
			if !ok || len(as.Lhs) != 1 || len(as.Rhs) != 1 {
				return true
			}
			id, ok := as.Lhs[0].(*ast.Ident)
			if !ok {
				return true
			}
			if tv, ok := p.TypesInfo.Types[as.Rhs[0]]; ok && tv.Value != nil && tv.Value.Kind() == constant.String {
				if id.Name == "templ" || id.Name == "header" || id.Name == "footer" {
					s := constant.StringVal(tv.Value)
					fmt.Fprintf(cb, "def V2.tmpl_%s_%s : Str := %s\n", fd.Name.Name, id.Name, leanStr(s))
					facts["V2.tmpl_"+fd.Name.Name+"_"+id.Name] = s
				}
			}
			return true
		})
	}
}

func must(err error) {
	if err != nil {
		die("%v", err)
	}
}
