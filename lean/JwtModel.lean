import JwtModel.Text
import JwtModel.Wire
import JwtModel.Subject
import JwtModel.Revocation
import JwtModel.Lists
import JwtModel.Drive.Basic
