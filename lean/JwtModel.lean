import JwtModel.Text
import JwtModel.Wire
import JwtModel.Subject
