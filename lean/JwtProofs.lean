import JwtProofs.Text
import JwtProofs.Subject
