import JwtProofs.Text
import JwtProofs.Subject
import JwtProofs.Revocation
import JwtProofs.Lists
