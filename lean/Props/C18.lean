import JwtProofs.HashId
import JwtProofs.Val
import JwtModel.Gen.Digests
import Props.FnTie
/-!
# C18 — activation hash identity is stable across re-encoding, migration and versions

Model: `cleanSubject`, `hashIdBase`, `hashId` (JwtModel/HashId.lean), tied to v2 *and* v1compat by the
correspondence stream `C18` (both libraries' `HashID` on the same tokens) and by the generated obligation that the
two packages' function bodies are textually identical. SHA-256+base32 is the parameter `digest`.
-/
namespace Jwt.C18
open Jwt Jwt.Codec

/-- **Depends only on** issuer, subject account and the cleaned granted subject. -/
theorem hashId_depends_only (digest : Str → Str) (i s g g' : Str) (hg : g ≠ []) (hg' : g' ≠ [])
    (hc : cleanSubject g = cleanSubject g') : hashId digest i s g = hashId digest i s g' := by
  unfold hashId hashIdBase
  by_cases h : i = [] ∨ s = [] <;> simp_all

/-- **Refused exactly when** one of the three is missing. -/
theorem hashId_refused_iff (digest : Str → Str) (i s g : Str) :
    hashId digest i s g = none ↔ i = [] ∨ s = [] ∨ g = [] := by
  unfold hashId; split <;> simp_all

theorem append_sep_inj (a a' r r' : Str) (ha : '.' ∉ a) (ha' : '.' ∉ a') (h : a ++ '.' :: r = a' ++ '.' :: r') :
    a = a' ∧ r = r' := by
  have h1 := splitOn_append_sep '.' r a ha
  have h2 := splitOn_append_sep '.' r' a' ha'
  rw [h] at h1
  rw [h1] at h2
  injection h2 with e1 e2
  subst e1
  exact ⟨rfl, by simpa using h⟩

/-- **Distinguishes.** For issuer and subject keys (which contain no dot), two activations get the same hash
identity only if issuer, subject and cleaned granted subject all agree — or the two different base strings
collide under the digest (an explicit SHA-256 collision; never assumed away). -/
theorem hashId_distinguishes (digest : Str → Str) (i s g i' s' g' h : Str)
    (hd : '.' ∉ i ∧ '.' ∉ s ∧ '.' ∉ i' ∧ '.' ∉ s')
    (h1 : hashId digest i s g = some h) (h2 : hashId digest i' s' g' = some h) :
    (i = i' ∧ s = s' ∧ cleanSubject g = cleanSubject g') ∨
    (hashIdBase i s g ≠ hashIdBase i' s' g' ∧ digest (hashIdBase i s g) = digest (hashIdBase i' s' g')) := by
  unfold hashId at h1 h2
  split at h1
  · cases h1
  · split at h2
    · cases h2
    · injection h1 with h1; injection h2 with h2
      by_cases hb : hashIdBase i s g = hashIdBase i' s' g'
      · left
        unfold hashIdBase at hb
        obtain ⟨e1, hb⟩ := append_sep_inj _ _ _ _ hd.1 hd.2.2.1 hb
        obtain ⟨e2, hb⟩ := append_sep_inj _ _ _ _ hd.2.1 hd.2.2.2 hb
        exact ⟨e1, e2, hb⟩
      · right; exact ⟨hb, h1.trans h2.symm⟩

/-- the granted subject up to its first wildcard token: a literal subject is its own identity … -/
theorem clean_literal (s : Str) (h : ∀ t ∈ splitOn '.' s, isWild t = false) : cleanSubject s = s :=
  cleanSubject_literal s h
/-- … a leading wildcard (or `>` alone) maps to the fixed placeholder … -/
theorem clean_leading (s t : Str) (ts : List Str) (hs : splitOn '.' s = t :: ts) (hw : isWild t = true) :
    cleanSubject s = ['_'] := cleanSubject_leading s t ts hs hw
/-- … and otherwise exactly the tokens before the first wildcard token are kept. -/
theorem clean_prefix (s t : Str) (ts pre : List Str) (hs : splitOn '.' s = t :: ts) (hw : isWild t = false)
    (ht : t ≠ []) (hp : cleanToks (t :: ts) = some pre) :
    cleanSubject s = join '.' pre ∧ pre = (t :: ts).takeWhile (fun x => !isWild x) := by
  have hspec := (cleanToks_spec (t :: ts) pre hp).1
  refine ⟨?_, hspec⟩
  have hpre : ∃ r, pre = t :: r := by
    rw [hspec]; simp [List.takeWhile, hw]
  obtain ⟨r, rfl⟩ := hpre
  have hne : join '.' (t :: r) ≠ [] := by
    cases r with
    | nil => simpa [join] using ht
    | cons u us => cases t with
      | nil => exact absurd rfl ht
      | cons c cs => simp [join]
  simp [cleanSubject, hs, hw, hp, hne]

/-- **Migration and re-encoding.** The three inputs of the hash identity survive the v1 → v2 migration
(`v1ActivationClaims.migrateV1` copies issuer, subject and the granted subject verbatim). -/
theorem migrate_preserves_inputs (v1 : Val) :
    (migrateActivation v1).field "iss" = v1.field "iss" ∧ (migrateActivation v1).field "sub" = v1.field "sub" ∧
    ((migrateActivation v1).field "nats").field "subject" = (v1.field "nats").field "subject" := by
  refine ⟨?_, ?_, ?_⟩
  · simp only [migrateActivation, Val.copyFrom, claimsDataKeys, List.foldl_cons, List.foldl_nil]
    rw [Val.field_set_ne _ _ _ _ (by decide), Val.field_set_ne _ _ _ _ (by decide), Val.field_set_ne _ _ _ _ (by decide),
      Val.field_set_ne _ _ _ _ (by decide), Val.field_set_eq]
    simp only [Val.hasKey_set]; decide
  · simp only [migrateActivation, Val.copyFrom, claimsDataKeys, List.foldl_cons, List.foldl_nil]
    rw [Val.field_set_ne _ _ _ _ (by decide), Val.field_set_eq]
    simp only [Val.hasKey_set]; decide
  · simp only [migrateActivation, rehomeV1, Val.copyFrom, claimsDataKeys, List.foldl_cons, List.foldl_nil]
    rw [Val.field_set_eq _ _ _ (by simp only [Val.hasKey_set]; decide)]
    rw [Val.field_set_ne _ _ _ _ (by decide), Val.field_set_ne _ _ _ _ (by decide), Val.field_set_ne _ _ _ _ (by decide),
      Val.field_set_ne _ _ _ _ (by decide), Val.field_set_ne _ _ _ _ (by decide), Val.field_set_eq]
    decide

def sameBody (name : String) : Bool := (Gen.sameBodyV1V2.find? (fun e => e.1 == name)).map (·.2) == some true

/-- **Generated obligation.** The version-1 library computes the same function: the bodies of `cleanSubject`
and `HashID` in v2 and v1compat are textually identical in today's source. -/
theorem gen_v1_v2_same_function : sameBody "cleanSubject" = true ∧ sameBody "ActivationClaims.HashID" = true := by
  decide

/-! ### Non-vacuity -/
example : cleanSubject "foo.bar.*.baz".toList = "foo.bar".toList ∧ cleanSubject "*.a".toList = "_".toList ∧
          cleanSubject ">".toList = "_".toList ∧ cleanSubject "a.b".toList = "a.b".toList := by decide

end Jwt.C18
