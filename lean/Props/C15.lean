import JwtProofs.Creds
import Props.FnTie
/-!
# C15 — credential files round-trip the token and the seed

Model: `formatJwt`, `decorateSeed`, `formatUserConfig`, the hand matcher `matchHere` / `blocks` for the
library's regular expression, `parseDecoratedJWT`, `decoratedSeedText` (JwtModel/Creds.lean). Tied to the code by
the correspondence stream `C15`: real `FormatUserConfig` / `DecorateJWT` output, and Go's `regexp` on structured
adversarial text, against the model. "Same key pair" = same seed text handed to `nkeys.FromSeed`, which is a
function of it (trusted).
-/
namespace Jwt.C15
open Jwt Jwt.Creds

/-- characters a token or seed is made of (base64url, base32, the dots between segments) -/
def TokenText (s : Str) : Prop := s ≠ [] ∧ ∀ c ∈ s, isTok c = true

set_option maxRecDepth 100000 in
/-- **Generated obligation.** The regular expression and the three templates in today's creds_utils.go are the
ones the matcher and the formatters were written against. -/
theorem gen_literals :
    Gen.V2.userConfigRE = "\\s*(?:(?:[-]{3,}.*[-]{3,}\\r?\\n)([\\w\\-.=]+)(?:\\r?\\n[-]{3,}.*[-]{3,}(\\r?\\n|\\z)))".toList ∧
    Gen.V2.tmpl_formatJwt_templ = "-----BEGIN NATS %s JWT-----\n%s\n------END NATS %s JWT------\n\n".toList ∧
    Gen.V2.tmpl_DecorateSeed_header = ("************************* IMPORTANT *************************\n" ++
      "NKEY Seed printed below can be used to sign and prove identity.\n" ++
      "NKEYs are sensitive and should be treated as secrets.\n\n-----BEGIN %s NKEY SEED-----\n").toList ∧
    Gen.V2.tmpl_DecorateSeed_footer = "\n------END %s NKEY SEED------\n\n*************************************************************\n".toList := by
  decide

private def jwtOpen : Str := "-----BEGIN NATS USER JWT-----".toList
private def jwtClose : Str := "------END NATS USER JWT------".toList
private def seedOpen : Str := "-----BEGIN USER NKEY SEED-----".toList
private def seedClose : Str := "------END USER NKEY SEED------".toList
private def midText : Str :=
  ("\n************************* IMPORTANT *************************\n" ++
   "NKEY Seed printed below can be used to sign and prove identity.\n" ++
   "NKEYs are sensitive and should be treated as secrets.\n\n").toList
private def tailText : Str := "\n*************************************************************\n".toList

/-- the credentials file `FormatUserConfig` writes for a user token and a user seed (no surrounding blanks in the seed) -/
def credsText (tok seed : Str) : Str := formatJwt "user".toList tok ++ (seedHeader "USER".toList ++ seed ++ seedFooter "USER".toList)

set_option maxRecDepth 100000 in
theorem seedHeader_shape : seedHeader "USER".toList = midText.drop 1 ++ (seedOpen ++ ['\n']) := by decide
set_option maxRecDepth 100000 in
theorem seedFooter_shape : seedFooter "USER".toList = '\n' :: (seedClose ++ '\n' :: tailText) := by decide
set_option maxRecDepth 100000 in
theorem midText_head : midText = '\n' :: midText.drop 1 := by decide
set_option maxRecDepth 100000 in
theorem formatJwt_user (tok : Str) :
    formatJwt "user".toList tok = jwtOpen ++ '\n' :: (tok ++ '\n' :: (jwtClose ++ ['\n', '\n'])) := by
  have e1 : pBegin ++ goUpper "user".toList ++ pBeginEnd = jwtOpen := by decide
  have e2 : pEnd ++ goUpper "user".toList ++ pEndEnd = jwtClose := by decide
  unfold formatJwt
  rw [e1, e2]

theorem credsText_shape (tok seed : Str) :
    credsText tok seed =
      jwtOpen ++ '\n' :: (tok ++ '\n' :: (jwtClose ++ '\n' ::
        (midText ++ (seedOpen ++ '\n' :: (seed ++ '\n' :: (seedClose ++ '\n' :: tailText)))))) := by
  unfold credsText
  rw [formatJwt_user, seedHeader_shape, seedFooter_shape]
  conv => rhs; rw [midText_head]
  simp [List.append_assoc]

set_option maxRecDepth 100000 in
theorem midText_nodash : ∀ c ∈ midText, c ≠ '-' := by decide
set_option maxRecDepth 100000 in
theorem tailText_nodash : ∀ c ∈ tailText, c ≠ '-' := by decide

/-- **The blocks of a credentials file are exactly the token and the seed** (LF line ends, any leading blank
lines). -/
theorem blocks_credsText (lead tok seed : Str) (hl : ∀ c ∈ lead, isSpace c = true)
    (ht : TokenText tok) (hs : TokenText seed) :
    blocks (lead ++ credsText tok seed) = [tok, seed] := by
  have hlead : ∀ c ∈ lead, c ≠ '-' := by
    intro c hc e; subst e; have := hl _ hc; revert this; decide
  rw [blocks_nodash_prefix lead _ hlead, credsText_shape]
  rw [blocks_of_match _ tok _ (matchHere_block jwtOpen jwtClose tok _ (by decide) (by decide) (by decide) (by decide) ht.2 ht.1)]
  rw [blocks_nodash_prefix midText _ midText_nodash]
  rw [blocks_of_match _ seed _ (matchHere_block seedOpen seedClose seed _ (by decide) (by decide) (by decide) (by decide) hs.2 hs.1)]
  have : blocks tailText = [] := by
    have := blocks_nodash_prefix tailText [] tailText_nodash
    simpa [blocks, findBlocks, matchHere, splitNL] using this
  rw [this]

/-- **C15 (token).** The credentials file parses back to exactly the same token text. -/
theorem creds_token_roundtrip (lead tok seed : Str) (hl : ∀ c ∈ lead, isSpace c = true)
    (ht : TokenText tok) (hs : TokenText seed) :
    parseDecoratedJWT (lead ++ credsText tok seed) = tok := by
  unfold parseDecoratedJWT; rw [blocks_credsText lead tok seed hl ht hs]

/-- **C15 (seed).** … and to the same seed text (hence, `nkeys.FromSeed` being a function, the same key pair). -/
theorem creds_seed_roundtrip (lead tok seed : Str) (hl : ∀ c ∈ lead, isSpace c = true)
    (ht : TokenText tok) (hs : TokenText seed) (hp : hasSeedPrefix seed = true) :
    decoratedSeedText (lead ++ credsText tok seed) = some seed := by
  unfold decoratedSeedText; rw [blocks_credsText lead tok seed hl ht hs]; simp [hp]

/-- `FormatUserConfig` writes `credsText` for a seed without surrounding blanks -/
theorem decorateSeed_user (seed rest : Str) (he : seed = 'S' :: 'U' :: rest) (hs : ∀ c ∈ seed, isTok c = true) :
    decorateSeed seed = some (seedHeader "USER".toList ++ seed ++ seedFooter "USER".toList) := by
  have ht : trimSpace seed = seed := trimSpace_id seed (fun c hc => isTok_not_goSpace c (hs c hc))
  unfold decorateSeed
  simp only [ht]
  subst he
  rfl

theorem dashX_wrap (a b m : Str) (ha : a.length ≥ 3 ∧ (a.take 3).all isDash = true)
    (hb : b.length ≥ 3 ∧ (b.reverse.take 3).all isDash = true) : dashX (a ++ m ++ b) = true := by
  unfold dashX
  simp only [Bool.and_eq_true, decide_eq_true_eq]
  refine ⟨⟨by simp; omega, ?_⟩, ?_⟩
  · have : (a ++ m ++ b).take 3 = a.take 3 := by
      rw [List.append_assoc, List.take_append_of_le_length ha.1]
    rw [this]; exact ha.2
  · have : (a ++ m ++ b).reverse.take 3 = b.reverse.take 3 := by
      rw [List.reverse_append, List.take_append_of_le_length (by simpa using hb.1)]
    rw [this]; exact hb.2

/-- **Decorating any token and parsing it back returns the token unchanged.** -/
theorem decorate_roundtrip (kind tok : Str) (hk : ∀ c ∈ goUpper kind, notNL c = true) (ht : TokenText tok) :
    parseDecoratedJWT (formatJwt kind tok) = tok := by
  have hd1 : dashX (pBegin ++ goUpper kind ++ pBeginEnd) = true := dashX_wrap _ _ _ (by decide) (by decide)
  have hd2 : dashX (pEnd ++ goUpper kind ++ pEndEnd) = true := dashX_wrap _ _ _ (by decide) (by decide)
  have hn1 : ∀ c ∈ pBegin ++ goUpper kind ++ pBeginEnd, notNL c = true := by
    intro c hc
    simp only [List.mem_append] at hc
    rcases hc with (hc | hc) | hc
    · revert c; decide
    · exact hk c hc
    · revert c; decide
  have hn2 : ∀ c ∈ pEnd ++ goUpper kind ++ pEndEnd, notNL c = true := by
    intro c hc
    simp only [List.mem_append] at hc
    rcases hc with (hc | hc) | hc
    · revert c; decide
    · exact hk c hc
    · revert c; decide
  unfold parseDecoratedJWT formatJwt
  rw [blocks_of_match _ tok _ (matchHere_block _ _ tok _ hd1 hd2 hn1 hn2 ht.2 ht.1)]

/-- **A bare token parses to itself**: text without a dash line contains no block. -/
theorem bare_token (tok : Str) (hnd : blocks tok = []) : parseDecoratedJWT tok = tok := by
  unfold parseDecoratedJWT; rw [hnd]

/-- a text with no line break cannot contain a block (so a token — one line — parses to itself) -/
theorem no_newline_no_block (l : Str) (h : '\n' ∉ l) : matchHere l = none := by
  unfold matchHere
  have : splitNL (l.dropWhile isSpace) = none := by
    unfold splitNL
    have hsub : ∀ c ∈ l.dropWhile isSpace, notNL c = true := by
      intro c hc
      have : c ∈ l := (List.dropWhile_suffix (p := isSpace)).subset hc
      simp only [notNL, decide_eq_true_eq]
      intro e; subst e; exact h this
    have hall : ∀ (m : Str), (∀ c ∈ m, notNL c = true) → m.dropWhile notNL = [] := by
      intro m
      induction m with
      | nil => intro _; rfl
      | cons a t ih => intro hm; simp [List.dropWhile_cons, hm a (by simp), ih (fun c hc => hm c (by simp [hc]))]
    rw [hall _ hsub]
  rw [this]

theorem bare_token_one_line (tok : Str) (h : '\n' ∉ tok) : parseDecoratedJWT tok = tok := by
  have : ∀ (f : Nat) (l : Str), '\n' ∉ l → findBlocks f l = [] := by
    intro f
    induction f with
    | zero => intro l _; rfl
    | succ f ih =>
      intro l hl
      simp only [findBlocks, no_newline_no_block l hl]
      cases l with
      | nil => rfl
      | cons c t => exact ih t (fun hm => hl (by simp [hm]))
  unfold parseDecoratedJWT blocks
  rw [this _ tok h]

/-- **Refusals.** A seed that does not start with SU / SA / SO cannot be decorated … -/
theorem decorateSeed_refuses (seed : Str) (h : hasSeedPrefix (trimSpace seed) = false) : decorateSeed seed = none := by
  unfold decorateSeed
  simp only [hasSeedPrefix, Bool.or_eq_false_iff] at h
  generalize trimSpace seed = ts at h
  match ts, h with
  | [], _ => rfl
  | [_], _ => simp
  | a :: b :: u, h =>
    simp only [isPrefixB, Bool.and_true, Bool.and_eq_false_iff, decide_eq_false_iff_not] at h
    obtain ⟨⟨h1, h2⟩, h3⟩ := h
    by_cases ha : a = 'S'
    · subst ha
      have hb1 : b ≠ 'O' := by rcases h1 with h | h; exact absurd rfl h; exact fun e => h e.symm
      have hb2 : b ≠ 'A' := by rcases h2 with h | h; exact absurd rfl h; exact fun e => h e.symm
      have hb3 : b ≠ 'U' := by rcases h3 with h | h; exact absurd rfl h; exact fun e => h e.symm
      simp only
      split <;> simp_all
    · simp only
      split <;> simp_all

/-- … and `FormatUserConfig` refuses a non-user token or a non-user seed. -/
theorem formatUserConfig_refuses (cr : Crypto) (tok seed : Str)
    (h : (∀ c, decode cr tok = .ok c → claimTypeOf c ≠ Gen.V2.cUserClaim) ∨ isPrefixB ['S', 'U'] (trimSpace seed) = false) :
    ∃ e, formatUserConfig cr tok seed = .error e := by
  unfold formatUserConfig
  cases hd : decode cr tok with
  | error e => exact ⟨e, rfl⟩
  | ok c =>
    simp only [bind, Except.bind]
    by_cases hu : claimTypeOf c = Gen.V2.cUserClaim
    · rcases h with h | h
      · exact absurd hu (h c hd)
      · simp only [hu, ne_eq, not_true_eq_false, if_false, h, Bool.not_false, if_true]; exact ⟨_, rfl⟩
    · simp only [ne_eq, hu, not_false_eq_true, if_true]; exact ⟨_, rfl⟩

/-! ### Non-vacuity -/
example : TokenText "eyJ0eXAi.eyJqdGkiOiJ-_x.c2ln".toList := ⟨by decide, by decide⟩
example : hasSeedPrefix "SUAIO3FHUX5PNV2LQIIP7TZ3N4L7TX3W53MQGEIVYFIGA635OZCKEYHFLM".toList = true := by decide

end Jwt.C15
