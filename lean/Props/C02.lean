import Props.FnTie
import JwtProofs.Decode
import JwtModel.Encode
/-!
# C02 — only permitted key roles can issue each claim kind; typed decoders are kind-safe

The property's role table is written out here (`allowedSpec`); the library's tables are *generated* from
/repo (`Gen.V2.expectedPrefixes`, `Gen.V2.decodeArms`, `Gen.V2.encodeArms`), so `gen_prefixes_eq_spec` and
`gen_arms_cover` are re-decided against today's source on every run.
-/
namespace Jwt.C02
open Jwt Jwt.NKey

/-- operator: operator; account and activation: account or operator; user and authorization response:
account; authorization request: server; generic: any -/
def allowedSpec : Kind → Option (List Role)
  | .operator => some [.operator]
  | .account => some [.account, .operator]
  | .activation => some [.account, .operator]
  | .user => some [.account]
  | .authResponse => some [.account]
  | .authRequest => some [.server]
  | .generic => none

def sameRoles (a b : List Role) : Bool := a.all (b.contains ·) && b.all (a.contains ·)

def prefixesMatch : Option (List Role) → Option (List Role) → Bool
  | some g, some s => sameRoles g s
  | none, none => true
  | _, _ => false

/-- **Generated obligation.** Each claims type's `ExpectedPrefixes()` is the property's table (as a set). -/
theorem gen_prefixes_eq_spec : ∀ k : Kind, prefixesMatch (expectedPrefixes k) (allowedSpec k) = true := by
  intro k; cases k <;> decide

/-- **Generated obligation.** Every role the table needs has an arm in both issuer switches. -/
theorem gen_arms_cover : ∀ k : Kind, ∀ r ∈ (allowedSpec k).getD [], r ∈ Gen.V2.decodeArms ∧ r ∈ Gen.V2.encodeArms := by
  intro k; cases k <;> decide

theorem roleGate_spec (arms : List Role) (k : Kind) (issuer : Str)
    (h : roleGate arms (expectedPrefixes k) issuer = true) :
    match allowedSpec k with
    | none => True
    | some s => ∃ r ∈ s, isValidPublic r issuer = true := by
  have hg := gen_prefixes_eq_spec k
  cases hs : allowedSpec k with
  | none => trivial
  | some s =>
    cases he : expectedPrefixes k with
    | none => rw [he, hs] at hg; simp [prefixesMatch] at hg
    | some g =>
      rw [he, hs] at hg
      simp only [roleGate, he, List.any_eq_true, Bool.and_eq_true] at h
      obtain ⟨p, hp, _, hv⟩ := h
      simp only [prefixesMatch, sameRoles, Bool.and_eq_true, List.all_eq_true] at hg
      have := hg.1 p hp
      exact ⟨p, by simpa using this, hv⟩

/-- **Decode side.** A claim of a non-generic kind is accepted only if its issuer is a public key of a role
allowed to issue that kind. -/
theorem decode_issuer_role (cr : Crypto) (tok : Str) (c : Claims) (hd : decode cr tok = .ok c) :
    match allowedSpec c.kind with
    | none => True
    | some s => ∃ r ∈ s, isValidPublic r c.issuer = true := by
  obtain ⟨_, _, _, _, _, _, _, _, _, _, _, _, _, _, _, hr⟩ := decode_ok_inv cr tok c hd
  exact roleGate_spec _ _ _ hr

theorem kindOfType_inv (t : Str) (k : Kind) (h : kindOfType t = some k) : t = kindTypeStr k := by
  unfold kindOfType at h
  repeat (split at h; · next e => injection h with h; subst h; exact e)
  cases h

/-- **Typed decoders are kind-safe.** `Decode<Kind>Claims` returns only claims whose dynamic kind is its own
and whose payload declares that kind. -/
theorem typed_decoder_kind_safe (k : Kind) (hk : k ≠ .generic) (cr : Crypto) (tok : Str) (c : Claims)
    (hd : decodeTyped k cr tok = .ok c) :
    c.kind = k ∧ ∃ h p s text j id, splitOn '.' tok = [h, p, s] ∧ segmentText p = .ok text ∧
      parseJsonText text = .ok j ∧ identOf j = .ok id ∧ id.kindStr = kindTypeStr k := by
  obtain ⟨hdec, hkind⟩ := decodeTyped_ok_inv k cr tok c hd
  refine ⟨hkind, ?_⟩
  obtain ⟨h, p, s, _, text, j, ver0, _, hs, _, h2, h3, h4, _⟩ := decode_ok_inv cr tok c hdec
  obtain ⟨id, hid, _, hcase⟩ := loadClaims_inv j ver0 c h4
  rcases hcase with ⟨k', hk', hck, _, _⟩ | ⟨_, _, _, hck, _⟩
  · refine ⟨h, p, s, text, j, id, hs, h2, h3, hid, ?_⟩
    rw [← hkind, hck]; exact kindOfType_inv _ _ hk'
  · exact absurd (hkind ▸ hck) hk

/-- **The kinds without a version-1 form return only claims that declare their own kind (or none)** — a
top-level `type` cannot smuggle in a nats section of another kind (repair D13). -/
theorem auth_kinds_declare_own_kind (cr : Crypto) (tok : Str) (c : Claims) (hd : decode cr tok = .ok c)
    (hk : c.kind = .authRequest ∨ c.kind = .authResponse) :
    declaredOk (kindTypeStr c.kind) c.val = true := by
  obtain ⟨_, _, _, _, _, j, ver0, _, _, _, _, _, h4, _⟩ := decode_ok_inv cr tok c hd
  obtain ⟨id, _, _, hcase⟩ := loadClaims_inv j ver0 c h4
  rcases hcase with ⟨k', _, hck, _, hl⟩ | ⟨_, _, _, hck, _⟩
  · subst hck
    rcases hk with hk | hk <;> rw [hk] at hl ⊢ <;> simp only [loadTyped] at hl
    · cases h1 : decodeJson Gen.V2.AuthorizationRequestClaims (Codec.zero Gen.V2.AuthorizationRequestClaims) j with
      | error e => simp [h1, bind, Except.bind] at hl
      | ok v =>
        simp only [h1, bind, Except.bind, pure, Except.pure] at hl
        by_cases hok : declaredOk Gen.V2.cAuthorizationRequestClaim v = true
        · by_cases hvo : versionOk id.version v = true
          · simp only [hok, hvo, Bool.and_self, if_true, Except.ok.injEq] at hl; rw [← hl]; exact hok
          · simp [hok, hvo] at hl
        · simp [hok] at hl
    · cases h1 : decodeJson Gen.V2.AuthorizationResponseClaims (Codec.zero Gen.V2.AuthorizationResponseClaims) j with
      | error e => simp [h1, bind, Except.bind] at hl
      | ok v =>
        simp only [h1, bind, Except.bind, pure, Except.pure] at hl
        by_cases hok : declaredOk Gen.V2.cAuthorizationResponseClaim v = true
        · by_cases hvo : versionOk id.version v = true
          · simp only [hok, hvo, Bool.and_self, if_true, Except.ok.injEq] at hl; rw [← hl]; exact hok
          · simp [hok, hvo] at hl
        · simp [hok] at hl
  · rcases hk with hk | hk <;> rw [hk] at hck <;> cases hck

/-- **Authorization claims never report a newer version than the one their signature layout was checked for**: the
decoder verified the signature over the text of version `ver0`, and the claims it returns declare a version ≤ `ver0`
(a top-level `type` — version 1, payload-only signature — cannot carry a `nats.version` of 2; repair D14). -/
theorem auth_kinds_version_checked (cr : Crypto) (tok : Str) (c : Claims) (hd : decode cr tok = .ok c)
    (hk : c.kind = .authRequest ∨ c.kind = .authResponse) :
    ∃ h p s header ver0 sig, splitOn '.' tok = [h, p, s] ∧ B64.decodeString s = some sig ∧
      verifySig cr c.issuer (signedText header ver0 c.kind h p) sig = true ∧ versionOk ver0 c.val = true := by
  obtain ⟨h, p, s, header, _, j, ver0, sig, hs, _, _, _, h4, hsig, hv, _⟩ := decode_ok_inv cr tok c hd
  refine ⟨h, p, s, header, ver0, sig, hs, hsig, hv, ?_⟩
  obtain ⟨id, _, _, hcase⟩ := loadClaims_inv j ver0 c h4
  rcases hcase with ⟨k', _, hck, hver, hl⟩ | ⟨_, _, _, hck, _⟩
  · subst hck
    rw [hver]
    rcases hk with hk | hk <;> rw [hk] at hl <;> simp only [loadTyped] at hl
    · cases h1 : decodeJson Gen.V2.AuthorizationRequestClaims (Codec.zero Gen.V2.AuthorizationRequestClaims) j with
      | error e => simp [h1, bind, Except.bind] at hl
      | ok v =>
        simp only [h1, bind, Except.bind, pure, Except.pure] at hl
        by_cases hvo : versionOk id.version v = true
        · by_cases hok : declaredOk Gen.V2.cAuthorizationRequestClaim v = true
          · simp only [hok, hvo, Bool.and_self, if_true, Except.ok.injEq] at hl; rw [← hl]; exact hvo
          · simp [hok] at hl
        · simp [hvo] at hl
    · cases h1 : decodeJson Gen.V2.AuthorizationResponseClaims (Codec.zero Gen.V2.AuthorizationResponseClaims) j with
      | error e => simp [h1, bind, Except.bind] at hl
      | ok v =>
        simp only [h1, bind, Except.bind, pure, Except.pure] at hl
        by_cases hvo : versionOk id.version v = true
        · by_cases hok : declaredOk Gen.V2.cAuthorizationResponseClaim v = true
          · simp only [hok, hvo, Bool.and_self, if_true, Except.ok.injEq] at hl; rw [← hl]; exact hvo
          · simp [hok] at hl
        · simp [hvo] at hl
  · rcases hk with hk | hk <;> rw [hk] at hck <;> cases hck

/-- **Encode refuses a signing key of a non-permitted role** (an error, hence no token). -/
theorem encode_refuses_role (env : EncEnv) (k : Kind) (v : Val)
    (hrole : match allowedSpec k with | none => False | some s => ∀ r ∈ s, isValidPublic r env.pub = false) :
    ∃ e, encode env k v = .error e := by
  have hgate : roleGate Gen.V2.encodeArms (expectedPrefixes k) env.pub = false := by
    cases hg : roleGate Gen.V2.encodeArms (expectedPrefixes k) env.pub with
    | false => rfl
    | true =>
      have := roleGate_spec _ _ _ hg
      cases hs : allowedSpec k with
      | none => rw [hs] at hrole; exact hrole.elim
      | some s =>
        rw [hs] at hrole this
        obtain ⟨r, hr, hv⟩ := this
        rw [hrole r hr] at hv; cases hv
  have hparts : ∀ v', ∃ e, encodeParts env k v' = .error e := by
    intro v'
    unfold encodeParts
    split
    · exact ⟨_, rfl⟩
    · cases hh : liftRes (Codec.encodeText codecEnv Gen.V2.Header encodeHeader) with
      | error e => exact ⟨e, by simp [bind, Except.bind]⟩
      | ok hText => exact ⟨.err, by simp [bind, Except.bind, hgate]⟩
  unfold encode
  cases hp : preEncode env k v with
  | error e => exact ⟨e, by simp [bind, Except.bind]⟩
  | ok v' =>
    obtain ⟨e, he⟩ := hparts v'
    exact ⟨e, by simp [bind, Except.bind, doEncode, he]⟩

/-- the role a subject must have for each kind: operator, account and user subjects are keys of that role;
an activation's subject is an account -/
def subjectRole : Kind → Option Role
  | .operator => some .operator
  | .account => some .account
  | .user => some .user
  | .activation => some .account
  | _ => none

/-- **Encode refuses a subject whose role does not fit the kind.** -/
theorem encode_refuses_subject (env : EncEnv) (k : Kind) (v : Val) (r : Role)
    (hk : subjectRole k = some r) (hs : isValidPublic r (v.field "sub").asStr = false) :
    encode env k v = .error .err := by
  cases k <;> simp [subjectRole] at hk <;> subst hk <;> simp [encode, preEncode, hs, bind, Except.bind]

/-! ### Non-vacuity -/
set_option maxRecDepth 20000 in
example : isValidPublic .account "AABQUEIYD4TC2NB3IJEVAV26MVWHG6UBRCHZNHNEVOZLTQGHZ3K5Y2TU".toList = true := by decide
set_option maxRecDepth 20000 in
example : isValidPublic .operator "AABQUEIYD4TC2NB3IJEVAV26MVWHG6UBRCHZNHNEVOZLTQGHZ3K5Y2TU".toList = false := by decide

end Jwt.C02
