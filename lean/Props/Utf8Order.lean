import JwtModel.Utf8
/-!
# Byte order = code-point order

Go compares strings byte-wise; a model string is a list of code points compared lexicographically. The two orders
agree because UTF-8 preserves the order of code points and is prefix-free: `a < b ↔ Utf8.encode a < Utf8.encode b`.
This is what lets the translator turn `s < t` on Go strings into `<` on `Str`.
-/
namespace Jwt.Utf8Order
open Jwt Jwt.Utf8

/-- `x` and `y` differ at a definite position, where `x` has the smaller byte -/
def Diff (x y : List Nat) : Prop := ∃ p u v s t, x = p ++ u :: s ∧ y = p ++ v :: t ∧ u < v

theorem Diff.lt {x y : List Nat} (h : Diff x y) : x < y := by
  obtain ⟨p, u, v, s, t, rfl, rfl, huv⟩ := h
  apply List.append_left_lt
  exact List.cons_lt_cons_iff.mpr (Or.inl huv)

theorem Diff.append {x y : List Nat} (h : Diff x y) (s' t' : List Nat) : Diff (x ++ s') (y ++ t') := by
  obtain ⟨p, u, v, s, t, rfl, rfl, huv⟩ := h
  exact ⟨p, u, v, s ++ s', t ++ t', by simp, by simp, huv⟩

theorem encodeChar_ne_nil (c : Char) : encodeChar c ≠ [] := by
  unfold encodeChar; simp only; split <;> (try split) <;> (try split) <;> simp

/-- the encoder preserves the order of code points, at a definite byte -/
theorem encodeChar_diff (c d : Char) (h : c.toNat < d.toNat) : Diff (encodeChar c) (encodeChar d) := by
  unfold encodeChar
  simp only
  generalize c.toNat = m at h
  generalize d.toNat = n at h
  by_cases m1 : m < 0x80 <;> by_cases m2 : m < 0x800 <;> by_cases m3 : m < 0x10000 <;>
    by_cases n1 : n < 0x80 <;> by_cases n2 : n < 0x800 <;> by_cases n3 : n < 0x10000 <;>
    simp only [m1, m2, m3, n1, n2, n3, if_true, if_false] <;> (try omega)
  -- 1 byte vs 1..4 bytes
  · exact ⟨[], _, _, [], [], rfl, rfl, h⟩
  · exact ⟨[], _, _, [], _, rfl, rfl, by omega⟩
  · exact ⟨[], _, _, [], _, rfl, rfl, by omega⟩
  · exact ⟨[], _, _, [], _, rfl, rfl, by omega⟩
  -- 2 bytes vs 2..4 bytes
  · by_cases e : m / 64 = n / 64
    · exact ⟨[0xC0 + m / 64], _, _, [], [], rfl, by rw [e]; rfl, by omega⟩
    · exact ⟨[], _, _, _, _, rfl, rfl, by omega⟩
  · exact ⟨[], _, _, _, _, rfl, rfl, by omega⟩
  · exact ⟨[], _, _, _, _, rfl, rfl, by omega⟩
  -- 3 bytes vs 3..4 bytes
  · by_cases e : m / 4096 = n / 4096
    · by_cases e2 : m / 64 % 64 = n / 64 % 64
      · exact ⟨[0xE0 + m / 4096, 0x80 + m / 64 % 64], _, _, [], [], rfl, by rw [e, e2]; rfl, by omega⟩
      · exact ⟨[0xE0 + m / 4096], _, _, _, _, rfl, by rw [e]; rfl, by omega⟩
    · exact ⟨[], _, _, _, _, rfl, rfl, by omega⟩
  · exact ⟨[], _, _, _, _, rfl, rfl, by omega⟩
  -- 4 bytes vs 4 bytes
  · by_cases e : m / 262144 = n / 262144
    · by_cases e2 : m / 4096 % 64 = n / 4096 % 64
      · by_cases e3 : m / 64 % 64 = n / 64 % 64
        · exact ⟨[0xF0 + m / 262144, 0x80 + m / 4096 % 64, 0x80 + m / 64 % 64], _, _, [], [], rfl,
            by rw [e, e2, e3]; rfl, by omega⟩
        · exact ⟨[0xF0 + m / 262144, 0x80 + m / 4096 % 64], _, _, _, _, rfl, by rw [e, e2]; rfl, by omega⟩
      · exact ⟨[0xF0 + m / 262144], _, _, _, _, rfl, by rw [e]; rfl, by omega⟩
    · exact ⟨[], _, _, _, _, rfl, rfl, by omega⟩

theorem char_lt_toNat {c d : Char} : c < d ↔ c.toNat < d.toNat := by
  rw [Char.lt_def]; exact UInt32.lt_iff_toNat_lt

/-- one direction, by induction; the other follows from trichotomy -/
theorem encode_lt_of_lt : ∀ (a b : Str), a < b → encode a < encode b
  | [], [], h => absurd h (List.lt_irrefl _)
  | [], d :: bs, _ => by
    unfold encode
    cases he : encodeChar d with
    | nil => exact absurd he (encodeChar_ne_nil d)
    | cons x xs => simp [List.flatMap_cons, he]
  | _ :: _, [], h => absurd h (List.not_lt_nil _)
  | c :: as, d :: bs, h => by
    rcases List.cons_lt_cons_iff.mp h with hcd | ⟨rfl, hab⟩
    · have := (encodeChar_diff c d (char_lt_toNat.mp hcd)).append (encode as) (encode bs)
      simpa [encode, List.flatMap_cons] using this.lt
    · have ih := encode_lt_of_lt as bs hab
      simpa [encode, List.flatMap_cons] using List.append_left_lt (l₁ := encodeChar c) ih

/-- **byte-wise order of the UTF-8 encodings = lexicographic order of the code points** -/
theorem encode_lt_iff (a b : Str) : a < b ↔ encode a < encode b := by
  refine ⟨encode_lt_of_lt a b, fun h => ?_⟩
  by_cases hlt : a < b
  · exact hlt
  by_cases hgt : b < a
  · exact absurd (encode_lt_of_lt b a hgt) (List.lt_asymm h)
  · have heq : a = b := Std.Trichotomous.trichotomous (r := (· < · : Str → Str → Prop)) a b hlt hgt
    subst heq; exact absurd h (List.lt_irrefl _)

example : ("a.b".toList : Str) < "a.c".toList ∧ ("é".toList : Str) < "日".toList := by decide

end Jwt.Utf8Order
