import JwtModel.Encode
import JwtProofs.Base64
import JwtProofs.Decode
import Props.C12
import Props.CodecRoundTrip
import Props.CodecText
import Props.LoadClaims
/-!
# C03 — Encode then Decode is lossless for every claim kind

Model: `encode` / `decode` over the schema-generic codec (`JwtModel/Codec.lean`) instantiated on the struct
schemas *generated from /repo on every run* (`JwtModel/Gen/Schemas.lean`). Tied to the code by the codec
correspondence stream (every exported struct type of both packages: decoded value and re-marshalled bytes
byte-identical with `encoding/json`) and by the end-to-end round-trip stream with its reflective oracle.

This file holds the obligations that are re-decided against today's schemas, and the leaf round trips.
The generic tree-level round-trip theorem (`unmarshal (marshal v) = overlay v`, for every schema and value, and
`VEq (overlay v) v`: nothing is lost but nil-versus-empty and map order) is proved in `JwtProofs/CodecRT.lean` /
`JwtProofs/CodecEq.lean` and instantiated on today's schemas in `Props/CodecRoundTrip.lean`
(`v2_payload_lossless`, `v2_account_payload_lossless`). What stays with correspondence + oracle: the text layer
(`Json.parse (Json.render j) = j`, UTF-8), the kind dispatch of `loadClaims` on the encoded payload, and the
account loader's tier normalisation (known finding K1).
-/
namespace Jwt.C03
open Jwt Jwt.Codec

/-- no two fields of a struct may be confusable for the decoder (it matches keys case-insensitively),
at any depth -/
def keysDistinct : Nat → Ty → Bool
  | 0, _ => false
  | f+1, .struct fs =>
    let ks := fs.map fun x => foldKey x.1
    ks.eraseDups.length == ks.length && fs.all fun x => keysDistinct f x.2.2
  | f+1, .ptr t => keysDistinct f t
  | f+1, .slice t => keysDistinct f t
  | f+1, .map t => keysDistinct f t
  | _, _ => true

/-- a pointer-receiver or by-value custom codec, `omitempty` on a struct-typed field (a no-op in Go), `any`:
where each occurs is fixed by the schema; the translator reports what it could not express -/
theorem gen_schema_complete : Gen.schemaProblems = [] := by decide

/-- **Generated obligation.** In every claims schema of today's source, sibling JSON keys stay distinct under
the decoder's case folding (a tag typo that collides with another field, or a duplicated tag, fails here). -/
theorem gen_keys_distinct :
    keysDistinct 20 Gen.V2.OperatorClaims = true ∧ keysDistinct 20 Gen.V2.AccountClaims = true ∧
    keysDistinct 20 Gen.V2.UserClaims = true ∧ keysDistinct 20 Gen.V2.ActivationClaims = true ∧
    keysDistinct 20 Gen.V2.AuthorizationRequestClaims = true ∧ keysDistinct 20 Gen.V2.AuthorizationResponseClaims = true ∧
    keysDistinct 20 Gen.V2.GenericClaims = true ∧ keysDistinct 20 Gen.V2.UserScope = true := by
  refine ⟨?_, ?_, ?_, ?_, ?_, ?_, ?_, ?_⟩ <;> decide

/-- **Leaf: base64url.** Every byte string survives segment encoding. -/
theorem segment_roundtrip (bs : List Nat) (h : ∀ b ∈ bs, b < 256) : B64.decode (B64.encode bs) = some bs :=
  B64.roundtrip bs h

/-- **Kinds are told apart.** The kind strings `Encode` stamps are pairwise different and each is read back as
its own kind by `loadClaims`' dispatch. -/
theorem kind_dispatch : ∀ k : Kind, k ≠ .generic → kindOfType (kindTypeStr k) = some k := by
  intro k hk; cases k <;> first | exact absurd rfl hk | decide

end Jwt.C03
