import JwtProofs.Subject
import Props.FnTie
/-!
# C16 — subject containment and wildcard detection agree with NATS matching semantics

Model: `Jwt.isContainedIn`, `Jwt.hasWildCards` (JwtModel/Subject.lean) — transcriptions of
`Subject.IsContainedIn` / `Subject.HasWildCards` in v2/types.go, tied to the code by the
correspondence stream `C16` (every ordered pair of patterns is evaluated by both).

Specification (this file + `matchesP` in JwtProofs/Subject.lean): a *literal subject* is a non-empty
list of literal tokens (non-empty, no `.`, no space, not `*`, not `>`); `matchesP p s` is NATS
matching (`*` exactly one token, a trailing `>` one or more tokens). Token alphabet is unbounded.
-/
namespace Jwt.C16
open Jwt

/-- a literal token of a concrete subject -/
def LitTok (t : Str) : Prop := t ≠ [] ∧ '.' ∉ t ∧ ' ' ∉ t ∧ t ≠ tokStar ∧ t ≠ tokGt
/-- a concrete (publishable) subject, as its token list -/
def LitSubj (s : List Str) : Prop := s ≠ [] ∧ ∀ t ∈ s, LitTok t
/-- a valid subject pattern (what `Subject.Validate` accepts, plus `>` only in last position) -/
def ValidSubj (p : Str) : Prop :=
  (∀ t ∈ splitOn '.' p, t ≠ [] ∧ ' ' ∉ t) ∧ Valid tokGt (splitOn '.' p)

/-- NATS matching of pattern string `p` against a concrete subject -/
def Matches (p : Str) (s : List Str) : Prop := matchesP tokStar tokGt (splitOn '.' p) s = true

theorem star_ne_gt : tokStar ≠ tokGt := by decide

/-- a token longer than every token of `q`: fresh for `q` -/
def fresh (q : List Str) : Str := List.replicate ((q.map List.length).sum + 2) 'x'

theorem length_le_sum : ∀ (q : List Str) (t : Str), t ∈ q → t.length ≤ (q.map List.length).sum := by
  intro q
  induction q with
  | nil => intro t h; simp at h
  | cons a q ih =>
    intro t h
    simp only [List.mem_cons] at h
    simp only [List.map_cons, List.sum_cons]
    rcases h with rfl | h
    · omega
    · have := ih t h; omega

theorem fresh_not_mem (q : List Str) : fresh q ∉ q := by
  intro h
  have := length_le_sum q _ h
  simp only [fresh, List.length_replicate] at this
  omega

theorem fresh_litTok (q : List Str) : LitTok (fresh q) := by
  refine ⟨?_, ?_, ?_, ?_, ?_⟩
  · simp [fresh, List.replicate_succ]
  · intro h; have := List.eq_of_mem_replicate h; cases this
  · intro h; have := List.eq_of_mem_replicate h; cases this
  · intro h; have := congrArg List.length h; simp [fresh, tokStar] at this
  · intro h; have := congrArg List.length h; simp [fresh, tokGt] at this

theorem inst_mem {star gt f : Str} (n : Nat) : ∀ (p : List Str), Valid gt p → ∀ t ∈ inst star gt f n p,
    t = f ∨ (t ∈ p ∧ t ≠ star ∧ t ≠ gt) := by
  intro p
  induction p with
  | nil => intro _ t ht; simp [inst] at ht
  | cons a p ih =>
    intro hv t ht
    by_cases h : p = [] ∧ a = gt
    · simp only [inst, h, and_self, if_true] at ht
      exact Or.inl (List.eq_of_mem_replicate ht)
    · simp only [inst, h, if_false, List.mem_cons] at ht
      rcases ht with ht | ht
      · by_cases ha : a = star
        · simp only [ha, if_true] at ht; exact Or.inl ht
        · simp only [ha, if_false] at ht; subst ht
          refine Or.inr ⟨by simp, ha, ?_⟩
          cases p with
          | nil => intro hg; exact h ⟨rfl, hg⟩
          | cons b r => exact hv.1
      · rcases ih (valid_tail hv) t ht with h1 | ⟨h1, h2, h3⟩
        · exact Or.inl h1
        · exact Or.inr ⟨by simp [h1], h2, h3⟩

theorem inst_ne_nil {star gt f : Str} (n : Nat) : ∀ (p : List Str), p ≠ [] → inst star gt f n p ≠ [] := by
  intro p hp
  cases p with
  | nil => exact absurd rfl hp
  | cons a p =>
    by_cases h : p = [] ∧ a = gt
    · simp [inst, h, List.replicate_succ]
    · simp [inst, h]

theorem inst_litSubj (p : Str) (hp : ValidSubj p) (f : Str) (hf : LitTok f) (n : Nat) :
    LitSubj (inst tokStar tokGt f n (splitOn '.' p)) := by
  refine ⟨inst_ne_nil n _ (splitOn_ne_nil '.' p), ?_⟩
  intro t ht
  rcases inst_mem n _ hp.2 t ht with h | ⟨h1, h2, h3⟩
  · subst h; exact hf
  · exact ⟨(hp.1 t h1).1, splitOn_token_no_sep '.' p t h1, (hp.1 t h1).2, h2, h3⟩

theorem litSubj_lit {s : List Str} (h : LitSubj s) : Lit tokStar tokGt s :=
  fun t ht => ⟨(h.2 t ht).2.2.2.1, (h.2 t ht).2.2.2.2⟩

/-- **C16, containment half.** For valid subjects `p`, `q`:
`p.IsContainedIn(q)` is true exactly when every concrete subject matched by `p` is matched by `q`. -/
theorem contained_iff (p q : Str) (hp : ValidSubj p) (hq : ValidSubj q) :
    isContainedIn p q = true ↔ ∀ s, LitSubj s → Matches p s → Matches q s := by
  unfold isContainedIn Matches
  rw [isContainedInGo_eq_cont]
  constructor
  · intro hc s hs hm
    exact cont_sound tokStar tokGt star_ne_gt _ _ hp.2 hc s (litSubj_lit hs) hm
  · intro h
    cases hc : cont tokStar tokGt (splitOn '.' p) (splitOn '.' q) with
    | true => rfl
    | false =>
      have hf := fresh_litTok (splitOn '.' q)
      obtain ⟨n, hn⟩ := cont_complete tokStar tokGt (fresh (splitOn '.' q)) ⟨hf.2.2.2.1, hf.2.2.2.2⟩
        _ _ hp.2 hq.2 (fresh_not_mem _) hc
      have := h _ (inst_litSubj p hp _ hf n) (inst_matches tokStar tokGt _ n _)
      rw [hn] at this; cases this

/-- a pattern without wildcard tokens matches only itself -/
theorem matches_literal : ∀ (p s : List Str), Valid tokGt p → p.any (· = tokStar) = false →
    p.getLast? ≠ some tokGt → matchesP tokStar tokGt p s = true → s = p := by
  intro p
  induction p with
  | nil => intro s _ _ _ hm; cases s <;> simp_all [matchesP]
  | cons a p ih =>
    intro s hv hs hl hm
    cases s with
    | nil => simp [matchesP] at hm
    | cons x s =>
      simp only [matchesP] at hm
      have ha : a ≠ tokStar := by
        intro e; simp [e] at hs
      have hps : p.any (· = tokStar) = false := by
        simp only [List.any_cons, Bool.or_eq_false_iff] at hs; exact hs.2
      by_cases h : p = [] ∧ a = tokGt
      · exfalso; apply hl; simp [h.1, h.2]
      · simp only [h, if_false, Bool.and_eq_true, decide_eq_true_eq] at hm
        have hl' : p.getLast? ≠ some tokGt := by
          intro e; apply hl
          cases p with
          | nil => simp at e
          | cons c r => simpa [List.getLast?_cons_cons] using e
        have := ih s (valid_tail hv) hps hl' hm.2
        rcases hm.1 with e | e
        · exact absurd e ha
        · rw [this, e]

theorem inst_inj_of_wild {f g : Str} (hfg : f ≠ g) : ∀ (p : List Str),
    hwToks p = true → inst tokStar tokGt f 0 p ≠ inst tokStar tokGt g 0 p := by
  intro p
  induction p with
  | nil => intro h; simp [hwToks] at h
  | cons a p ih =>
    intro h he
    by_cases h1 : p = [] ∧ a = tokGt
    · simp [inst, h1, List.replicate_succ] at he; exact hfg he
    · simp only [inst, h1, if_false, List.cons.injEq] at he
      by_cases ha : a = tokStar
      · simp [ha] at he; exact hfg he.1
      · have : hwToks p = true := by
          simp only [hwToks, List.any_cons, Bool.or_eq_true, decide_eq_true_eq] at h ⊢
          rcases h with (h | h) | h
          · exact absurd h ha
          · exact Or.inl h
          · right
            cases p with
            | nil => simp at h; exact absurd ⟨rfl, h⟩ h1
            | cons c r => simpa [List.getLast?_cons_cons] using h
        exact ih this he.2

/-- **C16, wildcard half.** For a valid subject, `HasWildCards` is true exactly when the pattern
matches more than one concrete subject. -/
theorem wildcards_iff (p : Str) (hp : ValidSubj p) :
    hasWildCards p = true ↔ ∃ s s', s ≠ s' ∧ LitSubj s ∧ LitSubj s' ∧ Matches p s ∧ Matches p s' := by
  rw [hasWildCards_iff]
  constructor
  · intro h
    have hx : LitTok ['x'] := by refine ⟨?_, ?_, ?_, ?_, ?_⟩ <;> decide
    have hy : LitTok ['y'] := by refine ⟨?_, ?_, ?_, ?_, ?_⟩ <;> decide
    exact ⟨_, _, inst_inj_of_wild (f := ['x']) (g := ['y']) (by decide) _ h,
      inst_litSubj p hp _ hx 0, inst_litSubj p hp _ hy 0,
      inst_matches tokStar tokGt _ 0 _, inst_matches tokStar tokGt _ 0 _⟩
  · rintro ⟨s, s', hne, _, _, hm, hm'⟩
    cases h : hwToks (splitOn '.' p) with
    | true => rfl
    | false =>
      exfalso
      simp only [hwToks, Bool.or_eq_false_iff, decide_eq_false_iff_not] at h
      have e1 := matches_literal _ s hp.2 h.1 h.2 hm
      have e2 := matches_literal _ s' hp.2 h.1 h.2 hm'
      exact hne (e1.trans e2.symm)

/-! ### Non-vacuity and the repaired defect -/

example : ValidSubj "a.*.>".toList := by
  refine ⟨by decide, ?_⟩
  show Valid tokGt [['a'], ['*'], ['>']]
  simp only [Valid, and_true]
  decide
example : isContainedIn "a.b.c".toList "a.*.>".toList = true := by decide
example : isContainedIn "a.>".toList "a.*".toList = false := by decide   -- D2: was `true` before the repair
example : isContainedIn ">".toList "*".toList = false := by decide
example : hasWildCards "a.*.b".toList = true ∧ hasWildCards "a.*b".toList = false := by decide

end Jwt.C16
