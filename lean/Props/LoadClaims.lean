import JwtProofs.CodecSub
import Props.CodecRoundTrip
/-!
# `loadClaims` on the payload `Encode` writes: kind and version are read back, the typed loader is chosen

`identOf` decodes the payload a *second* time through the small `identifier` struct (`type`, `nats.type`,
`nats.version`, `nats.tags`); every other member of the payload matches none of its fields and is skipped
(`unmarshalFields_skip`). For each of the six typed kinds the schema facts this needs are re-decided on today's
schemas (`gen_identReady`).
-/
namespace Jwt.LoadClaims
open Jwt Jwt.Codec Jwt.CodecRoundTrip List

def gfs : List (Str × Bool × Ty) :=
  [("tags".toList, true, .slice .str), ("type".toList, true, .str), ("version".toList, true, .int true 64)]
def identFs : List (Str × Bool × Ty) := [("type".toList, true, .str), ("nats".toList, true, .struct gfs)]

/-- **Generated obligation**: the struct `loadClaims` peeks through is what this file reasons about. -/
theorem gen_identifier_shape : Gen.V2.identifier = .struct identFs := rfl

/-- what a claims schema must look like for the peek to be predictable -/
structure IdentReady (cfs nfs : List (Str × Bool × Ty)) : Prop where
  cnd : (cfs.map (·.1)).Nodup
  nnd : (nfs.map (·.1)).Nodup
  nats : ∃ om, fieldType cfs "nats".toList = some (om, .struct nfs)
  noTop : "type".toList ∉ cfs.map (·.1)
  skipTop : ∀ key ∈ cfs.map (·.1), key ≠ "nats".toList → findField identFs key = none
  ty : fieldType nfs "type".toList = some (true, .str)
  ver : fieldType nfs "version".toList = some (true, .int true 64)
  tags : fieldType nfs "tags".toList = some (true, .slice .str)
  skipN : ∀ key ∈ nfs.map (·.1), key ≠ "tags".toList → key ≠ "type".toList → key ≠ "version".toList →
    findField gfs key = none
  fuelOk : fuel + cfs.length + nfs.length + 8 ≤ decFuel

def zg : List (Str × Val) := [("tags".toList, .nil), ("type".toList, .str []), ("version".toList, .int 0)]
theorem zeroFields_gfs : zeroFields gfs = zg := rfl
theorem zg_keys : ∀ c ∈ zg, c.1 ∈ gfs.map (·.1) := by
  intro c hc
  simp only [zg, mem_cons, not_mem_nil, or_false] at hc
  rcases hc with rfl | rfl | rfl <;> decide
theorem fuel_pos : 1 ≤ fuel := by decide

/-- what each matched member of the nats section decodes to -/
def resN (ks : Str) (nvals : List (Str × Val)) (key : Str) : Val :=
  if key = "type".toList then .str ks
  else if key = "version".toList then .int 2
  else match getField nvals "tags".toList with
    | some tv => overlay codecEnv (.slice .str) (zero (.slice .str)) tv
    | none => .nil
theorem resN_type (ks nvals) : resN ks nvals "type".toList = .str ks := by simp [resN]
theorem resN_version (ks nvals) : resN ks nvals "version".toList = .int 2 := by
  have : ¬ ("version".toList = "type".toList) := by decide
  simp [resN, this]
theorem resN_tags (ks nvals tv) (h : getField nvals "tags".toList = some tv) :
    resN ks nvals "tags".toList = overlay codecEnv (.slice .str) (zero (.slice .str)) tv := by
  have h1 : ¬ ("tags".toList = "type".toList) := by decide
  have h2 : ¬ ("tags".toList = "version".toList) := by decide
  unfold resN
  rw [if_neg h1, if_neg h2, h]

theorem getField_map_upd (l : List (Str × Val)) (K : List Str) (r : Str → Val) (k : Str) :
    getField (l.map fun c => if c.1 ∈ K then (c.1, r c.1) else c) k =
      (getField l k).map fun b => if k ∈ K then r k else b := by
  induction l with
  | nil => simp [getField]
  | cons c l ih =>
    obtain ⟨ck, cv⟩ := c
    by_cases hk : ck = k
    · subst hk
      by_cases hin : ck ∈ K <;> simp [map_cons, getField_cons, hin]
    · by_cases hin : ck ∈ K
      · simp only [map_cons, hin, if_true, getField_cons, hk, if_false]; exact ih
      · simp only [map_cons, hin, if_false, getField_cons, hk]; exact ih

theorem wtList_str (env : CodecEnv) : ∀ vs : List Val, WTList env .str vs
  | [] => by simp [WTList]
  | v :: vs => by
    simp only [WTList]
    exact ⟨by cases v <;> simp [WT], wtList_str env vs⟩

theorem wt_sliceStr (env : CodecEnv) (v : Val) : WT env (.slice .str) v := by
  cases v <;> simp [WT]
  exact wtList_str env _

theorem fieldType_inj {fs : List (Str × Bool × Ty)} (hnd : (fs.map (·.1)).Nodup) {k : Str} {om om' : Bool} {t t' : Ty}
    (h1 : (k, om, t) ∈ fs) (h2 : fieldType fs k = some (om', t')) : om = om' ∧ t = t' := by
  have := fieldType_of_mem fs hnd k om t h1
  rw [h2] at this
  injection this with this
  injection this with e1 e2
  exact ⟨e1.symm, e2.symm⟩

/-- what the peek leaves in the `nats` field of the identifier -/
def peekR (m : List (Str × Json)) (ks : Str) (nvals : List (Str × Val)) : List (Str × Val) :=
  zg.map (fun c => if c.1 ∈ m.map (·.1) then (c.1, resN ks nvals c.1) else c)

/-- the nats section of the payload, read through `GenericFields` -/
theorem nats_peek (nfs : List (Str × Bool × Ty)) (hr_nnd : (nfs.map (·.1)).Nodup)
    (hty : fieldType nfs "type".toList = some (true, .str))
    (hver : fieldType nfs "version".toList = some (true, .int true 64))
    (htags : fieldType nfs "tags".toList = some (true, .slice .str))
    (hskip : ∀ key ∈ nfs.map (·.1), key ≠ "tags".toList → key ≠ "type".toList → key ≠ "version".toList →
      findField gfs key = none)
    (f : Nat) (hf : f ≤ fuel) (nvals : List (Str × Val)) (m : List (Str × Json)) (ks : Str) (hks : ks ≠ [])
    (hmf : marshalFields codecEnv f nfs nvals = .ok m)
    (htv : getField nvals "type".toList = some (.str ks)) (hvv : getField nvals "version".toList = some (.int 2))
    (F : Nat) (hF : fuel + nfs.length + 2 ≤ F) :
    unmarshal codecEnv F (.struct gfs) (.obj m) (.struct zg) = .ok (.struct (peekR m ks nvals)) ∧
      getField (peekR m ks nvals) "type".toList = some (.str ks) ∧
      getField (peekR m ks nvals) "version".toList = some (.int 2) := by
  obtain ⟨hm1, hm2, hm3, hm4⟩ := marshalFields_spec codecEnv nfs f nvals m hmf
  have hmnd : (m.map (·.1)).Nodup := hm2.nodup hr_nnd
  obtain ⟨F', rfl⟩ : ∃ F', F = F' + 1 := ⟨F - 1, by omega⟩
  have hgnd : (gfs.map (·.1)).Nodup := by decide
  have hfp := fuel_pos
  have hspec := unmarshalFields_skip codecEnv gfs hgnd (resN ks nvals) fuel m zg F' hmnd zg_keys
    (by
      intro e he
      obtain ⟨om, t, v, f', hf', hmem, hgv, hno, hmar⟩ := hm3 e he
      have hkey : e.1 ∈ nfs.map (·.1) := mem_map.mpr ⟨_, hmem, rfl⟩
      by_cases h1 : e.1 = "type".toList
      · right
        rw [h1] at hmem hgv
        obtain ⟨_, rfl⟩ := fieldType_inj hr_nnd hmem hty
        rw [htv] at hgv; injection hgv with hgv; subst hgv
        refine ⟨true, .str, .str [], by rw [h1]; exact .tail _ (.head _), by rw [h1]; rfl, ?_⟩
        intro F'' hF''
        obtain ⟨g, rfl⟩ : ∃ g, F'' = g + 1 := ⟨F'' - 1, by omega⟩
        cases f' with
        | zero => simp [marshal] at hmar
        | succ f' =>
          simp only [marshal] at hmar
          injection hmar with hmar
          rw [← hmar, h1, resN_type]
          simp only [unmarshal]
      · by_cases h2 : e.1 = "version".toList
        · right
          rw [h2] at hmem hgv
          obtain ⟨_, rfl⟩ := fieldType_inj hr_nnd hmem hver
          rw [hvv] at hgv; injection hgv with hgv; subst hgv
          refine ⟨true, .int true 64, .int 0, by rw [h2]; exact .tail _ (.tail _ (.head _)), by rw [h2]; rfl, ?_⟩
          intro F'' hF''
          obtain ⟨g, rfl⟩ : ∃ g, F'' = g + 1 := ⟨F'' - 1, by omega⟩
          cases f' with
          | zero => simp [marshal] at hmar
          | succ f' =>
            simp only [marshal] at hmar
            injection hmar with hmar
            rw [← hmar]
            have := litToInt_intToLit true 64 2 (by rw [intMax64, intMin64]; omega)
            rw [h2, resN_version]
            simp only [unmarshal, this]
        · by_cases h3 : e.1 = "tags".toList
          · right
            rw [h3] at hmem hgv
            obtain ⟨_, rfl⟩ := fieldType_inj hr_nnd hmem htags
            refine ⟨true, .slice .str, .nil, by rw [h3]; exact .head _, by rw [h3]; rfl, ?_⟩
            intro F'' hF''
            have := unmarshal_marshal codecEnv scopeSlack gen_envOk scopeSlack_ok f' F'' (.slice .str) v e.2 .nil hmar
              (by decide) (wt_sliceStr codecEnv v) (by simp [BaseOk, isLoadedContainer]) (by simp [slack]; omega)
            rw [this, h3, resN_tags ks nvals v hgv]
            rfl
          · left
            exact hskip e.1 hkey h3 h1 h2)
    (by omega)
  have hinT : "type".toList ∈ m.map (·.1) :=
    hm4 _ true .str (.str ks) (mem_of_fieldType nfs _ _ _ hty) htv (by simp [isEmptyValue, hks])
  have hinV : "version".toList ∈ m.map (·.1) :=
    hm4 _ true (.int true 64) (.int 2) (mem_of_fieldType nfs _ _ _ hver) hvv (by simp [isEmptyValue])
  refine ⟨by simp only [unmarshal, bind, Res.bind, hspec, pure, peekR], ?_, ?_⟩
  · unfold peekR
    rw [getField_map_upd]
    have : getField zg "type".toList = some (.str []) := rfl
    rw [this]
    simp only [Option.map_some, hinT, if_true, resN_type]
  · unfold peekR
    rw [getField_map_upd]
    have : getField zg "version".toList = some (.int 0) := rfl
    rw [this]
    simp only [Option.map_some, hinV, if_true, resN_version]

def zi : List (Str × Val) := [("type".toList, .str []), ("nats".toList, .struct zg)]
theorem zero_identifier : zero Gen.V2.identifier = .struct zi := rfl
theorem zi_keys : ∀ c ∈ zi, c.1 ∈ identFs.map (·.1) := by
  intro c hc
  simp only [zi, mem_cons, not_mem_nil, or_false] at hc
  rcases hc with rfl | rfl <;> decide

/-- **The peek.** On the payload the encoder writes for a typed claims value whose nats section carries kind
`ks` and version 2, `identOf` reports exactly that kind and version 2. -/
theorem identOf_marshal (cfs nfs : List (Str × Bool × Ty)) (hr : IdentReady cfs nfs)
    (vals nvals : List (Str × Val)) (j : Json) (ks : Str) (hks : ks ≠ [])
    (hm : marshal codecEnv fuel (.struct cfs) (.struct vals) = .ok j)
    (hn : getField vals "nats".toList = some (.struct nvals))
    (htv : getField nvals "type".toList = some (.str ks)) (hvv : getField nvals "version".toList = some (.int 2)) :
    ∃ id, identOf j = .ok id ∧ id.kindStr = ks ∧ id.version = 2 := by
  obtain ⟨f, vals', m, hf, hv', hmf, rfl⟩ := marshal_struct_inv codecEnv fuel cfs _ j hm
  injection hv' with hv'; subst hv'
  obtain ⟨hm1, hm2, hm3, hm4⟩ := marshalFields_spec codecEnv cfs f vals m hmf
  have hmnd : (m.map (·.1)).Nodup := hm2.nodup hr.cnd
  -- the nats member
  obtain ⟨omn, hnats⟩ := hr.nats
  have hnin : "nats".toList ∈ m.map (·.1) :=
    hm4 _ omn (.struct nfs) (.struct nvals) (mem_of_fieldType cfs _ _ _ hnats) hn (by simp [isEmptyValue])
  obtain ⟨e0, he0, hk0⟩ := mem_map.mp hnin
  obtain ⟨om, t, v, f', hf', hmem, hgv, _, hmar⟩ := hm3 e0 he0
  rw [hk0] at hmem hgv
  obtain ⟨_, rfl⟩ := fieldType_inj hr.cnd hmem hnats
  rw [hn] at hgv; injection hgv with hgv; subst hgv
  obtain ⟨f'', nvals', mn, hf'', hv'', hmfn, hj0⟩ := marshal_struct_inv codecEnv f' nfs _ e0.2 hmar
  injection hv'' with hv''; subst hv''
  have hpeek := fun F hF => nats_peek nfs hr.nnd hr.ty hr.ver hr.tags hr.skipN f'' (by omega) nvals mn ks hks hmfn htv hvv F hF
  have hinnd : (identFs.map (·.1)).Nodup := by decide
  have hfo := hr.fuelOk
  obtain ⟨F, hF⟩ : ∃ F, decFuel = F + 1 := ⟨decFuel - 1, by decide⟩
  have hspec := unmarshalFields_skip codecEnv identFs hinnd (fun _ => .struct (peekR mn ks nvals))
    (fuel + nfs.length + 2) m zi F hmnd zi_keys
    (by
      intro e he
      by_cases hk : e.1 = "nats".toList
      · right
        have : e = e0 := C13.entry_unique m hmnd e e0 he he0 (by rw [hk, hk0])
        subst this
        refine ⟨true, .struct gfs, .struct zg, by rw [hk]; exact .tail _ (.head _), by rw [hk]; rfl, ?_⟩
        intro F' hF'
        rw [hj0]
        exact (hpeek F' hF').1
      · left
        exact hr.skipTop e.1 (hm2.subset (mem_map_of_mem he)) hk)
    (by omega)
  have hdec : decodeJson Gen.V2.identifier (zero Gen.V2.identifier) (.obj m) =
      .ok (.struct (zi.map fun c => if c.1 ∈ m.map (·.1) then (c.1, Val.struct (peekR mn ks nvals)) else c)) := by
    rw [gen_identifier_shape]
    show liftRes (unmarshal codecEnv decFuel (.struct identFs) (.obj m) (.struct zi)) = _
    rw [hF]
    simp only [unmarshal, bind, Res.bind, hspec, pure, liftRes]
  have htop : "type".toList ∉ m.map (·.1) := fun h => hr.noTop (hm2.subset h)
  have hpk := hpeek (fuel + nfs.length + 2) (Nat.le_refl _)
  have g1 : getField zi "type".toList = some (.str []) := rfl
  have g2 : getField zi "nats".toList = some (.struct zg) := rfl
  have hA : (Val.struct (zi.map fun c => if c.1 ∈ m.map (·.1) then (c.1, Val.struct (peekR mn ks nvals)) else c)).field "type"
      = .str [] := by
    have h := getField_map_upd zi (m.map (·.1)) (fun _ => Val.struct (peekR mn ks nvals)) "type".toList
    simp only [Val.field]
    rw [h, g1]
    simp only [Option.map_some, htop, if_false, Option.getD_some]
  have hB : (Val.struct (zi.map fun c => if c.1 ∈ m.map (·.1) then (c.1, Val.struct (peekR mn ks nvals)) else c)).field "nats"
      = .struct (peekR mn ks nvals) := by
    have h := getField_map_upd zi (m.map (·.1)) (fun _ => Val.struct (peekR mn ks nvals)) "nats".toList
    simp only [Val.field]
    rw [h, g2]
    simp only [Option.map_some, hnin, if_true, Option.getD_some]
  have hC : (Val.struct (peekR mn ks nvals)).field "type" = .str ks := by
    simp only [Val.field, hpk.2.1, Option.getD_some]
  have hD : (Val.struct (peekR mn ks nvals)).field "version" = .int 2 := by
    simp only [Val.field, hpk.2.2, Option.getD_some]
  refine ⟨⟨ks, 2⟩, ?_, rfl, rfl⟩
  simp only [identOf, hdec, bind, Except.bind, pure, Except.pure, hA, hB, hC, hD, Val.asStr, Val.asInt, ne_eq,
    not_true_eq_false, if_false]

def fieldsOf : Ty → List (Str × Bool × Ty)
  | .struct fs => fs
  | _ => []
def natsOf (cfs : List (Str × Bool × Ty)) : List (Str × Bool × Ty) :=
  match fieldType cfs "nats".toList with
  | some (_, .struct nfs) => nfs
  | _ => []

/-- **Generated obligation.** Each of the six typed claims schemas of today's source is a struct whose `nats`
section embeds the generic fields (`tags`, `type`, `version`), has no top-level `type`, and shares no other key —
exactly or under case folding — with the `identifier` struct. -/
theorem gen_identReady : ∀ k : Kind, k ≠ .generic →
    schemaOf k = .struct (fieldsOf (schemaOf k)) ∧ IdentReady (fieldsOf (schemaOf k)) (natsOf (fieldsOf (schemaOf k))) := by
  intro k hk
  cases k
  case generic => exact absurd rfl hk
  all_goals
    refine ⟨rfl, ?_⟩
    exact {
      cnd := by decide, nnd := by decide, nats := ⟨_, rfl⟩, noTop := by decide, skipTop := by decide,
      ty := rfl, ver := rfl, tags := rfl, skipN := by decide, fuelOk := by decide }

/-- field access by a key given as characters -/
def _root_.Jwt.Val.field' (v : Val) (k : Str) : Val :=
  match v with
  | .struct fs => (getField fs k).getD .nil
  | _ => .nil
theorem field_eq_field' (v : Val) (k : String) : v.field k = v.field' k.toList := by
  cases v <;> rfl

theorem kindOfType_kindTypeStr : ∀ k : Kind, k ≠ .generic → kindOfType (kindTypeStr k) = some k := by
  intro k hk; cases k <;> first | exact absurd rfl hk | decide

theorem kindTypeStr_ne_nil : ∀ k : Kind, kindTypeStr k ≠ [] := by
  intro k; cases k <;> decide

/-- the peek on an encoded typed payload -/
theorem identOf_encoded (k : Kind) (hk : k ≠ .generic) (vals nvals : List (Str × Val)) (j : Json)
    (hm : marshal codecEnv fuel (schemaOf k) (.struct vals) = .ok j)
    (hn : getField vals "nats".toList = some (.struct nvals))
    (htv : getField nvals "type".toList = some (.str (kindTypeStr k)))
    (hvv : getField nvals "version".toList = some (.int 2)) :
    ∃ id, identOf j = .ok id ∧ id.kindStr = kindTypeStr k ∧ id.version = 2 := by
  obtain ⟨hs, hr⟩ := gen_identReady k hk
  rw [hs] at hm
  exact identOf_marshal _ _ hr vals nvals j (kindTypeStr k) (kindTypeStr_ne_nil k) hm hn htv hvv

/-- **C03, payload level, the general decoder's dispatch** (operator, user, activation): on the payload `Encode`
writes, `loadClaims` reads kind `k` and version 2 back, chooses the loader of kind `k`, and that loader returns the
closed form of the codec theorem. -/
theorem loadClaims_encoded (k : Kind) (hk : k = .operator ∨ k = .user ∨ k = .activation)
    (vals nvals : List (Str × Val)) (j : Json)
    (hwt : WT codecEnv (schemaOf k) (.struct vals))
    (hm : marshal codecEnv fuel (schemaOf k) (.struct vals) = .ok j)
    (hn : getField vals "nats".toList = some (.struct nvals))
    (htv : getField nvals "type".toList = some (.str (kindTypeStr k)))
    (hvv : getField nvals "version".toList = some (.int 2)) :
    loadClaims j = .ok (2, ⟨k, overlay codecEnv (schemaOf k) (zero (schemaOf k)) (.struct vals)⟩) := by
  have hkg : k ≠ .generic := by rcases hk with rfl | rfl | rfl <;> decide
  obtain ⟨id, hid, hks, hver⟩ := identOf_encoded k hkg vals nvals j hm hn htv hvv
  have hty := (gen_v2_schemas_ok k).1
  have hrt := codec_roundtrip (schemaOf k) (.struct vals) (zero (schemaOf k)) j hty (gen_v2_schemas_ok k).2 hwt
    (baseOk_zero _ hty) hm
  have hdj : decodeJson (schemaOf k) (zero (schemaOf k)) j =
      .ok (overlay codecEnv (schemaOf k) (zero (schemaOf k)) (.struct vals)) := by
    simp [decodeJson, hrt, liftRes]
  have hlib : ¬ ((2 : Int) > Gen.V2.clibVersion) := by decide
  have hlt : loadTyped k 2 j = .ok (overlay codecEnv (schemaOf k) (zero (schemaOf k)) (.struct vals)) := by
    rcases hk with rfl | rfl | rfl <;> simp [loadTyped] <;> exact hdj
  simp only [loadClaims, hid, bind, Except.bind, hver, hlib, if_false, hks, kindOfType_kindTypeStr k hkg, hlt, pure,
    Except.pure]

/-- a written (non-omitted) field of a decoded struct is the decoded field -/
theorem overlay_struct_getField (fs : List (Str × Bool × Ty)) (cur vals : List (Str × Val))
    (hnd : (vals.map (·.1)).Nodup) (k : Str) (om : Bool) (t : Ty) (b v : Val)
    (hft : fieldType fs k = some (om, t)) (hb : getField cur k = some b) (hv : getField vals k = some v)
    (hno : (om && isEmptyValue v) = false) :
    (overlay codecEnv (.struct fs) (.struct cur) (.struct vals)).field' k = overlay codecEnv t b v := by
  simp only [overlay, Val.field']
  rw [getField_applyFields, hb, lookupV_overlayVals_of codecEnv fs cur vals hnd k om t b v hft hb hv hno]
  rfl

/-- the kind a decoded typed claim declares is the kind that was encoded -/
theorem overlay_declared_type (cfs nfs : List (Str × Bool × Ty)) (hr : IdentReady cfs nfs)
    (vals nvals : List (Str × Val)) (ks : Str) (hks : ks ≠ [])
    (hwt : WT codecEnv (.struct cfs) (.struct vals))
    (hn : getField vals "nats".toList = some (.struct nvals))
    (htv : getField nvals "type".toList = some (.str ks)) :
    (((overlay codecEnv (.struct cfs) (zero (.struct cfs)) (.struct vals)).field "nats").field "type").asStr = ks := by
  obtain ⟨omn, hnats⟩ := hr.nats
  simp only [WT] at hwt
  have hwn : WT codecEnv (.struct nfs) (.struct nvals) :=
    WTVals_mem codecEnv cfs vals _ _ omn _ hwt.2 (mem_of_getField _ _ _ hn) hnats
  simp only [WT] at hwn
  have hb1 := getField_zeroFields cfs hr.cnd _ _ _ (mem_of_fieldType cfs _ _ _ hnats)
  have hb2 := getField_zeroFields nfs hr.nnd _ _ _ (mem_of_fieldType nfs _ _ _ hr.ty)
  have h1 := overlay_struct_getField cfs (zeroFields cfs) vals hwt.1 "nats".toList omn (.struct nfs) _ (.struct nvals)
    hnats hb1 hn (by simp [isEmptyValue])
  have h2 := overlay_struct_getField nfs (zeroFields nfs) nvals hwn.1 "type".toList true .str _ (.str ks)
    hr.ty hb2 htv (by simp [isEmptyValue, hks])
  rw [field_eq_field', field_eq_field']
  simp only [zero] at h1 ⊢
  rw [h1]
  simp only [zero] at h2
  rw [h2]
  simp [overlay, Val.asStr]

/-- the version a decoded typed claim declares is the version that was encoded -/
theorem overlay_declared_version (cfs nfs : List (Str × Bool × Ty)) (hr : IdentReady cfs nfs)
    (vals nvals : List (Str × Val)) (n : Int) (hn0 : n ≠ 0)
    (hwt : WT codecEnv (.struct cfs) (.struct vals))
    (hn : getField vals "nats".toList = some (.struct nvals))
    (htv : getField nvals "version".toList = some (.int n)) :
    (((overlay codecEnv (.struct cfs) (zero (.struct cfs)) (.struct vals)).field "nats").field "version").asInt = n := by
  obtain ⟨omn, hnats⟩ := hr.nats
  simp only [WT] at hwt
  have hwn : WT codecEnv (.struct nfs) (.struct nvals) :=
    WTVals_mem codecEnv cfs vals _ _ omn _ hwt.2 (mem_of_getField _ _ _ hn) hnats
  simp only [WT] at hwn
  have hb1 := getField_zeroFields cfs hr.cnd _ _ _ (mem_of_fieldType cfs _ _ _ hnats)
  have hb2 := getField_zeroFields nfs hr.nnd _ _ _ (mem_of_fieldType nfs _ _ _ hr.ver)
  have h1 := overlay_struct_getField cfs (zeroFields cfs) vals hwt.1 "nats".toList omn (.struct nfs) _ (.struct nvals)
    hnats hb1 hn (by simp [isEmptyValue])
  have h2 := overlay_struct_getField nfs (zeroFields nfs) nvals hwn.1 "version".toList true (.int true 64) _ (.int n)
    hr.ver hb2 htv (by simp [isEmptyValue, hn0])
  rw [field_eq_field', field_eq_field']
  simp only [zero] at h1 ⊢
  rw [h1]
  simp only [zero] at h2
  rw [h2]
  simp [overlay, Val.asInt]

/-- **… and for the two authorization kinds** (whose loader also checks the declared kind: repair D13). -/
theorem loadClaims_encoded_auth (k : Kind) (hk : k = .authRequest ∨ k = .authResponse)
    (vals nvals : List (Str × Val)) (j : Json)
    (hwt : WT codecEnv (schemaOf k) (.struct vals))
    (hm : marshal codecEnv fuel (schemaOf k) (.struct vals) = .ok j)
    (hn : getField vals "nats".toList = some (.struct nvals))
    (htv : getField nvals "type".toList = some (.str (kindTypeStr k)))
    (hvv : getField nvals "version".toList = some (.int 2)) :
    loadClaims j = .ok (2, ⟨k, overlay codecEnv (schemaOf k) (zero (schemaOf k)) (.struct vals)⟩) := by
  have hkg : k ≠ .generic := by rcases hk with rfl | rfl <;> decide
  obtain ⟨id, hid, hks, hver⟩ := identOf_encoded k hkg vals nvals j hm hn htv hvv
  have hty := (gen_v2_schemas_ok k).1
  have hrt := codec_roundtrip (schemaOf k) (.struct vals) (zero (schemaOf k)) j hty (gen_v2_schemas_ok k).2 hwt
    (baseOk_zero _ hty) hm
  have hdj : decodeJson (schemaOf k) (zero (schemaOf k)) j =
      .ok (overlay codecEnv (schemaOf k) (zero (schemaOf k)) (.struct vals)) := by
    simp [decodeJson, hrt, liftRes]
  obtain ⟨hs, hr⟩ := gen_identReady k hkg
  have hdecl : declaredOk (kindTypeStr k) (overlay codecEnv (schemaOf k) (zero (schemaOf k)) (.struct vals)) = true := by
    have := overlay_declared_type _ _ hr vals nvals (kindTypeStr k) (kindTypeStr_ne_nil k) (by rw [← hs]; exact hwt) hn htv
    rw [← hs] at this
    simp [declaredOk, this]
  have hvok : versionOk 2 (overlay codecEnv (schemaOf k) (zero (schemaOf k)) (.struct vals)) = true := by
    have := overlay_declared_version _ _ hr vals nvals 2 (by decide) (by rw [← hs]; exact hwt) hn hvv
    rw [← hs] at this
    simp [versionOk, this]
  have hlib : ¬ ((2 : Int) > Gen.V2.clibVersion) := by decide
  have hlt : loadTyped k 2 j = .ok (overlay codecEnv (schemaOf k) (zero (schemaOf k)) (.struct vals)) := by
    rcases hk with rfl | rfl
    · simp only [loadTyped, schemaOf] at hdj hdecl hvok ⊢
      simp only [hdj, bind, Except.bind, kindTypeStr] at hdecl ⊢
      simp only [hdecl, hvok, Bool.and_self, if_true, pure, Except.pure]
    · simp only [loadTyped, schemaOf] at hdj hdecl hvok ⊢
      simp only [hdj, bind, Except.bind, kindTypeStr] at hdecl ⊢
      simp only [hdecl, hvok, Bool.and_self, if_true, pure, Except.pure]
  simp only [loadClaims, hid, bind, Except.bind, hver, hlib, if_false, hks, kindOfType_kindTypeStr k hkg, hlt, pure,
    Except.pure]

/-- **… and for account claims** (plain and scoped signing keys): the loader starts from `accountBase`; with tiered
JetStream limits present it clears the flat ones (known finding K1), so the closed form is returned when the decoded
account carries no tiers. -/
theorem loadClaims_encoded_account (vals nvals : List (Str × Val)) (j : Json)
    (hwt : WT codecEnv Gen.V2.AccountClaims (.struct vals))
    (hm : marshal codecEnv fuel Gen.V2.AccountClaims (.struct vals) = .ok j)
    (hn : getField vals "nats".toList = some (.struct nvals))
    (htv : getField nvals "type".toList = some (.str (kindTypeStr .account)))
    (hvv : getField nvals "version".toList = some (.int 2))
    (hnt : accountHasTiers (overlay codecEnv Gen.V2.AccountClaims accountBase (.struct vals)) = false) :
    loadClaims j = .ok (2, ⟨.account, overlay codecEnv Gen.V2.AccountClaims accountBase (.struct vals)⟩) := by
  obtain ⟨id, hid, hks, hver⟩ := identOf_encoded .account (by decide) vals nvals j hm hn htv hvv
  have hty := (gen_v2_schemas_ok .account).1
  have hrt := codec_roundtrip Gen.V2.AccountClaims (.struct vals) accountBase j hty (gen_v2_schemas_ok .account).2 hwt
    gen_accountBase_ok hm
  have hdj : decodeJson Gen.V2.AccountClaims accountBase j =
      .ok (overlay codecEnv Gen.V2.AccountClaims accountBase (.struct vals)) := by
    simp [decodeJson, hrt, liftRes]
  have hlib : ¬ ((2 : Int) > Gen.V2.clibVersion) := by decide
  have hlt : loadTyped .account 2 j = .ok (overlay codecEnv Gen.V2.AccountClaims accountBase (.struct vals)) := by
    have hb : setNats (zero Gen.V2.AccountClaims) (fun n => n.set "signing_keys" (.map [])) = accountBase := rfl
    simp only [loadTyped, hb, hdj, bind, Except.bind, hnt]
    rfl
  simp only [loadClaims, hid, bind, Except.bind, hver, hlib, if_false, hks, kindOfType_kindTypeStr .account (by decide),
    hlt, pure, Except.pure]

end Jwt.LoadClaims
