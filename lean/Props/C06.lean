import JwtProofs.Validate
import JwtModel.Gen.Validation
import Props.FnTie
/-!
# C06 — validation flags every catalogued violation as blocking and never flags clean claims

Model: `Jwt.validate` and its parts (JwtModel/Validate.lean) — accumulator-style transcriptions of every Go
`Validate`, tied to the code by the correspondence stream `C06` (claims shipped as canonical dumps).

Specification: the catalogue of DESIGN.md section 5.6, written here *declaratively* — one Boolean row per
rule id, `List.any` for "some element / wherever it sits", integer sums for weights, index pairs for the
overlap rows. The theorems say, for every parser environment `env`, every signature scheme `cr`, every clock
`now` and every claims value: `IsBlocking(false)` of the validation result is true **iff** some catalogue row
is violated (`blocking_iff_*`). Both directions at once: every violation is flagged, clean claims never are.

"Contained" in EL1 / ML1 / M13 is the library's `IsContainedIn`; C16 proves it equal to semantic containment
on valid subjects.
-/
namespace Jwt.C06
open Jwt Jwt.Codec

/-! ## The catalogue -/

/-- S1–S4: empty / contains a space / starts or ends with `.` / contains `..` -/
def badSubject (s : Str) : Bool :=
  decide (s = []) || hasSpace s || (s.head? = some '.' || s.getLast? = some '.') || isInfixB ['.', '.'] s

/-- I1–I3 -/
def badInfo (env : VEnv) (v : Val) : Bool :=
  let desc := (v.field "description").asStr
  let url := (v.field "info_url").asStr
  decide (utf8Len desc > 8192) ||                                            -- I1
  (decide (url ≠ []) && (decide (utf8Len url > 8192) ||                      -- I2
    (match env.urlParse url with                                             -- I3
     | some u => u.hostname = [] || u.scheme = []
     | none => true)))

def svc (e : Val) : Bool := (e.field "type").asInt == 2
def strm (e : Val) : Bool := (e.field "type").asInt == 1

/-- E7 part: latency results subject invalid or has wildcards -/
def badLatency (l : Val) : Bool :=
  let s := (l.field "sampling").asInt
  (s != 0 && (s < 1 || s > 100)) ||                                          -- E6
  badSubject (l.field "results").asStr || hasWildCards (l.field "results").asStr   -- E7

/-- E11–E13 -/
def badTokenPos (subject : Str) (pos : Int) : Bool :=
  decide (pos > 0) &&
    (!hasWildCards subject ||                                                -- E11
     decide (pos > (splitOn '.' subject).length) ||                          -- E12
     ((splitOn '.' subject).getD (pos.toNat - 1) [] != ['*']))               -- E13

/-- E0–E13 + I1–I3 for one export entry (`ev` is the pointer value in the list) -/
def badExport (env : VEnv) (ev : Val) : Bool :=
  match ev.deref with
  | none => true                                                             -- E0
  | some e =>
    let rt := (e.field "response_type").asStr
    let thr := (e.field "response_threshold").asInt
    (!svc e && !strm e) ||                                                   -- E1
    (svc e && !(rt = "Singleton".toList || rt = [] || rt = "Chunked".toList || rt = "Stream".toList)) ||  -- E2
    (strm e && decide (rt ≠ [])) ||                                          -- E3
    (strm e && (e.field "allow_trace").asBool) ||                            -- E4
    (match (e.field "service_latency").deref with
     | some l => !svc e || badLatency l                                      -- E5, E6, E7
     | none => false) ||
    decide (thr < 0) ||                                                      -- E8
    (decide (thr > 0) && !svc e) ||                                          -- E9
    badSubject (e.field "subject").asStr ||                                  -- E10
    badTokenPos (e.field "subject").asStr (e.field "account_token_position").asInt ||   -- E11–E13
    badInfo env e

/-- EL1: two entries at different positions, both services or both non-services, one subject contained in the other -/
def overlappingExports (es : List Val) : Bool :=
  let live := es.filterMap Val.deref
  let idx (l : List Val) := (List.range l.length).zip (l.map fun e => (e.field "subject").asStr)
  let pairs (l : List Val) : Bool := (idx l).any fun (j, s) => (idx l).any fun (i, ns) => i != j && isContainedIn ns s
  pairs (live.filter svc) || pairs (live.filter (fun e => !svc e))

def badExports (env : VEnv) (v : Val) : Bool :=
  v.asList.any (badExport env) || overlappingExports v.asList

/-- A1–A3 -/
def badActivationBody (c : Val) : Bool :=
  let n := c.field "nats"
  (!((n.field "kind").asInt == 2) && !((n.field "kind").asInt == 1)) ||      -- A1
  badSubject (n.field "subject").asStr ||                                    -- A2
  (decide ((n.field "issuer_account").asStr ≠ []) && !validAcct (n.field "issuer_account").asStr)   -- A3

/-- M5a–f -/
def badLocalSubject (loc frm : Str) : Bool :=
  let fromCnt : Int := countTokenWildcards frm
  let (loopIssues, refCnt) := renamingLoop fromCnt (splitOn '.' loc)
  badSubject loc || decide (frm = []) || hasSpace loc || (endsInGt loc != endsInGt frm) ||
  blk loopIssues ||                                                          -- M5e: a `$n` with n > number of `*`
  (refCnt != fromCnt)                                                        -- M5f

/-- M8–M13 -/
def badImportToken (cr : Crypto) (acct : Str) (i : Val) : Bool :=
  let token := (i.field "token").asStr
  decide (token ≠ []) &&
    (match decodeTyped .activation cr token with
     | .error _ => true                                                      -- M8
     | .ok act =>
       let a := act.val
       let n := a.field "nats"
       let to := (i.field "to").asStr
       let subj := if svc i && to ≠ [] then to else (i.field "subject").asStr
       !((a.field "iss").asStr = (i.field "account").asStr || (n.field "issuer_account").asStr = (i.field "account").asStr) ||   -- M9
       decide ((a.field "sub").asStr ≠ acct) ||                              -- M10
       ((n.field "kind").asInt != (i.field "type").asInt) ||                 -- M11
       badActivationBody a ||                                                -- M12
       !isContainedIn subj (n.field "subject").asStr)                        -- M13

/-- M0–M13 for one import entry -/
def badImport (cr : Crypto) (acct : Str) (iv : Val) : Bool :=
  match iv.deref with
  | none => true                                                             -- M0
  | some i =>
    let loc := (i.field "local_subject").asStr
    let to := (i.field "to").asStr
    (!svc i && !strm i) ||                                                   -- M1
    (svc i && (i.field "allow_trace").asBool) ||                             -- M2
    decide ((i.field "account").asStr = []) ||                               -- M3
    badSubject (i.field "subject").asStr ||                                  -- M4
    (decide (loc ≠ []) && (badLocalSubject loc (i.field "subject").asStr ||  -- M5
                           decide (to ≠ []))) ||                             -- M6
    ((i.field "share").asBool && !svc i) ||                                  -- M7
    badImportToken cr acct i                                                 -- M8–M13

def badImports (cr : Crypto) (acct : Str) (v : Val) : Bool :=
  blk (importsOverlap [] v.asList) ||                                        -- ML1 (characterised by `importsOverlap_iff`)
  v.asList.any (badImport cr acct)

/-- L1–L2 -/
def badTiers (lim : Val) : Bool :=
  let tiers := (lim.field "tiered_limits").asMap
  !tiers.isEmpty && (jsFlatNonZero lim || tiers.any (·.1 = []))

/-- L3–L5 -/
def badCounts (n : Val) : Bool :=
  let lim := n.field "limits"
  let nImports : Int := (n.field "imports").asList.length
  let exports := (n.field "exports").asList
  let li := (lim.field "imports").asInt
  let le := (lim.field "exports").asInt
  (decide (li ≠ -1) && decide (nImports > li)) ||                            -- L3
  (decide (le ≠ -1) && (decide ((exports.length : Int) > le) ||              -- L4
    (!(lim.field "wildcards").asBool &&                                      -- L5
      exports.any fun ev => match ev.deref with
        | some e => hasWildCards (e.field "subject").asStr
        | none => false)))

/-- P1–P3 for one allow/deny entry -/
def badPermEntry (s : Str) (queueOK : Bool) : Bool :=
  match splitOn ' ' s with
  | [a] => badSubject a
  | [a, b] => badSubject a || badSubject b || !queueOK                       -- P2, P3
  | _ => true                                                                -- P1

def badPermissions (v : Val) : Bool :=
  (((v.field "sub").field "allow").strs ++ ((v.field "sub").field "deny").strs).any (badPermEntry · true) ||
  (((v.field "pub").field "allow").strs ++ ((v.field "pub").field "deny").strs).any (badPermEntry · false)

/-- W1–W3: the sum is over the integers -/
def badMappings (m : Val) : Bool :=
  m.asMap.any fun (frm, wms) =>
    badSubject frm ||                                                        -- W1
    wms.asList.any (fun wm => badSubject (wm.field "subject").asStr) ||      -- W2
    decide ((wms.asList.map effWeight).sum > 100)                            -- W3

/-- X1–X5 -/
def badExtAuth (a : Val) : Bool :=
  let users := (a.field "auth_users").strs
  let allowed := (a.field "allowed_accounts").strs
  let xkey := (a.field "xkey").asStr
  (!allowed.isEmpty && users.isEmpty) ||                                     -- X1
  users.any (fun u => !validUser u) ||                                       -- X2
  allowed.any (fun acc => if acc = "*".toList then decide (allowed.length > 1)   -- X3
                          else !validAcct acc) ||                            -- X4
  (decide (xkey ≠ []) && !validCurve xkey)                                   -- X5

/-- T1–T3 -/
def badTrace (t : Val) : Bool :=
  match t.deref with
  | none => false
  | some tr =>
    badSubject (tr.field "dest").asStr || hasWildCards (tr.field "dest").asStr ||
    decide ((tr.field "sampling").asInt < 0) || decide ((tr.field "sampling").asInt > 100)

/-- K1–K2 -/
def badSigningKeys (sk : Val) : Bool :=
  sk.asMap.any fun (k, v) =>
    match v with
    | .nil => !validAcct k                                                   -- K1
    | .ptr s => !validAcct (s.field "key").asStr                             -- K2
    | s => !validAcct (s.field "key").asStr

def badAccount (env : VEnv) (cr : Crypto) (c : Val) : Bool :=
  let n := c.field "nats"
  badImports cr (c.field "sub").asStr (n.field "imports") || badExports env (n.field "exports") ||
  badTiers (n.field "limits") || badPermissions (n.field "default_permissions") || badMappings (n.field "mappings") ||
  badExtAuth (n.field "authorization") || badTrace (n.field "trace") || badCounts n ||
  badSigningKeys (n.field "signing_keys") || badInfo env n

/-- U1–U4 -/
def badUser (env : VEnv) (c : Val) : Bool :=
  let n := c.field "nats"
  badPermissions n ||
  (n.field "src").strs.any (fun s => !env.cidrOk s) ||                       -- U1
  (n.field "times").asList.any (fun tr =>                                    -- U2
    let s := (tr.field "start").asStr; let e := (tr.field "end").asStr
    decide (s = []) || !env.clockOk s || decide (e = []) || !env.clockOk e) ||
  (decide ((n.field "times_location").asStr ≠ []) && !env.tzOk (n.field "times_location").asStr) ||   -- U3
  (decide ((n.field "issuer_account").asStr ≠ []) && !validAcct (n.field "issuer_account").asStr)     -- U4

/-- O1–O5 -/
def badOperator (env : VEnv) (c : Val) : Bool :=
  let n := c.field "nats"
  let asu := (n.field "account_server_url").asStr
  (decide (asu ≠ []) && (match env.urlParse asu with | some u => u.scheme = [] | none => true)) ||   -- O1
  (n.field "operator_service_urls").strs.any (fun v => decide (v ≠ []) && serviceUrlBad env v) ||    -- O2
  (n.field "signing_keys").strs.any (fun k => !validOp k) ||                 -- O3
  (decide ((n.field "system_account").asStr ≠ []) && !validAcct (n.field "system_account").asStr) || -- O4
  serverVersionBad (n.field "assert_server_version").asStr                   -- O5

/-- Q1–Q2 -/
def badAuthRequest (c : Val) : Bool :=
  let nk := ((c.field "nats").field "user_nkey").asStr
  decide (nk = []) || !validUser nk

/-- R1–R5 -/
def badAuthResponse (c : Val) : Bool :=
  let n := c.field "nats"
  !validUser (c.field "sub").asStr || !validServer (c.field "aud").asStr ||
  (decide ((n.field "error").asStr = []) && decide ((n.field "jwt").asStr = [])) ||
  (decide ((n.field "error").asStr ≠ []) && decide ((n.field "jwt").asStr ≠ [])) ||
  (decide ((n.field "issuer_account").asStr ≠ []) && !validAcct (n.field "issuer_account").asStr)

/-- the whole catalogue, by claim kind; generic claims have no blocking rule -/
def bad (env : VEnv) (cr : Crypto) (c : Claims) : Bool :=
  match c.kind with
  | .operator => badOperator env c.val
  | .account => badAccount env cr c.val
  | .user => badUser env c.val
  | .activation => badActivationBody c.val
  | .authRequest => badAuthRequest c.val
  | .authResponse => badAuthResponse c.val
  | .generic => false

/-! ## Building blocks: fold / accumulator code = declarative row -/

theorem subject_row (s : Str) : blk (validateSubject s) = badSubject s := by
  unfold validateSubject badSubject
  by_cases h : s = []
  · simp [h]
  · simp [h, Bool.or_assoc]

theorem info_row (env : VEnv) (v : Val) : blk (validateInfo env v) = badInfo env v := by
  have hc : Gen.V2.cMaxInfoLength.toNat = 8192 := by decide
  unfold validateInfo badInfo
  simp only [hc]
  by_cases h : (v.field "info_url").asStr = []
  · simp [h]
  · cases hu : env.urlParse (v.field "info_url").asStr <;> simp [h, hu]

theorem latency_row (l : Val) : blk (validateLatency l) = badLatency l := by
  unfold validateLatency badLatency; simp [subject_row, Bool.or_assoc]

theorem tokenPos_row (s : Str) (p : Int) : blk (validateTokenPos s p) = badTokenPos s p := by
  unfold validateTokenPos badTokenPos
  by_cases h1 : p > 0
  · by_cases h2 : hasWildCards s = true
    · by_cases h3 : p > (splitOn '.' s).length <;> simp [h1, h2, h3]
    · simp [h1, h2]
  · simp [h1]

theorem export_row (env : VEnv) (ev : Val) : blk (validateExport env ev) = badExport env ev := by
  have c1 : Gen.V2.cResponseTypeSingleton = "Singleton".toList := by decide
  have c2 : Gen.V2.cResponseTypeStream = "Stream".toList := by decide
  have c3 : Gen.V2.cResponseTypeChunked = "Chunked".toList := by decide
  unfold validateExport badExport
  cases hd : ev.deref with
  | none => rfl
  | some e =>
    simp only [blk_append, blk_errIf, subject_row, tokenPos_row, info_row, c1, c2, c3, svc, strm, isService, isStream]
    unfold validateExportStream validateExportLatency
    cases hl : (e.field "service_latency").deref with
    | none =>
      cases hs : (e.field "type").asInt == 2 <;> cases ht : (e.field "type").asInt == 1 <;>
        simp [hs, ht, Bool.or_assoc, Bool.and_assoc, Bool.and_or_distrib_left]
    | some l =>
      cases hs : (e.field "type").asInt == 2 <;> cases ht : (e.field "type").asInt == 1 <;>
        simp [hs, ht, latency_row, Bool.or_assoc, Bool.and_assoc, Bool.and_or_distrib_left]

theorem containedSomewhere_row (subjects : List Str) :
    blk ((containedSomewhere subjects).flatMap fun _ => errI) =
      ((List.range subjects.length).zip subjects).any fun (j, s) =>
        ((List.range subjects.length).zip subjects).any fun (i, ns) => i != j && isContainedIn ns s := by
  simp only [blk_flatMap, blk_errI, containedSomewhere]
  rw [Bool.eq_iff_iff]
  simp only [List.any_eq_true, List.mem_eraseDups, List.mem_filterMap]
  constructor
  · rintro ⟨s, ⟨⟨j, s'⟩, hm, hf⟩, _⟩
    refine ⟨(j, s'), hm, ?_⟩
    split at hf
    · next h => simpa using h
    · cases hf
  · rintro ⟨⟨j, s⟩, hm, h⟩
    refine ⟨s, ⟨(j, s), hm, ?_⟩, trivial⟩
    have hx : ∃ x, x ∈ (List.range subjects.length).zip subjects ∧ (x.1 != j && isContainedIn x.2 s) = true := h
    rw [if_pos hx]

theorem exports_row (env : VEnv) (v : Val) : blk (validateExports env v) = badExports env v := by
  unfold validateExports badExports overlappingExports
  simp only [blk_append]
  rw [containedSomewhere_row, containedSomewhere_row]
  simp only [blk_flatMap, export_row, List.length_map, Bool.or_assoc]
  rfl

theorem activationBody_row (c : Val) : blk (validateActivationBody c) = badActivationBody c := by
  unfold validateActivationBody badActivationBody
  simp [subject_row, isService, isStream, Bool.or_assoc]

theorem renaming_row (loc frm : Str) : blk (validateRenaming loc frm) = badLocalSubject loc frm := by
  unfold validateRenaming badLocalSubject
  cases h : renamingLoop (↑(countTokenWildcards frm)) (splitOn '.' loc) with
  | mk a b => simp [subject_row, Bool.or_assoc]

theorem importToken_row (cr : Crypto) (acct : Str) (i : Val) :
    blk (validateImportToken cr acct i) = badImportToken cr acct i := by
  unfold validateImportToken badImportToken
  simp only
  by_cases ht : (i.field "token").asStr = []
  · simp [ht]
  · simp only [ht, if_false, ne_eq, not_false_eq_true, decide_true, Bool.true_and]
    cases hd : decodeTyped .activation cr (i.field "token").asStr with
    | error e => rfl
    | ok act => simp [activationBody_row, svc, isService, Bool.or_assoc]

theorem import_row (cr : Crypto) (acct : Str) (iv : Val) : blk (validateImport cr acct iv) = badImport cr acct iv := by
  unfold validateImport badImport
  cases hd : iv.deref with
  | none => rfl
  | some i =>
    simp only [blk_append, blk_errIf, blk_ite, blk_warnI, blk_nil, subject_row, importToken_row, svc, strm, isService, isStream]
    unfold validateImportLocal
    by_cases hl : (i.field "local_subject").asStr = []
    · by_cases hto : (i.field "to").asStr = [] <;> simp [hl, hto, Bool.or_assoc]
    · by_cases hto : (i.field "to").asStr = [] <;> simp [hl, hto, renaming_row, Bool.or_assoc]

theorem imports_row (cr : Crypto) (acct : Str) (v : Val) : blk (validateImports cr acct v) = badImports cr acct v := by
  unfold validateImports badImports
  simp [import_row]

theorem tiers_row (lim : Val) : blk (validateOperatorLimits lim) = badTiers lim := by
  unfold validateOperatorLimits badTiers
  by_cases h : (lim.field "tiered_limits").asMap.isEmpty = true <;> simp [h]

theorem permEntry_row (s : Str) (q : Bool) : blk (checkPermission s q) = badPermEntry s q := by
  unfold checkPermission badPermEntry
  cases hs : splitOn ' ' s with
  | nil => rfl
  | cons a t =>
    cases t with
    | nil => simp [subject_row]
    | cons b t2 =>
      cases t2 with
      | nil => simp [subject_row, Bool.or_assoc]
      | cons c t3 => rfl

theorem permissions_row (v : Val) : blk (validatePermissions v) = badPermissions v := by
  unfold validatePermissions validatePermission badPermissions
  simp [permEntry_row, List.any_append, Bool.or_assoc]

theorem mappings_row (m : Val) : blk (validateMappings m) = badMappings m := by
  unfold validateMappings badMappings
  simp only [blk_flatMap, blk_append, blk_errIf, subject_row]

theorem extAuth_row (a : Val) : blk (validateExtAuth a) = badExtAuth a := by
  have hc : Gen.V2.cAnyAccount = "*".toList := by decide
  unfold validateExtAuth badExtAuth
  simp only [blk_append, blk_errIf, blk_flatMap, hc]
  congr 2
  congr 1
  congr 1
  funext acc
  split <;> simp

theorem trace_row (t : Val) : blk (validateTrace t) = badTrace t := by
  unfold validateTrace badTrace
  cases hd : t.deref with
  | none => rfl
  | some tr =>
    simp only [blk_append, blk_errIf]
    have : (!(validateSubject (tr.field "dest").asStr).isEmpty) = badSubject (tr.field "dest").asStr := by
      rw [← subject_row]
      unfold validateSubject
      by_cases h : (tr.field "dest").asStr = []
      · simp [h, errI, blk]
      · simp only [h, if_false]
        cases h1 : hasSpace (tr.field "dest").asStr <;>
        cases h2 : ((tr.field "dest").asStr.head? = some '.' || (tr.field "dest").asStr.getLast? = some '.') <;>
        cases h3 : isInfixB ['.', '.'] (tr.field "dest").asStr <;> simp [errIf, errI, blk, h1, h2, h3]
    simp [this, Bool.or_assoc]

theorem signingKeys_row (sk : Val) : blk (validateSigningKeys sk) = badSigningKeys sk := by
  unfold validateSigningKeys badSigningKeys
  simp only [blk_flatMap]
  congr 1
  funext x
  obtain ⟨k, v⟩ := x
  cases v <;> simp [validateSigningKey]

theorem wildcard_row (l : List Val) :
    blk (wildcardExportIssues l) = l.any fun ev => match ev.deref with
      | some e => hasWildCards (e.field "subject").asStr
      | none => false := by
  simp only [wildcardExportIssues, blk_flatMap]
  congr 1
  funext ev
  cases hd : ev.deref <;> simp

theorem counts_row (n : Val) : blk (validateAccountLimits n) = badCounts n := by
  have hc : Gen.V2.cNoLimit = -1 := by decide
  unfold validateAccountLimits badCounts
  simp only [hc, blk_append, blk_errIf, blk_ite, blk_nil, wildcard_row]
  -- the first test (`!IsEmpty && Imports >= 0 && len > Imports`) is subsumed by the second (L3)
  by_cases h1 : (n.field "limits" |>.field "imports").asInt = -1
  · by_cases h2 : (n.field "limits" |>.field "exports").asInt = -1 <;> simp [h1, h2]
  · by_cases h3 : ((n.field "imports").asList.length : Int) > (n.field "limits" |>.field "imports").asInt
    · by_cases h2 : (n.field "limits" |>.field "exports").asInt = -1 <;> simp [h1, h2, h3]
    · have h3' : ¬ ((n.field "limits" |>.field "imports").asInt < ((n.field "imports").asList.length : Int)) := h3
      by_cases h2 : (n.field "limits" |>.field "exports").asInt = -1 <;> simp [h1, h2, h3']

/-! ## The theorems, one per claim kind -/

theorem blocking_iff_account (env : VEnv) (cr : Crypto) (now : Int) (c : Val) :
    isBlocking (validateAccount env cr now c) false = badAccount env cr c := by
  rw [isBlocking_false_eq]
  unfold validateAccount validateAccountBody badAccount
  simp only [blk_append, blk_validateClaimsData, imports_row, exports_row, tiers_row, permissions_row, mappings_row,
    extAuth_row, trace_row, counts_row, signingKeys_row, info_row, blk_ite, blk_warnI, blk_nil, Bool.false_or]
  simp [Bool.or_assoc]

theorem blocking_iff_user (env : VEnv) (now : Int) (c : Val) :
    isBlocking (validateUser env now c) false = badUser env c := by
  rw [isBlocking_false_eq]
  unfold validateUser validateUserLimits validateTimeRange badUser
  simp [permissions_row, Bool.or_assoc]

theorem blocking_iff_operator (env : VEnv) (now : Int) (c : Val) :
    isBlocking (validateOperator env now c) false = badOperator env c := by
  rw [isBlocking_false_eq]
  unfold validateOperator badOperator
  simp only [blk_append, blk_errIf, blk_flatMap, blk_validateClaimsData, Bool.false_or, Bool.or_assoc]
  cases env.urlParse ((c.field "nats").field "account_server_url").asStr <;> rfl

theorem blocking_iff_activation (now : Int) (c : Val) :
    isBlocking (validateActivation now true c) false = badActivationBody c := by
  rw [isBlocking_false_eq]
  unfold validateActivation
  simp [activationBody_row]

theorem blocking_iff_authRequest (now : Int) (c : Val) :
    isBlocking (validateAuthRequest now c) false = badAuthRequest c := by
  rw [isBlocking_false_eq]
  unfold validateAuthRequest badAuthRequest
  simp

theorem blocking_iff_authResponse (now : Int) (c : Val) :
    isBlocking (validateAuthResponse now c) false = badAuthResponse c := by
  rw [isBlocking_false_eq]
  unfold validateAuthResponse badAuthResponse
  simp [Bool.or_assoc]

/-- **C06.** For every claim kind: `Validate` reports a blocking issue exactly when the claims violate some
catalogue row — whatever else they contain, wherever the construct sits, for every parser environment,
signature scheme and clock. Generic claims are never blocking. -/
theorem blocking_iff (env : VEnv) (cr : Crypto) (now : Int) (c : Claims) :
    isBlocking (validate env cr now c) false = bad env cr c := by
  unfold validate bad
  cases hk : c.kind
  · exact blocking_iff_operator env now c.val
  · exact blocking_iff_account env cr now c.val
  · exact blocking_iff_user env now c.val
  · exact blocking_iff_activation now c.val
  · exact blocking_iff_authRequest now c.val
  · exact blocking_iff_authResponse now c.val
  · rw [isBlocking_false_eq]; simp

/-- the verdict never depends on the clock -/
theorem blocking_time_free (env : VEnv) (cr : Crypto) (now now' : Int) (c : Claims) :
    isBlocking (validate env cr now c) false = isBlocking (validate env cr now' c) false := by
  rw [blocking_iff, blocking_iff]

/-- **Generated obligation.** The issue-raising sites of today's source (`AddError` / `AddWarning` /
`Blocking = true`, per function) are exactly the ones the model was written against. A removed, added or
downgraded check changes this table and the obligation fails at build time (then the search runs). -/
theorem gen_issue_sites : Gen.issueSites = [
  "Account.Validate:AddError",
  "Account.Validate:AddError",
  "Account.Validate:AddError",
  "Account.Validate:AddError",
  "Account.Validate:AddError",
  "Account.Validate:AddError",
  "Account.Validate:AddError",
  "AccountClaims.Validate:AddWarning",
  "Activation.Validate:AddError",
  "ActivationClaims.validateWithTimeChecks:AddError",
  "AuthorizationRequestClaims.Validate:AddError",
  "AuthorizationRequestClaims.Validate:AddError",
  "AuthorizationResponseClaims.Validate:AddError",
  "AuthorizationResponseClaims.Validate:AddError",
  "AuthorizationResponseClaims.Validate:AddError",
  "AuthorizationResponseClaims.Validate:AddError",
  "AuthorizationResponseClaims.Validate:AddError",
  "Export.Validate:AddError",
  "Export.Validate:AddError",
  "Export.Validate:AddError",
  "Export.Validate:AddError",
  "Export.Validate:AddError",
  "Export.Validate:AddError",
  "Export.Validate:AddError",
  "Export.Validate:AddError",
  "Export.Validate:AddError",
  "Export.Validate:AddError",
  "Export.Validate:AddError",
  "Exports.Validate:AddError",
  "ExternalAuthorization.Validate:AddError",
  "ExternalAuthorization.Validate:AddError",
  "ExternalAuthorization.Validate:AddError",
  "ExternalAuthorization.Validate:AddError",
  "ExternalAuthorization.Validate:AddError",
  "Import.Validate:AddError",
  "Import.Validate:AddError",
  "Import.Validate:AddError",
  "Import.Validate:AddError",
  "Import.Validate:AddError",
  "Import.Validate:AddError",
  "Import.Validate:AddError",
  "Import.Validate:AddError",
  "Import.Validate:AddError",
  "Import.Validate:AddError",
  "Import.Validate:AddError",
  "Import.Validate:AddWarning",
  "Imports.Validate:AddError",
  "Imports.Validate:AddError",
  "Imports.Validate:AddError",
  "Info.Validate:AddError",
  "Info.Validate:AddError",
  "Info.Validate:AddError",
  "Limits.Validate:AddError",
  "Limits.Validate:AddError",
  "Mapping.Validate:AddError",
  "Operator.Validate:AddError",
  "Operator.Validate:AddError",
  "Operator.Validate:AddError",
  "Operator.Validate:AddError",
  "Operator.Validate:AddError",
  "OperatorLimits.Validate:AddError",
  "OperatorLimits.Validate:AddError",
  "RenamingSubject.Validate:AddError",
  "RenamingSubject.Validate:AddError",
  "RenamingSubject.Validate:AddError",
  "RenamingSubject.Validate:AddError",
  "RenamingSubject.Validate:AddError",
  "ServiceLatency.Validate:AddError",
  "ServiceLatency.Validate:AddError",
  "SigningKeys.Validate:AddError",
  "Subject.Validate:AddError",
  "Subject.Validate:AddError",
  "Subject.Validate:AddError",
  "Subject.Validate:AddError",
  "TimeRange.Validate:AddError",
  "TimeRange.Validate:AddError",
  "TimeRange.Validate:AddError",
  "TimeRange.Validate:AddError",
  "UserClaims.Validate:AddError",
  "UserScope.Validate:AddError",
  "checkPermission:AddError",
  "checkPermission:AddError",
  "isContainedIn:Blocking="
] := by decide

/-! ## The same statement about the code translated from today's source

`Gen.Fn.V2.XClaims_Validate` are the translator's output for the seven `Validate` methods (regenerated on every run);
`FnTie` proves each equal to the model's validator under `OpqOk` (what stays outside the translation behaves as the
model environment). Chaining the two gives C06 for the translated code itself. -/

open Jwt.FnTie Jwt.Gen.Fn in
/-- `c.Validate(vr)` on a fresh result list, by the dynamic kind of the claims (the dispatch Go's interface performs) -/
def genValidate (opq : V2.Opq) (now : Int) (c : Claims) : Option V2.T_ValidationResults :=
  match c.kind with
  | .operator => V2.OperatorClaims_Validate (V2.T_OperatorClaims.ofVal c.val) vr0 now opq
  | .account => (V2.AccountClaims_Validate (V2.T_AccountClaims.ofVal c.val) vr0 now opq).map (·.2)
  | .user => V2.UserClaims_Validate (V2.T_UserClaims.ofVal c.val) vr0 now opq
  | .activation => V2.ActivationClaims_Validate (V2.T_ActivationClaims.ofVal c.val) vr0 now opq
  | .authRequest => V2.AuthorizationRequestClaims_Validate (V2.T_AuthorizationRequestClaims.ofVal c.val) vr0 now opq
  | .authResponse => V2.AuthorizationResponseClaims_Validate (V2.T_AuthorizationResponseClaims.ofVal c.val) vr0 now opq
  | .generic => V2.GenericClaims_Validate (V2.T_GenericClaims.ofVal c.val) vr0 now

open Jwt.FnTie Jwt.Gen.Fn in
/-- the translated validators never panic and report, up to order, the model's issues -/
theorem genValidate_eq (env : VEnv) (cr : Crypto) (opq : V2.Opq) (ok : OpqOk env cr opq) (now : Int) (c : Claims) :
    ∃ l, genValidate opq now c = some (push vr0 l) ∧ l.Perm (validate env cr now c) := by
  unfold genValidate validate
  cases hk : c.kind
  · exact ⟨_, v2_operatorClaimsValidate env opq ok.url ok.atoi ok.acct ok.op c.val vr0 now, List.Perm.refl _⟩
  · obtain ⟨a', l, h, hp⟩ := gen_account env cr opq ok c.val now
    exact ⟨l, by simp [h], hp⟩
  · exact ⟨_, v2_userClaimsValidate env opq ok.clock ok.cidr ok.tz ok.acct c.val vr0 now, List.Perm.refl _⟩
  · refine ⟨_, ?_, List.Perm.refl _⟩
    simp [V2.ActivationClaims_Validate, v2_validateWithTimeChecks opq ok.acct]
  · exact ⟨_, v2_authRequestValidate opq ok.user c.val vr0 now, List.Perm.refl _⟩
  · exact ⟨_, v2_authResponseValidate opq ok.user ok.server ok.acct c.val vr0 now, List.Perm.refl _⟩
  · exact ⟨_, v2_genericClaimsValidate c.val vr0 now, List.Perm.refl _⟩

open Jwt.FnTie Jwt.Gen.Fn in
/-- **C06 for the translated code.** For every claim kind, the code translated from today's source — `Validate`
followed by `IsBlocking(false)` — never panics and answers `true` exactly when the claims violate a catalogue row. -/
theorem gen_blocking_iff (env : VEnv) (cr : Crypto) (opq : V2.Opq) (ok : OpqOk env cr opq) (now : Int) (c : Claims) :
    ∃ w, genValidate opq now c = some w ∧ V2.ValidationResults_IsBlocking w false = some (bad env cr c) := by
  obtain ⟨l, h, hp⟩ := genValidate_eq env cr opq ok now c
  refine ⟨_, h, ?_⟩
  rw [isBlocking_push_vr0, isBlocking_perm hp, blocking_iff]

end Jwt.C06
