import JwtModel.V1
import JwtProofs.Decode
import Props.CodecRoundTrip
import Props.CodecText
import Props.FnTie
/-!
# C19 — the bundled version-1 library is self-consistent

Model: `Jwt.V1.decode`, `Jwt.V1.encodeParts` (JwtModel/V1.lean) over the schemas and role tables generated from
/repo/v2/v1compat, tied to the code by the correspondence stream `C19` (real v1compat Encode / Decode of all seven
kinds, single-character edits, wrong-role forgeries, v2-header tokens).
-/
namespace Jwt.C19
open Jwt Jwt.Codec Jwt.NKey

theorem v1_parseHeaders_inv (seg : Str) (header : Header) (h : V1.parseHeaders seg = .ok header) :
    V1.headerValid header = true := by
  unfold V1.parseHeaders at h
  cases h1 : segmentText seg with
  | error e => simp [h1, bind, Except.bind] at h
  | ok text =>
    cases h2 : parseJsonText text with
    | error e => simp [h1, h2, bind, Except.bind] at h
    | ok j =>
      cases h3 : decodeJson Gen.V1.Header (zero Gen.V1.Header) j with
      | error e => simp [h1, h2, h3, bind, Except.bind] at h
      | ok v =>
        simp only [h1, h2, h3, bind, Except.bind, pure, Except.pure] at h
        split at h
        · next hv => injection h with h; subst h; exact hv
        · cases h

theorem v1_decode_inv (k : V1.Kind) (cr : Crypto) (tok : Str) (v : Val) (hd : V1.decode k cr tok = .ok v) :
    ∃ h p s header text j sig,
      splitOn '.' tok = [h, p, s] ∧ V1.parseHeaders h = .ok header ∧ segmentText p = .ok text ∧
      parseJsonText text = .ok j ∧ decodeJson (V1.schemaOf k) (zero (V1.schemaOf k)) j = .ok v ∧
      B64.decodeString s = some sig ∧ verifySig cr (v.field "iss").asStr p sig = true ∧
      roleGate Gen.V1.decodeArms (V1.expectedPrefixes k) (v.field "iss").asStr = true := by
  unfold V1.decode at hd
  split at hd
  · next h p s hs =>
    cases h1 : V1.parseHeaders h with
    | error e => simp [h1, bind, Except.bind] at hd
    | ok header =>
      cases h2 : segmentText p with
      | error e => simp [h1, h2, bind, Except.bind] at hd
      | ok text =>
        cases h3 : parseJsonText text with
        | error e => simp [h1, h2, h3, bind, Except.bind] at hd
        | ok j =>
          cases h4 : decodeJson (V1.schemaOf k) (zero (V1.schemaOf k)) j with
          | error e => simp [h1, h2, h3, h4, bind, Except.bind] at hd
          | ok v0 =>
            cases h5 : B64.decodeString s with
            | none => simp [h1, h2, h3, h4, h5, bind, Except.bind] at hd
            | some sig =>
              simp only [h1, h2, h3, h4, h5, bind, Except.bind, pure, Except.pure] at hd
              by_cases hv : verifySig cr (v0.field "iss").asStr p sig = true
              · by_cases hr : roleGate Gen.V1.decodeArms (V1.expectedPrefixes k) (v0.field "iss").asStr = true
                · simp only [hv, hr, Bool.not_true, Bool.false_eq_true, if_false, Except.ok.injEq] at hd
                  subst hd
                  exact ⟨h, p, s, header, text, j, sig, hs, h1, h2, h3, h4, h5, hv, hr⟩
                · simp [hv, hr] at hd
              · simp [hv] at hd
  · cases hd

/-- **Authenticity.** Whatever a v1 decoder returns was signed, over the payload segment alone, by the 32-byte key
named by the issuer the returned claims report. Any altered payload or signature therefore needs a fresh valid
signature under that issuer (or is refused). -/
theorem v1_authentic (k : V1.Kind) (cr : Crypto) (tok : Str) (v : Val) (hd : V1.decode k cr tok = .ok v) :
    ∃ h p s sig pk, splitOn '.' tok = [h, p, s] ∧ B64.decodeString s = some sig ∧
      rawKey (v.field "iss").asStr = some pk ∧ pk.length = 32 ∧ cr.verify pk (Utf8.encode p) sig = true := by
  obtain ⟨h, p, s, _, _, _, sig, hs, _, _, _, _, h5, hv, _⟩ := v1_decode_inv k cr tok v hd
  obtain ⟨pk, hk, hl, hver⟩ := verifySig_inv cr _ _ _ hv
  exact ⟨h, p, s, sig, pk, hs, h5, hk, hl, hver⟩

/-- the v1 library's role table: operator: operator; account, activation: account or operator; user: account;
cluster, server: operator or cluster; generic: any -/
def allowedSpec : V1.Kind → Option (List Role)
  | .operator => some [.operator]
  | .account => some [.account, .operator]
  | .activation => some [.account, .operator]
  | .user => some [.account]
  | .cluster => some [.operator, .cluster]
  | .server => some [.operator, .cluster]
  | .generic => none

def sameRoles (a b : List Role) : Bool := a.all (b.contains ·) && b.all (a.contains ·)
def prefixesMatch : Option (List Role) → Option (List Role) → Bool
  | some g, some s => sameRoles g s
  | none, none => true
  | _, _ => false

/-- **Generated obligation.** Today's v1compat `ExpectedPrefixes()` tables and switch arms. -/
theorem gen_v1_prefixes : ∀ k : V1.Kind, prefixesMatch (V1.expectedPrefixes k) (allowedSpec k) = true := by
  intro k; cases k <;> decide
theorem gen_v1_arms : ∀ k : V1.Kind, ∀ r ∈ (allowedSpec k).getD [], r ∈ Gen.V1.decodeArms ∧ r ∈ Gen.V1.encodeArms := by
  intro k; cases k <;> decide

/-- **Issuer roles.** A v1 decoder accepts only issuers of a role permitted for its kind. -/
theorem v1_issuer_role (k : V1.Kind) (cr : Crypto) (tok : Str) (v : Val) (hd : V1.decode k cr tok = .ok v) :
    match allowedSpec k with
    | none => True
    | some s => ∃ r ∈ s, isValidPublic r (v.field "iss").asStr = true := by
  obtain ⟨_, _, _, _, _, _, _, _, _, _, _, _, _, _, hr⟩ := v1_decode_inv k cr tok v hd
  have hg := gen_v1_prefixes k
  cases hs : allowedSpec k with
  | none => trivial
  | some s =>
    cases he : V1.expectedPrefixes k with
    | none => rw [he, hs] at hg; simp [prefixesMatch] at hg
    | some g =>
      rw [he, hs] at hg
      simp only [roleGate, he, List.any_eq_true, Bool.and_eq_true] at hr
      obtain ⟨p, hp, _, hv⟩ := hr
      simp only [prefixesMatch, sameRoles, Bool.and_eq_true, List.all_eq_true] at hg
      exact ⟨p, by simpa using hg.1 p hp, hv⟩

/-- **Tokens written with the version-2 algorithm name are refused** (and so is anything but `jwt` / `ed25519`). -/
theorem v1_header_exact (h : Header) :
    V1.headerValid h = true ↔ goLower h.typ = "jwt".toList ∧ goLower h.alg = "ed25519".toList := by
  have c1 : Gen.V1.cTokenTypeJwt = "jwt".toList := by decide
  have c2 : Gen.V1.cAlgorithmNkey = "ed25519".toList := by decide
  unfold V1.headerValid
  rw [c1, c2]
  simp only [Bool.and_eq_true, decide_eq_true_eq]
  exact ⟨fun ⟨a, b⟩ => ⟨a.symm, b⟩, fun ⟨a, b⟩ => ⟨a.symm, b⟩⟩

theorem v1_refuses_v2_alg (k : V1.Kind) (cr : Crypto) (tok : Str) (v : Val) (hd : V1.decode k cr tok = .ok v) :
    ∃ h p s header, splitOn '.' tok = [h, p, s] ∧ V1.parseHeaders h = .ok header ∧
      goLower header.alg ≠ "ed25519-nkey".toList := by
  obtain ⟨h, p, s, header, _, _, _, hs, h1, _⟩ := v1_decode_inv k cr tok v hd
  have hv := v1_parseHeaders_inv h header h1
  have := (v1_header_exact header).mp hv
  refine ⟨h, p, s, header, hs, h1, ?_⟩
  rw [this.2]; decide

/-- altered signature segment: the content is a function of the payload segment -/
theorem v1_content_function (k : V1.Kind) (cr : Crypto) (h p s s' : Str) (v v' : Val)
    (hd : '.' ∉ h ∧ '.' ∉ p ∧ '.' ∉ s ∧ '.' ∉ s')
    (h1 : V1.decode k cr (h ++ '.' :: (p ++ '.' :: s)) = .ok v) (h2 : V1.decode k cr (h ++ '.' :: (p ++ '.' :: s')) = .ok v') :
    v = v' := by
  have split : ∀ x, '.' ∉ x → splitOn '.' (h ++ '.' :: (p ++ '.' :: x)) = [h, p, x] := by
    intro x hx
    rw [splitOn_append_sep '.' _ h hd.1, splitOn_append_sep '.' _ p hd.2.1, splitOn_no_sep '.' x hx]
  obtain ⟨a, b, d, _, t1, j1, _, hs1, _, ht1, hj1, hl1, _⟩ := v1_decode_inv k cr _ v h1
  obtain ⟨a', b', d', _, t2, j2, _, hs2, _, ht2, hj2, hl2, _⟩ := v1_decode_inv k cr _ v' h2
  rw [split s hd.2.2.1] at hs1
  rw [split s' hd.2.2.2] at hs2
  injection hs1 with e1 hs1; injection hs1 with e2 _
  injection hs2 with e1' hs2; injection hs2 with e2' _
  subst e1; subst e2; subst e2'
  rw [ht1] at ht2; injection ht2 with e; subst e
  rw [hj1] at hj2; injection hj2 with e; subst e
  rw [hl1] at hl2; injection hl2

end Jwt.C19
