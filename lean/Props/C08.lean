import JwtModel.DidSign
import Props.FnTie
/-!
# C08 — signer attribution follows the operator / account trust rules

Model: `operatorDidSign`, `accountDidSign` (JwtModel/DidSign.lean), transcriptions of the two `DidSign`
methods, tied to the code by the exhaustive correspondence stream `C08`. The specification is the
sentence of the property written as a Boolean formula.
-/
namespace Jwt.C08
open Jwt

/-- **Operator.** Signed exactly when the issuer is the operator's identity key (under strict signing-key
usage: only for the operator's own claim) or — for any other issuer — one of its listed signing keys.
A nil claim is never signed. -/
theorem operator_didSign (opSubject : Str) (strict : Bool) (keys : List Str) (c : Option ClaimView) :
    operatorDidSign opSubject strict keys c = true ↔
      ∃ cv, c = some cv ∧
        ((cv.issuer = opSubject ∧ (strict = true → cv.subject = opSubject)) ∨
         (cv.issuer ≠ opSubject ∧ cv.issuer ∈ keys)) := by
  cases c with
  | none => simp [operatorDidSign]
  | some cv =>
    simp only [operatorDidSign, keyListed, Option.some.injEq, exists_eq_left']
    by_cases h : cv.issuer = opSubject
    · cases strict <;> simp [h]
    · simp [h]

/-- the strict-mode corner: the identity key also listed as a signing key does not make the operator the
signer of somebody else's claim (the identity branch answers first) -/
theorem operator_strict_identity_only (opSubject : Str) (keys : List Str) (cv : ClaimView)
    (hi : cv.issuer = opSubject) (hs : cv.subject ≠ opSubject) :
    operatorDidSign opSubject true keys (some cv) = false := by
  simp [operatorDidSign, hi, hs]

/-- **Account.** Signed exactly when the issuer is the account's identity key, or the claim is a user or
activation naming this account as issuer account and the issuer is one of the account's (plain or scoped)
signing keys. In every other case, including a nil claim, the answer is no. -/
theorem account_didSign (acct : Str) (keys : List Str) (c : Option ClaimView) :
    accountDidSign acct keys c = true ↔
      ∃ cv, c = some cv ∧
        (cv.issuer = acct ∨
         ((cv.kind = .user ∨ cv.kind = .activation) ∧ cv.issuerAccount = acct ∧ cv.issuer ∈ keys)) := by
  cases c with
  | none => simp [accountDidSign]
  | some cv =>
    simp only [accountDidSign, keyListed, Option.some.injEq, exists_eq_left']
    by_cases h : cv.issuer = acct
    · simp [h]
    · by_cases hu : cv.kind = .user <;> by_cases ha : cv.kind = .activation <;> by_cases hia : cv.issuerAccount = acct <;>
        simp_all

theorem nil_never_signed (s : Str) (b : Bool) (keys : List Str) :
    operatorDidSign s b keys none = false ∧ accountDidSign s keys none = false := ⟨rfl, rfl⟩

/-! ### Non-vacuity -/
example : accountDidSign "A".toList ["K".toList] (some ⟨.user, "K".toList, "U".toList, "A".toList⟩) = true := by decide
example : accountDidSign "A".toList ["K".toList] (some ⟨.account, "K".toList, "U".toList, "A".toList⟩) = false := by decide
example : operatorDidSign "O".toList true ["O".toList] (some ⟨.account, "O".toList, "A".toList, []⟩) = false := by decide

end Jwt.C08
