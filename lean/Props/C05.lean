import JwtProofs.Decode
import JwtModel.Encode
import Props.FnTie
/-!
# C05 — header / version / kind gate on decoding; Encode always writes the v2 envelope

Reading fixed in DESIGN 5.5: segment and header gates apply to every decoder; the version / kind gates are
those of the general decoder (hence of every typed decoder); `DecodeGeneric` is a kind-agnostic reader.
Constants (`JWT`, the two algorithm names, library version 2) are regenerated from /repo (`Gen.V2`).
-/
namespace Jwt.C05
open Jwt

/-- the constants extracted from the source are the ones the property names -/
theorem gen_constants :
    Gen.V2.cTokenTypeJwt = "JWT".toList ∧ Gen.V2.cAlgorithmNkeyOld = "ed25519".toList ∧
    Gen.V2.cAlgorithmNkey = "ed25519-nkey".toList ∧ Gen.V2.clibVersion = 2 := by decide

/-- **Algorithm names are compared exactly (case-insensitively), nothing else** — in particular not `none`,
and not a longer name with the legacy name as prefix. -/
theorem alg_exact (h : Header) :
    headerValid h = true ↔
      goUpper h.typ = "JWT".toList ∧ (goLower h.alg = "ed25519".toList ∨ goLower h.alg = "ed25519-nkey".toList) := by
  have := gen_constants
  rw [headerValid_iff, this.1, this.2.1, this.2.2.1]

example : headerValid ⟨"jwt".toList, "ED25519-NKEY".toList⟩ = true := by decide
example : headerValid ⟨"JWT".toList, "none".toList⟩ = false := by decide
example : headerValid ⟨"JWT".toList, "ed25519-nkeyx".toList⟩ = false := by decide
example : headerValid ⟨"JWT".toList, "ed25519x".toList⟩ = false := by decide
example : headerValid ⟨"JWS".toList, "ed25519".toList⟩ = false := by decide

def isTyped4 (k : Kind) : Prop := k = .operator ∨ k = .account ∨ k = .user ∨ k = .activation

theorem segmentText_b64 (seg text : Str) (h : segmentText seg = .ok text) : ∃ bs, B64.decodeString seg = some bs := by
  unfold segmentText at h
  cases hb : B64.decodeString seg with
  | none => simp [hb] at h
  | some bs => exact ⟨bs, rfl⟩

/-- **The gate of the general decoder.** Accepted ⇒ exactly three base64url segments; a header declaring
type JWT and one of the two algorithm names; a declared version no newer than 2; version 1 or 2 for operator,
account, user and activation claims; never the retired cluster / server kinds. -/
theorem decode_gate (cr : Crypto) (tok : Str) (c : Claims) (hd : decode cr tok = .ok c) :
    ∃ h p s header text j id,
      splitOn '.' tok = [h, p, s] ∧
      (∃ b, B64.decodeString h = some b) ∧ (∃ b, B64.decodeString p = some b) ∧ (∃ b, B64.decodeString s = some b) ∧
      parseHeaders h = .ok header ∧
      goUpper header.typ = "JWT".toList ∧
      (goLower header.alg = "ed25519".toList ∨ goLower header.alg = "ed25519-nkey".toList) ∧
      segmentText p = .ok text ∧ parseJsonText text = .ok j ∧ identOf j = .ok id ∧
      id.version ≤ 2 ∧
      (isTyped4 c.kind → id.version = 1 ∨ id.version = 2) ∧
      id.kindStr ≠ "cluster".toList ∧ id.kindStr ≠ "server".toList := by
  obtain ⟨h, p, s, header, text, j, ver0, sig, hs, h1, h2, h3, h4, h5, _, _⟩ := decode_ok_inv cr tok c hd
  obtain ⟨hv, hb⟩ := parseHeaders_inv h header h1
  obtain ⟨ht, ha⟩ := (alg_exact header).mp hv
  obtain ⟨id, hid, hver, hcase⟩ := loadClaims_inv j ver0 c h4
  refine ⟨h, p, s, header, text, j, id, hs, hb, segmentText_b64 p text h2, ⟨sig, h5⟩, h1, ht, ha, h2, h3, hid, ?_, ?_, ?_⟩
  · have := gen_constants.2.2.2; rw [this] at hver; exact hver
  · intro hk
    rcases hcase with ⟨k, _, hck, _, hl⟩ | ⟨_, _, _, hck, _⟩
    · exact loadTyped_version k id.version j c.val (by rw [← hck]; exact hk) hl
    · rw [hck] at hk; rcases hk with e | e | e | e <;> cases e
  · rcases hcase with ⟨k, hk, _⟩ | ⟨_, h1, h2, _⟩
    · have hc : kindOfType "cluster".toList = none := by decide
      have hsv : kindOfType "server".toList = none := by decide
      constructor
      · intro e; rw [e, hc] at hk; cases hk
      · intro e; rw [e, hsv] at hk; cases hk
    · exact ⟨h1, h2⟩

/-- **The gate of the generic decoder**: three base64url segments and a valid header. -/
theorem decodeGeneric_gate (cr : Crypto) (tok : Str) (c : Claims) (hd : decodeGeneric cr tok = .ok c) :
    ∃ h p s header,
      splitOn '.' tok = [h, p, s] ∧
      (∃ b, B64.decodeString h = some b) ∧ (∃ b, B64.decodeString p = some b) ∧ (∃ b, B64.decodeString s = some b) ∧
      parseHeaders h = .ok header ∧ goUpper header.typ = "JWT".toList ∧
      (goLower header.alg = "ed25519".toList ∨ goLower header.alg = "ed25519-nkey".toList) := by
  obtain ⟨h, p, s, header, text, j, gc, sig, hs, h1, h2, _, _, h5, _⟩ := decodeGeneric_ok_inv cr tok c hd
  obtain ⟨hv, hb⟩ := parseHeaders_inv h header h1
  obtain ⟨ht, ha⟩ := (alg_exact header).mp hv
  exact ⟨h, p, s, header, hs, hb, segmentText_b64 p text h2, ⟨sig, h5⟩, h1, ht, ha⟩

/-! ### Encode always writes the version-2 envelope -/

/-- the header text every `Encode` writes -/
theorem encode_header_text :
    liftRes (Codec.encodeText codecEnv Gen.V2.Header encodeHeader) = .ok "{\"typ\":\"JWT\",\"alg\":\"ed25519-nkey\"}".toList := by
  rfl

theorem b64_alphabet_only : ∀ (bs : List Nat), ∀ c ∈ B64.encode bs, c ∈ B64.alphabet := by
  have hc : ∀ n, B64.encChar n ∈ B64.alphabet := by
    intro n
    unfold B64.encChar
    rw [List.getD_eq_getElem?_getD]
    cases h : B64.alphabet[n]? with
    | none => decide
    | some x => exact List.mem_of_getElem? h
  intro bs
  induction bs using B64.encode.induct with
  | case1 a b c r ih =>
    intro x hx
    simp only [B64.encode, List.mem_cons] at hx
    rcases hx with rfl | rfl | rfl | rfl | hx
    · exact hc _
    · exact hc _
    · exact hc _
    · exact hc _
    · exact ih x hx
  | case2 a b => intro x hx; simp only [B64.encode, List.mem_cons, List.not_mem_nil, or_false] at hx; rcases hx with rfl | rfl | rfl <;> exact hc _
  | case3 a => intro x hx; simp only [B64.encode, List.mem_cons, List.not_mem_nil, or_false] at hx; rcases hx with rfl | rfl <;> exact hc _
  | case4 => intro x hx; simp [B64.encode] at hx

/-- **Envelope.** A successful Encode yields `b64(header).b64(payload).sig` where the header is the
version-2 header (never the legacy algorithm) and both segments are unpadded base64url. -/
theorem encode_envelope (env : EncEnv) (k : Kind) (v v' : Val) (tok : Str) (h : encode env k v = .ok (v', tok)) :
    ∃ pText, tok = b64Text "{\"typ\":\"JWT\",\"alg\":\"ed25519-nkey\"}".toList ++ '.' :: (b64Text pText ++
        '.' :: env.signB64 (b64Text "{\"typ\":\"JWT\",\"alg\":\"ed25519-nkey\"}".toList ++ '.' :: b64Text pText)) ∧
      liftRes (Codec.encodeText codecEnv (schemaOf k) v') = .ok pText ∧
      (∀ c ∈ b64Text pText, c ∈ B64.alphabet) := by
  unfold encode at h
  cases hp : preEncode env k v with
  | error e => simp [hp, bind, Except.bind] at h
  | ok v0 =>
    simp only [hp, bind, Except.bind, doEncode] at h
    cases hparts : encodeParts env k v0 with
    | error e => simp [hparts] at h
    | ok r =>
      obtain ⟨v2, hText, pText⟩ := r
      simp only [hparts, pure, Except.pure, Except.ok.injEq, Prod.mk.injEq] at h
      obtain ⟨rfl, rfl⟩ := h
      -- unfold encodeParts to learn hText and pText
      unfold encodeParts at hparts
      split at hparts
      · cases hparts
      · rw [encode_header_text] at hparts
        simp only [bind, Except.bind] at hparts
        split at hparts
        · cases hparts
        · cases hid : hashOf env (((v0.set "iss" (.str env.pub)).set "iat" (.int env.now)).set "jti" (.str [])) with
          | error e => simp [hid] at hparts
          | ok id =>
            simp only [hid] at hparts
            cases hpt : liftRes (Codec.encodeText codecEnv (schemaOf k)
                (updateVersion k ((((v0.set "iss" (.str env.pub)).set "iat" (.int env.now)).set "jti" (.str [])).set "jti" (.str id)))) with
            | error e => simp [hpt] at hparts
            | ok pt =>
              simp only [hpt, pure, Except.pure, Except.ok.injEq, Prod.mk.injEq] at hparts
              obtain ⟨rfl, rfl, rfl⟩ := hparts
              refine ⟨pt, ?_, hpt, fun c hc => b64_alphabet_only _ c hc⟩
              simp [List.append_assoc]

/-- the v2 header never names the legacy algorithm, and padding / dots are not in the base64url alphabet -/
theorem envelope_facts : Gen.V2.cAlgorithmNkey ≠ Gen.V2.cAlgorithmNkeyOld ∧ '=' ∉ B64.alphabet ∧ '.' ∉ B64.alphabet := by decide

/-- **Version stamp.** For the six typed kinds the encoded claims carry version 2. -/
theorem updateVersion_typed (k : Kind) (hk : k ≠ .generic) (v : Val) (hn : (v.field "nats").hasKey "version" = true)
    (hv : v.hasKey "nats" = true) :
    ((updateVersion k v).field "nats").field "version" = .int 2 := by
  cases k <;> first | exact absurd rfl hk | (simp only [updateVersion, setNats]; rw [Val.field_set_eq _ _ _ hv, Val.field_set_eq _ _ _ hn]; rfl)

end Jwt.C05
