import JwtProofs.Revocation
import Props.FnTie
/-!
# C09 — revocation answers follow the revoke / clear / compact history

Model: `Jwt.Rev` (JwtModel/Revocation.lean) — `RevocationList.{Revoke, ClearRevocation, MaybeCompact,
IsRevoked}` and the `IsClaimRevoked` guards, tied to the code by the correspondence stream `C09`.
Specification: the abstract map `Key → Option Int` with the three obvious update equations
(`sRevoke`, `sClear`, `sCompact` in JwtProofs/Revocation.lean). Histories are unbounded lists of
operations over arbitrary keys and integer times.
-/
namespace Jwt.C09
open Jwt Jwt.Rev

abbrev Key := Str
def all : Key := ['*']

/-- run a history on the concrete list / on the abstract map -/
def run (h : List (Op Key)) : M Key := h.foldl (step all) []
def emptySpec : Spec Key := fun _ => none
def specRun (h : List (Op Key)) : Spec Key := h.foldl (sStep all) emptySpec

theorem specRun_snoc (h : List (Op Key)) (op : Op Key) : specRun (h ++ [op]) = sStep all (specRun h) op := by
  unfold specRun; rw [List.foldl_append]; rfl
theorem run_snoc (h : List (Op Key)) (op : Op Key) : run (h ++ [op]) = step all (run h) op := by
  unfold run; rw [List.foldl_append]; rfl

/-- **Refinement.** After any history the stored list represents exactly the abstract map, and its keys
stay distinct (a Go map). -/
theorem refines (h : List (Op Key)) : abs (run h) = specRun h ∧ (keys (run h)).Nodup := by
  have := Rev.refines all h [] (by simp [keys])
  exact this

/-- **Answers.** A key is reported revoked for an issue time exactly when the surviving revocation time
for that key, or for the wildcard, is at or after that time. -/
theorem isRevoked_iff (h : List (Op Key)) (k : Key) (t : Int) :
    isRevoked all (run h) k t = true ↔
      (∃ v, specRun h k = some v ∧ t ≤ v) ∨ (∃ v, specRun h all = some v ∧ t ≤ v) := by
  have hr := (refines h).1
  have hk : lookup k (run h) = specRun h k := congrFun hr k
  have ha : lookup all (run h) = specRun h all := congrFun hr all
  simp only [isRevoked, Bool.or_eq_true, hk, ha]
  constructor
  · rintro (h1 | h1)
    · right; cases hv : specRun h all with
      | none => simp [hv, geOpt] at h1
      | some v => simp [hv, geOpt] at h1; exact ⟨v, rfl, h1⟩
    · left; cases hv : specRun h k with
      | none => simp [hv, geOpt] at h1
      | some v => simp [hv, geOpt] at h1; exact ⟨v, rfl, h1⟩
  · rintro (⟨v, hv, hle⟩ | ⟨v, hv, hle⟩)
    · right; simp [hv, geOpt, hle]
    · left; simp [hv, geOpt, hle]

/-- **Revoking never lowers a stored time** (and stores at least the new time). -/
theorem revoke_never_lowers (h : List (Op Key)) (k : Key) (t ts : Int) (hs : specRun h k = some ts) :
    ∃ ts', specRun (h ++ [.revokeAt k t]) k = some ts' ∧ ts ≤ ts' ∧ t ≤ ts' := by
  rw [specRun_snoc]
  exact revoke_monotone _ k t ts hs

/-- a first revocation stores the given time -/
theorem revoke_fresh (h : List (Op Key)) (k : Key) (t : Int) (hs : specRun h k = none) :
    specRun (h ++ [.revokeAt k t]) k = some t := by
  rw [specRun_snoc]
  simp [sStep, sRevoke, hs]

/-- revoking one key leaves every other key alone -/
theorem revoke_only_named (h : List (Op Key)) (k k' : Key) (t : Int) (hne : k' ≠ k) :
    specRun (h ++ [.revokeAt k t]) k' = specRun h k' := by
  rw [specRun_snoc]
  simp [sStep, sRevoke, hne]

/-- **Clearing removes only the named entry.** -/
theorem clear_only_named (h : List (Op Key)) (k k' : Key) :
    specRun (h ++ [.clear k]) k' = if k' = k then none else specRun h k' := by
  rw [specRun_snoc]; rfl

/-- **Compaction changes no answer.** -/
theorem compact_preserves_answers (h : List (Op Key)) (k : Key) (t : Int) :
    isRevoked all (run (h ++ [.compact])) k t = isRevoked all (run h) k t := by
  rw [run_snoc]
  exact Rev.compact_preserves_answers all _ (refines h).2 k t

/-- **Compaction removes precisely the entries covered by the wildcard and returns them.** -/
theorem compact_exact (m : M Key) (ats : Int) (hw : lookup all m = some ats) (p : Key × Int) :
    (p ∈ (compact all m).2 ↔ p ∈ m ∧ p.1 ≠ all ∧ p.2 ≤ ats) ∧
    (p ∈ (compact all m).1 ↔ p ∈ m ∧ ¬ (p.1 ≠ all ∧ p.2 ≤ ats)) := Rev.compact_exact all m ats hw p

/-- without a wildcard entry compaction removes nothing -/
theorem compact_no_wildcard (m : M Key) (hw : lookup all m = none) : compact all m = (m, []) :=
  Rev.compact_no_wildcard all m hw

/-- **Fail closed.** A missing claim, issue time or subject is reported as revoked. -/
theorem fail_closed (m : M Key) :
    isClaimRevoked all [] m none = true ∧
    (∀ sub, isClaimRevoked all [] m (some (sub, 0)) = true) ∧
    (∀ iat, isClaimRevoked all [] m (some ([], iat)) = true) := by
  refine ⟨rfl, ?_, ?_⟩
  · intro sub; simp [isClaimRevoked]
  · intro iat; simp [isClaimRevoked]

/-- otherwise the claim is judged by its subject and issue time -/
theorem claim_revoked_iff (m : M Key) (sub : Key) (iat : Int) (h1 : iat ≠ 0) (h2 : sub ≠ []) :
    isClaimRevoked all [] m (some (sub, iat)) = isRevoked all m sub iat := by
  simp [isClaimRevoked, h1, h2]

/-! ### Non-vacuity: a four-step history with a wildcard -/
private def hist : List (Op Key) :=
  [.revokeAt ['A'] 5, .revokeAt all 3, .revokeAt ['B'] 2, .compact]
example : run hist = [(all, 3), (['A'], 5)] := by decide
example : isRevoked all (run hist) ['B'] 3 = true ∧ isRevoked all (run hist) ['B'] 4 = false ∧
          isRevoked all (run hist) ['A'] 5 = true := by decide

end Jwt.C09
