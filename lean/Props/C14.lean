import JwtModel.Scope
import JwtProofs.Encode
import Props.C12
import Props.CodecRoundTrip
import Props.CodecText
/-!
# C14 — scoped signing keys and the one-call user-token issuer honour their contract

Model: `validateScopedSigner`, `hasEmptyPermissions`, `issueUserClaims`, `issueUserJWT` (JwtModel/Scope.lean) and
the signing-key codec (`Custom.signingKeys` in JwtModel/Codec.lean), tied to the code by the correspondence
stream `C14`. The encode/decode survival of signing-key sets is an instance of the codec round trip (C03).
-/
namespace Jwt.C14
open Jwt Jwt.Codec

/-- "carries no permissions or limits of its own": every field of the user's permission/limit block is the
zero value (DeepEqual semantics: a nil list, not an empty one) -/
def CarriesNothing (u : Val) : Prop := ∀ k ∈ permLimitKeys, isZeroVal ((u.field "nats").field k) = true

/-- **Scoped signer.** A scope accepts a claim exactly when it is a user claim, issued by the scope's key,
that carries no permissions or limits of its own. -/
theorem scoped_signer_iff (scopeKey : Str) (c : Claims) :
    validateScopedSigner scopeKey c = true ↔ c.kind = .user ∧ c.issuer = scopeKey ∧ CarriesNothing c.val := by
  unfold validateScopedSigner hasEmptyPermissions CarriesNothing
  simp [List.all_eq_true, and_assoc]

/-- `NewUserClaims` + `SetScoped(true)` carries nothing -/
theorem newScopedUser_carries_nothing (subject : Str) : hasEmptyPermissions (newScopedUser subject) = true := by
  unfold hasEmptyPermissions newScopedUser
  rw [Val.field_set_ne _ _ _ _ (by decide)]
  decide

/-- a freshly built user (`NewUserClaims`) does carry limits (unlimited = -1 and an empty, non-nil source list) -/
theorem newUserClaims_carries_limits (subject : Str) : hasEmptyPermissions (newUserClaims subject) = false := by
  unfold hasEmptyPermissions newUserClaims setNats
  rw [Val.field_set_eq _ _ _ (by simp only [Val.hasKey_set]; decide)]
  rw [Val.field_set_ne _ _ _ _ (by decide)]
  decide

theorem issueUserClaims_nats (accountId userKey name : Str) (expires : Int) (tags : Option (List Str)) (k : String)
    (hk : k.toList ≠ "issuer_account".toList ∧ k.toList ≠ "tags".toList) :
    ((issueUserClaims accountId userKey name expires tags).field "nats").field k = ((zero Gen.V2.UserClaims).field "nats").field k := by
  unfold issueUserClaims setNats newScopedUser
  rw [Val.field_set_eq _ _ _ (by simp only [Val.hasKey_set]; decide)]
  rw [Val.field_set_ne _ _ _ _ hk.2, Val.field_set_ne _ _ _ _ hk.1]
  rw [Val.field_set_ne _ _ _ _ (by decide), Val.field_set_ne _ _ _ _ (by decide), Val.field_set_ne _ _ _ _ (by decide)]

/-- **The issuer builds a scoped user**: subject, issuer account, name (defaulting to the subject), tags and
expiry as given, no permissions or limits. -/
theorem issueUserClaims_contract (accountId userKey name : Str) (expires : Int) (tags : Option (List Str)) :
    let c := issueUserClaims accountId userKey name expires tags
    c.field "sub" = .str userKey ∧
    (c.field "nats").field "issuer_account" = .str accountId ∧
    c.field "name" = .str (if name ≠ [] then name else userKey) ∧
    (c.field "nats").field "tags" = (match tags with | none => .nil | some ts => .list (ts.map .str)) ∧
    c.field "exp" = .int expires ∧
    hasEmptyPermissions c = true := by
  refine ⟨?_, ?_, ?_, ?_, ?_, ?_⟩
  · simp only [issueUserClaims, setNats, newScopedUser]
    rw [Val.field_set_ne _ _ _ _ (by decide), Val.field_set_ne _ _ _ _ (by decide), Val.field_set_ne _ _ _ _ (by decide),
      Val.field_set_eq _ _ _ (by decide)]
  · simp only [issueUserClaims, setNats, newScopedUser]
    rw [Val.field_set_eq _ _ _ (by simp only [Val.hasKey_set]; decide), Val.field_set_ne _ _ _ _ (by decide),
      Val.field_set_eq]
    rw [Val.field_set_ne _ _ _ _ (by decide), Val.field_set_ne _ _ _ _ (by decide), Val.field_set_ne _ _ _ _ (by decide)]
    decide
  · simp only [issueUserClaims, setNats, newScopedUser]
    rw [Val.field_set_ne _ _ _ _ (by decide), Val.field_set_eq _ _ _ (by simp only [Val.hasKey_set]; decide)]
  · simp only [issueUserClaims, setNats, newScopedUser]
    have hk : ((((((zero Gen.V2.UserClaims).set "sub" (.str userKey)).set "exp" (.int expires)).set "name"
        (.str (if name ≠ [] then name else userKey))).field "nats").set "issuer_account" (.str accountId)).hasKey "tags" = true := by
      rw [Val.hasKey_set]
      rw [Val.field_set_ne _ _ _ _ (by decide), Val.field_set_ne _ _ _ _ (by decide), Val.field_set_ne _ _ _ _ (by decide)]
      decide
    rw [Val.field_set_eq _ _ _ (by simp only [Val.hasKey_set]; decide), Val.field_set_eq _ _ _ hk]
    cases tags <;> rfl
  · simp only [issueUserClaims, setNats, newScopedUser]
    rw [Val.field_set_ne _ _ _ _ (by decide), Val.field_set_ne _ _ _ _ (by decide), Val.field_set_eq _ _ _ (by simp only [Val.hasKey_set]; decide)]
  · unfold hasEmptyPermissions
    rw [List.all_eq_true]
    intro k hk
    have hne : k.toList ≠ "issuer_account".toList ∧ k.toList ≠ "tags".toList := by
      simp only [permLimitKeys, List.mem_cons, List.not_mem_nil, or_false] at hk
      rcases hk with rfl | rfl | rfl | rfl | rfl | rfl | rfl | rfl | rfl | rfl | rfl <;> decide
    rw [issueUserClaims_nats _ _ _ _ _ k hne]
    simp only [permLimitKeys, List.mem_cons, List.not_mem_nil, or_false] at hk
    rcases hk with rfl | rfl | rfl | rfl | rfl | rfl | rfl | rfl | rfl | rfl | rfl <;> decide

/-- **Roles.** Anything but an account id and a user key is refused (an error, no token). -/
theorem issueUserJWT_roles (env : EncEnv) (accountId userKey name : Str) (expires : Int) (tags : Option (List Str))
    (h : validAcct accountId = false ∨ validUser userKey = false) :
    issueUserJWT env accountId userKey name expires tags = .error .err := by
  unfold issueUserJWT
  rcases h with h | h
  · simp [h]
  · by_cases ha : validAcct accountId = true <;> simp [ha, h]

/-- with the right roles the issuer is exactly `Encode` of the scoped user claims -/
theorem issueUserJWT_ok (env : EncEnv) (accountId userKey name : Str) (expires : Int) (tags : Option (List Str))
    (ha : validAcct accountId = true) (hu : validUser userKey = true) :
    issueUserJWT env accountId userKey name expires tags =
      encode env .user (issueUserClaims accountId userKey name expires tags) := by
  unfold issueUserJWT; simp [ha, hu]

/-- the expiry `time.Now().Add(d).Unix()` is the floor of the nanosecond sum (also for negative durations) -/
theorem expiry_floor (nowNanos d : Int) (hd : d ≠ 0) :
    expiryOf nowNanos d * 1000000000 ≤ nowNanos + d ∧ nowNanos + d < (expiryOf nowNanos d + 1) * 1000000000 := by
  unfold expiryOf
  simp only [hd, if_false]
  constructor
  · exact Int.ediv_mul_le _ (by decide)
  · have := Int.lt_ediv_add_one_mul_self (nowNanos + d) (show (0:Int) < 1000000000 by decide)
    exact this

end Jwt.C14
