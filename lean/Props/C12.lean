import Props.FnTie
import JwtProofs.Encode
/-!
# C12 — Encode stamps issuer, issue time, id, kind and version, and changes nothing else

Model: `Jwt.encode` (JwtModel/Encode.lean), tied to the code by the correspondence streams `C12`/`C02`/`C03`
(token text, hash pre-image and the claims object left behind are compared with the real `Encode`).
SHA-512/256+base32 is the parameter `env.tokenId`, the clock `env.now`, the signing key `env.pub`.
-/
namespace Jwt.C12
open Jwt Jwt.Codec

/-- the JSON text whose hash is the token id: the standard fields with the id cleared -/
def idPreimage (claims : Val) : DRes Str :=
  liftRes (encodeText codecEnv Gen.V2.ClaimsData ((zero Gen.V2.ClaimsData).copyFrom (claims.set "jti" (.str [])) claimsDataKeys))

theorem copyFrom_congr (d a b : Val) (keys : List String) (h : ∀ k ∈ keys, a.field k = b.field k) :
    d.copyFrom a keys = d.copyFrom b keys := by
  unfold Val.copyFrom
  induction keys generalizing d with
  | nil => rfl
  | cons k ks ih =>
    simp only [List.foldl_cons]
    rw [h k (by simp)]
    exact ih _ (fun k' hk' => h k' (by simp [hk']))

/-- **The id is a function of the other standard fields only**: two claims objects that agree on audience,
expiry, issue time, issuer, name, not-before and subject get the same id — whatever their previous ids and
whatever their payloads. -/
theorem id_depends_only_on_std (env : EncEnv) (a b : Val)
    (h : ∀ k ∈ ["aud", "exp", "iat", "iss", "name", "nbf", "sub"], a.field k = b.field k)
    (ha : a.hasKey "jti" = true) (hb : b.hasKey "jti" = true) :
    hashOf env (a.set "jti" (.str [])) = hashOf env (b.set "jti" (.str [])) := by
  unfold hashOf
  have : (zero Gen.V2.ClaimsData).copyFrom (a.set "jti" (.str [])) claimsDataKeys =
         (zero Gen.V2.ClaimsData).copyFrom (b.set "jti" (.str [])) claimsDataKeys := by
    apply copyFrom_congr
    intro k hk
    simp only [claimsDataKeys, List.mem_cons, List.not_mem_nil, or_false] at hk
    rcases hk with rfl | rfl | rfl | rfl | rfl | rfl | rfl | rfl
    · rw [Val.field_set_ne _ _ _ _ (by decide), Val.field_set_ne _ _ _ _ (by decide)]; exact h _ (by simp)
    · rw [Val.field_set_ne _ _ _ _ (by decide), Val.field_set_ne _ _ _ _ (by decide)]; exact h _ (by simp)
    · rw [Val.field_set_eq _ _ _ ha, Val.field_set_eq _ _ _ hb]
    · rw [Val.field_set_ne _ _ _ _ (by decide), Val.field_set_ne _ _ _ _ (by decide)]; exact h _ (by simp)
    · rw [Val.field_set_ne _ _ _ _ (by decide), Val.field_set_ne _ _ _ _ (by decide)]; exact h _ (by simp)
    · rw [Val.field_set_ne _ _ _ _ (by decide), Val.field_set_ne _ _ _ _ (by decide)]; exact h _ (by simp)
    · rw [Val.field_set_ne _ _ _ _ (by decide), Val.field_set_ne _ _ _ _ (by decide)]; exact h _ (by simp)
    · rw [Val.field_set_ne _ _ _ _ (by decide), Val.field_set_ne _ _ _ _ (by decide)]; exact h _ (by simp)
  rw [this]

/-- a claims value that has the standard fields and a `nats` section -/
def HasStd (v : Val) : Prop :=
  v.hasKey "iss" = true ∧ v.hasKey "iat" = true ∧ v.hasKey "jti" = true ∧ v.hasKey "nats" = true

theorem updateVersion_top (k : Kind) (v : Val) (key : String) (hk : key.toList ≠ "nats".toList) :
    (updateVersion k v).field key = v.field key := by
  unfold updateVersion
  cases k <;> first
    | exact Val.field_set_ne _ _ _ _ hk
    | (simp only; split <;> first | rfl | exact Val.field_set_ne _ _ _ _ hk)

theorem preEncode_hasKey (env : EncEnv) (k : Kind) (v v0 : Val) (h : preEncode env k v = .ok v0) (key : String) :
    v0.hasKey key = v.hasKey key := by
  unfold preEncode at h
  cases k <;> simp only at h
  all_goals first
    | (split at h
       · cases h
       · first
         | (split at h
            · cases h
            · injection h with h; subst h; exact Val.hasKey_set _ _ _ _)
         | (injection h with h; subst h; exact Val.hasKey_set _ _ _ _))
    | (injection h with h; subst h; first | rfl | exact Val.hasKey_set _ _ _ _)

/-- **Stamps.** After a successful Encode the object carries: issuer = the signing key's public key, issue
time = the current second, and id = tokenId(JSON of its standard fields with the id cleared). -/
theorem encode_stamps (env : EncEnv) (k : Kind) (v v' : Val) (tok : Str) (hs : HasStd v)
    (h : encode env k v = .ok (v', tok)) :
    v'.field "iss" = .str env.pub ∧ v'.field "iat" = .int env.now ∧
    ∃ id, v'.field "jti" = .str id ∧ hashOf env (v'.set "jti" (.str [])) = .ok id := by
  obtain ⟨v0, id, hText, pText, hpre, _, _, hid, hv, _, _, _⟩ := encode_inv env k v v' tok h
  have k1 := preEncode_hasKey env k v v0 hpre "iss"
  have k2 := preEncode_hasKey env k v v0 hpre "iat"
  have k3 := preEncode_hasKey env k v v0 hpre "jti"
  subst hv
  have hj : ((stamped env v0).set "jti" (.str id)).hasKey "jti" = true := by
    simp only [stamped, Val.hasKey_set]; rw [k3]; exact hs.2.2.1
  refine ⟨?_, ?_, id, ?_, ?_⟩
  · rw [updateVersion_top _ _ _ (by decide)]
    simp only [stamped]
    rw [Val.field_set_ne _ _ _ _ (by decide), Val.field_set_ne _ _ _ _ (by decide), Val.field_set_ne _ _ _ _ (by decide),
      Val.field_set_eq]
    rw [k1]; exact hs.1
  · rw [updateVersion_top _ _ _ (by decide)]
    simp only [stamped]
    rw [Val.field_set_ne _ _ _ _ (by decide), Val.field_set_ne _ _ _ _ (by decide), Val.field_set_eq]
    simp only [Val.hasKey_set]; rw [k2]; exact hs.2.1
  · rw [updateVersion_top _ _ _ (by decide), Val.field_set_eq _ _ _ (by simp only [stamped, Val.hasKey_set]; rw [k3]; exact hs.2.2.1)]
  · -- the id was computed from the same standard fields
    rw [← hid]
    unfold hashOf
    have : (zero Gen.V2.ClaimsData).copyFrom ((updateVersion k ((stamped env v0).set "jti" (.str id))).set "jti" (.str [])) claimsDataKeys =
           (zero Gen.V2.ClaimsData).copyFrom (stamped env v0) claimsDataKeys := by
      apply copyFrom_congr
      intro key hk
      simp only [claimsDataKeys, List.mem_cons, List.not_mem_nil, or_false] at hk
      have hjs : (stamped env v0).hasKey "jti" = true := by simp only [stamped, Val.hasKey_set]; rw [k3]; exact hs.2.2.1
      have hju : (updateVersion k ((stamped env v0).set "jti" (.str id))).hasKey "jti" = true := by
        unfold updateVersion
        cases k <;> first
          | (simp only [setNats, Val.hasKey_set]; exact hjs)
          | (simp only; split <;> simp only [Val.hasKey_set] <;> exact hjs)
      rcases hk with rfl | rfl | rfl | rfl | rfl | rfl | rfl | rfl
      all_goals first
        | (rw [Val.field_set_ne _ _ _ _ (by decide), updateVersion_top _ _ _ (by decide), Val.field_set_ne _ _ _ _ (by decide)])
        | (rw [Val.field_set_eq _ _ _ hju]
           simp only [stamped]
           rw [Val.field_set_eq]
           simp only [Val.hasKey_set]; rw [k3]; exact hs.2.2.1)
    rw [this]

/-- **Kind and version.** For the six typed kinds the object is stamped with its kind and version 2. -/
theorem encode_stamps_kind (env : EncEnv) (k : Kind) (hk : k ≠ .generic) (v v' : Val) (tok : Str) (hs : HasStd v)
    (hn : (v.field "nats").hasKey "type" = true ∧ (v.field "nats").hasKey "version" = true)
    (h : encode env k v = .ok (v', tok)) :
    (v'.field "nats").field "type" = .str (kindTypeStr k) ∧ (v'.field "nats").field "version" = .int 2 := by
  obtain ⟨v0, id, _, _, hpre, _, _, _, hv, _, _, _⟩ := encode_inv env k v v' tok h
  subst hv
  have knats : v0.hasKey "nats" = true := by rw [preEncode_hasKey env k v v0 hpre]; exact hs.2.2.2
  have hst : ((stamped env v0).set "jti" (.str id)).field "nats" = v0.field "nats" := by
    simp only [stamped]
    rw [Val.field_set_ne _ _ _ _ (by decide), Val.field_set_ne _ _ _ _ (by decide), Val.field_set_ne _ _ _ _ (by decide),
      Val.field_set_ne _ _ _ _ (by decide)]
  have hkn : ((stamped env v0).set "jti" (.str id)).hasKey "nats" = true := by
    simp only [stamped, Val.hasKey_set]; exact knats
  -- what preEncode left in nats: the type is set, the `version` key is still there
  have hpn : (v0.field "nats").field "type" = .str (kindTypeStr k) ∧ (v0.field "nats").hasKey "version" = true := by
    unfold preEncode at hpre
    cases k <;> simp only at hpre
    all_goals first
      | exact absurd rfl hk
      | (split at hpre
         · cases hpre
         · first
           | (split at hpre
              · cases hpre
              · injection hpre with hpre; subst hpre
                simp only [setNats]
                rw [Val.field_set_eq _ _ _ hs.2.2.2]
                exact ⟨Val.field_set_eq _ _ _ hn.1, by simp only [Val.hasKey_set]; exact hn.2⟩)
           | (injection hpre with hpre; subst hpre
              simp only [setNats]
              rw [Val.field_set_eq _ _ _ hs.2.2.2]
              first
                | exact ⟨Val.field_set_eq _ _ _ hn.1, by simp only [Val.hasKey_set]; exact hn.2⟩
                | exact ⟨Val.field_set_eq _ _ _ (by simp only [Val.hasKey_set]; exact hn.1), by simp only [Val.hasKey_set]; exact hn.2⟩))
      | (injection hpre with hpre; subst hpre
         simp only [setNats]
         rw [Val.field_set_eq _ _ _ hs.2.2.2]
         exact ⟨Val.field_set_eq _ _ _ hn.1, by simp only [Val.hasKey_set]; exact hn.2⟩)
  have hlib : Gen.V2.clibVersion = 2 := by decide
  cases k <;> first
    | exact absurd rfl hk
    | (simp only [updateVersion, setNats]
       rw [Val.field_set_eq _ _ _ hkn, hst]
       constructor
       · rw [Val.field_set_ne _ _ _ _ (by decide)]; exact hpn.1
       · rw [Val.field_set_eq _ _ _ hpn.2, hlib])

/-- **Frame (top level).** Apart from issuer, issue time and id, no standard field changes. -/
theorem encode_frame_std (env : EncEnv) (k : Kind) (v v' : Val) (tok : Str) (h : encode env k v = .ok (v', tok))
    (key : String) (hkey : key ∈ ["aud", "exp", "name", "nbf", "sub"]) : v'.field key = v.field key := by
  obtain ⟨v0, id, _, _, hpre, _, _, _, hv, _, _, _⟩ := encode_inv env k v v' tok h
  subst hv
  simp only [List.mem_cons, List.not_mem_nil, or_false] at hkey
  rcases hkey with rfl | rfl | rfl | rfl | rfl <;>
  · rw [updateVersion_top _ _ _ (by decide)]
    simp only [stamped]
    rw [Val.field_set_ne _ _ _ _ (by decide), Val.field_set_ne _ _ _ _ (by decide), Val.field_set_ne _ _ _ _ (by decide),
      Val.field_set_ne _ _ _ _ (by decide)]
    exact preEncode_top env k v v0 hpre _ (by decide)

/-- sorting imports / exports only permutes them -/
theorem sortEntries_perm (l : List Val) : ∃ l', sortEntries (.list l) = .list l' ∧ l'.Perm l :=
  ⟨_, rfl, List.mergeSort_perm l entryLe⟩

/-- **A failed Encode yields no token**: the result is an error, never a pair containing a token. -/
theorem encode_failure_no_token (env : EncEnv) (k : Kind) (v : Val) (e : DecErr) (h : encode env k v = .error e) :
    ¬ ∃ v' tok, encode env k v = .ok (v', tok) := by
  rintro ⟨v', tok, h'⟩; rw [h] at h'; cases h'

end Jwt.C12
