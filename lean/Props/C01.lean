import Props.FnTie
import JwtProofs.Decode
/-!
# C01 — accepted tokens are authentic: signed by the reported issuer over the exact text

Model: `Jwt.decode`, `Jwt.decodeGeneric`, `Jwt.decodeTyped` (JwtModel/Decode.lean), tied to the code by the
correspondence stream `C01` (every generated token goes through the real decoders and the model; accept /
reject and the decoded content must agree) and by the regenerated schemas / constants / role tables.
Ed25519 is the parameter `cr : Crypto`; unforgeability itself is cryptography and is in the trusted base.

Reading of "the exact text" (DESIGN 5.1): typed kinds — payload segment when the payload declares a
version ≤ 1 (a top-level `type` means version 1), header-dot-payload otherwise; generic claims — payload
segment exactly when the header algorithm is the legacy name `ed25519`.
-/
namespace Jwt.C01
open Jwt

/-- the text the statement says must have been signed -/
def specText (header : Header) (id : Ident) (kind : Kind) (h p : Str) : Str :=
  if kind = .generic then (if header.alg = Gen.V2.cAlgorithmNkeyOld then p else h ++ '.' :: p)
  else (if id.version ≤ 1 then p else h ++ '.' :: p)

theorem three_segments (tok h p s : Str) (hs : splitOn '.' tok = [h, p, s]) :
    tok = h ++ '.' :: (p ++ '.' :: s) ∧ '.' ∉ h ∧ '.' ∉ p ∧ '.' ∉ s := by
  have hj := join_splitOn '.' tok
  rw [hs] at hj
  have hn := splitOn_token_no_sep '.' tok
  rw [hs] at hn
  exact ⟨by simpa [join] using hj.symm, hn h (by simp), hn p (by simp), hn s (by simp)⟩

theorem signedText_eq_spec (header : Header) (j : Json) (ver0 : Int) (c : Claims) (h p : Str)
    (hl : loadClaims j = .ok (ver0, c)) :
    ∃ id, identOf j = .ok id ∧ signedText header ver0 c.kind h p = specText header id c.kind h p := by
  obtain ⟨id, hid, _, hcase⟩ := loadClaims_inv j ver0 c hl
  refine ⟨id, hid, ?_⟩
  rcases hcase with ⟨k, hk, hck, hv, _⟩ | ⟨_, _, _, hck, hv⟩
  · have hne : c.kind ≠ .generic := by rw [hck]; exact kindOfType_ne_generic _ _ hk
    simp [signedText, specText, hne, hv]
  · subst hv
    simp only [signedText, specText, hck, true_and, if_true]
    by_cases ha : header.alg = Gen.V2.cAlgorithmNkeyOld
    · simp [ha]
    · have : ¬ (Gen.V2.clibVersion ≤ 1) := by decide
      simp [ha, this]

/-- **Authenticity (general decoder).** Whenever `Decode` returns claims, the token is three dot-free
segments `h.p.s`, `s` is base64url of a signature that verifies — under the 32-byte public key named by the
issuer *the returned claims report* — over exactly the text the statement names. -/
theorem decode_authentic (cr : Crypto) (tok : Str) (c : Claims) (hd : decode cr tok = .ok c) :
    ∃ h p s header text j id sig pk,
      tok = h ++ '.' :: (p ++ '.' :: s) ∧ '.' ∉ h ∧ '.' ∉ p ∧ '.' ∉ s ∧
      parseHeaders h = .ok header ∧ segmentText p = .ok text ∧ parseJsonText text = .ok j ∧ identOf j = .ok id ∧
      B64.decodeString s = some sig ∧
      NKey.rawKey c.issuer = some pk ∧ pk.length = 32 ∧
      cr.verify pk (Utf8.encode (specText header id c.kind h p)) sig = true := by
  obtain ⟨h, p, s, header, text, j, ver0, sig, hs, h1, h2, h3, h4, h5, hv, _⟩ := decode_ok_inv cr tok c hd
  obtain ⟨id, hid, heq⟩ := signedText_eq_spec header j ver0 c h p h4
  rw [heq] at hv
  obtain ⟨pk, hk, hlen, hver⟩ := verifySig_inv cr _ _ _ hv
  obtain ⟨e, d1, d2, d3⟩ := three_segments tok h p s hs
  exact ⟨h, p, s, header, text, j, id, sig, pk, e, d1, d2, d3, h1, h2, h3, hid, h5, hk, hlen, hver⟩

/-- **Authenticity (typed decoders).** Each `Decode<Kind>Claims` returns claims only through `Decode`. -/
theorem typed_decoder_authentic (k : Kind) (cr : Crypto) (tok : Str) (c : Claims) (hd : decodeTyped k cr tok = .ok c) :
    decode cr tok = .ok c ∧ c.kind = k := decodeTyped_ok_inv k cr tok c hd

/-- **Authenticity (generic decoder).** `DecodeGeneric` returns claims only when the signature verifies under
the reported issuer over the payload segment (header algorithm exactly `ed25519`) or header-dot-payload. -/
theorem decodeGeneric_authentic (cr : Crypto) (tok : Str) (c : Claims) (hd : decodeGeneric cr tok = .ok c) :
    ∃ h p s header sig pk,
      tok = h ++ '.' :: (p ++ '.' :: s) ∧ '.' ∉ h ∧ '.' ∉ p ∧ '.' ∉ s ∧
      parseHeaders h = .ok header ∧ B64.decodeString s = some sig ∧ c.kind = .generic ∧
      NKey.rawKey c.issuer = some pk ∧ pk.length = 32 ∧
      cr.verify pk (Utf8.encode (if header.alg = Gen.V2.cAlgorithmNkeyOld then p else h ++ '.' :: p)) sig = true := by
  obtain ⟨h, p, s, header, text, j, gc, sig, hs, h1, _, _, _, h5, hk, hiss, hv⟩ := decodeGeneric_ok_inv cr tok c hd
  rw [← hiss] at hv
  obtain ⟨pk, hkey, hlen, hver⟩ := verifySig_inv cr _ _ _ hv
  obtain ⟨e, d1, d2, d3⟩ := three_segments tok h p s hs
  exact ⟨h, p, s, header, sig, pk, e, d1, d2, d3, h1, h5, hk, hkey, hlen, hver⟩

/-- **No cross-layout acceptance.** A signature that verifies only over the *other* layout's text is never
accepted: acceptance always comes with a verification over the text `specText` names. -/
theorem no_cross_layout (cr : Crypto) (tok : Str) (c : Claims) (hd : decode cr tok = .ok c) :
    ¬ ∃ h p s header text j id sig pk,
      splitOn '.' tok = [h, p, s] ∧ parseHeaders h = .ok header ∧ segmentText p = .ok text ∧
      parseJsonText text = .ok j ∧ identOf j = .ok id ∧ B64.decodeString s = some sig ∧
      NKey.rawKey c.issuer = some pk ∧
      cr.verify pk (Utf8.encode (specText header id c.kind h p)) sig = false := by
  rintro ⟨h', p', s', header', text', j', id', sig', pk', hs', h1', h2', h3', hid', h5', hk', hf⟩
  obtain ⟨h, p, s, header, text, j, ver0, sig, hs, h1, h2, h3, h4, h5, hv, _⟩ := decode_ok_inv cr tok c hd
  rw [hs] at hs'
  injection hs' with e1 hs'; injection hs' with e2 hs'; injection hs' with e3 _
  subst e1; subst e2; subst e3
  rw [h1] at h1'; injection h1' with e; subst e
  rw [h2] at h2'; injection h2' with e; subst e
  rw [h3] at h3'; injection h3' with e; subst e
  rw [h5] at h5'; injection h5' with e; subst e
  obtain ⟨id, hid, heq⟩ := signedText_eq_spec header j ver0 c h p h4
  rw [hid] at hid'; injection hid' with e; subst e
  rw [heq] at hv
  obtain ⟨pk, hk, _, hver⟩ := verifySig_inv cr _ _ _ hv
  rw [hk] at hk'; injection hk' with e; subst e
  rw [hver] at hf; cases hf

/-- **Alterations of the signature segment.** The decoded content is a function of the protected text alone:
two tokens with the same header and payload segments that are both accepted carry identical claims —
an altered signature segment either makes decoding fail or leaves the content identical. -/
theorem signature_alteration (cr : Crypto) (h p s s' : Str) (c c' : Claims)
    (hd : '.' ∉ h ∧ '.' ∉ p ∧ '.' ∉ s ∧ '.' ∉ s')
    (h1 : decode cr (h ++ '.' :: (p ++ '.' :: s)) = .ok c) (h2 : decode cr (h ++ '.' :: (p ++ '.' :: s')) = .ok c') :
    c.kind = c'.kind ∧ c.val = c'.val := by
  have split : ∀ x, '.' ∉ x → splitOn '.' (h ++ '.' :: (p ++ '.' :: x)) = [h, p, x] := by
    intro x hx
    rw [splitOn_append_sep '.' _ h hd.1, splitOn_append_sep '.' _ p hd.2.1, splitOn_no_sep '.' x hx]
  obtain ⟨a, b, d, _, t1, j1, v1, _, hs1, _, ht1, hj1, hl1, _⟩ := decode_ok_inv cr _ c h1
  obtain ⟨a', b', d', _, t2, j2, v2, _, hs2, _, ht2, hj2, hl2, _⟩ := decode_ok_inv cr _ c' h2
  rw [split s hd.2.2.1] at hs1
  rw [split s' hd.2.2.2] at hs2
  injection hs1 with e1 hs1; injection hs1 with e2 _
  injection hs2 with e1' hs2; injection hs2 with e2' _
  subst e1; subst e2; subst e2'
  rw [ht1] at ht2; injection ht2 with e; subst e
  rw [hj1] at hj2; injection hj2 with e; subst e
  rw [hl1] at hl2
  injection hl2 with e
  injection e with _ e
  subst e
  exact ⟨rfl, rfl⟩

/-- the signature segment matters only through the bytes it decodes to (base64 trailing-bit and newline
malleability cannot change the outcome) -/
theorem signature_only_via_bytes (cr : Crypto) (h p s s' : Str) (hd : '.' ∉ h ∧ '.' ∉ p ∧ '.' ∉ s ∧ '.' ∉ s')
    (hb : B64.decodeString s = B64.decodeString s') :
    decode cr (h ++ '.' :: (p ++ '.' :: s)) = decode cr (h ++ '.' :: (p ++ '.' :: s')) := by
  have split : ∀ x, '.' ∉ x → splitOn '.' (h ++ '.' :: (p ++ '.' :: x)) = [h, p, x] := by
    intro x hx
    rw [splitOn_append_sep '.' _ h hd.1, splitOn_append_sep '.' _ p hd.2.1, splitOn_no_sep '.' x hx]
  unfold decode
  rw [split s hd.2.2.1, split s' hd.2.2.2]
  simp only [hb]

end Jwt.C01

/-! ### Non-vacuity: a concrete token the model accepts (toy signature scheme that accepts everything) -/
namespace Jwt.C01
open Jwt
private def toyCrypto : Crypto := { verify := fun _ _ _ => true }
private def sampleToken : Str := "eyJ0eXAiOiJKV1QiLCJhbGciOiJlZDI1NTE5LW5rZXkifQ.eyJpc3MiOiJBQUJRVUVJWUQ0VEMyTkIzSUpFVkFWMjZNVldIRzZVQlJDSFpOSE5FVk9aTFRRR0haM0s1WTJUVSIsInN1YiI6IngiLCJuYXRzIjp7InR5cGUiOiJ1c2VyIiwidmVyc2lvbiI6Mn19.AAAA".toList
set_option maxRecDepth 100000 in
example : (decode toyCrypto sampleToken).isOk = true := by decide
end Jwt.C01
