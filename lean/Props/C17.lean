import JwtProofs.Conc
import JwtModel.Gen.Globals
/-!
# C17 — no hidden shared state: concurrent use on separate claims is race-free
## (partial: the logic is proved, the runtime is named)

What a model can carry: data-race freedom and sequential equivalence follow from *footprints*. The theorems
below are generic (any locations, any values, any number of threads, every interleaving). They are applied to
facts *extracted from /repo on every run* (`Gen/Globals.lean`): the package-level variables, who writes them,
whether any goroutine / `sync` / `unsafe` is used, and which methods store through their receiver.
The correspondence side is the `-race` soak (racesoak/), which validates the extracted facts dynamically.

Not modelled (trusted / named as the runtime part): the Go memory model and scheduler, synchronisation inside
the standard library (`encoding/json`'s type cache, `regexp`'s machine pool, `reflect`, `fmt`), and the
syntactic footprint extraction itself (conservative: what it cannot classify counts as a write).
-/
namespace Jwt.C17
open Jwt.Conc

variable {Loc Val : Type}

/-- each goroutine owns a region; there is a shared region nobody writes -/
structure Regions (Loc : Type) where
  owner : Loc → Option Nat      -- `some i` = owned by goroutine i, `none` = shared
/-- a step of goroutine `i`: writes only what `i` owns, reads what `i` owns or what is shared -/
def StepOf (rg : Regions Loc) (i : Nat) (a : Step Loc Val) : Prop :=
  (∀ l, a.W l → rg.owner l = some i) ∧ (∀ l, a.R l → rg.owner l = some i ∨ rg.owner l = none)

/-- **Disjoint footprints are independent.** Steps of different goroutines that write only their own objects and
read only their own objects or shared read-only ones satisfy Bernstein's condition. -/
theorem owned_steps_indep (rg : Regions Loc) (i j : Nat) (hij : i ≠ j) (a b : Step Loc Val)
    (ha : StepOf rg i a) (hb : StepOf rg j b) : Indep a b := by
  constructor
  · intro l hw hrw
    have hi := ha.1 l hw
    rcases hrw with hr | hw'
    · rcases hb.2 l hr with h | h <;> rw [hi] at h <;> simp at h; exact hij h
    · have := hb.1 l hw'; rw [hi] at this; simp at this; exact hij this
  · intro l hw hrw
    have hj := hb.1 l hw
    rcases hrw with hr | hw'
    · rcases ha.2 l hr with h | h <;> rw [hj] at h <;> simp at h; exact hij h.symm
    · have := ha.1 l hw'; rw [hj] at this; simp at this; exact hij this.symm

/-- threads indexed by position, each made of steps of its own goroutine -/
def OwnThreads (rg : Regions Loc) : Nat → List (List (Step Loc Val)) → Prop
  | _, [] => True
  | i, t :: ts => (∀ a ∈ t, StepOf rg i a) ∧ OwnThreads rg (i + 1) ts

theorem ownThreads_mem (rg : Regions Loc) : ∀ (ths : List (List (Step Loc Val))) (i : Nat), OwnThreads rg i ths →
    ∀ u ∈ ths, ∃ j, i ≤ j ∧ ∀ a ∈ u, StepOf rg j a := by
  intro ths
  induction ths with
  | nil => intro i _ u hu; cases hu
  | cons t ts ih =>
    intro i h u hu
    simp only [List.mem_cons] at hu
    rcases hu with rfl | hu
    · exact ⟨i, Nat.le_refl _, h.1⟩
    · obtain ⟨j, hj, hs⟩ := ih (i + 1) h.2 u hu
      exact ⟨j, by omega, hs⟩

theorem ownThreads_pairwise (rg : Regions Loc) : ∀ (ths : List (List (Step Loc Val))) (i : Nat),
    OwnThreads rg i ths → PairwiseIndep ths := by
  intro ths
  induction ths with
  | nil => intro _ _; exact List.Pairwise.nil
  | cons t ts ih =>
    intro i h
    unfold PairwiseIndep
    rw [List.pairwise_cons]
    refine ⟨?_, ih (i + 1) h.2⟩
    intro u hu a ha b hb
    obtain ⟨j, hj, hs⟩ := ownThreads_mem rg ts (i + 1) h.2 u hu
    exact owned_steps_indep rg i j (by omega) a b (h.1 a ha) (hs b hb)

/-- **Sequential equivalence.** N goroutines, each working on its own objects and reading shared ones: every
interleaving ends in the state of running the goroutines one after the other. -/
theorem disjoint_seq_equiv (rg : Regions Loc) (ths : List (List (Step Loc Val))) (s : List (Step Loc Val))
    (hown : OwnThreads rg 0 ths) (hil : InterleaveN ths s) (h : Heap Loc Val) :
    exec s h = exec ths.flatten h :=
  interleaveN_seq_equiv ths s hil (ownThreads_pairwise rg ths 0 hown) h

/-- **Race freedom.** … and no two steps of different goroutines conflict. -/
theorem disjoint_no_race (rg : Regions Loc) (ths : List (List (Step Loc Val))) (hown : OwnThreads rg 0 ths) :
    ths.Pairwise (fun t u => ∀ a ∈ t, ∀ b ∈ u, ¬ Conflict a b) :=
  interleaveN_no_race ths (ownThreads_pairwise rg ths 0 hown)

/-! ### The facts the theorems are applied to (regenerated from /repo on every run) -/

/-- package-level state that is immutable after initialisation and documented safe for concurrent use -/
def allowedGlobals : List String := ["userConfigRE : *regexp.Regexp"]

/-- the operations the property lists as read-only queries on a shared object -/
def readOnlyQueries : List String := [
  "OperatorClaims.String", "AccountClaims.String", "UserClaims.String", "ActivationClaims.String", "GenericClaims.String",
  "OperatorClaims.ClaimType", "AccountClaims.ClaimType", "UserClaims.ClaimType", "ActivationClaims.ClaimType", "GenericClaims.ClaimType",
  "OperatorClaims.Payload", "AccountClaims.Payload", "UserClaims.Payload", "ActivationClaims.Payload",
  "OperatorClaims.Claims", "AccountClaims.Claims", "UserClaims.Claims", "ActivationClaims.Claims",
  "OperatorClaims.ExpectedPrefixes", "AccountClaims.ExpectedPrefixes", "UserClaims.ExpectedPrefixes", "ActivationClaims.ExpectedPrefixes",
  "OperatorClaims.DidSign", "AccountClaims.DidSign", "AccountClaims.IsClaimRevoked", "Export.IsClaimRevoked",
  "RevocationList.IsRevoked", "Exports.HasExportContainingSubject", "ActivationClaims.HashID",
  "StringList.Contains", "TagList.Contains", "SigningKeys.Contains", "SigningKeys.Keys", "SigningKeys.GetScope",
  "ValidationResults.IsBlocking", "UserClaims.HasEmptyPermissions", "UserClaims.GetTags", "AccountClaims.GetTags",
  "ClaimsData.IsSelfSigned", "Subject.IsContainedIn", "Subject.HasWildCards"]

/-- **Generated obligations.** In today's source: (i) the only package-level variables are on the allow-list,
(ii) no function assigns to them, takes their address or calls a pointer method on them, (iii) no goroutine is
started and neither `sync`, `sync/atomic` nor `unsafe` is imported, (iv) none of the read-only queries stores
through its receiver. -/
theorem gen_no_shared_state :
    Gen.v2Globals.all (allowedGlobals.contains ·) = true ∧ Gen.v1Globals.all (allowedGlobals.contains ·) = true ∧
    Gen.v2GlobalWriters = [] ∧ Gen.v1GlobalWriters = [] ∧
    Gen.v2GoStatements = [] ∧ Gen.v1GoStatements = [] ∧
    Gen.v2SyncUnsafeImports = [] ∧ Gen.v1SyncUnsafeImports = [] ∧
    readOnlyQueries.all (fun q => !Gen.v2ReceiverWriters.contains q) = true := by
  decide

/-! ### Non-vacuity: two goroutines incrementing their own counters while reading a shared constant -/
private def incr (me shared : Nat) : Step Nat Nat where
  R := fun l => l = me ∨ l = shared
  W := fun l => l = me
  f := fun h l => if l = me then h me + h shared else h l
  frame := by intro h l hl; simp [hl]
  dep := by
    intro h h' hh l hl
    simp only [hl, if_true]
    rw [hh me (Or.inl (Or.inl rfl)), hh shared (Or.inl (Or.inr rfl))]
private def rg2 : Regions Nat := ⟨fun l => if l = 1 then some 0 else if l = 2 then some 1 else none⟩
example : StepOf rg2 0 (incr 1 0) ∧ StepOf rg2 1 (incr 2 0) := by
  refine ⟨⟨?_, ?_⟩, ⟨?_, ?_⟩⟩ <;> intro l hl <;> simp [incr, rg2] at * <;> (try rcases hl with rfl | rfl) <;> simp_all

end Jwt.C17
