import JwtProofs.CodecRT
import JwtProofs.CodecEq
import JwtProofs.CodecCheck
import JwtModel.V1
import JwtModel.Encode
/-!
# The codec round trip on today's schemas

`JwtProofs/CodecRT.lean` proves, for *any* schema and any value, that `unmarshal (marshal v) = overlay v`.
This file instantiates it on the schemas generated from /repo on this run and states what `overlay` means for a
user of the library: decoding what was encoded gives the value back up to (i) nil-versus-empty containers and
strings (what `omitempty` cannot tell apart), (ii) the order of map entries, (iii) canonicalised free-form data.
-/
namespace Jwt.CodecRoundTrip
open Jwt Jwt.Codec List

/-! ### a decidable version of `BaseOk` (to discharge it on concrete targets) -/
mutual
def baseOkB : Ty → Val → Bool
  | .slice _, b => !isLoadedContainer b
  | .map _, b => !isLoadedContainer b
  | .struct fs, .struct cur => decide (cur.map (·.1) = fs.map (·.1)) && baseOkValsB fs cur
  | .struct _, _ => false
  | .ptr t, .ptr b => baseOkB t b
  | .custom .signingKeys, .nil => true
  | .custom .signingKeys, .map [] => true
  | .custom .signingKeys, _ => false
  | _, _ => true
def baseOkValsB : List (Str × Bool × Ty) → List (Str × Val) → Bool
  | _, [] => true
  | fs, (k, b) :: cur =>
    (match fieldType fs k with
     | some (_, t) => baseOkB t b
     | none => true) && baseOkValsB fs cur
end

mutual
theorem baseOkB_sound : ∀ (t : Ty) (b : Val), baseOkB t b = true → BaseOk t b
  | .slice _, b, h => by simpa [baseOkB, BaseOk] using h
  | .map _, b, h => by simpa [baseOkB, BaseOk] using h
  | .struct fs, .struct cur, h => by
    simp only [baseOkB, Bool.and_eq_true, decide_eq_true_eq] at h
    simp only [BaseOk]
    exact ⟨h.1, baseOkValsB_sound fs cur h.2⟩
  | .struct _, .nil, h => by simp [baseOkB] at h
  | .struct _, .bool _, h => by simp [baseOkB] at h
  | .struct _, .str _, h => by simp [baseOkB] at h
  | .struct _, .int _, h => by simp [baseOkB] at h
  | .struct _, .ptr _, h => by simp [baseOkB] at h
  | .struct _, .list _, h => by simp [baseOkB] at h
  | .struct _, .map _, h => by simp [baseOkB] at h
  | .struct _, .any _, h => by simp [baseOkB] at h
  | .ptr t, .ptr b, h => by
    simp only [baseOkB] at h
    simp only [BaseOk]
    exact baseOkB_sound t b h
  | .ptr _, .nil, _ => by simp [BaseOk]
  | .ptr _, .bool _, _ => by simp [BaseOk]
  | .ptr _, .str _, _ => by simp [BaseOk]
  | .ptr _, .int _, _ => by simp [BaseOk]
  | .ptr _, .list _, _ => by simp [BaseOk]
  | .ptr _, .map _, _ => by simp [BaseOk]
  | .ptr _, .struct _, _ => by simp [BaseOk]
  | .ptr _, .any _, _ => by simp [BaseOk]
  | .custom .signingKeys, b, h => by
    simp only [BaseOk]
    cases b with
    | nil => exact Or.inl rfl
    | map m => cases m with
      | nil => exact Or.inr rfl
      | cons _ _ => simp [baseOkB] at h
    | _ => simp [baseOkB] at h
  | .custom .exportType, _, _ => by simp [BaseOk]
  | .custom .samplingRate, _, _ => by simp [BaseOk]
  | .custom .scopeType, _, _ => by simp [BaseOk]
  | .custom .cidrList, _, _ => by simp [BaseOk]
  | .bool, _, _ => by simp [BaseOk]
  | .str, _, _ => by simp [BaseOk]
  | .int _ _, _, _ => by simp [BaseOk]
  | .any, _, _ => by simp [BaseOk]
theorem baseOkValsB_sound : ∀ (fs : List (Str × Bool × Ty)) (cur : List (Str × Val)), baseOkValsB fs cur = true → BaseOkVals fs cur
  | _, [], _ => by simp [BaseOkVals]
  | fs, (k, b) :: cur, h => by
    simp only [baseOkValsB, Bool.and_eq_true] at h
    simp only [BaseOkVals]
    refine ⟨?_, baseOkValsB_sound fs cur h.2⟩
    cases hft : fieldType fs k with
    | none => trivial
    | some ot =>
      obtain ⟨om, t⟩ := ot
      have h1 := h.1
      rw [hft] at h1
      exact baseOkB_sound t b h1
end

/-! ### the environment of the signing-key codec, on the generated `UserScope` -/
/-- fuel slack of the scope type -/
def scopeSlack : Nat := slack 0 Gen.V2.UserScope

theorem scopeSlack_ok : slack scopeSlack codecEnv.userScope ≤ scopeSlack := by decide

theorem gen_envOk : EnvOk codecEnv where
  ty := by decide
  simp := by decide
  base := baseOkB_sound _ _ (by decide)
  shape := ⟨_, rfl, rfl, rfl⟩

/-! ### the theorem on the generated schemas -/

/-- **Closed form.** For any schema with pairwise different struct keys (and fuel to spare), any well-typed value
and any well-formed decode target: decoding what was encoded succeeds and yields `overlay t base v`. -/
theorem codec_roundtrip (t : Ty) (v base : Val) (j : Json)
    (hty : tyOk t = true) (hfuel : fuel + slack scopeSlack t ≤ decFuel)
    (hwt : WT codecEnv t v) (hb : BaseOk t base) (hm : marshal codecEnv fuel t v = .ok j) :
    unmarshal codecEnv decFuel t j base = .ok (overlay codecEnv t base v) :=
  unmarshal_marshal codecEnv scopeSlack gen_envOk scopeSlack_ok fuel decFuel t v j base hm hty hwt hb hfuel

/-- **Lossless.** … and the decoded value is the encoded one up to nil-versus-empty containers, the order of map
entries and canonicalised free-form data, provided the decode target already agrees with every field that
`omitempty` drops (`Covers`). -/
theorem codec_lossless (t : Ty) (v base : Val) (j : Json)
    (hty : tyOk t = true) (hfuel : fuel + slack scopeSlack t ≤ decFuel)
    (hfull : Full codecEnv t v) (hwt : WT codecEnv t v) (hb : BaseOk t base) (hc : Covers codecEnv t base v)
    (hm : marshal codecEnv fuel t v = .ok j) :
    ∃ r, unmarshal codecEnv decFuel t j base = .ok r ∧ VEq r v :=
  ⟨_, codec_roundtrip t v base j hty hfuel hwt hb hm, overlay_veq codecEnv gen_envOk t base v hty hfull hwt hb hc⟩

/-- … in particular when the target is the zero value and the type holds no signing-key set -/
theorem codec_lossless_zero (t : Ty) (v : Val) (j : Json)
    (hty : tyOk t = true) (hnk : noKeys t = true) (hfuel : fuel + slack scopeSlack t ≤ decFuel)
    (hfull : Full codecEnv t v) (hwt : WT codecEnv t v) (hm : marshal codecEnv fuel t v = .ok j) :
    ∃ r, unmarshal codecEnv decFuel t j (zero t) = .ok r ∧ VEq r v :=
  codec_lossless t v (zero t) j hty hfuel hfull hwt (baseOk_zero t hty) (covers_zero codecEnv t v hnk hty hfull) hm

/-- **Generated obligation.** Every claims schema of today's v2 source (and the `UserScope` type) has pairwise
different JSON keys at every struct level, pointers only to structs, and leaves the decoder fuel to spare. -/
theorem gen_v2_schemas_ok : ∀ k : Kind, tyOk (schemaOf k) = true ∧ fuel + slack scopeSlack (schemaOf k) ≤ decFuel := by
  intro k; cases k <;> exact ⟨by decide, by decide⟩

/-- all kinds but the account carry no scoped signing keys: the zero target covers them -/
theorem gen_v2_noKeys : ∀ k : Kind, k ≠ .account → noKeys (schemaOf k) = true := by
  intro k hk; cases k <;> first | exact absurd rfl hk | decide

/-- **Generated obligation (v1compat).** The same for the seven claim types of the bundled version-1 library. -/
theorem gen_v1_schemas_ok : ∀ k : V1.Kind, tyOk (V1.schemaOf k) = true ∧ noKeys (V1.schemaOf k) = true ∧
    fuel + slack scopeSlack (V1.schemaOf k) ≤ decFuel := by
  intro k; cases k <;> exact ⟨by decide, by decide, by decide⟩

/-- the target the account decoder starts from (`v2a.SigningKeys = make(SigningKeys)`) is well-formed -/
def accountBase : Val := setNats (zero Gen.V2.AccountClaims) (fun n => n.set "signing_keys" (.map []))
theorem gen_accountBase_ok : BaseOk Gen.V2.AccountClaims accountBase := baseOkB_sound _ _ (by decide)

/-- **C03, payload level, every kind but account.** What `Encode` serialises decodes — through the same
schema, from the zero target, as `loadTyped` does for version 2 — to the same claims. -/
theorem v2_payload_lossless (k : Kind) (hk : k ≠ .account) (v : Val) (j : Json)
    (hfull : Full codecEnv (schemaOf k) v) (hwt : WT codecEnv (schemaOf k) v)
    (hm : marshal codecEnv fuel (schemaOf k) v = .ok j) :
    ∃ r, decodeJson (schemaOf k) (zero (schemaOf k)) j = .ok r ∧ VEq r v := by
  obtain ⟨r, h1, h2⟩ := codec_lossless_zero (schemaOf k) v j (gen_v2_schemas_ok k).1 (gen_v2_noKeys k hk)
    (gen_v2_schemas_ok k).2 hfull hwt hm
  exact ⟨r, by simp [decodeJson, h1, liftRes], h2⟩

/-- **C03 / C14, payload level, account claims** (plain and scoped signing keys): the decoder's target is
`accountBase`; scopes are decoded over `NewUserScope()`, so the hypothesis `Covers` is exactly "no scope
template carries a zero limit" (known finding K2) — everything else is covered by construction. -/
theorem v2_account_payload_lossless (v : Val) (j : Json)
    (hfull : Full codecEnv Gen.V2.AccountClaims v) (hwt : WT codecEnv Gen.V2.AccountClaims v)
    (hc : Covers codecEnv Gen.V2.AccountClaims accountBase v)
    (hm : marshal codecEnv fuel Gen.V2.AccountClaims v = .ok j) :
    ∃ r, decodeJson Gen.V2.AccountClaims accountBase j = .ok r ∧ VEq r v := by
  obtain ⟨r, h1, h2⟩ := codec_lossless Gen.V2.AccountClaims v accountBase j (gen_v2_schemas_ok .account).1
    (gen_v2_schemas_ok .account).2 hfull hwt gen_accountBase_ok hc hm
  exact ⟨r, by simp [decodeJson, h1, liftRes], h2⟩

/-- **C19, payload level.** The bundled v1 library decodes what it encodes, for all seven claim types. -/
theorem v1_payload_lossless (k : V1.Kind) (v : Val) (j : Json)
    (hfull : Full codecEnv (V1.schemaOf k) v) (hwt : WT codecEnv (V1.schemaOf k) v)
    (hm : marshal codecEnv fuel (V1.schemaOf k) v = .ok j) :
    ∃ r, decodeJson (V1.schemaOf k) (zero (V1.schemaOf k)) j = .ok r ∧ VEq r v := by
  obtain ⟨h1, h2, h3⟩ := gen_v1_schemas_ok k
  obtain ⟨r, e1, e2⟩ := codec_lossless_zero (V1.schemaOf k) v j h1 h2 h3 hfull hwt hm
  exact ⟨r, by simp [decodeJson, e1, liftRes], e2⟩

/-- **C14.** A scope survives the signing-key codec with key, role, description and template intact whenever its
template carries no zero limit (`Covers … userScopeBase`); this is the per-scope content of the account theorem. -/
theorem scope_lossless (s : Val) (j : Json)
    (hfull : Full codecEnv Gen.V2.UserScope s) (hwt : WT codecEnv Gen.V2.UserScope s)
    (hc : Covers codecEnv Gen.V2.UserScope userScopeBase s)
    (hm : marshal codecEnv fuel Gen.V2.UserScope s = .ok j) :
    ∃ r, unmarshal codecEnv decFuel Gen.V2.UserScope j userScopeBase = .ok r ∧ VEq r s :=
  codec_lossless Gen.V2.UserScope s userScopeBase j gen_envOk.ty (by decide) hfull hwt gen_envOk.base hc hm

/-! ### Non-vacuity: a concrete account with an export (and a revocation on it), a mapping-free nats section,
a revocation, a plain and a scoped signing key meets every hypothesis, and `marshal` succeeds on it -/
def exKeyA : Str := "AAAAAAAAAAAAAAAAAAAAAAAAAAAAAAAAAAAAAAAAAAAAAAAAAAAAAAAA".toList
def exKeyB : Str := "ABBBBBBBBBBBBBBBBBBBBBBBBBBBBBBBBBBBBBBBBBBBBBBBBBBBBBBB".toList

/-- `NewUserScope()` with key, role and a permission set -/
def exScope : Val :=
  let s := (userScopeBase.set "key" (.str exKeyB)).set "role" (.str "admin".toList)
  s.set "template" (((s.field "template").set "pub"
      ((((s.field "template").field "pub").set "allow" (.list [.str "a.>".toList])))).set "bearer_token" (.bool true))

def exExport : Val :=
  (((zero Gen.V2.Export).set "subject" (.str "foo.>".toList)).set "type" (.int 1)).set "revocations"
    (.map [("*".toList, .int 5), (exKeyA, .int 7)])

def exAccount : Val :=
  let z := zero Gen.V2.AccountClaims
  let nats := ((((((z.field "nats").set "type" (.str Gen.V2.cAccountClaim)).set "version" (.int 2)).set "exports"
      (.list [.ptr exExport])).set "signing_keys" (.map [(exKeyB, .ptr exScope), (exKeyA, .nil)])).set "revocations"
      (.map [(exKeyA, .int 100)])).set "limits" ((((z.field "nats").field "limits").set "subs" (.int (-1))).set "conn" (.int 10))
  (((z.set "sub" (.str exKeyA)).set "iss" (.str exKeyA)).set "iat" (.int 1700000000)).set "nats" nats

set_option maxRecDepth 100000 in
example : fullB codecEnv Gen.V2.AccountClaims exAccount = true := by decide
set_option maxRecDepth 100000 in
example : wtB codecEnv Gen.V2.AccountClaims exAccount = true := by decide
set_option maxRecDepth 100000 in
example : coversB codecEnv Gen.V2.AccountClaims accountBase exAccount = true := by decide

/-- a user with permissions, a response permission, source networks, a time range and limits -/
def exUser : Val :=
  let z := zero Gen.V2.UserClaims
  let n := z.field "nats"
  let nats := ((((((((n.set "type" (.str Gen.V2.cUserClaim)).set "version" (.int 2)).set "pub"
      ((n.field "pub").set "allow" (.list [.str "a.>".toList, .str "b".toList]))).set "resp"
      (.ptr (((zero Gen.V2.ResponsePermission).set "max" (.int 3)).set "ttl" (.int 1000000000)))).set "src"
      (.list [.str "10.0.0.0/8".toList])).set "times"
      (.list [((zero Gen.V2.TimeRange).set "start" (.str "08:00:00".toList)).set "end" (.str "17:00:00".toList)])).set
      "subs" (.int (-1))).set "data" (.int 1024)).set "issuer_account" (.str exKeyA)
  (((z.set "sub" (.str exKeyB)).set "iss" (.str exKeyA)).set "iat" (.int 1700000000)).set "nats" nats

set_option maxRecDepth 100000 in
example : fullB codecEnv Gen.V2.UserClaims exUser = true := by decide
set_option maxRecDepth 100000 in
example : wtB codecEnv Gen.V2.UserClaims exUser = true := by decide
set_option maxRecDepth 100000 in
/-- the encoder succeeds on it (evaluated in the kernel; values with maps or signing keys go through
`List.mergeSort`, which the kernel does not unfold — their encodability is exercised by the correspondence run) -/
example : (marshal codecEnv fuel Gen.V2.UserClaims exUser).isOk = true := by decide

/-- hence the theorem applies to it -/
example (j : Json) (hm : marshal codecEnv fuel Gen.V2.UserClaims exUser = .ok j) :
    ∃ r, decodeJson Gen.V2.UserClaims (zero Gen.V2.UserClaims) j = .ok r ∧ VEq r exUser :=
  v2_payload_lossless .user (by decide) exUser j (fullB_sound _ _ _ (by decide)) (wtB_sound _ _ _ (by decide)) hm

/-- and the account theorem applies to the account above, scoped signing key included -/
example (j : Json) (hm : marshal codecEnv fuel Gen.V2.AccountClaims exAccount = .ok j) :
    ∃ r, decodeJson Gen.V2.AccountClaims accountBase j = .ok r ∧ VEq r exAccount :=
  v2_account_payload_lossless exAccount j (fullB_sound _ _ _ (by decide)) (wtB_sound _ _ _ (by decide))
    (coversB_sound _ _ _ _ (by decide)) hm

/-- **Known finding K2 as a theorem-level fact**: a scope whose template carries a zero limit is *not* covered by
`NewUserScope()` — the checker refuses it, and the closed form shows the limit coming back as −1. -/
def exScopeZero : Val := exScope.set "template" ((exScope.field "template").set "subs" (.int 0))
set_option maxRecDepth 100000 in
example : coversB codecEnv Gen.V2.UserScope userScopeBase exScopeZero = false := by decide
set_option maxRecDepth 100000 in
example : (((overlay codecEnv Gen.V2.UserScope userScopeBase exScopeZero).field "template").field "subs").asInt = -1 := by
  decide

end Jwt.CodecRoundTrip
