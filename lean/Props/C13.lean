import JwtModel.Encode
import Props.FnTie
import Props.Utf8Order
/-!
# C13 — encoding is deterministic and independent of map / insertion order

Model: every Go map is an association list in *arbitrary* order (the runtime's iteration order / the
caller's insertion order); `marshal` sorts map entries by key (`encoding/json` for native maps,
`SigningKeys.MarshalJSON`'s `sort.Strings`), free-form data goes through `canonAny`. The theorems say the
serialised form does not depend on that order; `encode` is a function of (clock, key, claims).
Tied to the code by the correspondence stream `C13` (real tokens for randomly ordered insertions and
repeated encodes must equal each other and the model's token).
-/
namespace Jwt.C13
open Jwt Jwt.Codec List

theorem strLe_iff (a b : Str) : strLe a b = true ↔ a ≤ b := by
  unfold strLe
  simp [List.not_lt]

theorem strLe_trans (a b c : Str) (h1 : strLe a b = true) (h2 : strLe b c = true) : strLe a c = true := by
  rw [strLe_iff] at *; exact List.le_trans h1 h2
theorem strLe_total (a b : Str) : (strLe a b || strLe b a) = true := by
  rw [Bool.or_eq_true, strLe_iff, strLe_iff]; exact List.le_total a b
theorem strLe_antisymm (a b : Str) (h1 : strLe a b = true) (h2 : strLe b a = true) : a = b := by
  rw [strLe_iff] at *; exact List.le_antisymm h1 h2

theorem entry_unique {V : Type} : ∀ (l : List (Str × V)), (l.map (·.1)).Nodup → ∀ a b, a ∈ l → b ∈ l → a.1 = b.1 → a = b := by
  intro l
  induction l with
  | nil => intro _ a b ha; cases ha
  | cons x r ih =>
    intro hnd a b ha' hb' hk
    simp only [map_cons, nodup_cons, mem_map, not_exists, not_and] at hnd
    simp only [mem_cons] at ha' hb'
    rcases ha' with rfl | ha' <;> rcases hb' with rfl | hb'
    · rfl
    · exact absurd hk.symm (hnd.1 b hb')
    · exact absurd hk (hnd.1 a ha')
    · exact ih hnd.2 a b ha' hb' hk

/-- **Core.** Any two iteration / insertion orders of the same map (distinct keys) sort to the same list. -/
theorem sortByKey_perm_invariant {V : Type} (l l' : List (Str × V)) (hp : l ~ l') (hnd : (l.map (·.1)).Nodup) :
    sortByKey l = sortByKey l' := by
  unfold sortByKey
  have tr : ∀ a b c : Str × V, (fun p q : Str × V => strLe p.1 q.1) a b → (fun p q : Str × V => strLe p.1 q.1) b c →
      (fun p q : Str × V => strLe p.1 q.1) a c := fun a b c => strLe_trans a.1 b.1 c.1
  have tot : ∀ a b : Str × V, ((fun p q : Str × V => strLe p.1 q.1) a b || (fun p q : Str × V => strLe p.1 q.1) b a) = true :=
    fun a b => strLe_total a.1 b.1
  have s1 := pairwise_mergeSort tr tot l
  have s2 := pairwise_mergeSort tr tot l'
  have p1 := mergeSort_perm l (fun p q => strLe p.1 q.1)
  have p2 := mergeSort_perm l' (fun p q => strLe p.1 q.1)
  have pp : mergeSort l (fun p q => strLe p.1 q.1) ~ mergeSort l' (fun p q => strLe p.1 q.1) :=
    p1.trans (hp.trans p2.symm)
  refine Perm.eq_of_pairwise (le := fun p q => strLe p.1 q.1 = true) ?_ s1 s2 pp
  intro a b ha hb hab hba
  have hk : a.1 = b.1 := strLe_antisymm a.1 b.1 hab hba
  have ha' : a ∈ l := p1.subset ha
  have hb' : b ∈ l := (hp.symm.subset (p2.subset hb))
  exact entry_unique l hnd a b ha' hb' hk

/-- **Native maps** (revocations, mappings, limit tiers, generic data): the JSON does not depend on the
order of the entries. -/
theorem marshal_map_order_free (env : CodecEnv) (f : Nat) (t : Ty) (kvs kvs' : List (Str × Val)) (hp : kvs ~ kvs')
    (hnd : (kvs.map (·.1)).Nodup) :
    marshal env (f+1) (.map t) (.map kvs) = marshal env (f+1) (.map t) (.map kvs') := by
  simp only [marshal, sortByKey_perm_invariant kvs kvs' hp hnd]

/-- **Signing keys** (plain and scoped, `SigningKeys.MarshalJSON` sorts the keys): the JSON does not depend on
insertion order. -/
theorem marshal_signingKeys_order_free (env : CodecEnv) (f : Nat) (kvs kvs' : List (Str × Val)) (hp : kvs ~ kvs')
    (hnd : (kvs.map (·.1)).Nodup) :
    marshal env (f+1) (.custom .signingKeys) (.map kvs) = marshal env (f+1) (.custom .signingKeys) (.map kvs') := by
  have he : kvs.isEmpty = kvs'.isEmpty := by
    cases kvs <;> cases kvs' <;> simp_all
  simp only [marshal, sortByKey_perm_invariant kvs kvs' hp hnd, he]

/-- sorting is idempotent: an already serialised order is a fixed point -/
theorem sortByKey_idem {V : Type} (l : List (Str × V)) (hnd : (l.map (·.1)).Nodup) : sortByKey (sortByKey l) = sortByKey l :=
  (sortByKey_perm_invariant l (sortByKey l) (mergeSort_perm l _).symm hnd).symm

/-- free-form data: object members are sorted at every depth before rendering, so two insertion orders of
one object (distinct keys) render identically -/
theorem canonAny_obj_order_free (f : Nat) (kv kv' : List (Str × Json))
    (h : sortByKey (kv.foldl (fun m (e : Str × Json) => mapStore m e.1 (canonAny f e.2)) []) =
         sortByKey (kv'.foldl (fun m (e : Str × Json) => mapStore m e.1 (canonAny f e.2)) [])) :
    canonAny (f+1) (.obj kv) = canonAny (f+1) (.obj kv') := by
  simp only [canonAny, h]

/-- **Determinism.** `Encode` is a function of the clock second, the key and the claims content: the same
inputs give the same token (Ed25519 signing is deterministic: `signB64` is a function). -/
theorem encode_deterministic (env : EncEnv) (k : Kind) (v w : Val) (h : v = w) :
    encode env k v = encode env k w := by rw [h]

/-! ### Non-vacuity -/
example : sortByKey [("b".toList, 1), ("a".toList, 2)] = sortByKey [("a".toList, 2), ("b".toList, (1 : Nat))] :=
  sortByKey_perm_invariant _ _ (List.Perm.swap _ _ _) (by decide)

end Jwt.C13
