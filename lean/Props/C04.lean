import Props.FnTie
import JwtProofs.Decode
import JwtProofs.Val
import JwtModel.Encode
/-!
# C04 — version-1 tokens migrate to version 2 without losing meaning

Model: `loadClaims` / `loadTyped` with the generated *shadow* schemas (`Gen.V2.v1OperatorClaims`, …) and the four
`migrate*` functions (JwtModel/Decode.lean), tied to the code by the correspondence stream `C04` (real v1compat
tokens through the real v2 decoder and through the model) and its independently written expected mapping.

The specification of "meaning" is written here as a table: which v2 field receives which v1 field. The theorems
say each `migrate*` realises that table, stamps version 1, and leaves every v2-only field at its zero value.
-/
namespace Jwt.C04
open Jwt Jwt.Codec

/-- a v1 payload as the shadow schema sees it: has the standard fields, the re-homed ones and a `nats` section -/
def stdKeys : List String := ["aud", "exp", "jti", "iat", "iss", "name", "nbf", "sub"]

theorem std_carried_operator (v1 : Val) (k : String) (hk : k ∈ stdKeys) : (migrateOperator v1).field k = v1.field k := by
  simp only [stdKeys, List.mem_cons, List.not_mem_nil, or_false] at hk
  unfold migrateOperator
  rcases hk with rfl | rfl | rfl | rfl | rfl | rfl | rfl | rfl <;>
  · rw [Val.field_set_ne _ _ _ _ (by decide), copyFrom_carried _ _ _ _ (by decide) (by decide)]

theorem std_carried_account (v1 : Val) (k : String) (hk : k ∈ stdKeys) : (migrateAccount v1).field k = v1.field k := by
  simp only [stdKeys, List.mem_cons, List.not_mem_nil, or_false] at hk
  unfold migrateAccount
  rcases hk with rfl | rfl | rfl | rfl | rfl | rfl | rfl | rfl <;>
  · rw [Val.field_set_ne _ _ _ _ (by decide), copyFrom_carried _ _ _ _ (by decide) (by decide)]

theorem std_carried_user (v1 : Val) (k : String) (hk : k ∈ stdKeys) : (migrateUser v1).field k = v1.field k := by
  simp only [stdKeys, List.mem_cons, List.not_mem_nil, or_false] at hk
  unfold migrateUser
  rcases hk with rfl | rfl | rfl | rfl | rfl | rfl | rfl | rfl <;>
  · rw [Val.field_set_ne _ _ _ _ (by decide), copyFrom_carried _ _ _ _ (by decide) (by decide)]

theorem std_carried_activation (v1 : Val) (k : String) (hk : k ∈ stdKeys) : (migrateActivation v1).field k = v1.field k := by
  simp only [stdKeys, List.mem_cons, List.not_mem_nil, or_false] at hk
  unfold migrateActivation
  rcases hk with rfl | rfl | rfl | rfl | rfl | rfl | rfl | rfl <;>
  · rw [Val.field_set_ne _ _ _ _ (by decide), copyFrom_carried _ _ _ _ (by decide) (by decide)]

/-- **Kind, tags and version.** The top-level `type` and `tags` of a v1 payload move into the `nats` section and the
migrated claims report version 1. -/
theorem rehome (nats v1 : Val) (h : nats.hasKey "type" = true ∧ nats.hasKey "tags" = true ∧ nats.hasKey "version" = true) :
    (rehomeV1 nats v1).field "type" = v1.field "type" ∧ (rehomeV1 nats v1).field "tags" = v1.field "tags" ∧
    (rehomeV1 nats v1).field "version" = .int 1 := by
  unfold rehomeV1
  refine ⟨?_, ?_, ?_⟩
  · rw [Val.field_set_ne _ _ _ _ (by decide), Val.field_set_ne _ _ _ _ (by decide), Val.field_set_eq _ _ _ h.1]
  · rw [Val.field_set_ne _ _ _ _ (by decide), Val.field_set_eq _ _ _ (by rw [Val.hasKey_set]; exact h.2.1)]
  · rw [Val.field_set_eq _ _ _ (by rw [Val.hasKey_set, Val.hasKey_set]; exact h.2.2)]

theorem rehome_other (nats v1 : Val) (k : String) (hk : k.toList ≠ "type".toList ∧ k.toList ≠ "tags".toList ∧ k.toList ≠ "version".toList) :
    (rehomeV1 nats v1).field k = nats.field k := by
  unfold rehomeV1
  rw [Val.field_set_ne _ _ _ _ hk.2.2, Val.field_set_ne _ _ _ _ hk.2.1, Val.field_set_ne _ _ _ _ hk.1]

/-- the migration table: v2 `nats` field ← v1 source -/
inductive Src where
  | nats (key : String)     -- v1 `nats.<key>`
  | top (key : String)      -- v1 top-level `<key>`
  | zero                    -- no v1 counterpart: the v2 zero value

def Src.get (s : Src) (v1 z : Val) (k : String) : Val :=
  match s with
  | .nats key => (v1.field "nats").field key
  | .top key => v1.field key
  | .zero => (z.field "nats").field k

/-- **Operator.** signing keys, account-server URL, service URLs, system account carried over; the v2-only fields
(asserted server version, strict signing-key usage) zero. -/
theorem migrate_operator_table (v1 : Val) :
    let m := (migrateOperator v1).field "nats"
    m.field "signing_keys" = (v1.field "nats").field "signing_keys" ∧
    m.field "account_server_url" = (v1.field "nats").field "account_server_url" ∧
    m.field "operator_service_urls" = (v1.field "nats").field "operator_service_urls" ∧
    m.field "system_account" = (v1.field "nats").field "system_account" ∧
    m.field "assert_server_version" = .str [] ∧ m.field "strict_signing_key_usage" = .bool false ∧
    m.field "type" = v1.field "type" ∧ m.field "tags" = v1.field "tags" ∧ m.field "version" = .int 1 := by
  simp only [migrateOperator]
  rw [Val.field_set_eq _ _ _ (by rw [copyFrom_hasKey]; decide)]
  have hk : ∀ k, (((zero Gen.V2.OperatorClaims).field "nats").copyFrom (v1.field "nats")
      ["signing_keys", "account_server_url", "operator_service_urls", "system_account"]).hasKey k =
      ((zero Gen.V2.OperatorClaims).field "nats").hasKey k := fun k => copyFrom_hasKey _ _ _ k
  obtain ⟨r1, r2, r3⟩ := rehome (((zero Gen.V2.OperatorClaims).field "nats").copyFrom (v1.field "nats")
      ["signing_keys", "account_server_url", "operator_service_urls", "system_account"]) v1
      ⟨by rw [hk]; decide, by rw [hk]; decide, by rw [hk]; decide⟩
  refine ⟨?_, ?_, ?_, ?_, ?_, ?_, r1, r2, r3⟩
  · rw [rehome_other _ _ _ (by decide), copyFrom_carried _ _ _ _ (by decide) (by decide)]
  · rw [rehome_other _ _ _ (by decide), copyFrom_carried _ _ _ _ (by decide) (by decide)]
  · rw [rehome_other _ _ _ (by decide), copyFrom_carried _ _ _ _ (by decide) (by decide)]
  · rw [rehome_other _ _ _ (by decide), copyFrom_carried _ _ _ _ (by decide) (by decide)]
  · rw [rehome_other _ _ _ (by decide), copyFrom_other _ _ _ _ (by decide)]; rfl
  · rw [rehome_other _ _ _ (by decide), copyFrom_other _ _ _ _ (by decide)]; rfl

/-- **Activation.** granted subject, kind (`type` in v1, `kind` in v2) and issuer account (top-level in v1) carried
over; the deprecated v1 limits (`max`, `payload`, `src`, `times`) are read and dropped. -/
theorem migrate_activation_table (v1 : Val) :
    let m := (migrateActivation v1).field "nats"
    m.field "subject" = (v1.field "nats").field "subject" ∧
    m.field "kind" = (v1.field "nats").field "type" ∧
    m.field "issuer_account" = v1.field "issuer_account" ∧
    m.field "type" = v1.field "type" ∧ m.field "tags" = v1.field "tags" ∧ m.field "version" = .int 1 := by
  simp only [migrateActivation]
  rw [Val.field_set_eq _ _ _ (by rw [copyFrom_hasKey]; decide)]
  obtain ⟨r1, r2, r3⟩ := rehome (((((zero Gen.V2.ActivationClaims).field "nats").set "subject" ((v1.field "nats").field "subject")).set
      "kind" ((v1.field "nats").field "type")).set "issuer_account" (v1.field "issuer_account")) v1
      ⟨by simp only [Val.hasKey_set]; decide, by simp only [Val.hasKey_set]; decide, by simp only [Val.hasKey_set]; decide⟩
  refine ⟨?_, ?_, ?_, r1, r2, r3⟩
  · rw [rehome_other _ _ _ (by decide), Val.field_set_ne _ _ _ _ (by decide), Val.field_set_ne _ _ _ _ (by decide),
      Val.field_set_eq _ _ _ (by decide)]
  · rw [rehome_other _ _ _ (by decide), Val.field_set_ne _ _ _ _ (by decide), Val.field_set_eq _ _ _ (by simp only [Val.hasKey_set]; decide)]
  · rw [rehome_other _ _ _ (by decide), Val.field_set_eq _ _ _ (by simp only [Val.hasKey_set]; decide)]

/-- **User.** permissions (incl. response permission), source networks, time ranges, NATS limits, bearer flag and
issuer account carried over; v2-only fields (locale, allowed connection types) zero; `max` dropped. -/
theorem migrate_user_table (v1 : Val) :
    let m := (migrateUser v1).field "nats"
    (∀ k ∈ ["pub", "sub", "resp", "src", "times", "subs", "data", "payload", "bearer_token"],
        m.field k = (v1.field "nats").field k) ∧
    m.field "issuer_account" = v1.field "issuer_account" ∧
    m.field "allowed_connection_types" = .nil ∧
    m.field "type" = v1.field "type" ∧ m.field "tags" = v1.field "tags" ∧ m.field "version" = .int 1 := by
  simp only [migrateUser]
  rw [Val.field_set_eq _ _ _ (by rw [copyFrom_hasKey]; decide)]
  have hk : ∀ k, ((((zero Gen.V2.UserClaims).field "nats").copyFrom (v1.field "nats")
      ["pub", "sub", "resp", "src", "times", "times_location", "subs", "data", "payload", "bearer_token"]).set
      "issuer_account" (v1.field "issuer_account")).hasKey k = ((zero Gen.V2.UserClaims).field "nats").hasKey k := by
    intro k; rw [Val.hasKey_set, copyFrom_hasKey]
  obtain ⟨r1, r2, r3⟩ := rehome ((((zero Gen.V2.UserClaims).field "nats").copyFrom (v1.field "nats")
      ["pub", "sub", "resp", "src", "times", "times_location", "subs", "data", "payload", "bearer_token"]).set
      "issuer_account" (v1.field "issuer_account")) v1 ⟨by rw [hk]; decide, by rw [hk]; decide, by rw [hk]; decide⟩
  refine ⟨?_, ?_, ?_, r1, r2, r3⟩
  · intro k hkm
    simp only [List.mem_cons, List.not_mem_nil, or_false] at hkm
    rcases hkm with rfl | rfl | rfl | rfl | rfl | rfl | rfl | rfl | rfl <;>
    · rw [rehome_other _ _ _ (by decide), Val.field_set_ne _ _ _ _ (by decide), copyFrom_carried _ _ _ _ (by decide) (by decide)]
  · rw [rehome_other _ _ _ (by decide), Val.field_set_eq _ _ _ (by rw [copyFrom_hasKey]; decide)]
  · rw [rehome_other _ _ _ (by decide), Val.field_set_ne _ _ _ _ (by decide), copyFrom_other _ _ _ _ (by decide)]; rfl

theorem account_shape (v1 lim skv : Val) :
    let m := rehomeV1 (((((zero Gen.V2.AccountClaims).field "nats").copyFrom (v1.field "nats") ["imports", "exports", "revocations"]).set
      "limits" lim).set "signing_keys" skv) v1
    (∀ k ∈ ["imports", "exports", "revocations"], m.field k = (v1.field "nats").field k) ∧
    m.field "limits" = lim ∧ m.field "signing_keys" = skv ∧
    m.field "type" = v1.field "type" ∧ m.field "tags" = v1.field "tags" ∧ m.field "version" = .int 1 := by
  intro m
  have hk : ∀ k, (((((zero Gen.V2.AccountClaims).field "nats").copyFrom (v1.field "nats") ["imports", "exports", "revocations"]).set
      "limits" lim).set "signing_keys" skv).hasKey k = ((zero Gen.V2.AccountClaims).field "nats").hasKey k := by
    intro k; rw [Val.hasKey_set, Val.hasKey_set, copyFrom_hasKey]
  obtain ⟨r1, r2, r3⟩ := rehome (((((zero Gen.V2.AccountClaims).field "nats").copyFrom (v1.field "nats") ["imports", "exports", "revocations"]).set
      "limits" lim).set "signing_keys" skv) v1 ⟨by rw [hk]; decide, by rw [hk]; decide, by rw [hk]; decide⟩
  refine ⟨?_, ?_, ?_, r1, r2, r3⟩
  · intro k hkm
    simp only [List.mem_cons, List.not_mem_nil, or_false] at hkm
    rcases hkm with rfl | rfl | rfl <;>
    · show (rehomeV1 _ v1).field _ = _
      rw [rehome_other _ _ _ (by decide), Val.field_set_ne _ _ _ _ (by decide), Val.field_set_ne _ _ _ _ (by decide),
        copyFrom_carried _ _ _ _ (by decide) (by decide)]
  · show (rehomeV1 _ v1).field _ = _
    rw [rehome_other _ _ _ (by decide), Val.field_set_ne _ _ _ _ (by decide), Val.field_set_eq _ _ _ (by rw [copyFrom_hasKey]; decide)]
  · show (rehomeV1 _ v1).field _ = _
    rw [rehome_other _ _ _ (by decide), Val.field_set_eq _ _ _ (by rw [Val.hasKey_set, copyFrom_hasKey]; decide)]

/-- **Account.** imports, exports (same struct types as v2: latency, token position, revocations, response type ride
along), revocations and the NATS / account limits carried over field by field; the signing-key *list* becomes a set
of plain keys (`migrate_account_signing_keys`); JetStream limits, tiers and every other v2-only section zero. -/
theorem migrate_account_table (v1 : Val) :
    let m := (migrateAccount v1).field "nats"
    (∀ k ∈ ["imports", "exports", "revocations"], m.field k = (v1.field "nats").field k) ∧
    (∀ k ∈ ["subs", "data", "payload", "imports", "exports", "wildcards", "disallow_bearer", "conn", "leaf"],
        (m.field "limits").field k = ((v1.field "nats").field "limits").field k) ∧
    (∀ k ∈ ["mem_storage", "disk_storage", "streams", "consumer", "max_ack_pending", "mem_max_stream_bytes", "disk_max_stream_bytes"],
        (m.field "limits").field k = .int 0) ∧
    (m.field "limits").field "tiered_limits" = .nil ∧
    m.field "type" = v1.field "type" ∧ m.field "tags" = v1.field "tags" ∧ m.field "version" = .int 1 := by
  simp only [migrateAccount]
  rw [Val.field_set_eq _ _ _ (by rw [copyFrom_hasKey]; decide)]
  obtain ⟨h1, h2, _, h4, h5, h6⟩ := account_shape v1 _ _
  refine ⟨h1, ?_, ?_, ?_, h4, h5, h6⟩
  · intro k hkm
    rw [h2]
    simp only [List.mem_cons, List.not_mem_nil, or_false] at hkm
    rcases hkm with rfl | rfl | rfl | rfl | rfl | rfl | rfl | rfl | rfl <;>
    · rw [copyFrom_carried _ _ _ _ (by decide) (by decide)]
  · intro k hkm
    rw [h2]
    simp only [List.mem_cons, List.not_mem_nil, or_false] at hkm
    rcases hkm with rfl | rfl | rfl | rfl | rfl | rfl | rfl <;>
    · rw [copyFrom_other _ _ _ _ (by decide)]; rfl
  · rw [h2, copyFrom_other _ _ _ _ (by decide)]; rfl

theorem mem_mapStore_self (m : List (Str × Val)) (k : Str) : (k, Val.nil) ∈ mapStore m k Val.nil := by
  unfold mapStore
  by_cases hany : (m.any fun x => decide (x.fst = k)) = true
  · rw [if_pos hany]
    simp only [List.any_eq_true, decide_eq_true_eq] at hany
    obtain ⟨e, he, hek⟩ := hany
    simp only [List.mem_map]
    exact ⟨e, he, by simp [hek]⟩
  · rw [if_neg hany]; simp

theorem mem_mapStore_keep (m : List (Str × Val)) (k k' : Str) (h : (k, Val.nil) ∈ m) : (k, Val.nil) ∈ mapStore m k' Val.nil := by
  unfold mapStore
  by_cases hany : (m.any fun x => decide (x.fst = k')) = true
  · rw [if_pos hany]
    simp only [List.mem_map]
    by_cases e : k = k'
    · exact ⟨(k, .nil), h, by simp [e]⟩
    · exact ⟨(k, .nil), h, by simp [e]⟩
  · rw [if_neg hany]; simp [h]

/-- **Signing keys.** Every key of the v1 list is a plain (un-scoped) signing key of the migrated account. -/
theorem migrate_account_signing_keys (ks : List Val) (k : Str) (hk : .str k ∈ ks) :
    (k, Val.nil) ∈ ks.foldl (fun m (x : Val) => mapStore m x.asStr Val.nil) ([] : List (Str × Val)) := by
  have gen : ∀ (l : List Val) (acc : List (Str × Val)), ((k, Val.nil) ∈ acc ∨ .str k ∈ l) →
      (k, Val.nil) ∈ l.foldl (fun m (x : Val) => mapStore m x.asStr Val.nil) acc := by
    intro l
    induction l with
    | nil => intro acc h; rcases h with h | h; exact h; cases h
    | cons x xs ih =>
      intro acc h
      simp only [List.foldl_cons]
      apply ih
      rcases h with h | h
      · exact Or.inl (mem_mapStore_keep acc k _ h)
      · simp only [List.mem_cons] at h
        rcases h with h | h
        · left; subst h; exact mem_mapStore_self acc k
        · exact Or.inr h
  exact gen ks [] (Or.inr hk)

/-- **Absent legacy limits read as unlimited; deprecated fields are ignored.** Decoding a struct from an object that
does not mention a field leaves the pre-set default in place (the loaders pre-set `NoLimit`), and keys the schema
does not know are skipped without error. -/
theorem absent_keeps_default (f : Nat) (fs : List (Str × Bool × Ty)) (cur : List (Str × Val)) :
    unmarshalFields codecEnv (f+1) fs [] cur = .ok cur := by
  simp [unmarshalFields]

theorem unknown_key_ignored (f : Nat) (fs : List (Str × Bool × Ty)) (k : Str) (j : Json) (kv : List (Str × Json))
    (cur : List (Str × Val)) (h : findField fs k = none) :
    unmarshalFields codecEnv (f+1) fs ((k, j) :: kv) cur = unmarshalFields codecEnv f fs kv cur := by
  simp [unmarshalFields, h]

/-- the v1 loaders pre-set the unlimited value before decoding -/
theorem gen_nolimit : Gen.V2.cNoLimit = -1 := by decide

/-- **Version 1 is reported** for every typed kind loaded from a v1-style payload (top-level `type`). -/
theorem v1_payload_is_version_1 (j : Json) (id : Ident) (top : Str) (h : identOf j = .ok id)
    (hv : ∀ v, decodeJson Gen.V2.identifier (zero Gen.V2.identifier) j = .ok v → (v.field "type").asStr = top)
    (ht : top ≠ []) : id.version = 1 := by
  unfold identOf at h
  cases hd : decodeJson Gen.V2.identifier (zero Gen.V2.identifier) j with
  | error e => simp [hd, bind, Except.bind] at h
  | ok v =>
    simp only [hd, bind, Except.bind, pure, Except.pure] at h
    have := hv v hd
    rw [this] at h
    simp only [ht, ne_eq, not_false_eq_true, if_true, Except.ok.injEq] at h
    rw [← h]

/-! ## The migration functions as translated from today's source

`vNXClaims.migrateV1` are translated statement by statement (`Gen.Fn.V2.v1XClaims_migrateV1`); the theorems below say
that on the struct a v1 payload decodes into (read through the v1 struct tags) they never panic and return exactly the
struct that the model's migrated value reads as (through the v2 struct tags) — so the field tables above are tables of
what today's migration code does. -/

open Jwt.Gen.Fn in
theorem claimsData_carried (m v1 : Val) (h : ∀ k ∈ stdKeys, m.field k = v1.field k) :
    V2.T_ClaimsData.ofVal m = V2.T_ClaimsData.ofVal v1 := by
  simp only [V2.T_ClaimsData.ofVal]
  rw [h "aud" (by decide), h "exp" (by decide), h "jti" (by decide), h "iat" (by decide), h "iss" (by decide),
    h "name" (by decide), h "nbf" (by decide), h "sub" (by decide)]

open Jwt.Gen.Fn in
/-- `v1ActivationClaims.migrateV1` -/
theorem gen_migrateActivation (v1 : Val) :
    V2.v1ActivationClaims_migrateV1 (V2.T_v1ActivationClaims.ofVal v1) =
      some (V2.T_ActivationClaims.ofVal (migrateActivation v1), false) := by
  obtain ⟨t1, t2, t3, t4, t5, t6⟩ := migrate_activation_table v1
  have hcd := claimsData_carried (migrateActivation v1) v1 (std_carried_activation v1)
  unfold V2.v1ActivationClaims_migrateV1
  simp only [Option.pure_def, Option.bind_eq_bind, Option.bind_some, V2.T_ActivationClaims.ofVal, V2.T_Activation.ofVal,
    V2.T_GenericFields.ofVal, hcd, t1, t2, t3, t4, t5, t6]
  rfl

open Jwt.Gen.Fn in
/-- `v1OperatorClaims.migrateV1` -/
theorem gen_migrateOperator (v1 : Val) :
    V2.v1OperatorClaims_migrateV1 (V2.T_v1OperatorClaims.ofVal v1) =
      some (V2.T_OperatorClaims.ofVal (migrateOperator v1), false) := by
  obtain ⟨t1, t2, t3, t4, t5, t6, t7, t8, t9⟩ := migrate_operator_table v1
  have hcd := claimsData_carried (migrateOperator v1) v1 (std_carried_operator v1)
  unfold V2.v1OperatorClaims_migrateV1
  simp only [Option.pure_def, Option.bind_eq_bind, Option.bind_some, V2.T_OperatorClaims.ofVal, V2.T_Operator.ofVal,
    V2.T_GenericFields.ofVal, hcd, t1, t2, t3, t4, t5, t6, t7, t8, t9]
  rfl

open Jwt.Gen.Fn in
/-- `v1UserClaims.migrateV1` -/
theorem gen_migrateUser (v1 : Val) :
    V2.v1UserClaims_migrateV1 (V2.T_v1UserClaims.ofVal v1) =
      some (V2.T_UserClaims.ofVal (migrateUser v1), false) := by
  obtain ⟨tc, t2, t3, t4, t5, t6⟩ := migrate_user_table v1
  have hcd := claimsData_carried (migrateUser v1) v1 (std_carried_user v1)
  -- `times_location` rides along with the embedded `Limits` (absent in genuine v1 payloads)
  have tl : ((migrateUser v1).field "nats").field "times_location" = (v1.field "nats").field "times_location" := by
    simp only [migrateUser]
    rw [Val.field_set_eq _ _ _ (by rw [copyFrom_hasKey]; decide), rehome_other _ _ _ (by decide),
      Val.field_set_ne _ _ _ _ (by decide), copyFrom_carried _ _ _ _ (by decide) (by decide)]
  have c1 := tc "pub" (by decide)
  have c2 := tc "sub" (by decide)
  have c3 := tc "resp" (by decide)
  have c4 := tc "src" (by decide)
  have c5 := tc "times" (by decide)
  have c6 := tc "subs" (by decide)
  have c7 := tc "data" (by decide)
  have c8 := tc "payload" (by decide)
  have c9 := tc "bearer_token" (by decide)
  unfold V2.v1UserClaims_migrateV1
  simp only [Option.pure_def, Option.bind_eq_bind, Option.bind_some, V2.T_UserClaims.ofVal, V2.T_User.ofVal,
    V2.T_UserPermissionLimits.ofVal, V2.T_Permissions.ofVal, V2.T_Limits.ofVal, V2.T_UserLimits.ofVal, V2.T_NatsLimits.ofVal,
    V2.T_GenericFields.ofVal, hcd, c1, c2, c3, c4, c5, c6, c7, c8, c9, tl, t2, t3, t4, t5, t6]
  rfl

/-! ### the account: everything but the order of the signing-key set -/

section AccountMigration
open Jwt.GoRt Jwt.Gen.Fn Jwt.FnTie
set_option linter.unusedSimpArgs false
set_option linter.unusedVariables false

/-- the association list the Go loop `for _, v := range keys { sk.Add(v) }` builds (new entry in front) -/
def addKeys (l : List (Str × Option V2.I_Scope)) (ks : List Str) : List (Str × Option V2.I_Scope) :=
  ks.foldl (fun l k => (k, none) :: l.filter (fun p => p.1 ≠ k)) l

theorem signingKeys_add1 (l : List (Str × Option V2.I_Scope)) (k : Str) :
    V2.SigningKeys_Add (some l) [k] = some (some ((k, none) :: l.filter (fun p => p.1 ≠ k))) := by
  simp [V2.SigningKeys_Add, forRange, forRangeFrom, V2.SigningKeys_Add.loop1, mapSet]

theorem migAcct_loop (ks : List Str) : ∀ (i : Int) (a : V2.T_AccountClaims) (l : List (Str × Option V2.I_Scope)),
    a.f_Account.f_SigningKeys = some l →
    forRangeFrom V2.v1AccountClaims_migrateV1.loop1 i ks a =
      some (.done { a with f_Account := { a.f_Account with f_SigningKeys := some (addKeys l ks) } }) := by
  induction ks with
  | nil =>
    intro i a l h
    simp only [forRangeFrom, addKeys, List.foldl_nil, ← h]
  | cons k ks ih =>
    intro i a l h
    simp only [forRangeFrom, V2.v1AccountClaims_migrateV1.loop1, h, signingKeys_add1, Option.pure_def, Option.bind_eq_bind,
      Option.bind_some]
    rw [ih (i + 1) _ ((k, none) :: l.filter (fun p => p.1 ≠ k)) rfl]
    simp [addKeys]

/-! key-level views of the two folds -/
def addK (K : List Str) (k : Str) : List Str := k :: K.filter (fun x => x ≠ k)
def storeK (K : List Str) (k : Str) : List Str := if k ∈ K then K else K ++ [k]

theorem addKeys_keys (ks : List Str) : ∀ (K : List Str),
    addKeys (K.map fun k => (k, (none : Option V2.I_Scope))) ks = (ks.foldl addK K).map fun k => (k, none) := by
  induction ks with
  | nil => intro K; rfl
  | cons k ks ih =>
    intro K
    have : ((k, (none : Option V2.I_Scope)) :: (K.map fun k => (k, (none : Option V2.I_Scope))).filter (fun p => p.1 ≠ k)) =
        (addK K k).map fun k => (k, none) := by
      simp [addK, List.filter_map, Function.comp_def]
    simp only [addKeys, List.foldl_cons] at ih ⊢
    rw [this]
    exact ih (addK K k)

theorem mapStore_keys (k : Str) (K : List Str) :
    mapStore (K.map fun k => (k, Val.nil)) k Val.nil = (storeK K k).map fun k => (k, Val.nil) := by
  unfold mapStore storeK
  by_cases h : k ∈ K
  · have : ((K.map fun k => (k, Val.nil)).any fun x => decide (x.1 = k)) = true := by
      simp only [List.any_map, List.any_eq_true, Function.comp, decide_eq_true_eq]
      exact ⟨k, h, rfl⟩
    rw [if_pos this, if_pos h, List.map_map]
    apply List.map_congr_left
    intro x _
    by_cases e : x = k <;> simp [e]
  · have : ((K.map fun k => (k, Val.nil)).any fun x => decide (x.1 = k)) = false := by
      simp only [List.any_map, List.any_eq_false, Function.comp, decide_eq_true_eq]
      intro x hx e; exact h (e ▸ hx)
    rw [this, if_neg h]
    simp

theorem storeFold_keys (vs : List Val) : ∀ (K : List Str),
    vs.foldl (fun m (x : Val) => mapStore m x.asStr Val.nil) (K.map fun k => (k, Val.nil)) =
      ((vs.map Val.asStr).foldl storeK K).map fun k => (k, Val.nil) := by
  induction vs with
  | nil => intro K; rfl
  | cons v vs ih => intro K; simp only [List.foldl_cons, List.map_cons, mapStore_keys, ih]

theorem addK_inv (ks : List Str) : ∀ K : List Str, K.Nodup →
    (ks.foldl addK K).Nodup ∧ ∀ x, x ∈ ks.foldl addK K ↔ x ∈ K ∨ x ∈ ks := by
  induction ks with
  | nil => intro K h; simp [h]
  | cons k ks ih =>
    intro K h
    have hn : (addK K k).Nodup := by
      unfold addK
      refine List.nodup_cons.mpr ⟨by simp, h.sublist List.filter_sublist⟩
    obtain ⟨h1, h2⟩ := ih (addK K k) hn
    refine ⟨h1, ?_⟩
    intro x
    rw [List.foldl_cons, h2 x]
    unfold addK
    simp only [List.mem_cons, List.mem_filter, decide_eq_true_eq]
    constructor
    · rintro ((rfl | ⟨hx, _⟩) | hx)
      · exact Or.inr (Or.inl rfl)
      · exact Or.inl hx
      · exact Or.inr (Or.inr hx)
    · rintro (hx | rfl | hx)
      · by_cases e : x = k
        · exact Or.inl (Or.inl e)
        · exact Or.inl (Or.inr ⟨hx, e⟩)
      · exact Or.inl (Or.inl rfl)
      · exact Or.inr hx

theorem storeK_inv (ks : List Str) : ∀ K : List Str, K.Nodup →
    (ks.foldl storeK K).Nodup ∧ ∀ x, x ∈ ks.foldl storeK K ↔ x ∈ K ∨ x ∈ ks := by
  induction ks with
  | nil => intro K h; simp [h]
  | cons k ks ih =>
    intro K h
    have hn : (storeK K k).Nodup := by
      unfold storeK
      by_cases e : k ∈ K
      · rw [if_pos e]; exact h
      · rw [if_neg e]
        exact List.nodup_append.mpr ⟨h, by simp, by intro a ha b hb; simp at hb; subst hb; intro e'; exact e (e' ▸ ha)⟩
    obtain ⟨h1, h2⟩ := ih (storeK K k) hn
    refine ⟨h1, ?_⟩
    intro x
    rw [List.foldl_cons, h2 x]
    unfold storeK
    by_cases e : k ∈ K
    · rw [if_pos e]
      simp only [List.mem_cons]
      constructor
      · rintro (hx | hx); exact Or.inl hx; exact Or.inr (Or.inr hx)
      · rintro (hx | rfl | hx); exact Or.inl hx; exact Or.inl e; exact Or.inr hx
    · rw [if_neg e]
      simp only [List.mem_append, List.mem_cons, List.mem_singleton, List.not_mem_nil, or_false]
      constructor
      · rintro ((hx | rfl) | hx); exact Or.inl hx; exact Or.inr (Or.inl rfl); exact Or.inr (Or.inr hx)
      · rintro (hx | rfl | hx); exact Or.inl (Or.inl hx); exact Or.inl (Or.inr rfl); exact Or.inr hx

/-- the two signing-key sets (Go's loop of `Add`, the model's fold of `mapStore`) hold the same entries -/
theorem signingKeys_perm (vs : List Val) :
    (addKeys [] (vs.map Val.asStr)).Perm
      ((vs.foldl (fun m (x : Val) => mapStore m x.asStr Val.nil) []).map fun p => (p.1, scopeOfVal p.2)) := by
  have a := addKeys_keys (vs.map Val.asStr) []
  have b := storeFold_keys vs []
  simp only [List.map_nil] at a b
  rw [a, b, List.map_map]
  have hf : ((fun p : Str × Val => (p.1, scopeOfVal p.2)) ∘ fun k => (k, Val.nil)) = fun k => (k, (none : Option V2.I_Scope)) := by
    funext k; rfl
  rw [hf]
  apply List.Perm.map
  obtain ⟨n1, m1⟩ := addK_inv (vs.map Val.asStr) [] List.nodup_nil
  obtain ⟨n2, m2⟩ := storeK_inv (vs.map Val.asStr) [] List.nodup_nil
  exact (List.perm_ext_iff_of_nodup n1 n2).mpr (fun x => by rw [m1 x, m2 x])

/-- fields of the migrated `nats` section that the migration does not touch keep the zero value -/
theorem account_untouched (v1 : Val) (k : String)
    (h1 : k.toList ≠ "type".toList ∧ k.toList ≠ "tags".toList ∧ k.toList ≠ "version".toList)
    (h2 : k.toList ≠ "signing_keys".toList) (h3 : k.toList ≠ "limits".toList)
    (h4 : (["imports", "exports", "revocations"] : List String).any (fun x => x.toList = k.toList) = false) :
    ((migrateAccount v1).field "nats").field k = ((zero Gen.V2.AccountClaims).field "nats").field k := by
  simp only [migrateAccount]
  rw [Val.field_set_eq _ _ _ (by rw [copyFrom_hasKey]; decide), rehome_other _ _ _ h1, Val.field_set_ne _ _ _ _ h2,
    Val.field_set_ne _ _ _ _ h3, copyFrom_other _ _ _ _ h4]

theorem account_signing_keys (v1 : Val) :
    ((migrateAccount v1).field "nats").field "signing_keys" =
      .map (match (v1.field "nats").field "signing_keys" with
            | .list ks => ks.foldl (fun m k => mapStore m k.asStr .nil) []
            | _ => []) := by
  simp only [migrateAccount]
  rw [Val.field_set_eq _ _ _ (by rw [copyFrom_hasKey]; decide)]
  exact (account_shape v1 _ _).2.2.1

theorem account_limits_mbr (v1 : Val) :
    (((migrateAccount v1).field "nats").field "limits").field "max_bytes_required" = .bool false := by
  simp only [migrateAccount]
  rw [Val.field_set_eq _ _ _ (by rw [copyFrom_hasKey]; decide), (account_shape v1 _ _).2.1,
    copyFrom_other _ _ _ _ (by decide)]
  rfl

open Jwt.Gen.Fn in
/-- `v1AccountClaims.migrateV1`: never panics; every field of the result is the field the model's migrated value reads
as, except that the signing-key set is built in a different entry order (a Go map has none): equal up to permutation -/
theorem gen_migrateAccount (v1 : Val) :
    ∃ a l l', V2.v1AccountClaims_migrateV1 (V2.T_v1AccountClaims.ofVal v1) = some (a, false) ∧
      a.f_Account.f_SigningKeys = some l ∧
      (V2.T_AccountClaims.ofVal (migrateAccount v1)).f_Account.f_SigningKeys = some l' ∧ l.Perm l' ∧
      ({ a with f_Account := { a.f_Account with f_SigningKeys := none } } : V2.T_AccountClaims) =
        { V2.T_AccountClaims.ofVal (migrateAccount v1) with
          f_Account := { (V2.T_AccountClaims.ofVal (migrateAccount v1)).f_Account with f_SigningKeys := none } } := by
  obtain ⟨tc, tl, tj, tt, t5, t6, t7⟩ := migrate_account_table v1
  have hcd := claimsData_carried (migrateAccount v1) v1 (std_carried_account v1)
  have hsk := account_signing_keys v1
  have hmbr := account_limits_mbr v1
  have u1 := account_untouched v1 "default_permissions" (by decide) (by decide) (by decide) (by decide)
  have u2 := account_untouched v1 "mappings" (by decide) (by decide) (by decide) (by decide)
  have u3 := account_untouched v1 "authorization" (by decide) (by decide) (by decide) (by decide)
  have u4 := account_untouched v1 "trace" (by decide) (by decide) (by decide) (by decide)
  have u5 := account_untouched v1 "description" (by decide) (by decide) (by decide) (by decide)
  have u6 := account_untouched v1 "info_url" (by decide) (by decide) (by decide) (by decide)
  unfold V2.v1AccountClaims_migrateV1
  simp only [Option.pure_def, Option.bind_eq_bind, Option.bind_some, forRange]
  rw [migAcct_loop _ 0 _ [] rfl]
  simp only [Option.bind_some]
  have hskf : (V2.T_AccountClaims.ofVal (migrateAccount v1)).f_Account.f_SigningKeys =
      mapOfValWith scopeOfVal (((migrateAccount v1).field "nats").field "signing_keys") := by
    simp only [V2.T_AccountClaims.ofVal, V2.T_Account.ofVal]; congr 1
  refine ⟨_, addKeys [] (V2.T_v1AccountClaims.ofVal v1).f_v1NatsAccount.f_SigningKeys,
    (match (v1.field "nats").field "signing_keys" with
      | .list ks => ks.foldl (fun m (k : Val) => mapStore m k.asStr Val.nil) ([] : List (Str × Val))
      | _ => []).map (fun (p : Str × Val) => (p.1, scopeOfVal p.2)), rfl, rfl, ?_, ?_, ?_⟩
  · rw [hskf, hsk]; rfl
  · have hk : (V2.T_v1AccountClaims.ofVal v1).f_v1NatsAccount.f_SigningKeys = ((v1.field "nats").field "signing_keys").strs := rfl
    rw [hk]
    cases hv : (v1.field "nats").field "signing_keys" with
    | list ks => exact signingKeys_perm ks
    | _ => simp [Val.strs, Val.asList, addKeys]
  · have c1 := tc "imports" (by decide)
    have c2 := tc "exports" (by decide)
    have c3 := tc "revocations" (by decide)
    have l1 := tl "subs" (by decide)
    have l2 := tl "data" (by decide)
    have l3 := tl "payload" (by decide)
    have l4 := tl "imports" (by decide)
    have l5 := tl "exports" (by decide)
    have l6 := tl "wildcards" (by decide)
    have l7 := tl "disallow_bearer" (by decide)
    have l8 := tl "conn" (by decide)
    have l9 := tl "leaf" (by decide)
    have j1 := tj "mem_storage" (by decide)
    have j2 := tj "disk_storage" (by decide)
    have j3 := tj "streams" (by decide)
    have j4 := tj "consumer" (by decide)
    have j5 := tj "max_ack_pending" (by decide)
    have j6 := tj "mem_max_stream_bytes" (by decide)
    have j7 := tj "disk_max_stream_bytes" (by decide)
    simp only [V2.T_AccountClaims.ofVal, V2.T_Account.ofVal, V2.T_OperatorLimits.ofVal, V2.T_NatsLimits.ofVal,
      V2.T_AccountLimits.ofVal, V2.T_JetStreamLimits.ofVal, V2.T_GenericFields.ofVal, V2.T_Info.ofVal, hcd,
      c1, c2, c3, l1, l2, l3, l4, l5, l6, l7, l8, l9, j1, j2, j3, j4, j5, j6, j7, tt, t5, t6, t7, hmbr, u1, u2, u3, u4, u5, u6]
    rfl

end AccountMigration

end Jwt.C04
