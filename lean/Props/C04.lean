import Props.FnTie
import JwtProofs.Decode
import JwtProofs.Val
import JwtModel.Encode
/-!
# C04 — version-1 tokens migrate to version 2 without losing meaning

Model: `loadClaims` / `loadTyped` with the generated *shadow* schemas (`Gen.V2.v1OperatorClaims`, …) and the four
`migrate*` functions (JwtModel/Decode.lean), tied to the code by the correspondence stream `C04` (real v1compat
tokens through the real v2 decoder and through the model) and its independently written expected mapping.

The specification of "meaning" is written here as a table: which v2 field receives which v1 field. The theorems
say each `migrate*` realises that table, stamps version 1, and leaves every v2-only field at its zero value.
-/
namespace Jwt.C04
open Jwt Jwt.Codec

/-- a v1 payload as the shadow schema sees it: has the standard fields, the re-homed ones and a `nats` section -/
def stdKeys : List String := ["aud", "exp", "jti", "iat", "iss", "name", "nbf", "sub"]

theorem std_carried_operator (v1 : Val) (k : String) (hk : k ∈ stdKeys) : (migrateOperator v1).field k = v1.field k := by
  simp only [stdKeys, List.mem_cons, List.not_mem_nil, or_false] at hk
  unfold migrateOperator
  rcases hk with rfl | rfl | rfl | rfl | rfl | rfl | rfl | rfl <;>
  · rw [Val.field_set_ne _ _ _ _ (by decide), copyFrom_carried _ _ _ _ (by decide) (by decide)]

theorem std_carried_account (v1 : Val) (k : String) (hk : k ∈ stdKeys) : (migrateAccount v1).field k = v1.field k := by
  simp only [stdKeys, List.mem_cons, List.not_mem_nil, or_false] at hk
  unfold migrateAccount
  rcases hk with rfl | rfl | rfl | rfl | rfl | rfl | rfl | rfl <;>
  · rw [Val.field_set_ne _ _ _ _ (by decide), copyFrom_carried _ _ _ _ (by decide) (by decide)]

theorem std_carried_user (v1 : Val) (k : String) (hk : k ∈ stdKeys) : (migrateUser v1).field k = v1.field k := by
  simp only [stdKeys, List.mem_cons, List.not_mem_nil, or_false] at hk
  unfold migrateUser
  rcases hk with rfl | rfl | rfl | rfl | rfl | rfl | rfl | rfl <;>
  · rw [Val.field_set_ne _ _ _ _ (by decide), copyFrom_carried _ _ _ _ (by decide) (by decide)]

theorem std_carried_activation (v1 : Val) (k : String) (hk : k ∈ stdKeys) : (migrateActivation v1).field k = v1.field k := by
  simp only [stdKeys, List.mem_cons, List.not_mem_nil, or_false] at hk
  unfold migrateActivation
  rcases hk with rfl | rfl | rfl | rfl | rfl | rfl | rfl | rfl <;>
  · rw [Val.field_set_ne _ _ _ _ (by decide), copyFrom_carried _ _ _ _ (by decide) (by decide)]

/-- **Kind, tags and version.** The top-level `type` and `tags` of a v1 payload move into the `nats` section and the
migrated claims report version 1. -/
theorem rehome (nats v1 : Val) (h : nats.hasKey "type" = true ∧ nats.hasKey "tags" = true ∧ nats.hasKey "version" = true) :
    (rehomeV1 nats v1).field "type" = v1.field "type" ∧ (rehomeV1 nats v1).field "tags" = v1.field "tags" ∧
    (rehomeV1 nats v1).field "version" = .int 1 := by
  unfold rehomeV1
  refine ⟨?_, ?_, ?_⟩
  · rw [Val.field_set_ne _ _ _ _ (by decide), Val.field_set_ne _ _ _ _ (by decide), Val.field_set_eq _ _ _ h.1]
  · rw [Val.field_set_ne _ _ _ _ (by decide), Val.field_set_eq _ _ _ (by rw [Val.hasKey_set]; exact h.2.1)]
  · rw [Val.field_set_eq _ _ _ (by rw [Val.hasKey_set, Val.hasKey_set]; exact h.2.2)]

theorem rehome_other (nats v1 : Val) (k : String) (hk : k.toList ≠ "type".toList ∧ k.toList ≠ "tags".toList ∧ k.toList ≠ "version".toList) :
    (rehomeV1 nats v1).field k = nats.field k := by
  unfold rehomeV1
  rw [Val.field_set_ne _ _ _ _ hk.2.2, Val.field_set_ne _ _ _ _ hk.2.1, Val.field_set_ne _ _ _ _ hk.1]

/-- the migration table: v2 `nats` field ← v1 source -/
inductive Src where
  | nats (key : String)     -- v1 `nats.<key>`
  | top (key : String)      -- v1 top-level `<key>`
  | zero                    -- no v1 counterpart: the v2 zero value

def Src.get (s : Src) (v1 z : Val) (k : String) : Val :=
  match s with
  | .nats key => (v1.field "nats").field key
  | .top key => v1.field key
  | .zero => (z.field "nats").field k

/-- **Operator.** signing keys, account-server URL, service URLs, system account carried over; the v2-only fields
(asserted server version, strict signing-key usage) zero. -/
theorem migrate_operator_table (v1 : Val) :
    let m := (migrateOperator v1).field "nats"
    m.field "signing_keys" = (v1.field "nats").field "signing_keys" ∧
    m.field "account_server_url" = (v1.field "nats").field "account_server_url" ∧
    m.field "operator_service_urls" = (v1.field "nats").field "operator_service_urls" ∧
    m.field "system_account" = (v1.field "nats").field "system_account" ∧
    m.field "assert_server_version" = .str [] ∧ m.field "strict_signing_key_usage" = .bool false ∧
    m.field "type" = v1.field "type" ∧ m.field "tags" = v1.field "tags" ∧ m.field "version" = .int 1 := by
  simp only [migrateOperator]
  rw [Val.field_set_eq _ _ _ (by rw [copyFrom_hasKey]; decide)]
  have hk : ∀ k, (((zero Gen.V2.OperatorClaims).field "nats").copyFrom (v1.field "nats")
      ["signing_keys", "account_server_url", "operator_service_urls", "system_account"]).hasKey k =
      ((zero Gen.V2.OperatorClaims).field "nats").hasKey k := fun k => copyFrom_hasKey _ _ _ k
  obtain ⟨r1, r2, r3⟩ := rehome (((zero Gen.V2.OperatorClaims).field "nats").copyFrom (v1.field "nats")
      ["signing_keys", "account_server_url", "operator_service_urls", "system_account"]) v1
      ⟨by rw [hk]; decide, by rw [hk]; decide, by rw [hk]; decide⟩
  refine ⟨?_, ?_, ?_, ?_, ?_, ?_, r1, r2, r3⟩
  · rw [rehome_other _ _ _ (by decide), copyFrom_carried _ _ _ _ (by decide) (by decide)]
  · rw [rehome_other _ _ _ (by decide), copyFrom_carried _ _ _ _ (by decide) (by decide)]
  · rw [rehome_other _ _ _ (by decide), copyFrom_carried _ _ _ _ (by decide) (by decide)]
  · rw [rehome_other _ _ _ (by decide), copyFrom_carried _ _ _ _ (by decide) (by decide)]
  · rw [rehome_other _ _ _ (by decide), copyFrom_other _ _ _ _ (by decide)]; rfl
  · rw [rehome_other _ _ _ (by decide), copyFrom_other _ _ _ _ (by decide)]; rfl

/-- **Activation.** granted subject, kind (`type` in v1, `kind` in v2) and issuer account (top-level in v1) carried
over; the deprecated v1 limits (`max`, `payload`, `src`, `times`) are read and dropped. -/
theorem migrate_activation_table (v1 : Val) :
    let m := (migrateActivation v1).field "nats"
    m.field "subject" = (v1.field "nats").field "subject" ∧
    m.field "kind" = (v1.field "nats").field "type" ∧
    m.field "issuer_account" = v1.field "issuer_account" ∧
    m.field "type" = v1.field "type" ∧ m.field "tags" = v1.field "tags" ∧ m.field "version" = .int 1 := by
  simp only [migrateActivation]
  rw [Val.field_set_eq _ _ _ (by rw [copyFrom_hasKey]; decide)]
  obtain ⟨r1, r2, r3⟩ := rehome (((((zero Gen.V2.ActivationClaims).field "nats").set "subject" ((v1.field "nats").field "subject")).set
      "kind" ((v1.field "nats").field "type")).set "issuer_account" (v1.field "issuer_account")) v1
      ⟨by simp only [Val.hasKey_set]; decide, by simp only [Val.hasKey_set]; decide, by simp only [Val.hasKey_set]; decide⟩
  refine ⟨?_, ?_, ?_, r1, r2, r3⟩
  · rw [rehome_other _ _ _ (by decide), Val.field_set_ne _ _ _ _ (by decide), Val.field_set_ne _ _ _ _ (by decide),
      Val.field_set_eq _ _ _ (by decide)]
  · rw [rehome_other _ _ _ (by decide), Val.field_set_ne _ _ _ _ (by decide), Val.field_set_eq _ _ _ (by simp only [Val.hasKey_set]; decide)]
  · rw [rehome_other _ _ _ (by decide), Val.field_set_eq _ _ _ (by simp only [Val.hasKey_set]; decide)]

/-- **User.** permissions (incl. response permission), source networks, time ranges, NATS limits, bearer flag and
issuer account carried over; v2-only fields (locale, allowed connection types) zero; `max` dropped. -/
theorem migrate_user_table (v1 : Val) :
    let m := (migrateUser v1).field "nats"
    (∀ k ∈ ["pub", "sub", "resp", "src", "times", "subs", "data", "payload", "bearer_token"],
        m.field k = (v1.field "nats").field k) ∧
    m.field "issuer_account" = v1.field "issuer_account" ∧
    m.field "allowed_connection_types" = .nil ∧
    m.field "type" = v1.field "type" ∧ m.field "tags" = v1.field "tags" ∧ m.field "version" = .int 1 := by
  simp only [migrateUser]
  rw [Val.field_set_eq _ _ _ (by rw [copyFrom_hasKey]; decide)]
  have hk : ∀ k, ((((zero Gen.V2.UserClaims).field "nats").copyFrom (v1.field "nats")
      ["pub", "sub", "resp", "src", "times", "times_location", "subs", "data", "payload", "bearer_token"]).set
      "issuer_account" (v1.field "issuer_account")).hasKey k = ((zero Gen.V2.UserClaims).field "nats").hasKey k := by
    intro k; rw [Val.hasKey_set, copyFrom_hasKey]
  obtain ⟨r1, r2, r3⟩ := rehome ((((zero Gen.V2.UserClaims).field "nats").copyFrom (v1.field "nats")
      ["pub", "sub", "resp", "src", "times", "times_location", "subs", "data", "payload", "bearer_token"]).set
      "issuer_account" (v1.field "issuer_account")) v1 ⟨by rw [hk]; decide, by rw [hk]; decide, by rw [hk]; decide⟩
  refine ⟨?_, ?_, ?_, r1, r2, r3⟩
  · intro k hkm
    simp only [List.mem_cons, List.not_mem_nil, or_false] at hkm
    rcases hkm with rfl | rfl | rfl | rfl | rfl | rfl | rfl | rfl | rfl <;>
    · rw [rehome_other _ _ _ (by decide), Val.field_set_ne _ _ _ _ (by decide), copyFrom_carried _ _ _ _ (by decide) (by decide)]
  · rw [rehome_other _ _ _ (by decide), Val.field_set_eq _ _ _ (by rw [copyFrom_hasKey]; decide)]
  · rw [rehome_other _ _ _ (by decide), Val.field_set_ne _ _ _ _ (by decide), copyFrom_other _ _ _ _ (by decide)]; rfl

theorem account_shape (v1 lim skv : Val) :
    let m := rehomeV1 (((((zero Gen.V2.AccountClaims).field "nats").copyFrom (v1.field "nats") ["imports", "exports", "revocations"]).set
      "limits" lim).set "signing_keys" skv) v1
    (∀ k ∈ ["imports", "exports", "revocations"], m.field k = (v1.field "nats").field k) ∧
    m.field "limits" = lim ∧ m.field "signing_keys" = skv ∧
    m.field "type" = v1.field "type" ∧ m.field "tags" = v1.field "tags" ∧ m.field "version" = .int 1 := by
  intro m
  have hk : ∀ k, (((((zero Gen.V2.AccountClaims).field "nats").copyFrom (v1.field "nats") ["imports", "exports", "revocations"]).set
      "limits" lim).set "signing_keys" skv).hasKey k = ((zero Gen.V2.AccountClaims).field "nats").hasKey k := by
    intro k; rw [Val.hasKey_set, Val.hasKey_set, copyFrom_hasKey]
  obtain ⟨r1, r2, r3⟩ := rehome (((((zero Gen.V2.AccountClaims).field "nats").copyFrom (v1.field "nats") ["imports", "exports", "revocations"]).set
      "limits" lim).set "signing_keys" skv) v1 ⟨by rw [hk]; decide, by rw [hk]; decide, by rw [hk]; decide⟩
  refine ⟨?_, ?_, ?_, r1, r2, r3⟩
  · intro k hkm
    simp only [List.mem_cons, List.not_mem_nil, or_false] at hkm
    rcases hkm with rfl | rfl | rfl <;>
    · show (rehomeV1 _ v1).field _ = _
      rw [rehome_other _ _ _ (by decide), Val.field_set_ne _ _ _ _ (by decide), Val.field_set_ne _ _ _ _ (by decide),
        copyFrom_carried _ _ _ _ (by decide) (by decide)]
  · show (rehomeV1 _ v1).field _ = _
    rw [rehome_other _ _ _ (by decide), Val.field_set_ne _ _ _ _ (by decide), Val.field_set_eq _ _ _ (by rw [copyFrom_hasKey]; decide)]
  · show (rehomeV1 _ v1).field _ = _
    rw [rehome_other _ _ _ (by decide), Val.field_set_eq _ _ _ (by rw [Val.hasKey_set, copyFrom_hasKey]; decide)]

/-- **Account.** imports, exports (same struct types as v2: latency, token position, revocations, response type ride
along), revocations and the NATS / account limits carried over field by field; the signing-key *list* becomes a set
of plain keys (`migrate_account_signing_keys`); JetStream limits, tiers and every other v2-only section zero. -/
theorem migrate_account_table (v1 : Val) :
    let m := (migrateAccount v1).field "nats"
    (∀ k ∈ ["imports", "exports", "revocations"], m.field k = (v1.field "nats").field k) ∧
    (∀ k ∈ ["subs", "data", "payload", "imports", "exports", "wildcards", "disallow_bearer", "conn", "leaf"],
        (m.field "limits").field k = ((v1.field "nats").field "limits").field k) ∧
    (∀ k ∈ ["mem_storage", "disk_storage", "streams", "consumer", "max_ack_pending", "mem_max_stream_bytes", "disk_max_stream_bytes"],
        (m.field "limits").field k = .int 0) ∧
    (m.field "limits").field "tiered_limits" = .nil ∧
    m.field "type" = v1.field "type" ∧ m.field "tags" = v1.field "tags" ∧ m.field "version" = .int 1 := by
  simp only [migrateAccount]
  rw [Val.field_set_eq _ _ _ (by rw [copyFrom_hasKey]; decide)]
  obtain ⟨h1, h2, _, h4, h5, h6⟩ := account_shape v1 _ _
  refine ⟨h1, ?_, ?_, ?_, h4, h5, h6⟩
  · intro k hkm
    rw [h2]
    simp only [List.mem_cons, List.not_mem_nil, or_false] at hkm
    rcases hkm with rfl | rfl | rfl | rfl | rfl | rfl | rfl | rfl | rfl <;>
    · rw [copyFrom_carried _ _ _ _ (by decide) (by decide)]
  · intro k hkm
    rw [h2]
    simp only [List.mem_cons, List.not_mem_nil, or_false] at hkm
    rcases hkm with rfl | rfl | rfl | rfl | rfl | rfl | rfl <;>
    · rw [copyFrom_other _ _ _ _ (by decide)]; rfl
  · rw [h2, copyFrom_other _ _ _ _ (by decide)]; rfl

theorem mem_mapStore_self (m : List (Str × Val)) (k : Str) : (k, Val.nil) ∈ mapStore m k Val.nil := by
  unfold mapStore
  by_cases hany : (m.any fun x => decide (x.fst = k)) = true
  · rw [if_pos hany]
    simp only [List.any_eq_true, decide_eq_true_eq] at hany
    obtain ⟨e, he, hek⟩ := hany
    simp only [List.mem_map]
    exact ⟨e, he, by simp [hek]⟩
  · rw [if_neg hany]; simp

theorem mem_mapStore_keep (m : List (Str × Val)) (k k' : Str) (h : (k, Val.nil) ∈ m) : (k, Val.nil) ∈ mapStore m k' Val.nil := by
  unfold mapStore
  by_cases hany : (m.any fun x => decide (x.fst = k')) = true
  · rw [if_pos hany]
    simp only [List.mem_map]
    by_cases e : k = k'
    · exact ⟨(k, .nil), h, by simp [e]⟩
    · exact ⟨(k, .nil), h, by simp [e]⟩
  · rw [if_neg hany]; simp [h]

/-- **Signing keys.** Every key of the v1 list is a plain (un-scoped) signing key of the migrated account. -/
theorem migrate_account_signing_keys (ks : List Val) (k : Str) (hk : .str k ∈ ks) :
    (k, Val.nil) ∈ ks.foldl (fun m (x : Val) => mapStore m x.asStr Val.nil) ([] : List (Str × Val)) := by
  have gen : ∀ (l : List Val) (acc : List (Str × Val)), ((k, Val.nil) ∈ acc ∨ .str k ∈ l) →
      (k, Val.nil) ∈ l.foldl (fun m (x : Val) => mapStore m x.asStr Val.nil) acc := by
    intro l
    induction l with
    | nil => intro acc h; rcases h with h | h; exact h; cases h
    | cons x xs ih =>
      intro acc h
      simp only [List.foldl_cons]
      apply ih
      rcases h with h | h
      · exact Or.inl (mem_mapStore_keep acc k _ h)
      · simp only [List.mem_cons] at h
        rcases h with h | h
        · left; subst h; exact mem_mapStore_self acc k
        · exact Or.inr h
  exact gen ks [] (Or.inr hk)

/-- **Absent legacy limits read as unlimited; deprecated fields are ignored.** Decoding a struct from an object that
does not mention a field leaves the pre-set default in place (the loaders pre-set `NoLimit`), and keys the schema
does not know are skipped without error. -/
theorem absent_keeps_default (f : Nat) (fs : List (Str × Bool × Ty)) (cur : List (Str × Val)) :
    unmarshalFields codecEnv (f+1) fs [] cur = .ok cur := by
  simp [unmarshalFields]

theorem unknown_key_ignored (f : Nat) (fs : List (Str × Bool × Ty)) (k : Str) (j : Json) (kv : List (Str × Json))
    (cur : List (Str × Val)) (h : findField fs k = none) :
    unmarshalFields codecEnv (f+1) fs ((k, j) :: kv) cur = unmarshalFields codecEnv f fs kv cur := by
  simp [unmarshalFields, h]

/-- the v1 loaders pre-set the unlimited value before decoding -/
theorem gen_nolimit : Gen.V2.cNoLimit = -1 := by decide

/-- **Version 1 is reported** for every typed kind loaded from a v1-style payload (top-level `type`). -/
theorem v1_payload_is_version_1 (j : Json) (id : Ident) (top : Str) (h : identOf j = .ok id)
    (hv : ∀ v, decodeJson Gen.V2.identifier (zero Gen.V2.identifier) j = .ok v → (v.field "type").asStr = top)
    (ht : top ≠ []) : id.version = 1 := by
  unfold identOf at h
  cases hd : decodeJson Gen.V2.identifier (zero Gen.V2.identifier) j with
  | error e => simp [hd, bind, Except.bind] at h
  | ok v =>
    simp only [hd, bind, Except.bind, pure, Except.pure] at h
    have := hv v hd
    rw [this] at h
    simp only [ht, ne_eq, not_false_eq_true, if_true, Except.ok.injEq] at h
    rw [← h]

/-! ## The migration functions as translated from today's source

`vNXClaims.migrateV1` are translated statement by statement (`Gen.Fn.V2.v1XClaims_migrateV1`); the theorems below say
that on the struct a v1 payload decodes into (read through the v1 struct tags) they never panic and return exactly the
struct that the model's migrated value reads as (through the v2 struct tags) — so the field tables above are tables of
what today's migration code does. -/

open Jwt.Gen.Fn in
theorem claimsData_carried (m v1 : Val) (h : ∀ k ∈ stdKeys, m.field k = v1.field k) :
    V2.T_ClaimsData.ofVal m = V2.T_ClaimsData.ofVal v1 := by
  simp only [V2.T_ClaimsData.ofVal]
  rw [h "aud" (by decide), h "exp" (by decide), h "jti" (by decide), h "iat" (by decide), h "iss" (by decide),
    h "name" (by decide), h "nbf" (by decide), h "sub" (by decide)]

open Jwt.Gen.Fn in
/-- `v1ActivationClaims.migrateV1` -/
theorem gen_migrateActivation (v1 : Val) :
    V2.v1ActivationClaims_migrateV1 (V2.T_v1ActivationClaims.ofVal v1) =
      some (V2.T_ActivationClaims.ofVal (migrateActivation v1), false) := by
  obtain ⟨t1, t2, t3, t4, t5, t6⟩ := migrate_activation_table v1
  have hcd := claimsData_carried (migrateActivation v1) v1 (std_carried_activation v1)
  unfold V2.v1ActivationClaims_migrateV1
  simp only [Option.pure_def, Option.bind_eq_bind, Option.bind_some, V2.T_ActivationClaims.ofVal, V2.T_Activation.ofVal,
    V2.T_GenericFields.ofVal, hcd, t1, t2, t3, t4, t5, t6]
  rfl

open Jwt.Gen.Fn in
/-- `v1OperatorClaims.migrateV1` -/
theorem gen_migrateOperator (v1 : Val) :
    V2.v1OperatorClaims_migrateV1 (V2.T_v1OperatorClaims.ofVal v1) =
      some (V2.T_OperatorClaims.ofVal (migrateOperator v1), false) := by
  obtain ⟨t1, t2, t3, t4, t5, t6, t7, t8, t9⟩ := migrate_operator_table v1
  have hcd := claimsData_carried (migrateOperator v1) v1 (std_carried_operator v1)
  unfold V2.v1OperatorClaims_migrateV1
  simp only [Option.pure_def, Option.bind_eq_bind, Option.bind_some, V2.T_OperatorClaims.ofVal, V2.T_Operator.ofVal,
    V2.T_GenericFields.ofVal, hcd, t1, t2, t3, t4, t5, t6, t7, t8, t9]
  rfl

open Jwt.Gen.Fn in
/-- `v1UserClaims.migrateV1` -/
theorem gen_migrateUser (v1 : Val) :
    V2.v1UserClaims_migrateV1 (V2.T_v1UserClaims.ofVal v1) =
      some (V2.T_UserClaims.ofVal (migrateUser v1), false) := by
  obtain ⟨tc, t2, t3, t4, t5, t6⟩ := migrate_user_table v1
  have hcd := claimsData_carried (migrateUser v1) v1 (std_carried_user v1)
  -- `times_location` rides along with the embedded `Limits` (absent in genuine v1 payloads)
  have tl : ((migrateUser v1).field "nats").field "times_location" = (v1.field "nats").field "times_location" := by
    simp only [migrateUser]
    rw [Val.field_set_eq _ _ _ (by rw [copyFrom_hasKey]; decide), rehome_other _ _ _ (by decide),
      Val.field_set_ne _ _ _ _ (by decide), copyFrom_carried _ _ _ _ (by decide) (by decide)]
  have c1 := tc "pub" (by decide)
  have c2 := tc "sub" (by decide)
  have c3 := tc "resp" (by decide)
  have c4 := tc "src" (by decide)
  have c5 := tc "times" (by decide)
  have c6 := tc "subs" (by decide)
  have c7 := tc "data" (by decide)
  have c8 := tc "payload" (by decide)
  have c9 := tc "bearer_token" (by decide)
  unfold V2.v1UserClaims_migrateV1
  simp only [Option.pure_def, Option.bind_eq_bind, Option.bind_some, V2.T_UserClaims.ofVal, V2.T_User.ofVal,
    V2.T_UserPermissionLimits.ofVal, V2.T_Permissions.ofVal, V2.T_Limits.ofVal, V2.T_UserLimits.ofVal, V2.T_NatsLimits.ofVal,
    V2.T_GenericFields.ofVal, hcd, c1, c2, c3, c4, c5, c6, c7, c8, c9, tl, t2, t3, t4, t5, t6]
  rfl

end Jwt.C04
