import JwtModel.Gen.Fn
import JwtModel.Gen.FnVal
import JwtModel.Subject
import JwtModel.Lists
import JwtModel.Revocation
import JwtModel.HashId
import JwtModel.Validate
import JwtModel.V1
import JwtModel.DidSign
import JwtProofs.GoRt
/-!
# Tie theorems: the functions translated from Go on this run (`Gen/Fn.lean`) compute the hand-written model

`Jwt.Gen.Fn.V2.*` / `V1.*` are regenerated from /repo's working tree by `/verif/extract/gofn.go` on every run. Each theorem
below states that a translated function never panics (`some …`) and returns exactly what the hand-written model
function — the one the property theorems are about — returns. A change to the Go source changes the generated
definition; if it changes what the function computes, the theorem here stops checking.
-/
set_option linter.unusedSimpArgs false
set_option linter.unusedVariables false

namespace Jwt.FnTie
open Jwt Jwt.GoRt Jwt.Gen.Fn

/-! ## C16: subjects -/

theorem v2_hasWildCards (s : Str) : V2.Subject_HasWildCards s = some (hasWildCards s) := by
  simp [V2.Subject_HasWildCards, hasWildCards, hasSuffix, hasPrefix, contains, Bool.or_assoc, Bool.beq_eq_decide_eq]

theorem v1_hasWildCards (s : Str) : V1.Subject_HasWildCards s = some (hasWildCards s) := by
  simp [V1.Subject_HasWildCards, hasWildCards, hasSuffix, hasPrefix, contains, Bool.or_assoc, Bool.beq_eq_decide_eq]

def fin : Loop Unit Bool → Bool | .ret b => b | .done _ => true

/-- the loop of `IsContainedIn`, started at position `i` -/
theorem v2_contained_loop (ot my : List Str) :
    ∀ (ts : List Str) (i : Nat), i + ts.length = ot.length → ot.length ≤ my.length →
    (forRangeFrom (V2.Subject_IsContainedIn.loop1 ot my) (i : Int) ts ()).map fin
      = some (loopGo tokStar tokGt ts (my.drop i)) := by
  intro ts
  induction ts with
  | nil => intro i _ _; simp [forRangeFrom, fin, loopGo]
  | cons t ts ih =>
    intro i hi hn
    have hlt : i < my.length := by simp at hi; omega
    have hd : my.drop i = my[i] :: my.drop (i+1) := by simp
    rw [hd]
    have hlast : ((i : Int) == len ot - 1) = decide (ts = []) := by
      simp at hi
      cases ts with
      | nil => simp at hi; simp [len]; omega
      | cons a b => simp at hi; simp [len]; omega
    have ih' := ih (i+1) (by simp at hi ⊢; omega) hn
    simp only [Int.natCast_add, Int.natCast_one, tokStar, tokGt] at ih'
    simp only [forRangeFrom, V2.Subject_IsContainedIn.loop1, idx_nat, List.getElem?_eq_getElem hlt,
      Option.bind_eq_bind, Option.bind_some, hlast, loopGo, tokStar, tokGt, pure]
    by_cases hts : ts = [] <;> by_cases ht : t = ['>'] <;> by_cases hm : t = my[i] <;>
      by_cases hs : t = ['*'] <;> by_cases hg : my[i] = ['>'] <;>
      simp [hts, ht, hm, hs, hg, fin, ih', forRangeFrom, loopGo] <;> simp_all [fin, forRangeFrom, loopGo]

theorem v2_isContainedIn (s other : Str) : V2.Subject_IsContainedIn s other = some (isContainedIn s other) := by
  unfold V2.Subject_IsContainedIn isContainedIn isContainedInGo
  simp only [GoRt.split]
  have hne : splitOn '.' other ≠ [] := splitOn_ne_nil _ _
  simp only [idx_last _ hne, forRange]
  have hloop := v2_contained_loop (splitOn '.' other) (splitOn '.' s) (splitOn '.' other) 0 (by simp)
  simp only [Int.natCast_zero, List.drop_zero] at hloop
  generalize forRangeFrom (V2.Subject_IsContainedIn.loop1 (splitOn '.' other) (splitOn '.' s)) 0 (splitOn '.' other) () = L at hloop ⊢
  have hlen : ∀ a b : List Str, (len a < len b) ↔ a.length < b.length := by intro a b; simp [len]
  simp only [gt_iff_lt, hlen, tokGt]
  by_cases h1 : (splitOn '.' other).length < (splitOn '.' s).length
  · have h3 : ¬ ((splitOn '.' s).length < (splitOn '.' other).length) := by omega
    have hl := hloop (by omega)
    cases hlast : (splitOn '.' other).getLast? with
    | none => simp [List.getLast?_eq_none_iff] at hlast; exact absurd hlast hne
    | some g =>
      by_cases hg : g = ['>']
      · subst hg
        cases L with
        | none => simp at hl
        | some r => cases r <;> simp [fin, tokGt] at hl <;> simp [h1, h3, hl, tokGt]
      · simp [h1, hg]
  · by_cases h2 : (splitOn '.' s).length < (splitOn '.' other).length
    · simp [h1, h2]
    · have hl := hloop (by omega)
      cases L with
      | none => simp at hl
      | some r => cases r <;> simp [fin, tokGt] at hl <;> simp [h1, h2, hl, tokGt]

theorem v1_isContainedIn_eq_v2 : V1.Subject_IsContainedIn = V2.Subject_IsContainedIn := rfl

theorem v1_isContainedIn (s other : Str) : V1.Subject_IsContainedIn s other = some (isContainedIn s other) := by
  rw [v1_isContainedIn_eq_v2]; exact v2_isContainedIn s other

/-- `countTokenWildcards` -/
theorem v2_countTokenWildcards (s : Str) : V2.Subject_countTokenWildcards s = some (countTokenWildcards s : Int) := by
  unfold V2.Subject_countTokenWildcards countTokenWildcards
  by_cases h : s = ['*']
  · simp [h]
  · have hl : ∀ (xs : List Str) (i : Int) (n : Int), forRangeFrom V2.Subject_countTokenWildcards.loop1 i xs n
        = some (.done (n + ((xs.filter (· = tokStar)).length : Int))) := by
      intro xs
      induction xs with
      | nil => intro i n; simp [forRangeFrom]
      | cons x xs ih =>
        intro i n
        by_cases hx : x = ['*'] <;> simp [forRangeFrom, V2.Subject_countTokenWildcards.loop1, hx, ih, tokStar] <;> omega
    simp [h, forRange, GoRt.split, hl]

/-! ## C20: lists -/
open Jwt.Lists

theorem v2_strContains (u : List Str) (p : Str) : V2.StringList_Contains u p = some (strContains u p) := by
  have hb : ∀ (i : Int) (x : Str), V2.StringList_Contains.loop1 p i x () = some (if (x == p) then .ret true else .next ()) := by
    intro i x; by_cases h : x = p <;> simp [V2.StringList_Contains.loop1, h]
  simp only [V2.StringList_Contains, forRange, forRangeFrom_search _ _ true hb]
  by_cases h : u.any (· == p) = true
  · have : p ∈ u := by simpa using h
    simp [h, strContains, Lists.contains, this]
  · have : p ∉ u := by simpa using h
    simp [h, strContains, Lists.contains, this]

theorem v2_tagContains (u : List Str) (p : Str) : V2.TagList_Contains u p = some (tagContains u p) := by
  have hb : ∀ (q : Str) (i : Int) (x : Str), V2.TagList_Contains.loop1 q i x () = some (if (x == q) then .ret true else .next ()) := by
    intro q i x; by_cases h : x = q <;> simp [V2.TagList_Contains.loop1, h]
  simp only [V2.TagList_Contains, forRange, forRangeFrom_search _ _ true (hb _)]
  by_cases h : u.any (· == goLower (trimSpace p)) = true
  · have : goLower (trimSpace p) ∈ u := by simpa using h
    simp [h, tagContains, Lists.contains, normTag, this]
  · have : goLower (trimSpace p) ∉ u := by simpa using h
    simp [h, tagContains, Lists.contains, normTag, this]

theorem v2_strAdd (u ps : List Str) : V2.StringList_Add u ps = some (strAdd u ps) := by
  have hb : ∀ (i : Int) (x : Str) (l : List Str), V2.StringList_Add.loop1 i x l = some (.next (add1 id [] l x)) := by
    intro i x l
    simp only [V2.StringList_Add.loop1, v2_strContains, strContains, add1, id]
    by_cases h1 : Lists.contains id l x = true <;> by_cases h2 : x = [] <;> simp [h1, h2]
  simp [V2.StringList_Add, forRange, forRangeFrom_fold _ _ hb, strAdd]

theorem v2_tagAdd (u ps : List Str) : V2.TagList_Add u ps = some (tagAdd u ps) := by
  have hb : ∀ (i : Int) (x : Str) (l : List Str), V2.TagList_Add.loop1 i x l = some (.next (add1 normTag [] l x)) := by
    intro i x l
    simp only [V2.TagList_Add.loop1, v2_tagContains, tagContains, add1, normTag]
    by_cases h1 : Lists.contains normTag l (goLower (trimSpace x)) = true <;> by_cases h2 : goLower (trimSpace x) = [] <;>
      simp [h1, h2, normTag]
  simp [V2.TagList_Add, forRange, forRangeFrom_fold _ _ hb, tagAdd]

section
variable {α : Type} [DecidableEq α]
theorem remove1_not_mem (l : List α) (v : α) (h : v ∉ l) : remove1 id l v = l := by
  unfold remove1 id; exact List.erase_of_not_mem h
theorem remove1_hit (pre ts : List α) (v : α) (h : v ∉ pre) : remove1 id (pre ++ v :: ts) v = pre ++ ts := by
  unfold remove1 id; rw [List.erase_append_right _ h]; simp
end

/-- the inner loop of `Remove`: delete the first element equal to `v` (then `break`) -/
theorem v2_strRemove_inner (v : Str) : ∀ (ts pre : List Str), v ∉ pre →
    forRangeFrom (V2.StringList_Remove.loop2 v) (pre.length : Int) ts (pre ++ ts) = some (.done (remove1 id (pre ++ ts) v)) := by
  intro ts
  induction ts with
  | nil => intro pre h; simp only [forRangeFrom, List.append_nil]; rw [remove1_not_mem _ _ h]
  | cons t ts ih =>
    intro pre h
    by_cases ht : t = v
    · subst ht
      have e1 : sliceTo (pre ++ t :: ts) (pre.length : Int) = some pre := by
        rw [sliceTo_nat _ _ (by simp)]; simp
      have e2 : sliceFrom (pre ++ t :: ts) ((pre.length : Int) + 1) = some ts := by
        have : ((pre.length : Int) + 1) = ((pre.length + 1 : Nat) : Int) := by simp
        rw [this, sliceFrom_nat _ _ (by simp)]; simp
      simp [forRangeFrom, V2.StringList_Remove.loop2, e1, e2, remove1_hit _ _ _ h]
    · have h' : v ∉ pre ++ [t] := by simp [h]; exact fun e => ht e.symm
      have := ih (pre ++ [t]) h'
      simp only [List.length_append, List.length_singleton, Int.natCast_add, Int.natCast_one, List.append_assoc,
        List.singleton_append] at this
      simp [forRangeFrom, V2.StringList_Remove.loop2, ht, this]

theorem v2_strRemove (u ps : List Str) : V2.StringList_Remove u ps = some (strRemove u ps) := by
  have hb : ∀ (i : Int) (x : Str) (l : List Str), V2.StringList_Remove.loop1 i x l = some (.next (remove1 id l x)) := by
    intro i x l
    have := v2_strRemove_inner x l [] (by simp)
    simp only [List.length_nil, Int.natCast_zero, List.nil_append] at this
    simp [V2.StringList_Remove.loop1, forRange, this]
  simp [V2.StringList_Remove, forRange, forRangeFrom_fold _ _ hb, strRemove]

theorem v2_tagRemove_inner (v : Str) : ∀ (ts pre : List Str), v ∉ pre →
    forRangeFrom (V2.TagList_Remove.loop2 v) (pre.length : Int) ts (pre ++ ts) = some (.done (remove1 id (pre ++ ts) v)) := by
  intro ts
  induction ts with
  | nil => intro pre h; simp only [forRangeFrom, List.append_nil]; rw [remove1_not_mem _ _ h]
  | cons t ts ih =>
    intro pre h
    by_cases ht : t = v
    · subst ht
      have e1 : sliceTo (pre ++ t :: ts) (pre.length : Int) = some pre := by
        rw [sliceTo_nat _ _ (by simp)]; simp
      have e2 : sliceFrom (pre ++ t :: ts) ((pre.length : Int) + 1) = some ts := by
        have : ((pre.length : Int) + 1) = ((pre.length + 1 : Nat) : Int) := by simp
        rw [this, sliceFrom_nat _ _ (by simp)]; simp
      simp [forRangeFrom, V2.TagList_Remove.loop2, e1, e2, remove1_hit _ _ _ h]
    · have h' : v ∉ pre ++ [t] := by simp [h]; exact fun e => ht e.symm
      have := ih (pre ++ [t]) h'
      simp only [List.length_append, List.length_singleton, Int.natCast_add, Int.natCast_one, List.append_assoc,
        List.singleton_append] at this
      simp [forRangeFrom, V2.TagList_Remove.loop2, ht, this]

theorem v2_tagRemove (u ps : List Str) : V2.TagList_Remove u ps = some (tagRemove u ps) := by
  have hb : ∀ (i : Int) (x : Str) (l : List Str), V2.TagList_Remove.loop1 i x l = some (.next (remove1 normTag l x)) := by
    intro i x l
    have := v2_tagRemove_inner (goLower (trimSpace x)) l [] (by simp)
    simp only [List.length_nil, Int.natCast_zero, List.nil_append] at this
    simp [V2.TagList_Remove.loop1, forRange, this, remove1, normTag]
  simp [V2.TagList_Remove, forRange, forRangeFrom_fold _ _ hb, tagRemove]

/-- `CIDRList` delegates to `TagList`; `Set` resets and adds the comma-separated, lower-cased entries -/
theorem v2_cidrContains (c : List Str) (p : Str) : V2.CIDRList_Contains c p = some (tagContains c p) := by
  simp [V2.CIDRList_Contains, v2_tagContains]
theorem v2_cidrAdd (c ps : List Str) : V2.CIDRList_Add c ps = some (tagAdd c ps) := by
  simp [V2.CIDRList_Add, v2_tagAdd]
theorem v2_cidrRemove (c ps : List Str) : V2.CIDRList_Remove c ps = some (tagRemove c ps) := by
  simp [V2.CIDRList_Remove, v2_tagRemove]
theorem v2_cidrSet (c : List Str) (values : Str) : V2.CIDRList_Set c values = some (cidrSet values) := by
  simp [V2.CIDRList_Set, v2_cidrAdd, cidrSet, GoRt.split]

/-! ## C09: revocation lists (a Go map = `some` association list; `none` = nil map) -/
open Jwt.Rev

theorem mapLookup_eq (k : Str) (m : M Str) : mapLookup k m = Rev.lookup k m := by
  induction m with
  | nil => rfl
  | cons p r ih => cases p; simp [mapLookup, Rev.lookup, ih]

/-- `Revoke` on an allocated map -/
theorem v2_revoke (m : M Str) (k : Str) (t : Int) :
    V2.RevocationList_Revoke (some m) k t = some (some (Rev.revoke m k t)) := by
  unfold V2.RevocationList_Revoke Rev.revoke
  simp only [mapGet, mapLookup_eq, mapSet, Rev.erase]
  cases h : Rev.lookup k m with
  | none => simp
  | some ts => by_cases h2 : ts > t <;> simp [h2]

/-- `Revoke` on a nil map panics (Go: assignment to entry in nil map); the wrappers `RevokeAt` allocate first -/
theorem v2_revoke_nil (k : Str) (t : Int) : V2.RevocationList_Revoke none k t = none := by
  simp [V2.RevocationList_Revoke, mapGet, mapSet]

theorem v2_clear (m : M Str) (k : Str) : V2.RevocationList_ClearRevocation (some m) k = some (some (Rev.clear m k)) := by
  simp [V2.RevocationList_ClearRevocation, mapDelete, Rev.clear, Rev.erase]

theorem v2_clear_nil (k : Str) : V2.RevocationList_ClearRevocation none k = some none := by
  simp [V2.RevocationList_ClearRevocation, mapDelete]

theorem v2_isRevoked (m : M Str) (k : Str) (t : Int) :
    V2.RevocationList_IsRevoked (some m) k t = some (Rev.isRevoked ['*'] m k t) := by
  unfold V2.RevocationList_IsRevoked V2.RevocationList_allRevoked Rev.isRevoked Rev.geOpt
  simp only [mapGet, mapLookup_eq]
  cases h1 : Rev.lookup ['*'] m <;> cases h2 : Rev.lookup k m <;> simp
  all_goals (first | (split <;> simp_all <;> omega) | skip)

theorem v2_isRevoked_nil (k : Str) (t : Int) : V2.RevocationList_IsRevoked none k t = some false := by
  simp [V2.RevocationList_IsRevoked, V2.RevocationList_allRevoked, mapGet]

/-! `MaybeCompact`: one pass over a snapshot of the entries, deleting the covered ones from the live map -/

def toEntry (p : Str × Int) : V2.T_RevocationEntry := { f_PublicKey := p.1, f_TimeStamp := p.2 }

/-- the entries `MaybeCompact` removes -/
def dropB (ats : Int) (p : Str × Int) : Bool := (p.1 != ['*']) && decide (ats ≥ p.2)

def compactStep (ats : Int) (st : GoMap Str Int × List V2.T_RevocationEntry) (e : Str × Int) :
    GoMap Str Int × List V2.T_RevocationEntry :=
  if dropB ats e then (mapDelete st.1 e.1, st.2 ++ [toEntry e]) else st

theorem compact_loop_step (ats : Int) (i : Int) (e : Str × Int) (st : GoMap Str Int × List V2.T_RevocationEntry) :
    V2.RevocationList_MaybeCompact.loop1 ats i e st = some (.next (compactStep ats st e)) := by
  obtain ⟨k, ts⟩ := e
  obtain ⟨r, d⟩ := st
  by_cases h : dropB ats (k, ts) = true
  · have h' := h; simp only [dropB] at h'
    simp [V2.RevocationList_MaybeCompact.loop1, compactStep, h, h', toEntry]
  · have h' := h; simp only [dropB] at h'
    simp [V2.RevocationList_MaybeCompact.loop1, compactStep, h, h']

theorem compact_fold (ats : Int) : ∀ (es cur : List (Str × Int)) (d : List V2.T_RevocationEntry),
    es.foldl (compactStep ats) (some cur, d) =
      (some (cur.filter (fun p => decide (p.1 ∉ (es.filter (dropB ats)).map (·.1)))), d ++ (es.filter (dropB ats)).map toEntry) := by
  intro es
  induction es with
  | nil =>
    intro cur d
    have : cur.filter (fun _ => true) = cur := List.filter_eq_self.mpr (fun _ _ => rfl)
    simp [this]
  | cons e es ih =>
    intro cur d
    by_cases h : dropB ats e = true
    · simp only [List.foldl_cons, compactStep, h, if_true, mapDelete, ih, List.filter_cons_of_pos h, List.map_cons,
        List.filter_filter, List.append_assoc, List.singleton_append]
      congr 2
      apply List.filter_congr
      intro p _
      by_cases hp : p.1 = e.1 <;> simp [hp]
    · simp only [Bool.not_eq_true] at h
      simp only [List.foldl_cons, compactStep, h, Bool.false_eq_true, if_false, ih, List.filter_cons_of_neg (by simp [h] : ¬ dropB ats e = true)]

theorem eq_of_key_eq : ∀ (m : List (Str × Int)), (Rev.keys m).Nodup → ∀ p q, p ∈ m → q ∈ m → p.1 = q.1 → p = q := by
  intro m
  induction m with
  | nil => intro _ p q hp; cases hp
  | cons a m ih =>
    intro hnd p q hp hq hk
    simp only [Rev.keys, List.map_cons, List.nodup_cons, List.mem_map, not_exists, not_and] at hnd
    simp only [List.mem_cons] at hp hq
    rcases hp with rfl | hp <;> rcases hq with rfl | hq
    · rfl
    · exact absurd hk.symm (hnd.1 q hq)
    · exact absurd hk (hnd.1 p hp)
    · exact ih hnd.2 p q hp hq hk

theorem v2_maybeCompact (m : M Str) (hnd : (Rev.keys m).Nodup) :
    V2.RevocationList_MaybeCompact (some m) =
      some (some (Rev.compact ['*'] m).1, (Rev.compact ['*'] m).2.map toEntry) := by
  unfold V2.RevocationList_MaybeCompact Rev.compact
  simp only [mapGet, mapLookup_eq, mapEntries, forRange]
  cases h : Rev.lookup ['*'] m with
  | none => simp
  | some ats =>
    have hf := forRangeFrom_fold (ρ := GoMap Str Int × List V2.T_RevocationEntry) (V2.RevocationList_MaybeCompact.loop1 ats)
      (compactStep ats) (fun i x s => compact_loop_step ats i x s) m 0 (some m, [])
    simp only [Option.getD_some, Option.isSome_some, if_true, hf, compact_fold]
    have e1 : m.filter (fun p => decide (p.1 ∉ (m.filter (dropB ats)).map (·.1))) = m.filter (fun p => decide (p.1 = ['*'] ∨ ¬ ats ≥ p.2)) := by
      apply List.filter_congr
      intro p hp
      have : (p.1 ∈ (m.filter (dropB ats)).map (·.1)) ↔ dropB ats p = true := by
        constructor
        · intro hmem
          obtain ⟨q, hq, hk⟩ := List.mem_map.mp hmem
          have hq' := List.mem_filter.mp hq
          have := eq_of_key_eq m hnd q p hq'.1 hp hk
          exact this ▸ hq'.2
        · intro hd; exact List.mem_map.mpr ⟨p, List.mem_filter.mpr ⟨hp, hd⟩, rfl⟩
      by_cases hd : dropB ats p = true
      · have hd' := hd; simp only [dropB, Bool.and_eq_true, bne_iff_ne, ne_eq, decide_eq_true_eq] at hd'
        simp [this, hd, hd'.1, hd'.2]
      · have hd' := hd; simp only [dropB, Bool.and_eq_true, bne_iff_ne, ne_eq, decide_eq_true_eq, not_and] at hd'
        simp only [this, hd, not_false_eq_true, decide_true]
        by_cases hk : p.1 = ['*'] <;> simp [hk]
        have := hd' hk; omega
    have e2 : m.filter (dropB ats) = m.filter (fun p => decide (p.1 ≠ ['*'] ∧ ats ≥ p.2)) := by
      apply List.filter_congr; intro p _; simp [dropB, bne, Bool.beq_eq_decide_eq]
    rw [e1, e2]; simp

/-- on a nil map `MaybeCompact` does nothing -/
theorem v2_maybeCompact_nil : V2.RevocationList_MaybeCompact none = some (none, []) := by
  simp [V2.RevocationList_MaybeCompact, mapGet]

/-! ## C18: `cleanSubject` -/

theorem joinWith_dot : ∀ (ts : List Str), joinWith ts ['.'] = join '.' ts := by
  intro ts
  induction ts with
  | nil => rfl
  | cons t r ih =>
    cases r with
    | nil => rfl
    | cons a b => simp [joinWith, join, ih]

theorem isWild_eq (t : Str) : ((t == ['*']) || (t == ['>'])) = isWild t := by
  simp [isWild, Bool.beq_eq_decide_eq]

theorem v2_clean_loop : ∀ (ts pre : List Str),
    forRangeFrom (V2.cleanSubject.loop1 (pre ++ ts)) (pre.length : Int) ts ([] : Str) =
      some (.done (match cleanToks ts with
                   | none => []
                   | some q => if pre ++ q = [] then ['_'] else join '.' (pre ++ q))) := by
  intro ts
  induction ts with
  | nil => intro pre; simp [forRangeFrom, cleanToks]
  | cons t ts ih =>
    intro pre
    by_cases hw : isWild t = true
    · have e1 : sliceTo (pre ++ t :: ts) (pre.length : Int) = some pre := by
        rw [sliceTo_nat _ _ (by simp)]; simp
      by_cases hp : pre = []
      · subst hp; simp [forRangeFrom, V2.cleanSubject.loop1, isWild_eq, hw, cleanToks]
      · have hz : ¬ ((pre.length : Int) = 0) := by
          have : pre.length ≠ 0 := by simpa using hp
          omega
        simp [forRangeFrom, V2.cleanSubject.loop1, isWild_eq, hw, cleanToks, e1, joinWith_dot, hz, hp]
    · simp only [Bool.not_eq_true] at hw
      have := ih (pre ++ [t])
      simp only [List.length_append, List.length_singleton, Int.natCast_add, Int.natCast_one, List.append_assoc,
        List.singleton_append] at this
      simp only [forRangeFrom, V2.cleanSubject.loop1, isWild_eq, hw, Bool.false_eq_true, if_false, pure, this, cleanToks]
      cases cleanToks ts <;> simp

theorem v2_cleanSubject (s : Str) : V2.cleanSubject s = some (Jwt.cleanSubject s) := by
  unfold V2.cleanSubject Jwt.cleanSubject
  have hl := v2_clean_loop (splitOn '.' s) []
  simp only [List.length_nil, Int.natCast_zero, List.nil_append] at hl
  simp only [GoRt.split, forRange, hl]
  cases hs : splitOn '.' s with
  | nil => exact absurd hs (splitOn_ne_nil _ _)
  | cons t r =>
    by_cases hw : isWild t = true
    · simp [cleanToks, hw]
    · simp only [Bool.not_eq_true] at hw
      simp only [cleanToks, hw, Bool.false_eq_true, if_false]
      cases cleanToks r with
      | none => simp
      | some q => by_cases hj : join '.' (t :: q) = [] <;> simp [hj]

theorem v1_cleanSubject_eq_v2 : V1.cleanSubject = V2.cleanSubject := rfl

theorem v1_cleanSubject (s : Str) : V1.cleanSubject s = some (Jwt.cleanSubject s) := by
  rw [v1_cleanSubject_eq_v2]; exact v2_cleanSubject s

/-! ## C05: `Header.Valid` (an `error` result is `true` when non-nil) -/

theorem v2_headerValid (t a : Str) :
    V2.Header_Valid { f_Type := t, f_Algorithm := a } = some (!headerValid { typ := t, alg := a }) := by
  unfold V2.Header_Valid headerValid
  simp only [Gen.V2.cTokenTypeJwt, Gen.V2.cAlgorithmNkeyOld, Gen.V2.cAlgorithmNkey, hasPrefix, bne, Bool.beq_eq_decide_eq]
  generalize goLower a = x
  generalize goUpper t = y
  by_cases h1 : ['J', 'W', 'T'] = y
  · subst h1
    by_cases h3 : x = ['e', 'd', '2', '5', '5', '1', '9']
    · subst h3; decide
    · by_cases h4 : x = ['e', 'd', '2', '5', '5', '1', '9', '-', 'n', 'k', 'e', 'y']
      · subst h4; decide
      · have h3' : ¬ (['e', 'd', '2', '5', '5', '1', '9'] = x) := fun e => h3 e.symm
        have h4' : ¬ (['e', 'd', '2', '5', '5', '1', '9', '-', 'n', 'k', 'e', 'y'] = x) := fun e => h4 e.symm
        cases h2 : isPrefixB ['e', 'd', '2', '5', '5', '1', '9'] x <;> simp [h3', h4']
  · simp [h1]

/-! ## C07 / C06: validation results, time checks, subjects and permissions -/

def toGenIssue (i : Issue) : V2.T_ValidationIssue := { f_Description := [], f_Blocking := i.blocking, f_TimeCheck := i.timeCheck }
def ofGenIssue (i : V2.T_ValidationIssue) : Issue := ⟨i.f_Blocking, i.f_TimeCheck⟩

/-- append model issues to a translated `ValidationResults` -/
def push (vr : V2.T_ValidationResults) (is : List Issue) : V2.T_ValidationResults :=
  { vr with f_Issues := vr.f_Issues ++ is.map toGenIssue }

@[simp] theorem push_nil (vr : V2.T_ValidationResults) : push vr [] = vr := by simp [push]
theorem push_push (vr : V2.T_ValidationResults) (a b : List Issue) : push (push vr a) b = push vr (a ++ b) := by
  simp [push]

theorem v2_addError (vr : V2.T_ValidationResults) (f : Str) (a : List Unit) :
    V2.ValidationResults_AddError vr f a = some (push vr errI) := by
  simp [V2.ValidationResults_AddError, V2.ValidationResults_Add, push, errI, toGenIssue]
theorem v2_addWarning (vr : V2.T_ValidationResults) (f : Str) (a : List Unit) :
    V2.ValidationResults_AddWarning vr f a = some (push vr warnI) := by
  simp [V2.ValidationResults_AddWarning, V2.ValidationResults_Add, push, warnI, toGenIssue]
theorem v2_addTimeCheck (vr : V2.T_ValidationResults) (f : Str) (a : List Unit) :
    V2.ValidationResults_AddTimeCheck vr f a = some (push vr timeI) := by
  simp [V2.ValidationResults_AddTimeCheck, V2.ValidationResults_Add, push, timeI, toGenIssue]

theorem v2_isBlocking (vr : V2.T_ValidationResults) (b : Bool) :
    V2.ValidationResults_IsBlocking vr b = some (isBlocking (vr.f_Issues.map ofGenIssue) b) := by
  have hb : ∀ (i : Int) (x : V2.T_ValidationIssue), V2.ValidationResults_IsBlocking.loop1 b i x () =
      some (if (x.f_Blocking || (b && x.f_TimeCheck)) then .ret true else .next ()) := by
    intro i x
    cases h1 : x.f_Blocking <;> cases h2 : x.f_TimeCheck <;> cases b <;> simp [V2.ValidationResults_IsBlocking.loop1, h1, h2]
  simp only [V2.ValidationResults_IsBlocking, forRange, forRangeFrom_search _ _ true hb, isBlocking, List.any_map]
  cases h : vr.f_Issues.any (fun x => x.f_Blocking || (b && x.f_TimeCheck)) <;> simp [h, ofGenIssue, Function.comp_def]

/-- `ClaimsData.Validate`: exactly the two time checks, against the `now` the caller's clock gives -/
theorem v2_claimsDataValidate (c : V2.T_ClaimsData) (vr : V2.T_ValidationResults) (now : Int) :
    V2.ClaimsData_Validate c vr now = some (push vr
      ((if c.f_Expires > 0 ∧ now > c.f_Expires then timeI else []) ++
       (if c.f_NotBefore > 0 ∧ c.f_NotBefore > now then timeI else []))) := by
  unfold V2.ClaimsData_Validate
  have e1 : (decide (c.f_Expires > 0) && decide (now > c.f_Expires)) = decide (c.f_Expires > 0 ∧ now > c.f_Expires) := by simp
  have e2 : (decide (c.f_NotBefore > 0) && decide (c.f_NotBefore > now)) = decide (c.f_NotBefore > 0 ∧ c.f_NotBefore > now) := by simp
  simp only [e1, e2]
  by_cases h1 : c.f_Expires > 0 ∧ now > c.f_Expires <;> by_cases h2 : c.f_NotBefore > 0 ∧ c.f_NotBefore > now <;>
    simp [h1, h2, v2_addTimeCheck, push_push]

/-- `Subject.Validate` -/
theorem v2_subjectValidate (s : Str) (vr : V2.T_ValidationResults) :
    V2.Subject_Validate s vr = some (push vr (validateSubject s)) := by
  unfold V2.Subject_Validate validateSubject
  by_cases h0 : s = []
  · subst h0; simp [v2_addError]
  · obtain ⟨b0, hb0, e0⟩ := strByte_first s h0
    obtain ⟨b1, hb1, e1⟩ := strByte_last s h0
    have hsp : GoRt.contains s [' '] = hasSpace s := by rw [contains_single]; rfl
    have hdd : GoRt.contains s ['.', '.'] = isInfixB ['.', '.'] s := rfl
    have hne : (s == ([] : Str)) = false := by simpa using h0
    have hB : (b0 = 46) ↔ (s.head? = some '.') := by
      have := congrArg (· = true) e0; simpa using this
    have hC : ((b1 == 46) = true) ↔ (s.getLast? = some '.') := by
      have := congrArg (· = true) e1; simpa using this
    simp only [hne, Bool.false_eq_true, if_false, hsp, hdd, hb0, hb1, v2_addError, if_neg h0]
    simp only [bind, Option.bind, pure]
    by_cases hA : hasSpace s = true <;> by_cases hb : s.head? = some '.' <;> by_cases hc : s.getLast? = some '.' <;>
      by_cases hd : isInfixB ['.', '.'] s = true <;>
      simp [errIf, push_push, hA, hB, hb, hC, hc, hd]

/-- `checkPermission` -/
theorem v2_checkPermission (vr : V2.T_ValidationResults) (subj : Str) (pq : Bool) :
    V2.checkPermission vr subj pq = some (push vr (Jwt.checkPermission subj pq)) := by
  unfold V2.checkPermission Jwt.checkPermission
  simp only [GoRt.split]
  cases h : splitOn ' ' subj with
  | nil => exact absurd h (splitOn_ne_nil _ _)
  | cons a r =>
    cases r with
    | nil => simp [len, idx_zero, v2_subjectValidate]
    | cons b r2 =>
      cases r2 with
      | nil =>
        have i1 : idx [a, b] 1 = some b := by have := idx_nat [a, b] 1; simpa using this
        cases pq <;> simp [len, idx_zero, i1, v2_subjectValidate, v2_addError, push_push, errIf]
      | cons c r3 =>
        have : ¬ ((r3.length : Int) + 1 + 1 + 1 = 1) := by omega
        have : ¬ ((r3.length : Int) + 1 + 1 + 1 = 2) := by omega
        simp [len, v2_addError, *]

theorem v2_permissionValidate (al dn : List Str) (vr : V2.T_ValidationResults) (pq : Bool) :
    V2.Permission_Validate { f_Allow := al, f_Deny := dn } vr pq =
      some (push vr ((al ++ dn).flatMap (Jwt.checkPermission · pq))) := by
  have h1 : ∀ (i : Int) (x : Str) (st : V2.T_ValidationResults),
      V2.Permission_Validate.loop1 pq i x st = some (.next (push st (Jwt.checkPermission x pq))) := by
    intro i x st; simp [V2.Permission_Validate.loop1, v2_checkPermission]
  have h2 : ∀ (i : Int) (x : Str) (st : V2.T_ValidationResults),
      V2.Permission_Validate.loop2 pq i x st = some (.next (push st (Jwt.checkPermission x pq))) := by
    intro i x st; simp [V2.Permission_Validate.loop2, v2_checkPermission]
  have hf : ∀ (xs : List Str) (st : V2.T_ValidationResults),
      xs.foldl (fun st x => push st (Jwt.checkPermission x pq)) st = push st (xs.flatMap (Jwt.checkPermission · pq)) := by
    intro xs
    induction xs with
    | nil => intro st; simp
    | cons x xs ih => intro st; simp [ih, push_push]
  simp [V2.Permission_Validate, forRange, forRangeFrom_fold _ _ h1, forRangeFrom_fold _ _ h2, hf, push_push]

/-! ## C09: the account- and export-level wrappers (fail-closed guards, allocation of the map) -/

theorem v2_isRevoked_any (r : GoMap Str Int) (k : Str) (t : Int) :
    V2.RevocationList_IsRevoked r k t = some (Rev.isRevoked ['*'] (mapEntries r) k t) := by
  cases r with
  | none => simp [v2_isRevoked_nil, mapEntries, Rev.isRevoked, Rev.geOpt, Rev.lookup]
  | some m => simp [v2_isRevoked, mapEntries]

/-- `AccountClaims.IsClaimRevoked`: a nil claim, a zero issue time or an empty subject is revoked -/
theorem v2_acct_isClaimRevoked (a : V2.T_AccountClaims) (claim : Option V2.T_UserClaims) :
    V2.AccountClaims_IsClaimRevoked a claim =
      some (Rev.isClaimRevoked ['*'] [] (mapEntries a.f_Account.f_Revocations)
        (claim.map fun c => (c.f_ClaimsData.f_Subject, c.f_ClaimsData.f_IssuedAt))) := by
  unfold V2.AccountClaims_IsClaimRevoked V2.AccountClaims_isRevoked Rev.isClaimRevoked
  cases claim with
  | none => simp
  | some c =>
    by_cases h1 : c.f_ClaimsData.f_IssuedAt = 0 <;> by_cases h2 : c.f_ClaimsData.f_Subject = [] <;>
      simp [h1, h2, v2_isRevoked_any]

theorem v2_export_isClaimRevoked (e : V2.T_Export) (claim : Option V2.T_ActivationClaims) :
    V2.Export_IsClaimRevoked e claim =
      some (Rev.isClaimRevoked ['*'] [] (mapEntries e.f_Revocations)
        (claim.map fun c => (c.f_ClaimsData.f_Subject, c.f_ClaimsData.f_IssuedAt))) := by
  unfold V2.Export_IsClaimRevoked V2.Export_isRevoked Rev.isClaimRevoked
  cases claim with
  | none => simp
  | some c =>
    by_cases h1 : c.f_ClaimsData.f_IssuedAt = 0 <;> by_cases h2 : c.f_ClaimsData.f_Subject = [] <;>
      simp [h1, h2, v2_isRevoked_any]

/-- `AccountClaims.RevokeAt` allocates a nil map, then revokes: never panics -/
theorem v2_acct_revokeAt (a : V2.T_AccountClaims) (k : Str) (t : Int) :
    V2.AccountClaims_RevokeAt a k t =
      some { a with f_Account := { a.f_Account with f_Revocations := some (Rev.revoke (mapEntries a.f_Account.f_Revocations) k t) } } := by
  unfold V2.AccountClaims_RevokeAt
  cases h : a.f_Account.f_Revocations with
  | none => simp [h, v2_revoke, mapEntries]
  | some m => simp [h, v2_revoke, mapEntries]

theorem v2_acct_revoke_now (a : V2.T_AccountClaims) (k : Str) (now : Int) :
    V2.AccountClaims_Revoke a k now = V2.AccountClaims_RevokeAt a k now := by
  simp [V2.AccountClaims_Revoke]

theorem v2_acct_clearRevocation (a : V2.T_AccountClaims) (k : Str) :
    V2.AccountClaims_ClearRevocation a k =
      some { a with f_Account := { a.f_Account with f_Revocations := a.f_Account.f_Revocations.map (Rev.clear · k) } } := by
  unfold V2.AccountClaims_ClearRevocation
  cases h : a.f_Account.f_Revocations with
  | none => simp [h, v2_clear_nil]
  | some m => simp [h, v2_clear]

theorem v2_export_revokeAt (e : V2.T_Export) (k : Str) (t : Int) :
    V2.Export_RevokeAt e k t = some { e with f_Revocations := some (Rev.revoke (mapEntries e.f_Revocations) k t) } := by
  unfold V2.Export_RevokeAt
  cases h : e.f_Revocations with
  | none => simp [h, v2_revoke, mapEntries]
  | some m => simp [h, v2_revoke, mapEntries]

theorem v2_export_clearRevocation (e : V2.T_Export) (k : Str) :
    V2.Export_ClearRevocation e k = some { e with f_Revocations := e.f_Revocations.map (Rev.clear · k) } := by
  unfold V2.Export_ClearRevocation
  cases h : e.f_Revocations with
  | none => simp [h, v2_clear_nil]
  | some m => simp [h, v2_clear]

/-! ## C05 / C02: what a payload declares (`identifier.Kind`, `identifier.Version`), read through the struct tags -/

theorem v2_identifier (id : Jwt.Val) :
    V2.identifier_Kind (V2.T_identifier.ofVal id) =
      some (if (id.field "type").asStr ≠ [] then (id.field "type").asStr else ((id.field "nats").field "type").asStr) ∧
    V2.identifier_Version (V2.T_identifier.ofVal id) =
      some (if (id.field "type").asStr ≠ [] then 1 else ((id.field "nats").field "version").asInt) := by
  unfold V2.identifier_Kind V2.identifier_Version V2.T_identifier.ofVal V2.T_GenericFields.ofVal
  by_cases h : (id.field "type").asStr = [] <;> simp [h]

/-- the v1compat header test: type JWT (upper-cased) and exactly the legacy algorithm name -/
theorem v1_headerValid (t a : Str) :
    V1.Header_Valid { f_Type := t, f_Algorithm := a } = some (!Jwt.V1.headerValid { typ := t, alg := a }) := by
  unfold V1.Header_Valid Jwt.V1.headerValid
  simp only [Gen.V1.cTokenTypeJwt, Gen.V1.cAlgorithmNkey, bne, Bool.beq_eq_decide_eq]
  generalize goLower a = x
  generalize goLower t = y
  by_cases h1 : ['j', 'w', 't'] = y
  · subst h1
    by_cases h3 : x = ['e', 'd', '2', '5', '5', '1', '9']
    · subst h3; decide
    · by_cases h4 : x = ['e', 'd', '2', '5', '5', '1', '9', '-', 'n', 'k', 'e', 'y'] <;> simp [h3, h4]
  · simp [h1]

/-! ## C06: exports — `ServiceLatency.Validate`, `Export.Validate` (catalogue rows E0–E13), read through the struct tags -/

theorem v2_latencyValidate (l : Jwt.Val) (vr : V2.T_ValidationResults) :
    V2.ServiceLatency_Validate (V2.T_ServiceLatency.ofVal l) vr = some (push vr (validateLatency l)) := by
  unfold V2.ServiceLatency_Validate validateLatency V2.T_ServiceLatency.ofVal
  simp only [v2_subjectValidate, v2_hasWildCards, v2_addError]
  generalize (l.field "sampling").asInt = sm
  generalize (l.field "results").asStr = r
  by_cases h0 : sm = 0
  · subst h0
    cases hw : hasWildCards r <;> simp [errIf, push_push, hw]
  · have h0' : (sm != 0) = true := by simpa using h0
    by_cases h1 : sm < 1 <;> by_cases h2 : sm > 100 <;> cases hw : hasWildCards r <;>
      simp [errIf, push_push, hw, h0, h0', h1, h2] <;> omega

theorem ite_some {α : Type} (c : Prop) [Decidable c] (a b : α) : (if c then some a else some b) = some (if c then a else b) := by
  by_cases h : c <;> simp [h]
theorem ite_and (a b : Bool) : (if a = true then b else false) = (a && b) := by cases a <;> simp
theorem ite_or (a b : Bool) : (if a = true then true else b) = (a || b) := by cases a <;> simp
theorem push_ite (c : Prop) [Decidable c] (vr : V2.T_ValidationResults) (is : List Issue) :
    (if c then push vr is else vr) = push vr (if c then is else []) := by
  by_cases h : c <;> simp [h]

/-- what translated code reads of a parsed URL, from the model's `URL` -/
def toGenURL (u : URL) : V2.T_url_URL :=
  { f_Scheme := u.scheme, f_Path := u.path, f_User := if u.hasUser then some () else none, m_Hostname := u.hostname }

/-- `Info.Validate` (rows I1-I3); `url.Parse` is a parameter (`opq.url_Parse`) assumed to behave as the model
environment's `urlParse`; `len(s)` of a string is its UTF-8 byte length -/
theorem v2_infoValidate (env : VEnv) (opq : V2.Opq)
    (hUrl : ∀ x, opq.url_Parse x = (env.urlParse x).map toGenURL)
    (e : Jwt.Val) (vr : V2.T_ValidationResults) :
    V2.Info_Validate (V2.T_Info.ofVal e) vr opq = some (push vr (validateInfo env e)) := by
  unfold V2.Info_Validate validateInfo
  simp only [V2.T_Info.ofVal, strLen, hUrl, Gen.V2.cMaxInfoLength]
  have h8 : ∀ s : Str, decide ((utf8Len s : Int) > 8192) = decide (utf8Len s > (8192 : Int).toNat) := by
    intro s; congr 1; apply propext; constructor <;> intro h <;> omega
  by_cases hu : (e.field "info_url").asStr = []
  · simp [hu, h8, v2_addError, errIf, push_ite, ite_some]
  · cases hp : env.urlParse (e.field "info_url").asStr with
    | none => simp [hu, h8, v2_addError, errIf, push_ite, push_push, ite_some]
    | some u =>
      by_cases hh : u.hostname = [] <;> by_cases hs : u.scheme = [] <;>
        simp [hu, h8, v2_addError, errIf, push_ite, push_push, ite_some, toGenURL, hh, hs]

/-- `Export.Validate` on the pointer value an exports list holds, read through the struct tags; `Info.Validate` is a
parameter (`opq`) assumed to behave as the model's `validateInfo` -/
theorem v2_exportValidate (env : VEnv) (opq : V2.Opq)
    (hInfo : ∀ (e : Jwt.Val) (vr : V2.T_ValidationResults),
      V2.Info_Validate (V2.T_Info.ofVal e) vr opq = some (push vr (validateInfo env e)))
    (ev : Jwt.Val) (vr : V2.T_ValidationResults) :
    V2.Export_Validate (optOfVal V2.T_Export.ofVal ev) vr opq = some (push vr (validateExport env ev)) := by
  unfold V2.Export_Validate validateExport
  cases hd : ev.deref with
  | none =>
    have : optOfVal V2.T_Export.ofVal ev = none := by
      cases ev <;> simp [Jwt.Val.deref, optOfVal] at hd ⊢
    simp [this, v2_addError]
  | some e =>
    have hev : optOfVal V2.T_Export.ofVal ev = some (V2.T_Export.ofVal e) := by
      cases ev <;> simp [Jwt.Val.deref, optOfVal] at hd ⊢
      exact congrArg _ hd
    rw [hev]
    have hS : (['S', 'i', 'n', 'g', 'l', 'e', 't', 'o', 'n'] : Str) = Gen.V2.cResponseTypeSingleton := rfl
    have hC : (['C', 'h', 'u', 'n', 'k', 'e', 'd'] : Str) = Gen.V2.cResponseTypeChunked := rfl
    have hT : (['S', 't', 'r', 'e', 'a', 'm'] : Str) = Gen.V2.cResponseTypeStream := rfl
    -- the latency block
    have hlat : ∀ (w : V2.T_ValidationResults),
        (match optOfVal V2.T_ServiceLatency.ofVal (e.field "service_latency") with
          | none => none
          | some l => V2.ServiceLatency_Validate l w) =
        (match (e.field "service_latency").deref with
          | none => none
          | some l => some (push w (validateLatency l))) := by
      intro w
      cases hl : e.field "service_latency" <;> simp [optOfVal, Jwt.Val.deref, v2_latencyValidate]
    -- the token position block
    simp only [Option.isNone_some, Bool.false_eq_true, if_false, V2.Export_IsService, V2.Export_IsStream,
      V2.Export_IsSingleResponse, V2.Export_IsChunkedResponse, V2.Export_IsStreamResponse, V2.T_Export.ofVal,
      v2_addError, v2_subjectValidate, v2_hasWildCards, hInfo, Option.pure_def, Option.bind_eq_bind, Option.bind_some,
      ite_some, ite_and, ite_or, push_ite, push_push, isService, isStream, hS, hC, hT]
    generalize (e.field "type").asInt = ty
    generalize (e.field "response_type").asStr = rt
    generalize (e.field "allow_trace").asBool = tr
    generalize (e.field "response_threshold").asInt = thr
    generalize (e.field "subject").asStr = subj
    generalize (e.field "account_token_position").asInt = pos
    have hsplit : len (split subj ['.']) = ((splitOn '.' subj).length : Int) := by simp [len, GoRt.split]
    simp only [hsplit]
    -- the token the position names, when it is in range
    have hidx : pos > 0 → ¬ pos > ((splitOn '.' subj).length : Int) →
        idx (split subj ['.']) (usub pos 1) = some ((splitOn '.' subj)[pos.toNat - 1]?.getD []) := by
      intro h1 h2
      have hu : usub pos 1 = ((pos.toNat - 1 : Nat) : Int) := by unfold usub; split <;> omega
      have hlt : pos.toNat - 1 < (splitOn '.' subj).length := by omega
      rw [hu, idx_nat]; simp [GoRt.split, hlt]
    cases hl : e.field "service_latency" <;>
      by_cases hp : pos > 0 <;> by_cases hw : hasWildCards subj = true <;>
      by_cases hlen : pos > ((splitOn '.' subj).length : Int) <;>
      simp [optOfVal, Jwt.Val.deref, validateExportLatency, v2_latencyValidate, validateTokenPos, validateExportStream,
        errIf, push_push, hp, hw, hlen, hidx]

/-! ## C06: mappings — `Mapping.Validate` (rows W1–W3; the weights are summed over the integers) -/

def effW (wm : V2.T_WeightedMapping) : Int := if wm.f_Weight = 0 then 100 else wm.f_Weight

theorem v2_getWeight (wm : V2.T_WeightedMapping) : V2.WeightedMapping_GetWeight wm = some (effW wm) := by
  unfold V2.WeightedMapping_GetWeight effW
  by_cases h : wm.f_Weight = 0 <;> simp [h]

/-- issues of one `from -> [weighted mappings]` entry -/
def mappingIssues (p : Str × List V2.T_WeightedMapping) : List Issue :=
  validateSubject p.1 ++ p.2.flatMap (fun wm => validateSubject wm.f_Subject) ++ errIf ((p.2.map effW).sum > 100)

theorem v2_mapping_inner (wms : List V2.T_WeightedMapping) :
    ∀ (i : Int) (vr : V2.T_ValidationResults) (t : Int),
    forRangeFrom (ρ := V2.T_ValidationResults) V2.Mapping_Validate.loop2 i wms (vr, t) =
      some (.done (push vr (wms.flatMap (fun wm => validateSubject wm.f_Subject)), t + (wms.map effW).sum)) := by
  induction wms with
  | nil => intro i vr t; simp [forRangeFrom]
  | cons w ws ih =>
    intro i vr t
    simp [forRangeFrom, V2.Mapping_Validate.loop2, v2_subjectValidate, v2_getWeight, ih, push_push, Int.add_assoc]

theorem v2_mappingValidate (m : GoMap Str (List V2.T_WeightedMapping)) (vr : V2.T_ValidationResults) :
    V2.Mapping_Validate m vr = some (push vr ((mapEntries m).flatMap mappingIssues)) := by
  have hb : ∀ (i : Int) (p : Str × List V2.T_WeightedMapping) (w : V2.T_ValidationResults),
      V2.Mapping_Validate.loop1 i p w = some (.next (push w (mappingIssues p))) := by
    intro i p w
    obtain ⟨frm, wms⟩ := p
    simp only [V2.Mapping_Validate.loop1, v2_subjectValidate, forRange, v2_mapping_inner, v2_addError, mappingIssues]
    by_cases h : (wms.map effW).sum > 100 <;> simp [h, errIf, push_push]
  have hf : ∀ (xs : List (Str × List V2.T_WeightedMapping)) (w : V2.T_ValidationResults),
      xs.foldl (fun st x => push st (mappingIssues x)) w = push w (xs.flatMap mappingIssues) := by
    intro xs
    induction xs with
    | nil => intro w; simp
    | cons x xs ih => intro w; simp [ih, push_push]
  simp [V2.Mapping_Validate, forRange, forRangeFrom_fold _ _ hb, hf]

/-- `Exports.HasExportContainingSubject`: null entries are skipped -/
theorem v2_hasExportContaining (es : List (Option V2.T_Export)) (subject : Str) :
    V2.Exports_HasExportContainingSubject es subject =
      some (es.any fun e => match e with | none => false | some x => isContainedIn subject x.f_Subject) := by
  have hb : ∀ (i : Int) (e : Option V2.T_Export), V2.Exports_HasExportContainingSubject.loop1 subject i e () =
      some (if (match e with | none => false | some x => isContainedIn subject x.f_Subject) then .ret true else .next ()) := by
    intro i e
    cases e with
    | none => simp [V2.Exports_HasExportContainingSubject.loop1]
    | some x => cases h : isContainedIn subject x.f_Subject <;>
        simp [V2.Exports_HasExportContainingSubject.loop1, v2_isContainedIn, h]
  simp only [V2.Exports_HasExportContainingSubject, forRange, forRangeFrom_search _ _ true hb]
  cases h : es.any (fun e => match e with | none => false | some x => isContainedIn subject x.f_Subject) <;> simp [h]

/-- the model's `validateMappings` (over decoded values) is `mappingIssues` on the entries read through the struct tags -/
theorem validateMappings_eq (m : Jwt.Val) :
    validateMappings m =
      (m.asMap.map fun p => (p.1, p.2.asList.map V2.T_WeightedMapping.ofVal)).flatMap mappingIssues := by
  unfold validateMappings
  rw [List.flatMap_map]
  congr 1
  funext p
  obtain ⟨frm, wms⟩ := p
  simp only [mappingIssues, List.flatMap_map, List.map_map]
  have : (fun wm => effW (V2.T_WeightedMapping.ofVal wm)) = effWeight := by
    funext wm
    unfold effWeight effW V2.T_WeightedMapping.ofVal
    by_cases h : (wm.field "weight").asInt = 0 <;> simp [h]
  have h2 : (fun wm => validateSubject (V2.T_WeightedMapping.ofVal wm).f_Subject) =
      (fun wm : Jwt.Val => validateSubject (wm.field "subject").asStr) := by
    funext wm; simp [V2.T_WeightedMapping.ofVal]
  simp [Function.comp_def, this, h2]

/-! ## C06: overlapping exports (row EL1) — `isContainedIn(kind, subjects, vr)` and `Exports.Validate` -/

/-- keys of a Go map -/
def keysM (m : GoMap Str Str) : List Str := (mapEntries m).map (·.1)

theorem mapGet_isSome (l : List (Str × Str)) (k : Str) : (mapGet (some l) k).isSome = decide (k ∈ l.map (·.1)) := by
  induction l with
  | nil => simp [mapGet, mapLookup]
  | cons p r ih =>
    obtain ⟨a, b⟩ := p
    simp only [mapGet] at ih
    by_cases h : a = k
    · simp [mapGet, mapLookup, h]
    · have h' : ¬ k = a := fun e => h e.symm
      simp [mapGet, mapLookup, h, h', ih]

/-- one step of the inner loop on an allocated map with distinct keys -/
theorem contained_step (i j : Int) (ns s : Str) (l : List (Str × Str)) (hnd : (l.map (·.1)).Nodup) :
    ∃ l', V2.isContainedIn.loop2 i ns j s (some l) = some (.next (some l')) ∧ (l'.map (·.1)).Nodup ∧
      ∀ k, k ∈ l'.map (·.1) ↔ k ∈ l.map (·.1) ∨ (k = s ∧ i ≠ j ∧ Jwt.isContainedIn ns s = true) := by
  by_cases hij : i = j
  · exact ⟨l, by simp [V2.isContainedIn.loop2, hij], hnd, by simp [hij]⟩
  · have hij' : (i == j) = false := by simpa using hij
    by_cases hc : Jwt.isContainedIn ns s = true
    · by_cases hk : s ∈ l.map (·.1)
      · refine ⟨l, ?_, hnd, ?_⟩
        · simp [V2.isContainedIn.loop2, hij', v2_isContainedIn, hc, mapGet_isSome, hk]
        · intro k; constructor
          · intro h; exact Or.inl h
          · rintro (h | ⟨rfl, _, _⟩)
            · exact h
            · exact hk
      · refine ⟨(s, ns) :: l.filter (fun p => p.1 ≠ s), ?_, ?_, ?_⟩
        · simp [V2.isContainedIn.loop2, hij', v2_isContainedIn, hc, mapGet_isSome, hk, mapSet]
        · have hf : l.filter (fun p => decide (p.1 ≠ s)) = l := by
            apply List.filter_eq_self.mpr
            intro p hp
            have : p.1 ≠ s := fun e => hk (List.mem_map.mpr ⟨p, hp, e⟩)
            simpa using this
          rw [hf]
          simp only [List.map_cons, List.nodup_cons]
          exact ⟨hk, hnd⟩
        · have hf : l.filter (fun p => decide (p.1 ≠ s)) = l := by
            apply List.filter_eq_self.mpr
            intro p hp
            have : p.1 ≠ s := fun e => hk (List.mem_map.mpr ⟨p, hp, e⟩)
            simpa using this
          rw [hf]
          intro k
          simp only [List.map_cons, List.mem_cons]
          constructor
          · rintro (rfl | h)
            · exact Or.inr ⟨rfl, hij, hc⟩
            · exact Or.inl h
          · rintro (h | ⟨rfl, _, _⟩)
            · exact Or.inr h
            · exact Or.inl rfl
    · refine ⟨l, ?_, hnd, ?_⟩
      · have hc' : Jwt.isContainedIn ns s = false := by simpa using hc
        simp [V2.isContainedIn.loop2, hij', v2_isContainedIn, hc']
      · intro k; constructor
        · intro h; exact Or.inl h
        · rintro (h | ⟨_, _, h⟩)
          · exact h
          · exact absurd h hc

/-- the inner loop: for a fixed `(i, ns)`, every later `s_j` (j ≠ i) that contains `ns` becomes a key -/
theorem contained_inner (i : Int) (ns : Str) : ∀ (ss : List Str) (j0 : Nat) (l : List (Str × Str)),
    (l.map (·.1)).Nodup →
    ∃ l', forRangeFrom (V2.isContainedIn.loop2 i ns) (j0 : Int) ss (some l) = some (.done (some l')) ∧
      (l'.map (·.1)).Nodup ∧
      ∀ k, k ∈ l'.map (·.1) ↔ k ∈ l.map (·.1) ∨
        ∃ t, t < ss.length ∧ ss[t]? = some k ∧ i ≠ ((j0 + t : Nat) : Int) ∧ Jwt.isContainedIn ns k = true := by
  intro ss
  induction ss with
  | nil => intro j0 l hnd; exact ⟨l, by simp [forRangeFrom], hnd, by simp⟩
  | cons s ss ih =>
    intro j0 l hnd
    obtain ⟨l1, h1, hnd1, hm1⟩ := contained_step i (j0 : Int) ns s l hnd
    obtain ⟨l2, h2, hnd2, hm2⟩ := ih (j0 + 1) l1 hnd1
    refine ⟨l2, ?_, hnd2, ?_⟩
    · simp only [forRangeFrom, h1]
      have : ((j0 : Int) + 1) = ((j0 + 1 : Nat) : Int) := by simp
      rw [this]; exact h2
    · intro k
      rw [hm2, hm1]
      constructor
      · rintro ((h | ⟨rfl, hne, hc⟩) | ⟨t, ht, hs, hne, hc⟩)
        · exact Or.inl h
        · exact Or.inr ⟨0, by simp, by simp, by simpa using hne, hc⟩
        · refine Or.inr ⟨t + 1, by simp; omega, by simpa using hs, ?_, hc⟩
          have : j0 + 1 + t = j0 + (t + 1) := by omega
          rw [← this]; exact hne
      · rintro (h | ⟨t, ht, hs, hne, hc⟩)
        · exact Or.inl (Or.inl h)
        · cases t with
          | zero =>
            simp at hs
            subst hs
            exact Or.inl (Or.inr ⟨rfl, by simpa using hne, hc⟩)
          | succ t =>
            refine Or.inr ⟨t, by simp at ht; omega, by simpa using hs, ?_, hc⟩
            have : j0 + 1 + t = j0 + (t + 1) := by omega
            rw [this]; exact hne

/-- the outer loop: afterwards the keys are exactly the subjects that contain the subject of another position -/
theorem contained_outer (subjects : List Str) : ∀ (ns' : List Str) (i0 : Nat) (l : List (Str × Str)),
    (l.map (·.1)).Nodup →
    ∃ l', forRangeFrom (V2.isContainedIn.loop1 subjects) (i0 : Int) ns' (some l) = some (.done (some l')) ∧
      (l'.map (·.1)).Nodup ∧
      ∀ k, k ∈ l'.map (·.1) ↔ k ∈ l.map (·.1) ∨
        ∃ u t, u < ns'.length ∧ t < subjects.length ∧ subjects[t]? = some k ∧ (i0 + u : Nat) ≠ t ∧
          ∃ ns, ns'[u]? = some ns ∧ Jwt.isContainedIn ns k = true := by
  intro ns'
  induction ns' with
  | nil => intro i0 l hnd; exact ⟨l, by simp [forRangeFrom], hnd, by simp⟩
  | cons ns rest ih =>
    intro i0 l hnd
    obtain ⟨l1, h1, hnd1, hm1⟩ := contained_inner (i0 : Int) ns subjects 0 l hnd
    obtain ⟨l2, h2, hnd2, hm2⟩ := ih (i0 + 1) l1 hnd1
    refine ⟨l2, ?_, hnd2, ?_⟩
    · simp only [forRangeFrom, V2.isContainedIn.loop1, forRange]
      simp only [Int.natCast_zero] at h1
      simp only [h1, Option.bind_eq_bind, Option.bind_some, pure]
      have : ((i0 : Int) + 1) = ((i0 + 1 : Nat) : Int) := by simp
      rw [this]; exact h2
    · intro k
      rw [hm2, hm1]
      constructor
      · rintro ((h | ⟨t, ht, hs, hne, hc⟩) | ⟨u, t, hu, ht, hs, hne, ns2, hn2, hc⟩)
        · exact Or.inl h
        · refine Or.inr ⟨0, t, by simp, ht, hs, ?_, ns, by simp, hc⟩
          intro e; apply hne
          have : i0 = t := by omega
          simp [this]
        · refine Or.inr ⟨u + 1, t, by simp; omega, ht, hs, ?_, ns2, by simpa using hn2, hc⟩
          omega
      · rintro (h | ⟨u, t, hu, ht, hs, hne, ns2, hn2, hc⟩)
        · exact Or.inl (Or.inl h)
        · cases u with
          | zero =>
            simp at hn2; subst hn2
            refine Or.inl (Or.inr ⟨t, ht, hs, ?_, hc⟩)
            simp only [Nat.zero_add]
            intro e; apply hne
            have : (i0 : Int) = (t : Int) := e
            omega
          | succ u =>
            refine Or.inr ⟨u, t, by simp at hu; omega, ht, hs, by omega, ns2, by simpa using hn2, hc⟩

theorem nodup_eraseDups : ∀ (n : Nat) (l : List Str), l.length ≤ n → l.eraseDups.Nodup := by
  intro n
  induction n with
  | zero => intro l h; have : l = [] := by simpa using h
            subst this; simp
  | succ n ih =>
    intro l h
    cases l with
    | nil => simp
    | cons a as =>
      rw [List.eraseDups_cons]
      refine List.nodup_cons.mpr ⟨?_, ih _ ?_⟩
      · intro hm
        have := List.mem_eraseDups.mp hm
        simp at this
      · have := List.length_filter_le (fun b => !b == a) as
        simp at h; omega

theorem mem_zip_range (l : List Str) (j : Nat) (s : Str) :
    (j, s) ∈ (List.range l.length).zip l ↔ l[j]? = some s := by
  rw [List.mem_iff_getElem?]
  constructor
  · rintro ⟨i, hi⟩
    rw [List.getElem?_zip_eq_some] at hi
    obtain ⟨h1, h2⟩ := hi
    obtain ⟨hlt, he⟩ := List.getElem?_eq_some_iff.mp h1
    simp at he
    subst he
    exact h2
  · intro h
    refine ⟨j, ?_⟩
    rw [List.getElem?_zip_eq_some]
    have hj : j < l.length := by
      by_cases hlt : j < l.length
      · exact hlt
      · simp [List.getElem?_eq_none (by omega : l.length ≤ j)] at h
    exact ⟨by simp [List.getElem?_range, hj], h⟩

theorem mem_containedSomewhere (subjects : List Str) (k : Str) :
    k ∈ containedSomewhere subjects ↔
      ∃ u t, u < subjects.length ∧ t < subjects.length ∧ subjects[t]? = some k ∧ u ≠ t ∧
        ∃ ns, subjects[u]? = some ns ∧ Jwt.isContainedIn ns k = true := by
  unfold containedSomewhere
  simp only [List.mem_eraseDups, List.mem_filterMap, Prod.exists]
  constructor
  · rintro ⟨t, s, hmem, hf⟩
    split at hf
    · rename_i hany
      simp at hf; subst hf
      rw [List.any_eq_true] at hany
      obtain ⟨⟨u, ns⟩, hu, hcond⟩ := hany
      simp only [Bool.and_eq_true, bne_iff_ne, ne_eq] at hcond
      have h1 := (mem_zip_range subjects t s).mp hmem
      have h2 := (mem_zip_range subjects u ns).mp hu
      have ht : t < subjects.length := by
        by_cases hlt : t < subjects.length
        · exact hlt
        · simp [List.getElem?_eq_none (by omega : subjects.length ≤ t)] at h1
      have hu' : u < subjects.length := by
        by_cases hlt : u < subjects.length
        · exact hlt
        · simp [List.getElem?_eq_none (by omega : subjects.length ≤ u)] at h2
      exact ⟨u, t, hu', ht, h1, hcond.1, ns, h2, hcond.2⟩
    · simp at hf
  · rintro ⟨u, t, hu, ht, hs, hne, ns, hns, hc⟩
    refine ⟨t, k, (mem_zip_range subjects t k).mpr hs, ?_⟩
    have : ((List.range subjects.length).zip subjects).any (fun x => x.1 != t && Jwt.isContainedIn x.2 k) = true := by
      rw [List.any_eq_true]
      exact ⟨(u, ns), (mem_zip_range subjects u ns).mpr hns, by simp [hne, hc]⟩
    simp [this]

/-- `isContainedIn(kind, subjects, vr)`: one blocking issue per distinct subject that contains the subject of another
position — exactly the model's `containedSomewhere` -/
theorem v2_isContainedInList (kind : Int) (subjects : List Str) (vr : V2.T_ValidationResults) :
    V2.isContainedIn kind subjects vr = some (push vr ((containedSomewhere subjects).flatMap fun _ => errI)) := by
  obtain ⟨l', hl, hnd, hmem⟩ := contained_outer subjects subjects 0 [] (by simp)
  have hlen : l'.length = (containedSomewhere subjects).length := by
    have hnd2 : (containedSomewhere subjects).Nodup := by
      unfold containedSomewhere; exact nodup_eraseDups _ _ (Nat.le_refl _)
    have hp : (l'.map (·.1)).Perm (containedSomewhere subjects) := by
      apply (List.perm_ext_iff_of_nodup hnd hnd2).mpr
      intro k
      rw [hmem, mem_containedSomewhere]
      simp only [List.map_nil, List.not_mem_nil, false_or, Nat.zero_add]
    simpa using hp.length_eq
  have hb : ∀ (i : Int) (p : Str × Str) (w : V2.T_ValidationResults),
      V2.isContainedIn.loop3 kind i p w = some (.next (push w errI)) := by
    intro i p w
    simp [V2.isContainedIn.loop3, V2.ValidationResults_Add, push, errI, toGenIssue]
    rfl
  have hf : ∀ (xs : List (Str × Str)) (w : V2.T_ValidationResults),
      xs.foldl (fun st _ => push st errI) w = push w (xs.flatMap fun _ => errI) := by
    intro xs
    induction xs with
    | nil => intro w; simp
    | cons x xs ih => intro w; simp [ih, push_push]
  have hrep : ∀ (a : List (Str × Str)) (b : List Str), a.length = b.length →
      (a.flatMap fun _ => errI) = (b.flatMap fun _ => errI) := by
    intro a
    induction a with
    | nil => intro b h; cases b <;> simp_all
    | cons x a ih => intro b h; cases b with
      | nil => simp at h
      | cons y b => simp at h; simp [ih b h]
  unfold V2.isContainedIn
  simp only [forRange, Int.natCast_zero] at hl ⊢
  simp only [hl, Option.bind_eq_bind, Option.bind_some, pure, mapLen, mapEntries, forRangeFrom_fold _ _ hb, hf]
  cases l' with
  | nil =>
    have : containedSomewhere subjects = [] := by
      have : (containedSomewhere subjects).length = 0 := by simpa using hlen.symm
      exact List.length_eq_zero_iff.mp this
    simp [this]
  | cons p r =>
    simp only [List.length_cons] at hlen
    have hne : ¬ ((r.length : Int) + 1 = 0) := by omega
    simp [hne, hrep (p :: r) (containedSomewhere subjects) (by simpa using hlen)]

/-- subjects of the non-null service (resp. non-service) exports, in list order -/
def svcSubjectsOf (es : List Jwt.Val) : List Str :=
  ((es.filterMap Jwt.Val.deref).filter (isService ·)).map fun e => (e.field "subject").asStr
def strSubjectsOf (es : List Jwt.Val) : List Str :=
  ((es.filterMap Jwt.Val.deref).filter (fun e => !isService e)).map fun e => (e.field "subject").asStr

theorem v2_exports_loop (env : VEnv) (opq : V2.Opq)
    (hInfo : ∀ (e : Jwt.Val) (vr : V2.T_ValidationResults),
      V2.Info_Validate (V2.T_Info.ofVal e) vr opq = some (push vr (validateInfo env e))) :
    ∀ (es : List Jwt.Val) (i : Int) (vr : V2.T_ValidationResults) (svc strm : List Str),
    forRangeFrom (V2.Exports_Validate.loop1 opq) i (es.map (optOfVal V2.T_Export.ofVal)) (vr, svc, strm) =
      some (.done (push vr (es.flatMap (validateExport env)), svc ++ svcSubjectsOf es, strm ++ strSubjectsOf es)) := by
  intro es
  induction es with
  | nil => intro i vr svc strm; simp [forRangeFrom, svcSubjectsOf, strSubjectsOf]
  | cons ev es ih =>
    intro i vr svc strm
    cases hd : ev.deref with
    | none =>
      have hn : optOfVal V2.T_Export.ofVal ev = none := by
        cases ev <;> simp [Jwt.Val.deref, optOfVal] at hd ⊢
      have hv : validateExport env ev = errI := by simp [validateExport, hd]
      simp [forRangeFrom, V2.Exports_Validate.loop1, hn, v2_addError, ih, hv, push_push, svcSubjectsOf, strSubjectsOf, hd]
    | some e =>
      have hs : optOfVal V2.T_Export.ofVal ev = some (V2.T_Export.ofVal e) := by
        cases ev <;> simp [Jwt.Val.deref, optOfVal] at hd ⊢
        exact congrArg _ hd
      have hx := v2_exportValidate env opq hInfo ev
      rw [hs] at hx
      have hsub : (V2.T_Export.ofVal e).f_Subject = (e.field "subject").asStr := rfl
      by_cases hsvc : isService e = true
      · have h2 : (V2.T_Export.ofVal e).f_Type = 2 := by simpa [isService, V2.T_Export.ofVal] using hsvc
        simp [forRangeFrom, V2.Exports_Validate.loop1, hs, V2.Export_IsService, h2, hx, ih, push_push,
          svcSubjectsOf, strSubjectsOf, hd, hsvc, hsub]
      · have hsvc' : isService e = false := by simpa using hsvc
        have h2 : ¬ (V2.T_Export.ofVal e).f_Type = 2 := by simpa [isService, V2.T_Export.ofVal] using hsvc'
        simp [forRangeFrom, V2.Exports_Validate.loop1, hs, V2.Export_IsService, h2, hx, ih, push_push,
          svcSubjectsOf, strSubjectsOf, hd, hsvc', hsub]

/-- `Exports.Validate` = the model's `validateExports` (rows E0–E13 per entry, EL1 over the list), and no error value -/
theorem v2_exportsValidate (env : VEnv) (opq : V2.Opq)
    (hInfo : ∀ (e : Jwt.Val) (vr : V2.T_ValidationResults),
      V2.Info_Validate (V2.T_Info.ofVal e) vr opq = some (push vr (validateInfo env e)))
    (es : List Jwt.Val) (vr : V2.T_ValidationResults) :
    V2.Exports_Validate (es.map (optOfVal V2.T_Export.ofVal)) vr opq =
      some (push vr (validateExports env (Jwt.Val.list es)), false) := by
  unfold V2.Exports_Validate validateExports
  simp [forRange, v2_exports_loop env opq hInfo, v2_isContainedInList, push_push, Jwt.Val.asList,
    svcSubjectsOf, strSubjectsOf]

/-! ## C08: signer attribution — `OperatorClaims.DidSign`, `AccountClaims.DidSign` over the `Claims` interface -/

/-- what the model's `DidSign` reads of a claim, from the dynamic type and value the interface holds -/
def viewOf : V2.I_Claims → ClaimView
  | .OperatorClaims v => ⟨.operator, v.f_ClaimsData.f_Issuer, v.f_ClaimsData.f_Subject, []⟩
  | .AccountClaims v => ⟨.account, v.f_ClaimsData.f_Issuer, v.f_ClaimsData.f_Subject, []⟩
  | .UserClaims v => ⟨.user, v.f_ClaimsData.f_Issuer, v.f_ClaimsData.f_Subject, v.f_User.f_IssuerAccount⟩
  | .ActivationClaims v => ⟨.activation, v.f_ClaimsData.f_Issuer, v.f_ClaimsData.f_Subject, v.f_Activation.f_IssuerAccount⟩
  | .AuthorizationRequestClaims v => ⟨.authRequest, v.f_ClaimsData.f_Issuer, v.f_ClaimsData.f_Subject, []⟩
  | .AuthorizationResponseClaims v => ⟨.authResponse, v.f_ClaimsData.f_Issuer, v.f_ClaimsData.f_Subject, []⟩
  | .GenericClaims v => ⟨.generic, v.f_ClaimsData.f_Issuer, v.f_ClaimsData.f_Subject, []⟩

theorem v2_claims_dispatch (c : V2.I_Claims) :
    ∃ cd, V2.I_Claims.Claims c = some cd ∧ cd.f_Issuer = (viewOf c).issuer ∧ cd.f_Subject = (viewOf c).subject := by
  cases c <;> exact ⟨_, rfl, rfl, rfl⟩

theorem mapGet_isSome' {ν : Type} (l : List (Str × ν)) (k : Str) :
    (mapGet (some l) k).isSome = decide (k ∈ l.map (·.1)) := by
  induction l with
  | nil => simp [mapGet, mapLookup]
  | cons p r ih =>
    obtain ⟨a, b⟩ := p
    simp only [mapGet] at ih
    by_cases h : a = k
    · simp [mapGet, mapLookup, h]
    · have h' : ¬ k = a := fun e => h e.symm
      simp [mapGet, mapLookup, h, h', ih]

/-- keys of a signing-key map (plain and scoped keys alike) -/
def skKeys (m : GoMap Str (Option V2.I_Scope)) : List Str := (mapEntries m).map (·.1)

theorem v2_skContains (m : GoMap Str (Option V2.I_Scope)) (k : Str) :
    V2.SigningKeys_Contains m k = some (keyListed (skKeys m) k) := by
  cases m with
  | none => simp [V2.SigningKeys_Contains, mapGet, keyListed, skKeys, mapEntries]
  | some l =>
    simp only [V2.SigningKeys_Contains, mapGet_isSome', keyListed, skKeys, mapEntries]
    by_cases h : k ∈ l.map (·.1)
    · have : (l.map (·.1)).any (fun x => decide (x = k)) = true := by
        rw [List.any_eq_true]; exact ⟨k, h, by simp⟩
      simp [h, this]
    · have : (l.map (·.1)).any (fun x => decide (x = k)) = false := by
        rw [Bool.eq_false_iff, ne_eq, List.any_eq_true]
        rintro ⟨x, hx, he⟩
        simp at he; exact h (he ▸ hx)
      simp [h, this]

theorem v2_strContains_keyListed (u : List Str) (p : Str) : V2.StringList_Contains u p = some (keyListed u p) := by
  rw [v2_strContains]
  simp only [strContains, Lists.contains, keyListed, id]
  by_cases h : p ∈ u
  · have : u.any (fun x => decide (x = p)) = true := by rw [List.any_eq_true]; exact ⟨p, h, by simp⟩
    simp [h, this]
  · have : u.any (fun x => decide (x = p)) = false := by
      rw [Bool.eq_false_iff, ne_eq, List.any_eq_true]
      rintro ⟨x, hx, he⟩
      simp at he; exact h (he ▸ hx)
    simp [h, this]

/-- `(*OperatorClaims).DidSign` -/
theorem v2_operatorDidSign (oc : V2.T_OperatorClaims) (op : Option V2.I_Claims) :
    V2.OperatorClaims_DidSign oc op =
      some (operatorDidSign oc.f_ClaimsData.f_Subject oc.f_Operator.f_StrictSigningKeyUsage oc.f_Operator.f_SigningKeys
        (op.map viewOf)) := by
  unfold V2.OperatorClaims_DidSign operatorDidSign
  cases op with
  | none => simp
  | some c =>
    obtain ⟨cd, hcd, hi, hs⟩ := v2_claims_dispatch c
    simp only [Option.isNone_some, Bool.false_eq_true, if_false, hcd, Option.map_some, v2_strContains_keyListed,
      Option.pure_def, Option.bind_eq_bind, Option.bind_some, hi, hs]
    by_cases h1 : (viewOf c).issuer = oc.f_ClaimsData.f_Subject <;> cases hst : oc.f_Operator.f_StrictSigningKeyUsage <;>
      simp [h1, hst, Bool.beq_eq_decide_eq]

/-- `(*AccountClaims).DidSign` -/
theorem v2_accountDidSign (a : V2.T_AccountClaims) (c : Option V2.I_Claims) :
    V2.AccountClaims_DidSign a c =
      some (accountDidSign a.f_ClaimsData.f_Subject (skKeys a.f_Account.f_SigningKeys) (c.map viewOf)) := by
  unfold V2.AccountClaims_DidSign accountDidSign
  cases c with
  | none => simp
  | some cl =>
    obtain ⟨cd, hcd, hi, hs⟩ := v2_claims_dispatch cl
    simp only [Option.isSome_some, if_true, hcd, Option.map_some, v2_skContains, Option.pure_def, Option.bind_eq_bind,
      Option.bind_some, hi]
    by_cases h1 : (viewOf cl).issuer = a.f_ClaimsData.f_Subject
    · simp [h1]
    · cases cl <;> simp [h1, viewOf, Bool.beq_eq_decide_eq] <;> split <;> (try split) <;> simp_all

/-! ## C06: `RenamingSubject.Validate` (rows M5a–f): the token loop with `$n` references; `strconv.Atoi` is a parameter -/

theorem refIndex_short (tk : Str) (h : utf8Len tk < 2) : refIndex tk = none := by
  unfold refIndex; simp [h]
theorem refIndex_dollar (cs : Str) (h : ¬ utf8Len ('$' :: cs) < 2) : refIndex ('$' :: cs) = atoi cs := by
  unfold refIndex; simp [h]
theorem refIndex_other (c : Char) (cs : Str) (hd : c ≠ '$') : refIndex (c :: cs) = none := by
  unfold refIndex
  split
  · rfl
  · split
    · rename_i rest heq; simp at heq; exact absurd heq.1 hd
    · rfl

/-- one token of the loop: the issue it raises and what it adds to the reference count -/
theorem renaming_step (opq : V2.Opq) (hAtoi : ∀ x, opq.strconv_Atoi x = atoi x) (s frm : Str) (fc : Int)
    (i : Int) (tk : Str) (vr : V2.T_ValidationResults) (rc : Int) :
    V2.RenamingSubject_Validate.loop1 s frm fc opq i tk (vr, rc) =
      some (.next (push vr (renamingLoop fc [tk]).1, rc + (renamingLoop fc [tk]).2)) := by
  unfold V2.RenamingSubject_Validate.loop1
  simp only [renamingLoop]
  have hsl : strLen tk = (utf8Len tk : Int) := rfl
  by_cases hlen : utf8Len tk < 2
  · have h1 : decide (strLen tk < 2) = true := by rw [hsl]; simp; omega
    rw [refIndex_short tk hlen]
    by_cases hs : tk = ['*']
    · subst hs; simp [h1, Bool.beq_eq_decide_eq]
    · simp [hs, h1, Bool.beq_eq_decide_eq]
  · have h1 : decide (strLen tk < 2) = false := by rw [hsl]; simp; omega
    cases tk with
    | nil => simp [utf8Len] at hlen
    | cons c cs =>
      obtain ⟨b, hb, he⟩ := strByte_first_ascii c cs 36 (by decide)
      have he' : (b == (36 : Int)) = decide (c.toNat = 36) := by simpa using he
      have hstar : ¬ (c :: cs = ['*']) := by
        intro e; rw [e] at hlen; simp [utf8Len, utf8Width] at hlen
      by_cases hd : c = '$'
      · subst hd
        have hb36 : (b == (36 : Int)) = true := by rw [he']; decide
        have hb36p : b = 36 := by simpa using hb36
        have hsl1 := strSliceFrom_one '$' cs (by decide)
        rw [refIndex_dollar cs hlen]
        simp only [hstar, h1, hb, hb36, hb36p, hsl1, hAtoi, Bool.beq_eq_decide_eq, Option.pure_def, Option.bind_eq_bind,
          Option.bind_some, if_false, if_true, Bool.false_eq_true, decide_false, decide_true, v2_addError, ite_some]
        cases ha : atoi cs with
        | none => simp
        | some n =>
          by_cases hn : n > fc
          · simp [hn, push_push, hb36p]
          · have hn' : ¬ fc < n := by omega
            simp [hn, hn', push_push, hb36p]
      · have hne : ¬ c.toNat = 36 := fun e => hd (char_eq_of_toNat (by simpa using e))
        have hb36 : (b == (36 : Int)) = false := by rw [he']; simp [hne]
        have hb36p : ¬ b = 36 := by simpa using hb36
        rw [refIndex_other c cs hd]
        simp [hstar, h1, hb, hb36, hb36p, Bool.beq_eq_decide_eq]

/-! ### `RenamingSubject.ToSubject`, as translated (the `strings.Builder` is the text written so far) -/

def convTok (tk : Str) : Str := if (refIndex tk).isSome then ['*'] else tk

theorem toSubject_step (opq : V2.Opq) (hAtoi : ∀ x, opq.strconv_Atoi x = atoi x) (tokens : List Str)
    (i : Int) (tk : Str) (acc : Str) :
    V2.RenamingSubject_ToSubject.loop1 tokens opq i tk acc =
      some (.next (acc ++ convTok tk ++ (if i ≠ len tokens - 1 then ['.'] else []))) := by
  unfold V2.RenamingSubject_ToSubject.loop1 convTok
  have hsl : strLen tk = (utf8Len tk : Int) := rfl
  by_cases hlen : utf8Len tk < 2
  · have h1 : decide (strLen tk > 1) = false := by rw [hsl]; simp; omega
    rw [refIndex_short tk hlen]
    by_cases hi : i = len tokens - 1 <;> simp [h1, hi]
  · have h1 : decide (strLen tk > 1) = true := by rw [hsl]; simp; omega
    cases tk with
    | nil => simp [utf8Len] at hlen
    | cons c cs =>
      obtain ⟨b, hb, he⟩ := strByte_first_ascii c cs 36 (by decide)
      have he' : (b == (36 : Int)) = decide (c.toNat = 36) := by simpa using he
      by_cases hd : c = '$'
      · subst hd
        have hb36 : (b == (36 : Int)) = true := by rw [he']; decide
        have hsl1 := strSliceFrom_one '$' cs (by decide)
        rw [refIndex_dollar cs hlen]
        cases ha : atoi cs with
        | none => by_cases hi : i = len tokens - 1 <;> simp [h1, hb, hb36, hsl1, hAtoi, ha, hi]
        | some n => by_cases hi : i = len tokens - 1 <;> simp [h1, hb, hb36, hsl1, hAtoi, ha, hi]
      · have hne : ¬ c.toNat = 36 := fun e => hd (char_eq_of_toNat (by simpa using e))
        have hb36 : (b == (36 : Int)) = false := by rw [he']; simp [hne]
        rw [refIndex_other c cs hd]
        by_cases hi : i = len tokens - 1 <;> simp [h1, hb, hb36, hi]

theorem toSubject_loop (opq : V2.Opq) (hAtoi : ∀ x, opq.strconv_Atoi x = atoi x) (tokens : List Str) :
    ∀ (rest pre : List Str) (acc : Str), tokens = pre ++ rest →
      forRangeFrom (ρ := Str) (V2.RenamingSubject_ToSubject.loop1 tokens opq) (pre.length : Int) rest acc =
        some (.done (acc ++ join '.' (rest.map convTok))) := by
  intro rest
  induction rest with
  | nil => intro pre acc _; simp [forRangeFrom, join]
  | cons tk r ih =>
    intro pre acc ht
    have hlen : len tokens = (pre.length : Int) + 1 + (r.length : Int) := by
      rw [ht]; simp [len]; omega
    have ih' := ih (pre ++ [tk]) (acc ++ convTok tk ++ (if (pre.length : Int) ≠ len tokens - 1 then ['.'] else []))
      (by rw [ht]; simp)
    simp only [List.length_append, List.length_singleton, Int.natCast_add, Int.natCast_one] at ih'
    simp only [forRangeFrom, toSubject_step opq hAtoi, Option.bind_some, ih']
    cases r with
    | nil =>
      have : (pre.length : Int) = len tokens - 1 := by rw [hlen]; simp
      simp [this, join]
    | cons t2 r2 =>
      have : ¬ ((pre.length : Int) = len tokens - 1) := by rw [hlen]; simp; omega
      simp [this, join]

/-- **`ToSubject` is the model's `renamingToSubject`** (given `strconv.Atoi`): a subject without `$` is returned
as it is; otherwise every `$n` token becomes `*` and the tokens are joined by dots again -/
theorem v2_toSubject (opq : V2.Opq) (hAtoi : ∀ x, opq.strconv_Atoi x = atoi x) (s : Str) :
    V2.RenamingSubject_ToSubject s opq = some (renamingToSubject s) := by
  unfold V2.RenamingSubject_ToSubject renamingToSubject
  rw [contains_single]
  cases h : s.any (· = '$')
  · simp
  · have hl := toSubject_loop opq hAtoi (splitOn '.' s) (splitOn '.' s) [] [] (by simp)
    simp only [List.length_nil, Int.natCast_zero, List.nil_append] at hl
    simp only [GoRt.split, forRange, hl, Bool.not_true, Bool.false_eq_true, if_false, Option.pure_def,
      Option.bind_eq_bind, Option.bind_some]
    rfl

theorem renamingLoop_cons (fc : Int) (tk : Str) (rest : List Str) :
    renamingLoop fc (tk :: rest) =
      ((renamingLoop fc [tk]).1 ++ (renamingLoop fc rest).1, (renamingLoop fc [tk]).2 + (renamingLoop fc rest).2) := by
  simp only [renamingLoop]
  cases refIndex tk with
  | none => simp
  | some idx => by_cases h : idx > fc <;> simp [h] <;> omega

theorem renaming_loop (opq : V2.Opq) (hAtoi : ∀ x, opq.strconv_Atoi x = atoi x) (s frm : Str) (fc : Int) :
    ∀ (toks : List Str) (i : Int) (vr : V2.T_ValidationResults) (rc : Int),
    forRangeFrom (ρ := V2.T_ValidationResults) (V2.RenamingSubject_Validate.loop1 s frm fc opq) i toks (vr, rc) =
      some (.done (push vr (renamingLoop fc toks).1, rc + (renamingLoop fc toks).2)) := by
  intro toks
  induction toks with
  | nil => intro i vr rc; simp [forRangeFrom, renamingLoop]
  | cons tk rest ih =>
    intro i vr rc
    simp only [forRangeFrom, renaming_step opq hAtoi, ih, renamingLoop_cons fc tk rest, push_push]
    simp [Int.add_assoc]

/-- `RenamingSubject.Validate(from, vr)` = the model's `validateRenaming` — and it never panics, whatever the tokens -/
theorem v2_renamingValidate (opq : V2.Opq) (hAtoi : ∀ x, opq.strconv_Atoi x = atoi x) (s frm : Str)
    (vr : V2.T_ValidationResults) :
    V2.RenamingSubject_Validate s frm vr opq = some (push vr (validateRenaming s frm)) := by
  unfold V2.RenamingSubject_Validate validateRenaming
  have hsp : GoRt.contains s [' '] = hasSpace s := by rw [contains_single]; rfl
  have hend : ∀ x : Str, ((x == ['>']) || hasSuffix x ['.', '>']) = endsInGt x := by
    intro x; simp [endsInGt, hasSuffix, Bool.beq_eq_decide_eq]
  simp only [v2_subjectValidate, v2_addError, v2_countTokenWildcards, hsp, hend, forRange, GoRt.split,
    renaming_loop opq hAtoi, Option.pure_def, Option.bind_eq_bind, Option.bind_some, ite_some, push_ite, push_push]
  cases hr : renamingLoop (↑(countTokenWildcards frm)) (splitOn '.' s) with
  | mk is n =>
    simp only [Int.zero_add]
    by_cases h1 : frm = [] <;> by_cases h2 : hasSpace s = true <;> by_cases h3 : endsInGt s = endsInGt frm <;>
      by_cases h4 : n = (countTokenWildcards frm : Int) <;>
      simp [h1, h2, h3, h4, errIf, push_push, Bool.beq_eq_decide_eq]

/-! ## C10 / C06: imports — `Activation.Validate`, `validateWithTimeChecks`, `Import.Validate` (rows M0–M13), read through
the struct tags. `DecodeActivationClaims`, `nkeys.IsValidPublicAccountKey` and `strconv.Atoi` are parameters. -/

theorem v2_activationValidate (n : Jwt.Val) (vr : V2.T_ValidationResults) :
    V2.Activation_Validate (V2.T_Activation.ofVal n) vr =
      some (push vr (errIf (!isService n "kind" && !isStream n "kind") ++ validateSubject (n.field "subject").asStr)) := by
  unfold V2.Activation_Validate
  simp only [V2.Activation_IsService, V2.Activation_IsStream, V2.T_Activation.ofVal, v2_addError, v2_subjectValidate,
    Option.pure_def, Option.bind_eq_bind, Option.bind_some, ite_some, ite_and, push_ite, push_push, isService, isStream]
  generalize (n.field "kind").asInt = k
  by_cases h2 : k = 2 <;> by_cases h1 : k = 1 <;> simp [h1, h2, errIf]

/-- `ActivationClaims.validateWithTimeChecks(vr, timeChecks)` = the model's `validateActivation` -/
theorem v2_validateWithTimeChecks (opq : V2.Opq) (hAcct : ∀ x, opq.nkeys_IsValidPublicAccountKey x = validAcct x)
    (c : Jwt.Val) (vr : V2.T_ValidationResults) (tc : Bool) (now : Int) :
    V2.ActivationClaims_validateWithTimeChecks (V2.T_ActivationClaims.ofVal c) vr tc now opq =
      some (push vr (validateActivation now tc c)) := by
  unfold V2.ActivationClaims_validateWithTimeChecks validateActivation validateActivationBody validateClaimsData
  have hcd : ∀ w, V2.ClaimsData_Validate (V2.T_ActivationClaims.ofVal c).f_ClaimsData w now =
      some (push w ((if (c.field "exp").asInt > 0 ∧ now > (c.field "exp").asInt then timeI else []) ++
        (if (c.field "nbf").asInt > 0 ∧ (c.field "nbf").asInt > now then timeI else []))) := by
    intro w; rw [v2_claimsDataValidate]; rfl
  have hact : (V2.T_ActivationClaims.ofVal c).f_Activation = V2.T_Activation.ofVal (c.field "nats") := rfl
  simp only [hcd, hact, v2_activationValidate, v2_addError, hAcct, Option.pure_def, Option.bind_eq_bind, Option.bind_some,
    ite_some, push_ite, push_push]
  have hia : (V2.T_Activation.ofVal (c.field "nats")).f_IssuerAccount = ((c.field "nats").field "issuer_account").asStr := rfl
  simp only [hia]
  cases tc <;> simp [errIf, push_push, bne, Bool.beq_eq_decide_eq]

/-- `Import.Validate(actPubKey, vr)` on the pointer value an imports list holds = the model's `validateImport` -/
theorem v2_importValidate (cr : Crypto) (opq : V2.Opq)
    (hAtoi : ∀ x, opq.strconv_Atoi x = atoi x)
    (hAcct : ∀ x, opq.nkeys_IsValidPublicAccountKey x = validAcct x)
    (hDec : ∀ tok, V2.DecodeActivationClaims tok opq =
      some (match decodeTyped .activation cr tok with
            | .ok c => (some (V2.T_ActivationClaims.ofVal c.val), false)
            | .error _ => (none, true)))
    (acct : Str) (iv : Jwt.Val) (vr : V2.T_ValidationResults) (now : Int) :
    V2.Import_Validate (optOfVal V2.T_Import.ofVal iv) acct vr now opq = some (push vr (validateImport cr acct iv)) := by
  unfold V2.Import_Validate validateImport
  cases hd : iv.deref with
  | none =>
    have : optOfVal V2.T_Import.ofVal iv = none := by
      cases iv <;> simp [Jwt.Val.deref, optOfVal] at hd ⊢
    simp [this, v2_addError]
  | some i =>
    have hiv : optOfVal V2.T_Import.ofVal iv = some (V2.T_Import.ofVal i) := by
      cases iv <;> simp [Jwt.Val.deref, optOfVal] at hd ⊢
      exact congrArg _ hd
    rw [hiv]
    have htk : (V2.T_Import.ofVal i).f_Token = (i.field "token").asStr := rfl
    simp only [htk, validateImportToken]
    by_cases htok : (i.field "token").asStr = []
    · have hne : (((i.field "token").asStr) != ([] : Str)) = false := by simp [htok]
      simp only [htk, hne, Option.isNone_some, Option.isSome_none, Bool.false_eq_true, if_false, if_true,
        V2.Import_IsService, V2.Import_IsStream, V2.Import_GetTo,
        v2_addError, v2_addWarning, v2_subjectValidate, v2_renamingValidate opq hAtoi,
        Option.pure_def, Option.bind_eq_bind, Option.bind_some, ite_some, ite_and, ite_or, push_ite, push_push]
      simp only [V2.T_Import.ofVal, isService, isStream, validateImportLocal, if_pos htok]
      by_cases h1 : (i.field "to").asStr = [] <;> by_cases h2 : (i.field "local_subject").asStr = [] <;>
        by_cases h3 : (i.field "account").asStr = [] <;>
        simp [h1, h2, h3, errIf, bne, Bool.beq_eq_decide_eq]
    · have hne : (((i.field "token").asStr) != ([] : Str)) = true := by simp [htok]
      cases hdc : decodeTyped Kind.activation cr (i.field "token").asStr with
      | error e =>
        simp only [htk, hne, if_neg htok, hDec, hdc, Option.isNone_some, Option.isSome_none, Bool.false_eq_true, if_false, if_true,
          V2.Import_IsService, V2.Import_IsStream, V2.Import_GetTo,
          v2_addError, v2_addWarning, v2_subjectValidate, v2_renamingValidate opq hAtoi,
          Option.pure_def, Option.bind_eq_bind, Option.bind_some, ite_some, ite_and, ite_or, push_ite, push_push]
        simp only [V2.T_Import.ofVal, isService, isStream, validateImportLocal]
        by_cases h1 : (i.field "to").asStr = [] <;> by_cases h2 : (i.field "local_subject").asStr = [] <;>
          by_cases h3 : (i.field "account").asStr = [] <;>
          simp [h1, h2, h3, errIf, bne, Bool.beq_eq_decide_eq]
      | ok act =>
        simp only [htk, hne, if_neg htok, hDec, hdc, Option.isNone_some, Option.isSome_some, Bool.false_eq_true, if_false, if_true,
          V2.Import_IsService, V2.Import_IsStream, V2.Import_GetTo,
          v2_addError, v2_addWarning, v2_subjectValidate, v2_renamingValidate opq hAtoi,
          v2_validateWithTimeChecks opq hAcct, v2_isContainedIn,
          Option.pure_def, Option.bind_eq_bind, Option.bind_some, ite_some, ite_and, ite_or, push_ite, push_push]
        simp only [V2.T_Import.ofVal, V2.T_ActivationClaims.ofVal, V2.T_ClaimsData.ofVal, V2.T_Activation.ofVal,
          isService, isStream, validateImportLocal, validateActivation]
        by_cases h1 : (i.field "to").asStr = [] <;> by_cases h2 : (i.field "local_subject").asStr = [] <;>
          by_cases h3 : (i.field "account").asStr = [] <;> by_cases h4 : (i.field "type").asInt = 2 <;>
          simp [h1, h2, h3, h4, errIf, bne, Bool.beq_eq_decide_eq]

/-! `Imports.Validate` (rows M0, ML1): the issues are those of the model's `validateImports` **up to order** (the Go code
interleaves the overlap tests with the per-import validation and visits the set of earlier subjects in map order; every
observable of a result list — blocking, number of time checks — is invariant under permutation) -/

theorem imports_overlap_inner (sub : Str) (now : Int) (opq : V2.Opq) :
    ∀ (m : List (Str × Unit)) (i : Int) (vr : V2.T_ValidationResults),
    forRangeFrom (ρ := V2.T_ValidationResults) (V2.Imports_Validate.loop2 sub now opq) i m vr =
      some (.done (push vr ((m.map (·.1)).flatMap fun k => errIf (Jwt.isContainedIn sub k || Jwt.isContainedIn k sub)))) := by
  intro m
  induction m with
  | nil => intro i vr; simp [forRangeFrom]
  | cons p r ih =>
    intro i vr
    obtain ⟨k, u⟩ := p
    simp only [forRangeFrom, V2.Imports_Validate.loop2, v2_isContainedIn, v2_addError, Option.pure_def, Option.bind_eq_bind,
      Option.bind_some, ite_some, ite_or, push_ite, ih, push_push, List.map_cons, List.flatMap_cons, errIf]

theorem keys_mapSet_perm (m : List (Str × Unit)) (seen : List Str) (sub : Str)
    (hp : (m.map (·.1)).Perm seen) (hnd : (m.map (·.1)).Nodup) :
    (((sub, ()) :: m.filter (fun p => p.1 ≠ sub)).map (·.1)).Perm (if seen.contains sub then seen else seen ++ [sub]) ∧
    (((sub, ()) :: m.filter (fun p => p.1 ≠ sub)).map (·.1)).Nodup := by
  have hkf : (m.filter (fun p => decide (p.1 ≠ sub))).map (·.1) = (m.map (·.1)).filter (fun k => k != sub) := by
    rw [List.filter_map]; congr 1; apply List.filter_congr; intro p _; simp [bne, Bool.beq_eq_decide_eq]
  simp only [List.map_cons, hkf]
  generalize m.map (·.1) = keys at hp hnd
  constructor
  · by_cases hs : sub ∈ seen
    · have hk : sub ∈ keys := hp.mem_iff.mpr hs
      have : seen.contains sub = true := by simpa using hs
      rw [this, if_pos rfl, ← hnd.erase_eq_filter sub]
      exact (List.perm_cons_erase hk).symm.trans hp
    · have hk : sub ∉ keys := fun h => hs (hp.mem_iff.mp h)
      have : seen.contains sub = false := by simpa using hs
      rw [this]
      have hf : keys.filter (fun k => k != sub) = keys := by
        apply List.filter_eq_self.mpr; intro k hk'; simp; intro e; exact hk (e ▸ hk')
      rw [hf]
      simp only [Bool.false_eq_true, if_false]
      exact (List.Perm.cons sub hp).trans (List.perm_append_singleton sub seen).symm
  · refine List.nodup_cons.mpr ⟨?_, ?_⟩
    · simp
    · exact hnd.sublist (List.filter_sublist)

theorem v2_imports_loop (cr : Crypto) (opq : V2.Opq)
    (hAtoi : ∀ x, opq.strconv_Atoi x = atoi x)
    (hAcct : ∀ x, opq.nkeys_IsValidPublicAccountKey x = validAcct x)
    (hToSub : ∀ x, V2.RenamingSubject_ToSubject x opq = some (renamingToSubject x))
    (hDec : ∀ tok, V2.DecodeActivationClaims tok opq =
      some (match decodeTyped .activation cr tok with
            | .ok c => (some (V2.T_ActivationClaims.ofVal c.val), false)
            | .error _ => (none, true)))
    (acct : Str) (now : Int) :
    ∀ (is : List Jwt.Val) (i0 : Int) (vr : V2.T_ValidationResults) (m : List (Str × Unit)) (seen : List Str),
      (m.map (·.1)).Perm seen → (m.map (·.1)).Nodup →
      ∃ l m', forRangeFrom (V2.Imports_Validate.loop1 acct now opq) i0 (is.map (optOfVal V2.T_Import.ofVal)) (vr, some m) =
          some (.done (push vr l, some m')) ∧
        l.Perm (importsOverlap seen is ++ is.flatMap (validateImport cr acct)) := by
  intro is
  induction is with
  | nil => intro i0 vr m seen _ _; exact ⟨[], m, by simp [forRangeFrom], by simp [importsOverlap]⟩
  | cons iv rest ih =>
    intro i0 vr m seen hp hnd
    have hval := v2_importValidate cr opq hAtoi hAcct hDec acct iv
    cases hd : iv.deref with
    | none =>
      have hn : optOfVal V2.T_Import.ofVal iv = none := by
        cases iv <;> simp [Jwt.Val.deref, optOfVal] at hd ⊢
      have hv : validateImport cr acct iv = errI := by simp [validateImport, hd]
      obtain ⟨l, m', hl, hperm⟩ := ih (i0 + 1) (push vr errI) m seen hp hnd
      refine ⟨errI ++ l, m', ?_, ?_⟩
      · simp [forRangeFrom, V2.Imports_Validate.loop1, hn, v2_addError, hl, push_push]
      · simp only [importsOverlap, hd, List.flatMap_cons, hv]
        exact (List.Perm.append_left errI hperm).trans (List.perm_append_comm_assoc _ _ _)
    | some i =>
      have hs : optOfVal V2.T_Import.ofVal iv = some (V2.T_Import.ofVal i) := by
        cases iv <;> simp [Jwt.Val.deref, optOfVal] at hd ⊢
        exact congrArg _ hd
      rw [hs] at hval
      have hty : (V2.T_Import.ofVal i).f_Type = (i.field "type").asInt := rfl
      by_cases hsvc : isService i = true
      · -- a service import: overlap tests against the earlier effective subjects, then the import itself
        have h2 : ((V2.T_Import.ofVal i).f_Type == 2) = true := by simpa [isService, V2.T_Import.ofVal] using hsvc
        obtain ⟨hpk, hndk⟩ := keys_mapSet_perm m seen (importLocalSubject i) hp hnd
        let ovG : List Issue := (m.map (·.1)).flatMap fun k =>
          errIf (Jwt.isContainedIn (importLocalSubject i) k || Jwt.isContainedIn k (importLocalSubject i))
        let ovM : List Issue := seen.flatMap fun k =>
          errIf (Jwt.isContainedIn (importLocalSubject i) k || Jwt.isContainedIn k (importLocalSubject i))
        have hov : ovG.Perm ovM := List.Perm.flatMap_right _ hp
        obtain ⟨l, m', hl, hperm⟩ := ih (i0 + 1)
          (push vr (ovG ++ errIf (seen.contains (importLocalSubject i)) ++ validateImport cr acct iv))
          ((importLocalSubject i, ()) :: m.filter (fun p => p.1 ≠ importLocalSubject i))
          (if seen.contains (importLocalSubject i) then seen else seen ++ [importLocalSubject i]) hpk hndk
        refine ⟨(ovG ++ errIf (seen.contains (importLocalSubject i)) ++ validateImport cr acct iv) ++ l, m', ?_, ?_⟩
        · have hsubj : (if ((if ((V2.T_Import.ofVal i).f_To == []) = true then renamingToSubject (V2.T_Import.ofVal i).f_LocalSubject
                else (V2.T_Import.ofVal i).f_To) == []) = true then (V2.T_Import.ofVal i).f_Subject
              else (if ((V2.T_Import.ofVal i).f_To == []) = true then renamingToSubject (V2.T_Import.ofVal i).f_LocalSubject
                else (V2.T_Import.ofVal i).f_To)) = importLocalSubject i := by
            simp only [importLocalSubject, V2.T_Import.ofVal]
            by_cases ht : (i.field "to").asStr = [] <;> by_cases hl2 : renamingToSubject (i.field "local_subject").asStr = [] <;>
              simp [ht, hl2]
          have hcont : (mapGet (some m) (importLocalSubject i)).isSome = seen.contains (importLocalSubject i) := by
            rw [mapGet_isSome']
            by_cases hm : importLocalSubject i ∈ seen
            · have := hp.mem_iff.mpr hm; simp [hm, this]
            · have : importLocalSubject i ∉ m.map (·.1) := fun h => hm (hp.mem_iff.mp h)
              simp [hm, this]
          simp only [List.map_cons, forRangeFrom, V2.Imports_Validate.loop1, hs, Option.isNone_some, Bool.false_eq_true, if_false,
            h2, if_true, hToSub, forRange, imports_overlap_inner, mapEntries, v2_addError, hval, mapSet,
            Option.pure_def, Option.bind_eq_bind, Option.bind_some, ite_some, push_ite, push_push, hsubj, hcont]
          simp only [push_push] at hl
          simpa [errIf, ovG] using hl
        · -- ovG ++ c ++ vI ++ l  ~  (ovM ++ c ++ overlapRest) ++ (vI ++ importsRest)
          have hio : importsOverlap seen (iv :: rest) =
              ovM ++ errIf (seen.contains (importLocalSubject i)) ++
                importsOverlap (if seen.contains (importLocalSubject i) then seen else seen ++ [importLocalSubject i]) rest := by
            simp [importsOverlap, hd, hsvc, ovM]
          rw [hio, List.flatMap_cons]
          have h1 : (ovG ++ errIf (seen.contains (importLocalSubject i)) ++ validateImport cr acct iv ++ l).Perm
              (ovM ++ errIf (seen.contains (importLocalSubject i)) ++ validateImport cr acct iv ++
                (importsOverlap (if seen.contains (importLocalSubject i) then seen else seen ++ [importLocalSubject i]) rest ++
                  List.flatMap (validateImport cr acct) rest)) :=
            List.Perm.append (List.Perm.append_right _ (List.Perm.append_right _ hov)) hperm
          refine h1.trans ?_
          simp only [List.append_assoc]
          apply List.Perm.append_left
          apply List.Perm.append_left
          exact List.perm_append_comm_assoc _ _ _
      · -- not a service import: no overlap test
        have hsvc' : isService i = false := by simpa using hsvc
        have h2 : ((V2.T_Import.ofVal i).f_Type == 2) = false := by simpa [isService, V2.T_Import.ofVal] using hsvc'
        obtain ⟨l, m', hl, hperm⟩ := ih (i0 + 1) (push vr (validateImport cr acct iv)) m seen hp hnd
        refine ⟨validateImport cr acct iv ++ l, m', ?_, ?_⟩
        · simp only [List.map_cons, forRangeFrom, V2.Imports_Validate.loop1, hs, Option.isNone_some, Bool.false_eq_true, if_false,
            h2, hval, Option.pure_def, Option.bind_eq_bind, Option.bind_some]
          simp only [push_push] at hl
          simpa using hl
        · simp only [importsOverlap, hd, hsvc', Bool.false_eq_true, if_false, List.flatMap_cons]
          exact (List.Perm.append_left _ hperm).trans (List.perm_append_comm_assoc _ _ _)

/-- **`Imports.Validate`**: never panics, and raises the issues of the model's `validateImports` (rows M0–M13 per entry,
ML1 over the list) up to order -/
theorem v2_importsValidate (cr : Crypto) (opq : V2.Opq)
    (hAtoi : ∀ x, opq.strconv_Atoi x = atoi x)
    (hAcct : ∀ x, opq.nkeys_IsValidPublicAccountKey x = validAcct x)
    (hToSub : ∀ x, V2.RenamingSubject_ToSubject x opq = some (renamingToSubject x))
    (hDec : ∀ tok, V2.DecodeActivationClaims tok opq =
      some (match decodeTyped .activation cr tok with
            | .ok c => (some (V2.T_ActivationClaims.ofVal c.val), false)
            | .error _ => (none, true)))
    (acct : Str) (now : Int) (is : List Jwt.Val) (vr : V2.T_ValidationResults) :
    ∃ l, V2.Imports_Validate (is.map (optOfVal V2.T_Import.ofVal)) acct vr now opq = some (push vr l) ∧
      l.Perm (validateImports cr acct (Jwt.Val.list is)) := by
  obtain ⟨l, m', hl, hperm⟩ := v2_imports_loop cr opq hAtoi hAcct hToSub hDec acct now is 0 vr [] [] (by simp) (by simp)
  refine ⟨l, ?_, ?_⟩
  · simp [V2.Imports_Validate, forRange, hl]
  · simpa [validateImports, Jwt.Val.asList] using hperm

/-- blocking-ness and the number of time-check issues do not depend on the order of a result list -/
theorem isBlocking_perm {a b : List Issue} (h : a.Perm b) (t : Bool) : isBlocking a t = isBlocking b t := by
  unfold isBlocking
  induction h with
  | nil => rfl
  | cons x _ ih => simp [ih]
  | swap x y l => simp [Bool.or_left_comm]
  | trans _ _ ih1 ih2 => exact ih1.trans ih2

/-! ## C06: the account — limits, external authorization, trace, signing keys, `Account.Validate`, `AccountClaims.Validate` -/

theorem mapEntries_mapOfValWith {α : Type} (f : Jwt.Val → α) (v : Jwt.Val) :
    mapEntries (mapOfValWith f v) = v.asMap.map fun p => (p.1, f p.2) := by
  cases v <;> simp [mapOfValWith, mapEntries, Jwt.Val.asMap]

/-- `OperatorLimits.IsEmpty` (three struct comparisons with the zero struct) = the model's field-wise test -/
theorem v2_limitsIsEmpty (lim : Jwt.Val) :
    V2.OperatorLimits_IsEmpty (V2.T_OperatorLimits.ofVal lim) = some (limitsIsEmpty lim) := by
  unfold V2.OperatorLimits_IsEmpty limitsIsEmpty jsFlatNonZero jsFlatKeys
  simp only [V2.T_OperatorLimits.ofVal, V2.T_NatsLimits.ofVal, V2.T_AccountLimits.ofVal, V2.T_JetStreamLimits.ofVal,
    mapLen, mapEntries_mapOfValWith, Option.pure_def, Bool.beq_eq_decide_eq, V2.T_NatsLimits.mk.injEq,
    V2.T_AccountLimits.mk.injEq, V2.T_JetStreamLimits.mk.injEq]
  congr 1
  simp only [List.all_cons, List.all_nil, List.any_cons, List.any_nil, List.length_map, Bool.and_true, Bool.or_false]
  rw [Bool.eq_iff_iff]
  simp only [Bool.and_eq_true, decide_eq_true_eq, Bool.not_eq_true', Bool.or_eq_false_iff, bne_eq_false_iff_eq,
    beq_iff_eq, List.isEmpty_iff]
  constructor
  · rintro ⟨⟨⟨⟨a, b, c⟩, ⟨d, e, f, g, h, i⟩⟩, ⟨j, k, l, m, n, o, p, q⟩⟩, r⟩
    have hr : (lim.field "tiered_limits").asMap = [] := by
      cases hm : (lim.field "tiered_limits").asMap with
      | nil => rfl
      | cons x y => simp [hm] at r; omega
    simp_all
  · intro h
    simp_all

theorem decide_mem_keys {ν : Type} (k : Str) (kvs : List (Str × ν)) :
    decide (k ∈ kvs.map (·.1)) = kvs.any (fun x => decide (x.1 = k)) := by
  induction kvs with
  | nil => simp
  | cons x xs ih =>
    by_cases hx : x.1 = k
    · simp [hx]
    · have hx' : ¬ k = x.1 := fun e => hx e.symm
      simp only [List.map_cons, List.mem_cons, hx', false_or, List.any_cons, hx, decide_false, Bool.false_or]
      exact ih

/-- `OperatorLimits.Validate` (rows L1, L2) -/
theorem v2_operatorLimitsValidate (lim : Jwt.Val) (vr : V2.T_ValidationResults) :
    V2.OperatorLimits_Validate (V2.T_OperatorLimits.ofVal lim) vr = some (push vr (validateOperatorLimits lim)) := by
  unfold V2.OperatorLimits_Validate validateOperatorLimits jsFlatNonZero jsFlatKeys
  have hjs : ((V2.T_OperatorLimits.ofVal lim).f_JetStreamLimits !=
      ({ f_MemoryStorage := 0, f_DiskStorage := 0, f_Streams := 0, f_Consumer := 0, f_MaxAckPending := 0,
         f_MemoryMaxStreamBytes := 0, f_DiskMaxStreamBytes := 0, f_MaxBytesRequired := false } : V2.T_JetStreamLimits)) =
      (["mem_storage", "disk_storage", "streams", "consumer", "max_ack_pending", "mem_max_stream_bytes",
          "disk_max_stream_bytes"].any (fun k => (lim.field k).asInt != 0) || (lim.field "max_bytes_required").asBool) := by
    simp only [V2.T_OperatorLimits.ofVal, V2.T_JetStreamLimits.ofVal, bne, Bool.beq_eq_decide_eq, V2.T_JetStreamLimits.mk.injEq,
      List.any_cons, List.any_nil, Bool.or_false]
    rw [Bool.eq_iff_iff]
    simp only [Bool.not_eq_true', decide_eq_false_iff_not, not_and, Bool.or_eq_true, decide_eq_true_eq]
    constructor
    · intro h
      by_cases h1 : (lim.field "mem_storage").asInt = 0 <;> by_cases h2 : (lim.field "disk_storage").asInt = 0 <;>
        by_cases h3 : (lim.field "streams").asInt = 0 <;> by_cases h4 : (lim.field "consumer").asInt = 0 <;>
        by_cases h5 : (lim.field "max_ack_pending").asInt = 0 <;> by_cases h6 : (lim.field "mem_max_stream_bytes").asInt = 0 <;>
        by_cases h7 : (lim.field "disk_max_stream_bytes").asInt = 0 <;> simp_all
    · intro h a b c d e f g
      simp_all
  have hlen : (mapLen (V2.T_OperatorLimits.ofVal lim).f_JetStreamTieredLimits > 0) ↔
      ¬ (lim.field "tiered_limits").asMap.isEmpty = true := by
    simp only [V2.T_OperatorLimits.ofVal, mapLen, mapEntries_mapOfValWith, List.length_map]
    cases (lim.field "tiered_limits").asMap <;> simp <;> omega
  have hblank : (mapGet (V2.T_OperatorLimits.ofVal lim).f_JetStreamTieredLimits ([] : Str)).isSome =
      (lim.field "tiered_limits").asMap.any (·.1 = []) := by
    simp only [V2.T_OperatorLimits.ofVal]
    cases ht : lim.field "tiered_limits" <;> simp [mapOfValWith, mapGet, Jwt.Val.asMap]
    rename_i kvs
    have := mapGet_isSome' (kvs.map fun p => (p.1, V2.T_JetStreamLimits.ofVal p.2)) []
    simp only [mapGet] at this
    rw [this, decide_mem_keys]
    simp [List.any_map, Function.comp_def]
  by_cases hne : (lim.field "tiered_limits").asMap.isEmpty = true
  · have : ¬ mapLen (V2.T_OperatorLimits.ofVal lim).f_JetStreamTieredLimits > 0 := fun h => (hlen.mp h) hne
    simp [this, hne]
  · have hpos : mapLen (V2.T_OperatorLimits.ofVal lim).f_JetStreamTieredLimits > 0 := hlen.mpr hne
    simp only [hpos, decide_true, if_true, hjs, hblank, v2_addError, Option.pure_def, Option.bind_eq_bind,
      Option.bind_some, ite_some, push_ite, push_push, hne, Bool.false_eq_true, if_false]
    simp [errIf]

theorem foldl_push {α : Type} (f : α → List Issue) : ∀ (xs : List α) (w : V2.T_ValidationResults),
    xs.foldl (fun st x => push st (f x)) w = push w (xs.flatMap f) := by
  intro xs
  induction xs with
  | nil => intro w; simp
  | cons x xs ih => intro w; simp [ih, push_push]

/-- `ExternalAuthorization.Validate` (rows X1–X5); the nkeys validators are parameters -/
theorem v2_extAuthValidate (opq : V2.Opq)
    (hAcct : ∀ x, opq.nkeys_IsValidPublicAccountKey x = validAcct x)
    (hUser : ∀ x, opq.nkeys_IsValidPublicUserKey x = validUser x)
    (hCurve : ∀ x, opq.nkeys_IsValidPublicCurveKey x = validCurve x)
    (a : Jwt.Val) (vr : V2.T_ValidationResults) :
    V2.ExternalAuthorization_Validate (V2.T_ExternalAuthorization.ofVal a) vr opq = some (push vr (validateExtAuth a)) := by
  unfold V2.ExternalAuthorization_Validate validateExtAuth
  simp only [V2.T_ExternalAuthorization.ofVal]
  obtain ⟨users, hu⟩ : ∃ u, (a.field "auth_users").strs = u := ⟨_, rfl⟩
  obtain ⟨allowed, hal⟩ : ∃ u, (a.field "allowed_accounts").strs = u := ⟨_, rfl⟩
  obtain ⟨xkey, hxk⟩ : ∃ u, (a.field "xkey").asStr = u := ⟨_, rfl⟩
  simp only [hu, hal, hxk]
  have h1 : ∀ (i : Int) (u : Str) (w : V2.T_ValidationResults),
      V2.ExternalAuthorization_Validate.loop1 opq i u w = some (.next (push w (errIf (!validUser u)))) := by
    intro i u w
    simp only [V2.ExternalAuthorization_Validate.loop1, hUser, v2_addError, Option.pure_def, Option.bind_eq_bind,
      Option.bind_some, ite_some, push_ite]
    cases validUser u <;> simp [errIf]
  have h2 : ∀ (i : Int) (acc : Str) (w : V2.T_ValidationResults),
      V2.ExternalAuthorization_Validate.loop2 { f_AuthUsers := users, f_AllowedAccounts := allowed, f_XKey := xkey } opq i acc w =
        some (.next (push w (if acc = Gen.V2.cAnyAccount then errIf (allowed.length > 1) else errIf (!validAcct acc)))) := by
    intro i acc w
    simp only [V2.ExternalAuthorization_Validate.loop2, hAcct, v2_addError, Gen.V2.cAnyAccount]
    by_cases ha : acc = ['*']
    · subst ha
      by_cases hl : allowed.length > 1
      · have : decide (len allowed > 1) = true := by simp [len]; omega
        simp [this, hl, errIf]
      · have : decide (len allowed > 1) = false := by simp [len]; omega
        simp [this, hl, errIf]
    · have hb : (acc == ['*']) = false := by simpa using ha
      cases hv : validAcct acc <;> simp [ha, hb, hv, errIf]
  simp only [forRange, forRangeFrom_fold _ _ h1, forRangeFrom_fold _ _ h2, foldl_push, hCurve, v2_addError,
    Option.pure_def, Option.bind_eq_bind, Option.bind_some, ite_some, push_ite, push_push]
  have e1 : (decide (len allowed > 0) && (len users == 0)) = (!allowed.isEmpty && users.isEmpty) := by
    cases allowed <;> cases users <;> simp [len] <;> omega
  simp only [e1]
  cases hx : (!allowed.isEmpty && users.isEmpty) <;> by_cases hk : xkey = [] <;> cases hc : validCurve xkey <;>
    simp [hx, hk, hc, errIf, bne, Bool.beq_eq_decide_eq]

/-- how a signing-key entry is read out of a model value (as generated in `T_Account.ofVal`) -/
def scopeOfVal (x : Jwt.Val) : Option V2.I_Scope :=
  match x with
  | .nil => none
  | .ptr s => some (V2.I_Scope.UserScope (V2.T_UserScope.ofVal s))
  | s => some (V2.I_Scope.UserScope (V2.T_UserScope.ofVal s))

/-- `SigningKeys.Validate` (rows K1, K2): plain keys by the map key, scopes by their own key (dynamic dispatch) -/
theorem v2_signingKeysValidate (opq : V2.Opq) (hAcct : ∀ x, opq.nkeys_IsValidPublicAccountKey x = validAcct x)
    (sk : Jwt.Val) (vr : V2.T_ValidationResults) :
    V2.SigningKeys_Validate (mapOfValWith scopeOfVal sk) vr opq = some (push vr (validateSigningKeys sk)) := by
  have hb : ∀ (i : Int) (e : Str × Jwt.Val) (w : V2.T_ValidationResults),
      V2.SigningKeys_Validate.loop1 opq i (e.1, scopeOfVal e.2) w = some (.next (push w (validateSigningKey e.1 e.2))) := by
    intro i e w
    obtain ⟨k, v⟩ := e
    cases v <;>
      simp only [V2.SigningKeys_Validate.loop1, scopeOfVal, validateSigningKey, V2.I_Scope.Validate, V2.UserScope_Validate,
        V2.T_UserScope.ofVal, hAcct, v2_addError, Option.isSome_some, Option.isSome_none, Option.pure_def, Option.bind_eq_bind,
        Option.bind_some, ite_some, push_ite, if_true, if_false, Bool.false_eq_true] <;>
      (first | (cases validAcct k <;> simp [errIf]) | skip)
    all_goals (first | (rename_i x; cases validAcct (x.field "key").asStr <;> simp [errIf]) | skip)
  unfold V2.SigningKeys_Validate validateSigningKeys
  simp only [forRange, mapEntries_mapOfValWith]
  have hloop : ∀ (es : List (Str × Jwt.Val)) (i : Int) (w : V2.T_ValidationResults),
      forRangeFrom (ρ := V2.T_ValidationResults) (V2.SigningKeys_Validate.loop1 opq) i (es.map fun p => (p.1, scopeOfVal p.2)) w =
        some (.done (push w (es.flatMap fun e => validateSigningKey e.1 e.2))) := by
    intro es
    induction es with
    | nil => intro i w; simp [forRangeFrom]
    | cons e es ih => intro i w; simp [forRangeFrom, hb, ih, push_push]
  simp [hloop]

/-- `Permissions.Validate` (rows P1–P3; the response permission has no rules) -/
theorem v2_permissionsValidate (v : Jwt.Val) (vr : V2.T_ValidationResults) :
    V2.Permissions_Validate (V2.T_Permissions.ofVal v) vr = some (push vr (validatePermissions v)) := by
  unfold V2.Permissions_Validate validatePermissions validatePermission
  have hs : (V2.T_Permissions.ofVal v).f_Sub = { f_Allow := ((v.field "sub").field "allow").strs, f_Deny := ((v.field "sub").field "deny").strs } := rfl
  have hp : (V2.T_Permissions.ofVal v).f_Pub = { f_Allow := ((v.field "pub").field "allow").strs, f_Deny := ((v.field "pub").field "deny").strs } := rfl
  simp only [hs, hp, v2_permissionValidate, V2.ResponsePermission_Validate, Option.pure_def, Option.bind_eq_bind,
    Option.bind_some, push_push]
  cases (V2.T_Permissions.ofVal v).f_Resp <;> simp

/-- the wildcard-export loop of `Account.Validate` (row L5): null entries are skipped -/
theorem v2_wildcardLoop (now : Int) (opq : V2.Opq) : ∀ (es : List Jwt.Val) (i : Int) (w : V2.T_ValidationResults),
    forRangeFrom (ρ := V2.T_Account × V2.T_ValidationResults) (V2.Account_Validate.loop1 now opq) i
        (es.map (optOfVal V2.T_Export.ofVal)) w =
      some (.done (push w (wildcardExportIssues es))) := by
  intro es
  induction es with
  | nil => intro i w; simp [forRangeFrom, wildcardExportIssues]
  | cons ev es ih =>
    intro i w
    cases hd : ev.deref with
    | none =>
      have hn : optOfVal V2.T_Export.ofVal ev = none := by
        cases ev <;> simp [Jwt.Val.deref, optOfVal] at hd ⊢
      have := ih (i + 1) w
      simp only [wildcardExportIssues] at this ⊢
      simp [forRangeFrom, V2.Account_Validate.loop1, hn, hd, this]
    | some e =>
      have hs : optOfVal V2.T_Export.ofVal ev = some (V2.T_Export.ofVal e) := by
        cases ev <;> simp [Jwt.Val.deref, optOfVal] at hd ⊢
        exact congrArg _ hd
      have hsub : (V2.T_Export.ofVal e).f_Subject = (e.field "subject").asStr := rfl
      have := ih (i + 1) (push w (errIf (hasWildCards (e.field "subject").asStr)))
      simp only [wildcardExportIssues, errIf] at this ⊢
      simp only [List.map_cons, forRangeFrom, V2.Account_Validate.loop1, hs, hsub, v2_hasWildCards, v2_addError,
        Option.isSome_some, if_true, Option.pure_def, Option.bind_eq_bind, Option.bind_some, ite_some, push_ite, this,
        push_push, List.flatMap_cons, hd]

theorem ite_ite_nil (a b : Bool) (x : List Issue) :
    (if a = true then (if b = true then x else []) else []) = (if (a && b) = true then x else []) := by
  cases a <;> cases b <;> simp

theorem push_ite' (c : Prop) [Decidable c] (vr : V2.T_ValidationResults) (x e : List Issue) :
    (if c then push vr (x ++ e) else push vr x) = push vr (x ++ if c then e else []) := by
  by_cases h : c <;> simp [h]

theorem isEmpty_push_empty (l : List Issue) :
    V2.ValidationResults_IsEmpty (push ({ f_Issues := [] } : V2.T_ValidationResults) l) = some l.isEmpty := by
  cases l <;> simp [V2.ValidationResults_IsEmpty, push, len]
  omega

theorem validateImports_asList (cr : Crypto) (acct : Str) (v : Jwt.Val) :
    validateImports cr acct (Jwt.Val.list v.asList) = validateImports cr acct v := by
  simp [validateImports, Jwt.Val.asList]

theorem validateExports_asList (env : VEnv) (v : Jwt.Val) :
    validateExports env (Jwt.Val.list v.asList) = validateExports env v := by
  simp [validateExports, Jwt.Val.asList]

/-- `Account.Validate` (rows A1-A10 of C06/C11): every block in source order; the imports block up to the
    order of Go's map iteration (`v2_importsValidate`) -/
theorem v2_accountBodyValidate (env : VEnv) (cr : Crypto) (opq : V2.Opq)
    (hInfo : ∀ (e : Jwt.Val) (vr : V2.T_ValidationResults),
      V2.Info_Validate (V2.T_Info.ofVal e) vr opq = some (push vr (validateInfo env e)))
    (hAtoi : ∀ x, opq.strconv_Atoi x = atoi x)
    (hAcct : ∀ x, opq.nkeys_IsValidPublicAccountKey x = validAcct x)
    (hUser : ∀ x, opq.nkeys_IsValidPublicUserKey x = validUser x)
    (hCurve : ∀ x, opq.nkeys_IsValidPublicCurveKey x = validCurve x)
    (hToSub : ∀ x, V2.RenamingSubject_ToSubject x opq = some (renamingToSubject x))
    (hDec : ∀ tok, V2.DecodeActivationClaims tok opq =
      some (match decodeTyped .activation cr tok with
            | .ok c => (some (V2.T_ActivationClaims.ofVal c.val), false)
            | .error _ => (none, true)))
    (c : Jwt.Val) (vr : V2.T_ValidationResults) (now : Int) :
    ∃ a' l, V2.Account_Validate (V2.T_Account.ofVal (c.field "nats")) (V2.T_AccountClaims.ofVal c) vr now opq =
        some (a', push vr l) ∧ a'.f_Limits = V2.T_OperatorLimits.ofVal ((c.field "nats").field "limits") ∧
      l.Perm (validateAccountBody env cr c) := by
  obtain ⟨n, hn⟩ : ∃ n, c.field "nats" = n := ⟨_, rfl⟩
  obtain ⟨l1, h1, p1⟩ := v2_importsValidate cr opq hAtoi hAcct hToSub hDec (c.field "sub").asStr now
    (n.field "imports").asList vr
  rw [validateImports_asList] at p1
  have hsk : (V2.T_Account.ofVal n).f_SigningKeys = mapOfValWith scopeOfVal (n.field "signing_keys") := by
    simp only [V2.T_Account.ofVal]; congr 1
  have hI : (V2.T_Account.ofVal n).f_Imports = (n.field "imports").asList.map (optOfVal V2.T_Import.ofVal) := rfl
  have hE : (V2.T_Account.ofVal n).f_Exports = (n.field "exports").asList.map (optOfVal V2.T_Export.ofVal) := rfl
  have hL : (V2.T_Account.ofVal n).f_Limits = V2.T_OperatorLimits.ofVal (n.field "limits") := rfl
  have hP : (V2.T_Account.ofVal n).f_DefaultPermissions = V2.T_Permissions.ofVal (n.field "default_permissions") := rfl
  have hM : (V2.T_Account.ofVal n).f_Mappings =
      mapOfValWith (fun x => x.asList.map V2.T_WeightedMapping.ofVal) (n.field "mappings") := rfl
  have hA : (V2.T_Account.ofVal n).f_Authorization = V2.T_ExternalAuthorization.ofVal (n.field "authorization") := rfl
  have hT : (V2.T_Account.ofVal n).f_Trace = optOfVal V2.T_MsgTrace.ofVal (n.field "trace") := rfl
  have hF : (V2.T_Account.ofVal n).f_Info = V2.T_Info.ofVal n := rfl
  have hS : (V2.T_AccountClaims.ofVal c).f_ClaimsData.f_Subject = (c.field "sub").asStr := rfl
  have hli : (V2.T_OperatorLimits.ofVal (n.field "limits")).f_AccountLimits.f_Imports = ((n.field "limits").field "imports").asInt := rfl
  have hle : (V2.T_OperatorLimits.ofVal (n.field "limits")).f_AccountLimits.f_Exports = ((n.field "limits").field "exports").asInt := rfl
  have hlw : (V2.T_OperatorLimits.ofVal (n.field "limits")).f_AccountLimits.f_WildcardExports = ((n.field "limits").field "wildcards").asBool := rfl
  unfold V2.Account_Validate
  simp only [hn, hI, hE, hL, hP, hM, hA, hF, hS, hsk, h1, v2_exportsValidate env opq hInfo, v2_operatorLimitsValidate,
    v2_permissionsValidate, v2_mappingValidate, v2_extAuthValidate opq hAcct hUser hCurve, mapEntries_mapOfValWith,
    ← validateMappings_eq, validateExports_asList, Option.pure_def, Option.bind_eq_bind, Option.bind_some, push_push]
  cases htr : (n.field "trace").deref with
  | none =>
    have hnone : optOfVal V2.T_MsgTrace.ofVal (n.field "trace") = none := by
      cases hv : n.field "trace" <;> simp [hv, Jwt.Val.deref, optOfVal] at htr ⊢
    simp only [hT, hnone, Option.isSome_none, Bool.false_eq_true, if_false, Option.pure_def, Option.bind_some,
      hL, hI, hE, hsk, hF, hli, hle, hlw, v2_limitsIsEmpty, ite_some, ite_and, Option.bind_some, v2_addError,
      push_ite, push_push, forRange, v2_wildcardLoop, v2_signingKeysValidate opq hAcct, hInfo, Option.bind_eq_bind,
      len, List.length_map]
    by_cases he : (((n.field "limits").field "exports").asInt != -1) = true <;>
    by_cases hw : (!((n.field "limits").field "wildcards").asBool) = true <;>
    simp only [he, hw, if_true, if_false, push_push, Bool.false_eq_true] <;>
    refine ⟨_, _, rfl, hL, ?_⟩ <;>
    simp only [List.append_assoc, validateAccountBody, hn] <;>
    refine List.Perm.append p1 (List.Perm.of_eq ?_) <;>
    simp only [validateAccountLimits, validateTrace, htr, errIf, Gen.V2.cNoLimit, he, hw, List.nil_append, if_true, if_false,
      List.append_assoc, List.append_nil, Bool.false_eq_true, ite_ite_nil]
    all_goals rfl
  | some tr =>
    have hsome : optOfVal V2.T_MsgTrace.ofVal (n.field "trace") = some (V2.T_MsgTrace.ofVal tr) := by
      cases hv : n.field "trace" <;> simp [hv, Jwt.Val.deref, optOfVal] at htr ⊢
      all_goals exact congrArg _ htr
    have hts : (V2.T_MsgTrace.ofVal tr).f_Sampling = (tr.field "sampling").asInt := rfl
    have htd : (V2.T_MsgTrace.ofVal tr).f_Destination = (tr.field "dest").asStr := rfl
    by_cases hs1 : (tr.field "sampling").asInt < 0 ∨ (tr.field "sampling").asInt > 100
    · have hs1' : (decide ((tr.field "sampling").asInt < 0) || decide ((tr.field "sampling").asInt > 100)) = true := by
        simpa using hs1
      simp only [hT, hsome, Option.isSome_some, if_true, Option.pure_def, Option.bind_some, V2.CreateValidationResults,
        hts, htd, v2_subjectValidate, isEmpty_push_empty, v2_hasWildCards, ite_or, hs1',
        hL, hI, hE, hsk, hF, hli, hle, hlw, v2_limitsIsEmpty, ite_some, ite_and, v2_addError,
        push_ite, push_push, forRange, v2_wildcardLoop, v2_signingKeysValidate opq hAcct, hInfo, Option.bind_eq_bind,
        len, List.length_map, push_ite']
      by_cases he : (((n.field "limits").field "exports").asInt != -1) = true <;>
      by_cases hw : (!((n.field "limits").field "wildcards").asBool) = true <;>
      simp only [he, hw, if_true, if_false, push_push, Bool.false_eq_true] <;>
      refine ⟨_, _, rfl, hL, ?_⟩ <;>
      simp only [List.append_assoc, validateAccountBody, hn] <;>
      refine List.Perm.append p1 (List.Perm.of_eq ?_) <;>
      simp only [validateAccountLimits, validateTrace, htr, errIf, Gen.V2.cNoLimit, he, hw, List.nil_append, if_true, if_false,
        List.append_assoc, List.append_nil, Bool.false_eq_true, ite_ite_nil, hs1']
      all_goals rfl
    · have hs1' : (decide ((tr.field "sampling").asInt < 0) || decide ((tr.field "sampling").asInt > 100)) = false := by
        simpa using hs1
      have h00 : (decide ((0 : Int) < 0) || decide ((0 : Int) > 100)) = false := by decide
      cases hs0 : ((tr.field "sampling").asInt == 0)
      all_goals
        simp only [hT, hsome, Option.isSome_some, if_true, Option.pure_def, Option.bind_some, V2.CreateValidationResults,
          hts, htd, v2_subjectValidate, isEmpty_push_empty, v2_hasWildCards, ite_or, hs1', hs0,
          Bool.false_eq_true, if_false,
          hL, hI, hE, hsk, hF, hli, hle, hlw, v2_limitsIsEmpty, ite_some, ite_and, v2_addError,
          push_ite, push_push, forRange, v2_wildcardLoop, v2_signingKeysValidate opq hAcct, hInfo, Option.bind_eq_bind,
          len, List.length_map, push_ite']
      all_goals
        by_cases he : (((n.field "limits").field "exports").asInt != -1) = true <;>
        by_cases hw : (!((n.field "limits").field "wildcards").asBool) = true <;>
        (try simp only [he, hw, if_true, if_false, push_push, Bool.false_eq_true]) <;>
        refine ⟨_, _, rfl, (by first | exact hL | rfl), ?_⟩ <;>
        simp only [List.append_assoc, validateAccountBody, hn] <;>
        refine List.Perm.append p1 (List.Perm.of_eq ?_) <;>
        simp only [validateAccountLimits, validateTrace, htr, errIf, Gen.V2.cNoLimit, he, hw, List.nil_append, if_true, if_false,
          List.append_assoc, List.append_nil, Bool.false_eq_true, ite_ite_nil, hs1']
      all_goals rfl

/-- `AccountClaims.Validate`: the time checks, `Account.Validate`, then the self-signed-with-limits warning -/
theorem v2_accountClaimsValidate (env : VEnv) (cr : Crypto) (opq : V2.Opq)
    (hInfo : ∀ (e : Jwt.Val) (vr : V2.T_ValidationResults),
      V2.Info_Validate (V2.T_Info.ofVal e) vr opq = some (push vr (validateInfo env e)))
    (hAtoi : ∀ x, opq.strconv_Atoi x = atoi x)
    (hAcct : ∀ x, opq.nkeys_IsValidPublicAccountKey x = validAcct x)
    (hUser : ∀ x, opq.nkeys_IsValidPublicUserKey x = validUser x)
    (hCurve : ∀ x, opq.nkeys_IsValidPublicCurveKey x = validCurve x)
    (hToSub : ∀ x, V2.RenamingSubject_ToSubject x opq = some (renamingToSubject x))
    (hDec : ∀ tok, V2.DecodeActivationClaims tok opq =
      some (match decodeTyped .activation cr tok with
            | .ok c => (some (V2.T_ActivationClaims.ofVal c.val), false)
            | .error _ => (none, true)))
    (c : Jwt.Val) (vr : V2.T_ValidationResults) (now : Int) :
    ∃ a' l, V2.AccountClaims_Validate (V2.T_AccountClaims.ofVal c) vr now opq = some (a', push vr l) ∧
      l.Perm (validateAccount env cr now c) := by
  have hcd : V2.ClaimsData_Validate (V2.T_AccountClaims.ofVal c).f_ClaimsData vr now =
      some (push vr (validateClaimsData now c)) := by
    rw [v2_claimsDataValidate]; rfl
  obtain ⟨a', l, h, hlim, hp⟩ := v2_accountBodyValidate env cr opq hInfo hAtoi hAcct hUser hCurve hToSub hDec c
    (push vr (validateClaimsData now c)) now
  have hacc : (V2.T_AccountClaims.ofVal c).f_Account = V2.T_Account.ofVal (c.field "nats") := rfl
  have hiss : (V2.T_AccountClaims.ofVal c).f_ClaimsData.f_Issuer = (c.field "iss").asStr := rfl
  unfold V2.AccountClaims_Validate
  simp only [hcd, hacc, h, hiss, hlim, hAcct, v2_limitsIsEmpty, v2_addWarning, Option.pure_def, Option.bind_eq_bind,
    Option.bind_some, ite_some, push_ite, push_push, push_ite', ite_ite_nil]
  refine ⟨_, _, rfl, ?_⟩
  unfold validateAccount
  simp only [List.append_assoc]
  exact List.Perm.append_left _ (List.Perm.append hp (List.Perm.refl _))

/-! ## The user side: `TimeRange.Validate`, `Limits.Validate`, `User.Validate`, `UserClaims.Validate` -/

/-- `TimeRange.Validate` (rows U2a-b); `time.Parse("15:04:05", ·)` is a parameter assumed to fail exactly when the
model environment's `clockOk` is false -/
theorem v2_timeRangeValidate (env : VEnv) (opq : V2.Opq)
    (hClock : ∀ x, opq.time_Parse "15:04:05".toList x = !env.clockOk x)
    (tr : Jwt.Val) (vr : V2.T_ValidationResults) :
    V2.TimeRange_Validate (V2.T_TimeRange.ofVal tr) vr opq = some (push vr (validateTimeRange env tr)) := by
  unfold V2.TimeRange_Validate validateTimeRange
  have hf : (['1', '5', ':', '0', '4', ':', '0', '5'] : Str) = "15:04:05".toList := by decide
  simp only [V2.T_TimeRange.ofVal, hf, hClock]
  by_cases h1 : (tr.field "start").asStr = [] <;> by_cases h2 : (tr.field "end").asStr = [] <;>
    cases h3 : env.clockOk (tr.field "start").asStr <;> cases h4 : env.clockOk (tr.field "end").asStr <;>
    simp [h1, h2, h3, h4, v2_addError, errIf, push_push]

/-- `Limits.Validate` (rows U1-U3): the CIDR loop, the time ranges, the time zone; `net.ParseCIDR` and
`time.LoadLocation` are parameters -/
theorem v2_userLimitsValidate (env : VEnv) (opq : V2.Opq)
    (hClock : ∀ x, opq.time_Parse "15:04:05".toList x = !env.clockOk x)
    (hCidr : ∀ x, opq.net_ParseCIDR x = !env.cidrOk x)
    (hTz : ∀ x, opq.time_LoadLocation x = !env.tzOk x)
    (n : Jwt.Val) (vr : V2.T_ValidationResults) :
    V2.Limits_Validate (V2.T_Limits.ofVal n) vr opq = some (push vr (validateUserLimits env n)) := by
  have h1 : ∀ (i : Int) (x : Str) (w : V2.T_ValidationResults),
      V2.Limits_Validate.loop1 opq i x w = some (.next (push w (errIf (!env.cidrOk x)))) := by
    intro i x w
    cases h : env.cidrOk x <;> simp [V2.Limits_Validate.loop1, hCidr, h, v2_addError, errIf]
  have h2 : ∀ (i : Int) (t : Jwt.Val) (w : V2.T_ValidationResults),
      V2.Limits_Validate.loop2 opq i (V2.T_TimeRange.ofVal t) w = some (.next (push w (validateTimeRange env t))) := by
    intro i t w
    simp [V2.Limits_Validate.loop2, v2_timeRangeValidate env opq hClock]
  have h2' : ∀ (ts : List Jwt.Val) (i : Int) (w : V2.T_ValidationResults),
      forRangeFrom (V2.Limits_Validate.loop2 opq) i (ts.map V2.T_TimeRange.ofVal) w =
        some (.done (push w (ts.flatMap (validateTimeRange env)))) := by
    intro ts
    induction ts with
    | nil => intro i w; simp [forRangeFrom]
    | cons t ts ih => intro i w; simp [forRangeFrom, h2, ih, push_push]
  have hk : ∀ k : Nat, ¬ ((k : Int) + 1 = 0) := by intro k; omega
  unfold V2.Limits_Validate validateUserLimits
  simp only [V2.T_Limits.ofVal, V2.T_UserLimits.ofVal, forRange, forRangeFrom_fold _ _ h1, foldl_push, h2', hTz, len,
    List.length_map]
  cases hs : (n.field "src").strs <;> cases ht : (n.field "times").asList <;>
    by_cases hl : (n.field "times_location").asStr = [] <;> cases hz : env.tzOk (n.field "times_location").asStr <;>
    simp [hl, hz, v2_addError, errIf, push_push, hk]

theorem claimsData_ofVal (c : Jwt.Val) (vr : V2.T_ValidationResults) (now : Int) :
    V2.ClaimsData_Validate (V2.T_ClaimsData.ofVal c) vr now = some (push vr (validateClaimsData now c)) := by
  rw [v2_claimsDataValidate]; rfl

/-- `User.Validate` = permissions, then limits (both read at the `nats` level: embedded structs) -/
theorem v2_userBodyValidate (env : VEnv) (opq : V2.Opq)
    (hClock : ∀ x, opq.time_Parse "15:04:05".toList x = !env.clockOk x)
    (hCidr : ∀ x, opq.net_ParseCIDR x = !env.cidrOk x)
    (hTz : ∀ x, opq.time_LoadLocation x = !env.tzOk x)
    (n : Jwt.Val) (vr : V2.T_ValidationResults) :
    V2.User_Validate (V2.T_User.ofVal n) vr opq =
      some (push vr (validatePermissions n ++ validateUserLimits env n)) := by
  have hp : (V2.T_User.ofVal n).f_UserPermissionLimits.f_Permissions = V2.T_Permissions.ofVal n := rfl
  have hl : (V2.T_User.ofVal n).f_UserPermissionLimits.f_Limits = V2.T_Limits.ofVal n := rfl
  simp [V2.User_Validate, hp, hl, v2_permissionsValidate, v2_userLimitsValidate env opq hClock hCidr hTz, push_push]

/-- `UserClaims.Validate` = the model's `validateUser` (rows U1-U4 and the time checks) -/
theorem v2_userClaimsValidate (env : VEnv) (opq : V2.Opq)
    (hClock : ∀ x, opq.time_Parse "15:04:05".toList x = !env.clockOk x)
    (hCidr : ∀ x, opq.net_ParseCIDR x = !env.cidrOk x)
    (hTz : ∀ x, opq.time_LoadLocation x = !env.tzOk x)
    (hAcct : ∀ x, opq.nkeys_IsValidPublicAccountKey x = validAcct x)
    (c : Jwt.Val) (vr : V2.T_ValidationResults) (now : Int) :
    V2.UserClaims_Validate (V2.T_UserClaims.ofVal c) vr now opq = some (push vr (validateUser env now c)) := by
  have h1 : (V2.T_UserClaims.ofVal c).f_ClaimsData = V2.T_ClaimsData.ofVal c := rfl
  have h2 : (V2.T_UserClaims.ofVal c).f_User = V2.T_User.ofVal (c.field "nats") := rfl
  have h3 : (V2.T_User.ofVal (c.field "nats")).f_IssuerAccount = ((c.field "nats").field "issuer_account").asStr := rfl
  unfold V2.UserClaims_Validate validateUser
  simp only [h1, h2, h3, claimsData_ofVal, v2_userBodyValidate env opq hClock hCidr hTz, hAcct, v2_addError,
    Option.pure_def, Option.bind_eq_bind, Option.bind_some, ite_some, push_ite, push_push, errIf]
  by_cases hi : ((c.field "nats").field "issuer_account").asStr = [] <;>
    cases hv : validAcct ((c.field "nats").field "issuer_account").asStr <;> simp [hi, hv]

/-- `GenericClaims.Validate`: the time checks only -/
theorem v2_genericClaimsValidate (c : Jwt.Val) (vr : V2.T_ValidationResults) (now : Int) :
    V2.GenericClaims_Validate (V2.T_GenericClaims.ofVal c) vr now = some (push vr (validateClaimsData now c)) := by
  have h1 : (V2.T_GenericClaims.ofVal c).f_ClaimsData = V2.T_ClaimsData.ofVal c := rfl
  simp [V2.GenericClaims_Validate, h1, claimsData_ofVal]

/-- `AuthorizationRequestClaims.Validate` (rows Q1-Q2) -/
theorem v2_authRequestValidate (opq : V2.Opq) (hUser : ∀ x, opq.nkeys_IsValidPublicUserKey x = validUser x)
    (c : Jwt.Val) (vr : V2.T_ValidationResults) (now : Int) :
    V2.AuthorizationRequestClaims_Validate (V2.T_AuthorizationRequestClaims.ofVal c) vr now opq =
      some (push vr (validateAuthRequest now c)) := by
  have h1 : (V2.T_AuthorizationRequestClaims.ofVal c).f_ClaimsData = V2.T_ClaimsData.ofVal c := rfl
  have h2 : (V2.T_AuthorizationRequestClaims.ofVal c).f_AuthorizationRequest.f_UserNkey =
      ((c.field "nats").field "user_nkey").asStr := rfl
  unfold V2.AuthorizationRequestClaims_Validate validateAuthRequest
  simp only [h1, h2, hUser, claimsData_ofVal, v2_addError, Option.pure_def, Option.bind_eq_bind, Option.bind_some, ite_some,
    push_ite, push_push, errIf]
  by_cases hi : ((c.field "nats").field "user_nkey").asStr = [] <;>
    cases hv : validUser ((c.field "nats").field "user_nkey").asStr <;> simp [hi, hv, push_push]

/-- `AuthorizationResponseClaims.Validate` (rows R1-R5) -/
theorem v2_authResponseValidate (opq : V2.Opq)
    (hUser : ∀ x, opq.nkeys_IsValidPublicUserKey x = validUser x)
    (hServer : ∀ x, opq.nkeys_IsValidPublicServerKey x = validServer x)
    (hAcct : ∀ x, opq.nkeys_IsValidPublicAccountKey x = validAcct x)
    (c : Jwt.Val) (vr : V2.T_ValidationResults) (now : Int) :
    V2.AuthorizationResponseClaims_Validate (V2.T_AuthorizationResponseClaims.ofVal c) vr now opq =
      some (push vr (validateAuthResponse now c)) := by
  have h1 : (V2.T_AuthorizationResponseClaims.ofVal c).f_ClaimsData = V2.T_ClaimsData.ofVal c := rfl
  have h2 : (V2.T_ClaimsData.ofVal c).f_Subject = (c.field "sub").asStr := rfl
  have h3 : (V2.T_ClaimsData.ofVal c).f_Audience = (c.field "aud").asStr := rfl
  have h4 : (V2.T_AuthorizationResponseClaims.ofVal c).f_AuthorizationResponse.f_Error = ((c.field "nats").field "error").asStr := rfl
  have h5 : (V2.T_AuthorizationResponseClaims.ofVal c).f_AuthorizationResponse.f_Jwt = ((c.field "nats").field "jwt").asStr := rfl
  have h6 : (V2.T_AuthorizationResponseClaims.ofVal c).f_AuthorizationResponse.f_IssuerAccount =
      ((c.field "nats").field "issuer_account").asStr := rfl
  unfold V2.AuthorizationResponseClaims_Validate validateAuthResponse
  simp only [h1, h2, h3, h4, h5, h6, hUser, hServer, hAcct, claimsData_ofVal, v2_addError, Option.pure_def,
    Option.bind_eq_bind, Option.bind_some, ite_some, push_ite, push_push, errIf]
  congr 2
  by_cases he : ((c.field "nats").field "error").asStr = [] <;> by_cases hj : ((c.field "nats").field "jwt").asStr = [] <;>
    by_cases hi : ((c.field "nats").field "issuer_account").asStr = [] <;>
    simp [he, hj, hi, bne, Bool.beq_eq_decide_eq]

/-! ## The operator side -/

/-- `ParseServerVersion`: never panics (the three index reads sit behind the length test) and its error result is the
model's `serverVersionBad` -/
theorem v2_parseServerVersion (opq : V2.Opq) (hAtoi : ∀ x, opq.strconv_Atoi x = atoi x) (v : Str) :
    ∃ r, V2.ParseServerVersion v opq = some r ∧ r.2.2.2 = serverVersionBad v := by
  unfold V2.ParseServerVersion serverVersionBad
  by_cases hv : v = []
  · simp [hv]
  · have hs : GoRt.split v ['.'] = splitOn '.' v := rfl
    simp only [hv, beq_iff_eq, if_false, hs, hAtoi, Option.pure_def, Option.bind_eq_bind, bne_iff_ne, ne_eq]
    rcases hsp : splitOn '.' v with _ | ⟨a, _ | ⟨b, _ | ⟨c, _ | ⟨d, l⟩⟩⟩⟩
    · simp [len]
    · simp [len]
    · simp [len]
    · have i0 : idx [a, b, c] 0 = some a := rfl
      have i1 : idx [a, b, c] 1 = some b := rfl
      have i2 : idx [a, b, c] 2 = some c := rfl
      simp only [len, List.length_cons, List.length_nil, i0, i1, i2, Option.bind_some]
      cases ha : atoi a <;> cases hb : atoi b <;> cases hc : atoi c <;> simp
      rename_i x y z
      by_cases h1 : x < 0 <;> by_cases h2 : y < 0 <;> by_cases h3 : z < 0 <;> simp [h1, h2, h3]
    · have hl : ¬ ((l.length : Int) + 1 + 1 + 1 + 1 = 3) := by omega
      simp [len, hl]

/-- `Operator.validateAccountServerURL` (row O1) -/
theorem v2_validateAccountServerURL (env : VEnv) (opq : V2.Opq)
    (hUrl : ∀ x, opq.url_Parse x = (env.urlParse x).map toGenURL) (n : Jwt.Val) :
    V2.Operator_validateAccountServerURL (V2.T_Operator.ofVal n) opq =
      some ((n.field "account_server_url").asStr ≠ [] &&
        (match env.urlParse (n.field "account_server_url").asStr with | some u => u.scheme = [] | none => true)) := by
  have h1 : (V2.T_Operator.ofVal n).f_AccountServerURL = (n.field "account_server_url").asStr := rfl
  unfold V2.Operator_validateAccountServerURL
  simp only [h1, hUrl]
  by_cases ha : (n.field "account_server_url").asStr = []
  · simp [ha]
  · cases hp : env.urlParse (n.field "account_server_url").asStr with
    | none => simp [ha]
    | some u => by_cases hs : u.scheme = [] <;> simp [ha, toGenURL, hs]

/-- `ValidateOperatorServiceURL` (row O2): credentials, path, scheme (lower-cased) -/
theorem v2_validateOperatorServiceURL (env : VEnv) (opq : V2.Opq)
    (hUrl : ∀ x, opq.url_Parse x = (env.urlParse x).map toGenURL) (v : Str) :
    V2.ValidateOperatorServiceURL v opq = some (v ≠ [] && serviceUrlBad env v) := by
  unfold V2.ValidateOperatorServiceURL serviceUrlBad
  simp only [hUrl]
  by_cases hv : v = []
  · simp [hv]
  · cases hp : env.urlParse v with
    | none => simp [hv]
    | some u =>
      cases hu : u.hasUser <;> by_cases hpa : u.path = [] <;>
        by_cases h1 : goLower u.scheme = ['n', 'a', 't', 's'] <;> by_cases h2 : goLower u.scheme = ['t', 'l', 's'] <;>
        by_cases h3 : goLower u.scheme = ['w', 's'] <;> by_cases h4 : goLower u.scheme = ['w', 's', 's'] <;>
        simp [hv, toGenURL, hu, hpa, h1, h2, h3, h4]

theorem foldl_collect {α : Type} (p : α → Bool) : ∀ (xs : List α) (w : List Bool),
    xs.foldl (fun w v => w ++ if p v = true then [true] else []) w = w ++ (xs.filter p).map fun _ => true := by
  intro xs
  induction xs with
  | nil => intro w; simp
  | cons x xs ih => intro w; cases hx : p x <;> simp [ih, hx, List.filter_cons]

theorem flatMap_collect {α : Type} (p : α → Bool) : ∀ (xs : List α),
    ((xs.filter p).map fun _ => true).flatMap errIf = xs.flatMap (fun v => errIf (p v)) := by
  intro xs
  induction xs with
  | nil => simp
  | cons x xs ih => cases hx : p x <;> simp [List.filter_cons, hx, ih, errIf]

/-- a non-empty operator service URL that `ValidateOperatorServiceURL` refuses -/
def svcBad (env : VEnv) (v : Str) : Bool := v ≠ [] && serviceUrlBad env v

/-- `Operator.validateOperatorServiceURLs`: one (non-nil) error per bad non-empty URL, in order -/
theorem v2_validateOperatorServiceURLs (env : VEnv) (opq : V2.Opq)
    (hUrl : ∀ x, opq.url_Parse x = (env.urlParse x).map toGenURL) (n : Jwt.Val) :
    V2.Operator_validateOperatorServiceURLs (V2.T_Operator.ofVal n) opq =
      some (((n.field "operator_service_urls").strs.filter (svcBad env)).map fun _ => true) := by
  have h1 : (V2.T_Operator.ofVal n).f_OperatorServiceURLs = (n.field "operator_service_urls").strs := rfl
  have hb : ∀ (i : Int) (v : Str) (w : List Bool),
      V2.Operator_validateOperatorServiceURLs.loop1 opq i v w =
        some (.next (w ++ if svcBad env v = true then [true] else [])) := by
    intro i v w
    by_cases hv : v = [] <;> cases hs : serviceUrlBad env v <;>
      simp [V2.Operator_validateOperatorServiceURLs.loop1, v2_validateOperatorServiceURL env opq hUrl, hv, hs, svcBad]
  unfold V2.Operator_validateOperatorServiceURLs
  simp only [h1, forRange, forRangeFrom_fold _ _ hb, foldl_collect, Option.pure_def, Option.bind_eq_bind, Option.bind_some,
    List.nil_append]

/-- `Operator.Validate` (rows O1-O5) -/
theorem v2_operatorBodyValidate (env : VEnv) (opq : V2.Opq)
    (hUrl : ∀ x, opq.url_Parse x = (env.urlParse x).map toGenURL)
    (hAtoi : ∀ x, opq.strconv_Atoi x = atoi x)
    (hAcct : ∀ x, opq.nkeys_IsValidPublicAccountKey x = validAcct x)
    (hOp : ∀ x, opq.nkeys_IsValidPublicOperatorKey x = validOp x)
    (n : Jwt.Val) (vr : V2.T_ValidationResults) :
    V2.Operator_Validate (V2.T_Operator.ofVal n) vr opq = some (push vr
      (errIf ((n.field "account_server_url").asStr ≠ [] &&
          (match env.urlParse (n.field "account_server_url").asStr with | some u => u.scheme = [] | none => true)) ++
       (n.field "operator_service_urls").strs.flatMap (fun v => errIf (svcBad env v)) ++
       (n.field "signing_keys").strs.flatMap (fun k => errIf (!validOp k)) ++
       errIf ((n.field "system_account").asStr ≠ [] && !validAcct (n.field "system_account").asStr) ++
       errIf (serverVersionBad (n.field "assert_server_version").asStr))) := by
  have h1 : (V2.T_Operator.ofVal n).f_SigningKeys = (n.field "signing_keys").strs := rfl
  have h2 : (V2.T_Operator.ofVal n).f_SystemAccount = (n.field "system_account").asStr := rfl
  have h3 : (V2.T_Operator.ofVal n).f_AssertServerVersion = (n.field "assert_server_version").asStr := rfl
  obtain ⟨r, hr, hbad⟩ := v2_parseServerVersion opq hAtoi (n.field "assert_server_version").asStr
  have hb1 : ∀ (i : Int) (v : Bool) (w : V2.T_ValidationResults),
      V2.Operator_Validate.loop1 opq i v w = some (.next (push w (errIf v))) := by
    intro i v w; cases v <;> simp [V2.Operator_Validate.loop1, v2_addError, errIf]
  have hb2 : ∀ (i : Int) (k : Str) (w : V2.T_ValidationResults),
      V2.Operator_Validate.loop2 opq i k w = some (.next (push w (errIf (!validOp k)))) := by
    intro i k w; cases h : validOp k <;> simp [V2.Operator_Validate.loop2, hOp, h, v2_addError, errIf]
  unfold V2.Operator_Validate
  simp only [v2_validateAccountServerURL env opq hUrl, v2_validateOperatorServiceURLs env opq hUrl, h1, h2, h3, hr, hbad,
    hAcct, forRange, forRangeFrom_fold _ _ hb1, forRangeFrom_fold _ _ hb2, foldl_push, flatMap_collect, v2_addError,
    Option.pure_def, Option.bind_eq_bind, Option.bind_some, ite_some, push_ite, push_push]
  congr 2
  by_cases hsys : (n.field "system_account").asStr = [] <;> cases hv : validAcct (n.field "system_account").asStr <;>
    simp [errIf, hsys, hv]

/-- `OperatorClaims.Validate` = the model's `validateOperator` -/
theorem v2_operatorClaimsValidate (env : VEnv) (opq : V2.Opq)
    (hUrl : ∀ x, opq.url_Parse x = (env.urlParse x).map toGenURL)
    (hAtoi : ∀ x, opq.strconv_Atoi x = atoi x)
    (hAcct : ∀ x, opq.nkeys_IsValidPublicAccountKey x = validAcct x)
    (hOp : ∀ x, opq.nkeys_IsValidPublicOperatorKey x = validOp x)
    (c : Jwt.Val) (vr : V2.T_ValidationResults) (now : Int) :
    V2.OperatorClaims_Validate (V2.T_OperatorClaims.ofVal c) vr now opq = some (push vr (validateOperator env now c)) := by
  have h1 : (V2.T_OperatorClaims.ofVal c).f_ClaimsData = V2.T_ClaimsData.ofVal c := rfl
  have h2 : (V2.T_OperatorClaims.ofVal c).f_Operator = V2.T_Operator.ofVal (c.field "nats") := rfl
  unfold V2.OperatorClaims_Validate validateOperator
  simp only [h1, h2, claimsData_ofVal, v2_operatorBodyValidate env opq hUrl hAtoi hAcct hOp, push_push, svcBad,
    Option.pure_def, Option.bind_eq_bind, Option.bind_some, List.append_assoc]
  rfl

/-! ## The assumptions about what stays outside the translation, in one place -/

/-- The functions translated code calls but that are not translated themselves — the standard library's parsers, the
nkeys prefix/CRC validators, the decoder of an embedded activation token — behave as the model's environment `env`,
its signature scheme `cr` and its key validators say. Every end-to-end statement about translated validators is
relative to this record (tied to the real code by the correspondence streams only). -/
structure OpqOk (env : VEnv) (cr : Crypto) (opq : V2.Opq) : Prop where
  url : ∀ x, opq.url_Parse x = (env.urlParse x).map toGenURL
  clock : ∀ x, opq.time_Parse "15:04:05".toList x = !env.clockOk x
  cidr : ∀ x, opq.net_ParseCIDR x = !env.cidrOk x
  tz : ∀ x, opq.time_LoadLocation x = !env.tzOk x
  atoi : ∀ x, opq.strconv_Atoi x = atoi x
  acct : ∀ x, opq.nkeys_IsValidPublicAccountKey x = validAcct x
  user : ∀ x, opq.nkeys_IsValidPublicUserKey x = validUser x
  op : ∀ x, opq.nkeys_IsValidPublicOperatorKey x = validOp x
  server : ∀ x, opq.nkeys_IsValidPublicServerKey x = validServer x
  curve : ∀ x, opq.nkeys_IsValidPublicCurveKey x = validCurve x
  dec : ∀ tok, V2.DecodeActivationClaims tok opq =
      some (match decodeTyped .activation cr tok with
            | .ok c => (some (V2.T_ActivationClaims.ofVal c.val), false)
            | .error _ => (none, true))

/-- the empty result list `CreateValidationResults()` returns -/
def vr0 : V2.T_ValidationResults := { f_Issues := [] }

theorem ofGen_toGen (l : List Issue) : (l.map toGenIssue).map ofGenIssue = l := by
  induction l with
  | nil => rfl
  | cons i l ih => simp [toGenIssue, ofGenIssue, ih]

/-- `IsBlocking` of a translated result that started empty is the model's `isBlocking` of the pushed issues -/
theorem isBlocking_push_vr0 (l : List Issue) (b : Bool) :
    V2.ValidationResults_IsBlocking (push vr0 l) b = some (isBlocking l b) := by
  rw [v2_isBlocking]
  have : (push vr0 l).f_Issues.map ofGenIssue = l := by
    simpa [push, vr0] using ofGen_toGen l
  rw [this]

/-- the account validator, end to end: under `OpqOk`, translated `AccountClaims.Validate` on an empty result list
never panics and its issues are a permutation of the model's -/
theorem gen_account (env : VEnv) (cr : Crypto) (opq : V2.Opq) (ok : OpqOk env cr opq) (c : Jwt.Val) (now : Int) :
    ∃ a' l, V2.AccountClaims_Validate (V2.T_AccountClaims.ofVal c) vr0 now opq = some (a', push vr0 l) ∧
      l.Perm (validateAccount env cr now c) :=
  v2_accountClaimsValidate env cr opq (v2_infoValidate env opq ok.url) ok.atoi ok.acct ok.user ok.curve (v2_toSubject opq ok.atoi) ok.dec
    c vr0 now

/-! ## C01 / C02: the decision logic of `Decode`, as translated

`parseHeaders`, `decodeString`, `loadClaims` and the interface method `verify` stay outside the translation (fields of
`Opq`); what is translated, and proved here, is everything `Decode` itself decides: three chunks, the order of the
steps, *which text* the signature is checked over (by the version `loadClaims` reports, with the exception for generic
claims), and the issuer-role loop over `ExpectedPrefixes()`. -/

theorem encode_append (a b : Str) : Utf8.encode (a ++ b) = Utf8.encode a ++ Utf8.encode b := by
  simp [Utf8.encode]

/-- `s[:len(a)]` of `s = a ++ b` is `a` (byte offsets fall on a character boundary) -/
theorem strSliceTo_prefix (a b : Str) : strSliceTo (a ++ b) (strLen a) = some a := by
  have hl : (Utf8.encode a).length = utf8Len a := (utf8Len_eq a).symm
  have hsl : slice (Utf8.encode (a ++ b)) 0 (strLen a) = some (Utf8.encode a) := by
    unfold slice strLen
    have h1 : (0 : Int) ≤ 0 ∧ (0 : Int) ≤ (utf8Len a : Int) ∧ (utf8Len a : Int) ≤ len (Utf8.encode (a ++ b)) := by
      refine ⟨by omega, by omega, ?_⟩
      simp only [len, encode_append, List.length_append, hl]; omega
    rw [if_pos h1]
    simp only [Int.toNat_natCast, Int.toNat_zero, List.drop_zero, encode_append, ← hl, List.take_left']
  unfold strSliceTo strSlice
  rw [hsl]
  exact Utf8.decode_encode a

theorem token_of_chunks (tok hd p s : Str) (h : splitOn '.' tok = [hd, p, s]) : tok = (hd ++ '.' :: p) ++ '.' :: s := by
  have := join_splitOn '.' tok
  rw [h] at this
  simp [join] at this
  simp [← this]

/-- one arm of the `switch p` in `Decode`'s prefix loop: the nkeys prefix byte and the validator it selects -/
def prefixOk (opq : V2.Opq) (issuer : Str) (p : Int) : Bool :=
  (p == 0 && opq.nkeys_IsValidPublicAccountKey issuer) || (p == 112 && opq.nkeys_IsValidPublicOperatorKey issuer) ||
  (p == 160 && opq.nkeys_IsValidPublicUserKey issuer) || (p == 104 && opq.nkeys_IsValidPublicServerKey issuer)

theorem decode_loop (issuer : Str) (opq : V2.Opq) (ps : List Int) (i : Int) (ok : Bool) :
    forRangeFrom (V2.Decode.loop1 issuer opq) i ps ok = some (.done (ok || ps.any (prefixOk opq issuer))) := by
  have hb : ∀ (i : Int) (p : Int) (ok : Bool),
      V2.Decode.loop1 issuer opq i p ok = some (.next (ok || prefixOk opq issuer p)) := by
    intro i p ok
    unfold V2.Decode.loop1 prefixOk
    by_cases h0 : p = 0
    · subst h0; cases opq.nkeys_IsValidPublicAccountKey issuer <;> simp
    · by_cases h1 : p = 112
      · subst h1; cases opq.nkeys_IsValidPublicOperatorKey issuer <;> simp
      · by_cases h2 : p = 160
        · subst h2; cases opq.nkeys_IsValidPublicUserKey issuer <;> simp
        · by_cases h3 : p = 104
          · subst h3; cases opq.nkeys_IsValidPublicServerKey issuer <;> simp
          · simp [h0, h1, h2, h3]
  rw [forRangeFrom_fold _ _ hb]
  congr 2
  induction ps generalizing ok with
  | nil => simp
  | cons p ps ih => simp [ih, Bool.or_assoc]

/-- the version `Decode` judges the signed text by: what `loadClaims` reported, except that generic claims under any
header algorithm other than the legacy one count as version 2 -/
def verUsed (c : V2.I_Claims) (hdr : Option V2.T_Header) (ver : Int) : Int :=
  match c, hdr with
  | .GenericClaims _, some h => if h.f_Algorithm != "ed25519".toList then 2 else ver
  | _, _ => ver

/-- **C05, the header gate, on the translated code.** `parseHeaders` returns a header only if the segment decoded, the
JSON reader filled a `Header` from it without error, and that header passes the model's `headerValid` (type `JWT`
case-insensitively, algorithm exactly one of the two NATS Ed25519 names up to case — `v2_headerValid`) -/
theorem gen_parseHeaders_accepts (opq : V2.Opq) (seg : Str) (h : V2.T_Header) (e : Bool)
    (hp : V2.parseHeaders seg opq = some (some h, e)) :
    e = false ∧ ∃ bytes, opq.decodeString seg = some (bytes, false) ∧
      opq.json_UnmarshalHeader bytes { f_Type := [], f_Algorithm := [] } = (h, false) ∧
      headerValid { typ := h.f_Type, alg := h.f_Algorithm } = true := by
  unfold V2.parseHeaders at hp
  rcases hd : opq.decodeString seg with _ | ⟨bytes, e1⟩
  · simp [hd] at hp
  cases e1
  case true => simp [hd] at hp
  simp only [hd, Option.pure_def, Option.bind_eq_bind, Option.bind_some, Bool.false_eq_true, if_false] at hp
  rcases hu : opq.json_UnmarshalHeader bytes { f_Type := [], f_Algorithm := [] } with ⟨h', e2⟩
  cases e2
  case true => simp [hu] at hp
  have hv := v2_headerValid h'.f_Type h'.f_Algorithm
  simp only [hu, Bool.false_eq_true, if_false] at hp
  cases hval : headerValid { typ := h'.f_Type, alg := h'.f_Algorithm }
  · have : V2.Header_Valid h' = some true := by
      have := hv; simp only [hval, Bool.not_false] at this; exact this
    simp [this] at hp
  · have : V2.Header_Valid h' = some false := by
      have := hv; simp only [hval, Bool.not_true] at this; exact this
    simp only [this, Option.bind_some, Bool.false_eq_true, if_false, Option.some.injEq, Prod.mk.injEq] at hp
    obtain ⟨h1, h2⟩ := hp
    subst h1
    exact ⟨h2.symm, bytes, rfl, hu, hval⟩

/-- `ClaimsData.verify` as translated never panics, and answers `true` exactly when the issuer string yields a key
pair (`nkeys.FromPublicKey`), decodes under its own prefix to a 32-byte key (repair D11), and that key pair's `Verify`
returns no error on the bytes of the payload text and the signature -/
theorem v2_verify (opq : V2.Opq) (cd : V2.T_ClaimsData) (text : Str) (sig : List Int) :
    V2.ClaimsData_verify cd text sig opq = some
      (match opq.nkeys_FromPublicKey cd.f_Issuer, opq.nkeys_Decode (opq.nkeys_Prefix cd.f_Issuer) (strBytes cd.f_Issuer) with
       | some kp, some raw => decide (len raw = 32) && !opq.KeyPair_Verify kp (strBytes text) sig
       | _, _ => false) := by
  unfold V2.ClaimsData_verify
  cases h1 : opq.nkeys_FromPublicKey cd.f_Issuer <;>
    cases h2 : opq.nkeys_Decode (opq.nkeys_Prefix cd.f_Issuer) (strBytes cd.f_Issuer) <;> simp
  rename_i kp raw
  by_cases h3 : len raw = 32 <;> cases h4 : opq.KeyPair_Verify kp (strBytes text) sig <;> simp [h3, h4]

/-- `claim.verify(...)` on the interface: every kind inherits `ClaimsData.verify` and is checked under its own issuer -/
theorem v2_verify_dispatch (opq : V2.Opq) (c : V2.I_Claims) (text : Str) (sig : List Int) :
    V2.I_Claims.verify c text sig opq = some
      (match opq.nkeys_FromPublicKey (viewOf c).issuer,
             opq.nkeys_Decode (opq.nkeys_Prefix (viewOf c).issuer) (strBytes (viewOf c).issuer) with
       | some kp, some raw => decide (len raw = 32) && !opq.KeyPair_Verify kp (strBytes text) sig
       | _, _ => false) := by
  cases c <;> simp only [V2.I_Claims.verify, v2_verify, viewOf]

/-- **`Decode` accepts only authentic tokens (translated code).** If the translated `Decode` returns claims `c`
without an error, then the token had exactly three chunks `hd.p.s`; header, payload and signature decoded without
error; `c` is what the (translated) `loadClaims` returned for the payload; the claim's own `verify` accepted the signature over `p`
(reported version ≤ 1) or over `hd.p` (otherwise) — never over anything else; and if the claim type expects issuer
roles, the issuer read through `Claims()` passes the validator of one of them. -/
theorem gen_decode_accepts (opq : V2.Opq) (tok : Str) (c : V2.I_Claims)
    (h : V2.Decode tok opq = some (some c, false)) :
    ∃ hd p s hdr data sig ver,
      splitOn '.' tok = [hd, p, s] ∧
      V2.parseHeaders hd opq = some (hdr, false) ∧
      opq.decodeString p = some (data, false) ∧
      V2.loadClaims data opq = some (ver, some c, false) ∧
      opq.decodeString s = some (sig, false) ∧
      V2.I_Claims.verify c (if verUsed c hdr ver ≤ 1 then p else hd ++ '.' :: p) sig opq = some true ∧
      (match V2.I_Claims.ExpectedPrefixes c with
       | some (some ps) => ps.any (prefixOk opq (viewOf c).issuer) = true
       | _ => True) := by
  unfold V2.Decode at h
  have hs : GoRt.split tok ['.'] = splitOn '.' tok := rfl
  simp only [hs] at h
  rcases hsp : splitOn '.' tok with _ | ⟨hd, _ | ⟨p, _ | ⟨s, _ | ⟨d, l⟩⟩⟩⟩
  · simp [hsp, len] at h
  · simp [hsp, len] at h
  · simp [hsp, len] at h
  · have i0 : idx [hd, p, s] 0 = some hd := rfl
    have i1 : idx [hd, p, s] 1 = some p := rfl
    have i2 : idx [hd, p, s] 2 = some s := rfl
    simp only [hsp, len, List.length_cons, List.length_nil, i0, i1, i2, Option.pure_def, Option.bind_eq_bind,
      Option.bind_some] at h
    rcases hph : V2.parseHeaders hd opq with _ | ⟨hdr, e1⟩
    · simp [hph] at h
    cases e1
    case true => simp [hph] at h
    rcases hdp : opq.decodeString p with _ | ⟨data, e2⟩
    · simp [hph, hdp] at h
    cases e2
    case true => simp [hph, hdp] at h
    rcases hlc : V2.loadClaims data opq with _ | ⟨ver, cl, e3⟩
    · simp [hph, hdp, hlc] at h
    cases e3
    case true => simp [hph, hdp, hlc] at h
    rcases hds : opq.decodeString s with _ | ⟨sig, e4⟩
    · simp [hph, hdp, hlc, hds] at h
    cases e4
    case true => simp [hph, hdp, hlc, hds] at h
    have h3 : ((((0 : Nat) + 1 + 1 + 1 : Nat) : Int) != 3) = false := by decide
    simp only [h3, hph, hdp, hlc, hds, Option.bind_some, Bool.false_eq_true, if_false] at h
    cases cl with
    | none => simp at h
    | some c' =>
      have hslice : strSliceTo tok (strLen hd + strLen p + 1) = some (hd ++ '.' :: p) := by
        have ht := token_of_chunks tok hd p s hsp
        have hlen : strLen hd + strLen p + 1 = strLen (hd ++ '.' :: p) := by
          simp [strLen, utf8Len, utf8Width]; omega
        rw [hlen]
        conv => lhs; rw [ht]
        exact strSliceTo_prefix _ _
      simp only [Option.bind_some, hslice] at h
      obtain ⟨bp, hbp⟩ : ∃ b, V2.I_Claims.verify c' p sig opq = some b := ⟨_, v2_verify_dispatch opq c' p sig⟩
      obtain ⟨bq, hbq⟩ : ∃ b, V2.I_Claims.verify c' (hd ++ '.' :: p) sig opq = some b :=
        ⟨_, v2_verify_dispatch opq c' (hd ++ '.' :: p) sig⟩
      simp only [hbp, hbq, Option.bind_some] at h
      cases c' with
      | GenericClaims v =>
        cases hdr with
        | none => simp at h
        | some hh =>
          simp only [Option.isSome_some, if_true, Option.bind_some, V2.I_Claims.ExpectedPrefixes,
            V2.GenericClaims_ExpectedPrefixes, Option.pure_def, Option.bind_eq_bind, Option.isSome_none,
            Bool.false_eq_true, if_false, ite_some] at h
          by_cases ha : (hh.f_Algorithm != ['e', 'd', '2', '5', '5', '1', '9']) = true
          · have h2 : ¬ ((2 : Int) ≤ 1) := by omega
            simp only [ha, if_true, h2, decide_false, Bool.false_eq_true, if_false] at h
            split at h
            · simp at h
            · rename_i hV
              simp only [Option.some.injEq, Prod.mk.injEq, and_true] at h
              subst h
              refine ⟨hd, p, s, some hh, data, sig, ver, rfl, hph, hdp, hlc, hds, ?_, ?_⟩
              · have e : ("ed25519".toList : Str) = ['e', 'd', '2', '5', '5', '1', '9'] := by decide
                simpa [verUsed, e, ha, h2, hbp, hbq] using hV
              · simp [V2.I_Claims.ExpectedPrefixes, V2.GenericClaims_ExpectedPrefixes]
          · have ha' : (hh.f_Algorithm != ['e', 'd', '2', '5', '5', '1', '9']) = false := by simpa using ha
            simp only [ha', Bool.false_eq_true, if_false] at h
            by_cases hv : ver ≤ 1
            all_goals
              simp only [hv, decide_true, decide_false, if_true, Bool.false_eq_true, if_false] at h
              split at h
              · simp at h
              · rename_i hV
                simp only [Option.some.injEq, Prod.mk.injEq, and_true] at h
                subst h
                refine ⟨hd, p, s, some hh, data, sig, ver, rfl, hph, hdp, hlc, hds, ?_, ?_⟩
                · have e : ("ed25519".toList : Str) = ['e', 'd', '2', '5', '5', '1', '9'] := by decide
                  simpa [verUsed, e, ha', hv, hbp, hbq] using hV
                · simp [V2.I_Claims.ExpectedPrefixes, V2.GenericClaims_ExpectedPrefixes]
      | _ =>
        simp only [Option.isSome_none, Bool.false_eq_true, if_false, Option.bind_some, V2.I_Claims.ExpectedPrefixes,
          V2.AccountClaims_ExpectedPrefixes, V2.OperatorClaims_ExpectedPrefixes, V2.UserClaims_ExpectedPrefixes,
          V2.ActivationClaims_ExpectedPrefixes, V2.AuthorizationRequestClaims_ExpectedPrefixes,
          V2.AuthorizationResponseClaims_ExpectedPrefixes, V2.I_Claims.Claims, V2.AccountClaims_Claims,
          V2.OperatorClaims_Claims, V2.UserClaims_Claims, V2.ActivationClaims_Claims,
          V2.AuthorizationRequestClaims_Claims, V2.AuthorizationResponseClaims_Claims, forRange, decode_loop,
          Option.pure_def, Option.bind_eq_bind, Option.isSome_some, if_true, Bool.false_or] at h
        by_cases hv : ver ≤ 1
        all_goals
          simp only [hv, decide_true, decide_false, if_true, Bool.false_eq_true, if_false] at h
          split at h
          · simp at h
          · split at h
            · simp at h
            · rename_i hV hA
              simp only [Option.some.injEq, Prod.mk.injEq, and_true] at h
              subst h
              refine ⟨hd, p, s, hdr, data, sig, ver, rfl, hph, hdp, hlc, hds, ?_, ?_⟩
              · simpa [verUsed, hv, hbp, hbq] using hV
              · simp only [Bool.not_eq_true', Bool.not_eq_false] at hA
                simp only [V2.I_Claims.ExpectedPrefixes, V2.AccountClaims_ExpectedPrefixes, V2.OperatorClaims_ExpectedPrefixes,
                  V2.UserClaims_ExpectedPrefixes, V2.ActivationClaims_ExpectedPrefixes,
                  V2.AuthorizationRequestClaims_ExpectedPrefixes, V2.AuthorizationResponseClaims_ExpectedPrefixes,
                  viewOf, Option.pure_def]
                exact hA
  · have hl : ¬ ((l.length : Int) + 1 + 1 + 1 + 1 = 3) := by omega
    simp [hsp, len, hl] at h

/-- **C01 on the translated code, down to the key.** Claims returned by the translated `Decode` were verified under a key
pair obtained from *their own issuer string* (`nkeys.FromPublicKey`), which decodes under its prefix to a 32-byte key,
and that key pair's `Verify` returned no error for the signature over the bytes of `p` (reported version ≤ 1) or of
`hd.p` (otherwise). Only the three nkeys functions and `KeyPair.Verify` (Ed25519) stay outside. -/
theorem gen_decode_authentic (opq : V2.Opq) (tok : Str) (c : V2.I_Claims)
    (h : V2.Decode tok opq = some (some c, false)) :
    ∃ hd p s hdr data sig ver kp raw,
      splitOn '.' tok = [hd, p, s] ∧
      V2.parseHeaders hd opq = some (hdr, false) ∧
      opq.decodeString p = some (data, false) ∧
      V2.loadClaims data opq = some (ver, some c, false) ∧
      opq.decodeString s = some (sig, false) ∧
      opq.nkeys_FromPublicKey (viewOf c).issuer = some kp ∧
      opq.nkeys_Decode (opq.nkeys_Prefix (viewOf c).issuer) (strBytes (viewOf c).issuer) = some raw ∧ len raw = 32 ∧
      opq.KeyPair_Verify kp (strBytes (if verUsed c hdr ver ≤ 1 then p else hd ++ '.' :: p)) sig = false := by
  obtain ⟨hd, p, s, hdr, data, sig, ver, h1, h2, h3, h4, h5, h6, _⟩ := gen_decode_accepts opq tok c h
  rw [v2_verify_dispatch] at h6
  cases hk : opq.nkeys_FromPublicKey (viewOf c).issuer with
  | none => simp [hk] at h6
  | some kp =>
    cases hr : opq.nkeys_Decode (opq.nkeys_Prefix (viewOf c).issuer) (strBytes (viewOf c).issuer) with
    | none => simp [hk, hr] at h6
    | some raw =>
      simp only [hk, hr, Option.some.injEq, Bool.and_eq_true, decide_eq_true_eq, Bool.not_eq_true'] at h6
      exact ⟨hd, p, s, hdr, data, sig, ver, kp, raw, h1, h2, h3, h4, h5, rfl, rfl, h6.1, h6.2⟩

/-- non-vacuity: an environment in which the translated `Decode` accepts a token (so the hypothesis of
`gen_decode_accepts` is satisfiable, and the conclusion's verification text is the `hd.p` one) -/
def demoOpq : V2.Opq :=
  { json_UnmarshalHeader := fun _ _ => ({ f_Type := "JWT".toList, f_Algorithm := "ed25519-nkey".toList }, false),
    decodeString := fun _ => some ([], false),
    json_Unmarshalv1OperatorClaims := fun _ x => (x, true), json_UnmarshalOperatorClaims := fun _ x => (x, true),
    json_Unmarshalv1AccountClaims := fun _ x => (x, true), json_UnmarshalAccountClaims := fun _ x => (x, false),
    json_Unmarshalv1UserClaims := fun _ x => (x, true), json_UnmarshalUserClaims := fun _ x => (x, true),
    json_Unmarshalv1ActivationClaims := fun _ x => (x, true), json_UnmarshalActivationClaims := fun _ x => (x, true),
    json_UnmarshalAuthorizationRequestClaims := fun _ x => (x, true),
    json_UnmarshalAuthorizationResponseClaims := fun _ x => (x, true),
    json_Unmarshalidentifier := fun _ id => ({ id with f_GenericFields := { id.f_GenericFields with f_Type := "account".toList, f_Version := 2 } }, false),
    json_UnmarshalGenericClaims := fun _ g => (g, true),
    strconv_Atoi := fun _ => none, nkeys_IsValidPublicAccountKey := fun _ => true, url_Parse := fun _ => none,
    nkeys_IsValidPublicUserKey := fun _ => false, nkeys_IsValidPublicCurveKey := fun _ => false,
    nkeys_IsValidPublicServerKey := fun _ => false, time_Parse := fun _ _ => false, net_ParseCIDR := fun _ => false,
    time_LoadLocation := fun _ => false, nkeys_IsValidPublicOperatorKey := fun _ => false,
    UserClaims_HasEmptyPermissions := fun _ => some true, time_NowAddUnix := fun d => d, sha256_Sum := fun x => x, base32_StdEncode := fun _ => [], json_MarshalClaimsData := fun _ => ([], false), ParseDecoratedNKey := fun _ => none, KeyPair_Seed := fun _ => none, nkeys_FromSeed := fun _ => none, sha512_Sum512_256 := fun x => x, base32_StdNoPadEncode := fun _ => [],
    json_Unmarshalanon_GenericClaims_GenericFields := fun _ g => (g, true),
    nkeys_FromPublicKey := fun _ => some 7, nkeys_Prefix := fun _ => 0,
    nkeys_Decode := fun _ _ => some (List.replicate 32 0),
    KeyPair_Verify := fun _ text _ => !(text == strBytes "a.b".toList),
    ClaimsData_encode := fun _ _ _ => none, sort_SortExports := fun x => x, sort_SortImports := fun x => x }

example : (match V2.Decode "a.b.c".toList demoOpq with
    | some (some (.AccountClaims _), false) => true | _ => false) = true := by decide

/-! ## C02 / C12: the per-kind part of `Encode` (subject-role test, sorting, kind stamp), as translated

`ClaimsData.encode` (→ `doEncode`) is a parameter; `sort.Sort` on `Exports` / `Imports` is a parameter assumed to be the
model's stable sort by subject. -/

/-- `UserClaims.Encode`: refuses (empty token, error, `encode` never consulted) unless the subject is a user key;
otherwise stamps the kind and hands the claims to `encode` -/
theorem v2_userEncode (opq : V2.Opq) (u : V2.T_UserClaims) (kp : Nat) :
    V2.UserClaims_Encode u kp opq =
      if opq.nkeys_IsValidPublicUserKey u.f_ClaimsData.f_Subject then
        let u' : V2.T_UserClaims := { u with f_User := { u.f_User with f_GenericFields := { u.f_User.f_GenericFields with f_Type := "user".toList } } }
        (opq.ClaimsData_encode u'.f_ClaimsData kp (some (.UserClaims u'))).map fun r => (u', r.1, r.2)
      else some (u, [], true) := by
  unfold V2.UserClaims_Encode
  cases h : opq.nkeys_IsValidPublicUserKey u.f_ClaimsData.f_Subject <;> simp [h]
  cases opq.ClaimsData_encode u.f_ClaimsData kp _ <;> rfl

/-- `ActivationClaims.Encode` -/
theorem v2_activationEncode (opq : V2.Opq) (a : V2.T_ActivationClaims) (kp : Nat) :
    V2.ActivationClaims_Encode a kp opq =
      if opq.nkeys_IsValidPublicAccountKey a.f_ClaimsData.f_Subject then
        let a' : V2.T_ActivationClaims := { a with f_Activation := { a.f_Activation with f_GenericFields := { a.f_Activation.f_GenericFields with f_Type := "activation".toList } } }
        (opq.ClaimsData_encode a'.f_ClaimsData kp (some (.ActivationClaims a'))).map fun r => (a', r.1, r.2)
      else some (a, [], true) := by
  unfold V2.ActivationClaims_Encode
  cases h : opq.nkeys_IsValidPublicAccountKey a.f_ClaimsData.f_Subject <;> simp [h]
  cases opq.ClaimsData_encode a.f_ClaimsData kp _ <;> rfl

/-- `AccountClaims.Encode`: subject test, then both sorts, then the kind stamp, then `encode` -/
theorem v2_accountEncode (opq : V2.Opq) (a : V2.T_AccountClaims) (kp : Nat) :
    V2.AccountClaims_Encode a kp opq =
      if opq.nkeys_IsValidPublicAccountKey a.f_ClaimsData.f_Subject then
        let a' : V2.T_AccountClaims := { a with f_Account := { a.f_Account with
          f_Exports := opq.sort_SortExports a.f_Account.f_Exports,
          f_Imports := opq.sort_SortImports a.f_Account.f_Imports,
          f_GenericFields := { a.f_Account.f_GenericFields with f_Type := "account".toList } } }
        (opq.ClaimsData_encode a'.f_ClaimsData kp (some (.AccountClaims a'))).map fun r => (a', r.1, r.2)
      else some (a, [], true) := by
  unfold V2.AccountClaims_Encode
  cases h : opq.nkeys_IsValidPublicAccountKey a.f_ClaimsData.f_Subject <;> simp [h]
  cases opq.ClaimsData_encode a.f_ClaimsData kp _ <;> rfl

/-- `OperatorClaims.Encode`: subject test, account-server URL test (`b` is what the translated
`validateAccountServerURL` returns: `v2_validateAccountServerURL`), kind stamp, `encode` -/
theorem v2_operatorEncode (opq : V2.Opq) (oc : V2.T_OperatorClaims) (kp : Nat) (b : Bool)
    (hb : V2.Operator_validateAccountServerURL oc.f_Operator opq = some b) :
    V2.OperatorClaims_Encode oc kp opq =
      if !opq.nkeys_IsValidPublicOperatorKey oc.f_ClaimsData.f_Subject then some (oc, [], true)
      else if b then some (oc, [], true)
      else
        let oc' : V2.T_OperatorClaims := { oc with f_Operator := { oc.f_Operator with f_GenericFields := { oc.f_Operator.f_GenericFields with f_Type := "operator".toList } } }
        (opq.ClaimsData_encode oc'.f_ClaimsData kp (some (.OperatorClaims oc'))).map fun r => (oc', r.1, r.2) := by
  unfold V2.OperatorClaims_Encode
  simp only [hb]
  cases h : opq.nkeys_IsValidPublicOperatorKey oc.f_ClaimsData.f_Subject <;> cases b <;> simp [h]
  cases opq.ClaimsData_encode oc.f_ClaimsData kp _ <;> rfl

/-- the claims kinds without a subject rule hand the claims to `encode` as they are (generic) or after the stamp -/
theorem v2_genericEncode (opq : V2.Opq) (g : V2.T_GenericClaims) (kp : Nat) :
    V2.GenericClaims_Encode g kp opq = opq.ClaimsData_encode g.f_ClaimsData kp (some (.GenericClaims g)) := by
  unfold V2.GenericClaims_Encode
  cases opq.ClaimsData_encode g.f_ClaimsData kp _ <;> rfl

theorem v2_authRequestEncode (opq : V2.Opq) (a : V2.T_AuthorizationRequestClaims) (kp : Nat) :
    V2.AuthorizationRequestClaims_Encode a kp opq =
      let a' : V2.T_AuthorizationRequestClaims := { a with f_AuthorizationRequest := { a.f_AuthorizationRequest with
        f_GenericFields := { a.f_AuthorizationRequest.f_GenericFields with f_Type := "authorization_request".toList } } }
      (opq.ClaimsData_encode a'.f_ClaimsData kp (some (.AuthorizationRequestClaims a'))).map fun r => (a', r.1, r.2) := by
  unfold V2.AuthorizationRequestClaims_Encode
  simp
  cases opq.ClaimsData_encode a.f_ClaimsData kp _ <;> rfl

theorem v2_authResponseEncode (opq : V2.Opq) (a : V2.T_AuthorizationResponseClaims) (kp : Nat) :
    V2.AuthorizationResponseClaims_Encode a kp opq =
      let a' : V2.T_AuthorizationResponseClaims := { a with f_AuthorizationResponse := { a.f_AuthorizationResponse with
        f_GenericFields := { a.f_AuthorizationResponse.f_GenericFields with f_Type := "authorization_response".toList } } }
      (opq.ClaimsData_encode a'.f_ClaimsData kp (some (.AuthorizationResponseClaims a'))).map fun r => (a', r.1, r.2) := by
  unfold V2.AuthorizationResponseClaims_Encode
  simp
  cases opq.ClaimsData_encode a.f_ClaimsData kp _ <;> rfl

/-- **C02, encode side, on the translated code.** Whatever `encode` does, each `XClaims.Encode` returns an error and
an empty token — without consulting `encode` — when the subject is not a key of the role its kind demands. -/
theorem gen_encode_refuses_unfit_subject (opq : V2.Opq) (kp : Nat) :
    (∀ u : V2.T_UserClaims, opq.nkeys_IsValidPublicUserKey u.f_ClaimsData.f_Subject = false →
        V2.UserClaims_Encode u kp opq = some (u, [], true)) ∧
    (∀ a : V2.T_AccountClaims, opq.nkeys_IsValidPublicAccountKey a.f_ClaimsData.f_Subject = false →
        V2.AccountClaims_Encode a kp opq = some (a, [], true)) ∧
    (∀ a : V2.T_ActivationClaims, opq.nkeys_IsValidPublicAccountKey a.f_ClaimsData.f_Subject = false →
        V2.ActivationClaims_Encode a kp opq = some (a, [], true)) ∧
    (∀ o : V2.T_OperatorClaims, opq.nkeys_IsValidPublicOperatorKey o.f_ClaimsData.f_Subject = false →
        V2.OperatorClaims_Encode o kp opq = some (o, [], true)) := by
  refine ⟨?_, ?_, ?_, ?_⟩
  · intro u h; rw [v2_userEncode]; simp [h]
  · intro a h; rw [v2_accountEncode]; simp [h]
  · intro a h; rw [v2_activationEncode]; simp [h]
  · intro o h; unfold V2.OperatorClaims_Encode; simp [h]

/-! ## C05 / C02: the version gate and the kind dispatch of `loadClaims`, as translated

`json.Unmarshal` into an `identifier` / `GenericClaims` and the six typed loaders are parameters; what is translated and
proved is the gate itself: an identifier that failed to parse or declares a version above the library's is refused,
the loader is chosen by the declared kind and is handed the declared version, `cluster` and `server` are refused, and
anything else is read as generic claims and reported with version −1. -/

def identKind (i : V2.T_identifier) : Str := if i.f_Type ≠ [] then i.f_Type else i.f_GenericFields.f_Type
def identVersion (i : V2.T_identifier) : Int := if i.f_Type ≠ [] then 1 else i.f_GenericFields.f_Version

theorem identifier_closed (i : V2.T_identifier) :
    V2.identifier_Kind i = some (identKind i) ∧ V2.identifier_Version i = some (identVersion i) := by
  unfold V2.identifier_Kind V2.identifier_Version identKind identVersion
  by_cases h : i.f_Type = [] <;> simp [h]

theorem load_case {α : Type} (f : Option (Option α × Bool)) (ctor : α → V2.I_Claims) (v ver : Int) (c : V2.I_Claims)
    (h : (f.bind fun o => some (v, Option.map ctor o.1, o.2)) = some (ver, some c, false)) :
    ver = v ∧ ∃ x, f = some (some x, false) ∧ c = ctor x := by
  rcases f with _ | ⟨x, e⟩
  · simp at h
  · cases x with
    | none => simp at h
    | some x =>
      simp only [Option.bind_some, Option.map_some, Option.some.injEq, Prod.mk.injEq] at h
      obtain ⟨h1, h2, h3⟩ := h
      exact ⟨h1.symm, x, by rw [h3], h2.symm⟩

/-- what `loadClaims` accepted, it accepted through the gate -/
theorem gen_loadClaims_accepts (opq : V2.Opq) (data : List Int) (ver : Int) (c : V2.I_Claims)
    (h : V2.loadClaims data opq = some (ver, some c, false)) :
    let r := opq.json_Unmarshalidentifier data default
    let k := identKind r.1
    let v := identVersion r.1
    r.2 = false ∧ v ≤ 2 ∧
    ((k = "operator".toList ∧ ver = v ∧ ∃ x, V2.loadOperator data v opq = some (some x, false) ∧ c = .OperatorClaims x) ∨
     (k = "account".toList ∧ ver = v ∧ ∃ x, V2.loadAccount data v opq = some (some x, false) ∧ c = .AccountClaims x) ∨
     (k = "user".toList ∧ ver = v ∧ ∃ x, V2.loadUser data v opq = some (some x, false) ∧ c = .UserClaims x) ∨
     (k = "activation".toList ∧ ver = v ∧ ∃ x, V2.loadActivation data v opq = some (some x, false) ∧ c = .ActivationClaims x) ∨
     (k = "authorization_request".toList ∧ ver = v ∧
        ∃ x, V2.loadAuthorizationRequest data v opq = some (some x, false) ∧ c = .AuthorizationRequestClaims x) ∨
     (k = "authorization_response".toList ∧ ver = v ∧
        ∃ x, V2.loadAuthorizationResponse data v opq = some (some x, false) ∧ c = .AuthorizationResponseClaims x) ∨
     (k ∉ ["operator".toList, "account".toList, "user".toList, "activation".toList, "authorization_request".toList,
           "authorization_response".toList, "cluster".toList, "server".toList] ∧ ver = -1 ∧
        ∃ g, opq.json_UnmarshalGenericClaims data default = (g, false) ∧ c = .GenericClaims g)) := by
  intro r k v
  unfold V2.loadClaims at h
  simp only [(identifier_closed _).1, (identifier_closed _).2, Option.pure_def, Option.bind_eq_bind, Option.bind_some] at h
  have hr : opq.json_Unmarshalidentifier data default = r := rfl
  rw [hr] at h
  cases he : r.2
  case true => simp [he] at h
  simp only [he, Bool.false_eq_true, if_false] at h
  by_cases hv : identVersion r.1 > 2
  · simp [hv] at h
  have hv' : v ≤ 2 := by show identVersion r.1 ≤ 2; omega
  simp only [hv, decide_false, Bool.false_eq_true, if_false] at h
  refine ⟨rfl, hv', ?_⟩
  have e1 : ("operator".toList : Str) = ['o', 'p', 'e', 'r', 'a', 't', 'o', 'r'] := by decide
  have e2 : ("account".toList : Str) = ['a', 'c', 'c', 'o', 'u', 'n', 't'] := by decide
  have e3 : ("user".toList : Str) = ['u', 's', 'e', 'r'] := by decide
  have e4 : ("activation".toList : Str) = ['a', 'c', 't', 'i', 'v', 'a', 't', 'i', 'o', 'n'] := by decide
  have e5 : ("authorization_request".toList : Str) =
      ['a', 'u', 't', 'h', 'o', 'r', 'i', 'z', 'a', 't', 'i', 'o', 'n', '_', 'r', 'e', 'q', 'u', 'e', 's', 't'] := by decide
  have e6 : ("authorization_response".toList : Str) =
      ['a', 'u', 't', 'h', 'o', 'r', 'i', 'z', 'a', 't', 'i', 'o', 'n', '_', 'r', 'e', 's', 'p', 'o', 'n', 's', 'e'] := by decide
  have e7 : ("cluster".toList : Str) = ['c', 'l', 'u', 's', 't', 'e', 'r'] := by decide
  have e8 : ("server".toList : Str) = ['s', 'e', 'r', 'v', 'e', 'r'] := by decide
  simp only [e1, e2, e3, e4, e5, e6, e7, e8]
  show (identKind r.1 = _ ∧ _) ∨ _
  by_cases h1 : identKind r.1 = ['o', 'p', 'e', 'r', 'a', 't', 'o', 'r']
  · simp only [h1, beq_self_eq_true, if_true] at h
    exact Or.inl ⟨h1, load_case _ _ _ _ _ h⟩
  have h1' : (identKind r.1 == ['o', 'p', 'e', 'r', 'a', 't', 'o', 'r']) = false := by simpa using h1
  simp only [h1', Bool.false_eq_true, if_false] at h
  by_cases h2 : identKind r.1 = ['a', 'c', 'c', 'o', 'u', 'n', 't']
  · simp only [h2, beq_self_eq_true, if_true] at h
    exact Or.inr (Or.inl ⟨h2, load_case _ _ _ _ _ h⟩)
  have h2' : (identKind r.1 == ['a', 'c', 'c', 'o', 'u', 'n', 't']) = false := by simpa using h2
  simp only [h2', Bool.false_eq_true, if_false] at h
  by_cases h3 : identKind r.1 = ['u', 's', 'e', 'r']
  · simp only [h3, beq_self_eq_true, if_true] at h
    exact Or.inr (Or.inr (Or.inl ⟨h3, load_case _ _ _ _ _ h⟩))
  have h3' : (identKind r.1 == ['u', 's', 'e', 'r']) = false := by simpa using h3
  simp only [h3', Bool.false_eq_true, if_false] at h
  by_cases h4 : identKind r.1 = ['a', 'c', 't', 'i', 'v', 'a', 't', 'i', 'o', 'n']
  · simp only [h4, beq_self_eq_true, if_true] at h
    exact Or.inr (Or.inr (Or.inr (Or.inl ⟨h4, load_case _ _ _ _ _ h⟩)))
  have h4' : (identKind r.1 == ['a', 'c', 't', 'i', 'v', 'a', 't', 'i', 'o', 'n']) = false := by simpa using h4
  simp only [h4', Bool.false_eq_true, if_false] at h
  by_cases h5 : identKind r.1 =
      ['a', 'u', 't', 'h', 'o', 'r', 'i', 'z', 'a', 't', 'i', 'o', 'n', '_', 'r', 'e', 'q', 'u', 'e', 's', 't']
  · simp only [h5, beq_self_eq_true, if_true] at h
    exact Or.inr (Or.inr (Or.inr (Or.inr (Or.inl ⟨h5, load_case _ _ _ _ _ h⟩))))
  have h5' : (identKind r.1 ==
      ['a', 'u', 't', 'h', 'o', 'r', 'i', 'z', 'a', 't', 'i', 'o', 'n', '_', 'r', 'e', 'q', 'u', 'e', 's', 't']) = false := by
    simpa using h5
  simp only [h5', Bool.false_eq_true, if_false] at h
  by_cases h6 : identKind r.1 =
      ['a', 'u', 't', 'h', 'o', 'r', 'i', 'z', 'a', 't', 'i', 'o', 'n', '_', 'r', 'e', 's', 'p', 'o', 'n', 's', 'e']
  · simp only [h6, beq_self_eq_true, if_true] at h
    exact Or.inr (Or.inr (Or.inr (Or.inr (Or.inr (Or.inl ⟨h6, load_case _ _ _ _ _ h⟩)))))
  have h6' : (identKind r.1 ==
      ['a', 'u', 't', 'h', 'o', 'r', 'i', 'z', 'a', 't', 'i', 'o', 'n', '_', 'r', 'e', 's', 'p', 'o', 'n', 's', 'e']) = false := by
    simpa using h6
  simp only [h6', Bool.false_eq_true, if_false] at h
  by_cases h7 : identKind r.1 = ['c', 'l', 'u', 's', 't', 'e', 'r']
  · simp [h7] at h
  have h7' : (identKind r.1 == ['c', 'l', 'u', 's', 't', 'e', 'r']) = false := by simpa using h7
  simp only [h7', Bool.false_eq_true, if_false] at h
  by_cases h8 : identKind r.1 = ['s', 'e', 'r', 'v', 'e', 'r']
  · simp [h8] at h
  have h8' : (identKind r.1 == ['s', 'e', 'r', 'v', 'e', 'r']) = false := by simpa using h8
  simp only [h8', Bool.false_eq_true, if_false] at h
  refine Or.inr (Or.inr (Or.inr (Or.inr (Or.inr (Or.inr ⟨?_, ?_⟩)))))
  · simp only [List.mem_cons, List.not_mem_nil, or_false, not_or]
    exact ⟨h1, h2, h3, h4, h5, h6, h7, h8⟩
  · rcases hg : opq.json_UnmarshalGenericClaims data default with ⟨g, e⟩
    cases e <;> simp [hg] at h
    obtain ⟨hver, hc⟩ := h
    exact ⟨hver.symm, g, rfl, hc.symm⟩

/-! ## C02: the typed decoders, as translated — `Decode`, then a type assertion -/

/-- a typed decoder returns claims only if `Decode` returned exactly those claims (same value, no error) and they are
of the decoder's own kind; in every other case it returns no claims and an error (or `Decode` panicked) -/
theorem gen_decodeUser (opq : V2.Opq) (tok : Str) (u : V2.T_UserClaims) (e : Bool)
    (h : V2.DecodeUserClaims tok opq = some (some u, e)) :
    e = false ∧ V2.Decode tok opq = some (some (.UserClaims u), false) := by
  unfold V2.DecodeUserClaims at h
  rcases hd : V2.Decode tok opq with _ | ⟨cl, er⟩
  · simp [hd] at h
  · cases er <;> simp [hd] at h
    rcases cl with _ | c
    · simp at h
    · cases c <;> simp at h
      obtain ⟨h1, h2⟩ := h
      subst h1; subst h2; exact ⟨rfl, rfl⟩

/-- the activation decoder — the one `Import.Validate` reads embedded tokens with — is translated too, so an import's
token goes through the translated `Decode` (and with it the whole authenticity chain) -/
theorem gen_decodeActivation (opq : V2.Opq) (tok : Str) (u : V2.T_ActivationClaims) (e : Bool)
    (h : V2.DecodeActivationClaims tok opq = some (some u, e)) :
    e = false ∧ V2.Decode tok opq = some (some (.ActivationClaims u), false) := by
  unfold V2.DecodeActivationClaims at h
  rcases hd : V2.Decode tok opq with _ | ⟨cl, er⟩
  · simp [hd] at h
  · cases er <;> simp [hd] at h
    rcases cl with _ | c
    · simp at h
    · cases c <;> simp at h
      obtain ⟨h1, h2⟩ := h
      subst h1; subst h2; exact ⟨rfl, rfl⟩

theorem gen_decodeAccount (opq : V2.Opq) (tok : Str) (u : V2.T_AccountClaims) (e : Bool)
    (h : V2.DecodeAccountClaims tok opq = some (some u, e)) :
    e = false ∧ V2.Decode tok opq = some (some (.AccountClaims u), false) := by
  unfold V2.DecodeAccountClaims at h
  rcases hd : V2.Decode tok opq with _ | ⟨cl, er⟩
  · simp [hd] at h
  · cases er <;> simp [hd] at h
    rcases cl with _ | c
    · simp at h
    · cases c <;> simp at h
      obtain ⟨h1, h2⟩ := h
      subst h1; subst h2; exact ⟨rfl, rfl⟩

theorem gen_decodeOperator (opq : V2.Opq) (tok : Str) (u : V2.T_OperatorClaims) (e : Bool)
    (h : V2.DecodeOperatorClaims tok opq = some (some u, e)) :
    e = false ∧ V2.Decode tok opq = some (some (.OperatorClaims u), false) := by
  unfold V2.DecodeOperatorClaims at h
  rcases hd : V2.Decode tok opq with _ | ⟨cl, er⟩
  · simp [hd] at h
  · cases er <;> simp [hd] at h
    rcases cl with _ | c
    · simp at h
    · cases c <;> simp at h
      obtain ⟨h1, h2⟩ := h
      subst h1; subst h2; exact ⟨rfl, rfl⟩

theorem gen_decodeAuthRequest (opq : V2.Opq) (tok : Str) (u : V2.T_AuthorizationRequestClaims) (e : Bool)
    (h : V2.DecodeAuthorizationRequestClaims tok opq = some (some u, e)) :
    e = false ∧ V2.Decode tok opq = some (some (.AuthorizationRequestClaims u), false) := by
  unfold V2.DecodeAuthorizationRequestClaims at h
  rcases hd : V2.Decode tok opq with _ | ⟨cl, er⟩
  · simp [hd] at h
  · cases er <;> simp [hd] at h
    rcases cl with _ | c
    · simp at h
    · cases c <;> simp at h
      obtain ⟨h1, h2⟩ := h
      subst h1; subst h2; exact ⟨rfl, rfl⟩

theorem gen_decodeAuthResponse (opq : V2.Opq) (tok : Str) (u : V2.T_AuthorizationResponseClaims) (e : Bool)
    (h : V2.DecodeAuthorizationResponseClaims tok opq = some (some u, e)) :
    e = false ∧ V2.Decode tok opq = some (some (.AuthorizationResponseClaims u), false) := by
  unfold V2.DecodeAuthorizationResponseClaims at h
  rcases hd : V2.Decode tok opq with _ | ⟨cl, er⟩
  · simp [hd] at h
  · cases er <;> simp [hd] at h
    rcases cl with _ | c
    · simp at h
    · cases c <;> simp at h
      obtain ⟨h1, h2⟩ := h
      subst h1; subst h2; exact ⟨rfl, rfl⟩

/-! ## C05 / C12: `updateVersion` of the six typed kinds stamps the library version, whatever was there -/

theorem gen_updateVersion (o : V2.T_OperatorClaims) (a : V2.T_AccountClaims) (u : V2.T_UserClaims)
    (c : V2.T_ActivationClaims) (q : V2.T_AuthorizationRequestClaims) (r : V2.T_AuthorizationResponseClaims) :
    (∃ o', V2.OperatorClaims_updateVersion o = some o' ∧ o'.f_Operator.f_GenericFields.f_Version = 2) ∧
    (∃ a', V2.AccountClaims_updateVersion a = some a' ∧ a'.f_Account.f_GenericFields.f_Version = 2) ∧
    (∃ u', V2.UserClaims_updateVersion u = some u' ∧ u'.f_User.f_GenericFields.f_Version = 2) ∧
    (∃ c', V2.ActivationClaims_updateVersion c = some c' ∧ c'.f_Activation.f_GenericFields.f_Version = 2) ∧
    (∃ q', V2.AuthorizationRequestClaims_updateVersion q = some q' ∧ q'.f_AuthorizationRequest.f_GenericFields.f_Version = 2) ∧
    (∃ r', V2.AuthorizationResponseClaims_updateVersion r = some r' ∧ r'.f_AuthorizationResponse.f_GenericFields.f_Version = 2) :=
  ⟨⟨_, rfl, rfl⟩, ⟨_, rfl, rfl⟩, ⟨_, rfl, rfl⟩, ⟨_, rfl, rfl⟩, ⟨_, rfl, rfl⟩, ⟨_, rfl, rfl⟩⟩

/-! ## C19: the decision logic of the version-1 `Decode(token, target)`, as translated -/

/-- the version-1 header gate on the translated code: `parseHeaders` returns a header only if the segment decoded, the
reader filled a `Header` without error and the version-1 `headerValid` holds of it (type `jwt` up to case, exactly the
legacy algorithm name up to case — never the version-2 name) -/
theorem v1_parseHeaders_accepts (opq : V1.Opq) (seg : Str) (h : V1.T_Header) (e : Bool)
    (hp : Gen.Fn.V1.parseHeaders seg opq = some (some h, e)) :
    e = false ∧ ∃ bytes, opq.decodeString seg = some (bytes, false) ∧
      opq.json_UnmarshalHeader bytes { f_Type := [], f_Algorithm := [] } = (h, false) ∧
      Jwt.V1.headerValid { typ := h.f_Type, alg := h.f_Algorithm } = true := by
  unfold Gen.Fn.V1.parseHeaders at hp
  rcases hd : opq.decodeString seg with _ | ⟨bytes, e1⟩
  · simp [hd] at hp
  cases e1
  case true => simp [hd] at hp
  simp only [hd, Option.pure_def, Option.bind_eq_bind, Option.bind_some, Bool.false_eq_true, if_false] at hp
  rcases hu : opq.json_UnmarshalHeader bytes { f_Type := [], f_Algorithm := [] } with ⟨h', e2⟩
  cases e2
  case true => simp [hu] at hp
  have hv := v1_headerValid h'.f_Type h'.f_Algorithm
  simp only [hu, Bool.false_eq_true, if_false] at hp
  cases hval : Jwt.V1.headerValid { typ := h'.f_Type, alg := h'.f_Algorithm }
  · have : V1.Header_Valid h' = some true := by
      have := hv; simp only [hval, Bool.not_false] at this; exact this
    simp [this] at hp
  · have : V1.Header_Valid h' = some false := by
      have := hv; simp only [hval, Bool.not_true] at this; exact this
    simp only [this, Option.bind_some, Bool.false_eq_true, if_false, Option.some.injEq, Prod.mk.injEq] at hp
    obtain ⟨h1, h2⟩ := hp
    subst h1
    exact ⟨h2.symm, bytes, rfl, hu, hval⟩

/-- one arm of the `switch p` of the v1 `Decode` (it knows the cluster role too) -/
def prefixOk1 (opq : V1.Opq) (issuer : Str) (p : Int) : Bool :=
  (p == 0 && opq.nkeys_IsValidPublicAccountKey issuer) || (p == 112 && opq.nkeys_IsValidPublicOperatorKey issuer) ||
  (p == 104 && opq.nkeys_IsValidPublicServerKey issuer) || (p == 16 && opq.nkeys_IsValidPublicClusterKey issuer) ||
  (p == 160 && opq.nkeys_IsValidPublicUserKey issuer)

theorem v1_decode_loop (issuer : Str) (opq : V1.Opq) (ps : List Int) (i : Int) (ok : Bool) :
    forRangeFrom (V1.Decode.loop1 issuer opq) i ps ok = some (.done (ok || ps.any (prefixOk1 opq issuer))) := by
  have hb : ∀ (i : Int) (p : Int) (ok : Bool),
      V1.Decode.loop1 issuer opq i p ok = some (.next (ok || prefixOk1 opq issuer p)) := by
    intro i p ok
    unfold V1.Decode.loop1 prefixOk1
    by_cases h0 : p = 0
    · subst h0; cases opq.nkeys_IsValidPublicAccountKey issuer <;> simp
    · by_cases h1 : p = 112
      · subst h1; cases opq.nkeys_IsValidPublicOperatorKey issuer <;> simp
      · by_cases h2 : p = 104
        · subst h2; cases opq.nkeys_IsValidPublicServerKey issuer <;> simp
        · by_cases h3 : p = 16
          · subst h3; cases opq.nkeys_IsValidPublicClusterKey issuer <;> simp
          · by_cases h4 : p = 160
            · subst h4; cases opq.nkeys_IsValidPublicUserKey issuer <;> simp
            · simp [h0, h1, h2, h3, h4]
  rw [forRangeFrom_fold _ _ hb]
  congr 2
  induction ps generalizing ok with
  | nil => simp
  | cons p ps ih => simp [ih, Bool.or_assoc]

theorem v1_verify (opq : V1.Opq) (cd : V1.T_ClaimsData) (text : Str) (sig : List Int) :
    V1.ClaimsData_Verify cd text sig opq = some
      (match opq.nkeys_FromPublicKey cd.f_Issuer, opq.nkeys_Decode (opq.nkeys_Prefix cd.f_Issuer) (strBytes cd.f_Issuer) with
       | some kp, some raw => decide (len raw = 32) && !opq.KeyPair_Verify kp (strBytes text) sig
       | _, _ => false) := by
  unfold V1.ClaimsData_Verify
  cases h1 : opq.nkeys_FromPublicKey cd.f_Issuer <;>
    cases h2 : opq.nkeys_Decode (opq.nkeys_Prefix cd.f_Issuer) (strBytes cd.f_Issuer) <;> simp
  rename_i kp raw
  by_cases h3 : len raw = 32 <;> cases h4 : opq.KeyPair_Verify kp (strBytes text) sig <;> simp [h3, h4]

/-- the issuer the v1 role loop reads through `Claims()` -/
def v1Issuer : V1.I_Claims → Str
  | .AccountClaims v => v.f_ClaimsData.f_Issuer
  | .ActivationClaims v => v.f_ClaimsData.f_Issuer
  | .ClusterClaims v => v.f_ClaimsData.f_Issuer
  | .GenericClaims v => v.f_ClaimsData.f_Issuer
  | .OperatorClaims v => v.f_ClaimsData.f_Issuer
  | .ServerClaims v => v.f_ClaimsData.f_Issuer
  | .UserClaims v => v.f_ClaimsData.f_Issuer

/-- **The version-1 `Decode` accepts only authentic tokens (translated code).** If it returns no error, the token had
three chunks, header, payload (parsed into the target) and signature decoded without error, the filled target's
`Verify` accepted the signature over the payload chunk, and its issuer passes the validator of one of the roles its
kind expects (generic claims expect none). -/
theorem v1_decode_accepts (opq : V1.Opq) (tok : Str) (t : V1.I_Claims)
    (h : V1.Decode tok (some t) opq = some false) :
    ∃ hd p s hdr t' sig,
      splitOn '.' tok = [hd, p, s] ∧
      Gen.Fn.V1.parseHeaders hd opq = some (hdr, false) ∧
      opq.parseClaims p (some t) = some (some t', false) ∧
      opq.decodeString s = some (sig, false) ∧
      V1.I_Claims.Verify t' p sig opq = some true ∧
      (match V1.I_Claims.ExpectedPrefixes t' with
       | some (some ps) => ps.any (prefixOk1 opq (v1Issuer t')) = true
       | _ => True) := by
  unfold V1.Decode at h
  have hs : GoRt.split tok ['.'] = splitOn '.' tok := rfl
  simp only [hs] at h
  rcases hsp : splitOn '.' tok with _ | ⟨hd, _ | ⟨p, _ | ⟨s, _ | ⟨d, l⟩⟩⟩⟩
  · simp [hsp, len] at h
  · simp [hsp, len] at h
  · simp [hsp, len] at h
  · have i0 : idx [hd, p, s] 0 = some hd := rfl
    have i1 : idx [hd, p, s] 1 = some p := rfl
    have i2 : idx [hd, p, s] 2 = some s := rfl
    have h3 : ((((0 : Nat) + 1 + 1 + 1 : Nat) : Int) != 3) = false := by decide
    simp only [hsp, len, List.length_cons, List.length_nil, i0, i1, i2, h3, Option.pure_def, Option.bind_eq_bind,
      Option.bind_some, Bool.false_eq_true, if_false] at h
    rcases hph : Gen.Fn.V1.parseHeaders hd opq with _ | ⟨hdr, e1⟩
    · simp [hph] at h
    cases e1
    case true => simp [hph] at h
    rcases hpc : opq.parseClaims p (some t) with _ | ⟨t1, e2⟩
    · simp [hph, hpc] at h
    cases e2
    case true => simp [hph, hpc] at h
    rcases hds : opq.decodeString s with _ | ⟨sig, e3⟩
    · simp [hph, hpc, hds] at h
    cases e3
    case true => simp [hph, hpc, hds] at h
    simp only [hph, hpc, hds, Option.bind_some, Bool.false_eq_true, if_false] at h
    cases t1 with
    | none => simp at h
    | some t' =>
      simp only [Option.bind_some] at h
      obtain ⟨bp, hbp⟩ : ∃ b, V1.I_Claims.Verify t' p sig opq = some b := by
        cases t' <;> simp only [V1.I_Claims.Verify, v1_verify] <;> exact ⟨_, rfl⟩
      simp only [hbp, Option.bind_some] at h
      cases t' <;>
        simp only [V1.I_Claims.ExpectedPrefixes, V1.AccountClaims_ExpectedPrefixes, V1.OperatorClaims_ExpectedPrefixes,
          V1.UserClaims_ExpectedPrefixes, V1.ActivationClaims_ExpectedPrefixes, V1.ClusterClaims_ExpectedPrefixes,
          V1.ServerClaims_ExpectedPrefixes, V1.GenericClaims_ExpectedPrefixes, V1.I_Claims.Claims, V1.AccountClaims_Claims,
          V1.OperatorClaims_Claims, V1.UserClaims_Claims, V1.ActivationClaims_Claims, V1.ClusterClaims_Claims,
          V1.ServerClaims_Claims, V1.GenericClaims_Claims, forRange, v1_decode_loop, Option.pure_def, Option.bind_eq_bind,
          Option.bind_some, Option.isSome_some, Option.isSome_none, if_true, Bool.false_or, Bool.false_eq_true, if_false] at h
      all_goals
        split at h
        · simp at h
        · first
          | (split at h
             · simp at h
             · rename_i hV hA
               simp only [Bool.not_eq_true', Bool.not_eq_false] at hV hA
               refine ⟨hd, p, s, hdr, _, sig, rfl, hph, hpc, hds, (by rw [hbp, hV]), ?_⟩
               simp only [V1.I_Claims.ExpectedPrefixes, V1.AccountClaims_ExpectedPrefixes, V1.OperatorClaims_ExpectedPrefixes,
                 V1.UserClaims_ExpectedPrefixes, V1.ActivationClaims_ExpectedPrefixes, V1.ClusterClaims_ExpectedPrefixes,
                 V1.ServerClaims_ExpectedPrefixes, v1Issuer, Option.pure_def]
               exact hA)
          | (rename_i hV
             simp only [Bool.not_eq_true', Bool.not_eq_false] at hV
             refine ⟨hd, p, s, hdr, _, sig, rfl, hph, hpc, hds, (by rw [hbp, hV]), ?_⟩
             simp [V1.I_Claims.ExpectedPrefixes, V1.GenericClaims_ExpectedPrefixes])
  · have hl : ¬ ((l.length : Int) + 1 + 1 + 1 + 1 = 3) := by omega
    simp [hsp, len, hl] at h

/-- the version-1 `Verify`, through the interface, is `ClaimsData.Verify` under the claim's own issuer -/
theorem v1_verify_dispatch (opq : V1.Opq) (c : V1.I_Claims) (text : Str) (sig : List Int) :
    V1.I_Claims.Verify c text sig opq = some
      (match opq.nkeys_FromPublicKey (v1Issuer c),
             opq.nkeys_Decode (opq.nkeys_Prefix (v1Issuer c)) (strBytes (v1Issuer c)) with
       | some kp, some raw => decide (len raw = 32) && !opq.KeyPair_Verify kp (strBytes text) sig
       | _, _ => false) := by
  cases c <;> simp only [V1.I_Claims.Verify, v1_verify, v1Issuer]

/-- **C19 down to the key**: what the translated version-1 `Decode` accepts was verified, over the bytes of the payload
chunk, by a key pair obtained from the filled target's own issuer string, which decodes to a 32-byte key -/
theorem v1_decode_authentic (opq : V1.Opq) (tok : Str) (t : V1.I_Claims)
    (h : V1.Decode tok (some t) opq = some false) :
    ∃ hd p s t' sig kp raw,
      splitOn '.' tok = [hd, p, s] ∧
      opq.parseClaims p (some t) = some (some t', false) ∧
      opq.decodeString s = some (sig, false) ∧
      opq.nkeys_FromPublicKey (v1Issuer t') = some kp ∧
      opq.nkeys_Decode (opq.nkeys_Prefix (v1Issuer t')) (strBytes (v1Issuer t')) = some raw ∧ len raw = 32 ∧
      opq.KeyPair_Verify kp (strBytes p) sig = false := by
  obtain ⟨hd, p, s, hdr, t', sig, h1, _, h3, h4, h5, _⟩ := v1_decode_accepts opq tok t h
  rw [v1_verify_dispatch] at h5
  cases hk : opq.nkeys_FromPublicKey (v1Issuer t') with
  | none => simp [hk] at h5
  | some kp =>
    cases hr : opq.nkeys_Decode (opq.nkeys_Prefix (v1Issuer t')) (strBytes (v1Issuer t')) with
    | none => simp [hk, hr] at h5
    | some raw =>
      simp only [hk, hr, Option.some.injEq, Bool.and_eq_true, decide_eq_true_eq, Bool.not_eq_true'] at h5
      exact ⟨hd, p, s, t', sig, kp, raw, h1, h3, h4, hk, hr, h5.1, h5.2⟩

/-! ## C14: the scoped-signer check and the constructors around it, as translated

`HasEmptyPermissions` compares with `reflect.DeepEqual` and stays a parameter. -/

/-- `UserScope.ValidateScopedSigner`: no error exactly for a *user* claim whose issuer (read through `Claims()`) is
the scope's key and which `HasEmptyPermissions`; any other kind of claim, a nil claim, another issuer → error -/
theorem gen_validateScopedSigner (opq : V2.Opq) (us : V2.T_UserScope) (c : Option V2.I_Claims) :
    V2.UserScope_ValidateScopedSigner us c opq =
      match c with
      | some (.UserClaims u) =>
        if u.f_ClaimsData.f_Issuer != us.f_Key then some true
        else (opq.UserClaims_HasEmptyPermissions u).map (fun b => !b)
      | _ => some true := by
  unfold V2.UserScope_ValidateScopedSigner
  rcases c with _ | c
  · simp
  · cases c <;> simp [V2.UserClaims_Claims]
    rename_i u
    by_cases h : u.f_ClaimsData.f_Issuer = us.f_Key
    · simp [h]
      cases opq.UserClaims_HasEmptyPermissions u with
      | none => rfl
      | some b => cases b <;> rfl
    · simp [h]

/-- `SetScoped(true)` leaves a user claim without any permission or limit of its own; `SetScoped(false)` restores the
unlimited defaults and touches nothing else -/
theorem gen_setScoped (u : V2.T_UserClaims) :
    V2.UserClaims_SetScoped u true =
      some { u with f_User := { u.f_User with f_UserPermissionLimits := default } } ∧
    V2.UserClaims_SetScoped u false =
      some { u with f_User := { u.f_User with f_UserPermissionLimits := { u.f_User.f_UserPermissionLimits with
        f_Limits := { f_UserLimits := { f_Src := [], f_Times := [], f_Locale := [] },
                      f_NatsLimits := { f_Subs := -1, f_Data := -1, f_Payload := -1 } } } } } := by
  constructor <;> rfl

/-- `NewUserClaims`: nil for an empty subject; otherwise the subject is set, every limit is `NoLimit`, nothing else -/
theorem gen_newUserClaims (subject : Str) :
    V2.NewUserClaims subject = some
      (if subject = [] then none
       else some { f_ClaimsData := { (default : V2.T_ClaimsData) with f_Subject := subject },
                   f_User := { (default : V2.T_User) with f_UserPermissionLimits :=
                     { (default : V2.T_UserPermissionLimits) with
                       f_Limits := { f_UserLimits := { f_Src := [], f_Times := [], f_Locale := [] },
                                     f_NatsLimits := { f_Subs := -1, f_Data := -1, f_Payload := -1 } } } } }) := by
  unfold V2.NewUserClaims
  by_cases h : subject = [] <;> simp [h]
  exact ⟨rfl, rfl, rfl⟩

/-- the claims `IssueUserJWT` hands to `Encode`: subject = the user key, issuer account = the account id, name = the
given name or else the user key, the given tags, *no* permission or limit of its own (scoped), and an expiry only when
a duration was given (`time.Now().Add(d).Unix()`, a parameter) -/
def issuedClaim (opq : V2.Opq) (acct pk name : Str) (d : Int) (tags : List Str) : V2.T_UserClaims :=
  { f_ClaimsData := { (default : V2.T_ClaimsData) with
      f_Subject := pk, f_Name := if name ≠ [] then name else pk,
      f_Expires := if d ≠ 0 then opq.time_NowAddUnix d else 0 },
    f_User := { (default : V2.T_User) with
      f_UserPermissionLimits := default, f_IssuerAccount := acct,
      f_GenericFields := { (default : V2.T_GenericFields) with f_Tags := tags } } }

/-- **`IssueUserJWT`, as translated**: an error and no token unless the account id is an account key and the user
key a user key; otherwise exactly `Encode` of `issuedClaim` under the given signing key (an `Encode` error becomes an
error with no token). The empty user key is the one place the source would dereference a nil claim; no real validator
accepts it. -/
theorem gen_issueUserJWT (opq : V2.Opq) (kp : Nat) (acct pk name : Str) (d : Int) (tags : List Str) (now : Int) :
    V2.IssueUserJWT kp acct pk name d tags now opq =
      if !opq.nkeys_IsValidPublicAccountKey acct then some ([], true)
      else if !opq.nkeys_IsValidPublicUserKey pk then some ([], true)
      else if pk = [] then none
      else (V2.UserClaims_Encode (issuedClaim opq acct pk name d tags) kp opq).map
        fun r => if r.2.2 then ([], true) else (r.2.1, false) := by
  unfold V2.IssueUserJWT
  cases ha : opq.nkeys_IsValidPublicAccountKey acct
  · simp
  cases hu : opq.nkeys_IsValidPublicUserKey pk
  · simp
  by_cases hp : pk = []
  · subst hp; simp [gen_newUserClaims]
  simp only [gen_newUserClaims, hp, if_false, (gen_setScoped _).1, Bool.not_true, Bool.false_eq_true,
    Option.pure_def, Option.bind_eq_bind, Option.bind_some]
  have hc : ∀ c c' : V2.T_UserClaims, c = c' →
      ((V2.UserClaims_Encode c kp opq).bind fun r => if r.2.2 = true then some (([] : Str), true) else some (r.2.1, false)) =
      (V2.UserClaims_Encode c' kp opq).map fun r => if r.2.2 then ([], true) else (r.2.1, false) := by
    intro c c' hc; subst hc
    cases V2.UserClaims_Encode c kp opq with
    | none => rfl
    | some r => rcases r with ⟨a, t, e⟩; cases e <;> rfl
  by_cases hd : d = 0 <;> by_cases hn : name = [] <;>
    simp only [hd, hn, bne_self_eq_false, Bool.false_eq_true, if_false, if_true, Option.bind_some, ne_eq,
      not_true_eq_false, not_false_eq_true, bne_iff_ne] <;>
    (try simp only [hd, hn, if_true, if_false, not_false_eq_true, Option.bind_some]) <;>
    (apply hc; simp [issuedClaim, hd, hn]; first | done | exact ⟨rfl, rfl, rfl⟩ | exact ⟨rfl, rfl⟩)

/-! ## C08 / C14: the remaining `SigningKeys` methods -/

/-- `AddScopedSigner(s)`: stores the scope under the key the scope itself reports; a nil scope or a nil map panics -/
theorem v2_addScopedSigner (sk : GoMap Str (Option V2.I_Scope)) (u : V2.T_UserScope) :
    V2.SigningKeys_AddScopedSigner sk (some (.UserScope u)) = mapSet sk u.f_Key (some (.UserScope u)) := by
  unfold V2.SigningKeys_AddScopedSigner
  cases sk <;> simp [V2.I_Scope.SigningKey, V2.UserScope_SigningKey, mapSet]

/-- `GetScope(k)`: the stored value and whether the key is present (a plain key is present with a nil scope) -/
theorem v2_getScope (sk : GoMap Str (Option V2.I_Scope)) (k : Str) :
    V2.SigningKeys_GetScope sk k = some (match mapGet sk k with | some v => (v, true) | none => (none, false)) := by
  unfold V2.SigningKeys_GetScope
  cases h : mapGet sk k <;> simp [h]

/-- `Remove(keys...)`: deletes each key, never panics (also on a nil map) -/
theorem v2_skRemove (sk : GoMap Str (Option V2.I_Scope)) (keys : List Str) :
    V2.SigningKeys_Remove sk keys = some (keys.foldl mapDelete sk) := by
  have hb : ∀ (i : Int) (k : Str) (m : GoMap Str (Option V2.I_Scope)),
      V2.SigningKeys_Remove.loop1 i k m = some (.next (mapDelete m k)) := by
    intro i k m; rfl
  simp [V2.SigningKeys_Remove, forRange, forRangeFrom_fold _ _ hb]

/-- `Keys()`: the keys of the entries, in the order the map is visited -/
theorem v2_skKeys (sk : GoMap Str (Option V2.I_Scope)) :
    V2.SigningKeys_Keys sk = some ((mapEntries sk).map (·.1)) := by
  have hb : ∀ (i : Int) (e : Str × Option V2.I_Scope) (ks : List Str),
      V2.SigningKeys_Keys.loop1 i e ks = some (.next (ks ++ [e.1])) := by
    intro i e ks; rfl
  have hf : ∀ (es : List (Str × Option V2.I_Scope)) (ks : List Str),
      es.foldl (fun ks e => ks ++ [e.1]) ks = ks ++ es.map (·.1) := by
    intro es
    induction es with
    | nil => intro ks; simp
    | cons e es ih => intro ks; simp [ih]
  simp [V2.SigningKeys_Keys, forRange, forRangeFrom_fold _ _ hb, hf]

/-! ## C04 / C05: the six typed loaders, as translated

`json.Unmarshal` into each struct type is a parameter; what is translated and proved is everything around it: which
struct the payload is read into for which version, what the struct is pre-set to before reading, that a version-1
payload goes through `migrateV1` and nothing else, that any version other than 1 and 2 is refused, and the two extra
refusals of the authorization loaders (a conflicting `nats.type`, a `nats.version` above the verified one). -/

/-- a loader of the `switch version` shape returns claims only for version 1 (read into the v1 struct, then migrated)
or version 2 (read into the v2 struct) -/
theorem gen_loadOperator_accepts (opq : V2.Opq) (data : List Int) (v : Int) (x : V2.T_OperatorClaims)
    (h : V2.loadOperator data v opq = some (some x, false)) :
    (v = 1 ∧ ∃ o, opq.json_Unmarshalv1OperatorClaims data default = (o, false) ∧
        V2.v1OperatorClaims_migrateV1 o = some (x, false)) ∨
    (v = 2 ∧ opq.json_UnmarshalOperatorClaims data default = (x, false)) := by
  unfold V2.loadOperator V2.v1OperatorClaims_Migrate at h
  by_cases h1 : v = 1
  · subst h1
    rcases hu : opq.json_Unmarshalv1OperatorClaims data default with ⟨o, e⟩
    cases e
    case true => simp [hu] at h
    rcases hm : V2.v1OperatorClaims_migrateV1 o with _ | ⟨y, e⟩
    · simp [hu, hm] at h
    simp [hu, hm] at h
    exact Or.inl ⟨rfl, o, rfl, by rw [hm, h.1, h.2]⟩
  · by_cases h2 : v = 2
    · subst h2
      rcases hu : opq.json_UnmarshalOperatorClaims data default with ⟨o, e⟩
      cases e
      case true => simp [hu] at h
      simp [hu] at h
      exact Or.inr ⟨rfl, by rw [h]⟩
    · simp [h1, h2] at h

theorem gen_loadUser_accepts (opq : V2.Opq) (data : List Int) (v : Int) (x : V2.T_UserClaims)
    (h : V2.loadUser data v opq = some (some x, false)) :
    (v = 1 ∧ ∃ o, opq.json_Unmarshalv1UserClaims data
          { (default : V2.T_v1UserClaims) with f_v1User := { (default : V2.T_v1User) with
              f_Limits := { f_UserLimits := default, f_NatsLimits := { f_Subs := -1, f_Data := -1, f_Payload := -1 } },
              f_Max := -1 } } = (o, false) ∧
        V2.v1UserClaims_migrateV1 o = some (x, false)) ∨
    (v = 2 ∧ opq.json_UnmarshalUserClaims data default = (x, false)) := by
  unfold V2.loadUser V2.v1UserClaims_Migrate at h
  by_cases h1 : v = 1
  · subst h1
    simp only [Option.pure_def, Option.bind_eq_bind, beq_self_eq_true, if_true] at h
    generalize hpre : ({ (default : V2.T_v1UserClaims) with f_v1User := _ } : V2.T_v1UserClaims) = pre at h
    rcases hu : opq.json_Unmarshalv1UserClaims data pre with ⟨o, e⟩
    cases e
    case true => simp [hu] at h
    rcases hm : V2.v1UserClaims_migrateV1 o with _ | ⟨y, e⟩
    · simp [hu, hm] at h
    simp [hu, hm] at h
    refine Or.inl ⟨rfl, o, ?_, by rw [hm, h.1, h.2]⟩
    rw [← hu, ← hpre]; rfl
  · by_cases h2 : v = 2
    · subst h2
      rcases hu : opq.json_UnmarshalUserClaims data default with ⟨o, e⟩
      cases e
      case true => simp [hu] at h
      simp [hu] at h
      exact Or.inr ⟨rfl, by rw [h]⟩
    · simp [h1, h2] at h

theorem gen_loadActivation_accepts (opq : V2.Opq) (data : List Int) (v : Int) (x : V2.T_ActivationClaims)
    (h : V2.loadActivation data v opq = some (some x, false)) :
    (v = 1 ∧ ∃ o, opq.json_Unmarshalv1ActivationClaims data
          { (default : V2.T_v1ActivationClaims) with f_v1NatsActivation :=
              { (default : V2.T_v1NatsActivation) with f_Max := -1, f_Payload := -1 } } = (o, false) ∧
        V2.v1ActivationClaims_migrateV1 o = some (x, false)) ∨
    (v = 2 ∧ opq.json_UnmarshalActivationClaims data default = (x, false)) := by
  unfold V2.loadActivation V2.v1ActivationClaims_Migrate at h
  by_cases h1 : v = 1
  · subst h1
    simp only [Option.pure_def, Option.bind_eq_bind, beq_self_eq_true, if_true] at h
    generalize hpre : ({ (default : V2.T_v1ActivationClaims) with f_v1NatsActivation := _ } : V2.T_v1ActivationClaims) = pre at h
    rcases hu : opq.json_Unmarshalv1ActivationClaims data pre with ⟨o, e⟩
    cases e
    case true => simp [hu] at h
    rcases hm : V2.v1ActivationClaims_migrateV1 o with _ | ⟨y, e⟩
    · simp [hu, hm] at h
    simp [hu, hm] at h
    refine Or.inl ⟨rfl, o, ?_, by rw [hm, h.1, h.2]⟩
    rw [← hu, ← hpre]; rfl
  · by_cases h2 : v = 2
    · subst h2
      rcases hu : opq.json_UnmarshalActivationClaims data default with ⟨o, e⟩
      cases e
      case true => simp [hu] at h
      simp [hu] at h
      exact Or.inr ⟨rfl, by rw [h]⟩
    · simp [h1, h2] at h

/-- the account loader: as above; a version-2 payload is read into a struct whose signing-key map is allocated, and
tiered JetStream limits clear the flat ones -/
theorem gen_loadAccount_accepts (opq : V2.Opq) (data : List Int) (v : Int) (x : V2.T_AccountClaims)
    (h : V2.loadAccount data v opq = some (some x, false)) :
    (v = 1 ∧ ∃ o, opq.json_Unmarshalv1AccountClaims data default = (o, false) ∧
        V2.v1AccountClaims_migrateV1 o = some (x, false)) ∨
    (v = 2 ∧ ∃ a, opq.json_UnmarshalAccountClaims data
          { (default : V2.T_AccountClaims) with f_Account := { (default : V2.T_Account) with f_SigningKeys := some [] } }
            = (a, false) ∧
        x = if mapLen a.f_Account.f_Limits.f_JetStreamTieredLimits > 0 then
              { a with f_Account := { a.f_Account with f_Limits := { a.f_Account.f_Limits with
                  f_JetStreamLimits := default } } }
            else a) := by
  unfold V2.loadAccount V2.v1AccountClaims_Migrate at h
  by_cases h1 : v = 1
  · subst h1
    rcases hu : opq.json_Unmarshalv1AccountClaims data default with ⟨o, e⟩
    cases e
    case true => simp [hu] at h
    rcases hm : V2.v1AccountClaims_migrateV1 o with _ | ⟨y, e⟩
    · simp [hu, hm] at h
    simp [hu, hm] at h
    exact Or.inl ⟨rfl, o, rfl, by rw [hm, h.1, h.2]⟩
  · by_cases h2 : v = 2
    · subst h2
      simp only [Option.pure_def, Option.bind_eq_bind] at h
      generalize hpre : ({ (default : V2.T_AccountClaims) with f_Account := _ } : V2.T_AccountClaims) = pre at h
      rcases hu : opq.json_UnmarshalAccountClaims data pre with ⟨a, e⟩
      cases e
      case true => simp [hu] at h
      refine Or.inr ⟨rfl, a, ?_, ?_⟩
      · rw [← hu, ← hpre]; rfl
      · by_cases ht : mapLen a.f_Account.f_Limits.f_JetStreamTieredLimits > 0 <;>
          simp [hu, ht] at h <;> simp only [ht, if_true, if_false] <;> rw [← h] <;> rfl
    · simp [h1, h2] at h

/-- the authorization loaders: the struct the reader filled, unless it declares another kind or a version above the
one the token is identified and verified with -/
theorem gen_loadAuthRequest_accepts (opq : V2.Opq) (data : List Int) (v : Int) (x : V2.T_AuthorizationRequestClaims)
    (h : V2.loadAuthorizationRequest data v opq = some (some x, false)) :
    opq.json_UnmarshalAuthorizationRequestClaims data default = (x, false) ∧
    (x.f_AuthorizationRequest.f_GenericFields.f_Type = [] ∨
      x.f_AuthorizationRequest.f_GenericFields.f_Type = "authorization_request".toList) ∧
    x.f_AuthorizationRequest.f_GenericFields.f_Version ≤ v := by
  unfold V2.loadAuthorizationRequest at h
  rcases hu : opq.json_UnmarshalAuthorizationRequestClaims data default with ⟨a, e⟩
  cases e
  case true => simp [hu] at h
  have e5 : ("authorization_request".toList : Str) =
      ['a', 'u', 't', 'h', 'o', 'r', 'i', 'z', 'a', 't', 'i', 'o', 'n', '_', 'r', 'e', 'q', 'u', 'e', 's', 't'] := by decide
  simp only [hu, Option.pure_def, Option.bind_eq_bind, Bool.false_eq_true, if_false] at h
  by_cases ht : a.f_AuthorizationRequest.f_GenericFields.f_Type = [] <;>
    by_cases ht2 : a.f_AuthorizationRequest.f_GenericFields.f_Type =
      ['a', 'u', 't', 'h', 'o', 'r', 'i', 'z', 'a', 't', 'i', 'o', 'n', '_', 'r', 'e', 'q', 'u', 'e', 's', 't'] <;>
    by_cases hv : a.f_AuthorizationRequest.f_GenericFields.f_Version > v <;>
    simp [ht, ht2, hv] at h <;> subst h <;> simp [e5, ht, ht2] <;> omega

theorem gen_loadAuthResponse_accepts (opq : V2.Opq) (data : List Int) (v : Int) (x : V2.T_AuthorizationResponseClaims)
    (h : V2.loadAuthorizationResponse data v opq = some (some x, false)) :
    opq.json_UnmarshalAuthorizationResponseClaims data default = (x, false) ∧
    (x.f_AuthorizationResponse.f_GenericFields.f_Type = [] ∨
      x.f_AuthorizationResponse.f_GenericFields.f_Type = "authorization_response".toList) ∧
    x.f_AuthorizationResponse.f_GenericFields.f_Version ≤ v := by
  unfold V2.loadAuthorizationResponse at h
  rcases hu : opq.json_UnmarshalAuthorizationResponseClaims data default with ⟨a, e⟩
  cases e
  case true => simp [hu] at h
  have e6 : ("authorization_response".toList : Str) =
      ['a', 'u', 't', 'h', 'o', 'r', 'i', 'z', 'a', 't', 'i', 'o', 'n', '_', 'r', 'e', 's', 'p', 'o', 'n', 's', 'e'] := by decide
  simp only [hu, Option.pure_def, Option.bind_eq_bind, Bool.false_eq_true, if_false] at h
  by_cases ht : a.f_AuthorizationResponse.f_GenericFields.f_Type = [] <;>
    by_cases ht2 : a.f_AuthorizationResponse.f_GenericFields.f_Type =
      ['a', 'u', 't', 'h', 'o', 'r', 'i', 'z', 'a', 't', 'i', 'o', 'n', '_', 'r', 'e', 's', 'p', 'o', 'n', 's', 'e'] <;>
    by_cases hv : a.f_AuthorizationResponse.f_GenericFields.f_Version > v <;>
    simp [ht, ht2, hv] at h <;> subst h <;> simp [e6, ht, ht2] <;> omega

/-- **the version gate, end to end (translated `loadClaims` + translated loaders).** Whatever `loadClaims` accepts:
an operator, account, user or activation was read as version 1 or 2 — nothing below, nothing above; an authorization
request/response declares no version above the reported one (which is at most 2); generic claims report −1. -/
theorem gen_loadClaims_version (opq : V2.Opq) (data : List Int) (ver : Int) (c : V2.I_Claims)
    (h : V2.loadClaims data opq = some (ver, some c, false)) :
    match c with
    | .OperatorClaims _ | .AccountClaims _ | .UserClaims _ | .ActivationClaims _ => ver = 1 ∨ ver = 2
    | .AuthorizationRequestClaims x => x.f_AuthorizationRequest.f_GenericFields.f_Version ≤ ver ∧ ver ≤ 2
    | .AuthorizationResponseClaims x => x.f_AuthorizationResponse.f_GenericFields.f_Version ≤ ver ∧ ver ≤ 2
    | .GenericClaims _ => ver = -1 := by
  have g := gen_loadClaims_accepts opq data ver c h
  simp only at g
  obtain ⟨_, hv2, g⟩ := g
  rcases g with ⟨_, hv, x, hx, rfl⟩ | ⟨_, hv, x, hx, rfl⟩ | ⟨_, hv, x, hx, rfl⟩ | ⟨_, hv, x, hx, rfl⟩ |
      ⟨_, hv, x, hx, rfl⟩ | ⟨_, hv, x, hx, rfl⟩ | ⟨_, hv, g, _, rfl⟩
  · rcases gen_loadOperator_accepts _ _ _ _ hx with ⟨h1, _⟩ | ⟨h2, _⟩ <;> simp only <;> omega
  · rcases gen_loadAccount_accepts _ _ _ _ hx with ⟨h1, _⟩ | ⟨h2, _⟩ <;> simp only <;> omega
  · rcases gen_loadUser_accepts _ _ _ _ hx with ⟨h1, _⟩ | ⟨h2, _⟩ <;> simp only <;> omega
  · rcases gen_loadActivation_accepts _ _ _ _ hx with ⟨h1, _⟩ | ⟨h2, _⟩ <;> simp only <;> omega
  · have := (gen_loadAuthRequest_accepts _ _ _ _ hx).2.2
    simp only; omega
  · have := (gen_loadAuthResponse_accepts _ _ _ _ hx).2.2
    simp only; omega
  · simp only; exact hv

/-! ## C01: `DecodeGeneric`, as translated

The generic reader has its own copy of the verification logic (it does not go through `Decode`): the header algorithm
alone tells which text was signed. Values of the free-form data map are not modelled (only which keys are present). -/

/-- **`DecodeGeneric` accepts only authentic tokens (translated code).** Claims come back only if the token had three
chunks, the header passed `parseHeaders`, payload and signature decoded, the reader filled its struct without error,
and `ClaimsData.verify` of *that struct's own standard fields* accepted the signature over `p` when the header names the
legacy algorithm and over `hd.p` otherwise; the standard fields returned are the ones that were verified. -/
theorem gen_decodeGeneric_accepts (opq : V2.Opq) (tok : Str) (g : V2.T_GenericClaims)
    (h : V2.DecodeGeneric tok opq = some (some g, false)) :
    ∃ hd p s hdr data sig gc,
      splitOn '.' tok = [hd, p, s] ∧
      V2.parseHeaders hd opq = some (some hdr, false) ∧
      opq.decodeString p = some (data, false) ∧
      opq.json_Unmarshalanon_GenericClaims_GenericFields data
        { f_GenericClaims := default, f_GenericFields := default } = (gc, false) ∧
      opq.decodeString s = some (sig, false) ∧
      V2.ClaimsData_verify gc.f_GenericClaims.f_ClaimsData
        (if hdr.f_Algorithm = "ed25519".toList then p else hd ++ '.' :: p) sig opq = some true ∧
      g.f_ClaimsData = gc.f_GenericClaims.f_ClaimsData := by
  unfold V2.DecodeGeneric at h
  have hs : GoRt.split tok ['.'] = splitOn '.' tok := rfl
  simp only [hs] at h
  rcases hsp : splitOn '.' tok with _ | ⟨hd, _ | ⟨p, _ | ⟨s, _ | ⟨d, l⟩⟩⟩⟩
  · simp [hsp, len] at h
  · simp [hsp, len] at h
  · simp [hsp, len] at h
  · have i0 : idx [hd, p, s] 0 = some hd := rfl
    have i1 : idx [hd, p, s] 1 = some p := rfl
    have i2 : idx [hd, p, s] 2 = some s := rfl
    have h3 : ((((0 : Nat) + 1 + 1 + 1 : Nat) : Int) != 3) = false := by decide
    simp only [hsp, len, List.length_cons, List.length_nil, i0, i1, i2, h3, Option.pure_def, Option.bind_eq_bind,
      Option.bind_some, Bool.false_eq_true, if_false] at h
    rcases hph : V2.parseHeaders hd opq with _ | ⟨hdr, e1⟩
    · simp [hph] at h
    cases e1
    case true => simp [hph] at h
    rcases hdp : opq.decodeString p with _ | ⟨data, e2⟩
    · simp [hph, hdp] at h
    cases e2
    case true => simp [hph, hdp] at h
    rcases hu : opq.json_Unmarshalanon_GenericClaims_GenericFields data
        { f_GenericClaims := default, f_GenericFields := default } with ⟨gc, e3⟩
    cases e3
    case true => simp [hph, hdp, hu] at h
    rcases hds : opq.decodeString s with _ | ⟨sig, e4⟩
    · simp [hph, hdp, hu, hds] at h
    cases e4
    case true => simp [hph, hdp, hu, hds] at h
    simp only [hph, hdp, hu, hds, Option.bind_some, Bool.false_eq_true, if_false] at h
    cases hdr with
    | none => simp at h
    | some hh =>
      have hslice : strSliceTo tok (strLen hd + strLen p + 1) = some (hd ++ '.' :: p) := by
        have ht := token_of_chunks tok hd p s hsp
        have hlen : strLen hd + strLen p + 1 = strLen (hd ++ '.' :: p) := by
          simp [strLen, utf8Len, utf8Width]; omega
        rw [hlen]
        conv => lhs; rw [ht]
        exact strSliceTo_prefix _ _
      have e : ("ed25519".toList : Str) = ['e', 'd', '2', '5', '5', '1', '9'] := by decide
      simp only [Option.bind_some, hslice] at h
      by_cases ha : hh.f_Algorithm = ['e', 'd', '2', '5', '5', '1', '9']
      · simp only [ha, beq_self_eq_true, if_true, Option.bind_some] at h
        rcases hv : V2.ClaimsData_verify gc.f_GenericClaims.f_ClaimsData p sig opq with _ | ok
        · rw [v2_verify] at hv; cases hv
        cases ok
        case false => simp [hv] at h
        simp only [hv, Option.bind_some, Bool.not_true, Bool.false_eq_true, if_false] at h
        refine ⟨hd, p, s, hh, data, sig, gc, rfl, hph, hdp, hu, hds, ?_, ?_⟩
        · simp only [e, ha, if_true]; exact hv
        · -- the data map may have been touched; the standard fields were not
          revert h
          cases hD : gc.f_GenericClaims.f_Data <;>
            by_cases h2 : gc.f_GenericFields.f_Type = [] <;>
            by_cases h3' : gc.f_GenericFields.f_Tags = [] <;>
            simp [hD, h2, h3', mapSet, len, bne] <;>
            (intro h; cases h; rfl)
      · have ha' : (hh.f_Algorithm == ['e', 'd', '2', '5', '5', '1', '9']) = false := by simpa using ha
        simp only [ha', Bool.false_eq_true, if_false, Option.bind_some] at h
        rcases hv : V2.ClaimsData_verify gc.f_GenericClaims.f_ClaimsData (hd ++ '.' :: p) sig opq with _ | ok
        · rw [v2_verify] at hv; cases hv
        cases ok
        case false => simp [hv] at h
        simp only [hv, Option.bind_some, Bool.not_true, Bool.false_eq_true, if_false] at h
        simp only [Option.some.injEq, Prod.mk.injEq, and_true] at h
        refine ⟨hd, p, s, hh, data, sig, gc, rfl, hph, hdp, hu, hds, ?_, ?_⟩
        · simp only [e, ha, if_false]; exact hv
        · rw [← h]
  · have hl : ¬ ((l.length : Int) + 1 + 1 + 1 + 1 = 3) := by omega
    simp [hsp, len, hl] at h

/-! ## C19: the per-kind part of the version-1 `Encode`, as translated

As for version 2: the subject-role test, (account) both sorts, (operator) the account-server URL test, the kind stamp
in `ClaimsData.Type`, then `ClaimsData.Encode` — which stays opaque, so the stamps *it* makes on the claims are outside
these statements. -/

theorem v1_userEncode (opq : Gen.Fn.V1.Opq) (a : Gen.Fn.V1.T_UserClaims) (kp : Nat) :
    Gen.Fn.V1.UserClaims_Encode a kp opq =
      if opq.nkeys_IsValidPublicUserKey a.f_ClaimsData.f_Subject then
        let a' : Gen.Fn.V1.T_UserClaims := { a with f_ClaimsData := { a.f_ClaimsData with f_Type := "user".toList } }
        (opq.ClaimsData_Encode a'.f_ClaimsData kp (some (.UserClaims a'))).map fun r => (a', r.1, r.2)
      else some (a, [], true) := by
  unfold Gen.Fn.V1.UserClaims_Encode
  cases h : opq.nkeys_IsValidPublicUserKey a.f_ClaimsData.f_Subject <;> simp [h]
  cases opq.ClaimsData_Encode _ kp _ <;> rfl

theorem v1_activationEncode (opq : Gen.Fn.V1.Opq) (a : Gen.Fn.V1.T_ActivationClaims) (kp : Nat) :
    Gen.Fn.V1.ActivationClaims_Encode a kp opq =
      if opq.nkeys_IsValidPublicAccountKey a.f_ClaimsData.f_Subject then
        let a' : Gen.Fn.V1.T_ActivationClaims := { a with f_ClaimsData := { a.f_ClaimsData with f_Type := "activation".toList } }
        (opq.ClaimsData_Encode a'.f_ClaimsData kp (some (.ActivationClaims a'))).map fun r => (a', r.1, r.2)
      else some (a, [], true) := by
  unfold Gen.Fn.V1.ActivationClaims_Encode
  cases h : opq.nkeys_IsValidPublicAccountKey a.f_ClaimsData.f_Subject <;> simp [h]
  cases opq.ClaimsData_Encode _ kp _ <;> rfl

theorem v1_clusterEncode (opq : Gen.Fn.V1.Opq) (a : Gen.Fn.V1.T_ClusterClaims) (kp : Nat) :
    Gen.Fn.V1.ClusterClaims_Encode a kp opq =
      if opq.nkeys_IsValidPublicClusterKey a.f_ClaimsData.f_Subject then
        let a' : Gen.Fn.V1.T_ClusterClaims := { a with f_ClaimsData := { a.f_ClaimsData with f_Type := "cluster".toList } }
        (opq.ClaimsData_Encode a'.f_ClaimsData kp (some (.ClusterClaims a'))).map fun r => (a', r.1, r.2)
      else some (a, [], true) := by
  unfold Gen.Fn.V1.ClusterClaims_Encode
  cases h : opq.nkeys_IsValidPublicClusterKey a.f_ClaimsData.f_Subject <;> simp [h]
  cases opq.ClaimsData_Encode _ kp _ <;> rfl

theorem v1_serverEncode (opq : Gen.Fn.V1.Opq) (a : Gen.Fn.V1.T_ServerClaims) (kp : Nat) :
    Gen.Fn.V1.ServerClaims_Encode a kp opq =
      if opq.nkeys_IsValidPublicServerKey a.f_ClaimsData.f_Subject then
        let a' : Gen.Fn.V1.T_ServerClaims := { a with f_ClaimsData := { a.f_ClaimsData with f_Type := "server".toList } }
        (opq.ClaimsData_Encode a'.f_ClaimsData kp (some (.ServerClaims a'))).map fun r => (a', r.1, r.2)
      else some (a, [], true) := by
  unfold Gen.Fn.V1.ServerClaims_Encode
  cases h : opq.nkeys_IsValidPublicServerKey a.f_ClaimsData.f_Subject <;> simp [h]
  cases opq.ClaimsData_Encode _ kp _ <;> rfl

theorem v1_accountEncode (opq : Gen.Fn.V1.Opq) (a : Gen.Fn.V1.T_AccountClaims) (kp : Nat) :
    Gen.Fn.V1.AccountClaims_Encode a kp opq =
      if opq.nkeys_IsValidPublicAccountKey a.f_ClaimsData.f_Subject then
        let a' : Gen.Fn.V1.T_AccountClaims := { a with
          f_Account := { a.f_Account with
            f_Exports := opq.sort_SortExports a.f_Account.f_Exports,
            f_Imports := opq.sort_SortImports a.f_Account.f_Imports },
          f_ClaimsData := { a.f_ClaimsData with f_Type := "account".toList } }
        (opq.ClaimsData_Encode a'.f_ClaimsData kp (some (.AccountClaims a'))).map fun r => (a', r.1, r.2)
      else some (a, [], true) := by
  unfold Gen.Fn.V1.AccountClaims_Encode
  cases h : opq.nkeys_IsValidPublicAccountKey a.f_ClaimsData.f_Subject <;> simp [h]
  cases opq.ClaimsData_Encode _ kp _ <;> rfl

/-- the version-1 account-server URL rule: an empty URL passes; otherwise it must parse and carry a scheme -/
theorem v1_validateAccountServerURL (opq : Gen.Fn.V1.Opq) (o : Gen.Fn.V1.T_Operator) :
    Gen.Fn.V1.Operator_validateAccountServerURL o opq = some
      (o.f_AccountServerURL ≠ [] &&
        (match opq.url_Parse o.f_AccountServerURL with
         | none => true
         | some u => u.f_Scheme == [])) := by
  unfold Gen.Fn.V1.Operator_validateAccountServerURL
  by_cases h : o.f_AccountServerURL = []
  · simp [h]
  · cases hp : opq.url_Parse o.f_AccountServerURL with
    | none => simp [h, hp]
    | some u => by_cases hs : u.f_Scheme = [] <;> simp [h, hp, hs]

theorem v1_operatorEncode (opq : Gen.Fn.V1.Opq) (oc : Gen.Fn.V1.T_OperatorClaims) (kp : Nat) (b : Bool)
    (hb : Gen.Fn.V1.Operator_validateAccountServerURL oc.f_Operator opq = some b) :
    Gen.Fn.V1.OperatorClaims_Encode oc kp opq =
      if !opq.nkeys_IsValidPublicOperatorKey oc.f_ClaimsData.f_Subject then some (oc, [], true)
      else if b then some (oc, [], true)
      else
        let oc' : Gen.Fn.V1.T_OperatorClaims := { oc with f_ClaimsData := { oc.f_ClaimsData with f_Type := "operator".toList } }
        (opq.ClaimsData_Encode oc'.f_ClaimsData kp (some (.OperatorClaims oc'))).map fun r => (oc', r.1, r.2) := by
  unfold Gen.Fn.V1.OperatorClaims_Encode
  simp only [hb]
  cases h : opq.nkeys_IsValidPublicOperatorKey oc.f_ClaimsData.f_Subject <;> cases b <;> simp [h]
  cases opq.ClaimsData_Encode _ kp _ <;> rfl

theorem v1_genericEncode (opq : Gen.Fn.V1.Opq) (g : Gen.Fn.V1.T_GenericClaims) (kp : Nat) :
    Gen.Fn.V1.GenericClaims_Encode g kp opq = opq.ClaimsData_Encode g.f_ClaimsData kp (some (.GenericClaims g)) := by
  unfold Gen.Fn.V1.GenericClaims_Encode
  cases opq.ClaimsData_Encode g.f_ClaimsData kp _ <;> rfl

/-- **a version-1 `Encode` never issues a token for a subject of the wrong role** (whatever `ClaimsData.Encode` does) -/
theorem v1_encode_refuses_unfit_subject (opq : Gen.Fn.V1.Opq) (kp : Nat) :
    (∀ u : Gen.Fn.V1.T_UserClaims, opq.nkeys_IsValidPublicUserKey u.f_ClaimsData.f_Subject = false →
        Gen.Fn.V1.UserClaims_Encode u kp opq = some (u, [], true)) ∧
    (∀ a : Gen.Fn.V1.T_AccountClaims, opq.nkeys_IsValidPublicAccountKey a.f_ClaimsData.f_Subject = false →
        Gen.Fn.V1.AccountClaims_Encode a kp opq = some (a, [], true)) ∧
    (∀ a : Gen.Fn.V1.T_ActivationClaims, opq.nkeys_IsValidPublicAccountKey a.f_ClaimsData.f_Subject = false →
        Gen.Fn.V1.ActivationClaims_Encode a kp opq = some (a, [], true)) ∧
    (∀ o : Gen.Fn.V1.T_OperatorClaims, opq.nkeys_IsValidPublicOperatorKey o.f_ClaimsData.f_Subject = false →
        Gen.Fn.V1.OperatorClaims_Encode o kp opq = some (o, [], true)) ∧
    (∀ c : Gen.Fn.V1.T_ClusterClaims, opq.nkeys_IsValidPublicClusterKey c.f_ClaimsData.f_Subject = false →
        Gen.Fn.V1.ClusterClaims_Encode c kp opq = some (c, [], true)) ∧
    (∀ c : Gen.Fn.V1.T_ServerClaims, opq.nkeys_IsValidPublicServerKey c.f_ClaimsData.f_Subject = false →
        Gen.Fn.V1.ServerClaims_Encode c kp opq = some (c, [], true)) := by
  refine ⟨?_, ?_, ?_, ?_, ?_, ?_⟩
  · intro u h; rw [v1_userEncode]; simp [h]
  · intro a h; rw [v1_accountEncode]; simp [h]
  · intro a h; rw [v1_activationEncode]; simp [h]
  · intro o h; unfold Gen.Fn.V1.OperatorClaims_Encode; simp [h]
  · intro c h; rw [v1_clusterEncode]; simp [h]
  · intro c h; rw [v1_serverEncode]; simp [h]

/-! ## C13: the order `sort.Sort` is given for exports and imports, as translated

`sort.Sort` itself stays a parameter; what it needs from the caller is a strict weak order. The translated `Less`
(with the nil-entries-first repair D12) is one, for every list — which is what makes the sorted result independent of
the insertion order up to entries with equal subjects. -/

/-- `Less` on two entries: a nil entry sorts before a non-nil one; otherwise by subject (byte order = code-point order) -/
def lessBy {α : Type} (key : α → Str) (x y : Option α) : Bool :=
  match x, y with
  | none, some _ => true
  | some a, some b => decide (key a < key b)
  | _, _ => false

theorem v2_exportsLess (e : List (Option V2.T_Export)) (i j : Int) (x y : Option V2.T_Export)
    (hi : idx e i = some x) (hj : idx e j = some y) :
    V2.Exports_Less e i j = some (lessBy (·.f_Subject) x y) := by
  unfold V2.Exports_Less
  cases x <;> cases y <;> simp [hi, hj, lessBy]

theorem v2_importsLess (e : List (Option V2.T_Import)) (i j : Int) (x y : Option V2.T_Import)
    (hi : idx e i = some x) (hj : idx e j = some y) :
    V2.Imports_Less e i j = some (lessBy (·.f_Subject) x y) := by
  unfold V2.Imports_Less
  cases x <;> cases y <;> simp [hi, hj, lessBy]

/-- out of range, `Less` panics (as `e[i]` does) and `Len` is the length -/
theorem v2_exportsLess_range (e : List (Option V2.T_Export)) (i j : Int) (h : idx e i = none) :
    V2.Exports_Less e i j = none := by
  unfold V2.Exports_Less; simp [h]

theorem v2_sortLen (e : List (Option V2.T_Export)) (i : List (Option V2.T_Import)) :
    V2.Exports_Len e = some (len e) ∧ V2.Imports_Len i = some (len i) := ⟨rfl, rfl⟩

/-- **the translated `Less` is a strict weak order**: irreflexive, transitive, and "neither is less" is transitive
(it means: both nil, or both present with equal subjects) -/
theorem lessBy_strict_weak {α : Type} (key : α → Str) :
    (∀ x, lessBy key x x = false) ∧
    (∀ x y z, lessBy key x y = true → lessBy key y z = true → lessBy key x z = true) ∧
    (∀ x y z, lessBy key x y = false → lessBy key y x = false → lessBy key y z = false → lessBy key z y = false →
        lessBy key x z = false ∧ lessBy key z x = false) ∧
    (∀ x y, lessBy key x y = false → lessBy key y x = false →
        (x = none ∧ y = none) ∨ ∃ a b, x = some a ∧ y = some b ∧ key a = key b) := by
  refine ⟨?_, ?_, ?_, ?_⟩
  · intro x; cases x <;> simp [lessBy, List.lt_irrefl]
  · intro x y z h1 h2
    cases x <;> cases y <;> cases z <;> simp_all [lessBy]
    exact List.lt_trans h1 h2
  · intro x y z h1 h2 h3 h4
    cases x <;> cases y <;> cases z <;> simp_all [lessBy]
    rename_i a b c
    have e1 : key a = key b := List.le_antisymm h2 h1
    have e2 : key b = key c := List.le_antisymm h4 h3
    rw [e1, e2]; exact ⟨List.le_refl _, List.le_refl _⟩
  · intro x y h1 h2
    cases x <;> cases y <;> simp_all [lessBy]
    exact List.le_antisymm h2 h1

/-! ## Constructors, kind accessors and small predicates, as translated -/

/-- every constructor refuses the empty subject (returns nil) -/
theorem gen_new_nil :
    V2.NewAccountClaims [] = some none ∧ V2.NewActivationClaims [] = some none ∧
    V2.NewAuthorizationRequestClaims [] = some none ∧ V2.NewAuthorizationResponseClaims [] = some none ∧
    V2.NewGenericClaims [] = some none ∧ V2.NewOperatorClaims [] = some none ∧ V2.NewUserClaims [] = some none :=
  ⟨rfl, rfl, rfl, rfl, rfl, rfl, rfl⟩

/-- `NewAccountClaims`: the subject is set; the three maps are allocated and empty; nats and account limits are
unlimited, JetStream is off; nothing else is set -/
theorem gen_newAccountClaims (s : Str) (hs : s ≠ []) :
    ∃ c, V2.NewAccountClaims s = some (some c) ∧
      c.f_ClaimsData = { (default : V2.T_ClaimsData) with f_Subject := s } ∧
      c.f_Account.f_SigningKeys = some [] ∧ c.f_Account.f_Mappings = some [] ∧
      c.f_Account.f_Limits.f_JetStreamTieredLimits = some [] ∧
      c.f_Account.f_Limits.f_NatsLimits = { f_Subs := -1, f_Data := -1, f_Payload := -1 } ∧
      c.f_Account.f_Limits.f_AccountLimits =
        { f_Imports := -1, f_Exports := -1, f_WildcardExports := true, f_DisallowBearer := false, f_Conn := -1,
          f_LeafNodeConn := -1 } ∧
      c.f_Account.f_Limits.f_JetStreamLimits = default ∧
      V2.OperatorLimits_IsJSEnabled c.f_Account.f_Limits = some false ∧
      ({ c.f_Account with f_SigningKeys := default, f_Mappings := default, f_Limits := default } : V2.T_Account) = default := by
  unfold V2.NewAccountClaims
  simp only [hs, beq_iff_eq, if_false, Option.pure_def, Option.bind_eq_bind, Option.bind_some]
  exact ⟨_, rfl, rfl, rfl, rfl, rfl, rfl, rfl, rfl, rfl, rfl⟩

/-- the other constructors set the subject (the operator: also the issuer; generic: an allocated data map) and nothing else -/
theorem gen_newOthers (s : Str) (hs : s ≠ []) :
    V2.NewActivationClaims s = some (some { f_ClaimsData := { (default : V2.T_ClaimsData) with f_Subject := s }, f_Activation := default }) ∧
    V2.NewAuthorizationRequestClaims s = some (some { (default : V2.T_AuthorizationRequestClaims) with
      f_ClaimsData := { (default : V2.T_ClaimsData) with f_Subject := s } }) ∧
    V2.NewAuthorizationResponseClaims s = some (some { (default : V2.T_AuthorizationResponseClaims) with
      f_ClaimsData := { (default : V2.T_ClaimsData) with f_Subject := s } }) ∧
    V2.NewGenericClaims s = some (some { f_ClaimsData := { (default : V2.T_ClaimsData) with f_Subject := s }, f_Data := some [] }) ∧
    V2.NewOperatorClaims s = some (some {
      f_ClaimsData := { f_Audience := [], f_Expires := 0, f_ID := [], f_IssuedAt := 0, f_Issuer := s, f_Name := [], f_NotBefore := 0, f_Subject := s },
      f_Operator := default }) := by
  refine ⟨?_, ?_, ?_, ?_, ?_⟩
  · unfold V2.NewActivationClaims; simp [hs]
  · unfold V2.NewAuthorizationRequestClaims; simp [hs]; exact ⟨rfl, rfl, rfl, rfl, rfl, rfl, rfl⟩
  · unfold V2.NewAuthorizationResponseClaims; simp [hs]; exact ⟨rfl, rfl, rfl, rfl, rfl, rfl, rfl⟩
  · unfold V2.NewGenericClaims; simp [hs]
  · unfold V2.NewOperatorClaims; simp [hs]; exact ⟨rfl, rfl, rfl, rfl, rfl, rfl⟩

/-- `NewUserScope`: a user scope whose template has unlimited nats limits and nothing else -/
theorem gen_newUserScope :
    V2.NewUserScope = some { { (default : V2.T_UserScope) with f_Kind := 1 } with
      f_Template := { (default : V2.T_UserPermissionLimits) with f_Limits := { (default : V2.T_Limits) with
        f_NatsLimits := { f_Subs := -1, f_Data := -1, f_Payload := -1 } } } } := rfl

/-- `ClaimType()` reads the kind from the claim's own `nats` section -/
theorem v2_claimType (o : V2.T_OperatorClaims) (a : V2.T_AccountClaims) (u : V2.T_UserClaims) (ac : V2.T_ActivationClaims)
    (rq : V2.T_AuthorizationRequestClaims) (rs : V2.T_AuthorizationResponseClaims) :
    V2.OperatorClaims_ClaimType o = some o.f_Operator.f_GenericFields.f_Type ∧
    V2.AccountClaims_ClaimType a = some a.f_Account.f_GenericFields.f_Type ∧
    V2.UserClaims_ClaimType u = some u.f_User.f_GenericFields.f_Type ∧
    V2.ActivationClaims_ClaimType ac = some ac.f_Activation.f_GenericFields.f_Type ∧
    V2.AuthorizationRequestClaims_ClaimType rq = some rq.f_AuthorizationRequest.f_GenericFields.f_Type ∧
    V2.AuthorizationResponseClaims_ClaimType rs = some rs.f_AuthorizationResponse.f_GenericFields.f_Type :=
  ⟨rfl, rfl, rfl, rfl, rfl, rfl⟩

/-- `IsGenericClaimType`: everything except the six typed kind names -/
theorem v2_isGenericClaimType (s : Str) :
    V2.IsGenericClaimType s = some (decide (s ∉ ["operator".toList, "account".toList, "user".toList,
      "authorization_request".toList, "authorization_response".toList, "activation".toList])) := by
  unfold V2.IsGenericClaimType
  have e1 : ("operator".toList : Str) = ['o', 'p', 'e', 'r', 'a', 't', 'o', 'r'] := by decide
  have e2 : ("account".toList : Str) = ['a', 'c', 'c', 'o', 'u', 'n', 't'] := by decide
  have e3 : ("user".toList : Str) = ['u', 's', 'e', 'r'] := by decide
  have e4 : ("activation".toList : Str) = ['a', 'c', 't', 'i', 'v', 'a', 't', 'i', 'o', 'n'] := by decide
  have e5 : ("authorization_request".toList : Str) =
      ['a', 'u', 't', 'h', 'o', 'r', 'i', 'z', 'a', 't', 'i', 'o', 'n', '_', 'r', 'e', 'q', 'u', 'e', 's', 't'] := by decide
  have e6 : ("authorization_response".toList : Str) =
      ['a', 'u', 't', 'h', 'o', 'r', 'i', 'z', 'a', 't', 'i', 'o', 'n', '_', 'r', 'e', 's', 'p', 'o', 'n', 's', 'e'] := by decide
  simp only [e1, e2, e3, e4, e5, e6, List.mem_cons, List.not_mem_nil, or_false]
  by_cases h1 : s = ['o', 'p', 'e', 'r', 'a', 't', 'o', 'r']
  · simp [h1]
  by_cases h2 : s = ['a', 'c', 'c', 'o', 'u', 'n', 't']
  · simp [h2]
  by_cases h3 : s = ['u', 's', 'e', 'r']
  · simp [h3]
  by_cases h4 : s = ['a', 'u', 't', 'h', 'o', 'r', 'i', 'z', 'a', 't', 'i', 'o', 'n', '_', 'r', 'e', 'q', 'u', 'e', 's', 't']
  · simp [h4]
  by_cases h5 : s = ['a', 'u', 't', 'h', 'o', 'r', 'i', 'z', 'a', 't', 'i', 'o', 'n', '_', 'r', 'e', 's', 'p', 'o', 'n', 's', 'e']
  · simp [h5]
  by_cases h6 : s = ['a', 'c', 't', 'i', 'v', 'a', 't', 'i', 'o', 'n']
  · simp [h6]
  simp [h1, h2, h3, h4, h5, h6]

/-- `IsJSEnabled`: with tiers, some tier grants memory or disk storage; without, the flat limits do -/
theorem v2_isJSEnabled (o : V2.T_OperatorLimits) :
    V2.OperatorLimits_IsJSEnabled o = some
      (if mapLen o.f_JetStreamTieredLimits > 0 then
        (mapEntries o.f_JetStreamTieredLimits).any (fun e => e.2.f_MemoryStorage != 0 || e.2.f_DiskStorage != 0)
       else (o.f_JetStreamLimits.f_MemoryStorage != 0 || o.f_JetStreamLimits.f_DiskStorage != 0)) := by
  have hb : ∀ (i : Int) (e : Str × V2.T_JetStreamLimits),
      V2.OperatorLimits_IsJSEnabled.loop1 i e () =
        some (if (e.2.f_MemoryStorage != 0 || e.2.f_DiskStorage != 0) then .ret true else .next ()) := by
    intro i e
    unfold V2.OperatorLimits_IsJSEnabled.loop1
    cases h : (e.2.f_MemoryStorage != 0 || e.2.f_DiskStorage != 0) <;> simp_all
  unfold V2.OperatorLimits_IsJSEnabled
  by_cases ht : mapLen o.f_JetStreamTieredLimits > 0
  · simp only [ht, decide_true, if_true, forRange, forRangeFrom_search _ _ true hb]
    cases (mapEntries o.f_JetStreamTieredLimits).any _ <;> rfl
  · simp [ht]

/-- `Exports.Add` / `Imports.Add` append; `AddMapping` allocates the map if needed and stores under the subject;
`HasExternalAuthorization` asks whether any auth user is listed -/
theorem v2_adds (e i : List (Option V2.T_Export)) (m a : List (Option V2.T_Import)) (acct : V2.T_Account) :
    V2.Exports_Add e i = some (e ++ i) ∧ V2.Imports_Add m a = some (m ++ a) ∧
    V2.Account_HasExternalAuthorization acct = some (decide (len acct.f_Authorization.f_AuthUsers > 0)) :=
  ⟨rfl, rfl, rfl⟩

theorem v2_addMapping (a : V2.T_Account) (sub : Str) (to : List V2.T_WeightedMapping) :
    ∃ m', V2.Account_AddMapping a sub to = some { a with f_Mappings := m' } ∧ mapGet m' sub = some to := by
  unfold V2.Account_AddMapping
  cases hm : a.f_Mappings with
  | none => exact ⟨_, by simp [hm, mapSet]; rfl, by simp [mapGet, mapLookup]⟩
  | some l => exact ⟨_, by simp [hm, mapSet]; rfl, by simp [mapGet, mapLookup]⟩

/-! ## C18: `ActivationClaims.HashID`, as translated

SHA-256 and base32 are parameters. What is translated and proved: the identity is refused unless issuer, subject and
granted subject are all present, and otherwise it is `base32(sha256(bytes(issuer "." subject "." cleaned)))` where
`cleaned` is the model's `cleanSubject` of the granted subject — a function of those three values and of nothing else
in the claims. -/

theorem gen_hashID (opq : V2.Opq) (a : V2.T_ActivationClaims) :
    V2.ActivationClaims_HashID a opq = some
      (if a.f_ClaimsData.f_Issuer = [] ∨ a.f_ClaimsData.f_Subject = [] ∨ a.f_Activation.f_ImportSubject = [] then ([], true)
       else (opq.base32_StdEncode (opq.sha256_Sum (strBytes
          (a.f_ClaimsData.f_Issuer ++ '.' :: a.f_ClaimsData.f_Subject ++ '.' :: Jwt.cleanSubject a.f_Activation.f_ImportSubject))),
        false)) := by
  unfold V2.ActivationClaims_HashID
  by_cases h1 : a.f_ClaimsData.f_Issuer = []
  · simp [h1]
  by_cases h2 : a.f_ClaimsData.f_Subject = []
  · simp [h2]
  by_cases h3 : a.f_Activation.f_ImportSubject = []
  · simp [h3]
  simp [h1, h2, h3, v2_cleanSubject]

/-- **the hash identity depends on nothing but issuer, subject and the cleaned granted subject** (translated code):
two activations that agree on those three have the same identity, whatever else differs -/
theorem gen_hashID_stable (opq : V2.Opq) (a b : V2.T_ActivationClaims)
    (hi : a.f_ClaimsData.f_Issuer = b.f_ClaimsData.f_Issuer) (hs : a.f_ClaimsData.f_Subject = b.f_ClaimsData.f_Subject)
    (hg : a.f_Activation.f_ImportSubject = b.f_Activation.f_ImportSubject) :
    V2.ActivationClaims_HashID a opq = V2.ActivationClaims_HashID b opq := by
  rw [gen_hashID, gen_hashID, hi, hs, hg]

/-- the translated `HashID` is the hand model's `hashId` (whose theorems C18 states), with the digest instantiated -/
theorem v2_hashID (opq : V2.Opq) (a : V2.T_ActivationClaims) :
    V2.ActivationClaims_HashID a opq = some
      (match Jwt.hashId (fun base => opq.base32_StdEncode (opq.sha256_Sum (strBytes base)))
          a.f_ClaimsData.f_Issuer a.f_ClaimsData.f_Subject a.f_Activation.f_ImportSubject with
       | none => ([], true)
       | some h => (h, false)) := by
  rw [gen_hashID]
  unfold Jwt.hashId Jwt.hashIdBase
  by_cases h : a.f_ClaimsData.f_Issuer = [] ∨ a.f_ClaimsData.f_Subject = [] ∨ a.f_Activation.f_ImportSubject = []
  · simp [h]
  · simp [h]

/-- the bundled version-1 library computes the same identity from the same three values (same digest functions):
a version-1 token and its migrated version-2 form name the same import -/
theorem v1_hashID_eq_v2 (o1 : Gen.Fn.V1.Opq) (o2 : V2.Opq) (a1 : Gen.Fn.V1.T_ActivationClaims) (a2 : V2.T_ActivationClaims)
    (hsha : o1.sha256_Sum = o2.sha256_Sum) (hb32 : o1.base32_StdEncode = o2.base32_StdEncode)
    (hi : a1.f_ClaimsData.f_Issuer = a2.f_ClaimsData.f_Issuer) (hs : a1.f_ClaimsData.f_Subject = a2.f_ClaimsData.f_Subject)
    (hg : a1.f_Activation.f_ImportSubject = a2.f_Activation.f_ImportSubject) :
    Gen.Fn.V1.ActivationClaims_HashID a1 o1 = V2.ActivationClaims_HashID a2 o2 := by
  rw [gen_hashID]
  unfold Gen.Fn.V1.ActivationClaims_HashID
  rw [hi, hs, hg, hsha, hb32]
  by_cases h1 : a2.f_ClaimsData.f_Issuer = []
  · simp [h1]
  by_cases h2 : a2.f_ClaimsData.f_Subject = []
  · simp [h2]
  by_cases h3 : a2.f_Activation.f_ImportSubject = []
  · simp [h3]
  simp [h1, h2, h3, v1_cleanSubject]

/-! ## C12: the token id function `ClaimsData.hash`, as translated

`json.Marshal` of the standard fields, SHA-512/256 and unpadded base32 are parameters. The id is the digest of the
serialised *standard fields* and of nothing else: the function does not see the rest of the claims. -/

theorem gen_hash (opq : V2.Opq) (c : V2.T_ClaimsData) :
    V2.ClaimsData_hash c opq = some
      (if (opq.json_MarshalClaimsData c).2 then ([], true)
       else (opq.base32_StdNoPadEncode (opq.sha512_Sum512_256 (opq.json_MarshalClaimsData c).1), false)) := by
  unfold V2.ClaimsData_hash
  cases h : (opq.json_MarshalClaimsData c).2 <;> simp [h]

/-! ## C10 / C01: the whole chain behind an import's embedded token, on translated code -/

/-- what `loadClaims` returned as activation claims came from the translated activation loader, for version 1 or 2 -/
theorem gen_loadClaims_activation (opq : V2.Opq) (data : List Int) (ver : Int) (u : V2.T_ActivationClaims)
    (h : V2.loadClaims data opq = some (ver, some (.ActivationClaims u), false)) :
    (ver = 1 ∨ ver = 2) ∧ V2.loadActivation data ver opq = some (some u, false) := by
  have hv := gen_loadClaims_version opq data ver _ h
  simp only at hv
  refine ⟨hv, ?_⟩
  have g := gen_loadClaims_accepts opq data ver _ h
  simp only at g
  obtain ⟨_, _, g⟩ := g
  rcases g with ⟨_, _, x, _, hc⟩ | ⟨_, _, x, _, hc⟩ | ⟨_, _, x, _, hc⟩ | ⟨_, hv', x, hx, hc⟩ |
      ⟨_, _, x, _, hc⟩ | ⟨_, _, x, _, hc⟩ | ⟨_, _, g, _, hc⟩
  · cases hc
  · cases hc
  · cases hc
  · cases hc; rw [hv']; exact hx
  · cases hc
  · cases hc
  · cases hc

/-- **an activation that `DecodeActivationClaims` returns** (the decoder `Import.Validate` uses for embedded tokens)
came out of a three-chunk token whose payload the translated activation loader read as version 1 or 2, and whose
signature `KeyPair.Verify` accepted under the key pair of the activation's *own issuer*, over `p` or `hd.p` as the
version dictates — every step translated from the source, down to `json.Unmarshal`, base64 and the nkeys functions -/
theorem gen_decodeActivation_chain (opq : V2.Opq) (tok : Str) (u : V2.T_ActivationClaims) (e : Bool)
    (h : V2.DecodeActivationClaims tok opq = some (some u, e)) :
    e = false ∧ ∃ hd p s hdr data sig ver kp raw,
      splitOn '.' tok = [hd, p, s] ∧
      V2.parseHeaders hd opq = some (hdr, false) ∧
      opq.decodeString p = some (data, false) ∧
      (ver = 1 ∨ ver = 2) ∧ V2.loadActivation data ver opq = some (some u, false) ∧
      opq.decodeString s = some (sig, false) ∧
      opq.nkeys_FromPublicKey u.f_ClaimsData.f_Issuer = some kp ∧
      opq.nkeys_Decode (opq.nkeys_Prefix u.f_ClaimsData.f_Issuer) (strBytes u.f_ClaimsData.f_Issuer) = some raw ∧ len raw = 32 ∧
      opq.KeyPair_Verify kp (strBytes (if verUsed (.ActivationClaims u) hdr ver ≤ 1 then p else hd ++ '.' :: p)) sig = false := by
  obtain ⟨he, hd⟩ := gen_decodeActivation opq tok u e h
  refine ⟨he, ?_⟩
  obtain ⟨hd', p, s, hdr, data, sig, ver, kp, raw, h1, h2, h3, h4, h5, h6, h7, h8, h9⟩ := gen_decode_authentic opq tok _ hd
  obtain ⟨hv, hl⟩ := gen_loadClaims_activation opq data ver u h4
  exact ⟨hd', p, s, hdr, data, sig, ver, kp, raw, h1, h2, h3, hv, hl, h5, h6, h7, h8, h9⟩

theorem gen_loadClaims_operator (opq : V2.Opq) (data : List Int) (ver : Int) (u : V2.T_OperatorClaims)
    (h : V2.loadClaims data opq = some (ver, some (.OperatorClaims u), false)) :
    (ver = 1 ∨ ver = 2) ∧ V2.loadOperator data ver opq = some (some u, false) := by
  have hv := gen_loadClaims_version opq data ver _ h
  simp only at hv
  refine ⟨hv, ?_⟩
  have g := gen_loadClaims_accepts opq data ver _ h
  simp only at g
  obtain ⟨_, _, g⟩ := g
  rcases g with ⟨_, hv', x, hx, hc⟩ | ⟨_, _, x, _, hc⟩ | ⟨_, _, x, _, hc⟩ | ⟨_, _, x, _, hc⟩ | ⟨_, _, x, _, hc⟩ | ⟨_, _, x, _, hc⟩ | ⟨_, _, g, _, hc⟩
  · cases hc; rw [hv']; exact hx
  · cases hc
  · cases hc
  · cases hc
  · cases hc
  · cases hc
  · cases hc

/-- the same chain for `DecodeOperatorClaims` -/
theorem gen_decodeOperator_chain (opq : V2.Opq) (tok : Str) (u : V2.T_OperatorClaims) (e : Bool)
    (h : V2.DecodeOperatorClaims tok opq = some (some u, e)) :
    e = false ∧ ∃ hd p s hdr data sig ver kp raw,
      splitOn '.' tok = [hd, p, s] ∧
      V2.parseHeaders hd opq = some (hdr, false) ∧
      opq.decodeString p = some (data, false) ∧
      (ver = 1 ∨ ver = 2) ∧ V2.loadOperator data ver opq = some (some u, false) ∧
      opq.decodeString s = some (sig, false) ∧
      opq.nkeys_FromPublicKey u.f_ClaimsData.f_Issuer = some kp ∧
      opq.nkeys_Decode (opq.nkeys_Prefix u.f_ClaimsData.f_Issuer) (strBytes u.f_ClaimsData.f_Issuer) = some raw ∧ len raw = 32 ∧
      opq.KeyPair_Verify kp (strBytes (if verUsed (.OperatorClaims u) hdr ver ≤ 1 then p else hd ++ '.' :: p)) sig = false := by
  obtain ⟨he, hd⟩ := gen_decodeOperator opq tok u e h
  refine ⟨he, ?_⟩
  obtain ⟨hd', p, s, hdr, data, sig, ver, kp, raw, h1, h2, h3, h4, h5, h6, h7, h8, h9⟩ := gen_decode_authentic opq tok _ hd
  obtain ⟨hv, hl⟩ := gen_loadClaims_operator opq data ver u h4
  exact ⟨hd', p, s, hdr, data, sig, ver, kp, raw, h1, h2, h3, hv, hl, h5, h6, h7, h8, h9⟩

theorem gen_loadClaims_account (opq : V2.Opq) (data : List Int) (ver : Int) (u : V2.T_AccountClaims)
    (h : V2.loadClaims data opq = some (ver, some (.AccountClaims u), false)) :
    (ver = 1 ∨ ver = 2) ∧ V2.loadAccount data ver opq = some (some u, false) := by
  have hv := gen_loadClaims_version opq data ver _ h
  simp only at hv
  refine ⟨hv, ?_⟩
  have g := gen_loadClaims_accepts opq data ver _ h
  simp only at g
  obtain ⟨_, _, g⟩ := g
  rcases g with ⟨_, _, x, _, hc⟩ | ⟨_, hv', x, hx, hc⟩ | ⟨_, _, x, _, hc⟩ | ⟨_, _, x, _, hc⟩ | ⟨_, _, x, _, hc⟩ | ⟨_, _, x, _, hc⟩ | ⟨_, _, g, _, hc⟩
  · cases hc
  · cases hc; rw [hv']; exact hx
  · cases hc
  · cases hc
  · cases hc
  · cases hc
  · cases hc

/-- the same chain for `DecodeAccountClaims` -/
theorem gen_decodeAccount_chain (opq : V2.Opq) (tok : Str) (u : V2.T_AccountClaims) (e : Bool)
    (h : V2.DecodeAccountClaims tok opq = some (some u, e)) :
    e = false ∧ ∃ hd p s hdr data sig ver kp raw,
      splitOn '.' tok = [hd, p, s] ∧
      V2.parseHeaders hd opq = some (hdr, false) ∧
      opq.decodeString p = some (data, false) ∧
      (ver = 1 ∨ ver = 2) ∧ V2.loadAccount data ver opq = some (some u, false) ∧
      opq.decodeString s = some (sig, false) ∧
      opq.nkeys_FromPublicKey u.f_ClaimsData.f_Issuer = some kp ∧
      opq.nkeys_Decode (opq.nkeys_Prefix u.f_ClaimsData.f_Issuer) (strBytes u.f_ClaimsData.f_Issuer) = some raw ∧ len raw = 32 ∧
      opq.KeyPair_Verify kp (strBytes (if verUsed (.AccountClaims u) hdr ver ≤ 1 then p else hd ++ '.' :: p)) sig = false := by
  obtain ⟨he, hd⟩ := gen_decodeAccount opq tok u e h
  refine ⟨he, ?_⟩
  obtain ⟨hd', p, s, hdr, data, sig, ver, kp, raw, h1, h2, h3, h4, h5, h6, h7, h8, h9⟩ := gen_decode_authentic opq tok _ hd
  obtain ⟨hv, hl⟩ := gen_loadClaims_account opq data ver u h4
  exact ⟨hd', p, s, hdr, data, sig, ver, kp, raw, h1, h2, h3, hv, hl, h5, h6, h7, h8, h9⟩

theorem gen_loadClaims_user (opq : V2.Opq) (data : List Int) (ver : Int) (u : V2.T_UserClaims)
    (h : V2.loadClaims data opq = some (ver, some (.UserClaims u), false)) :
    (ver = 1 ∨ ver = 2) ∧ V2.loadUser data ver opq = some (some u, false) := by
  have hv := gen_loadClaims_version opq data ver _ h
  simp only at hv
  refine ⟨hv, ?_⟩
  have g := gen_loadClaims_accepts opq data ver _ h
  simp only at g
  obtain ⟨_, _, g⟩ := g
  rcases g with ⟨_, _, x, _, hc⟩ | ⟨_, _, x, _, hc⟩ | ⟨_, hv', x, hx, hc⟩ | ⟨_, _, x, _, hc⟩ | ⟨_, _, x, _, hc⟩ | ⟨_, _, x, _, hc⟩ | ⟨_, _, g, _, hc⟩
  · cases hc
  · cases hc
  · cases hc; rw [hv']; exact hx
  · cases hc
  · cases hc
  · cases hc
  · cases hc

/-- the same chain for `DecodeUserClaims` -/
theorem gen_decodeUser_chain (opq : V2.Opq) (tok : Str) (u : V2.T_UserClaims) (e : Bool)
    (h : V2.DecodeUserClaims tok opq = some (some u, e)) :
    e = false ∧ ∃ hd p s hdr data sig ver kp raw,
      splitOn '.' tok = [hd, p, s] ∧
      V2.parseHeaders hd opq = some (hdr, false) ∧
      opq.decodeString p = some (data, false) ∧
      (ver = 1 ∨ ver = 2) ∧ V2.loadUser data ver opq = some (some u, false) ∧
      opq.decodeString s = some (sig, false) ∧
      opq.nkeys_FromPublicKey u.f_ClaimsData.f_Issuer = some kp ∧
      opq.nkeys_Decode (opq.nkeys_Prefix u.f_ClaimsData.f_Issuer) (strBytes u.f_ClaimsData.f_Issuer) = some raw ∧ len raw = 32 ∧
      opq.KeyPair_Verify kp (strBytes (if verUsed (.UserClaims u) hdr ver ≤ 1 then p else hd ++ '.' :: p)) sig = false := by
  obtain ⟨he, hd⟩ := gen_decodeUser opq tok u e h
  refine ⟨he, ?_⟩
  obtain ⟨hd', p, s, hdr, data, sig, ver, kp, raw, h1, h2, h3, h4, h5, h6, h7, h8, h9⟩ := gen_decode_authentic opq tok _ hd
  obtain ⟨hv, hl⟩ := gen_loadClaims_user opq data ver u h4
  exact ⟨hd', p, s, hdr, data, sig, ver, kp, raw, h1, h2, h3, hv, hl, h5, h6, h7, h8, h9⟩

/-! ## C15: the user-only key parser, as translated

`ParseDecoratedNKey` (the regular expression and the line scan), `KeyPair.Seed` and `nkeys.FromSeed` are parameters.
What is translated and proved is the role check around them: a key pair comes back only for a seed that starts with
`SU` — operator (`SO`) and account (`SA`) seeds are refused whatever the parameters do. -/

theorem gen_parseDecoratedUserNKey (opq : V2.Opq) (contents : List Int) (kp : Nat)
    (h : V2.ParseDecoratedUserNKey contents opq = some (kp, false)) :
    ∃ nk seed, opq.ParseDecoratedNKey contents = some (nk, false) ∧ opq.KeyPair_Seed nk = some seed ∧
      bytesHasPrefix seed (strBytes "SU".toList) = true ∧ opq.nkeys_FromSeed seed = some kp := by
  unfold V2.ParseDecoratedUserNKey at h
  rcases hp : opq.ParseDecoratedNKey contents with _ | ⟨nk, e⟩
  · simp [hp] at h
  cases e
  case true => simp [hp] at h
  rcases hs : opq.KeyPair_Seed nk with _ | seed
  · simp [hp, hs] at h
  cases hpre : bytesHasPrefix seed (strBytes ['S', 'U'])
  · simp [hp, hs, hpre] at h
  rcases hf : opq.nkeys_FromSeed seed with _ | k
  · simp [hp, hs, hpre, hf] at h
  simp [hp, hs, hpre, hf] at h
  exact ⟨nk, seed, rfl, hs, by simpa using hpre, by rw [hf, h]⟩

/-- in particular: a seed of another role never yields a key pair -/
theorem gen_parseDecoratedUserNKey_refuses (opq : V2.Opq) (contents : List Int) (nk : Nat) (seed : List Int)
    (hp : opq.ParseDecoratedNKey contents = some (nk, false)) (hs : opq.KeyPair_Seed nk = some seed)
    (hpre : bytesHasPrefix seed (strBytes "SU".toList) = false) :
    V2.ParseDecoratedUserNKey contents opq = some (0, true) := by
  unfold V2.ParseDecoratedUserNKey
  have : bytesHasPrefix seed (strBytes ['S', 'U']) = false := by simpa using hpre
  simp [hp, hs, this]

/-! ## Non-vacuity of the later ties: concrete environments in which the translated functions succeed -/

/-- an environment that accepts every user key and whose `encode` returns a token -/
def demoOpq2 : V2.Opq :=
  { demoOpq with nkeys_IsValidPublicUserKey := fun _ => true,
                 ClaimsData_encode := fun _ _ _ => some ("tok".toList, false) }

example : V2.IssueUserJWT 1 "A".toList "U".toList [] 0 [] 0 demoOpq2 = some ("tok".toList, false) := by decide
example : V2.IssueUserJWT 1 "A".toList "U".toList [] 0 [] 0 demoOpq = some ([], true) := by decide
example : V2.ActivationClaims_HashID
    { f_ClaimsData := { (default : V2.T_ClaimsData) with f_Issuer := "A".toList, f_Subject := "B".toList },
      f_Activation := { (default : V2.T_Activation) with f_ImportSubject := "x.*".toList } } demoOpq = some ([], false) := by decide
example : V2.ActivationClaims_HashID default demoOpq = some ([], true) := by decide
example : V2.RenamingSubject_ToSubject "a.$1.b".toList { demoOpq with strconv_Atoi := fun _ => some 1 } = some "a.*.b".toList := by decide
example : V2.Exports_Less [none, some { (default : V2.T_Export) with f_Subject := "a".toList }] 0 1 = some true := by decide
example : (match V2.loadClaims [] demoOpq with | some (2, some (.AccountClaims _), false) => true | _ => false) = true := by decide

end Jwt.FnTie
