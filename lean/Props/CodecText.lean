import JwtProofs.CodecText
import JwtProofs.Segment
import Props.CodecRoundTrip
/-!
# Text level of the codec on today's schemas

`decodeText (encodeText v) = overlay v`: the JSON *text* `json.Marshal` writes for a claims value is parsed back
(`Json.parse ∘ Json.render = id`, proved for every tree whose number literals are number literals) and decoded to the
closed form of `Props/CodecRoundTrip.lean`. Values of the six typed kinds contain no free-form data, so the side
condition on free-form data (`AnysWf`) is discharged from the schema (`noAny`); for generic claims it is a hypothesis
(it holds for anything that came out of the parser).
-/
namespace Jwt.CodecText
open Jwt Jwt.Codec Jwt.Json Jwt.CodecRoundTrip List

mutual
def noAny : Ty → Bool
  | .ptr t => noAny t
  | .slice t => noAny t
  | .map t => noAny t
  | .struct fs => noAnyFields fs
  | .any => false
  | _ => true
def noAnyFields : List (Str × Bool × Ty) → Bool
  | [] => true
  | (_, _, t) :: fs => noAny t && noAnyFields fs
end

theorem noAnyFields_mem : ∀ (fs : List (Str × Bool × Ty)) (x : Str × Bool × Ty), noAnyFields fs = true → x ∈ fs → noAny x.2.2 = true := by
  intro fs
  induction fs with
  | nil => intro x _ h; cases h
  | cons y fs ih =>
    intro x h hx
    obtain ⟨yk, yo, yt⟩ := y
    simp only [noAnyFields, Bool.and_eq_true] at h
    simp only [mem_cons] at hx
    rcases hx with rfl | hx
    · exact h.1
    · exact ih x h.2 hx

variable (env : CodecEnv) (hscope : noAny env.userScope = true)
include hscope

mutual
theorem anysWf_of_full : ∀ (t : Ty) (v : Val), noAny t = true → Full env t v → AnysWf v
  | _, .bool _, _, _ => by simp [AnysWf]
  | _, .str _, _, _ => by simp [AnysWf]
  | _, .int _, _, _ => by simp [AnysWf]
  | _, .nil, _, _ => by simp [AnysWf]
  | t, .any _, hn, hf => by
    cases t with
    | any => simp [noAny] at hn
    | custom c => cases c <;> simp [Full] at hf
    | _ => simp [Full] at hf
  | t, .ptr v, hn, hf => by
    cases t with
    | ptr t' => simp only [noAny] at hn; simp only [Full] at hf; simp only [AnysWf]; exact anysWf_of_full t' v hn hf
    | custom c => cases c <;> simp [Full] at hf
    | _ => simp [Full] at hf
  | t, .list vs, hn, hf => by
    cases t with
    | slice t' => simp only [noAny] at hn; simp only [Full] at hf; simp only [AnysWf]; exact anysWf_list t' vs hn hf
    | custom c =>
      cases c <;> simp only [Full] at hf <;> try (exact hf.elim)
      simp only [AnysWf]; exact anysWf_list .str vs rfl hf
    | _ => simp [Full] at hf
  | t, .map kvs, hn, hf => by
    cases t with
    | map t' => simp only [noAny] at hn; simp only [Full] at hf; simp only [AnysWf]; exact anysWf_kvs t' kvs hn hf
    | custom c =>
      cases c <;> simp only [Full] at hf <;> try (exact hf.elim)
      simp only [AnysWf]; exact anysWf_keys kvs hf
    | _ => simp [Full] at hf
  | t, .struct vals, hn, hf => by
    cases t with
    | struct fs => simp only [noAny] at hn; simp only [Full] at hf; simp only [AnysWf]; exact anysWf_vals fs hn vals hf.2
    | custom c => cases c <;> simp [Full] at hf
    | _ => simp [Full] at hf
termination_by structural _ v => v
theorem anysWf_list : ∀ (t : Ty) (vs : List Val), noAny t = true → FullList env t vs → AnysWfList vs
  | _, [], _, _ => by simp [AnysWfList]
  | t, v :: vs, hn, hf => by
    simp only [FullList] at hf; simp only [AnysWfList]
    exact ⟨anysWf_of_full t v hn hf.1, anysWf_list t vs hn hf.2⟩
termination_by structural _ vs => vs
theorem anysWf_kvs : ∀ (t : Ty) (kvs : List (Str × Val)), noAny t = true → FullKVs env t kvs → AnysWfKVs kvs
  | _, [], _, _ => by simp [AnysWfKVs]
  | t, (k, v) :: kvs, hn, hf => by
    simp only [FullKVs] at hf; simp only [AnysWfKVs]
    exact ⟨anysWf_of_full t v hn hf.1, anysWf_kvs t kvs hn hf.2⟩
termination_by structural _ kvs => kvs
theorem anysWf_vals (fs : List (Str × Bool × Ty)) (hn : noAnyFields fs = true) :
    ∀ (vals : List (Str × Val)), FullVals env fs vals → AnysWfKVs vals
  | [], _ => by simp [AnysWfKVs]
  | (k, v) :: vals, hf => by
    simp only [FullVals] at hf; simp only [AnysWfKVs]
    refine ⟨?_, anysWf_vals fs hn vals hf.2⟩
    cases hft : fieldType fs k with
    | none => have := hf.1; rw [hft] at this; exact this.elim
    | some ot =>
      have h1 := hf.1; rw [hft] at h1
      exact anysWf_of_full ot.2 v (noAnyFields_mem fs (k, ot.1, ot.2) hn (mem_of_fieldType fs k ot.1 ot.2 hft)) h1
termination_by structural vals => vals
theorem anysWf_keys : ∀ (kvs : List (Str × Val)), FullKeys env kvs → AnysWfKVs kvs
  | [], _ => by simp [AnysWfKVs]
  | (k, .nil) :: kvs, hf => by
    simp only [FullKeys] at hf; simp only [AnysWfKVs, AnysWf]; exact ⟨trivial, anysWf_keys kvs hf⟩
  | (k, .ptr s) :: kvs, hf => by
    simp only [FullKeys] at hf; simp only [AnysWfKVs, AnysWf]
    exact ⟨anysWf_of_full env.userScope s hscope hf.1, anysWf_keys kvs hf.2⟩
  | (k, .bool _) :: kvs, hf => by simp [FullKeys] at hf
  | (k, .str _) :: kvs, hf => by simp [FullKeys] at hf
  | (k, .int _) :: kvs, hf => by simp [FullKeys] at hf
  | (k, .list _) :: kvs, hf => by simp [FullKeys] at hf
  | (k, .map _) :: kvs, hf => by simp [FullKeys] at hf
  | (k, .struct _) :: kvs, hf => by simp [FullKeys] at hf
  | (k, .any _) :: kvs, hf => by simp [FullKeys] at hf
termination_by structural kvs => kvs
end

end Jwt.CodecText

namespace Jwt.CodecText
open Jwt Jwt.Codec Jwt.Json Jwt.CodecRoundTrip List

theorem gen_scope_noAny : noAny codecEnv.userScope = true := by decide

/-- **Generated obligation.** The six typed v2 claims schemas contain no free-form (`interface{}`) data. -/
theorem gen_v2_noAny : ∀ k : Kind, k ≠ .generic → noAny (schemaOf k) = true := by
  intro k hk; cases k <;> first | exact absurd rfl hk | decide

/-- **Text level, closed form** (any kind; free-form data must be re-readable). -/
theorem text_roundtrip (t : Ty) (v base : Val) (text : Str)
    (hty : tyOk t = true) (hfuel : fuel + slack scopeSlack t ≤ decFuel) (hwt : WT codecEnv t v) (hany : AnysWf v)
    (hb : BaseOk t base) (he : encodeText codecEnv t v = .ok text) :
    decodeText codecEnv t base text = .ok (overlay codecEnv t base v) :=
  decodeText_encodeText codecEnv scopeSlack gen_envOk scopeSlack_ok t v base text hty hfuel hwt hany hb he

/-- **C03, text level, typed kinds other than account**: the payload *text* Encode writes decodes — parser and
decoder — to the same claims. -/
theorem v2_text_lossless (k : Kind) (hk : k ≠ .account) (hg : k ≠ .generic) (v : Val) (text : Str)
    (hfull : Full codecEnv (schemaOf k) v) (hwt : WT codecEnv (schemaOf k) v)
    (he : encodeText codecEnv (schemaOf k) v = .ok text) :
    ∃ r, decodeText codecEnv (schemaOf k) (zero (schemaOf k)) text = .ok r ∧ VEq r v := by
  have hty := (gen_v2_schemas_ok k).1
  refine ⟨_, text_roundtrip (schemaOf k) v _ text hty (gen_v2_schemas_ok k).2 hwt
    (anysWf_of_full codecEnv gen_scope_noAny _ v (gen_v2_noAny k hg) hfull) (baseOk_zero _ hty) he, ?_⟩
  exact overlay_veq codecEnv gen_envOk _ _ v hty hfull hwt (baseOk_zero _ hty)
    (covers_zero codecEnv _ v (gen_v2_noKeys k hk) hty hfull)

/-- **C03 / C14, text level, account claims.** -/
theorem v2_account_text_lossless (v : Val) (text : Str)
    (hfull : Full codecEnv Gen.V2.AccountClaims v) (hwt : WT codecEnv Gen.V2.AccountClaims v)
    (hc : Covers codecEnv Gen.V2.AccountClaims accountBase v)
    (he : encodeText codecEnv Gen.V2.AccountClaims v = .ok text) :
    ∃ r, decodeText codecEnv Gen.V2.AccountClaims accountBase text = .ok r ∧ VEq r v := by
  have hty := (gen_v2_schemas_ok .account).1
  refine ⟨_, text_roundtrip Gen.V2.AccountClaims v _ text hty (gen_v2_schemas_ok .account).2 hwt
    (anysWf_of_full codecEnv gen_scope_noAny _ v (gen_v2_noAny .account (by decide)) hfull) gen_accountBase_ok he, ?_⟩
  exact overlay_veq codecEnv gen_envOk _ _ v hty hfull hwt gen_accountBase_ok hc

/-- **C03, text level, generic claims** (free-form data: whatever came out of the parser is re-readable). -/
theorem v2_generic_text_lossless (v : Val) (text : Str)
    (hfull : Full codecEnv Gen.V2.GenericClaims v) (hwt : WT codecEnv Gen.V2.GenericClaims v) (hany : AnysWf v)
    (he : encodeText codecEnv Gen.V2.GenericClaims v = .ok text) :
    ∃ r, decodeText codecEnv Gen.V2.GenericClaims (zero Gen.V2.GenericClaims) text = .ok r ∧ VEq r v := by
  have hty := (gen_v2_schemas_ok .generic).1
  refine ⟨_, text_roundtrip Gen.V2.GenericClaims v _ text hty (gen_v2_schemas_ok .generic).2 hwt hany
    (baseOk_zero _ hty) he, ?_⟩
  exact overlay_veq codecEnv gen_envOk _ _ v hty hfull hwt (baseOk_zero _ hty)
    (covers_zero codecEnv _ v (gen_v2_noKeys .generic (by decide)) hty hfull)

end Jwt.CodecText
