import Props.C06
import Props.C16
import Props.FnTie
/-!
# C10 — import activation tokens are bound to exporter, importer, kind and subject

Model: `validateImport` / `validateImportToken` (JwtModel/Validate.lean: lines 93–121 of v2/imports.go),
tied to the code by the correspondence streams `C10` and `C06`.

Reading fixed in DESIGN 5.10: the "imported subject" is what the code compares — `To` for a service import
that sets it, otherwise `Subject`; "authentic, decodable activation" includes the activation's own rules
A1–A3.
-/
namespace Jwt.C10
open Jwt Jwt.Codec Jwt.C06

/-- the subject the binding is about -/
def importedSubject (i : Val) : Str :=
  if svc i && (i.field "to").asStr ≠ [] then (i.field "to").asStr else (i.field "subject").asStr

/-- everything `Import.Validate` checks apart from the token (rows M1–M7) -/
def badImportSansToken (i : Val) : Bool :=
  let loc := (i.field "local_subject").asStr
  (!svc i && !strm i) || (svc i && (i.field "allow_trace").asBool) || decide ((i.field "account").asStr = []) ||
  badSubject (i.field "subject").asStr ||
  (decide (loc ≠ []) && (badLocalSubject loc (i.field "subject").asStr || decide ((i.field "to").asStr ≠ []))) ||
  ((i.field "share").asBool && !svc i)

/-- the five binding conditions -/
def Bound (cr : Crypto) (acct : Str) (i : Val) : Prop :=
  ∃ act, decodeTyped .activation cr (i.field "token").asStr = .ok act ∧
    ((act.val.field "iss").asStr = (i.field "account").asStr ∨
      ((act.val.field "nats").field "issuer_account").asStr = (i.field "account").asStr) ∧   -- issued by the exporter
    (act.val.field "sub").asStr = acct ∧                                                     -- addressed to the importer
    ((act.val.field "nats").field "kind").asInt = (i.field "type").asInt ∧                   -- same stream/service kind
    badActivationBody act.val = false ∧                                                      -- a valid activation
    isContainedIn (importedSubject i) ((act.val.field "nats").field "subject").asStr = true  -- grants the imported subject

/-- **C10.** An import that embeds a token (and is otherwise clean) validates without a blocking issue
exactly when the token is an authentic, decodable activation satisfying all binding conditions. -/
theorem import_token_iff (cr : Crypto) (acct : Str) (iv i : Val) (hd : iv.deref = some i)
    (hclean : badImportSansToken i = false) (htok : (i.field "token").asStr ≠ []) :
    blk (validateImport cr acct iv) = false ↔ Bound cr acct i := by
  rw [import_row]
  unfold badImport
  simp only [hd]
  have hsplit : ∀ x : Bool, ((!svc i && !strm i) || (svc i && (i.field "allow_trace").asBool) ||
      decide ((i.field "account").asStr = []) || badSubject (i.field "subject").asStr ||
      (decide ((i.field "local_subject").asStr ≠ []) && (badLocalSubject (i.field "local_subject").asStr (i.field "subject").asStr ||
        decide ((i.field "to").asStr ≠ []))) || ((i.field "share").asBool && !svc i) || x) = x := by
    intro x
    have := hclean
    unfold badImportSansToken at this
    simp only at this
    rw [this, Bool.false_or]
  rw [hsplit]
  unfold badImportToken Bound importedSubject
  simp only [htok, ne_eq, not_false_eq_true, decide_true, Bool.true_and]
  cases hdec : decodeTyped .activation cr (i.field "token").asStr with
  | error e => simp
  | ok act =>
    simp only [Except.ok.injEq, exists_eq_left']
    simp only [Bool.or_eq_false_iff, Bool.not_eq_false', decide_eq_false_iff_not, bne_eq_false_iff_eq,
      Bool.or_eq_true, decide_eq_true_eq, Decidable.not_not, Bool.not_eq_eq_eq_not, Bool.not_true]
    constructor
    · rintro ⟨⟨⟨⟨h1, h2⟩, h3⟩, h4⟩, h5⟩
      exact ⟨by simpa using h1, h2, h3, h4, by simpa using h5⟩
    · rintro ⟨h1, h2, h3, h4, h5⟩
      exact ⟨⟨⟨⟨by simpa using h1, h2⟩, h3⟩, h4⟩, by simpa using h5⟩

/-- **Semantic form.** When both subjects are valid, the last binding condition says: every concrete
subject the import can reach is granted by the token (C16). -/
theorem bound_subject_semantic (i : Val) (grant : Str)
    (hp : C16.ValidSubj (importedSubject i)) (hq : C16.ValidSubj grant) :
    isContainedIn (importedSubject i) grant = true ↔
      ∀ s, C16.LitSubj s → C16.Matches (importedSubject i) s → C16.Matches grant s :=
  C16.contained_iff _ _ hp hq

/-- the token's expiry is deliberately not considered: import validation does not read the clock at all,
and never raises a time-check issue -/
theorem import_token_time_free (cr : Crypto) (acct : Str) (iv : Val) : timeCount (validateImport cr acct iv) = 0 :=
  tc_validateImport cr acct iv

/-- a token that cannot be decoded as an activation always blocks -/
theorem undecodable_blocks (cr : Crypto) (acct : Str) (iv i : Val) (hd : iv.deref = some i)
    (htok : (i.field "token").asStr ≠ []) (e : DecErr)
    (hdec : decodeTyped .activation cr (i.field "token").asStr = .error e) :
    blk (validateImport cr acct iv) = true := by
  rw [import_row]
  unfold badImport
  simp only [hd]
  have : badImportToken cr acct i = true := by
    unfold badImportToken
    simp [htok, hdec]
  simp [this]

end Jwt.C10
