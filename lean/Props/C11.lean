import Props.FnTie
import Props.C06
import JwtProofs.Creds
import JwtProofs.Decode
import JwtModel.Encode
/-!
# C11 — no panic on untrusted input (partial: package logic proved, runtime-library behaviour trusted)

A Go panic in this package can only come from an implicit run-time check: an index or slice out of range, a
nil pointer / nil list element used, a store into a nil map, an Ed25519 key of the wrong size.
The model makes each of these explicit:
* list elements are `Val`s that may be `.nil`; every model function that walks a list handles `.nil` itself
  (`Val.deref`), so a missing guard in the code shows up as a *disagreement* with the model and as a panic caught by
  the oracle;
* the theorems below show, for the arithmetic guards, that the guard the code tests is *sufficient* for the access
  it protects — for every input;
* what the theorems cannot reach — panics inside `encoding/json`, `regexp`, `base64`, `net/url`, `time`, `fmt`,
  `reflect`, `sort`, nkeys, stack exhaustion, allocation — is covered only by the crash-hunting correspondence
  stream (structural null-mutation of signed tokens × every public operation) and named as the runtime part.
-/
namespace Jwt.C11
open Jwt Jwt.Codec

/-- **Ed25519 precondition.** `verify` reaches the signature check only with a 32-byte key (repair D11):
whenever it answers "valid", the key handed to Ed25519 had the right size. -/
theorem verify_key_size (cr : Crypto) (issuer text : Str) (sig : Bytes) (h : verifySig cr issuer text sig = true) :
    ∃ pk, NKey.rawKey issuer = some pk ∧ pk.length = 32 := by
  obtain ⟨pk, hk, hl, _⟩ := verifySig_inv cr issuer text sig h
  exact ⟨pk, hk, hl⟩

/-- a model of the raw call: Ed25519 panics on a key that is not 32 bytes long -/
def ed25519Checked (cr : Crypto) (pk msg sig : Bytes) : Option Bool :=
  if pk.length = 32 then some (cr.verify pk msg sig) else none

/-- … and for *every* issuer string, valid or not, the guarded call never hits that panic -/
theorem verify_never_panics (cr : Crypto) (issuer text : Str) (sig : Bytes) :
    ∃ b, (match NKey.rawKey issuer with
          | some pk => if pk.length = 32 then ed25519Checked cr pk (Utf8.encode text) sig else some false
          | none => some false) = some b ∧ b = verifySig cr issuer text sig := by
  unfold verifySig ed25519Checked
  cases hk : NKey.rawKey issuer with
  | none => exact ⟨false, rfl, rfl⟩
  | some pk =>
    by_cases hl : pk.length = 32
    · exact ⟨cr.verify pk (Utf8.encode text) sig, by simp [hl], by simp [hl]⟩
    · exact ⟨false, by simp [hl], by simp [hl]⟩

/-- **`token[:len(h)+len(p)+1]`** is within the token whenever the split produced three chunks. -/
theorem signed_slice_in_range (tok h p s : Str) (hs : splitOn '.' tok = [h, p, s]) :
    h.length + p.length + 1 ≤ tok.length ∧ tok.take (h.length + p.length + 1) = h ++ '.' :: p := by
  have hj := join_splitOn '.' tok
  rw [hs] at hj
  have e : tok = h ++ '.' :: (p ++ '.' :: s) := by simpa [join] using hj.symm
  subst e
  constructor
  · simp; omega
  · have : h ++ '.' :: (p ++ '.' :: s) = (h ++ '.' :: p) ++ ('.' :: s) := by simp
    rw [this, List.take_append_of_le_length (by simp; omega)]
    rw [List.take_of_length_le (by simp; omega)]

/-- **`token[e.AccountTokenPosition-1]`** is only read when the guard `0 < pos ≤ len(tokens)` held. -/
theorem token_position_in_range (subject : Str) (pos : Int) (hpos : pos > 0)
    (hle : ¬ (pos > (splitOn '.' subject).length)) : pos.toNat - 1 < (splitOn '.' subject).length := by
  have : (pos.toNat : Int) = pos := Int.toNat_of_nonneg (by omega)
  omega

/-- **`tk[0]`, `tk[1:]`** in the `$n` reference test are only reached for tokens of at least two bytes. -/
theorem ref_token_long_enough (tk : Str) (n : Int) (h : refIndex tk = some n) : 2 ≤ utf8Len tk := by
  unfold refIndex at h
  split at h
  · cases h
  · omega

/-- **`ts[0:2]`** in `DecorateSeed`: a seed is decorated only if it has its two prefix characters. -/
theorem decorateSeed_needs_prefix (seed d : Str) (h : Creds.decorateSeed seed = some d) : 2 ≤ (trimSpace seed).length := by
  unfold Creds.decorateSeed at h
  generalize trimSpace seed = ts at h
  match ts, h with
  | [], h => simp at h
  | [_], h => simp at h
  | _ :: _ :: _, _ => simp

/-- **Null list entries are reported, not dereferenced**: a null export / import is answered with a blocking issue
by the per-entry validation, and skipped by every loop that reads a field of the entry. -/
theorem null_export_reported (env : VEnv) (ev : Val) (h : ev.deref = none) : blk (validateExport env ev) = true := by
  unfold validateExport; rw [h]; rfl
theorem null_import_reported (cr : Crypto) (acct : Str) (iv : Val) (h : iv.deref = none) : blk (validateImport cr acct iv) = true := by
  unfold validateImport; rw [h]; rfl
theorem null_export_skipped_by_wildcard_loop (evs : List Val) (h : ∀ ev ∈ evs, ev.deref = none) :
    wildcardExportIssues evs = [] := by
  unfold wildcardExportIssues
  induction evs with
  | nil => rfl
  | cons e es ih =>
    simp only [List.flatMap_cons, h e (by simp)]
    exact ih (fun x hx => h x (by simp [hx]))

/-- sorting imports / exports compares null entries without reading them (repair D12): `entryLe` is total -/
theorem entryLe_total_on_nulls (a b : Val) (ha : subjectOfEntry a = none) : entryLe a b = true := by
  unfold entryLe; rw [ha]

/-- the credential matcher is a total function of its input and consumes it (it cannot loop) -/
theorem matcher_progress (l cap rest : Str) (h : Creds.matchHere l = some (cap, rest)) : rest.length < l.length :=
  Creds.matchHere_length l cap rest h

end Jwt.C11
