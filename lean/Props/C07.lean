import JwtProofs.Validate
import JwtModel.Gen.Validation
import Props.FnTie
import Props.C06
/-!
# C07 — expiry and not-before are enforced for every claim kind

Model: `Jwt.validate` (JwtModel/Validate.lean), tied to the code by the correspondence stream `C07`/`C06`
and by the regenerated validation call graph (`Gen.claimsDataValidateCalls`, `Gen.timeCheckSites`).
`now` is a parameter (the wall clock); all quantities are unbounded integers.
-/
namespace Jwt.C07
open Jwt

def expired (now : Int) (c : Claims) : Prop := 0 < (c.val.field "exp").asInt ∧ (c.val.field "exp").asInt < now
def notYetValid (now : Int) (c : Claims) : Prop := 0 < (c.val.field "nbf").asInt ∧ now < (c.val.field "nbf").asInt

instance (now : Int) (c : Claims) : Decidable (expired now c) := by unfold expired; infer_instance
instance (now : Int) (c : Claims) : Decidable (notYetValid now c) := by unfold notYetValid; infer_instance

/-- **Exactly the two time checks.** For claims of any kind, validation raises one time-check issue for a
positive expiry in the past, one for a positive not-before in the future, and no other. -/
theorem time_issue_count (env : VEnv) (cr : Crypto) (now : Int) (c : Claims) :
    timeCount (validate env cr now c) =
      (if expired now c then 1 else 0) + (if notYetValid now c then 1 else 0) := by
  have h := tc_validateClaimsData now c.val
  unfold validate expired notYetValid
  cases hk : c.kind <;>
    simp [validateOperator, validateAccount, validateUser, validateActivation, validateAuthRequest,
      validateAuthResponse, h, timeCount_flatMap]

/-- every issue `Validate` can raise is either blocking, a warning, or a time check — a time-check issue
never carries the blocking flag -/
theorem time_issue_not_blocking_flag (env : VEnv) (cr : Crypto) (now : Int) (c : Claims) :
    ∀ i ∈ validateClaimsData now c.val, i.timeCheck = true ∧ i.blocking = false := by
  intro i hi
  unfold validateClaimsData at hi
  simp only [List.mem_append] at hi
  rcases hi with hi | hi <;> (split at hi <;> simp [timeI] at hi <;> subst hi <;> exact ⟨rfl, rfl⟩)

/-- **Blocking only on request.** `IsBlocking(true)` is `IsBlocking(false)` or the presence of a time issue. -/
theorem isBlocking_split (r : List Issue) :
    isBlocking r true = (isBlocking r false || decide (0 < timeCount r)) := by
  induction r with
  | nil => rfl
  | cons i r ih =>
    simp only [isBlocking, List.any_cons, Bool.true_and, Bool.false_and, Bool.or_false] at ih ⊢
    rw [ih]
    cases hb : i.blocking <;> cases ht : i.timeCheck <;> simp [timeCount, List.filter_cons, ht]

/-- an import's activation token never contributes a time-check issue (its expiry is deliberately ignored) -/
theorem import_token_expiry_ignored (cr : Crypto) (acct : Str) (i : Val) :
    timeCount (validateImport cr acct i) = 0 := tc_validateImport cr acct i

/-- **Generated obligation.** In today's source every kind's `Validate` reaches `ClaimsData.Validate`
(activation: inside `validateWithTimeChecks`, guarded by the constant `true` passed by `Validate`), and
`ClaimsData.Validate` is the only function that raises time-check issues. -/
theorem gen_call_graph :
    Gen.claimsDataValidateCalls = [
      "AccountClaims.Validate -> ClaimsData.Validate unconditional",
      "ActivationClaims.validateWithTimeChecks -> ClaimsData.Validate conditional",
      "AuthorizationRequestClaims.Validate -> ClaimsData.Validate unconditional",
      "AuthorizationResponseClaims.Validate -> ClaimsData.Validate unconditional",
      "GenericClaims.Validate -> ClaimsData.Validate unconditional",
      "OperatorClaims.Validate -> ClaimsData.Validate unconditional",
      "UserClaims.Validate -> ClaimsData.Validate unconditional"] ∧
    Gen.timeCheckSites = ["ClaimsData.Validate", "ClaimsData.Validate"] ∧
    Gen.withTimeChecksCalls = ["ActivationClaims.Validate:true", "Import.Validate:false"] := by decide

/-! ### Non-vacuity -/
private def sample (exp nbf : Int) : Claims :=
  ⟨.generic, .struct [("exp".toList, .int exp), ("nbf".toList, .int nbf)]⟩
example : expired 100 (sample 5 0) ∧ ¬ notYetValid 100 (sample 5 0) := by decide
example : ¬ expired 100 (sample (-5) 200) ∧ notYetValid 100 (sample (-5) 200) := by decide

/-! ## The same statement about the code translated from today's source -/

open Jwt.FnTie Jwt.Gen.Fn in
/-- **C07 for the translated code.** For every claim kind, the validators translated from today's source, followed by
`IsBlocking(true)`, never panic and answer `true` exactly when a catalogue row is violated or the claims are expired
or not yet valid at `now`; with `IsBlocking(false)` the clock plays no part (`C06.gen_blocking_iff`). -/
theorem gen_time_blocking (env : VEnv) (cr : Crypto) (opq : V2.Opq) (ok : OpqOk env cr opq) (now : Int) (c : Claims) :
    ∃ w, C06.genValidate opq now c = some w ∧
      V2.ValidationResults_IsBlocking w true =
        some (C06.bad env cr c || decide (expired now c ∨ notYetValid now c)) := by
  obtain ⟨l, h, hp⟩ := C06.genValidate_eq env cr opq ok now c
  refine ⟨_, h, ?_⟩
  rw [isBlocking_push_vr0, isBlocking_perm hp, isBlocking_split, C06.blocking_iff, time_issue_count]
  by_cases h1 : expired now c <;> by_cases h2 : notYetValid now c <;> simp [h1, h2]

end Jwt.C07
