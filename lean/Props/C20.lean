import JwtProofs.Lists
import JwtProofs.Text
import Props.FnTie
/-!
# C20 — tag, string and source-network lists behave as duplicate-free ordered sets

Model: `Jwt.Lists` (JwtModel/Lists.lean) — `TagList/StringList.{Add, Remove, Contains}`, `CIDRList.Set`,
tied to the code by the correspondence stream `C20`. Specification: the abstract insertion-ordered set
(`sAdd` appends a normalised non-empty element that is absent, `sRemove` deletes it). Histories are
unbounded; elements are arbitrary strings.
-/
namespace Jwt.C20
open Jwt Jwt.Lists

theorem normTag_idem (x : Str) : normTag (normTag x) = normTag x := Jwt.normTag_idem x

/-- run a history of single-argument adds/removes (multi-argument calls are folds of these: `tagAdd`, `tagRemove`) -/
def runTag (h : List (Op Str)) : List Str := h.foldl (step normTag []) []
def specTag (h : List (Op Str)) : List Str := h.foldl (sStep normTag []) []
def runStr (h : List (Op Str)) : List Str := h.foldl (step id []) []
def specStr (h : List (Op Str)) : List Str := h.foldl (sStep id []) []

/-- **Tag lists.** After any history the slice is the abstract ordered set: duplicate-free, every element
lower-cased, trimmed and non-empty, in first-insertion order (since its last removal). -/
theorem tag_ordered_set (h : List (Op Str)) :
    runTag h = specTag h ∧ (runTag h).Nodup ∧ ∀ x ∈ runTag h, normTag x = x ∧ x ≠ [] := by
  have := ordered_set normTag [] normTag_idem h [] ⟨List.nodup_nil, by simp⟩
  exact ⟨this.1, this.2.1, this.2.2⟩

/-- **String lists.** The same without case folding or trimming. -/
theorem str_ordered_set (h : List (Op Str)) :
    runStr h = specStr h ∧ (runStr h).Nodup ∧ ∀ x ∈ runStr h, x ≠ [] := by
  have := ordered_set id [] (fun _ => rfl) h [] ⟨List.nodup_nil, by simp⟩
  exact ⟨this.1, this.2.1, fun x hx => (this.2.2 x hx).2⟩

/-- **Membership** is answered on the normalised query (case-insensitively, ignoring surrounding blanks). -/
theorem tag_contains_iff (l : List Str) (p : Str) : tagContains l p = true ↔ normTag p ∈ l :=
  contains_iff normTag normTag_idem l p
theorem str_contains_iff (l : List Str) (p : Str) : strContains l p = true ↔ p ∈ l :=
  contains_iff id (fun _ => rfl) l p

/-- what the abstract operations mean: add inserts (only) the normalised non-empty tag, remove deletes (only) it -/
theorem spec_add_mem (s : List Str) (v x : Str) : x ∈ sAdd [] s v ↔ x ∈ s ∨ (x = v ∧ v ≠ []) := mem_sAdd normTag [] normTag_idem s v x
theorem spec_remove_mem (s : List Str) (v x : Str) : x ∈ sRemove s v ↔ x ∈ s ∧ x ≠ v := mem_sRemove s v x
/-- adding keeps existing elements in place (first-insertion order) -/
theorem spec_add_prefix (s : List Str) (v : Str) : s <+: sAdd [] s v := by
  unfold sAdd; split
  · exact List.prefix_refl s
  · exact List.prefix_append s [v]
/-- removing keeps the relative order of the others -/
theorem spec_remove_sublist (s : List Str) (v : Str) : (sRemove s v).Sublist s := by
  unfold sRemove; exact List.filter_sublist

/-- multi-argument `Add` / `Remove` are folds of the single-argument steps -/
theorem tagAdd_eq (l ps : List Str) : tagAdd l ps = (ps.map Op.add).foldl (step normTag []) l := by
  simp [tagAdd, List.foldl_map, step]
theorem tagRemove_eq (l ps : List Str) : tagRemove l ps = (ps.map Op.remove).foldl (step normTag []) l := by
  simp [tagRemove, List.foldl_map, step]

/-! ### Source-network lists: array form vs comma-separated form -/

theorem goLower_join (ts : List Str) : goLower (join ',' ts) = join ',' (ts.map goLower) := by
  induction ts with
  | nil => rfl
  | cons t ts ih =>
    cases ts with
    | nil => simp [join]
    | cons u us =>
      simp only [join, List.map_cons] at ih ⊢
      simp only [goLower, List.map_append, List.map_cons] at ih ⊢
      rw [ih]
      rfl

theorem goLower_of_norm (e : Str) (h : normTag e = e) : goLower e = e := by
  have : goLower (normTag e) = normTag e := by unfold normTag; exact goLower_idem _
  rw [h] at this; exact this

theorem foldl_add_fresh (es l : List Str) (hnd : (l ++ es).Nodup) (hn : ∀ e ∈ es, normTag e = e ∧ e ≠ []) :
    es.foldl (add1 normTag []) l = l ++ es := by
  induction es generalizing l with
  | nil => simp
  | cons e es ih =>
    have he := hn e (by simp)
    have hnot : e ∉ l := by
      intro hm
      have := List.nodup_append.mp hnd
      exact this.2.2 e hm e (by simp) rfl
    have hstep : add1 normTag [] l e = l ++ [e] := by
      rw [add1_spec normTag [] normTag_idem, he.1]
      simp [sAdd, hnot, he.2]
    simp only [List.foldl_cons, hstep]
    rw [ih (l ++ [e]) (by simpa using hnd) (fun x hx => hn x (by simp [hx]))]
    simp

/-- **Dual form.** For an entry list already in the list's normal form (lower-case, trimmed, non-empty,
duplicate-free, comma-free) the comma-separated string form decodes to the same entries as the array form
(which stores its entries verbatim). -/
theorem cidr_dual_form (es : List Str) (hn : ∀ e ∈ es, normTag e = e ∧ e ≠ [] ∧ ',' ∉ e) (hd : es.Nodup) :
    cidrSet (join ',' es) = es := by
  unfold cidrSet
  rw [goLower_join]
  have hmap : es.map goLower = es := by
    rw [List.map_congr_left (g := id)]
    · simp
    · intro e he; exact goLower_of_norm e (hn e he).1
  rw [hmap]
  cases es with
  | nil => decide
  | cons e es' =>
    rw [splitOn_join ',' _ (by simp) (fun t ht => (hn t ht).2.2)]
    have := foldl_add_fresh (e :: es') [] (by simpa using hd) (fun x hx => ⟨(hn x hx).1, (hn x hx).2.1⟩)
    simpa [tagAdd] using this

/-! ### Non-vacuity -/
example : runTag [.add " A ".toList, .add "b".toList, .add "a".toList, .remove "B ".toList, .add "".toList]
    = ["a".toList] := by decide
example : cidrSet "10.0.0.0/8,192.168.1.0/24".toList = ["10.0.0.0/8".toList, "192.168.1.0/24".toList] := by decide
example : cidrSet " A,a ,,b".toList = ["a".toList, "b".toList] := by decide

end Jwt.C20
