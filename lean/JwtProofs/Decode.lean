import JwtModel.Decode
import JwtProofs.Text
import JwtProofs.Val
/-! Inversion lemmas for the decode pipeline: what must have happened whenever a decoder returned claims. -/
namespace Jwt
open Jwt.Codec

theorem verifySig_inv (cr : Crypto) (issuer text : Str) (sig : Bytes) (h : verifySig cr issuer text sig = true) :
    ∃ pk, NKey.rawKey issuer = some pk ∧ pk.length = 32 ∧ cr.verify pk (Utf8.encode text) sig = true := by
  unfold verifySig at h
  cases hk : NKey.rawKey issuer with
  | none => simp [hk] at h
  | some pk =>
    simp only [hk, Bool.and_eq_true, beq_iff_eq] at h
    exact ⟨pk, rfl, h.1, h.2⟩

theorem parseHeaders_inv (seg : Str) (header : Header) (h : parseHeaders seg = .ok header) :
    headerValid header = true ∧ ∃ bs, B64.decodeString seg = some bs := by
  unfold parseHeaders at h
  cases h1 : segmentText seg with
  | error e => simp [h1, bind, Except.bind] at h
  | ok text =>
    have hb : ∃ bs, B64.decodeString seg = some bs := by
      unfold segmentText at h1
      cases hb : B64.decodeString seg with
      | none => simp [hb] at h1
      | some bs => exact ⟨bs, rfl⟩
    cases h2 : parseJsonText text with
    | error e => simp [h1, h2, bind, Except.bind] at h
    | ok j =>
      cases h3 : decodeJson Gen.V2.Header (zero Gen.V2.Header) j with
      | error e => simp [h1, h2, h3, bind, Except.bind] at h
      | ok v =>
        simp only [h1, h2, h3, bind, Except.bind, pure, Except.pure] at h
        split at h
        · next hv => injection h with h; subst h; exact ⟨hv, hb⟩
        · cases h

/-- `Header.Valid` accepts exactly: type JWT and one of the two algorithm names, both compared
case-insensitively. The prefix test is redundant. -/
theorem headerValid_iff (h : Header) :
    headerValid h = true ↔
      goUpper h.typ = Gen.V2.cTokenTypeJwt ∧
      (goLower h.alg = Gen.V2.cAlgorithmNkeyOld ∨ goLower h.alg = Gen.V2.cAlgorithmNkey) := by
  unfold headerValid
  simp only [Bool.and_eq_true, decide_eq_true_eq, Bool.or_eq_true]
  constructor
  · rintro ⟨⟨h1, _⟩, h3⟩
    exact ⟨h1.symm, h3.imp Eq.symm Eq.symm⟩
  · rintro ⟨h1, h3⟩
    refine ⟨⟨h1.symm, ?_⟩, h3.imp Eq.symm Eq.symm⟩
    rcases h3 with e | e <;> rw [e] <;> decide

theorem kindOfType_ne_generic (t : Str) (k : Kind) (h : kindOfType t = some k) : k ≠ .generic := by
  unfold kindOfType at h
  repeat (split at h; · injection h with h; subst h; decide)
  cases h

/-- the four kinds with a version switch decode only versions 1 and 2 -/
theorem loadTyped_version (k : Kind) (ver : Int) (j : Json) (v : Val)
    (hk : k = .operator ∨ k = .account ∨ k = .user ∨ k = .activation) (h : loadTyped k ver j = .ok v) :
    ver = 1 ∨ ver = 2 := by
  by_cases h1 : ver = 1
  · exact Or.inl h1
  · by_cases h2 : ver = 2
    · exact Or.inr h2
    · rcases hk with rfl | rfl | rfl | rfl <;> simp [loadTyped, h1, h2] at h

theorem loadClaims_inv (j : Json) (ver0 : Int) (c : Claims) (h : loadClaims j = .ok (ver0, c)) :
    ∃ id, identOf j = .ok id ∧ id.version ≤ Gen.V2.clibVersion ∧
      ((∃ k, kindOfType id.kindStr = some k ∧ c.kind = k ∧ ver0 = id.version ∧ loadTyped k id.version j = .ok c.val) ∨
       (kindOfType id.kindStr = none ∧ id.kindStr ≠ lit "cluster" ∧ id.kindStr ≠ lit "server" ∧
         c.kind = .generic ∧ ver0 = -1)) := by
  unfold loadClaims at h
  cases h1 : identOf j with
  | error e => simp [h1, bind, Except.bind] at h
  | ok id =>
    simp only [h1, bind, Except.bind] at h
    split at h
    · cases h
    · next hv =>
      refine ⟨id, rfl, Int.not_lt.mp hv, ?_⟩
      cases hk : kindOfType id.kindStr with
      | some k =>
        simp only [hk] at h
        cases hl : loadTyped k id.version j with
        | error e => simp [hl, bind, Except.bind] at h
        | ok v =>
          simp only [hl, bind, Except.bind, pure, Except.pure, Except.ok.injEq, Prod.mk.injEq] at h
          obtain ⟨rfl, rfl⟩ := h
          exact Or.inl ⟨k, rfl, rfl, rfl, hl⟩
      | none =>
        simp only [hk] at h
        split at h
        · cases h
        · next hcs =>
          cases hl : loadTyped .generic 0 j with
          | error e => simp [hl, bind, Except.bind] at h
          | ok v =>
            simp only [hl, bind, Except.bind, pure, Except.pure, Except.ok.injEq, Prod.mk.injEq] at h
            obtain ⟨rfl, rfl⟩ := h
            refine Or.inr ⟨rfl, ?_, ?_, rfl, rfl⟩
            · intro e; exact hcs (Or.inl e)
            · intro e; exact hcs (Or.inr e)

theorem decode_ok_inv (cr : Crypto) (tok : Str) (c : Claims) (hd : decode cr tok = .ok c) :
    ∃ h p s header text j ver0 sig,
      splitOn '.' tok = [h, p, s] ∧ parseHeaders h = .ok header ∧ segmentText p = .ok text ∧
      parseJsonText text = .ok j ∧ loadClaims j = .ok (ver0, c) ∧ B64.decodeString s = some sig ∧
      verifySig cr c.issuer (signedText header ver0 c.kind h p) sig = true ∧
      roleGate Gen.V2.decodeArms (expectedPrefixes c.kind) c.issuer = true := by
  unfold decode at hd
  split at hd
  · next h p s hs =>
    cases h1 : parseHeaders h with
    | error e => simp [h1, bind, Except.bind] at hd
    | ok header =>
      cases h2 : segmentText p with
      | error e => simp [h1, h2, bind, Except.bind] at hd
      | ok text =>
        cases h3 : parseJsonText text with
        | error e => simp [h1, h2, h3, bind, Except.bind] at hd
        | ok j =>
          cases h4 : loadClaims j with
          | error e => simp [h1, h2, h3, h4, bind, Except.bind] at hd
          | ok vc =>
            obtain ⟨ver0, claim⟩ := vc
            cases h5 : B64.decodeString s with
            | none => simp [h1, h2, h3, h4, h5, bind, Except.bind] at hd
            | some sig =>
              simp only [h1, h2, h3, h4, h5, bind, Except.bind, pure, Except.pure] at hd
              by_cases hv : verifySig cr claim.issuer (signedText header ver0 claim.kind h p) sig = true
              · by_cases hr : roleGate Gen.V2.decodeArms (expectedPrefixes claim.kind) claim.issuer = true
                · simp only [hv, hr, Bool.not_true, Bool.false_eq_true, if_false, Except.ok.injEq] at hd
                  subst hd
                  exact ⟨h, p, s, header, text, j, ver0, sig, hs, h1, h2, h3, h4, h5, hv, hr⟩
                · simp [hv, hr] at hd
              · simp [hv] at hd
  · cases hd

theorem decodeTyped_ok_inv (k : Kind) (cr : Crypto) (tok : Str) (c : Claims) (h : decodeTyped k cr tok = .ok c) :
    decode cr tok = .ok c ∧ c.kind = k := by
  unfold decodeTyped at h
  cases hd : decode cr tok with
  | error e => simp [hd, bind, Except.bind] at h
  | ok c' =>
    simp only [hd, bind, Except.bind, pure, Except.pure] at h
    split at h
    · next hk => injection h with h; subst h; exact ⟨rfl, hk⟩
    · cases h

theorem decodeGeneric_ok_inv (cr : Crypto) (tok : Str) (c : Claims) (hd : decodeGeneric cr tok = .ok c) :
    ∃ h p s header text j gc sig,
      splitOn '.' tok = [h, p, s] ∧ parseHeaders h = .ok header ∧ segmentText p = .ok text ∧
      parseJsonText text = .ok j ∧
      decodeJson Gen.V2.decodeGenericTarget (zero Gen.V2.decodeGenericTarget) j = .ok gc ∧
      B64.decodeString s = some sig ∧ c.kind = .generic ∧ c.issuer = (gc.field "iss").asStr ∧
      verifySig cr (gc.field "iss").asStr (genericSignedText header h p) sig = true := by
  unfold decodeGeneric at hd
  split at hd
  · next h p s hs =>
    cases h1 : parseHeaders h with
    | error e => simp [h1, bind, Except.bind] at hd
    | ok header =>
      cases h2 : segmentText p with
      | error e => simp [h1, h2, bind, Except.bind] at hd
      | ok text =>
        cases h3 : parseJsonText text with
        | error e => simp [h1, h2, h3, bind, Except.bind] at hd
        | ok j =>
          cases h4 : decodeJson Gen.V2.decodeGenericTarget (zero Gen.V2.decodeGenericTarget) j with
          | error e => simp [h1, h2, h3, h4, bind, Except.bind] at hd
          | ok gc =>
            cases h5 : B64.decodeString s with
            | none => simp [h1, h2, h3, h4, h5, bind, Except.bind] at hd
            | some sig =>
              simp only [h1, h2, h3, h4, h5, bind, Except.bind, pure, Except.pure] at hd
              by_cases hv : verifySig cr (gc.field "iss").asStr (genericSignedText header h p) sig = true
              · refine ⟨h, p, s, header, text, j, gc, sig, hs, h1, h2, h3, h4, h5, ?_, ?_, hv⟩
                · split at hd <;> simp only [hv, Bool.not_true, Bool.false_eq_true, if_false, Except.ok.injEq] at hd <;> subst hd <;> rfl
                · split at hd <;> simp only [hv, Bool.not_true, Bool.false_eq_true, if_false, Except.ok.injEq] at hd <;> subst hd
                  · show ((((zero Gen.V2.GenericClaims).copyFrom gc ("nats" :: claimsDataKeys)).set "nats" _).field "iss").asStr = _
                    rw [Val.field_set_ne _ _ _ _ (by decide), generic_copy_iss]
                  · show ((((zero Gen.V2.GenericClaims).copyFrom gc ("nats" :: claimsDataKeys))).field "iss").asStr = _
                    rw [generic_copy_iss]
              · split at hd <;> simp [hv] at hd
  · cases hd

end Jwt
