import JwtModel.Decode
/-! Lemmas about struct values: reading a field after writing one. -/
namespace Jwt
open Jwt.Codec

theorem getField_setField (fs : List (Str × Val)) (k k' : Str) (x : Val) :
    getField (setField fs k x) k' =
      if k' = k then (if fs.any (fun f => f.1 = k) then some x else none) else getField fs k' := by
  induction fs with
  | nil => simp [getField, setField]
  | cons f fs ih =>
    obtain ⟨fk, fv⟩ := f
    simp only [getField, setField, List.map_cons, List.find?_cons, List.any_cons] at ih ⊢
    by_cases h1 : fk = k
    · subst h1
      by_cases h2 : k' = fk
      · subst h2; simp
      · have : ¬ fk = k' := fun e => h2 e.symm
        simp only [if_true, decide_eq_true_eq, this, decide_false, h2, if_false]
        simpa [getField, setField, h2] using ih
    · by_cases h2 : k' = k
      · subst h2
        simp only [h1, if_false, decide_false, Bool.false_or, if_true]
        simpa [getField, setField] using ih
      · simp only [h1, if_false, h2]
        by_cases h3 : fk = k'
        · simp [h3]
        · simp only [h3, decide_false]
          simpa [getField, setField, h2] using ih

def Val.hasKey (v : Val) (k : String) : Bool :=
  match v with
  | .struct fs => fs.any (fun f => f.1 = k.toList)
  | _ => false

theorem any_setField (fs : List (Str × Val)) (k k' : Str) (x : Val) :
    (setField fs k x).any (fun f => f.1 = k') = fs.any (fun f => f.1 = k') := by
  induction fs with
  | nil => rfl
  | cons f fs ih =>
    simp only [setField, List.map_cons, List.any_cons] at ih ⊢
    rw [ih]
    by_cases h : f.1 = k <;> simp [h]

theorem Val.hasKey_set (v : Val) (k k' : String) (x : Val) : (v.set k x).hasKey k' = v.hasKey k' := by
  cases v <;> simp [Val.set, Val.hasKey, any_setField]

theorem Val.field_set_ne (v : Val) (k k' : String) (x : Val) (h : k'.toList ≠ k.toList) :
    (v.set k x).field k' = v.field k' := by
  cases v <;> simp [Val.set, Val.field, getField_setField, h]

theorem Val.field_set_eq (v : Val) (k : String) (x : Val) (h : v.hasKey k = true) :
    (v.set k x).field k = x := by
  cases v <;> simp_all [Val.set, Val.field, Val.hasKey, getField_setField]


/-- the issuer survives the copy `DecodeGeneric` makes of the decoded anonymous struct -/
theorem generic_copy_iss (gc : Val) :
    (((zero Gen.V2.GenericClaims).copyFrom gc ("nats" :: claimsDataKeys)).field "iss") = gc.field "iss" := by
  simp only [Val.copyFrom, claimsDataKeys, List.foldl_cons, List.foldl_nil]
  rw [Val.field_set_ne _ _ _ _ (by decide)]
  rw [Val.field_set_ne _ _ _ _ (by decide)]
  rw [Val.field_set_ne _ _ _ _ (by decide)]
  rw [Val.field_set_eq]
  simp only [Val.hasKey_set]
  decide

end Jwt
