import JwtModel.Decode
/-! Lemmas about struct values: reading a field after writing one. -/
namespace Jwt
open Jwt.Codec

theorem getField_setField (fs : List (Str × Val)) (k k' : Str) (x : Val) :
    getField (setField fs k x) k' =
      if k' = k then (if fs.any (fun f => f.1 = k) then some x else none) else getField fs k' := by
  induction fs with
  | nil => simp [getField, setField]
  | cons f fs ih =>
    obtain ⟨fk, fv⟩ := f
    simp only [getField, setField, List.map_cons, List.find?_cons, List.any_cons] at ih ⊢
    by_cases h1 : fk = k
    · subst h1
      by_cases h2 : k' = fk
      · subst h2; simp
      · have : ¬ fk = k' := fun e => h2 e.symm
        simp only [if_true, decide_eq_true_eq, this, decide_false, h2, if_false]
        simpa [getField, setField, h2] using ih
    · by_cases h2 : k' = k
      · subst h2
        simp only [h1, if_false, decide_false, Bool.false_or, if_true]
        simpa [getField, setField] using ih
      · simp only [h1, if_false, h2]
        by_cases h3 : fk = k'
        · simp [h3]
        · simp only [h3, decide_false]
          simpa [getField, setField, h2] using ih

def Val.hasKey (v : Val) (k : String) : Bool :=
  match v with
  | .struct fs => fs.any (fun f => f.1 = k.toList)
  | _ => false

theorem any_setField (fs : List (Str × Val)) (k k' : Str) (x : Val) :
    (setField fs k x).any (fun f => f.1 = k') = fs.any (fun f => f.1 = k') := by
  induction fs with
  | nil => rfl
  | cons f fs ih =>
    simp only [setField, List.map_cons, List.any_cons] at ih ⊢
    rw [ih]
    by_cases h : f.1 = k <;> simp [h]

theorem Val.hasKey_set (v : Val) (k k' : String) (x : Val) : (v.set k x).hasKey k' = v.hasKey k' := by
  cases v <;> simp [Val.set, Val.hasKey, any_setField]

theorem Val.field_set_ne (v : Val) (k k' : String) (x : Val) (h : k'.toList ≠ k.toList) :
    (v.set k x).field k' = v.field k' := by
  cases v <;> simp [Val.set, Val.field, getField_setField, h]

theorem Val.field_set_eq (v : Val) (k : String) (x : Val) (h : v.hasKey k = true) :
    (v.set k x).field k = x := by
  cases v <;> simp_all [Val.set, Val.field, Val.hasKey, getField_setField]


theorem getField_none_of_not_any (fs : List (Str × Val)) (k : Str) (h : fs.any (fun f => f.1 = k) = false) :
    getField fs k = none := by
  induction fs with
  | nil => rfl
  | cons f fs ih =>
    simp only [List.any_cons, Bool.or_eq_false_iff, decide_eq_false_iff_not] at h
    simp only [getField, List.find?_cons, h.1, decide_false]
    exact ih h.2

theorem Val.field_set_absent (v : Val) (k : String) (x : Val) (h : v.hasKey k = false) :
    (v.set k x).field k = v.field k := by
  cases v with
  | struct fs =>
    simp only [Val.hasKey] at h
    simp only [Val.set, Val.field, getField_setField, h, if_true, Bool.false_eq_true, if_false,
      getField_none_of_not_any fs _ h]
  | _ => rfl

theorem copyFrom_field (src : Val) (keys : List String) (k : String) : ∀ (d : Val),
    (d.copyFrom src keys).field k =
      if keys.any (fun x => x.toList = k.toList) ∧ d.hasKey k = true then src.field k else d.field k := by
  unfold Val.copyFrom
  induction keys with
  | nil => intro d; simp
  | cons k0 ks ih =>
    intro d
    simp only [List.foldl_cons, List.any_cons]
    rw [ih (d.set k0 (src.field k0))]
    simp only [Val.hasKey_set]
    by_cases h0 : k0.toList = k.toList
    · have hk : k0 = k := by
        have := congrArg String.ofList h0
        simpa using this
      subst hk
      by_cases hd : d.hasKey k0 = true
      · simp only [hd, and_true, decide_true, Bool.true_or, h0, if_true]
        split
        · rfl
        · exact Val.field_set_eq _ _ _ hd
      · have hd' : d.hasKey k0 = false := by simpa using hd
        simp only [hd', and_false, if_false, Bool.false_eq_true]
        exact Val.field_set_absent _ _ _ hd'
    · have h0' : k.toList ≠ k0.toList := fun e => h0 e.symm
      simp only [h0, decide_false, Bool.false_or]
      split
      · rfl
      · exact Val.field_set_ne _ _ _ _ h0'

theorem copyFrom_carried (d src : Val) (keys : List String) (k : String)
    (hm : keys.any (fun x => x.toList = k.toList) = true) (hk : d.hasKey k = true) :
    (d.copyFrom src keys).field k = src.field k := by
  rw [copyFrom_field]; simp only [hm, hk, and_self, if_true]

theorem copyFrom_other (d src : Val) (keys : List String) (k : String)
    (hm : keys.any (fun x => x.toList = k.toList) = false) :
    (d.copyFrom src keys).field k = d.field k := by
  rw [copyFrom_field]; simp [hm]

theorem copyFrom_hasKey (d src : Val) (keys : List String) (k : String) : (d.copyFrom src keys).hasKey k = d.hasKey k := by
  unfold Val.copyFrom
  induction keys generalizing d with
  | nil => rfl
  | cons k0 ks ih => simp only [List.foldl_cons]; rw [ih, Val.hasKey_set]

/-- the issuer survives the copy `DecodeGeneric` makes of the decoded anonymous struct -/
theorem generic_copy_iss (gc : Val) :
    (((zero Gen.V2.GenericClaims).copyFrom gc ("nats" :: claimsDataKeys)).field "iss") = gc.field "iss" := by
  simp only [Val.copyFrom, claimsDataKeys, List.foldl_cons, List.foldl_nil]
  rw [Val.field_set_ne _ _ _ _ (by decide)]
  rw [Val.field_set_ne _ _ _ _ (by decide)]
  rw [Val.field_set_ne _ _ _ _ (by decide)]
  rw [Val.field_set_eq]
  simp only [Val.hasKey_set]
  decide

end Jwt
