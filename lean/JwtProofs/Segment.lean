import JwtProofs.Base64
import JwtProofs.Utf8
import JwtModel.Encode
/-!
# A token segment: `segmentText (b64Text s) = s` — base64url and UTF-8 together
-/
namespace Jwt
open List

namespace B64
theorem encChar_mem (n : Nat) : encChar n ∈ alphabet := by
  unfold encChar
  by_cases h : n < alphabet.length
  · rw [List.getD_eq_getElem?_getD, List.getElem?_eq_getElem h]; exact List.getElem_mem h
  · rw [List.getD_eq_getElem?_getD, List.getElem?_eq_none (by omega)]; decide

theorem alphabet_no_newline : ∀ c ∈ alphabet, c ≠ '\r' ∧ c ≠ '\n' := by decide

theorem encode_mem_alphabet : ∀ (bs : List Nat), ∀ c ∈ encode bs, c ∈ alphabet
  | a :: b :: c :: r => by
    intro x hx
    simp only [encode, mem_cons] at hx
    rcases hx with rfl | rfl | rfl | rfl | hx
    · exact encChar_mem _
    · exact encChar_mem _
    · exact encChar_mem _
    · exact encChar_mem _
    · exact encode_mem_alphabet r x hx
  | [a, b] => by
    intro x hx
    simp only [encode, mem_cons, not_mem_nil, or_false] at hx
    rcases hx with rfl | rfl | rfl <;> exact encChar_mem _
  | [a] => by
    intro x hx
    simp only [encode, mem_cons, not_mem_nil, or_false] at hx
    rcases hx with rfl | rfl <;> exact encChar_mem _
  | [] => by intro x hx; simp [encode] at hx

theorem decodeString_encode (bs : List Nat) (h : ∀ b ∈ bs, b < 256) : decodeString (encode bs) = some bs := by
  unfold decodeString
  have : (encode bs).filter (fun c => decide (c ≠ '\r' ∧ c ≠ '\n')) = encode bs := by
    apply filter_eq_self.mpr
    intro c hc
    have := alphabet_no_newline c (encode_mem_alphabet bs c hc)
    simp [this.1, this.2]
  rw [this]
  exact roundtrip bs h
end B64

/-- **A segment.** What `serialize` writes as a token segment, `decodeString` + UTF-8 decoding read back. -/
theorem segmentText_b64Text (s : Str) : segmentText (b64Text s) = .ok s := by
  unfold segmentText b64Text
  rw [B64.decodeString_encode _ (Utf8.encode_bytes s)]
  simp only [Utf8.decode_encode]

/-- a rendered segment contains no dot (so the three-way split finds the encoder's segments) -/
theorem b64Text_no_dot (s : Str) : '.' ∉ b64Text s := by
  intro h
  have := B64.encode_mem_alphabet _ _ h
  revert this; decide

end Jwt
